#!/bin/sh
# Build the framework from files on disk only (offline): the Coq development (full .vo
# build), the extracted OCaml models and the Go harness binaries, for every claimed property.
set -e
cd "$(dirname "$0")/.."
export GOFLAGS=-mod=mod GOPROXY=off GOSUMDB=off GOTOOLCHAIN=local
python3 tools/setup.py
