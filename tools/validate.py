#!/usr/bin/env python3-vt
"""Validate MANIFEST.json and every evidence/*.json against the schemas under /root/.vp."""
import glob, json, os, sys
import jsonschema
V = os.path.dirname(os.path.dirname(os.path.abspath(__file__)))
bad = 0
m = json.load(open(os.path.join(V, "MANIFEST.json")))
jsonschema.validate(m, json.load(open("/root/.vp/MANIFEST.schema.json")))
es = json.load(open("/root/.vp/EVIDENCE.schema.json"))
for c in m["checks"]:
    p = c["evidence_file"]
    try:
        e = json.load(open(p))
        jsonschema.validate(e, es)
        cov = e["coverage"]
        assert e["property_id"] == c["property_id"]
        assert e["level"] == c["level_claimed"]["category"], (e["level"], c["level_claimed"]["category"])
        if e["level"] == "proof":
            assert cov["obligations"] == cov["discharged"] >= 1, (cov["obligations"], cov["discharged"])
        print("%s ok  level=%s obligations=%s evaluations=%s nontrivial=%s violations=%s wall=%ss" % (
            c["property_id"], e["level"], cov.get("obligations"), cov.get("evaluations"), cov.get("distinct_nontrivial"), e.get("violations"), e.get("wall_s")))
    except Exception as ex:
        bad += 1
        print("%s BAD: %r" % (c["property_id"], ex))
sys.exit(1 if bad else 0)
