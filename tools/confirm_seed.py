#!/usr/bin/env python3
"""Confirm a candidate seeded change in a scratch worktree and, if confirmed, keep it under seeded/<id>/.

  tools/confirm_seed.py --prop C10 --slug bodyerr-shadow --patch P.diff --demo D_test.go \
        --place components/guns/http/demo1_test.go --pkg ./components/guns/http/ --run TestDemo1 \
        --needs "what it needs to manifest" [--notes notes.md] [--skip-suite]

Confirms: (1) patch applies to /repo HEAD and `go build ./...` + `go vet`-less test compile pass; (2) the whole
existing suite passes with the patch (network namespace, fixed ports); (3) the demo FAILS with the patch;
(4) the demo PASSES without it. Nothing is ever applied to /repo itself."""
import argparse
import json
import os
import shutil
import subprocess
import sys

V = os.path.dirname(os.path.dirname(os.path.abspath(__file__)))
ap = argparse.ArgumentParser()
for a in ("prop", "slug", "patch", "demo", "place", "pkg", "needs"):
    ap.add_argument("--" + a, required=True)
ap.add_argument("--run", default=".")
ap.add_argument("--notes", default=None)
ap.add_argument("--skip-suite", action="store_true")
ap.add_argument("--race", action="store_true", help="run the demo under the Go race detector")
ap.add_argument("--repeat", type=int, default=1, help="run the demo up to N times with the patch (fails if any run fails)")
a = ap.parse_args()
wt = "/var/tmp/wt-confirm-%d" % os.getpid()
env = dict(os.environ, GOFLAGS="-mod=mod", GOPROXY="off", GOSUMDB="off", GOTOOLCHAIN="local")
log = []


def run(cmd, **kw):
    r = subprocess.run(cmd, shell=isinstance(cmd, str), cwd=wt, env=env, capture_output=True, text=True, errors="replace", **kw)
    return r.returncode, (r.stdout + r.stderr)


def ns(cmd):
    return "unshare -n sh -c 'ip link set lo up; %s'" % cmd


subprocess.run(["git", "-C", "/repo", "worktree", "remove", "--force", wt], capture_output=True)
subprocess.run(["git", "-C", "/repo", "worktree", "add", "--detach", wt, "HEAD"], check=True, capture_output=True)
ok = True
try:
    head = subprocess.run(["git", "-C", wt, "rev-parse", "HEAD"], capture_output=True, text=True).stdout.strip()
    log.append("base commit: " + head)
    rc, out = run(["git", "apply", os.path.abspath(a.patch)])
    log.append("git apply: rc=%d %s" % (rc, out.strip()))
    if rc != 0:
        ok = False
    if ok:
        rc, out = run("go build ./... && go test -vet=off -count=1 -run '^$' ./... 2>&1 | grep -v '^ok\\|no test files' | head -20")
        log.append("build+test-compile with patch: rc=%d %s" % (rc, out.strip()[-1500:]))
        if rc != 0:
            ok = False
    if ok and not a.skip_suite:
        rc, out = run(ns("go test -vet=off -count=1 -timeout 25m ./... 2>&1 | grep -v \"no test files\""))
        fails = [l for l in out.split("\n") if l.startswith("FAIL") or l.startswith("--- FAIL")]
        if fails:
            # the pristine suite has two known flaky tests: one re-run of the failing packages
            pk = sorted({l.split()[1] for l in fails if l.startswith("FAIL") and len(l.split()) > 1 and "/" in l.split()[1]})
            log.append("suite first run had failures: %s ; re-running those packages" % fails[:5])
            rc2, out2 = run(ns("go test -vet=off -count=1 " + " ".join(pk)))
            fails = [l for l in out2.split("\n") if l.startswith("FAIL") or l.startswith("--- FAIL")]
        npk = len([l for l in out.split("\n") if l.startswith("ok")])
        log.append("full suite with patch: %d packages ok, failures after re-run: %s" % (npk, fails[:5]))
        if fails:
            ok = False
    place = os.path.join(wt, a.place)
    if ok:
        os.makedirs(os.path.dirname(place), exist_ok=True)
        shutil.copyfile(a.demo, place)
        failed_with = False
        for i in range(a.repeat):
            rc, out = run(ns("%sgo test %s-vet=off -count=1 -run \"%s\" %s" % ("CGO_ENABLED=1 " if a.race else "", "-race " if a.race else "", a.run, a.pkg)))
            if rc != 0:
                failed_with = True
                log.append("demo WITH patch (run %d): rc=%d (fails, as required)\n%s" % (i + 1, rc, out.strip()[-1200:]))
                break
        if not failed_with:
            log.append("demo WITH patch passed %d times: NOT confirmed" % a.repeat)
            ok = False
    if ok:
        os.remove(place)
        run(["git", "checkout", "--", "."])
        shutil.copyfile(a.demo, place)
        rc, out = run(ns("%sgo test %s-vet=off -count=1 -run \"%s\" %s" % ("CGO_ENABLED=1 " if a.race else "", "-race " if a.race else "", a.run, a.pkg)))
        log.append("demo WITHOUT patch: rc=%d (must be 0)\n%s" % (rc, out.strip()[-600:]))
        if rc != 0:
            ok = False
finally:
    subprocess.run(["git", "-C", "/repo", "worktree", "remove", "--force", wt], capture_output=True)
print("\n".join(log))
if ok:
    d = os.path.join(V, "seeded", "%s-%s" % (a.prop, a.slug))
    os.makedirs(d, exist_ok=True)
    shutil.copyfile(a.patch, os.path.join(d, "patch.diff"))
    shutil.copyfile(a.demo, os.path.join(d, os.path.basename(a.place)))
    if a.notes and os.path.exists(a.notes):
        shutil.copyfile(a.notes, os.path.join(d, "notes.md"))
    open(os.path.join(d, "confirm.txt"), "w").write("\n".join(log) + "\n")
    json.dump({
        "property": a.prop,
        "origin": "independent sub-agent given only the property text and a scratch worktree",
        "needs": a.needs,
        "demo": {"file": os.path.basename(a.place), "place_at": a.place,
                 "run": "go test %s-mod=mod -vet=off -count=1 -run '%s' %s" % ("-race " if a.race else "", a.run, a.pkg)},
        "ran": "tools/confirm_seed.py (scratch worktree of /repo HEAD %s): patch applies, build + full existing suite pass with it, demo fails with it, demo passes without it; see confirm.txt" % head[:10],
    }, open(os.path.join(d, "meta.json"), "w"), indent=1)
    print("CONFIRMED ->", d)
else:
    print("NOT CONFIRMED")
    sys.exit(1)
