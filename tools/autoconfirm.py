#!/usr/bin/env python3
"""tools/autoconfirm.py <outdir> <prop> <k> <slug> <needs...> : derive demo placement from the demo's header comment
and call confirm_seed.py."""
import os, re, subprocess, sys
out, prop, k, slug = sys.argv[1:5]
needs = " ".join(sys.argv[5:])
demo = None
for cand in ("demo%s_test.go" % k,):
    p = os.path.join(out, cand)
    if os.path.exists(p):
        demo = p
if not demo:
    print("no demo file", out, k); sys.exit(2)
src = open(demo, errors="replace").read()
head = "\n".join(src.split("\n")[:12])
m = re.search(r"([A-Za-z0-9_./-]*/)?((?:cli|core|components|lib|tests|examples|[a-z0-9_]+)/[A-Za-z0-9_./-]*_test\.go|[a-z0-9_]+/demo\d_test\.go)", head)
place = None
for mm in re.finditer(r"[A-Za-z0-9_./-]+_test\.go", head):
    c = mm.group(0)
    c = re.sub(r"^/tmp/seedwt\d*-C\d+/", "", c)
    if "/" in c:
        place = c
        break
if not place:
    m2 = re.search(r"(?:in|into|under|to)\s+`?((?:cli|core|components|lib|tests)[A-Za-z0-9_./-]*)/?`?", head)
    if m2:
        place = m2.group(1).rstrip("/") + "/demo%s_test.go" % k
if not place:
    print("cannot derive placement from header:\n" + head); sys.exit(2)
tests = re.findall(r"^func (Test[A-Za-z0-9_]*)\(", src, re.M)
run = "^(" + "|".join(tests) + ")$" if tests else "."
pkg = "./" + os.path.dirname(place) + "/"
cmd = [os.path.join(os.path.dirname(os.path.abspath(__file__)), "confirm_seed.py"), "--prop", prop, "--slug", slug,
       "--patch", os.path.join(out, "patch%s.diff" % k), "--demo", demo, "--place", place, "--pkg", pkg, "--run", run,
       "--notes", os.path.join(out, "notes%s.md" % k), "--needs", needs, "--repeat", "3"]
r = subprocess.run(cmd, capture_output=True, text=True, errors="replace")
print(place, run[:80])
print("\n".join(r.stdout.strip().split("\n")[-2:]))
sys.exit(r.returncode)
