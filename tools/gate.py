#!/usr/bin/env python3
"""Source gate over the WHOLE Coq development (every .v file): prints problems, exit 1 if any."""
import os, sys
sys.path.insert(0, os.path.dirname(os.path.dirname(os.path.abspath(__file__))))
from vlib import common
p = common.gate_all()
print("\n".join(p) if p else "gate: clean")
sys.exit(1 if p else 0)
