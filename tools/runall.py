#!/usr/bin/env python3
"""Run every registered check (MANIFEST.json) and summarise: tools/runall.py [--tier quick] [--seed N] [--jobs J] [--only C01,C02]"""
import argparse, json, os, subprocess, sys, time
from concurrent.futures import ThreadPoolExecutor
V = os.path.dirname(os.path.dirname(os.path.abspath(__file__)))
ap = argparse.ArgumentParser()
ap.add_argument("--tier", default="quick")
ap.add_argument("--seed", type=int, default=1)
ap.add_argument("--jobs", type=int, default=1)
ap.add_argument("--only", default="")
a = ap.parse_args()
m = json.load(open(os.path.join(V, "MANIFEST.json")))
props = [c["property_id"] for c in m["checks"]]
if a.only:
    props = [p for p in props if p in a.only.split(",")]


def one(p):
    t = time.time()
    r = subprocess.run(["./check", p, "--tier", a.tier, "--seed", str(a.seed)], cwd=V, capture_output=True, text=True, errors="replace")
    lines = [l for l in r.stdout.split("\n") if l.startswith("VIOLATION") or l.startswith("KNOWN-FINDING") or l.startswith("  finding") or l.startswith("  broken")]
    return p, r.returncode, time.time() - t, lines


with ThreadPoolExecutor(a.jobs) as ex:
    res = list(ex.map(one, props))
bad = 0
for p, rc, dt, lines in res:
    print("%s rc=%d %6.1fs" % (p, rc, dt))
    for l in lines:
        print("     " + l[:300])
    bad += rc != 0
print("checks=%d failing=%d seed=%d tier=%s" % (len(res), bad, a.seed, a.tier))
sys.exit(1 if bad else 0)
