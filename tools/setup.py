#!/usr/bin/env python3
import glob
import json
import os
import sys
sys.path.insert(0, os.path.dirname(os.path.dirname(os.path.abspath(__file__))))
from vlib import common

ctx = common.Ctx("SETUP", "quick", 0)
# translators first (generated files are needed by the Coq build)
tr = ctx.build_harness("translate")
for what, out in (("grpcstatus", "GrpcStatusGen.v"), ("consts", "ConstGen.v"),
                  ("gofn-math", "GoFnMathGen.v"), ("gofn-mp", "GoFnMpGen.v"), ("gofn-httpgun", "GoFnHttpgunGen.v"),
                  ("gofn-istep", "GoFnIstepGen.v"), ("gofn-waiter", "GoFnWaiterGen.v"),
                  ("gofn-instance", "GoFnInstanceGen.v")):
    common.translate(ctx, what, out)
props = sorted(os.path.basename(p)[:-10] for p in glob.glob(os.path.join(common.VERIF, "checks", "C*.meta.json")))
targets = []
for p in props:
    for t in ("Properties/%s.vo" % p, "Extract/Extract%s.vo" % p):
        if os.path.exists(os.path.join(common.COQ, t[:-1])):
            targets.append(t)
# heavy bridge proofs that depend on generated syntax (otherwise built by the first run of the check)
targets.append("Proofs/InstanceRunProofs.vo")
ok = ctx.coq(targets, what="setup coq build")
for d in sorted(glob.glob(os.path.join(common.HARNESS, "cmd", "h*"))):
    ctx.build_harness(os.path.basename(d))
for w, p in ctx.brokens:
    print("SETUP PROBLEM:", w, p)
import shutil
shutil.rmtree(ctx.work, ignore_errors=True)
sys.exit(1 if ctx.brokens else 0)
