#!/usr/bin/env python3
import glob
import json
import os
import sys
sys.path.insert(0, os.path.dirname(os.path.dirname(os.path.abspath(__file__))))
from vlib import common

ctx = common.Ctx("SETUP", "quick", 0)
# translators first (generated files are needed by the Coq build)
tr = ctx.build_harness("translate")
# Every generated file is regenerated from /repo's current tree (a file left behind by a run against a scratch tree
# - VERIF_REPO - must never survive into a build): all (translator, outfile) pairs the checks declare, then the
# checks' own translator binaries (functions translate_* of checks/Cxx.py); generated files nobody regenerated are removed.
import importlib
import re
pairs = set()
for f in sorted(glob.glob(os.path.join(common.VERIF, "checks", "C*.py"))):
    for what, out in re.findall(r'"([a-z][A-Za-z0-9-]*)",\s*"([A-Za-z0-9_]+Gen\.v)"', open(f).read()):
        pairs.add((what, out))
main_go = open(os.path.join(common.HARNESS, "cmd", "translate", "main.go")).read()
known = set(re.findall(r'"([a-z][a-z0-9-]*)"', " ".join(re.findall(r"case ([^:]+):", main_go))))
done = set()
for what, out in sorted(pairs):
    if what in known and common.translate(ctx, what, out):
        done.add(out)
for f in sorted(glob.glob(os.path.join(common.VERIF, "checks", "C*.py"))):
    mod = importlib.import_module("checks." + os.path.basename(f)[:-3])
    for name in sorted(dir(mod)):
        if name.startswith("translate_") and callable(getattr(mod, name)):
            before = {g: os.path.getmtime(g) for g in glob.glob(os.path.join(common.COQ, "Gen", "*Gen.v"))}
            if getattr(mod, name)(ctx):
                src = open(f).read()
                done.update(re.findall(r'"([A-Za-z0-9_]+Gen\.v)"', src[src.index("def " + name):src.index("def " + name) + 2500]))
for g in sorted(glob.glob(os.path.join(common.COQ, "Gen", "*Gen.v"))):
    if os.path.basename(g) not in done:
        print("SETUP: removing generated file nobody regenerated:", g)
        os.remove(g)
props = sorted(os.path.basename(p)[:-10] for p in glob.glob(os.path.join(common.VERIF, "checks", "C*.meta.json")))
targets = []
for p in props:
    for t in ("Properties/%s.vo" % p, "Extract/Extract%s.vo" % p):
        if os.path.exists(os.path.join(common.COQ, t[:-1])):
            targets.append(t)
# heavy bridge proofs that depend on generated syntax (otherwise built by the first run of the check)
targets += ["Proofs/InstanceRunProofs.vo", "Proofs/PhoutRunProofs.vo", "Proofs/FullScanProofs.vo"]
ok = ctx.coq(targets, what="setup coq build")
for d in sorted(glob.glob(os.path.join(common.HARNESS, "cmd", "h*"))):
    ctx.build_harness(os.path.basename(d))
for w, p in ctx.brokens:
    print("SETUP PROBLEM:", w, p)
import shutil
shutil.rmtree(ctx.work, ignore_errors=True)
sys.exit(1 if ctx.brokens else 0)
