#!/usr/bin/env python3
"""Assemble /verif/MANIFEST.json from checks/*.meta.json (one file per claimed property)
and tools/not_applicable.json. Validates against the schema when jsonschema is available."""
import glob
import json
import os
import sys

V = os.path.dirname(os.path.dirname(os.path.abspath(__file__)))


def hook_commits():
    """Commits of /repo that add the verif-tagged hook files (message starts with 'verif hook')."""
    import subprocess
    try:
        out = subprocess.run(["git", "-C", "/repo", "log", "--format=%H %s"], capture_output=True, text=True).stdout
        return [l.split(" ", 1)[0] for l in out.split("\n") if l.split(" ", 1)[-1].lower().startswith("verif hook")]
    except Exception:
        return []

checks = []
engines = {}
for p in sorted(glob.glob(os.path.join(V, "checks", "C*.meta.json"))):
    m = json.load(open(p))
    pid = m["property_id"]
    entry = {
        "property_id": pid,
        "quick_cmd": "./check %s --tier quick" % pid,
        "thorough_cmd": "./check %s --tier thorough" % pid,
        "evidence_file": "/verif/evidence/%s.json" % pid,
        "replay_cmd_template": "./check %s --replay {path}" % pid,
        "engine": "coq-proof+correspondence",
        "level_claimed": m["level_claimed"],
        "level_note": m["level_note"],
        "technique": m.get("technique", "machine-checked proof in Coq 8.16 about an executable model + model/implementation correspondence check"),
    }
    checks.append(entry)
claimed = {c["property_id"] for c in checks}
na_path = os.path.join(V, "tools", "not_applicable.json")
na = json.load(open(na_path)) if os.path.exists(na_path) else {}
all_ids = [json.loads(l)["id"] for l in open(os.path.join(V, "properties.jsonl"))]
not_applicable = []
for pid in all_ids:
    if pid not in claimed:
        not_applicable.append({"property_id": pid, "reason": na.get(pid, "not yet claimed: model, theorems and correspondence for this property are not built yet (see DESIGN.md section 4 for the planned design)")})
manifest = {
    "version": 1,
    "setup_cmd": "./tools/setup.sh",
    "hooks": {
        "guard": "verif",
        "enable": "go build -tags verif (the harness under /verif/harness is always built with -tags verif against /repo)",
        "baseline_off_cmd": "cd /repo && go test -mod=mod -vet=off -count=1 -timeout 25m ./...",
        "source_commits": hook_commits(),
        "add_only": True,
    },
    "engines": [
        {"name": "coq-proof+correspondence", "path": "/verif/check",
         "serves_properties": sorted(claimed),
         "kind_free_text": "Coq 8.16.1 theorems about executable Gallina models (coq/), models tied to /repo by translators (harness/cmd/translate -> coq/Gen) and by a correspondence check (Go harness on the real code vs. the model extracted to OCaml)"},
    ],
    "checks": checks,
    "not_applicable": not_applicable,
    "notes": "See DESIGN.md. Known findings: known_findings.json. Seeded mutations: seeded/.",
}
# known findings: assembled from checks/Cxx.findings.json (one list per property)
findings = []
for p in sorted(glob.glob(os.path.join(V, "checks", "C*.findings.json"))):
    for f in json.load(open(p)):
        f.setdefault("property", os.path.basename(p)[:3])
        if f.get("status") == "fixed":
            f["line"] = "fixed: property=%s %s %s" % (f["property"], f.get("commit", "?"), f.get("what", ""))
        findings.append(f)
tmp = os.path.join(V, "known_findings.json.tmp")
json.dump({"format": "status=known entries suppress exactly the violation whose finding key equals 'key' (printed as KNOWN-FINDING); status=fixed entries suppress nothing",
           "findings": findings}, open(tmp, "w"), indent=1)
os.replace(tmp, os.path.join(V, "known_findings.json"))
out = os.path.join(V, "MANIFEST.json")
json.dump(manifest, open(out, "w"), indent=1)
open(out, "a").write("\n")
try:
    import jsonschema
    jsonschema.validate(manifest, json.load(open("/root/.vp/MANIFEST.schema.json")))
    print("MANIFEST.json valid,", len(checks), "checks,", len(not_applicable), "not claimed")
except ImportError:
    print("MANIFEST.json written (jsonschema not available for validation)")
