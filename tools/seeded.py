#!/usr/bin/env python3
"""Run the checks against the seeded changes under seeded/<id>/ (patch.diff + meta.json).

  tools/seeded.py [id ...] [--tier quick|thorough]

Each patch is applied to a scratch worktree of /repo's HEAD under /var/tmp (never to /repo),
the check of the property it breaks is run with VERIF_REPO pointing there, the worktree is
removed, and finally the check is re-run on /repo so generated files and evidence are back to
the real tree. Prints one line per seeded change: caught / MISSED and how (concrete replay vs
no-failing-input-found)."""
import json
import os
import subprocess
import sys

V = os.path.dirname(os.path.dirname(os.path.abspath(__file__)))
tier = "quick"
ids = []
args = sys.argv[1:]
while args:
    a = args.pop(0)
    if a == "--tier":
        tier = args.pop(0)
    else:
        ids.append(a)
if not ids:
    ids = sorted(d for d in os.listdir(os.path.join(V, "seeded")) if os.path.exists(os.path.join(V, "seeded", d, "patch.diff")))
touched = set()
rows = []
for sid in ids:
    d = os.path.join(V, "seeded", sid)
    meta = json.load(open(os.path.join(d, "meta.json")))
    props = meta.get("property")
    props = props if isinstance(props, list) else [props]
    wt = "/var/tmp/wt-seeded-%d" % os.getpid()
    subprocess.run(["git", "-C", "/repo", "worktree", "remove", "--force", wt], capture_output=True)
    subprocess.run(["git", "-C", "/repo", "worktree", "add", "--detach", wt, "HEAD"], check=True, capture_output=True)
    try:
        r = subprocess.run(["git", "-C", wt, "apply", os.path.join(d, "patch.diff")], capture_output=True, text=True)
        if r.returncode != 0:
            # a later fix may have touched neighbouring lines: try a three-way merge of the patch
            subprocess.run(["git", "-C", wt, "checkout", "--", "."], capture_output=True)
            r = subprocess.run(["git", "-C", wt, "apply", "--3way", os.path.join(d, "patch.diff")], capture_output=True, text=True)
            if r.returncode == 0 and subprocess.run(["git", "-C", wt, "diff", "--name-only", "--diff-filter=U"], capture_output=True, text=True).stdout.strip():
                r.returncode = 1
        if r.returncode != 0:
            rows.append((sid, ",".join(props), "PATCH-DOES-NOT-APPLY", r.stderr.strip()[:200]))
            continue
        for p in props:
            env = dict(os.environ, VERIF_REPO=wt)
            r = subprocess.run(["./check", p, "--tier", tier], cwd=V, env=env, capture_output=True, text=True)
            touched.add(p)
            vio = [l for l in r.stdout.split("\n") if l.startswith("VIOLATION")]
            how = "-"
            if vio:
                how = "no-failing-input-found" if all("no-failing-input-found" in l for l in vio) else "concrete replay"
            status = "caught" if r.returncode == 1 and vio else "MISSED"
            rows.append((sid, p, status, how))
            open(os.path.join(d, "result-%s.txt" % p), "w").write(
                "tier=%s status=%s how=%s\n\n%s" % (tier, status, how, "\n".join(r.stdout.split("\n")[-25:])))
    finally:
        subprocess.run(["git", "-C", "/repo", "worktree", "remove", "--force", wt], capture_output=True)
for p in sorted(touched):
    subprocess.run(["./check", p, "--tier", "quick"], cwd=V, capture_output=True)
# stale work directories (a run that reports a violation keeps its scratch directory; the replays hold what matters)
import shutil, time
for d in os.listdir(os.path.join(V, "work")):
    pth = os.path.join(V, "work", d)
    try:
        if os.path.isdir(pth) and time.time() - os.path.getmtime(pth) > 2700:
            shutil.rmtree(pth, ignore_errors=True)
    except OSError:
        pass
for row in rows:
    print("%-40s %-5s %-8s %s" % row)
