(* C02: the leaves the constructors really make satisfy the hypothesis [leaf_ok] of the order theorems,
   for every valid configuration tree; every token of a part lies inside the part's window. *)
From Coq Require Import List ZArith QArith Bool Arith Lia.
From PV Require Import Model.Sched Model.SchedTree Model.SchedProfileTree.
From PV Require Import Proofs.SchedArith Proofs.SchedQ Proofs.SchedProofs Proofs.SchedStep.
From PV Require Import Proofs.SchedTreeProofs Proofs.SchedTreeSeq Proofs.SchedTreeSpec.
Import ListNotations.
Local Open Scope Z_scope.

(* ---------- a (count, duration, doAt) triple whose count and offsets agree ---------- *)
Definition leaf_good (l : leaf) : Prop :=
  0 <= l_dur l /\
  (forall k, 0 <= k < l_n l -> exists x, l_at l k = Some x /\ 0 <= x <= l_dur l) /\
  (forall k k' x x', 0 <= k -> k <= k' -> k' < l_n l ->
     l_at l k = Some x -> l_at l k' = Some x' -> x <= x').

Lemma leaf_good_defined l : leaf_good l -> leaf_defined l = true.
Proof.
  intros (_ & R & _). unfold leaf_defined. apply forallb_forall. intros k Hk.
  apply in_seq in Hk. destruct (R (Z.of_nat k)) as (x & -> & _); [lia|reflexivity].
Qed.

Lemma leaf_good_ok l : leaf_good l ->
  leaf_ok (DoAt (Z.to_nat (l_n l)) (l_dur l) (off_total l) 0 None).
Proof.
  intros (D & R & M). cbn [leaf_ok]. split; [exact D|]. split.
  - intros k Hk. unfold off_total. destruct (R (Z.of_nat k)) as (x & -> & Hx); [lia|exact Hx].
  - intros j k Hjk Hk. unfold off_total.
    destruct (R (Z.of_nat j)) as (x & Ex & _); [lia|].
    destruct (R (Z.of_nat k)) as (y & Ey & _); [lia|].
    rewrite Ex, Ey. apply (M (Z.of_nat j) (Z.of_nat k)); try assumption; lia.
Qed.

Lemma min_dur_nonneg D : min_dur <= D -> 0 <= D.
Proof. unfold min_dur. lia. Qed.

(* const and line: C01's range and monotonicity theorems *)
Lemma rate_leaf_good p : valid p -> is_rate p = true -> leaf_good (the_leaf p).
Proof.
  intros Hv Hr. split; [|split].
  - change (l_dur (the_leaf p)) with (dur p). rewrite (dur_rate p Hr).
    destruct p as [ops D|f t D|f t st D|n]; try discriminate; cbn in Hv; apply min_dur_nonneg; tauto.
  - intros k Hk. apply (at_range p k Hv Hr). exact Hk.
  - intros k k' x x'. apply (at_mono p k k' x x' Hv Hr).
Qed.

Lemma once_leaf_good n : leaf_good (leaf_once n).
Proof.
  split; [|split]; cbn.
  - lia.
  - intros k _. exists 0. split; [reflexivity|lia].
  - intros k k' x x' _ _ _ E E'. inversion E; inversion E'; lia.
Qed.

(* ---------- flattening ---------- *)
Lemma flatten_cfg_comp (P : sched -> Prop) l :
  P (once 0) -> Forall (fun c => Forall P (flatten_cfg c)) l -> Forall P (flatten_cfg (CComp l)).
Proof.
  intros P0 H. destruct l as [|c r]; [cbn; constructor; [exact P0|constructor]|].
  change (flatten_cfg (CComp (c :: r))) with (flat_map flatten_cfg (c :: r)).
  induction H as [|x l Hx Hl IH]; cbn [flat_map]; [constructor|].
  apply Forall_app. split; assumption.
Qed.

Lemma once0_ok : leaf_ok (once 0) /\ unstarted (once 0).
Proof. unfold once. cbn. repeat split; try lia; intros; lia. Qed.

Definition good_cfg (c : cfg) : Prop :=
  Forall leaf_ok (flatten_cfg c) /\ Forall unstarted (flatten_cfg c).

Lemma good_leaf l : leaf_good l -> good_cfg (cfg_of_leaf l).
Proof.
  intros G. unfold good_cfg, cfg_of_leaf. cbn [flatten_cfg]. split.
  - constructor; [apply leaf_good_ok; exact G|constructor].
  - constructor; [reflexivity|constructor].
Qed.

Lemma good_comp l : Forall good_cfg l -> good_cfg (CComp l).
Proof.
  intros H. split; apply flatten_cfg_comp; try apply once0_ok.
  - eapply Forall_impl; [|exact H]. intros c [A _]. exact A.
  - eapply Forall_impl; [|exact H]. intros c [_ B]. exact B.
Qed.

Lemma good_zero_leaf n d : 0 <= d -> good_cfg (CDoAt n d (fun _ => 0)).
Proof.
  intros D. split; cbn [flatten_cfg].
  - constructor; [|constructor]. cbn [leaf_ok]. split; [exact D|]. split; intros; lia.
  - constructor; [reflexivity|constructor].
Qed.

Lemma good_istep_parts k step d : 0 <= d -> Forall good_cfg (istep_parts k step d).
Proof.
  intros D. induction k as [|k IH]; cbn [istep_parts]; [constructor|].
  constructor; [|constructor; [|exact IH]]; apply good_zero_leaf; lia.
Qed.

Lemma good_instance_step f t s d : 0 <= d -> good_cfg (instance_step f t s d).
Proof.
  intros D. unfold instance_step. apply good_comp. constructor; [|apply good_istep_parts; exact D].
  apply good_zero_leaf. lia.
Qed.

(* ---------- the rate profiles ---------- *)
Lemma compile_rate_ok p : valid p -> exists c, compile_rate p = Some c /\ good_cfg c.
Proof.
  intros Hv. destruct p as [ops D|f t D|f t st D|n].
  - pose proof (rate_leaf_good (PConst ops D) Hv eq_refl) as G. cbn [the_leaf] in G.
    unfold compile_rate. cbn [leaves forallb]. rewrite (leaf_good_defined _ G). cbn [andb].
    eexists. split; [reflexivity|apply good_leaf; exact G].
  - pose proof (rate_leaf_good (PLine f t D) Hv eq_refl) as G. cbn [the_leaf] in G.
    unfold compile_rate. cbn [leaves forallb]. rewrite (leaf_good_defined _ G). cbn [andb].
    eexists. split; [reflexivity|apply good_leaf; exact G].
  - destruct Hv as (Hf & Ht & Hst & HD).
    destruct (step_levels_spec f t st Hst) as (lv & Hlv & Hf2).
    pose proof (Forall2_Qeq_nonneg _ _ Hf2 (spec_levels_nonneg f t st Hf Hst)) as Hnn.
    assert (G : Forall leaf_good (map (fun r => leaf_const r D) lv)).
    { apply Forall_forall. intros l Hl. apply in_map_iff in Hl. destruct Hl as (r & <- & Hr).
      rewrite Forall_forall in Hnn.
      apply (rate_leaf_good (PConst r D)); [cbn; split; [apply Hnn; exact Hr|exact HD]|reflexivity]. }
    unfold compile_rate. cbn [leaves]. rewrite Hlv. cbn [option_map].
    assert (E : forallb leaf_defined (map (fun r => leaf_const r D) lv) = true).
    { apply forallb_forall. intros l Hl. apply leaf_good_defined. rewrite Forall_forall in G. apply G. exact Hl. }
    rewrite E. eexists. split; [reflexivity|]. apply good_comp.
    apply Forall_forall. intros c Hc. apply in_map_iff in Hc. destruct Hc as (l & <- & Hl).
    apply good_leaf. rewrite Forall_forall in G. apply G. exact Hl.
  - pose proof (once_leaf_good n) as G.
    unfold compile_rate. cbn [leaves forallb]. rewrite (leaf_good_defined _ G). cbn [andb].
    eexists. split; [reflexivity|apply good_leaf; exact G].
Qed.

(* ---------- every valid configuration tree ---------- *)
Section PcfgInd.
  Variable P : pcfg -> Prop.
  Hypothesis Hrate : forall p, P (PRate p).
  Hypothesis Hunl : forall d, P (PUnlimited d).
  Hypothesis Hist : forall f t s d, P (PInstStep f t s d).
  Hypothesis Hcomp : forall l, Forall P l -> P (PComposite l).
  Fixpoint pcfg_ind' (pc : pcfg) : P pc :=
    match pc with
    | PRate p => Hrate p
    | PUnlimited d => Hunl d
    | PInstStep f t s d => Hist f t s d
    | PComposite l =>
        Hcomp l ((fix go (l : list pcfg) : Forall P l :=
                    match l with [] => Forall_nil P | x :: r => Forall_cons x (pcfg_ind' x) (go r) end) l)
    end.
End PcfgInd.

Theorem compile_ok : forall pc, pvalid pc -> exists c, compile pc = Some c /\ good_cfg c.
Proof.
  induction pc as [p|d|f t s d|l IH] using pcfg_ind'; cbn [pvalid compile]; intros Hv.
  - apply compile_rate_ok. exact Hv.
  - eexists. split; [reflexivity|]. split; cbn [flatten_cfg]; (constructor; [|constructor]); [exact Hv|exact I].
  - eexists. split; [reflexivity|]. apply good_instance_step. exact Hv.
  - assert (E : exists cs, all_some (map compile l) = Some cs /\ Forall good_cfg cs).
    { induction IH as [|x r Hx Hr IHr]; cbn [map all_some]; [exists []; split; [reflexivity|constructor]|].
      cbn [fold_right] in Hv. destruct Hv as [Vx Vr].
      destruct (Hx Vx) as (c & -> & Gc). destruct (IHr Vr) as (cs & -> & Gcs).
      exists (c :: cs). split; [reflexivity|constructor; assumption]. }
    destruct E as (cs & -> & G). cbn [option_map]. eexists. split; [reflexivity|apply good_comp; exact G].
Qed.

(* ---------- every token of a part lies inside the part's window ---------- *)
Lemma items_from_app : forall pre post p,
  items_from p (pre ++ post) =
  (fst (items_from p pre) ++ fst (items_from (snd (items_from p pre)) post),
   snd (items_from (snd (items_from p pre)) post)).
Proof.
  induction pre as [|x r IH]; intros post p; cbn [app].
  - cbn [items_from fst snd app]. destruct (items_from p post); reflexivity.
  - destruct x as [n d a i st|d fin|l la cs]; cbn [items_from].
    + rewrite IH. destruct (items_from (match st with Some x => x | None => p end + d) r) as [its f].
      cbn [fst snd]. rewrite app_assoc. reflexivity.
    + rewrite IH. destruct (items_from (match fin with Some f => f | None => p + d end) r) as [its f].
      cbn [fst snd]. reflexivity.
    + apply IH.
Qed.

Lemma item_in_weaken lo lo' hi hi' x : lo' <= lo -> hi <= hi' -> item_in lo hi x -> item_in lo' hi' x.
Proof. destruct x; cbn; lia. Qed.

Lemma items_bounds : forall fl p, Forall leaf_ok fl -> Forall unstarted fl ->
  p <= snd (items_from p fl) /\
  Forall (item_in p (snd (items_from p fl))) (fst (items_from p fl)).
Proof.
  induction fl as [|x r IH]; intros p Ho Hu; [cbn; split; [lia|constructor]|].
  inversion Ho as [|? ? Ox Or]; subst. inversion Hu as [|? ? Ux Ur]; subst.
  destruct x as [n d a i [t|]|d [g|]|l la cs]; cbn [leaf_ok unstarted] in *; try tauto.
  - subst i. destruct Ox as (D & B & M). cbn [items_from].
    destruct (IH (p + d) Or Ur) as [L F]. destruct (items_from (p + d) r) as [its f]. cbn [fst snd] in *.
    split; [lia|]. apply Forall_app. split.
    + apply Forall_forall. intros y Hy. apply in_map_iff in Hy. destruct Hy as (k & <- & Hk).
      apply in_seq in Hk. cbn. specialize (B k ltac:(lia)). lia.
    + eapply Forall_impl; [|exact F]. intros y. apply item_in_weaken; lia.
  - cbn [items_from].
    destruct (IH (p + d) Or Ur) as [L F]. destruct (items_from (p + d) r) as [its f]. cbn [fst snd] in *.
    split; [lia|]. constructor; [cbn; lia|].
    eapply Forall_impl; [|exact F]. intros y. apply item_in_weaken; lia.
Qed.

Theorem part_window : forall pre n d a post p,
  Forall leaf_ok (pre ++ DoAt n d a 0 None :: post) ->
  Forall unstarted (pre ++ DoAt n d a 0 None :: post) ->
  let s := snd (items_from p pre) in
  let f := snd (items_from (s + d) post) in
  items_from p (pre ++ DoAt n d a 0 None :: post) =
    (fst (items_from p pre) ++ map (fun k => IT (s + a k)) (seq 0 n) ++ fst (items_from (s + d) post), f) /\
  (forall k, (k < n)%nat -> s <= s + a k <= s + d) /\
  p <= s /\ Forall (item_in p s) (fst (items_from p pre)) /\
  s + d <= f /\ Forall (item_in (s + d) f) (fst (items_from (s + d) post)).
Proof.
  intros pre n d a post p Ho Hu s f.
  apply Forall_app in Ho. destruct Ho as [Opre Orest]. apply Forall_app in Hu. destruct Hu as [Upre Urest].
  inversion Orest as [|? ? Ox Opost]; subst. inversion Urest as [|? ? Ux Upost]; subst.
  destruct Ox as (D & B & M).
  split; [|split; [|split; [|split; [|split]]]].
  - rewrite items_from_app. fold s. cbn [items_from]. rewrite Nat.sub_0_r.
    subst f. destruct (items_from (s + d) post) as [its g]. reflexivity.
  - intros k Hk. specialize (B k Hk). lia.
  - apply (items_bounds pre p Opre Upre).
  - apply (items_bounds pre p Opre Upre).
  - apply (items_bounds post (s + d) Opost Upost).
  - apply (items_bounds post (s + d) Opost Upost).
Qed.

(* times never decrease, for the schedules the configuration really describes *)
Theorem profile_mono : forall pc c p m nows, pvalid pc -> compile pc = Some c -> clock_mono m nows ->
  nondecr p (nexts nows (snd (items_from p (flatten_cfg c))) (fst (items_from p (flatten_cfg c)))).
Proof.
  intros pc c p m nows Hv Hc Hm. destruct (compile_ok pc Hv) as (c' & Hc' & Go & Gu).
  rewrite Hc in Hc'. inversion Hc'; subst c'.
  eapply nexts_nondecr; [|exact Hm]. apply items_ordered; assumption.
Qed.
