(* Lemmas about Model/GrpcWire.v (property C20): with the connection policy pandora's dial options
   give (no re-sending), the target receives exactly one call per entry that is to be sent, carrying
   the entry's method/message/metadata and nothing of reflect_metadata, whatever the target answers. *)
From Coq Require Import List NArith ZArith Bool Lia.
From PV Require Import Model.GrpcCall Model.GrpcWire Proofs.GrpcCallProofs.
Import ListNotations.

Lemma neutral_dial_policy opts : forallb neutral_opt opts = true -> dial_policy opts = Some no_retry.
Proof. unfold dial_policy. intros ->. reflexivity. Qed.

Lemma dial_policy_some opts p : dial_policy opts = Some p -> p = no_retry.
Proof. unfold dial_policy. destruct (forallb neutral_opt opts); [intros H; injection H as <-; reflexivity|discriminate]. Qed.

Lemma conn_authority_spec configured addr :
  (configured = [] -> conn_authority configured addr = addr) /\
  (configured <> [] -> conn_authority configured addr = configured).
Proof.
  destruct configured as [|c r]; split; intros H; cbn [conn_authority]; try reflexivity.
  - exfalso; apply H; reflexivity.
  - discriminate H.
Qed.

Lemma run_authorities_configured configured t r any a :
  configured <> [] -> In a (run_authorities configured t r any) -> a = configured.
Proof.
  intros Hc. unfold run_authorities. destruct (conn_authority_spec configured r) as [_ Hr].
  destruct (conn_authority_spec configured t) as [_ Ht]. rewrite (Hr Hc).
  destruct any; cbn [In]; [rewrite (Ht Hc)|]; intuition congruence.
Qed.

Section WireProofs.
  Variable msg : Type.
  Variable code_of_status : N -> N.
  Variable target : list (sent msg) -> sent msg -> N.

  Notation invoke := (invoke msg target).
  Notation deliver1 := (deliver1 msg code_of_status target).
  Notation deliver := (deliver msg code_of_status target).
  Notation deliver_shots := (deliver_shots msg code_of_status target).
  Notation spec_codes := (spec_codes msg code_of_status target).
  Notation spec_codes_shots := (spec_codes_shots msg code_of_status target).

  Lemma invoke_no_retry hist s : invoke no_retry hist s = (hist ++ [s], target hist s).
  Proof. reflexivity. Qed.

  (* every attempt is the same call; at least one, at most 1 + extra *)
  Lemma attempts_shape extra retry hist s :
    exists k, 1 <= k <= S extra /\ fst (attempts msg target extra retry hist s) = hist ++ repeat s k.
  Proof.
    revert hist; induction extra as [|n IH]; intros hist; cbn [attempts].
    - exists 1. split; [lia|reflexivity].
    - destruct (retry (target hist s)).
      + destruct (IH (hist ++ [s])) as [k [Hk E]]. exists (S k). split; [lia|].
        rewrite E. rewrite <- app_assoc. reflexivity.
      + exists 1. split; [lia|reflexivity].
  Qed.

  Lemma deliver_no_retry os : forall hist,
    deliver no_retry hist os = (hist ++ sent_of os, spec_codes hist os).
  Proof.
    induction os as [|o r IH]; intros hist; cbn [GrpcWire.deliver sent_of GrpcWire.spec_codes].
    - rewrite app_nil_r. reflexivity.
    - destruct o as [| | |s]; cbn [GrpcWire.deliver1]; try (rewrite IH; reflexivity).
      rewrite invoke_no_retry. rewrite IH. rewrite <- app_assoc. reflexivity.
  Qed.

  Lemma deliver_shots_no_retry shots : forall hist,
    deliver_shots no_retry hist shots = (hist ++ concat (map sent_of shots), spec_codes_shots hist shots).
  Proof.
    induction shots as [|os r IH]; intros hist; cbn [GrpcWire.deliver_shots GrpcWire.spec_codes_shots map concat].
    - rewrite app_nil_r. reflexivity.
    - rewrite deliver_no_retry. rewrite IH. rewrite <- app_assoc. reflexivity.
  Qed.

  Lemma sent_of_length_le (os : list (outcome msg)) : length (sent_of os) <= length os.
  Proof. induction os as [|[| | |s] r IH]; cbn [sent_of length]; lia. Qed.

  Lemma spec_codes_length os : forall hist, length (spec_codes hist os) = length os.
  Proof. induction os as [|[| | |s] r IH]; intros hist; cbn [GrpcWire.spec_codes length]; try rewrite IH; reflexivity. Qed.
End WireProofs.

Section PlainWireProofs.
  Variables desc msg payload : Type.
  Variable reencode : payload -> payload.
  Variable fits : desc -> payload -> option msg.
  Variable code_of_status : N -> N.
  Variable target : list (sent msg) -> sent msg -> N.

  Notation shoot := (shoot desc msg payload reencode fits).
  Notation wire_shoot := (wire_shoot desc msg payload reencode fits code_of_status target).
  Notation wire_run := (wire_run desc msg payload reencode fits code_of_status target).
  Notation wire_spec := (wire_spec desc msg payload reencode fits code_of_status target).
  Notation spec_outcome := (spec_outcome desc msg payload reencode fits).
  Notation session := (session desc msg payload reencode fits code_of_status target).
  Notation session_spec := (session_spec desc msg payload reencode fits code_of_status target).

  Lemma shoot_is_spec_outcome g e : shoot g e = spec_outcome (g_services desc g) (g_timeout desc g) e.
  Proof. reflexivity. Qed.

  (* what is to be sent for an entry is the entry: method, metadata, timeout, message by the codec *)
  Lemma spec_outcome_sent t timeout e s :
    spec_outcome t timeout e = Sent s ->
    s_method s = e_call payload e /\ s_meta s = e_meta payload e /\ s_timeout s = eff_timeout timeout /\
    exists d, find_method t (e_call payload e) = Some d /\ fits d (reencode (e_payload payload e)) = Some (s_message s).
  Proof.
    unfold GrpcWire.spec_outcome. destruct (find_method _ _) as [d|]; [|discriminate].
    destruct (fits d _) as [m|] eqn:Hf; [|discriminate].
    intros H; injection H as <-. cbn. repeat split. exists d. split; [reflexivity|exact Hf].
  Qed.

  (* any number of instances, any assignment, any (stateful) target, any history so far *)
  Lemma wire_run_spec t timeout guns sched : forall hist,
    Forall (fun g => g = mkGun desc t timeout) guns ->
    Forall (fun ie => fst ie < length guns) sched ->
    wire_run no_retry guns sched hist =
      (guns, fst (wire_spec t timeout hist (map snd sched)), snd (wire_spec t timeout hist (map snd sched))).
  Proof.
    intros hist Hg. revert hist.
    induction sched as [|[i e] rest IH]; intros hist Hs; cbn [GrpcWire.wire_run GrpcWire.wire_spec map snd fst]; [reflexivity|].
    inversion Hs as [|x l Hi Hrest]; subst. cbn [fst] in Hi.
    destruct (nth_error guns i) as [g|] eqn:Hn; [|apply nth_error_None in Hn; lia].
    assert (Eg : g = mkGun desc t timeout) by (rewrite Forall_forall in Hg; apply Hg; eapply nth_error_In; eauto).
    subst g. unfold GrpcWire.wire_shoot. rewrite shoot_is_spec_outcome. cbn [g_services g_timeout].
    destruct (spec_outcome t timeout e) as [| | |s] eqn:Eo; cbn [deliver1];
      try rewrite invoke_no_retry;
      rewrite (replace_same _ _ _ Hn); rewrite (IH _ Hrest);
      destruct (wire_spec t timeout _ (map snd rest)) as [h rs]; reflexivity.
  Qed.

  (* the history only grows, by exactly the calls to be sent, in entry order *)
  Lemma wire_spec_calls t timeout es : forall hist,
    fst (wire_spec t timeout hist es) = hist ++ sent_of (map (spec_outcome t timeout) es).
  Proof.
    induction es as [|e r IH]; intros hist; cbn [GrpcWire.wire_spec map sent_of fst].
    - rewrite app_nil_r. reflexivity.
    - destruct (spec_outcome t timeout e) as [| | |s] eqn:Eo.
      1-3: specialize (IH hist); destruct (wire_spec t timeout hist r) as [h rs]; cbn [fst] in *; exact IH.
      specialize (IH (hist ++ [s])). destruct (wire_spec t timeout (hist ++ [s]) r) as [h rs].
      cbn [fst] in *. rewrite IH, <- app_assoc. reflexivity.
  Qed.

  Lemma wire_spec_results_length t timeout es : forall hist,
    length (snd (wire_spec t timeout hist es)) = length es.
  Proof.
    induction es as [|e r IH]; intros hist; cbn [GrpcWire.wire_spec]; [reflexivity|].
    destruct (spec_outcome t timeout e) as [| | |s];
      match goal with |- context [wire_spec t timeout ?h r] => specialize (IH h); destruct (wire_spec t timeout h r) end;
      cbn [snd length] in *; rewrite IH; reflexivity.
  Qed.

  (* the i-th result: the entry's tag, its specified outcome *)
  Lemma wire_spec_results_out t timeout es : forall hist,
    map (fun r => (r_tag msg r, r_out msg r)) (snd (wire_spec t timeout hist es)) =
    map (fun e => (e_tag payload e, spec_outcome t timeout e)) es.
  Proof.
    induction es as [|e r IH]; intros hist; cbn [GrpcWire.wire_spec map]; [reflexivity|].
    destruct (spec_outcome t timeout e) as [| | |s] eqn:Eo;
      match goal with |- context [wire_spec t timeout ?h r] => specialize (IH h); destruct (wire_spec t timeout h r) end;
      cbn [snd map r_tag r_out] in *; rewrite IH; reflexivity.
  Qed.

  (* a whole session under pandora's connection policy IS its specification *)
  Lemma session_is_spec c reflected n sched :
    Forall (fun ie => fst ie < n) sched ->
    session no_retry c reflected n sched = session_spec c reflected (map snd sched).
  Proof.
    intros Hs. unfold GrpcWire.session, GrpcWire.session_spec, warm_up.
    rewrite (wire_run_spec reflected (wc_timeout c)).
    - destruct (wire_spec reflected (wc_timeout c) [] (map snd sched)) as [h rs]. reflexivity.
    - apply Forall_forall. intros g Hg. apply repeat_spec in Hg. exact Hg.
    - rewrite repeat_length. exact Hs.
  Qed.

  (* the calls of a session do not depend on reflect_metadata: two configurations that differ in it
     only give the same calls and the same samples; the reflection request carries it *)
  Lemma session_spec_frame timeout rm rm' reflected es :
    tl (fst (session_spec (mkWConf timeout rm) reflected es)) = tl (fst (session_spec (mkWConf timeout rm') reflected es)) /\
    snd (session_spec (mkWConf timeout rm) reflected es) = snd (session_spec (mkWConf timeout rm') reflected es) /\
    hd_error (fst (session_spec (mkWConf timeout rm) reflected es)) = Some (WReflect rm).
  Proof.
    unfold GrpcWire.session_spec. cbn [wc_timeout wc_reflect_meta].
    destruct (wire_spec reflected timeout [] es) as [h rs]. repeat split.
  Qed.

  (* every call event of a specified session is the call of one of its entries: that entry's method and
     metadata — nothing else reaches the target *)
  Lemma session_spec_calls c reflected es s :
    In (WCall s) (fst (session_spec c reflected es)) ->
    exists e, In e es /\ spec_outcome reflected (wc_timeout c) e = Sent s /\
              s_method s = e_call payload e /\ s_meta s = e_meta payload e.
  Proof.
    unfold GrpcWire.session_spec.
    pose proof (wire_spec_calls reflected (wc_timeout c) es []) as E.
    destruct (wire_spec reflected (wc_timeout c) [] es) as [h rs]. cbn [fst] in *. subst h.
    intros [H|H]; [discriminate|].
    apply in_map_iff in H. destruct H as [s' [Es Hin]]. injection Es as ->.
    cbn [app] in Hin. clear rs.
    induction es as [|e r IH]; cbn [map sent_of] in Hin; [contradiction|].
    destruct (spec_outcome reflected (wc_timeout c) e) as [| | |s0] eqn:Eo;
      try (destruct (IH Hin) as [e' [H1 H2]]; exists e'; split; [right; exact H1|exact H2]).
    destruct Hin as [->|Hin].
    - exists e. split; [left; reflexivity|]. split; [exact Eo|].
      destruct (spec_outcome_sent _ _ _ _ Eo) as [Hm [Hmd _]]. split; assumption.
    - destruct (IH Hin) as [e' [H1 H2]]. exists e'. split; [right; exact H1|exact H2].
  Qed.

  (* exactly one call per entry that is to be sent *)
  Lemma session_spec_call_count c reflected es :
    length (fst (session_spec c reflected es)) =
      S (length (filter (fun e => match spec_outcome reflected (wc_timeout c) e with Sent _ => true | _ => false end) es)).
  Proof.
    unfold GrpcWire.session_spec.
    pose proof (wire_spec_calls reflected (wc_timeout c) es []) as E.
    destruct (wire_spec reflected (wc_timeout c) [] es) as [h rs]. cbn [fst] in *. subst h.
    cbn [length app]. rewrite map_length. f_equal.
    induction es as [|e r IH]; cbn [map sent_of filter]; [reflexivity|].
    destruct (spec_outcome reflected (wc_timeout c) e); cbn [length]; rewrite IH; reflexivity.
  Qed.
End PlainWireProofs.

(* scenario steps on the wire: whatever the interleaving, the target receives exactly the calls the
   specification of the executed steps says, one each, in execution order *)
Section ScenarioWireProofs.
  Variables desc msg tmpl vars : Type.
  Variable parse_t : gbytes -> option tmpl.
  Variable exec_t : tmpl -> vars -> option gbytes.
  Variable fits_text : desc -> gbytes -> option msg.
  Variable code_of_status : N -> N.
  Variable target : list (sent msg) -> sent msg -> N.

  Lemma scenario_wire h S (t : mtable desc) timeout (evs : list (sevent vars)) :
    steps_wf h S ->
    forall guns : list (sgun desc tmpl),
    Forall (gun_ok desc tmpl parse_t h S t timeout) guns ->
    Forall (fun e => In (ev_step vars e) S /\ ev_inst vars e < length guns) evs ->
    forall hist,
    let specs := map (fun e => spec_step desc msg tmpl vars parse_t exec_t fits_text t timeout h (ev_step vars e) (ev_vars vars e)) evs in
    deliver msg code_of_status target no_retry hist
      (snd (run_events desc msg tmpl vars parse_t exec_t fits_text h guns evs)) =
    (hist ++ sent_of specs, spec_codes msg code_of_status target hist specs).
  Proof.
    intros Hwf guns Hg He hist.
    destruct (run_events_spec desc msg tmpl vars parse_t exec_t fits_text h S t timeout evs Hwf guns Hg He) as [guns' [E _]].
    rewrite E. cbn [snd]. apply deliver_no_retry.
  Qed.
End ScenarioWireProofs.
