(* Lemmas about Model/GrpcJsonStart.v (property C05): the grpc/json provider reports every
   failure of its read loop -- in particular a scanner error is never swallowed, whatever the
   pass it happens in and whether or not another pass would follow. *)
From Coq Require Import List Arith Bool Lia.
From PV Require Import Model.GrpcJsonStart.
Import ListNotations.

Lemma existsb_firstn_false : forall A (p : A -> bool) n l, existsb p l = false -> existsb p (firstn n l) = false.
Proof.
  intros A p n l. revert n. induction l as [|x r IH]; intros [|n] H; cbn in *; auto.
  apply orb_false_iff in H as [H1 H2]. rewrite H1. cbn. apply IH. exact H2.
Qed.

(* the lines a pass that starts with [a] ammo already delivered still wants *)
Definition wanted_from (cf : jconf) (ls : list jline) (a : nat) : list jline :=
  if j_limit cf =? 0 then ls else firstn (j_limit cf - a) ls.

(* One uncancelled pass, characterised. *)
Lemma scan_pass_spec : forall cf ls a,
  if negb (j_coe cf) && existsb is_bad (wanted_from cf ls a)
  then exists n, scan_pass cf ls a None = PassReturn JFailDecode n
  else if (j_limit cf =? 0) || (length ls <=? j_limit cf - a)
       then scan_pass cf ls a None = PassTokensOut (a + length ls) None
       else scan_pass cf ls a None = PassLimit (Nat.max a (j_limit cf)) None.
Proof.
  intros cf ls. unfold wanted_from. induction ls as [|l r IH]; intros a.
  - cbn [scan_pass length]. destruct (j_limit cf =? 0) eqn:E0; cbn [firstn].
    + cbn. rewrite andb_false_r. f_equal. lia.
    + destruct (j_limit cf - a); cbn; rewrite andb_false_r; f_equal; lia.
  - cbn [scan_pass]. specialize (IH (S a)).
    destruct (j_limit cf =? 0) eqn:E0; cbn [negb andb orb] in *.
    + (* unlimited *)
      destruct l; cbn [is_bad existsb orb].
      * destruct (j_coe cf) eqn:Ec; cbn [negb andb] in *.
        -- cbn [budget_take]. rewrite IH. cbn [length]. f_equal. lia.
        -- cbn [budget_take]. destruct (existsb is_bad r).
           ++ exact IH.
           ++ rewrite IH. cbn [length]. f_equal. lia.
      * destruct (j_coe cf) eqn:Ec; cbn [negb andb] in *.
        -- cbn [budget_take]. rewrite IH. cbn [length]. f_equal. lia.
        -- eexists. reflexivity.
    + (* limited *)
      apply Nat.eqb_neq in E0.
      destruct (j_limit cf <=? a) eqn:Ela.
      * apply Nat.leb_le in Ela. replace (j_limit cf - a) with 0 by lia. cbn [firstn existsb].
        rewrite andb_false_r. cbn [length]. replace (S (length r) <=? 0) with false by (symmetry; apply Nat.leb_gt; lia).
        f_equal. lia.
      * apply Nat.leb_gt in Ela.
        replace (j_limit cf - a) with (S (j_limit cf - S a)) by lia. cbn [firstn existsb length].
        replace (S (length r) <=? S (j_limit cf - S a)) with (length r <=? j_limit cf - S a)
          by (destruct (length r <=? j_limit cf - S a) eqn:E1; symmetry;
              [apply Nat.leb_le; apply Nat.leb_le in E1; lia|apply Nat.leb_gt; apply Nat.leb_gt in E1; lia]).
        destruct l; cbn [is_bad orb].
        -- destruct (j_coe cf) eqn:Ec; cbn [negb andb] in *; cbn [budget_take].
           ++ destruct (length r <=? j_limit cf - S a); rewrite IH; f_equal; lia.
           ++ destruct (existsb is_bad (firstn (j_limit cf - S a) r)); [exact IH|].
              destruct (length r <=? j_limit cf - S a); rewrite IH; f_equal; lia.
        -- destruct (j_coe cf) eqn:Ec; cbn [negb andb] in *; cbn [budget_take].
           ++ destruct (length r <=? j_limit cf - S a); rewrite IH; f_equal; lia.
           ++ eexists. reflexivity.
Qed.

(* a file in which nothing can go wrong for this configuration *)
Definition clean (cf : jconf) (f : jfile) : Prop :=
  jend f = TEof /\ (negb (j_coe cf) && existsb is_bad (jlines f)) = false /\ jlines f <> [].

Lemma after_pass_not_failure_clean : forall cf f t n pn r,
  jend f = TEof -> n <> 0 -> after_pass cf f t n pn = Some r -> r = JNil.
Proof.
  intros cf f t n pn r He Hn H. unfold after_pass in H. rewrite He, andb_false_r in H.
  apply Nat.eqb_neq in Hn. rewrite Hn in H.
  destruct (negb (j_limit cf =? 0) && (j_limit cf <=? n)); [injection H as <-; reflexivity|].
  destruct (negb (j_passes cf =? 0) && (j_passes cf <=? pn)); [injection H as <-; reflexivity|discriminate].
Qed.

Lemma clean_no_bad_wanted : forall cf f a,
  (negb (j_coe cf) && existsb is_bad (jlines f)) = false ->
  (negb (j_coe cf) && existsb is_bad (wanted_from cf (jlines f) a)) = false.
Proof.
  intros cf f a H. unfold wanted_from. destruct (j_limit cf =? 0); [exact H|].
  destruct (j_coe cf); [reflexivity|]. cbn in *. apply existsb_firstn_false. exact H.
Qed.

(* on a clean file no pass, however many there are, ends in a failure *)
Lemma clean_loop_never_fails : forall cf f, clean cf f ->
  forall fuel a pn, jres_is_failure (fst (gj_loop fuel cf f a pn None)) = false.
Proof.
  intros cf f (He & Hb & Hne) fuel. induction fuel as [|fuel IH]; intros a pn; [reflexivity|].
  cbn [gj_loop]. pose proof (scan_pass_spec cf (jlines f) a) as SP.
  rewrite (clean_no_bad_wanted _ _ a Hb) in SP.
  assert (Hlen : length (jlines f) <> 0) by (destruct (jlines f); [congruence|cbn; lia]).
  destruct ((j_limit cf =? 0) || (length (jlines f) <=? j_limit cf - a)) eqn:Eall; rewrite SP.
  - destruct (after_pass cf f true (a + length (jlines f)) (S pn)) as [r|] eqn:Ea.
    + apply after_pass_not_failure_clean in Ea; [subst r; reflexivity|exact He|lia].
    + apply IH.
  - apply orb_false_iff in Eall as [E0 E1]. apply Nat.eqb_neq in E0.
    destruct (after_pass cf f false (Nat.max a (j_limit cf)) (S pn)) as [r|] eqn:Ea.
    + apply after_pass_not_failure_clean in Ea; [subst r; reflexivity|exact He|lia].
    + apply IH.
Qed.

(* THE statement: run to its end without being cancelled, start reports a failure exactly when
   the specification says this configuration has to -- for every number of passes (fuel). *)
Theorem gj_failure_iff_spec : forall cf f fuel,
  1 <= fuel -> jres_is_failure (fst (gj_start fuel cf f None)) = gj_spec_fails cf f.
Proof.
  intros cf f fuel Hf. destruct fuel as [|fuel]; [lia|]. unfold gj_start. cbn [gj_loop].
  pose proof (scan_pass_spec cf (jlines f) 0) as SP. unfold wanted_from in SP. rewrite Nat.sub_0_r in SP.
  unfold gj_spec_fails, gj_wanted.
  destruct (negb (j_coe cf) && existsb is_bad (if j_limit cf =? 0 then jlines f else firstn (j_limit cf) (jlines f))) eqn:Ebad.
  - destruct SP as [n ->]. reflexivity.
  - cbn [orb].
    destruct ((j_limit cf =? 0) || (length (jlines f) <=? j_limit cf)) eqn:Eall; rewrite SP.
    + (* the scanner runs out of tokens in the first pass *)
      cbn [Nat.add]. destruct (jend f) eqn:Ee.
      * (* end of file *)
        cbn [andb orb]. destruct (jlines f) as [|l0 r0] eqn:El.
        -- cbn [length]. unfold after_pass. rewrite Ee. reflexivity.
        -- assert (Hclean : clean cf f).
           { repeat split; [exact Ee| |rewrite El; discriminate].
             rewrite <- El in *. destruct (j_limit cf =? 0) eqn:E0; [exact Ebad|].
             cbn [orb] in Eall. apply Nat.leb_le in Eall. rewrite firstn_all2 in Ebad by lia. exact Ebad. }
           rewrite <- El.
           destruct (after_pass cf f true (length (jlines f)) 1) as [r|] eqn:Ea.
           ++ apply after_pass_not_failure_clean in Ea; [subst r; reflexivity|exact Ee|rewrite El; cbn; lia].
           ++ apply clean_loop_never_fails. exact Hclean.
      * (* the scanner stopped with an error: reported at once, whatever limit / passes say *)
        unfold after_pass. rewrite Ee. cbn [andb]. reflexivity.
    + (* the limit is reached inside the first pass: the rest of the file is never looked at *)
      apply orb_false_iff in Eall as [E0 E1]. apply Nat.leb_gt in E1.
      rewrite andb_false_r. cbn [orb].
      assert (Hl : jlines f <> []) by (destruct (jlines f); [cbn in E1; lia|discriminate]).
      destruct (jlines f) as [|l0 r0] eqn:El; [congruence|]. try rewrite <- El.
      unfold after_pass. cbn [andb]. rewrite Nat.max_0_l.
      pose proof E0 as E0'. apply Nat.eqb_neq in E0'. rewrite E0. cbn [negb andb].
      replace (j_limit cf =? 0) with false in * by (symmetry; exact E0).
      rewrite Nat.leb_refl. reflexivity.
Qed.

(* the half of it the property is about: a scanner error the provider runs into (the file does
   not hold more complete lines than the configuration wants) is never swallowed *)
Theorem gj_scan_error_never_swallowed : forall cf f fuel,
  1 <= fuel -> jend f = TErr -> (j_limit cf = 0 \/ length (jlines f) <= j_limit cf) ->
  jres_is_failure (fst (gj_start fuel cf f None)) = true.
Proof.
  intros cf f fuel Hf He Hl. rewrite gj_failure_iff_spec by exact Hf.
  unfold gj_spec_fails. rewrite He. cbn [andb].
  assert ((j_limit cf =? 0) || (length (jlines f) <=? j_limit cf) = true) as ->.
  { destruct Hl as [->|Hl]; [reflexivity|]. apply orb_true_iff. right. apply Nat.leb_le. exact Hl. }
  rewrite orb_true_r. reflexivity.
Qed.

(* an undecodable wanted line is reported too (unless the configuration says to skip errors) *)
Theorem gj_decode_error_never_swallowed : forall cf f fuel,
  1 <= fuel -> j_coe cf = false -> existsb is_bad (gj_wanted cf f) = true ->
  jres_is_failure (fst (gj_start fuel cf f None)) = true.
Proof.
  intros cf f fuel Hf Hc Hb. rewrite gj_failure_iff_spec by exact Hf.
  unfold gj_spec_fails. rewrite Hc, Hb. reflexivity.
Qed.

(* success of an uncancelled run means nothing had to be reported *)
Theorem gj_nil_means_no_failure : forall cf f fuel d,
  1 <= fuel -> gj_start fuel cf f None = (JNil, d) -> gj_spec_fails cf f = false.
Proof.
  intros cf f fuel d Hf H. rewrite <- (gj_failure_iff_spec cf f fuel Hf). rewrite H. reflexivity.
Qed.

(* ---------------------------------------------------------------------------------------- *)
(* The pass budget [gj_fuel] is enough: JOutOfFuel does not occur for a configuration that ends
   by itself (Passes or Limit set). *)

Lemma scan_pass_return_not_fuel : forall cf ls a b r n, scan_pass cf ls a b = PassReturn r n -> r <> JOutOfFuel.
Proof.
  intros cf ls. induction ls as [|l rs IH]; intros a b r n H; cbn [scan_pass] in H; [discriminate|].
  destruct (negb (j_limit cf =? 0) && (j_limit cf <=? a)); [discriminate|].
  destruct l, (j_coe cf); try (injection H as <- _; discriminate);
    (destruct (budget_take b) as [b'|]; [eapply IH; exact H|injection H as <- _; discriminate]).
Qed.

Lemma after_pass_not_fuel : forall cf f t n pn r, after_pass cf f t n pn = Some r -> r <> JOutOfFuel.
Proof.
  intros cf f t n pn r H. unfold after_pass in H.
  repeat match type of H with (if ?c then _ else _) = _ => destruct c end;
    try discriminate; injection H as <-; discriminate.
Qed.

Lemma loop_fuel_passes : forall cf f fuel a pn,
  j_passes cf <> 0 -> pn < j_passes cf -> j_passes cf <= pn + fuel ->
  fst (gj_loop fuel cf f a pn None) <> JOutOfFuel.
Proof.
  intros cf f fuel. induction fuel as [|fuel IH]; intros a pn Hp Hlt Hle; [lia|].
  cbn [gj_loop].
  destruct (scan_pass cf (jlines f) a None) as [n b'|n b'|r n] eqn:Esp.
  - destruct (after_pass cf f true n (S pn)) as [r|] eqn:Ea; [eapply after_pass_not_fuel; exact Ea|].
    pose proof (scan_pass_spec cf (jlines f) a) as SP. rewrite Esp in SP.
    assert (b' = None) as ->.
    { destruct (negb (j_coe cf) && existsb is_bad (wanted_from cf (jlines f) a)); [destruct SP; discriminate|].
      destruct ((j_limit cf =? 0) || (length (jlines f) <=? j_limit cf - a)); congruence. }
    apply IH; try lia.
    unfold after_pass in Ea.
    destruct (true && match jend f with TErr => true | TEof => false end); [discriminate|].
    destruct (n =? 0); [discriminate|].
    destruct (negb (j_limit cf =? 0) && (j_limit cf <=? n)); [discriminate|].
    destruct (j_passes cf =? 0) eqn:E0; [apply Nat.eqb_eq in E0; lia|]. cbn [negb andb] in Ea.
    destruct (j_passes cf <=? S pn) eqn:E1; [discriminate|]. apply Nat.leb_gt in E1. lia.
  - destruct (after_pass cf f false n (S pn)) as [r|] eqn:Ea; [eapply after_pass_not_fuel; exact Ea|].
    pose proof (scan_pass_spec cf (jlines f) a) as SP. rewrite Esp in SP.
    assert (b' = None) as ->.
    { destruct (negb (j_coe cf) && existsb is_bad (wanted_from cf (jlines f) a)); [destruct SP; discriminate|].
      destruct ((j_limit cf =? 0) || (length (jlines f) <=? j_limit cf - a)); congruence. }
    apply IH; try lia.
    unfold after_pass in Ea. cbn [andb] in Ea.
    destruct (n =? 0); [discriminate|].
    destruct (negb (j_limit cf =? 0) && (j_limit cf <=? n)); [discriminate|].
    destruct (j_passes cf =? 0) eqn:E0; [apply Nat.eqb_eq in E0; lia|]. cbn [negb andb] in Ea.
    destruct (j_passes cf <=? S pn) eqn:E1; [discriminate|]. apply Nat.leb_gt in E1. lia.
  - cbn [fst]. eapply scan_pass_return_not_fuel. exact Esp.
Qed.

Lemma after_pass_none_below_limit : forall cf f t n pn,
  j_limit cf <> 0 -> after_pass cf f t n pn = None -> n < j_limit cf /\ n <> 0.
Proof.
  intros cf f t n pn Hl Ea. unfold after_pass in Ea.
  destruct (t && match jend f with TErr => true | TEof => false end); [discriminate|].
  destruct (n =? 0) eqn:En; [discriminate|]. apply Nat.eqb_neq in En.
  replace (j_limit cf =? 0) with false in Ea by (symmetry; apply Nat.eqb_neq; exact Hl).
  cbn [negb andb] in Ea.
  destruct (j_limit cf <=? n) eqn:E2; [discriminate|]. apply Nat.leb_gt in E2. split; assumption.
Qed.

Lemma loop_fuel_limit : forall cf f fuel a pn,
  j_limit cf <> 0 -> (jlines f <> [] \/ a = 0) -> a <= j_limit cf -> j_limit cf < a + fuel ->
  fst (gj_loop fuel cf f a pn None) <> JOutOfFuel.
Proof.
  intros cf f fuel. induction fuel as [|fuel IH]; intros a pn Hl Hne Hle Hlt; [lia|].
  cbn [gj_loop].
  pose proof (scan_pass_spec cf (jlines f) a) as SP.
  destruct (negb (j_coe cf) && existsb is_bad (wanted_from cf (jlines f) a)).
  - destruct SP as [n ->]. discriminate.
  - pose proof Hl as Hl'. apply Nat.eqb_neq in Hl'. rewrite Hl' in SP. cbn [orb] in SP.
    destruct (length (jlines f) <=? j_limit cf - a) eqn:E1; rewrite SP.
    + destruct (after_pass cf f true (a + length (jlines f)) (S pn)) as [r|] eqn:Ea; [eapply after_pass_not_fuel; exact Ea|].
      destruct (after_pass_none_below_limit _ _ _ _ _ Hl Ea) as [Hn Hn0].
      assert (jlines f <> []) as Hne'.
      { destruct Hne as [H|H]; [exact H|]. subst a. intro E. rewrite E in Hn0. cbn in Hn0. lia. }
      assert (length (jlines f) <> 0) by (destruct (jlines f); [congruence|cbn; lia]).
      apply IH; [exact Hl|left; exact Hne'|lia|lia].
    + destruct (after_pass cf f false (Nat.max a (j_limit cf)) (S pn)) as [r|] eqn:Ea; [eapply after_pass_not_fuel; exact Ea|].
      destruct (after_pass_none_below_limit _ _ _ _ _ Hl Ea) as [Hn _]. lia.
Qed.

Theorem gj_fuel_enough : forall cf f,
  (j_passes cf <> 0 \/ j_limit cf <> 0) -> fst (gj_start (gj_fuel cf) cf f None) <> JOutOfFuel.
Proof.
  intros cf f H. unfold gj_start, gj_fuel.
  destruct (j_passes cf =? 0) eqn:Ep; cbn [negb].
  - apply Nat.eqb_eq in Ep. destruct H as [H|H]; [congruence|].
    pose proof H as H'. apply Nat.eqb_neq in H'. rewrite H'. cbn [negb].
    apply loop_fuel_limit; [exact H|right; reflexivity|lia|lia].
  - apply Nat.eqb_neq in Ep. apply loop_fuel_passes; lia.
Qed.

(* ---------------------------------------------------------------------------------------- *)
(* the files of the correspondence run *)

Lemma repeat_good_no_bad : forall n, existsb is_bad (repeat JGood n) = false.
Proof. induction n; cbn; auto. Qed.

(* [k] good lines and then a read failure / an over-long line: reported whenever the
   configuration wants more than the k lines, on every pass count *)
Theorem gj_file_read_failure_reported : forall cf k m fuel,
  1 <= fuel -> (j_limit cf = 0 \/ k <= j_limit cf) ->
  jres_is_failure (fst (gj_start fuel cf (gj_file k m PoRead) None)) = true.
Proof.
  intros cf k m fuel Hf Hl. apply gj_scan_error_never_swallowed; [exact Hf|reflexivity|].
  cbn [gj_file jlines]. rewrite repeat_length. exact Hl.
Qed.

(* ---------------------------------------------------------------------------------------- *)
(* "the pool ran out of ammo" for real: an uncancelled run that returns nil has delivered what
   the configuration asks for -- Passes times the file, cut at Limit *)

Lemma loop_nil_delivered : forall cf f fuel pn d,
  (j_limit cf = 0 \/ pn * length (jlines f) < j_limit cf) ->
  (j_passes cf = 0 \/ pn < j_passes cf) ->
  gj_loop fuel cf f (pn * length (jlines f)) pn None = (JNil, d) ->
  d = gj_spec_delivered cf f.
Proof.
  intros cf f fuel. induction fuel as [|fuel IH]; intros pn d Hlim Hpas H; [discriminate|].
  cbn [gj_loop] in H.
  pose proof (scan_pass_spec cf (jlines f) (pn * length (jlines f))) as SP.
  destruct (negb (j_coe cf) && existsb is_bad (wanted_from cf (jlines f) (pn * length (jlines f)))).
  { destruct SP as [n E]. rewrite E in H. discriminate. }
  assert (Hrec := IH (S pn) d). cbn [Nat.mul] in Hrec.
  assert (Hmono : forall p q, p <= q -> p * length (jlines f) <= q * length (jlines f))
    by (intros; apply Nat.mul_le_mono_r; assumption).
  unfold gj_spec_delivered in *.
  destruct (j_limit cf =? 0) eqn:E0; cbn [orb] in SP.
  - (* no limit *)
    apply Nat.eqb_eq in E0. rewrite SP in H. rewrite Nat.add_comm in H.
    unfold after_pass in H at 1. rewrite E0 in H. cbn [Nat.eqb negb andb] in H.
    destruct (jend f); [|discriminate].
    destruct (length (jlines f) + pn * length (jlines f) =? 0); [discriminate|].
    destruct (j_passes cf =? 0) eqn:Ep; cbn [negb andb] in H.
    + apply Nat.eqb_eq in Ep. apply Hrec; [left; exact E0|left; exact Ep|exact H].
    + apply Nat.eqb_neq in Ep. destruct Hpas as [Hp|Hp]; [congruence|].
      destruct (j_passes cf <=? S pn) eqn:E1.
      * apply Nat.leb_le in E1. injection H as <-.
        assert (j_passes cf = S pn) as -> by lia. cbn [Nat.mul]. lia.
      * apply Nat.leb_gt in E1. apply Hrec; [left; exact E0|right; lia|exact H].
  - (* a limit *)
    apply Nat.eqb_neq in E0. destruct Hlim as [Hl|Hl]; [congruence|].
    destruct (length (jlines f) <=? j_limit cf - pn * length (jlines f)) eqn:E1; rewrite SP in H.
    + apply Nat.leb_le in E1. rewrite Nat.add_comm in H.
      unfold after_pass in H at 1. cbn [andb] in H.
      destruct (jend f); [|discriminate].
      destruct (length (jlines f) + pn * length (jlines f) =? 0); [discriminate|].
      replace (j_limit cf =? 0) with false in H by (symmetry; apply Nat.eqb_neq; exact E0).
      cbn [negb andb] in H.
      destruct (j_limit cf <=? length (jlines f) + pn * length (jlines f)) eqn:E2.
      * apply Nat.leb_le in E2. injection H as <-.
        destruct (j_passes cf =? 0) eqn:Ep; [lia|]. apply Nat.eqb_neq in Ep.
        destruct Hpas as [Hp|Hp]; [congruence|]. specialize (Hmono (S pn) (j_passes cf) Hp). cbn [Nat.mul] in Hmono. lia.
      * apply Nat.leb_gt in E2.
        destruct (j_passes cf =? 0) eqn:Ep; cbn [negb andb] in H.
        -- apply Nat.eqb_eq in Ep. apply Hrec; [right; lia|left; exact Ep|exact H].
        -- apply Nat.eqb_neq in Ep. destruct Hpas as [Hp|Hp]; [congruence|].
           destruct (j_passes cf <=? S pn) eqn:E3.
           ++ apply Nat.leb_le in E3. injection H as <-.
              assert (j_passes cf = S pn) as -> by lia. cbn [Nat.mul]. lia.
           ++ apply Nat.leb_gt in E3. apply Hrec; [right; lia|right; lia|exact H].
    + apply Nat.leb_gt in E1.
      unfold after_pass in H at 1. cbn [andb] in H.
      replace (Nat.max (pn * length (jlines f)) (j_limit cf)) with (j_limit cf) in H by lia.
      replace (j_limit cf =? 0) with false in H by (symmetry; apply Nat.eqb_neq; exact E0).
      cbn [negb andb] in H. rewrite Nat.leb_refl in H.
      destruct (j_limit cf =? 0) eqn:E00; [apply Nat.eqb_eq in E00; congruence|].
      injection H as <-.
      destruct (j_passes cf =? 0) eqn:Ep; [reflexivity|]. apply Nat.eqb_neq in Ep.
      destruct Hpas as [Hp|Hp]; [congruence|]. specialize (Hmono (S pn) (j_passes cf) Hp). cbn [Nat.mul] in Hmono. lia.
Qed.

Theorem gj_nil_delivered : forall cf f fuel d,
  gj_start fuel cf f None = (JNil, d) -> d = gj_spec_delivered cf f.
Proof.
  intros cf f fuel d H. unfold gj_start in H.
  apply (loop_nil_delivered cf f fuel 0 d); [| |exact H].
  - destruct (j_limit cf); [left; reflexivity|right; cbn; lia].
  - destruct (j_passes cf); [left; reflexivity|right; lia].
Qed.
