(* Every schedule made by a factory behaves as THE schedule of the configuration on its own
   operations, whatever is done with the other schedules of the same factory. *)
From Coq Require Import List ZArith Bool Arith Lia.
From PV Require Import Model.SchedTree Model.SchedConc Model.SchedFactory
  Proofs.SchedTreeProofs Proofs.SchedTreeSeq Proofs.SchedTreeRun.
Import ListNotations.
Local Open Scope Z_scope.

Lemma nth_upd_same {A} (l : list A) i x y : nth_error l i = Some y -> nth_error (upd i x l) i = Some x.
Proof. revert i; induction l; intros [|i] H; cbn in *; try discriminate; auto. Qed.
Lemma nth_upd_other {A} (l : list A) i j x : i <> j -> nth_error (upd i x l) j = nth_error l j.
Proof. revert i j; induction l; intros [|i] [|j] H; cbn; auto; try congruence. Qed.

Lemma proj_obs_cons_same j ob l : proj_obs j ((j, ob) :: l) = ob :: proj_obs j l.
Proof. unfold proj_obs. cbn. now rewrite Nat.eqb_refl. Qed.
Lemma proj_obs_cons_other j j' ob l : j' <> j -> proj_obs j ((j', ob) :: l) = proj_obs j l.
Proof. intros N. unfold proj_obs. cbn. apply Nat.eqb_neq in N. now rewrite N. Qed.
Lemma proj_ops_cons_same j x l : proj_ops j ((j, x) :: l) = x :: proj_ops j l.
Proof. unfold proj_ops. cbn. now rewrite Nat.eqb_refl. Qed.
Lemma proj_ops_cons_other j j' x l : j' <> j -> proj_ops j ((j', x) :: l) = proj_ops j l.
Proof. intros N. unfold proj_ops. cbn. apply Nat.eqb_neq in N. now rewrite N. Qed.

(* the projection of a system run on instance j is the run of instance j on the projected operations *)
Lemma sys_run_proj fuel j : forall ops ss,
  proj_obs j (sys_run fuel ss ops) =
  match nth_error ss j with
  | Some (Some s) => run_tree fuel s (proj_ops j ops)
  | _ => []
  end.
Proof.
  induction ops as [|[j' [now o]] r IH]; intros ss.
  - cbn. destruct (nth_error ss j) as [[s|]|]; reflexivity.
  - cbn [sys_run]. destruct (Nat.eq_dec j' j) as [->|N].
    + rewrite proj_ops_cons_same.
      destruct (nth_error ss j) as [[s|]|] eqn:Hn.
      * unfold inst_step. cbn [run_tree].
        destruct o.
        -- destruct (s_start t s) as [s'| |]; rewrite proj_obs_cons_same, IH, (nth_upd_same _ _ _ _ Hn); reflexivity.
        -- destruct (s_next fuel now s) as [[[s' t] ok]| |]; rewrite proj_obs_cons_same, IH, (nth_upd_same _ _ _ _ Hn); reflexivity.
        -- destruct (s_left fuel now s) as [[s' k]| |]; rewrite proj_obs_cons_same, IH, (nth_upd_same _ _ _ _ Hn); reflexivity.
      * rewrite IH, Hn. reflexivity.
      * rewrite IH, Hn. reflexivity.
    + rewrite proj_ops_cons_other by auto.
      destruct (nth_error ss j') as [[s'|]|] eqn:Hn'; try apply IH.
      destruct (inst_step fuel s' now o) as [ob i'].
      rewrite proj_obs_cons_other by auto. rewrite IH. rewrite nth_upd_other by auto. reflexivity.
Qed.

Lemma clock_ok_weaken ops : forall lo lo', lo <= lo' -> clock_ok lo' ops -> clock_ok lo ops.
Proof. destruct ops as [|[now o] r]; cbn; auto. intros lo lo' L [H1 H2]; split; auto; lia. Qed.

Lemma clock_ok_proj j : forall ops lo, clock_ok lo (map snd ops) -> clock_ok lo (proj_ops j ops).
Proof.
  induction ops as [|[j' [now o]] r IH]; intros lo H; cbn in *; auto.
  destruct H as [H1 H2]. unfold proj_ops. cbn [filter fst]. destruct (Nat.eqb j' j); cbn [map snd].
  - cbn. split; auto; apply IH; auto.
  - apply clock_ok_weaken with now; auto; apply IH; auto.
Qed.

Lemma sys_init_all fuel now c s : build fuel now c = Ok s ->
  forall k, sys_init fuel now c k = Ok (repeat (Some s) k).
Proof. intros B. induction k; cbn; auto. rewrite B. cbn. rewrite IHk. reflexivity. Qed.

Lemma nth_repeat {A} (x : A) k j : (j < k)%nat -> nth_error (repeat x k) j = Some x.
Proof. revert j; induction k; intros [|j] H; cbn; try lia; auto. apply IHk. lia. Qed.

Theorem factory_independent : forall c fuel now0 k,
  (size_cfg c <= fuel)%nat ->
  exists ss, sys_init fuel now0 c k = Ok ss /\ length ss = k /\
    forall lo ops, clock_ok lo (map snd ops) ->
    forall j, (j < k)%nat ->
      proj_obs j (sys_run fuel ss ops) = run_abs (a_init (flatten_cfg c)) (proj_ops j ops).
Proof.
  intros c fuel now0 k Hs. destruct (seq_refines c fuel now0 Hs) as (s & B & R).
  exists (repeat (Some s) k). split; [apply sys_init_all; auto|]. split; [apply repeat_length|].
  intros lo ops Hc j Hj. rewrite sys_run_proj. rewrite nth_repeat by auto.
  apply R with lo. apply clock_ok_proj; auto.
Qed.

(* non-vacuity: the profile [once(2); const(1 rps, 2 s)] (4 tokens), three schedules of one factory;
   the first is drained while the others are only asked for Left *)
Definition fx_cfg : cfg := CComp [CDoAt 2 0 (fun _ => 0); CDoAt 2 2000 (fun i => Z.of_nat i * 1000)].
Definition fx_ops : list (nat * (Z * op)) :=
  map (fun p => (Z.to_nat (fst p), (50, snd p)))
    [(0, OStart 0); (1, OLeft); (0, ONext); (1, OLeft); (2, OLeft); (0, ONext); (0, ONext); (0, ONext);
     (0, ONext); (1, OLeft); (1, OStart 7); (1, ONext); (0, OLeft); (2, OLeft)].

Lemma factory_example :
  clock_ok 0 (map snd fx_ops) /\
  match sys_init 5 0 fx_cfg 3 with Ok ss => sys_run 5 ss fx_ops | _ => [] end =
      [(0, RStart); (1, RLeft 4); (0, RNext 0 true); (1, RLeft 4); (2, RLeft 4); (0, RNext 0 true);
       (0, RNext 0 true); (0, RNext 1000 true); (0, RNext 2000 false); (1, RLeft 4); (1, RStart);
       (1, RNext 7 true); (0, RLeft 0); (2, RLeft 4)]%nat.
Proof.
  split.
  - vm_compute. repeat split; discriminate.
  - vm_compute. reflexivity.
Qed.
