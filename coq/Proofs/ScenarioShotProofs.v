(* Lemmas about one shot: the step loop of ScenarioGun.shoot/shootStep (C15): order, stop at
   the first failing step, one sample per executed step, pauses, variable visibility.
   All statements are quantified over arbitrary oracles (preprocessor, templater, HTTP
   exchange, postprocessors) and an arbitrary world state. *)
From Coq Require Import List NArith ZArith Bool Lia Arith PeanoNat.
From PV Require Import Model.Iterator Model.Scenario Proofs.ScenarioParseProofs.
Import ListNotations.

Fixpoint increasing (l : list nat) : Prop :=
  match l with
  | a :: ((b :: _) as r) => (a < b)%nat /\ increasing r
  | _ => True
  end.

Lemma increasing_app a b m :
  increasing a -> increasing b -> Forall (fun x => (x < m)%nat) a -> Forall (fun y => (m <= y)%nat) b ->
  increasing (a ++ b).
Proof.
  intros Ha Hb Fa Fb. induction a as [|x a IH]; [exact Hb|].
  cbn [app]. destruct a as [|y a'].
  - cbn [app]. destruct b as [|z b']; [exact I|]. cbn [increasing]. split; [|exact Hb].
    inversion Fa; inversion Fb; subst. lia.
  - cbn [app increasing] in *. destruct Ha as [Hxy Ha']. split; [exact Hxy|].
    apply IH; [exact Ha'|inversion Fa; assumption].
Qed.

Section ShotProofs.
  Variables (W Src Req Rend Resp V : Type).
  Variable rname : Req -> bytes.
  Variable o_pre : Req -> tree Src V -> W -> W * option (vars V).
  Variable o_render : Req -> tree Src V -> W -> W * option Rend.
  Variable o_exec : Rend -> W -> W * option Resp.
  Variable o_post : Req -> Resp -> W -> W * option (vars V).
  Variable o_status : Resp -> Z.

  Notation step := (step W Src Req Rend Resp V rname o_pre o_render o_exec o_post o_status).
  Notation run := (run W Src Req Rend Resp V rname o_pre o_render o_exec o_post o_status).
  Notation shoot := (shoot W Src Req Rend Resp V rname o_pre o_render o_exec o_post o_status).
  Notation event := (event Src Rend V).
  Notation sends := (sends Src Rend V).
  Notation samples := (samples Src Rend V).
  Notation pauses := (pauses Src Rend V).
  Notation ev_key := (ev_key Src Rend V).
  Notation ev_index := (ev_index Src Rend V).
  Notation ev_rank := (ev_rank Src Rend V).

  Lemma sends_app a b : sends (a ++ b) = sends a ++ sends b.
  Proof. unfold Scenario.sends. apply flat_map_app. Qed.
  Lemma samples_app a b : samples (a ++ b) = samples a ++ samples b.
  Proof. unfold Scenario.samples. apply flat_map_app. Qed.
  Lemma pauses_app a b : pauses (a ++ b) = pauses a ++ pauses b.
  Proof. unfold Scenario.pauses. apply flat_map_app. Qed.

  (* ---------- one step ---------- *)

  Definition step_ok (ot : tree Src V * history V + fail_kind) : bool :=
    match ot with inl _ => true | inr _ => false end.

  Lemma step_shape j rq sl t h w :
    let '(ev, _, ot) := step j rq sl t h w in
    sends ev = match ot with inl _ => [j] | inr k => if fk_sent k then [j] else [] end /\
    (exists st, samples ev = [(j, st)] /\ (st <> None <-> step_ok ot = true)) /\
    pauses ev = match ot with inl _ => if (0 <? sl)%Z then [(j, sl)] else [] | inr _ => [] end /\
    Forall (fun e => ev_index e = j) ev /\
    increasing (map ev_rank ev).
  Proof.
    unfold Scenario.step.
    destruct (o_pre rq _ w) as [w1 [pv|]].
    2:{ cbn. repeat split; try (repeat constructor).
        exists None. split; [reflexivity|]. split; intros H; [contradiction|discriminate]. }
    destruct (o_render rq _ w1) as [w2 [rend|]].
    2:{ cbn. repeat split; try (repeat constructor).
        exists None. split; [reflexivity|]. split; intros H; [contradiction|discriminate]. }
    destruct (o_exec rend w2) as [w3 [resp|]].
    2:{ cbn. repeat split; try (repeat constructor).
        exists None. split; [reflexivity|]. split; intros H; [contradiction|discriminate]. }
    destruct (o_post rq resp w3) as [w4 [pov|]].
    2:{ cbn. repeat split; try (repeat constructor).
        exists None. split; [reflexivity|]. split; intros H; [contradiction|discriminate]. }
    destruct (0 <? sl)%Z; cbn; repeat split; try (repeat constructor); try lia.
    - exists (Some (o_status resp)). split; [reflexivity|]. split; intros; [reflexivity|discriminate].
    - exists (Some (o_status resp)). split; [reflexivity|]. split; intros; [reflexivity|discriminate].
  Qed.

  (* ---------- the loop: order, stop at the first failure ---------- *)

  Definition all_ok (l : list (nat * option Z)) : Prop := Forall (fun p => snd p <> None) l.

  Definition order_stop_spec (j0 : nat) (steps : list (Req * Z)) (evs : list event) (out : outcome) : Prop :=
    match out with
    | Done =>
        sends evs = seq j0 (length steps) /\
        map fst (samples evs) = seq j0 (length steps) /\ all_ok (samples evs) /\
        pauses evs = pauses_spec Req j0 steps
    | FailedAt j k =>
        exists d, j = (j0 + d)%nat /\ (d < length steps)%nat /\
          sends evs = seq j0 d ++ (if fk_sent k then [j] else []) /\
          (exists oks, samples evs = oks ++ [(j, None)] /\ map fst oks = seq j0 d /\ all_ok oks) /\
          pauses evs = pauses_spec Req j0 (firstn d steps) /\
          Forall (fun e => (ev_index e <= j)%nat) evs
    end.

  Lemma key_bounds j e : ev_index e = j -> (4 * j <= ev_key e < 4 * (S j))%nat.
  Proof. intros <-. unfold Scenario.ev_key. destruct e; cbn; lia. Qed.

  Lemma increasing_keys_step j ev :
    Forall (fun e => ev_index e = j) ev -> increasing (map ev_rank ev) -> increasing (map ev_key ev).
  Proof.
    induction ev as [|e ev IH]; intros Hj Hr; [exact I|].
    inversion Hj as [|? ? He Hj']; subst. destruct ev as [|e2 ev'].
    - exact I.
    - cbn [map increasing] in *. destruct Hr as [Hlt Hr']. split; [|apply IH; assumption].
      inversion Hj' as [|? ? He2 _]; subst. unfold Scenario.ev_key. rewrite He2. lia.
  Qed.

  Lemma run_order_stop steps : forall j0 t h w,
    let '(evs, _, out) := run j0 steps t h w in
    order_stop_spec j0 steps evs out /\
    increasing (map ev_key evs) /\
    Forall (fun e => (j0 <= ev_index e)%nat) evs.
  Proof.
    induction steps as [|[rq sl] rest IH]; intros j0 t h w.
    - cbn. repeat split; constructor.
    - cbn [Scenario.run].
      pose proof (step_shape j0 rq sl t h w) as S.
      destruct (step j0 rq sl t h w) as [[ev w1] ot].
      destruct S as (Ssend & (st & Ssam & Sst) & Spau & Sidx & Srank).
      assert (Kstep : increasing (map ev_key ev)) by (apply (increasing_keys_step j0); assumption).
      destruct ot as [[t1 h1]|k].
      + specialize (IH (S j0) t1 h1 w1).
        destruct (run (S j0) rest t1 h1 w1) as [[ev2 w2] o].
        destruct IH as (Hspec & Hinc & Hlow).
        assert (Hst : st <> None) by (apply Sst; reflexivity).
        split; [|split].
        * destruct o as [|j k].
          -- cbn [order_stop_spec] in *. destruct Hspec as (H1 & H2 & H3 & H4).
             rewrite sends_app, samples_app, pauses_app, Ssend, Ssam, Spau, H1, H4.
             cbn [length seq app map fst pauses_spec]. repeat split.
             ++ rewrite H2. reflexivity.
             ++ constructor; [exact Hst|exact H3].
          -- cbn [order_stop_spec] in *.
             destruct Hspec as (d & -> & Hd & H1 & (oks & H2 & H2' & H2'') & H4 & H5).
             exists (S d). split; [lia|]. split; [cbn [length]; lia|]. split; [|split; [|split]].
             ++ rewrite sends_app, Ssend, H1. cbn [seq app].
                replace (j0 + S d)%nat with (S j0 + d)%nat by lia. reflexivity.
             ++ exists ((j0, st) :: oks). rewrite samples_app, Ssam, H2. cbn [app]. split; [|split].
                ** replace (j0 + S d)%nat with (S j0 + d)%nat by lia. reflexivity.
                ** cbn [map fst seq]. rewrite H2'. reflexivity.
                ** constructor; [exact Hst|exact H2''].
             ++ rewrite pauses_app, Spau, H4. cbn [firstn pauses_spec]. reflexivity.
             ++ apply Forall_app. split.
                ** eapply Forall_impl; [|exact Sidx]. cbn beta. intros e He. rewrite He. lia.
                ** eapply Forall_impl; [|exact H5]. cbn beta. intros e He. lia.
        * rewrite map_app. apply (increasing_app _ _ (4 * S j0)); try assumption.
          -- apply Forall_map. eapply Forall_impl; [|exact Sidx]. cbn beta. intros e He.
             pose proof (key_bounds j0 e He). lia.
          -- apply Forall_map. eapply Forall_impl; [|exact Hlow]. cbn beta. intros e He.
             unfold Scenario.ev_key. lia.
        * apply Forall_app. split.
          -- eapply Forall_impl; [|exact Sidx]. cbn beta. intros e He. lia.
          -- eapply Forall_impl; [|exact Hlow]. cbn beta. intros e He. lia.
      + assert (Hst : st = None).
        { destruct st as [z|]; [|reflexivity]. exfalso.
          assert (E : step_ok (inr k) = true) by (apply Sst; discriminate). discriminate E. }
        subst st. split; [|split].
        * cbn [order_stop_spec]. exists 0%nat. rewrite Nat.add_0_r. cbn [length seq firstn pauses_spec app].
          repeat split; try lia; try assumption.
          -- exists []. repeat split; [exact Ssam|constructor].
          -- eapply Forall_impl; [|exact Sidx]. cbn beta. intros e He. lia.
        * exact Kstep.
        * eapply Forall_impl; [|exact Sidx]. cbn beta. intros e He. lia.
  Qed.

  (* ---------- variable visibility ---------- *)

  Lemma rm_get_set (m : reqmap V) n v n' :
    rm_get (rm_set m n v) n' = if beq n n' then Some v else rm_get m n'.
  Proof.
    induction m as [|[k x] m IH]; cbn [rm_set rm_get].
    - destruct (beq n n'); reflexivity.
    - destruct (beq k n) eqn:Ekn.
      + apply beq_eq in Ekn. subst k. cbn [rm_get]. destruct (beq n n'); reflexivity.
      + cbn [rm_get]. rewrite IH. destruct (beq k n') eqn:Ekn'; [|reflexivity].
        apply beq_eq in Ekn'. subst k.
        destruct (beq n n') eqn:Enn'; [apply beq_eq in Enn'; subst n'; rewrite beq_refl in Ekn; discriminate|reflexivity].
  Qed.

  (* the request map agrees with the history: every name maps to its latest execution *)
  Definition tree_ok (t : tree Src V) (h : history V) : Prop :=
    forall name, rm_get (t_req t) name =
                 match latest V h name with
                 | Some (a, b) => Some {| sv_pre := Some a; sv_post := Some b |}
                 | None => None
                 end.

  Definition render_ok (src : Src) (e : event) : Prop :=
    match e with
    | EvRender j nm t h pv =>
        t_src t = src /\ forall name, rm_get (t_req t) name = visible V h nm pv name
    | _ => True
    end.

  Lemma step_visible j rq sl t h w :
    tree_ok t h ->
    let '(ev, _, ot) := step j rq sl t h w in
    Forall (render_ok (t_src t)) ev /\
    Forall (fun e => match e with EvRender _ nm _ h' _ => nm = rname rq /\ h' = h | _ => True end) ev /\
    match ot with
    | inl (t2, h2) => tree_ok t2 h2 /\ t_src t2 = t_src t /\ exists pv pov, h2 = (rname rq, pv, pov) :: h
    | inr _ => True
    end.
  Proof.
    intros Hok. unfold Scenario.step.
    set (nm := rname rq).
    set (t0 := t_set Src V t nm {| sv_pre := None; sv_post := None |}).
    destruct (o_pre rq t0 w) as [w1 [pv|]];
      [|split; [|split; [|exact I]]; repeat first [apply Forall_nil | apply Forall_cons]; exact I].
    set (t1 := t_set Src V t0 nm {| sv_pre := Some pv; sv_post := None |}).
    assert (R1 : render_ok (t_src t) (EvRender j nm t1 h pv)).
    { cbn [render_ok]. split; [reflexivity|]. intros name. subst t1 t0. cbn [t_set t_req].
      rewrite !rm_get_set. unfold visible. destruct (beq nm name); [reflexivity|]. apply Hok. }
    destruct (o_render rq t1 w1) as [w2 [rend|]];
      [|split; [|split; [|exact I]]; repeat first [apply Forall_nil | apply Forall_cons];
        try exact R1; try exact I; split; reflexivity].
    destruct (o_exec rend w2) as [w3 [resp|]];
      [|split; [|split; [|exact I]]; repeat first [apply Forall_nil | apply Forall_cons];
        try exact R1; try exact I; split; reflexivity].
    destruct (o_post rq resp w3) as [w4 [pov|]];
      [|split; [|split; [|exact I]]; repeat first [apply Forall_nil | apply Forall_cons];
        try exact R1; try exact I; split; reflexivity].
    split; [|split].
    - constructor; [exact R1|]. constructor; [exact I|]. constructor; [exact I|].
      destruct (0 <? sl)%Z; repeat constructor.
    - constructor; [split; reflexivity|]. constructor; [exact I|]. constructor; [exact I|].
      destruct (0 <? sl)%Z; repeat constructor.
    - split; [|split; [reflexivity|exists pv, pov; reflexivity]].
      intros name. subst t1 t0. cbn [t_set t_req]. rewrite !rm_get_set. cbn [latest].
      destruct (beq nm name); [reflexivity|]. apply Hok.
  Qed.

  (* names of the steps executed so far, newest first *)
  Definition hist_names (h : history V) : list bytes := map (fun e => fst (fst e)) h.

  Lemma run_visible steps : forall j0 t h w,
    tree_ok t h ->
    let '(evs, _, _) := run j0 steps t h w in
    Forall (render_ok (t_src t)) evs /\
    Forall (fun e => match e with
                     | EvRender j nm _ h' _ =>
                         exists d, j = (j0 + d)%nat /\
                           nth_error (map (fun p => rname (fst p)) steps) d = Some nm /\
                           hist_names h' = rev (firstn d (map (fun p => rname (fst p)) steps)) ++ hist_names h
                     | _ => True end) evs.
  Proof.
    induction steps as [|[rq sl] rest IH]; intros j0 t h w Hok.
    - cbn. split; constructor.
    - cbn [Scenario.run].
      pose proof (step_visible j0 rq sl t h w Hok) as S.
      pose proof (step_shape j0 rq sl t h w) as Sh.
      destruct (step j0 rq sl t h w) as [[ev w1] ot].
      destruct S as (Sr & Sn & St). destruct Sh as (_ & _ & _ & Sidx & _).
      assert (Hev : Forall (fun e => match e with
                     | EvRender j nm _ h' _ =>
                         exists d, j = (j0 + d)%nat /\
                           nth_error (map (fun p => rname (fst p)) ((rq, sl) :: rest)) d = Some nm /\
                           hist_names h' = rev (firstn d (map (fun p => rname (fst p)) ((rq, sl) :: rest))) ++ hist_names h
                     | _ => True end) ev).
      { rewrite Forall_forall in *. intros e Hin. specialize (Sn e Hin). specialize (Sidx e Hin).
        destruct e; try exact I. destruct Sn as [-> ->]. cbn in Sidx. subst j.
        exists 0%nat. rewrite Nat.add_0_r. repeat split. }
      destruct ot as [[t1 h1]|k]; [|split; assumption].
      destruct St as (Hok1 & Hsrc & pv & pov & ->).
      specialize (IH (S j0) t1 _ w1 Hok1).
      destruct (run (S j0) rest t1 _ w1) as [[ev2 w2] o].
      destruct IH as (I1 & I2). rewrite Hsrc in I1.
      split; [apply Forall_app; split; assumption|].
      apply Forall_app. split; [exact Hev|].
      eapply Forall_impl; [|exact I2]. intros e He. destruct e; try exact I.
      destruct He as (d & -> & Hn & Hh). exists (S d). repeat split; [lia|exact Hn|].
      cbn [map firstn rev fst]. rewrite Hh. cbn [hist_names map fst]. rewrite <- app_assoc. reflexivity.
  Qed.

  (* ---------- the executable specification accepts every shot of the model ---------- *)

  Variable rid : Req -> N.
  Variable rend_id : Rend -> N.
  (* the templater renders the request it was given (the id is not templated) *)
  Hypothesis render_keeps_id : forall rq t w w' r, o_render rq t w = (w', Some r) -> rend_id r = rid rq.

  Notation send_ids := (send_ids Src Rend V rend_id).
  Notation sample_obs := (sample_obs Src Rend V).

  Lemma send_ids_app a b : send_ids (a ++ b) = send_ids a ++ send_ids b.
  Proof. unfold Scenario.send_ids. apply flat_map_app. Qed.
  Lemma sample_obs_app a b : sample_obs (a ++ b) = sample_obs a ++ sample_obs b.
  Proof. unfold Scenario.sample_obs. apply flat_map_app. Qed.

  Lemma step_obs_shape j rq sl t h w :
    let '(ev, _, ot) := step j rq sl t h w in
    match ot with
    | inl _ => send_ids ev = [rid rq] /\ sample_obs ev = [(rname rq, true)]
    | inr _ => (send_ids ev = [] \/ send_ids ev = [rid rq]) /\ sample_obs ev = [(rname rq, false)]
    end.
  Proof.
    unfold Scenario.step.
    destruct (o_pre rq _ w) as [w1 [pv|]]; [|cbn; split; [left; reflexivity|reflexivity]].
    destruct (o_render rq _ w1) as [w2 [rend|]] eqn:ER; [|cbn; split; [left; reflexivity|reflexivity]].
    pose proof (render_keeps_id _ _ _ _ _ ER) as Hid.
    destruct (o_exec rend w2) as [w3 [resp|]]; [|cbn; rewrite Hid; split; [right; reflexivity|reflexivity]].
    destruct (o_post rq resp w3) as [w4 [pov|]]; [|cbn; rewrite Hid; split; [right; reflexivity|reflexivity]].
    destruct (0 <? sl)%Z; cbn; rewrite Hid; split; reflexivity.
  Qed.

  Lemma run_order_stop_b steps : forall j0 t h w,
    let '(evs, _, _) := run j0 steps t h w in
    order_stop_b (step_obs Req rname rid steps) (send_ids evs) (sample_obs evs) = true.
  Proof.
    induction steps as [|[rq sl] rest IH]; intros j0 t h w; [reflexivity|].
    cbn [Scenario.run].
    pose proof (step_obs_shape j0 rq sl t h w) as S.
    destruct (step j0 rq sl t h w) as [[ev w1] ot].
    destruct ot as [[t1 h1]|k].
    - destruct S as [S1 S2]. specialize (IH (S j0) t1 h1 w1).
      destruct (run (S j0) rest t1 h1 w1) as [[ev2 w2] o].
      rewrite send_ids_app, sample_obs_app, S1, S2.
      unfold step_obs. cbn [map fst app order_stop_b]. rewrite beq_refl, N.eqb_refl. cbn [andb]. exact IH.
    - destruct S as [S1 S2]. rewrite S2. unfold step_obs. cbn [map fst order_stop_b]. rewrite beq_refl.
      destruct S1 as [-> | ->]; [reflexivity|]. rewrite N.eqb_refl. reflexivity.
  Qed.

  Theorem shoot_order_stop_b src steps w :
    let '(evs, _, _) := shoot src steps w in
    order_stop_b (step_obs Req rname rid steps) (send_ids evs) (sample_obs evs) = true.
  Proof. unfold Scenario.shoot. apply run_order_stop_b. Qed.

  (* ---------- min_waiting_time ---------- *)

  Variable o_elapsed : W -> Z.
  Notation shoot_timed := (shoot_timed W Src Req Rend Resp V rname o_pre o_render o_exec o_post o_status o_elapsed).

  Fixpoint sum_pauses (l : list (nat * Z)) : Z :=
    match l with [] => 0%Z | (_, ms) :: r => (ms + sum_pauses r)%Z end.

  Lemma min_wait_total minw spent : (spent + min_wait_sleep minw spent = Z.max spent minw)%Z.
  Proof. unfold min_wait_sleep. destruct (Z.ltb_spec spent minw); lia. Qed.

  (* A shot whose steps all succeed lasts max(time spent in the steps, min_waiting_time); given
     that the pauses really elapsed (time.Sleep never returns early) that is at least
     max(sum of the written pauses, min_waiting_time).  A shot with a failing step does not
     wait for min_waiting_time. *)
  Theorem shoot_min_waiting src steps minw w :
    let '(evs, w1, out, fin) := shoot_timed src steps minw w in
    match out with
    | Done =>
        (o_elapsed w1 + fin = Z.max (o_elapsed w1) minw)%Z /\
        (minw <= o_elapsed w1 + fin)%Z /\ (0 <= fin)%Z /\
        pauses evs = pauses_spec Req 0 steps /\
        ((sum_pauses (pauses evs) <= o_elapsed w1)%Z ->
         (Z.max (sum_pauses (pauses_spec Req 0 steps)) minw <= o_elapsed w1 + fin)%Z)
    | FailedAt _ _ => fin = 0%Z
    end.
  Proof.
    unfold Scenario.shoot_timed.
    pose proof (run_order_stop steps 0 {| t_src := src; t_req := [] |} [] w) as H.
    unfold Scenario.shoot.
    destruct (run 0 steps _ [] w) as [[evs w1] out]. destruct H as (A & _ & _).
    destruct out as [|j k]; [|reflexivity].
    cbn [order_stop_spec] in A. destruct A as (_ & _ & _ & Hp).
    pose proof (min_wait_total minw (o_elapsed w1)) as T.
    assert (0 <= min_wait_sleep minw (o_elapsed w1))%Z by (unfold min_wait_sleep; destruct (Z.ltb_spec (o_elapsed w1) minw); lia).
    repeat split; try lia; [exact Hp|]. intros Hs. rewrite <- Hp. lia.
  Qed.

  (* ---------- the shot ---------- *)

  Theorem shoot_order_stop src steps w :
    let '(evs, _, out) := shoot src steps w in
    order_stop_spec 0 steps evs out /\ increasing (map ev_key evs).
  Proof.
    unfold Scenario.shoot.
    pose proof (run_order_stop steps 0 {| t_src := src; t_req := [] |} [] w) as H.
    destruct (run 0 steps _ [] w) as [[evs w'] out]. destruct H as (A & B & _). split; assumption.
  Qed.

  (* Every tree handed to the templater: its data-source part is the shot's source; request
     [name] is visible exactly as [visible] says — own preprocessor output only for the step
     itself, the outputs of the latest earlier execution for any other name, nothing for a
     name not executed earlier in THIS shot; and the history it is computed from is exactly
     the list of the earlier steps of this shot. *)
  Theorem shoot_varflow src steps w :
    let '(evs, _, _) := shoot src steps w in
    forall j nm t h pv, In (EvRender j nm t h pv) evs ->
      t_src t = src /\
      (forall name, rm_get (t_req t) name = visible V h nm pv name) /\
      nth_error (map (fun p => rname (fst p)) steps) j = Some nm /\
      hist_names h = rev (firstn j (map (fun p => rname (fst p)) steps)).
  Proof.
    unfold Scenario.shoot.
    assert (Hok : tree_ok {| t_src := src; t_req := [] |} []) by (intros name; reflexivity).
    pose proof (run_visible steps 0 _ [] w Hok) as H.
    destruct (run 0 steps _ [] w) as [[evs w'] out]. destruct H as (A & B).
    intros j nm t h pv Hin. rewrite Forall_forall in A, B.
    specialize (A _ Hin). specialize (B _ Hin). cbn in A, B.
    destruct A as [A1 A2]. destruct B as (d & -> & B1 & B2). cbn [Nat.add].
    rewrite app_nil_r in B2. repeat split; assumption.
  Qed.
End ShotProofs.

(* ---------- the concrete instance of the correspondence run ---------- *)

Lemma c_render_keeps_id rq t w w' r : c_render rq t w = (w', Some r) -> rd_id r = cq_id rq.
Proof.
  unfold c_render. destruct (cq_tmpl rq); try destruct (c_captured_tok t _); intros H; try discriminate; injection H as _ <-; reflexivity.
Qed.

Lemma c_shoot_order_stop_b src steps w :
  let '(evs, _, _) := c_shoot src steps w in
  order_stop_b (c_step_obs steps) (c_send_ids evs) (c_sample_obs evs) = true.
Proof.
  exact (shoot_order_stop_b cworld csrc creq crend cresp bytes cq_name c_pre c_render c_exec c_post rs_status
           cq_id rd_id c_render_keeps_id src steps w).
Qed.
