(* The block readers of the uripost and raw models are clients of the reader interface, hence (by
   run_buf_exact) they deliver the same on a bufio.Reader with any buffer size and any chunking. *)
From Coq Require Import List NArith ZArith Bool Arith Lia.
From PV Require Import Lib.AmmoBytes Lib.AmmoDecimal Lib.AmmoLines Model.AmmoCommon Model.AmmoUripost
  Model.AmmoRaw Model.AmmoBufio Model.AmmoBufioClients Proofs.AmmoBufioProofs.
Import ListNotations.

Definition ublock_rest (b : block_res) : option bytes :=
  match b with BSkip r _ => Some r | BFound _ r _ _ => Some r | _ => None end.
Definition rblock_rest (b : rblock) : option bytes :=
  match b with RSkip r => Some r | RFound _ r _ => Some r | _ => None end.

Lemma read_block_is_client url_parse h s :
  fst (run_exact (read_block_prog url_parse h) s) = ublk_of (read_block url_parse s h) /\
  (forall r, ublock_rest (read_block url_parse s h) = Some r -> snd (run_exact (read_block_prog url_parse h) s) = r).
Proof.
  unfold read_block_prog, read_block. cbn [run_exact].
  destruct (read_string s) as [[data rest1] ok].
  destruct (negb ok && is_nil data); [split; [reflexivity|discriminate]|].
  destruct (trim data) as [|c d] eqn:Ed; [split; [reflexivity|cbn; intros r H; inversion H; reflexivity]|].
  destruct (N.eqb c LBR).
  - destruct (decode_header (c :: d)) as [[k v]|e]; cbn; (split; [reflexivity|intros r H; inversion H; reflexivity]).
  - destruct (decode_uri (c :: d)) as [[[size uri] tag]|e]; [|split; [reflexivity|discriminate]].
    destruct (negb (url_ok url_parse uri)); [split; [reflexivity|discriminate]|].
    unfold alloc_read. destruct (Z.ltb size 0); [split; [reflexivity|discriminate]|].
    cbn [run_exact]. rewrite N2Nat.id.
    destruct (read_full (Z.to_N size) rest1) as [[b r]|]; [|split; [reflexivity|discriminate]].
    destruct (setup url_parse POST uri b h tag) as [e|e]; cbn; (split; [reflexivity|intros r' H; inversion H; reflexivity]).
Qed.

Lemma raw_block_is_client s :
  fst (run_exact raw_block_prog s) = rblk_of (raw_block s) /\
  (forall r, rblock_rest (raw_block s) = Some r -> snd (run_exact raw_block_prog s) = r).
Proof.
  unfold raw_block_prog, raw_block. cbn [run_exact].
  destruct (read_string s) as [[data rest1] ok].
  destruct (negb ok && is_nil data); [split; [reflexivity|discriminate]|].
  destruct (trim data) as [|c d] eqn:Ed; [split; [reflexivity|cbn; intros r H; inversion H; reflexivity]|].
  destruct (raw_decode_header (c :: d)) as [[size tag]|]; [|split; [reflexivity|discriminate]].
  destruct (Z.eqb size 0); [split; [reflexivity|cbn; intros r H; inversion H; reflexivity]|].
  unfold alloc_read. destruct (Z.ltb size 0); [split; [reflexivity|discriminate]|].
  cbn [run_exact]. rewrite N2Nat.id.
  destruct (read_full (Z.to_N size) rest1) as [[b r]|]; cbn; (split; [reflexivity|try discriminate; intros r' H; inversion H; reflexivity]).
Qed.

(* readBlock on a bufio.Reader of any size over any chunking of the source: the same block result
   as the model on the logical stream, and the reader is left at the model's rest *)
Theorem read_block_buffered cap ask url_parse h st :
  1 <= cap -> (forall left, 1 <= left -> 1 <= ask left <= left) -> brd_wf st = true ->
  exists k st',
    run_buf cap ask (read_block_prog url_parse h) st = Some (k, st') /\
    k = ublk_of (read_block url_parse (stream st) h) /\ brd_wf st' = true /\
    (forall r, ublock_rest (read_block url_parse (stream st) h) = Some r -> stream st' = r).
Proof.
  intros Hcap Hask Hwf.
  destruct (run_buf_exact cap Hcap ask (read_block_prog url_parse h) Hask st Hwf) as (st' & Hr & Hwf' & Hs).
  destruct (read_block_is_client url_parse h (stream st)) as [H1 H2].
  eexists _, st'. split; [exact Hr|]. split; [exact H1|]. split; [exact Hwf'|].
  intros r Hrr. rewrite Hs. apply H2. exact Hrr.
Qed.

Theorem raw_block_buffered cap ask st :
  1 <= cap -> (forall left, 1 <= left -> 1 <= ask left <= left) -> brd_wf st = true ->
  exists k st',
    run_buf cap ask raw_block_prog st = Some (k, st') /\
    k = rblk_of (raw_block (stream st)) /\ brd_wf st' = true /\
    (forall r, rblock_rest (raw_block (stream st)) = Some r -> stream st' = r).
Proof.
  intros Hcap Hask Hwf.
  destruct (run_buf_exact cap Hcap ask raw_block_prog Hask st Hwf) as (st' & Hr & Hwf' & Hs).
  destruct (raw_block_is_client (stream st)) as [H1 H2].
  eexists _, st'. split; [exact Hr|]. split; [exact H1|]. split; [exact Hwf'|].
  intros r Hrr. rewrite Hs. apply H2. exact Hrr.
Qed.
