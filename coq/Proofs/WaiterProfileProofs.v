(* Lemmas about configured profiles built by `step` / `instance_step` (Model/WaiterProfile.v), property C04. *)
From Coq Require Import List ZArith Bool Lia.
From PV Require Import Model.Waiter Model.WaiterProfile Proofs.WaiterProofs.
Import ListNotations.
Local Open Scope Z_scope.

(* a profile followed by another one: the second starts when the first is over - whatever the
   first one contains (token-less parts included) *)
Lemma profile_offsets_app : forall a b start,
  profile_offsets start (a ++ b) =
  (fst (profile_offsets start a) ++ fst (profile_offsets (start + total_dur a) b),
   snd (profile_offsets start a) ++ snd (profile_offsets (start + total_dur a) b)).
Proof.
  induction a as [|s r IH]; intros b start; cbn [app total_dur profile_offsets fst snd].
  - rewrite Z.add_0_r. destruct (profile_offsets start b); reflexivity.
  - destruct s as [n|period n dur|dur|dur]; cbn [seg_dur profile_offsets].
    + rewrite IH. destruct (profile_offsets start r) as [o u]. cbn [fst snd]. rewrite Z.add_0_l, app_assoc. reflexivity.
    + rewrite IH. destruct (profile_offsets (start + dur) r) as [o u]. cbn [fst snd]. rewrite Z.add_assoc, app_assoc. reflexivity.
    + rewrite IH. rewrite Z.add_assoc. reflexivity.
    + rewrite IH. destruct (profile_offsets (start + dur) r) as [o u]. cbn [fst snd]. rewrite Z.add_assoc. reflexivity.
Qed.

Lemma const_seg_dur : forall m d, seg_dur (const_seg m d) = d.
Proof. intros m d. unfold const_seg. destruct (const_tokens m d <=? 0); reflexivity. Qed.

Lemma const_seg_wf : forall m d, 0 <= d -> seg_wf (const_seg m d).
Proof.
  intros m d Hd. unfold const_seg, const_tokens.
  destruct (m <=? 0) eqn:Em; cbn [Z.leb]; [cbn; exact Hd|].
  apply Z.leb_gt in Em.
  destruct (m * d / ns_mrps <=? 0); cbn [seg_wf]; [exact Hd|].
  split; [|exact Hd]. apply Z.div_pos; [unfold ns_mrps|]; lia.
Qed.

(* every level of the staircase lasts [dur], with or without tokens *)
Lemma total_dur_cstep_levels : forall k r s d, total_dur (cstep_levels r s d k) = Z.of_nat k * d.
Proof.
  induction k as [|k IH]; intros r s d; [reflexivity|].
  cbn [cstep_levels total_dur]. rewrite const_seg_dur, IH. lia.
Qed.

Lemma cstep_levels_wf : forall k r s d, 0 <= d -> Forall seg_wf (cstep_levels r s d k).
Proof.
  induction k as [|k IH]; intros r s d Hd; cbn [cstep_levels]; constructor; [apply const_seg_wf; exact Hd|apply IH; exact Hd].
Qed.

Lemma cstep_levels_split : forall j k r s d,
  cstep_levels r s d (j + k) = cstep_levels r s d j ++ cstep_levels (r + Z.of_nat j * s) s d k.
Proof.
  induction j as [|j IH]; intros k r s d.
  - cbn [plus cstep_levels app]. rewrite Z.mul_0_l, Z.add_0_r. reflexivity.
  - replace (r + Z.of_nat (S j) * s) with (r + s + Z.of_nat j * s) by (rewrite Nat2Z.inj_succ; ring).
    cbn [plus cstep_levels app]. rewrite IH. reflexivity.
Qed.

(* The staircase keeps its time: in a profile that contains a staircase of j + k levels (followed by
   anything), the tokens of the levels from the j-th on - and of everything behind the staircase -
   are the tokens of that rest started at start + j*dur, none of them before that instant; and this
   for ALL rates, i.e. however many of the first j levels hold no token at all. *)
Lemma step_levels_keep_time : forall j k r s d rest start,
  0 <= d -> Forall seg_wf rest ->
  let later := profile_offsets (start + Z.of_nat j * d) (cstep_levels (r + Z.of_nat j * s) s d k ++ rest) in
  fst (profile_offsets start (cstep_levels r s d (j + k) ++ rest)) =
    fst (profile_offsets start (cstep_levels r s d j)) ++ fst later /\
  Forall (fun o => start + Z.of_nat j * d <= o) (fst later) /\
  Forall (fun w => start + Z.of_nat j * d <= fst w) (snd later).
Proof.
  intros j k r s d rest start Hd Hrest later. split.
  - rewrite cstep_levels_split, <- app_assoc, profile_offsets_app. cbn [fst].
    rewrite total_dur_cstep_levels. reflexivity.
  - apply profile_offsets_ge. apply Forall_app. split; [apply cstep_levels_wf; exact Hd|exact Hrest].
Qed.

(* what comes behind a whole step part starts at start + (number of levels) * dur *)
Lemma step_part_length : forall f t st d segs,
  part_segments (CStep f t st d) = Some segs ->
  total_dur segs = Z.of_nat (level_count f t (st * 1000)) * d /\ Forall seg_wf segs.
Proof.
  intros f t st d segs H. cbn [part_segments] in H.
  destruct ((f <? 0) || (t <? 0) || (st <? 1) || (d <? 0)) eqn:E; [discriminate|].
  injection H as <-. split; [apply total_dur_cstep_levels|].
  apply cstep_levels_wf. apply orb_false_iff in E. destruct E as [_ E]. apply Z.ltb_ge in E. exact E.
Qed.

Lemma cinst_levels_wf : forall k n d, 0 <= d -> Forall seg_wf (cinst_levels n d k).
Proof. induction k as [|k IH]; intros n d Hd; cbn [cinst_levels]; repeat constructor; [exact Hd|apply IH; exact Hd]. Qed.

Lemma part_segments_wf : forall p segs, (forall s, p = CSeg s -> seg_wf s) ->
  part_segments p = Some segs -> Forall seg_wf segs.
Proof.
  intros p segs Hs H. destruct p as [s|f t st d|f t st d].
  - injection H as <-. constructor; [apply Hs; reflexivity|constructor].
  - eapply step_part_length; exact H.
  - cbn [part_segments] in H. destruct ((f <? 0) || (t <? 0) || (st <? 1) || (d <? 0)) eqn:E; [discriminate|].
    injection H as <-. constructor; [exact I|]. apply cinst_levels_wf.
    apply orb_false_iff in E. destruct E as [_ E]. apply Z.ltb_ge in E. exact E.
Qed.

(* no token of a configured profile (step / instance_step parts included) before the profile's start *)
Lemma configured_offsets_ge : forall ps start o u,
  Forall (fun p => forall s, p = CSeg s -> seg_wf s) ps ->
  configured_offsets start ps = Some (o, u) ->
  Forall (fun x => start <= x) o /\ Forall (fun w => start <= fst w) u.
Proof.
  intros ps start o u Hps H. unfold configured_offsets in H.
  destruct (profile_segments ps) as [segs|] eqn:E; [|discriminate]. cbn in H.
  assert (Hwf : Forall seg_wf segs).
  { clear H. revert segs E. induction Hps as [|p r Hp Hr IH]; intros segs E; cbn [profile_segments] in E.
    - injection E as <-. constructor.
    - destruct (part_segments p) as [a|] eqn:Ea; [|discriminate].
      destruct (profile_segments r) as [b|] eqn:Eb; [|discriminate]. injection E as <-.
      apply Forall_app. split; [eapply part_segments_wf; eassumption|apply IH; reflexivity]. }
  pose proof (profile_offsets_ge segs start Hwf) as G. injection H as H. rewrite H in G. exact G.
Qed.

(* the executable judgement means what it says *)
Lemma not_before_b_spec : forall offs ats, length offs = length ats ->
  (not_before_b offs ats = true <-> Forall2 Z.le offs ats).
Proof.
  induction offs as [|o r IH]; intros [|a r'] Hl; try discriminate; cbn [not_before_b].
  - split; [constructor|reflexivity].
  - injection Hl as Hl. rewrite andb_true_iff, Z.leb_le, (IH r' Hl). split.
    + intros [H1 H2]. constructor; assumption.
    + intros H. inversion H; subst. split; assumption.
Qed.

(* A builder that leaves the token-less levels out is NOT the configured profile: step 0 -> 2 rps by 1,
   1 s per level - configured tokens at +1 s, +2 s, +2.5 s; without the empty level at +0 s, +1 s, +1.5 s:
   every request a whole level early. *)
Lemma dropping_empty_levels_refuted :
  exists f t st d segs, part_segments (CStep f t st d) = Some segs /\
    let conf := fst (profile_offsets 0 segs) in
    let got := fst (profile_offsets 0 (drop_pauses segs)) in
    conf = [1000000000; 2000000000; 2500000000] /\ got = [0; 1000000000; 1500000000] /\
    length got = length conf /\ not_before_b conf got = false.
Proof.
  exists 0, 2000, 1, 1000000000. eexists. split; [vm_compute; reflexivity|].
  vm_compute. repeat split; reflexivity.
Qed.
