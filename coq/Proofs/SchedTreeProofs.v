From Coq Require Import List ZArith Bool Arith Lia.
From PV Require Import Model.SchedTree.
Import ListNotations.
Local Open Scope Z_scope.

(* ---------- finish callback ---------- *)
Definition cb_step (e : bool + Z) (c : cbstate) : cbstate :=
  match e with inl ok => cb_after_next ok c | inr k => cb_after_left k c end.
Definition cb_run (evs : list (bool + Z)) (c : cbstate) : cbstate :=
  fold_left (fun c e => cb_step e c) evs c.

Definition cb_inv (c : cbstate) : Prop :=
  (cb_done c = false /\ cb_calls c = 0%nat) \/ (cb_done c = true /\ cb_calls c = 1%nat).

Lemma cb_fire_inv c : cb_inv c -> cb_inv (cb_fire c).
Proof. unfold cb_inv, cb_fire. intros [[H1 H2]|[H1 H2]]; rewrite H1; cbn; [right; rewrite H2; auto|right; auto]. Qed.

Lemma cb_step_inv e c : cb_inv c -> cb_inv (cb_step e c).
Proof.
  intros H. destruct e as [ok|k]; cbn [cb_step]; unfold cb_after_next, cb_after_left.
  - destruct ok; auto using cb_fire_inv.
  - destruct (k =? 0); auto using cb_fire_inv.
Qed.

Lemma cb_run_inv evs : forall c, cb_inv c -> cb_inv (cb_run evs c).
Proof. induction evs as [|e r IH]; intros c H; cbn; auto. apply IH, cb_step_inv, H. Qed.

Lemma cb_run_at_most_once evs : (cb_calls (cb_run evs cb_init) <= 1)%nat.
Proof.
  assert (H : cb_inv cb_init) by (left; split; reflexivity).
  apply (cb_run_inv evs) in H. destruct H as [[_ H]|[_ H]]; rewrite H; lia.
Qed.
