(* C02: sequential refinement of schedule trees to the abstract token stream. *)
From Coq Require Import List ZArith Bool Arith Lia.
From PV Require Import Model.SchedTree.
Import ListNotations.
Local Open Scope Z_scope.

(* ---------- induction principle for the nested type ---------- *)
Section SchedInd.
  Variable P : sched -> Prop.
  Hypothesis HD : forall n d a i st, P (DoAt n d a i st).
  Hypothesis HU : forall d f, P (Unlim d f).
  Hypothesis HC : forall l la cs, Forall P l -> P (Comp l la cs).
  Fixpoint sched_ind' (s : sched) : P s :=
    match s with
    | DoAt n d a i st => HD n d a i st
    | Unlim d f => HU d f
    | Comp l la cs =>
        HC l la cs ((fix go (l : list sched) : Forall P l :=
                       match l with
                       | [] => Forall_nil _
                       | x :: r => Forall_cons _ (sched_ind' x) (go r)
                       end) l)
    end.
End SchedInd.

(* ---------- static counts, leftAfter ---------- *)
Definition cnt (x : sched) : Z :=
  match x with DoAt n _ _ i _ => Z.of_nat (n - i) | _ => 0 end.
Definition sumcnt (fl : list sched) : Z := fold_right (fun x a => cnt x + a) 0 fl.
Definition statl (fl : list sched) : Z := if existsb unknown_part fl then -1 else sumcnt fl.
Definition flatl (l : list sched) : list sched := flat_map flatten l.
Fixpoint la_of (l : list sched) : list Z :=
  match l with [] => [] | x :: r => statl (flatl r) :: la_of r end.

(* as built by the constructors, never touched *)
Inductive fresh : sched -> Prop :=
| fr_doat n d a : fresh (DoAt n d a 0 None)
| fr_unl d : fresh (Unlim d None)
| fr_comp l : Forall fresh l -> l <> [] -> fresh (Comp l (la_of l) false).

Inductive started : sched -> Prop :=
| st_doat n d a i t : started (DoAt n d a i (Some t))
| st_unl d f : started (Unlim d (Some f))
| st_comp h r la : started h -> started (Comp (h :: r) la true).

(* reachable states: the current path is arbitrary, everything behind it is fresh *)
Inductive wf : sched -> Prop :=
| wf_doat n d a i st : wf (DoAt n d a i st)
| wf_unl d f : wf (Unlim d f)
| wf_comp h r cs : wf h -> Forall fresh r ->
    (cs = false -> fresh h) -> (cs = true -> started h) ->
    wf (Comp (h :: r) (la_of (h :: r)) cs).

Lemma fresh_wf s : fresh s -> wf s.
Proof.
  induction s as [| |l la cs IH] using sched_ind'; intros Hf; inversion Hf as [| |l' Hl Hne]; subst; try constructor.
  destruct l as [|h r]; [congruence|].
  inversion IH; subst. inversion Hl; subst.
  constructor; auto. discriminate.
Qed.

Lemma fresh_not_started s : fresh s -> ~ started s.
Proof. intros H S; inversion H; subst; inversion S. Qed.

(* ---------- the abstraction ---------- *)
Definition absp (p : Z) (s : sched) : list item := fst (items_from p (flatten s)).
Definition afin (p : Z) (s : sched) : Z := snd (items_from p (flatten s)).

Lemma items_app p a b :
  items_from p (a ++ b) =
  (fst (items_from p a) ++ fst (items_from (snd (items_from p a)) b),
   snd (items_from (snd (items_from p a)) b)).
Proof.
  revert p; induction a as [|x r IH]; intros p; cbn [app items_from fst snd].
  - destruct (items_from p b); reflexivity.
  - destruct x as [n d at_ i st|d fin|l la cs].
    + rewrite IH. destruct (items_from _ r) as [ir fr]. cbn [fst snd].
      rewrite app_assoc. reflexivity.
    + rewrite IH. destruct (items_from _ r) as [ir fr]. cbn [fst snd]. reflexivity.
    + apply IH.
Qed.

Definition head_started (fl : list sched) : Prop :=
  match fl with
  | DoAt _ _ _ _ (Some _) :: _ => True
  | Unlim _ (Some _) :: _ => True
  | _ => False
  end.

Lemma items_param fl p q : head_started fl -> items_from p fl = items_from q fl.
Proof.
  destruct fl as [|x r]; cbn; [tauto|].
  destruct x as [n d at_ i [t|]|d [f|]|l la cs]; cbn; tauto.
Qed.

(* ---------- drop_closed / abs_next / abs_left ---------- *)
Lemma dc_app now a b :
  drop_closed now (a ++ b) =
  match drop_closed now a with [] => drop_closed now b | l => l ++ b end.
Proof.
  induction a as [|x r IH]; cbn [app drop_closed]; [destruct (drop_closed now b); reflexivity|].
  destruct x as [t|s0 f]; [reflexivity|].
  destruct (now <? f); [reflexivity|apply IH].
Qed.

Lemma dc_idem now a : drop_closed now (drop_closed now a) = drop_closed now a.
Proof.
  induction a as [|x r IH]; cbn [drop_closed]; [reflexivity|].
  destruct x as [t|s0 f]; [reflexivity|].
  destruct (now <? f) eqn:E; [cbn [drop_closed]; rewrite E; reflexivity|apply IH].
Qed.

Lemma dc_mono now now' a : now <= now' ->
  drop_closed now' (drop_closed now a) = drop_closed now' a.
Proof.
  intros Hle. induction a as [|x r IH]; cbn [drop_closed]; [reflexivity|].
  destruct x as [t|s0 f]; [reflexivity|].
  destruct (now <? f) eqn:E; [reflexivity|].
  rewrite IH. apply Z.ltb_ge in E.
  destruct (now' <? f) eqn:E'; [apply Z.ltb_lt in E'; lia|reflexivity].
Qed.

Lemma an_dc now f a : abs_next now f a = abs_next now f (drop_closed now a).
Proof.
  induction a as [|x r IH]; cbn [drop_closed abs_next]; [reflexivity|].
  destruct x as [t|s0 g]; [reflexivity|].
  destruct (now <? g) eqn:E; [cbn [abs_next]; rewrite E; reflexivity|apply IH].
Qed.

Lemma an_app_ok now f1 f2 a b a' t :
  abs_next now f1 a = (a', t, true) -> abs_next now f2 (a ++ b) = (a' ++ b, t, true).
Proof.
  induction a as [|x r IH]; cbn [app abs_next]; [discriminate|].
  destruct x as [u|s0 g].
  - intros H; inversion H; subst; reflexivity.
  - destruct (now <? g); [intros H; inversion H; subst; reflexivity|apply IH].
Qed.

Lemma an_fail now f a a' t :
  abs_next now f a = (a', t, false) -> a' = [] /\ t = f /\ drop_closed now a = [].
Proof.
  induction a as [|x r IH]; cbn [abs_next drop_closed].
  - intros H; inversion H; auto.
  - destruct x as [u|s0 g]; [discriminate|].
    destruct (now <? g); [discriminate|apply IH].
Qed.

Lemma an_app_closed now f a b :
  drop_closed now a = [] -> abs_next now f (a ++ b) = abs_next now f b.
Proof.
  intros H. rewrite an_dc, dc_app, H, <- an_dc. reflexivity.
Qed.

Lemma an_nil_closed now f a : drop_closed now a = [] -> abs_next now f a = ([], f, false).
Proof. intros H. rewrite an_dc, H. reflexivity. Qed.

(* ---------- finish callback ---------- *)
Definition cb_step (e : bool + Z) (c : cbstate) : cbstate :=
  match e with inl ok => cb_after_next ok c | inr k => cb_after_left k c end.
Definition cb_run (evs : list (bool + Z)) (c : cbstate) : cbstate :=
  fold_left (fun c e => cb_step e c) evs c.

Definition cb_inv (c : cbstate) : Prop :=
  (cb_done c = false /\ cb_calls c = 0%nat) \/ (cb_done c = true /\ cb_calls c = 1%nat).

Lemma cb_fire_inv c : cb_inv c -> cb_inv (cb_fire c).
Proof. unfold cb_inv, cb_fire. intros [[H1 H2]|[H1 H2]]; rewrite H1; cbn; [right; rewrite H2; auto|right; auto]. Qed.

Lemma cb_step_inv e c : cb_inv c -> cb_inv (cb_step e c).
Proof.
  intros H. destruct e as [ok|k]; cbn [cb_step]; unfold cb_after_next, cb_after_left.
  - destruct ok; auto using cb_fire_inv.
  - destruct (k =? 0); auto using cb_fire_inv.
Qed.

Lemma cb_run_inv evs : forall c, cb_inv c -> cb_inv (cb_run evs c).
Proof. induction evs as [|e r IH]; intros c H; cbn; auto. apply IH, cb_step_inv, H. Qed.

Lemma cb_run_at_most_once evs : (cb_calls (cb_run evs cb_init) <= 1)%nat.
Proof.
  assert (H : cb_inv cb_init) by (left; split; reflexivity).
  apply (cb_run_inv evs) in H. destruct H as [[_ H]|[_ H]]; rewrite H; lia.
Qed.

(* the callback runs exactly once iff some call let its caller see the finish, and never before *)
Definition is_finish (e : bool + Z) : bool :=
  match e with inl ok => negb ok | inr k => k =? 0 end.

Lemma cb_run_done evs : forall c, cb_done c = true -> cb_run evs c = c.
Proof.
  induction evs as [|e r IH]; intros c D; [reflexivity|]. cbn [cb_run fold_left].
  assert (E : cb_step e c = c).
  { destruct e as [ok|k]; cbn [cb_step]; unfold cb_after_next, cb_after_left, cb_fire; rewrite D.
    - destruct ok; reflexivity.
    - destruct (k =? 0); reflexivity. }
  rewrite E. apply IH, D.
Qed.

Lemma cb_run_exact evs :
  cb_calls (cb_run evs cb_init) = if existsb is_finish evs then 1%nat else 0%nat.
Proof.
  assert (G : forall c, cb_done c = false ->
              cb_calls (cb_run evs c) = if existsb is_finish evs then S (cb_calls c) else cb_calls c).
  { induction evs as [|e r IH]; intros c D; [reflexivity|]. cbn [cb_run fold_left existsb].
    destruct (is_finish e) eqn:F; cbn [orb].
    - assert (E : cb_step e c = {| cb_done := true; cb_calls := S (cb_calls c) |}).
      { destruct e as [ok|k]; cbn [cb_step is_finish] in *; unfold cb_after_next, cb_after_left, cb_fire; rewrite D.
        - destruct ok; [discriminate|reflexivity].
        - rewrite F. reflexivity. }
      rewrite E. fold (cb_run r {| cb_done := true; cb_calls := S (cb_calls c) |}).
      rewrite cb_run_done by reflexivity. reflexivity.
    - assert (E : cb_step e c = c).
      { destruct e as [ok|k]; cbn [cb_step is_finish] in *; unfold cb_after_next, cb_after_left.
        - destruct ok; [reflexivity|discriminate].
        - rewrite F. reflexivity. }
      rewrite E. apply IH, D. }
  apply (G cb_init). reflexivity.
Qed.
