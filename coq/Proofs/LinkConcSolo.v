(* Link L2 with rps-per-instance: nothing is shared.  Every instance has its own schedule tree, so
   every schedule operation runs ALONE on its tree - in the nested section semantics: a solo run
   (Proofs/SchedNestedSolo.v).  A sequence of solo operations on the tree the constructors build
   answers "Left() = 0" / Next's ok exactly as the token counter [own] of the C03 model does
   (solo run = sequential semantics, C02_nested_solo_*; sequential semantics = counter,
   L2_tree_is_counter). *)
From Coq Require Import List ZArith Bool Arith Lia.
From PV Require Import Model.SchedTree Model.SchedConc Model.SchedNested
  Proofs.SchedTreeProofs Proofs.SchedTreeSeq Proofs.SchedTreeRun Proofs.SchedTreeSpec
  Proofs.SchedConcSections Proofs.SchedNestedSections Proofs.SchedNestedSteps Proofs.SchedNestedSolo.
From PV Require Import Model.Instance Proofs.LinkEngine.
Import ListNotations.

(* a sequence of schedule operations, each one a solo run of the nested sections *)
Inductive solo_run (fuel : nat) : sched -> list (Z * op) -> list obs -> sched -> Prop :=
| sr_nil c : solo_run fuel c [] [] c
| sr_next c now c1 t ok r outs c' :
    solo fuel now SchedTree.ONext QIdle c c1 (NRetN t ok) -> solo_run fuel c1 r outs c' ->
    solo_run fuel c ((now, SchedTree.ONext) :: r) (RNext t ok :: outs) c'
| sr_left c now c1 v r outs c' :
    solo fuel now SchedTree.OLeft QIdle c c1 (NRetL v) -> solo_run fuel c1 r outs c' ->
    solo_run fuel c ((now, SchedTree.OLeft) :: r) (RLeft v :: outs) c'.

Lemma solo_good fuel now o c c1 out : good fuel now c QIdle -> solo fuel now o QIdle c c1 out ->
  wf c1 /\ comp_len c1 <> 0 /\ size c1 <= S fuel.
Proof.
  intros Gd (q1 & cx & G & E & _).
  pose proof (good_gsteps fuel now o _ _ _ _ G Gd) as Gx.
  destruct (good_step fuel now o q1 cx c1 out Gx E) as (W & NZ & Sz & _). auto.
Qed.

Lemma good_idle fuel now c : wf c -> comp_len c <> 0 -> size c <= S fuel -> good fuel now c QIdle.
Proof. intros W NZ Sz. repeat split; auto. Qed.

Lemma left_total_wf fuel now c : wf c -> comp_len c <> 0 -> size c <= fuel ->
  exists c' k, s_left fuel now c = Ok (c', k).
Proof.
  intros W NZ Sz. destruct (comp_len_inv c NZ) as (h & r & la & cs & ->).
  destruct (wf_comp_sf _ _ _ W) as [St|F].
  - destruct (left_total fuel now _ W St Sz) as (c' & k & E & _). eauto.
  - eexists. eexists. apply left_fresh_total; assumption.
Qed.

(* a sequence of solo operations IS the sequential run of the tree *)
Theorem solo_run_seq fuel : forall c ops outs c',
  solo_run fuel c ops outs c' -> wf c -> comp_len c <> 0 -> size c <= S fuel ->
  run_tree (S fuel) c ops = outs.
Proof.
  induction 1 as [c|c now c1 t ok r outs c' Hs Hr IH|c now c1 v r outs c' Hs Hr IH]; intros W NZ Sz; [reflexivity| |].
  - pose proof (good_idle fuel now c W NZ Sz) as Gd.
    destruct (next_total (S fuel) now c W Sz) as (c2 & t2 & ok2 & E & _).
    pose proof (solo_next fuel now (S fuel) c c2 t2 ok2 (le_n _) Gd E) as Hs2.
    destruct (solo_det fuel now _ _ _ _ _ _ _ Hs Hs2) as [-> Eo]. inversion Eo; subst t2 ok2.
    cbn [run_tree]. rewrite E. f_equal.
    destruct (solo_good fuel now _ c c2 _ Gd Hs) as (W2 & NZ2 & Sz2). apply IH; assumption.
  - pose proof (good_idle fuel now c W NZ Sz) as Gd.
    destruct (left_total_wf (S fuel) now c W NZ Sz) as (c2 & v2 & E).
    pose proof (solo_left fuel now (S fuel) c c2 v2 (le_n _) Gd E) as Hs2.
    destruct (solo_det fuel now _ _ _ _ _ _ _ Hs Hs2) as [-> Eo]. inversion Eo; subst v2.
    cbn [run_tree]. rewrite E. f_equal.
    destruct (solo_good fuel now _ c c2 _ Gd Hs) as (W2 & NZ2 & Sz2). apply IH; assumption.
Qed.

(* such a sequence exists for every list of Left / Next calls *)
Theorem solo_run_total fuel : forall l c, wf c -> comp_len c <> 0 -> size c <= S fuel ->
  exists outs c', solo_run fuel c (eng_ops l) outs c'.
Proof.
  induction l as [|[now|now] r IH]; intros c W NZ Sz; cbn [eng_ops map]; [|fold (eng_ops r)|fold (eng_ops r)].
  - exists [], c. constructor.
  - pose proof (good_idle fuel now c W NZ Sz) as Gd.
    destruct (left_total_wf (S fuel) now c W NZ Sz) as (c2 & v2 & E).
    pose proof (solo_left fuel now (S fuel) c c2 v2 (le_n _) Gd E) as Hs.
    destruct (solo_good fuel now _ c c2 _ Gd Hs) as (W2 & NZ2 & Sz2).
    destruct (IH c2 W2 NZ2 Sz2) as (outs & c' & Hr). exists (RLeft v2 :: outs), c'. econstructor; eauto.
  - pose proof (good_idle fuel now c W NZ Sz) as Gd.
    destruct (next_total (S fuel) now c W Sz) as (c2 & t2 & ok2 & E & _).
    pose proof (solo_next fuel now (S fuel) c c2 t2 ok2 (le_n _) Gd E) as Hs.
    destruct (solo_good fuel now _ c c2 _ Gd Hs) as (W2 & NZ2 & Sz2).
    destruct (IH c2 W2 NZ2 Sz2) as (outs & c' & Hr). exists (RNext t2 ok2 :: outs), c'. econstructor; eauto.
Qed.

(* rps-per-instance: the instance's own tree (any depth), operated through the nested sections
   by its only user, answers as the counter [own] of the C03 model initialised with the static count *)
Theorem solo_run_is_counter (sc : SchedTree.cfg) fuel now0 :
  size_cfg sc <= S fuel -> existsb unknown_part (flatten_cfg sc) = false ->
  exists tree, build (S fuel) now0 sc = Ok tree /\
    (comp_len tree <> 0 -> forall lo l, clock_ok lo (eng_ops l) ->
       (exists outs tree', solo_run fuel tree (eng_ops l) outs tree') /\
       (forall outs tree', solo_run fuel tree (eng_ops l) outs tree' ->
          map obs_bit outs = counter_obs (Z.to_nat (sumcnt (flatten_cfg sc))) l)).
Proof.
  intros Hsz Hu. destruct (tree_is_counter sc (S fuel) now0 Hsz Hu) as (tree & E & H).
  exists tree. split; [exact E|]. intros NZ lo l Hck.
  destruct (build_ok sc (S fuel) now0 Hsz) as (tree2 & E2 & F & _ & Sz). rewrite E in E2. inversion E2; subst tree2.
  pose proof (fresh_wf _ F) as W. assert (Sz' : size tree <= S fuel) by lia.
  split; [apply solo_run_total; assumption|].
  intros outs tree' Hr. rewrite <- (solo_run_seq fuel _ _ _ _ Hr W NZ Sz'). apply (H lo l Hck).
Qed.
