(* Proofs about the handle of the ammo file (Model/ProviderFile.v), property C08. *)
From Coq Require Import List Arith Bool Lia.
From PV Require Import Model.Provider Model.ProviderFile Proofs.ProviderProofs.
Import ListNotations.

(* ---------------------------------------------------------------------------------- *)
(* the handle semantics *)

Lemma h_run_app fs l1 l2 h :
  h_run fs (l1 ++ l2) h =
  let '(h1, ok1) := h_run fs l1 h in
  let '(h2, ok2) := h_run fs l2 h1 in (h2, ok1 && ok2).
Proof.
  revert h. induction l1 as [|op l1 IH]; intro h; cbn [app h_run].
  - destruct (h_run fs l2 h). reflexivity.
  - destruct (h_apply fs op h) as [h1 ok1]. rewrite IH.
    destruct (h_run fs l1 h1) as [h2 ok2]. destruct (h_run fs l2 h2) as [h3 ok3].
    rewrite andb_assoc. reflexivity.
Qed.

(* reads and seeks of an open handle succeed and leave it as it is *)
Lemma h_run_uses_open fs k h : h_open h = true -> h_run fs (repeat FUse k) h = (h, true).
Proof.
  intro Ho. induction k as [|k IH]; cbn [repeat h_run]; [reflexivity|].
  unfold h_apply. rewrite Ho, IH. reflexivity.
Qed.

(* no operation but Open opens a handle: reads and seeks of a closed handle leave it closed,
   and every one of them fails and is counted *)
Lemma h_run_uses_closed fs k h :
  h_open h = false ->
  h_open (fst (h_run fs (repeat FUse k) h)) = false
  /\ snd (h_run fs (repeat FUse k) h) = (k =? 0)
  /\ h_late (fst (h_run fs (repeat FUse k) h)) = h_late h + k
  /\ h_opens (fst (h_run fs (repeat FUse k) h)) = h_opens h
  /\ h_closes (fst (h_run fs (repeat FUse k) h)) = h_closes h.
Proof.
  revert h. induction k as [|k IH]; intros h Hc; cbn [repeat h_run].
  - cbn. repeat split; try assumption; lia.
  - unfold h_apply. rewrite Hc.
    set (h1 := {| h_open := false; h_opens := h_opens h; h_closes := h_closes h; h_late := S (h_late h) |}).
    destruct (IH h1 eq_refl) as (A & B & C & D & E).
    destruct (h_run fs (repeat FUse k) h1) as [h2 ok2]. cbn [fst snd] in *.
    repeat split; try assumption. cbn in C. lia.
Qed.

(* whatever came before, a handle is closed after Close *)
Lemma h_run_then_close fs l h : h_open (fst (h_run fs (l ++ [FClose]) h)) = false.
Proof.
  rewrite h_run_app. destruct (h_run fs l h) as [h1 ok1]. cbn [h_run].
  unfold h_apply. destruct (h_open h1); cbn; reflexivity.
Qed.

(* Close of a closed handle: an error on a real file, nil on a mem file, counted on both *)
Lemma close_closed fs h :
  h_open h = false ->
  h_run fs [FClose] h =
  ({| h_open := false; h_opens := h_opens h; h_closes := S (h_closes h); h_late := S (h_late h) |},
   match fs with FsOS => false | FsMem => true end).
Proof. intro Hc. cbn [h_run]. unfold h_apply. rewrite Hc. rewrite andb_true_r. reflexivity. Qed.

(* ---------------------------------------------------------------------------------- *)
(* the constructors of the present code leave the handle they opened in a known state *)

Lemma http_construct fs d n :
  exists h, h_run fs (fp_construct (http_plan d n)) h0 = (h, true)
            /\ h_open h = true /\ h_opens h = 1 /\ h_closes h = 0 /\ h_late h = 0.
Proof.
  destruct d; cbn [http_plan fp_construct].
  1-4: eexists; split; [reflexivity|cbn; repeat split; reflexivity].
  set (h1 := {| h_open := true; h_opens := 1; h_closes := 0; h_late := 0 |}).
  exists h1. split; [|repeat split; reflexivity].
  change (FOpen :: FUse :: FUse :: repeat FUse (S n)) with ([FOpen] ++ repeat FUse (S (S (S n)))).
  rewrite h_run_app. change (h_run fs [FOpen] h0) with (h1, true).
  cbv beta iota zeta. rewrite (h_run_uses_open fs (S (S (S n))) h1 eq_refl). reflexivity.
Qed.

(* ---------------------------------------------------------------------------------- *)
(* the handle protocol of every provider, for every run *)

Lemma replay_open_handle fs p r hc h :
  h_run fs (fp_construct p) h0 = (hc, true) ->
  h_run fs (fp_start p) hc = (h, true) ->
  h_open h = true -> h_opens h = 1 -> h_closes h = 0 -> h_late h = 0 ->
  fp_exit p = [FClose] ->
  let fr := replay fs p r in
  f_construct_ok fr = true /\ h_late (f_handle fr) = 0 /\ f_out fr = FAs (out r) /\ f_base fr = r
  /\ (out r <> OutOfFuel -> h_released_once (f_handle fr) = true).
Proof.
  intros Hc Hs Ho H1 H2 H3 He. unfold replay. rewrite Hc, Hs, He. cbn [h_run].
  assert (HL : h_run fs (if fp_loop_uses p then repeat FUse (steps r) else []) h = (h, true)).
  { destruct (fp_loop_uses p); [apply h_run_uses_open; assumption|reflexivity]. }
  rewrite HL. unfold h_apply. rewrite Ho. cbn [andb negb].
  destruct (out r) eqn:Eo; cbn [f_construct_ok f_handle f_out f_base h_late].
  - repeat split; try assumption. + destruct (fp_policy p); reflexivity.
    + intros _. unfold h_released_once. cbn. rewrite H1, H2, H3. reflexivity.
  - repeat split; try assumption. + destruct (fp_policy p); reflexivity.
    + intros _. unfold h_released_once. cbn. rewrite H1, H2, H3. reflexivity.
  - repeat split; try assumption. intro X. exfalso. apply X. reflexivity.
Qed.

Lemma file_protocol fs (k : pkind) cf es cancel fuel :
  let fr := run_file fs k cf es cancel fuel in
  f_base fr = run k cf es cancel fuel
  /\ f_construct_ok fr = true
  /\ h_late (f_handle fr) = 0
  /\ f_out fr = FAs (out (f_base fr))
  /\ (out (f_base fr) <> OutOfFuel -> h_released_once (f_handle fr) = true).
Proof.
  unfold run_file. set (r := run k cf es cancel fuel). clearbody r. destruct k as [d pre| | |]; cbn [plan_of].
  - destruct (http_construct fs d (length es)) as (h & Hc & Ho & H1 & H2 & H3).
    destruct (replay_open_handle fs (http_plan d (length es)) r h h Hc eq_refl Ho H1 H2 H3 eq_refl)
      as (A & B & C & D & E).
    rewrite D. repeat split; assumption.
  - (* scenario: the constructor opened, read and closed the file; Run does not touch it *)
    unfold replay, scen_plan. cbn [fp_construct fp_start fp_loop_uses fp_exit fp_policy h_run].
    unfold h_apply; cbn. destruct (out r) eqn:Eo; cbn; rewrite ?Eo; repeat split; try reflexivity;
      try (intros _; reflexivity); intro X; exfalso; apply X; reflexivity.
  - destruct (replay_open_handle fs openrun_plan r h0 {| h_open := true; h_opens := 1; h_closes := 0; h_late := 0 |}
                eq_refl eq_refl eq_refl eq_refl eq_refl eq_refl eq_refl) as (A & B & C & D & E).
    rewrite D. repeat split; assumption.
  - destruct (replay_open_handle fs openrun_plan r h0 {| h_open := true; h_opens := 1; h_closes := 0; h_late := 0 |}
                eq_refl eq_refl eq_refl eq_refl eq_refl eq_refl eq_refl) as (A & B & C & D & E).
    rewrite D. repeat split; assumption.
Qed.

(* C08's clean end, with the handle: a bounded run returns nil — nothing from the loop, nothing
   from the deferred Close —, the sink is closed and the file was opened once, closed once and
   never touched after that; on either kind of file system *)
Lemma c08_clean_end_file fs (k : pkind) es lim pas b fuel :
  es <> [] -> bound lim pas (length es) = Some b -> step_const * (b + length es + 1) < fuel ->
  let fr := run_file fs k (cfg0 lim pas) es None fuel in
  f_clean fr = true /\ closed (f_base fr) = true /\ acquire_after (f_base fr) = AcqEndOfAmmo
  /\ f_construct_ok fr = true /\ h_released_once (f_handle fr) = true.
Proof.
  intros Hn HB Hf fr.
  destruct (file_protocol fs k (cfg0 lim pas) es None fuel) as (A & B & C & D & E). fold fr in A, B, C, D, E.
  destruct (c08_clean_end k es lim pas b fuel Hn HB Hf) as (X & Y & Z). rewrite <- A in X, Y, Z.
  unfold f_clean. rewrite D, X. repeat split; try assumption.
  apply E. rewrite X. discriminate.
Qed.

(* every run that returns (bounded, cancelled, failed): Run's result is the loop's result, the
   handle was released exactly once and nothing touched it afterwards *)
Lemma c08_handle_every_run fs (k : pkind) cf es cancel fuel :
  let fr := run_file fs k cf es cancel fuel in
  f_out fr = FAs (out (run k cf es cancel fuel))
  /\ h_late (f_handle fr) = 0
  /\ (out (run k cf es cancel fuel) <> OutOfFuel -> h_released_once (f_handle fr) = true).
Proof.
  intro fr. destruct (file_protocol fs k cf es cancel fuel) as (A & B & C & D & E).
  fold fr in A, B, C, D, E. rewrite A in D, E. repeat split; assumption.
Qed.

(* ---------------------------------------------------------------------------------- *)
(* why the life cycle matters: releasing the handle in the constructor as well *)

(* On a real file, whatever the constructor did before, whatever the loop returned: when the
   constructor has closed the handle and Run returns the error of its deferred Close, Run does
   not end cleanly — either a read of the loop fails or the second Close does. *)
Lemma close_early_not_clean_os p r :
  out r <> OutOfFuel -> fp_start p = [] -> fp_exit p = [FClose] -> fp_policy p = CloseReturned ->
  f_clean (replay FsOS (close_early p) r) = false
  /\ 1 <= h_late (f_handle (replay FsOS (close_early p) r)).
Proof.
  intros Ho Hs He Hp. unfold replay, close_early.
  cbn [fp_construct fp_start fp_loop_uses fp_exit fp_policy]. rewrite Hs, He, Hp.
  pose proof (h_run_then_close FsOS (fp_construct p) h0) as Hcl.
  destruct (h_run FsOS (fp_construct p ++ [FClose]) h0) as [h1 ok1]. cbn [fst] in Hcl.
  cbn [h_run andb].
  assert (HL : exists h3 ok3,
             h_run FsOS (if fp_loop_uses p then repeat FUse (steps r) else []) h1 = (h3, ok3)
             /\ h_open h3 = false).
  { destruct (fp_loop_uses p).
    - destruct (h_run_uses_closed FsOS (steps r) h1 Hcl) as (A & _).
      destruct (h_run FsOS (repeat FUse (steps r)) h1) as [h3 ok3]. exists h3, ok3. split; [reflexivity|exact A].
    - exists h1, true. split; [reflexivity|exact Hcl]. }
  destruct HL as (h3 & ok3 & HL & Hc3). rewrite HL.
  unfold h_apply. rewrite Hc3.
  unfold f_clean.
  destruct (out r) eqn:Eo; cbn [f_out f_handle h_late].
  - destruct ok3; cbn; split; try reflexivity; lia.
  - destruct ok3; cbn; split; try reflexivity; lia.
  - exfalso. apply Ho. reflexivity.
Qed.

(* ... in particular the http providers (the JSON array flavour holds everything in memory after
   its constructor, so the early Close looks harmless there) *)
Lemma http_close_early_not_clean_os d n r :
  out r <> OutOfFuel -> f_clean (replay FsOS (close_early (http_plan d n)) r) = false.
Proof. intro Ho. apply (close_early_not_clean_os (http_plan d n) r Ho eq_refl eq_refl eq_refl). Qed.

(* On afero's mem file system the same provider ends cleanly (Close of a closed mem file is nil):
   the defect is invisible to Run's result there, only the count of late operations shows it. *)
Lemma jsonarr_close_early_clean_mem n r :
  out r = Ok ->
  f_clean (replay FsMem (close_early (http_plan DJsonArr n)) r) = true
  /\ h_late (f_handle (replay FsMem (close_early (http_plan DJsonArr n)) r)) = 1.
Proof.
  intro Ho. unfold replay, close_early. cbn [http_plan fp_construct fp_start fp_loop_uses fp_exit fp_policy].
  rewrite h_run_app.
  destruct (http_construct FsMem DJsonArr n) as (h & Hc & Hop & H1 & H2 & H3).
  cbn [http_plan fp_construct] in Hc. rewrite Hc.
  cbn [h_run]. unfold h_apply. rewrite Hop. cbn [h_open andb negb].
  rewrite Ho. unfold f_clean. cbn. rewrite H3. split; reflexivity.
Qed.
