(* Property C01, floating-point side: line.go evaluated in IEEE-754 binary64, increasing lines.

     lineDoAt(a, b):  twoA := 2*a ; bSquare := b*b ; bilionDivA := 1e9/a
                      Duration((math.Sqrt(twoA*float64(i) + bSquare) - b) * bilionDivA)

   The subtraction cancels: with S = sqrt(2 a i + b^2) (the rate at the instant of operation i)
   the absolute error of the float64 value is  4u * Y + 3u * Z + eta  where
   Y = (S - b) * 1e9/a is the exact instant (ns) and Z = S * 1e9/a >= Y carries the
   cancellation factor S/(S-b).  For the slope NewLine passes, Z <= kappa * D with
   kappa = to/(to-from) (the conditioning the correspondence driver uses).
   Decreasing lines (a < 0) are NOT covered here: the radicand itself cancels and the bound
   depends on the distance of the integral from the last operation (see design/C01.md). *)
From Coq Require Import ZArith Reals Lra Lia Psatz.
From Flocq Require Import Core.
From PV Require Import Proofs.SchedFloatCore Proofs.SchedFloatRel Proofs.SchedFloatConst.
Local Open Scope R_scope.

Definition go_line_sqrt (a b : R) (i : Z) : R :=
  fsqrt (fadd (fmul (fmul 2 a) (of_int i)) (fmul b b)).
Definition go_line_at_f (a b : R) (i : Z) : R :=
  fmul (fsub (go_line_sqrt a b i) b) (fdiv billion a).
Definition go_line_at (a b : R) (i : Z) : Z := to_int (go_line_at_f a b i).

(* the same expression over the real numbers *)
Definition line_S (a b : R) (i : Z) : R := sqrt (2 * a * IZR i + b * b).
Definition line_Y (a b : R) (i : Z) : R := (line_S a b i - b) * (billion / a).
Definition line_Z (a b : R) (i : Z) : R := line_S a b i * (billion / a).

Definition p2_50 : R := 1125899906842624.
(* slope in requests per second per second: 2^-40 <= a <= 2^50 *)
Definition slope_guard (a : R) : Prop := / p2_40 <= a <= p2_50.

Ltac usmall := pose proof u_pos as Hu_pos; pose proof u_val as Hu_val;
  assert (Hu_small : u <= / 1000000) by (rewrite u_val; lra).

Lemma rnd_ge_half x c : tiny <= x -> 0 <= c <= x -> c / 2 <= rnd x.
Proof.
  intros Hx Hc. usmall. pose proof tiny_pos. pose proof (rnd_pos_bounds x Hx) as [Hl _].
  apply Rle_trans with (x * (1 - u)); [nra|exact Hl].
Qed.

Lemma rnd_zero_or_tiny x : x = 0 \/ tiny <= x -> rnd x = 0 \/ tiny <= rnd x.
Proof. intros [->|H]; [left; apply rnd_0|right; apply rnd_ge_tiny; exact H]. Qed.

(* the square root of the radicand: everything is non-negative, pure relative error *)
Lemma line_sqrt_rel a b i :
  is_b64 a -> slope_guard a -> b = 0 \/ rate_guard b -> (0 <= i < 2 ^ 53)%Z ->
  rel (go_line_sqrt a b i) (line_S a b i) (2 * u + 4 * u * u).
Proof.
  intros Fa [Ha1 Ha2] Hb Hi. usmall. unfold p2_40, p2_50 in *.
  pose proof tiny_le_2m100 as Ht. pose proof tiny_pos as Ht0.
  unfold go_line_sqrt, line_S, fsqrt, fadd, fmul.
  rewrite (rnd_id (2 * a)) by (apply is_b64_double; exact Fa).
  rewrite of_int_exact by lia.
  assert (Hi0 : 0 <= IZR i) by (apply IZR_le; lia).
  assert (Hb0 : 0 <= b) by (destruct Hb as [->|[Hb _]]; [lra|unfold p2_20 in Hb; lra]).
  assert (H2a : 0 <= 2 * a * IZR i) by (apply Rmult_le_pos; lra).
  assert (Hbb : 0 <= b * b) by (apply Rmult_le_pos; lra).
  assert (C1 : 2 * a * IZR i = 0 \/ tiny <= 2 * a * IZR i).
  { destruct (Z.eq_dec i 0) as [->|Hne]; [left; ring|right].
    assert (1 <= IZR i) by (apply IZR_le; lia).
    apply Rle_trans with (2 * / 1099511627776 * 1); [lra|].
    apply Rmult_le_compat; lra. }
  assert (C2 : b * b = 0 \/ tiny <= b * b).
  { destruct Hb as [->|[Hb _]]; [left; ring|right]. unfold p2_20 in Hb.
    apply Rle_trans with (/ 1048576 * / 1048576); [lra|]. apply Rmult_le_compat; lra. }
  assert (H1 : rel (rnd (2 * a * IZR i)) (2 * a * IZR i) (0 + u + 0 * u)).
  { apply rel_rnd; [exact H2a|lra|exact C1|apply rel_exact]. }
  assert (H2 : rel (rnd (b * b)) (b * b) (0 + u + 0 * u)).
  { apply rel_rnd; [exact Hbb|lra|exact C2|apply rel_exact]. }
  assert (H3 : rel (rnd (2 * a * IZR i) + rnd (b * b)) (2 * a * IZR i + b * b) u).
  { apply (rel_add _ _ (0 + u + 0 * u) _ _ (0 + u + 0 * u)); try assumption; lra. }
  apply rnd_zero_or_tiny in C1. apply rnd_zero_or_tiny in C2.
  assert (C3 : rnd (2 * a * IZR i) + rnd (b * b) = 0 \/ tiny <= rnd (2 * a * IZR i) + rnd (b * b)).
  { pose proof (rnd_nonneg _ H2a). pose proof (rnd_nonneg _ Hbb).
    destruct C1 as [C1|C1], C2 as [C2|C2]; [left; lra|right; lra|right; lra|right; lra]. }
  assert (HR : 0 <= 2 * a * IZR i + b * b) by lra.
  assert (H4 : rel (rnd (rnd (2 * a * IZR i) + rnd (b * b))) (2 * a * IZR i + b * b) (u + u + u * u)).
  { apply rel_rnd; [exact HR|lra|exact C3|exact H3]. }
  apply rnd_zero_or_tiny in C3.
  set (rh := rnd (rnd (2 * a * IZR i) + rnd (b * b))) in *.
  set (e := u + u + u * u) in *.
  assert (He : 0 <= e <= 3 * u) by (unfold e; nra).
  assert (H5 : rel (sqrt rh) (sqrt (2 * a * IZR i + b * b)) (e / 2 + e * e / 2)).
  { apply rel_sqrt; [exact HR|lra|exact H4]. }
  assert (C4 : sqrt rh = 0 \/ tiny <= sqrt rh).
  { destruct C3 as [->|C3]; [left; apply sqrt_0|right; apply tiny_le_sqrt; exact C3]. }
  set (e' := e / 2 + e * e / 2) in *.
  assert (He' : 0 <= e' <= u + 26 / 10 * u * u) by (unfold e', e; nra).
  apply (rel_weaken _ _ (e' + u + e' * u)); [apply sqrt_pos|nra|].
  apply rel_rnd; [apply sqrt_pos|nra|exact C4|exact H5].
Qed.

(* real algebra of the tail: subtraction (relative error of the difference of two floats),
   product with the rounded quotient, final rounding (relative error + eta) *)
Lemma sub_mul_rnd_err (s S b q Q d p es : R) :
  0 <= b <= S -> 0 <= Q -> 0 <= es ->
  Rabs (s - S) <= S * es ->
  Rabs (d - (s - b)) <= u * Rabs (s - b) ->
  Rabs (q - Q) <= Q * u ->
  Rabs (p - d * q) <= u * Rabs (d * q) + eta ->
  Rabs (p - (S - b) * Q) <=
    ((S - b) * Q) * ((2 * u + u * u) * (1 + u) + u) + (S * Q) * (es * (1 + u) * (1 + u) * (1 + u)) + eta.
Proof.
  intros [Hb HbS] HQ Hes Hs Hd Hq Hp. usmall.
  set (W := S - b). assert (HW : 0 <= W) by (unfold W; lra).
  assert (HSes : 0 <= S * es) by (apply Rmult_le_pos; lra).
  (* |s - b| <= W + S es *)
  assert (A1 : Rabs (s - b) <= W + S * es).
  { apply Rabs_le_inv in Hs. apply Rabs_le. unfold W. lra. }
  (* |d - W| <= delta *)
  set (delta := u * (W + S * es) + S * es).
  assert (A2 : Rabs (d - W) <= delta).
  { replace (d - W) with ((d - (s - b)) + (s - S)) by (unfold W; ring).
    apply Rle_trans with (1 := Rabs_triang _ _). unfold delta.
    assert (u * Rabs (s - b) <= u * (W + S * es)) by (apply Rmult_le_compat_l; lra). lra. }
  assert (Hdelta : 0 <= delta).
  { unfold delta. assert (0 <= u * (W + S * es)) by (apply Rmult_le_pos; lra). lra. }
  (* |q| <= Q (1+u) *)
  assert (A3 : Rabs q <= Q * (1 + u)).
  { apply Rabs_le_inv in Hq. apply Rabs_le. assert (0 <= Q * u) by (apply Rmult_le_pos; lra). lra. }
  (* |d q - W Q| <= errP *)
  set (errP := delta * (Q * (1 + u)) + W * (Q * u)).
  assert (A4 : Rabs (d * q - W * Q) <= errP).
  { replace (d * q - W * Q) with ((d - W) * q + W * (q - Q)) by ring.
    apply Rle_trans with (1 := Rabs_triang _ _). rewrite !Rabs_mult. unfold errP.
    apply Rplus_le_compat.
    - apply Rmult_le_compat; [apply Rabs_pos|apply Rabs_pos|exact A2|exact A3].
    - rewrite (Rabs_pos_eq W) by exact HW. apply Rmult_le_compat_l; [exact HW|exact Hq]. }
  assert (HWQ : 0 <= W * Q) by (apply Rmult_le_pos; assumption).
  assert (HerrP : 0 <= errP).
  { unfold errP. assert (0 <= delta * (Q * (1 + u))) by (apply Rmult_le_pos; [exact Hdelta|apply Rmult_le_pos; lra]).
    assert (0 <= W * (Q * u)) by (apply Rmult_le_pos; [exact HW|apply Rmult_le_pos; lra]). lra. }
  assert (A5 : Rabs (d * q) <= W * Q + errP).
  { apply Rabs_le_inv in A4. apply Rabs_le. lra. }
  assert (A6 : Rabs (p - W * Q) <= errP * (1 + u) + u * (W * Q) + eta).
  { replace (p - W * Q) with ((p - d * q) + (d * q - W * Q)) by ring.
    apply Rle_trans with (1 := Rabs_triang _ _).
    assert (u * Rabs (d * q) <= u * (W * Q + errP)) by (apply Rmult_le_compat_l; lra). lra. }
  apply Rle_trans with (1 := A6). right. unfold errP, delta, W. ring.
Qed.

(* lineDoAt before the conversion to time.Duration *)
Theorem line_at_f_err a b i :
  is_b64 a -> is_b64 b -> slope_guard a -> b = 0 \/ rate_guard b -> (0 <= i < 2 ^ 53)%Z ->
  Rabs (go_line_at_f a b i - line_Y a b i) <= 4 * u * line_Y a b i + 3 * u * line_Z a b i + eta /\
  0 <= line_Y a b i <= line_Z a b i.
Proof.
  intros Fa Fb Hga Hb Hi. usmall.
  pose proof (line_sqrt_rel a b i Fa Hga Hb Hi) as Hs.
  destruct Hga as [Ha1 Ha2]. unfold p2_40, p2_50 in *.
  pose proof tiny_le_2m100 as Ht. pose proof tiny_pos as Ht0.
  assert (Hi0 : 0 <= IZR i) by (apply IZR_le; lia).
  assert (Hb0 : 0 <= b) by (destruct Hb as [->|[Hb _]]; [lra|unfold p2_20 in Hb; lra]).
  assert (Ha0 : 0 < a) by lra.
  set (Q := billion / a).
  assert (HQ : 0 < Q) by (unfold Q, billion; apply Rmult_lt_0_compat; [lra|apply Rinv_0_lt_compat; exact Ha0]).
  (* b <= S *)
  assert (HbS : b <= line_S a b i).
  { unfold line_S. rewrite <- (sqrt_square b) at 1 by exact Hb0. apply sqrt_le_1_alt.
    assert (0 <= 2 * a * IZR i) by (apply Rmult_le_pos; lra). lra. }
  set (S := line_S a b i) in *. set (sh := go_line_sqrt a b i) in *.
  (* 1e9 / a *)
  assert (Hq : rel (fdiv billion a) Q (0 + u + 0 * u)).
  { unfold fdiv. fold Q. apply rel_rnd; [lra|lra| |apply rel_exact]. right.
    unfold Q, billion. apply Rle_trans with (1000000000 * / 1125899906842624); [lra|].
    apply Rmult_le_compat_l; [lra|]. apply Rinv_le_contravar; lra. }
  assert (Hq' : Rabs (fdiv billion a - Q) <= Q * u).
  { apply rel_abs. apply (rel_weaken _ _ (0 + u + 0 * u)); [lra|lra|exact Hq]. }
  assert (Hsh : is_b64 sh) by (unfold sh, go_line_sqrt, fsqrt; apply is_b64_rnd).
  pose proof (fsub_err sh b Hsh Fb) as Hd.
  pose proof (rnd_abs_err (fsub sh b * fdiv billion a)) as Hp.
  pose proof (sub_mul_rnd_err sh S b (fdiv billion a) Q (fsub sh b) (go_line_at_f a b i) (2 * u + 4 * u * u)
                (conj Hb0 HbS) (Rlt_le _ _ HQ)) as H.
  assert (Hes : 0 <= 2 * u + 4 * u * u) by nra.
  specialize (H Hes (rel_abs _ _ _ Hs) Hd Hq' Hp).
  unfold line_Y, line_Z. fold S Q.
  assert (HY : 0 <= (S - b) * Q) by (apply Rmult_le_pos; lra).
  assert (HYZ : (S - b) * Q <= S * Q) by (apply Rmult_le_compat_r; lra).
  split; [|split; assumption].
  apply Rle_trans with (1 := H).
  assert (C1 : (S - b) * Q * ((2 * u + u * u) * (1 + u) + u) <= 4 * u * ((S - b) * Q)).
  { rewrite (Rmult_comm (4 * u)). apply Rmult_le_compat_l; [exact HY|]. nra. }
  assert (C2 : S * Q * ((2 * u + 4 * u * u) * (1 + u) * (1 + u) * (1 + u)) <= 3 * u * (S * Q)).
  { rewrite (Rmult_comm (3 * u)). apply Rmult_le_compat_l; [lra|]. rewrite Hu_val. lra. }
  lra.
Qed.

(* ------------------------------------------------------------------------------------ *)
(* NewLine: a := (to - from) / (float64(duration) / 1e9), for binary64 rates from < to     *)

Definition go_line_a (from to : R) (D : Z) : R := fdiv (fsub to from) (go_secs D).
Definition line_slope (from to : R) (D : Z) : R := (to - from) / (IZR D / billion).

Lemma go_line_a_rel from to D :
  is_b64 from -> is_b64 to -> from < to -> (1 <= D < 2 ^ 63)%Z ->
  slope_guard (go_line_a from to D) ->
  rel (go_line_a from to D) (line_slope from to D) (5 * u) /\ 0 < line_slope from to D.
Proof.
  intros Ff Ft Hlt HD [Hg1 Hg2]. usmall. unfold p2_40, p2_50 in *.
  pose proof tiny_le_2m100 as Ht. pose proof tiny_pos as Ht0.
  destruct (go_secs_rel D HD) as [Hs Hst].
  assert (HD1 : 1 <= IZR D) by (apply IZR_le; lia).
  assert (HT : 0 < IZR D / billion) by (unfold billion; apply Rmult_lt_0_compat; [lra|apply Rinv_0_lt_compat; lra]).
  assert (Hsub : rel (fsub to from) (to - from) u).
  { apply rel_of_abs. pose proof (fsub_err to from Ft Ff) as H.
    rewrite (Rabs_pos_eq (to - from)) in H by lra. lra. }
  assert (Hdv : rel (fsub to from / go_secs D) (line_slope from to D) ((u + (2 * u + u * u)) / (1 - (2 * u + u * u)))).
  { unfold line_slope. apply rel_div; [lra|exact HT|lra|nra|exact Hsub|exact Hs]. }
  assert (Hpos : 0 < line_slope from to D).
  { unfold line_slope. apply Rmult_lt_0_compat; [lra|apply Rinv_0_lt_compat; exact HT]. }
  split; [|exact Hpos].
  set (e := (u + (2 * u + u * u)) / (1 - (2 * u + u * u))) in *.
  assert (He : 0 <= e <= 3 * u + 8 * u * u).
  { unfold e. rewrite Hu_val. split; lra. }
  unfold go_line_a, fdiv in *.
  apply (rel_weaken _ _ (e + u + e * u)); [lra|nra|].
  apply rel_rnd; [lra|nra| |exact Hdv]. right.
  (* the quotient is not in the underflow range: its rounding is >= 2^-40 *)
  destruct (Rle_or_lt tiny (fsub to from / go_secs D)) as [H|H]; [exact H|exfalso].
  assert (rnd (fsub to from / go_secs D) <= tiny).
  { rewrite <- (rnd_id tiny) by exact tiny_is_b64. apply rnd_le. lra. }
  lra.
Qed.

(* rationalised form of the exact instant: no subtraction *)
Lemma line_Y_rationalised a b i :
  0 < a -> 0 <= b -> (1 <= i)%Z ->
  0 < line_S a b i /\ line_Y a b i = 2 * IZR i * billion / (line_S a b i + b).
Proof.
  intros Ha Hb Hi. assert (Hi1 : 1 <= IZR i) by (apply IZR_le; lia).
  assert (HR : 0 < 2 * a * IZR i + b * b).
  { assert (0 < 2 * a * IZR i) by (apply Rmult_lt_0_compat; lra). nra. }
  assert (HS : 0 < line_S a b i) by (apply sqrt_lt_R0; exact HR).
  split; [exact HS|].
  assert (HSS : line_S a b i * line_S a b i = 2 * a * IZR i + b * b) by (apply sqrt_sqrt; lra).
  unfold line_Y. set (S := line_S a b i) in *.
  replace (2 * IZR i) with ((S * S - b * b) / a) by (rewrite HSS; field; lra).
  field. split; lra.
Qed.

(* sensitivity of the exact instant to the slope: a' = a (1 +- eps) moves Y by at most
   relative eps, and Z = S 1e9/a by at most relative 2 eps *)
Lemma line_perturb a a' b i eps :
  0 < a -> rel a' a eps -> 0 <= eps <= / 1000 -> 0 <= b -> (0 <= i)%Z ->
  rel (line_Y a' b i) (line_Y a b i) eps /\ rel (line_Z a' b i) (line_Z a b i) (2 * eps) /\
  rel (line_S a' b i) (line_S a b i) eps.
Proof.
  intros Ha Hr He Hb Hi.
  assert (Ha' : 0 < a').
  { destruct Hr as [H _]. assert (0 < a * (1 - eps)) by (apply Rmult_lt_0_compat; lra). lra. }
  assert (Hi0 : 0 <= IZR i) by (apply IZR_le; lia).
  assert (HB : 0 < billion) by (unfold billion; lra).
  (* S *)
  assert (H2 : rel (2 * a' * IZR i) (2 * a * IZR i) eps).
  { replace (2 * a' * IZR i) with (a' * (2 * IZR i)) by ring. replace (2 * a * IZR i) with (a * (2 * IZR i)) by ring.
    apply (rel_weaken _ _ (eps + 0 + eps * 0)); [apply Rmult_le_pos; lra|lra|].
    apply rel_mul; [lra|lra|lra|lra|exact Hr|apply rel_exact]. }
  assert (H2a : 0 <= 2 * a * IZR i) by (apply Rmult_le_pos; lra).
  assert (Hbb : 0 <= b * b) by (apply Rmult_le_pos; lra).
  assert (H3 : rel (2 * a' * IZR i + b * b) (2 * a * IZR i + b * b) eps).
  { apply (rel_add _ _ eps _ _ 0); [exact H2a|exact Hbb|lra|lra|exact H2|apply rel_exact]. }
  assert (H4 : rel (line_S a' b i) (line_S a b i) (eps / 2 + eps * eps / 2)).
  { unfold line_S. apply rel_sqrt; [lra|lra|exact H3]. }
  set (es := eps / 2 + eps * eps / 2) in *.
  assert (Hes : 0 <= es <= 501 / 1000 * eps) by (unfold es; nra).
  assert (HS0 : 0 <= line_S a b i) by apply sqrt_pos.
  assert (HSr : rel (line_S a' b i) (line_S a b i) eps).
  { apply (rel_weaken _ _ es); [exact HS0|lra|exact H4]. }
  split; [|split; [|exact HSr]].
  - destruct (Z.eq_dec i 0) as [->|Hne].
    + (* i = 0: both instants are 0 *)
      assert (E : forall c, line_Y c b 0 = 0).
      { intros c. unfold line_Y, line_S. replace (2 * c * 0 + b * b) with (b * b) by ring.
        rewrite sqrt_square by exact Hb. ring. }
      rewrite !E. unfold rel. lra.
    + destruct (line_Y_rationalised a b i Ha Hb) as [HS E]; [lia|].
      destruct (line_Y_rationalised a' b i Ha' Hb) as [HS' E']; [lia|].
      rewrite E, E'.
      assert (H5 : rel (line_S a' b i + b) (line_S a b i + b) es).
      { apply (rel_add _ _ es _ _ 0); [lra|exact Hb|lra|lra|exact H4|apply rel_exact]. }
      apply (rel_weaken _ _ ((0 + es) / (1 - es))).
      * apply Rmult_le_pos; [apply Rmult_le_pos; lra|apply Rlt_le, Rinv_0_lt_compat; lra].
      * apply (Rmult_le_reg_r (1 - es)); [lra|]. unfold Rdiv. rewrite Rmult_assoc, Rinv_l by lra. nra.
      * apply rel_div; [apply Rmult_le_pos; lra|lra|lra|lra|apply rel_exact|exact H5].
  - unfold line_Z.
    assert (H6 : rel (billion / a') (billion / a) ((0 + eps) / (1 - eps))).
    { apply rel_div; [lra|exact Ha|lra|lra|apply rel_exact|exact Hr]. }
    set (e6 := (0 + eps) / (1 - eps)) in *.
    assert (He6 : 0 <= e6 <= 1002 / 1000 * eps).
    { unfold e6. split.
      - apply Rmult_le_pos; [lra|apply Rlt_le, Rinv_0_lt_compat; lra].
      - apply (Rmult_le_reg_r (1 - eps)); [lra|]. unfold Rdiv. rewrite Rmult_assoc, Rinv_l by lra. nra. }
    apply (rel_weaken _ _ (es + e6 + es * e6)).
    + apply Rmult_le_pos; [exact HS0|]. apply Rmult_le_pos; [lra|apply Rlt_le, Rinv_0_lt_compat; exact Ha].
    + nra.
    + apply rel_mul; [exact HS0|apply Rmult_le_pos; [lra|apply Rlt_le, Rinv_0_lt_compat; exact Ha]|lra|lra|exact H4|exact H6].
Qed.

(* lineDoAt with the float64 slope against the exact instant of the exact slope *)
Theorem line_at_f_err_slope a a' b i :
  0 < a -> rel a' a (5 * u) ->
  is_b64 a' -> is_b64 b -> slope_guard a' -> b = 0 \/ rate_guard b -> (0 <= i < 2 ^ 53)%Z ->
  Rabs (go_line_at_f a' b i - line_Y a b i) <= 10 * u * line_Y a b i + 4 * u * line_Z a b i + eta /\
  0 <= line_Y a b i <= line_Z a b i.
Proof.
  intros Ha Hr Fa Fb Hg Hb Hi. usmall.
  assert (Hb0 : 0 <= b) by (destruct Hb as [->|[Hb _]]; [lra|unfold p2_20 in Hb; lra]).
  destruct (line_perturb a a' b i (5 * u) Ha Hr) as (HY & HZ & _); [lra|exact Hb0|lia|].
  destruct (line_at_f_err a' b i Fa Fb Hg Hb Hi) as (He & HY0 & HYZ).
  set (Y' := line_Y a' b i) in *. set (Z' := line_Z a' b i) in *.
  set (Y := line_Y a b i) in *. set (Z := line_Z a b i) in *.
  assert (HYpos : 0 <= Y).
  { destruct HY as [_ H]. destruct (Rle_or_lt 0 Y) as [H0|H0]; [exact H0|]. nra. }
  assert (HYZ0 : Y <= Z).
  { unfold Y, Z, line_Y, line_Z. apply Rmult_le_compat_r.
    - unfold billion. apply Rmult_le_pos; [lra|apply Rlt_le, Rinv_0_lt_compat; exact Ha].
    - lra. }
  split; [|split; assumption].
  pose proof (rel_abs _ _ _ HY) as HdY. destruct HY as [HY1 HY2]. destruct HZ as [HZ1 HZ2].
  replace (go_line_at_f a' b i - Y) with ((go_line_at_f a' b i - Y') + (Y' - Y)) by ring.
  apply Rle_trans with (1 := Rabs_triang _ _).
  assert (4 * u * Y' <= 4 * u * (Y * (1 + 5 * u))) by (apply Rmult_le_compat_l; lra).
  assert (3 * u * Z' <= 3 * u * (Z * (1 + 2 * (5 * u)))) by (apply Rmult_le_compat_l; lra).
  assert (HZpos : 0 <= Z) by lra.
  rewrite Hu_val in *. nra.
Qed.

(* ------------------------------------------------------------------------------------ *)
(* NewLine: n := int64(a*xn*xn/2 + b*xn), increasing line (all terms non-negative)       *)

Definition go_line_n_f (a b : R) (D : Z) : R :=
  let xn := go_secs D in fadd (fdiv (fmul (fmul a xn) xn) 2) (fmul b xn).
Definition go_line_n (a b : R) (D : Z) : Z := to_int (go_line_n_f a b D).
Definition line_I (a b : R) (D : Z) : R :=
  let T := IZR D / billion in a * T * T / 2 + b * T.

Theorem line_n_f_rel a a' b D :
  0 < a -> rel a' a (5 * u) -> slope_guard a' -> b = 0 \/ rate_guard b -> (1000000 <= D < 2 ^ 63)%Z ->
  rel (go_line_n_f a' b D) (line_I a b D) (14 * u) /\ 0 <= line_I a b D.
Proof.
  intros Ha Hr [Hg1 Hg2] Hb HD. usmall. unfold p2_40, p2_50 in *.
  pose proof tiny_le_2m100 as Ht. pose proof tiny_pos as Ht0.
  destruct (go_secs_rel D) as [Hs Hst]; [lia|].
  assert (HD1 : 1000000 <= IZR D) by (apply IZR_le; lia).
  assert (HT : / 1000 <= IZR D / billion).
  { unfold Rdiv, billion. apply Rle_trans with (1000000 * / 1000000000); [lra|]. apply Rmult_le_compat_r; lra. }
  set (T := IZR D / billion) in *. set (xn := go_secs D) in *.
  assert (Hxn : / 2000 <= xn).
  { destruct Hs as [Hs1 _]. apply Rle_trans with (T * (1 - (2 * u + u * u))); [|exact Hs1]. nra. }
  assert (Hb0 : 0 <= b) by (destruct Hb as [->|[Hb _]]; [lra|unfold p2_20 in Hb; lra]).
  assert (Ha' : / 1099511627776 <= a') by exact Hg1.
  unfold go_line_n_f, line_I. fold xn T. unfold fadd, fdiv, fmul.
  (* a*xn *)
  assert (H1 : rel (a' * xn) (a * T) (5 * u + (2 * u + u * u) + 5 * u * (2 * u + u * u))).
  { apply rel_mul; [lra|lra|lra|nra|exact Hr|exact Hs]. }
  set (e1 := 5 * u + (2 * u + u * u) + 5 * u * (2 * u + u * u)) in *.
  assert (He1 : 0 <= e1 <= 7 * u + 12 * u * u) by (unfold e1; nra).
  assert (HaT : 0 <= a * T) by (apply Rmult_le_pos; lra).
  assert (L1 : / 1099511627776 * / 2000 <= a' * xn) by (apply Rmult_le_compat; lra).
  assert (H2 : rel (rnd (a' * xn)) (a * T) (e1 + u + e1 * u)).
  { apply rel_rnd; [exact HaT|nra|right; lra|exact H1]. }
  set (e2 := e1 + u + e1 * u) in *.
  assert (He2 : 0 <= e2 <= 8 * u + 20 * u * u) by (unfold e2; nra).
  assert (L2 : / 1099511627776 * / 2000 / 2 <= rnd (a' * xn)).
  { apply rnd_ge_half; lra. }
  (* (a*xn)*xn *)
  assert (H3 : rel (rnd (a' * xn) * xn) (a * T * T) (e2 + (2 * u + u * u) + e2 * (2 * u + u * u))).
  { apply rel_mul; [exact HaT|lra|nra|nra|exact H2|exact Hs]. }
  set (e3 := e2 + (2 * u + u * u) + e2 * (2 * u + u * u)) in *.
  assert (He3 : 0 <= e3 <= 10 * u + 40 * u * u) by (unfold e3; nra).
  assert (HaTT : 0 <= a * T * T) by (apply Rmult_le_pos; lra).
  assert (L3 : / 1099511627776 * / 2000 / 2 * / 2000 <= rnd (a' * xn) * xn) by (apply Rmult_le_compat; lra).
  assert (H4 : rel (rnd (rnd (a' * xn) * xn)) (a * T * T) (e3 + u + e3 * u)).
  { apply rel_rnd; [exact HaTT|nra|right; lra|exact H3]. }
  set (e4 := e3 + u + e3 * u) in *.
  assert (He4 : 0 <= e4 <= 11 * u + 60 * u * u) by (unfold e4; nra).
  assert (L4 : / 1099511627776 * / 2000 / 2 * / 2000 / 2 <= rnd (rnd (a' * xn) * xn)).
  { apply rnd_ge_half; lra. }
  (* /2 *)
  assert (H5 : rel (rnd (rnd (a' * xn) * xn) / 2) (a * T * T / 2) ((e4 + 0) / (1 - 0))).
  { apply rel_div; [exact HaTT|lra|nra|lra|exact H4|apply rel_exact]. }
  set (e5 := (e4 + 0) / (1 - 0)) in *.
  assert (He5 : e5 = e4) by (unfold e5; field).
  assert (HaTT2 : 0 <= a * T * T / 2) by lra.
  assert (H6 : rel (rnd (rnd (rnd (a' * xn) * xn) / 2)) (a * T * T / 2) (e5 + u + e5 * u)).
  { apply rel_rnd; [exact HaTT2|rewrite He5; nra|right; lra|exact H5]. }
  set (e6 := e5 + u + e5 * u) in *.
  assert (He6 : 0 <= e6 <= 12 * u + 80 * u * u) by (unfold e6; rewrite He5; nra).
  (* b*xn *)
  assert (HbT : 0 <= b * T) by (apply Rmult_le_pos; lra).
  assert (H7 : rel (b * xn) (b * T) (0 + (2 * u + u * u) + 0 * (2 * u + u * u))).
  { apply rel_mul; [exact Hb0|lra|lra|nra|apply rel_exact|exact Hs]. }
  assert (C7 : b * xn = 0 \/ tiny <= b * xn).
  { destruct Hb as [->|[Hb _]]; [left; ring|right]. unfold p2_20 in Hb.
    apply Rle_trans with (/ 1048576 * / 2000); [lra|]. apply Rmult_le_compat; lra. }
  assert (H8 : rel (rnd (b * xn)) (b * T)
                 ((0 + (2 * u + u * u) + 0 * (2 * u + u * u)) + u + (0 + (2 * u + u * u) + 0 * (2 * u + u * u)) * u)).
  { apply rel_rnd; [exact HbT|nra|exact C7|exact H7]. }
  (* sum *)
  assert (H9 : rel (rnd (rnd (rnd (a' * xn) * xn) / 2) + rnd (b * xn)) (a * T * T / 2 + b * T) (12 * u + 80 * u * u)).
  { apply (rel_add _ _ e6 _ _ ((0 + (2 * u + u * u) + 0 * (2 * u + u * u)) + u + (0 + (2 * u + u * u) + 0 * (2 * u + u * u)) * u));
      [exact HaTT2|exact HbT|lra|nra|exact H6|exact H8]. }
  assert (HI : 0 <= a * T * T / 2 + b * T) by lra.
  split; [|exact HI].
  apply (rel_weaken _ _ ((12 * u + 80 * u * u) + u + (12 * u + 80 * u * u) * u)); [exact HI|nra|].
  apply rel_rnd; [exact HI|nra| |exact H9]. right.
  pose proof (rnd_nonneg (b * xn)) as Hn. assert (0 <= b * xn) by (apply Rmult_le_pos; lra).
  specialize (Hn H).
  assert (tiny <= rnd (rnd (rnd (a' * xn) * xn) / 2)); [|lra].
  apply rnd_ge_tiny. lra.
Qed.

Theorem line_n_err a a' b D :
  0 < a -> rel a' a (5 * u) -> slope_guard a' -> b = 0 \/ rate_guard b -> (1000000 <= D < 2 ^ 63)%Z ->
  let I := line_I a b D in
  let eps := bpow radix2 (-49) in
  Rabs (go_line_n_f a' b D - I) <= I * eps /\
  (Zfloor (I * (1 - eps)) <= go_line_n a' b D <= Zfloor (I * (1 + eps)))%Z /\
  (go_line_n a' b D <> Zfloor I -> exists m : Z, Rabs (IZR m - I) <= I * eps) /\
  (I <= bpow radix2 62 -> (0 <= go_line_n a' b D < 2 ^ 63)%Z).
Proof.
  intros Ha Hr Hg Hb HD I eps. usmall.
  destruct (line_n_f_rel a a' b D Ha Hr Hg Hb HD) as [H HI]. fold I in H, HI.
  assert (Heps : eps = 16 * u) by (unfold eps, u; simpl bpow; lra).
  assert (Hrel : rel (go_line_n_f a' b D) I eps) by (apply (rel_weaken _ _ (14 * u)); [exact HI|lra|exact H]).
  pose proof (rel_abs _ _ _ Hrel) as He.
  assert (H0 : 0 <= go_line_n_f a' b D) by (apply (rel_nonneg _ I eps); [exact HI|rewrite Heps, Hu_val; lra|exact Hrel]).
  set (P := go_line_n_f a' b D) in *.
  split; [exact He|].
  unfold go_line_n. fold P. rewrite to_int_floor by exact H0.
  apply Rabs_le_inv in He. split; [|split].
  - split; apply Zfloor_le; lra.
  - intros Hne. destruct (Z_lt_le_dec (Zfloor P) (Zfloor I)) as [Hlt|Hge].
    + exists (Zfloor I). pose proof (Zfloor_lb I). pose proof (Zfloor_ub P).
      assert (IZR (Zfloor P) + 1 <= IZR (Zfloor I)) by (rewrite <- plus_IZR; apply IZR_le; lia).
      apply Rabs_le. lra.
    + exists (Zfloor P). pose proof (Zfloor_lb P). pose proof (Zfloor_ub I).
      assert (IZR (Zfloor I) + 1 <= IZR (Zfloor P)) by (rewrite <- plus_IZR; apply IZR_le; lia).
      apply Rabs_le. lra.
  - intros Hb62. split; [apply Zfloor_lub; exact H0|].
    apply lt_IZR. apply Rle_lt_trans with P; [apply Zfloor_lb|].
    replace (IZR (2 ^ 63)) with 9223372036854775808 by (simpl; reflexivity).
    assert (Hb' : I <= 4611686018427387904) by (simpl bpow in Hb62; exact Hb62).
    rewrite Heps, Hu_val in *. nra.
Qed.
