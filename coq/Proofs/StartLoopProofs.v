(* Proofs about Model/StartLoop.v (start loop, NewInstanceStep) and the part of C12 that is
   about running instances (Model/Instance.v). *)
From Coq Require Import List ZArith Bool Arith Lia.
From PV Require Import Model.StartLoop Model.Instance.
Import ListNotations.
Local Open Scope Z_scope.

(* ------------------------------------------------------------------------------------ *)
(* list helpers *)

Lemma skipn_cons_nth {A} (l : list A) : forall n x r,
  skipn n l = x :: r -> nth_error l n = Some x /\ skipn (S n) l = r.
Proof.
  induction l as [|y t IH]; intros [|n] x r H; cbn in *; try discriminate.
  - inversion H; subst. split; reflexivity.
  - apply IH. exact H.
Qed.

Lemma firstn_S_nth {A} (l : list A) : forall n x,
  nth_error l n = Some x -> firstn (S n) l = firstn n l ++ [x].
Proof.
  induction l as [|y t IH]; intros [|n] x H; cbn in *; try discriminate.
  - inversion H; subst. reflexivity.
  - f_equal. apply IH. exact H.
Qed.

Lemma skipn_nil_length {A} (l : list A) : forall n, skipn n l = [] -> (length l <= n)%nat.
Proof.
  induction l as [|y t IH]; intros [|n] H; cbn in *; try discriminate; try lia.
  specialize (IH n H). lia.
Qed.

Lemma Forall2_app_one {A B} (R : A -> B -> Prop) l1 l2 x y :
  Forall2 R l1 l2 -> R x y -> Forall2 R (l1 ++ [x]) (l2 ++ [y]).
Proof. intros H1 H2. apply Forall2_app; [exact H1|constructor; [exact H2|constructor]]. Qed.

Lemma Forall2_length {A B} (R : A -> B -> Prop) l1 l2 : Forall2 R l1 l2 -> length l1 = length l2.
Proof. induction 1; cbn; congruence. Qed.

(* ------------------------------------------------------------------------------------ *)
(* Invariant of the start loop *)

Section Loop.
Variable toks : list Z.

Definition sinv (s : sstate) : Prop :=
  let n := length (started s) in
  (match spc s with
   | LEntry | LNext => skipn n toks = rest s
   | LHave tk | LSleep tk | LCreate tk => nth_error toks n = Some tk /\ skipn (S n) toks = rest s
   | LEnd EExhausted => length toks = n
   | LEnd (ECancelled c) => cancelled s = Some c
   | LEnd EFirstCreateFailed => n = 0%nat
   end)
  /\ (match lastNow s with Some ln => ln <= clock s | None => True end)
  /\ (match spc s with LCreate tk => tk <= clock s | _ => True end)
  /\ Forall2 (fun tk (ic : nat * Z) => tk <= snd ic) (firstn n toks) (rev (started s))
  /\ map fst (rev (started s)) = seq 0 n.

Lemma sinv_init t0 : sinv (sinit toks t0).
Proof. unfold sinv, sinit; cbn. repeat split; auto. Qed.

Ltac fin := unfold sinv; cbn [set_spc spc rest started lastNow clock cancelled]; split; [|split; [|split; [|split]]]; auto.

Lemma sinv_step a s s' : sinv s -> sstep a s = Some s' -> sinv s'.
Proof.
  intros (I1 & I2 & I3 & I4 & I5) H.
  destruct s as [p r st ln ck cn]; cbn [spc rest started lastNow clock cancelled] in *.
  destruct a as [d|c|fail pc]; cbn [sstep spc rest started lastNow clock cancelled] in H.
  - (* tick *)
    destruct (Z.leb_spec 0 d); [|discriminate]. inversion H; subst; clear H.
    unfold sinv; cbn [spc rest started lastNow clock cancelled].
    split; [|split; [|split; [|split]]]; auto.
    + destruct ln; [lia|auto].
    + destruct p; auto; lia.
  - (* cancel *)
    inversion H; subst; clear H.
    unfold sinv; cbn [spc rest started lastNow clock cancelled].
    split; [|split; [|split; [|split]]]; auto.
    destruct p as [| | | | |[]]; auto. rewrite I1. reflexivity.
  - assert (L4 : (length st <= length toks)%nat).
    { pose proof (Forall2_length _ _ _ I4) as L2. rewrite firstn_length, rev_length in L2. lia. }
    destruct p as [| |tk|tk|tk|e]; cbn [set_spc spc rest started lastNow clock cancelled] in H.
    + (* LEntry *)
      destruct cn as [c|]; inversion H; subst; clear H; fin.
    + (* LNext *)
      destruct r as [|tk r]; inversion H; subst; clear H; fin.
      * pose proof (skipn_nil_length _ _ I1) as L1. lia.
      * apply (skipn_cons_nth _ _ _ _ I1).
    + (* LHave *)
      destruct I1 as [I1a I1b].
      assert (F : sinv (mkSS (if tk <=? ck then LCreate tk else LSleep tk) r st (Some ck) ck cn)).
      { destruct (Z.leb_spec tk ck); fin; lia. }
      destruct ln as [l|].
      * destruct (Z.leb_spec tk l); [|inversion H; subst; clear H; exact F].
        destruct (l - tk <? max_overdue_ns); inversion H; subst; clear H; fin; lia.
      * inversion H; subst; clear H. exact F.
    + (* LSleep *)
      destruct I1 as [I1a I1b].
      assert (C : tk <= ck -> sinv (mkSS (LCreate tk) r st ln ck cn)) by (intros Hle; fin).
      destruct cn as [c|].
      * destruct (Z.leb_spec tk ck); cbn [andb] in H.
        -- destruct pc; cbn [negb] in H; inversion H; subst; clear H; [fin|apply C; assumption].
        -- inversion H; subst; clear H. fin.
      * destruct (Z.leb_spec tk ck); inversion H; subst; clear H. apply C; assumption.
    + (* LCreate *)
      destruct I1 as [I1a I1b].
      destruct ((length st =? 0)%nat && fail) eqn:E; inversion H; subst; clear H.
      * apply andb_prop in E. destruct E as [E _]. apply Nat.eqb_eq in E. fin.
      * unfold sinv; cbn [spc rest started lastNow clock cancelled length rev].
        split; [|split; [|split; [|split]]]; auto.
        -- rewrite (firstn_S_nth _ _ _ I1a). apply Forall2_app_one; [exact I4|cbn; exact I3].
        -- rewrite map_app, I5. cbn [map fst]. rewrite seq_S. reflexivity.
    + discriminate.
Qed.

Lemma srun_inv l : forall s s', sinv s -> srun l s = Some s' -> sinv s'.
Proof.
  induction l as [|a r IH]; cbn [srun]; intros s s' I H.
  - inversion H; subst; exact I.
  - destruct (sstep a s) as [s1|] eqn:E; [|discriminate].
    eapply IH; [eapply sinv_step; eauto|exact H].
Qed.

(* --- ids --- *)
Theorem ids_consecutive l t0 s :
  srun l (sinit toks t0) = Some s ->
  map fst (creations s) = seq 0 (length (creations s)) /\ NoDup (map fst (creations s)).
Proof.
  intros H. pose proof (srun_inv l _ _ (sinv_init t0) H) as (_ & _ & _ & _ & I5).
  unfold creations. rewrite rev_length. split; [exact I5|]. rewrite I5. apply seq_NoDup.
Qed.

(* --- never ahead of the profile --- *)
Lemma count_le_pointwise (t : Z) : forall (l1 : list Z) (l2 : list (nat * Z)),
  Forall2 (fun tk (ic : nat * Z) => tk <= snd ic) l1 l2 ->
  Nat.le (length (filter (fun ic : nat * Z => snd ic <=? t) l2)) (length (filter (fun tk => tk <=? t) l1)).
Proof.
  induction 1 as [|tk ic l1 l2 R _ IH]; [reflexivity|].
  cbn [filter]. destruct (Z.leb_spec (snd ic) t), (Z.leb_spec tk t); cbn [length]; lia.
Qed.

Lemma filter_firstn_le {A} (f : A -> bool) (l : list A) n :
  (length (filter f (firstn n l)) <= length (filter f l))%nat.
Proof.
  rewrite <- (firstn_skipn n l) at 2. rewrite filter_app, app_length. lia.
Qed.

Theorem not_ahead l t0 s :
  srun l (sinit toks t0) = Some s ->
  forall t, (started_by t s <= released_by t toks)%nat.
Proof.
  intros H t. pose proof (srun_inv l _ _ (sinv_init t0) H) as (_ & _ & _ & I4 & _).
  unfold started_by, released_by, creations.
  eapply Nat.le_trans; [apply (count_le_pointwise t _ _ I4)|apply filter_firstn_le].
Qed.

(* every instance is created at or after the instant of the token with its number *)
Theorem created_after_token l t0 s :
  srun l (sinit toks t0) = Some s ->
  forall id c, In (id, c) (started s) -> exists tk, nth_error toks id = Some tk /\ tk <= c.
Proof.
  intros H id c Hin. pose proof (srun_inv l _ _ (sinv_init t0) H) as (_ & _ & _ & I4 & I5).
  apply in_rev in Hin. remember (rev (started s)) as cs eqn:Ecs.
  assert (Hn : length cs = length (started s)) by (subst; apply rev_length).
  rewrite <- Hn in I4, I5. clear Hn Ecs.
  revert I4 I5 Hin. generalize (length cs) at 1 as n0. intros n0.
  (* general statement over any prefix relation *)
  assert (G : forall (ts : list Z) (k : nat),
             Forall2 (fun tk (ic : nat * Z) => tk <= snd ic) ts cs -> map fst cs = seq k (length cs) ->
             In (id, c) cs -> exists tk, nth_error ts (id - k) = Some tk /\ tk <= c /\ (k <= id)%nat).
  { clear. induction cs as [|[i0 c0] r IH]; intros ts k F M Hin; [destruct Hin|].
    inversion F as [|tk0 ? ts' ? R F']; subst. cbn in M. inversion M as [[M1 M2]]. subst i0.
    destruct Hin as [E|Hin].
    - inversion E; subst. exists tk0. rewrite Nat.sub_diag. cbn in *. repeat split; auto.
    - destruct (IH ts' (S k) F' M2 Hin) as (tk & N & L & K).
      exists tk. replace (id - k)%nat with (S (id - S k)) by lia. cbn. repeat split; auto. lia. }
  intros I4 I5 Hin.
  destruct (G (firstn n0 toks) 0%nat I4 I5 Hin) as (tk & N & L & _).
  rewrite Nat.sub_0_r in N. exists tk. split; [|exact L].
  assert (Hid : (id < length (firstn n0 toks))%nat) by (apply nth_error_Some; congruence).
  rewrite <- N. rewrite <- (firstn_skipn n0 toks) at 1. rewrite nth_error_app1 by assumption. reflexivity.
Qed.

(* --- the start loop never removes an instance --- *)
Theorem started_grows_step a s s' : sstep a s = Some s' -> exists new, started s' = new ++ started s.
Proof.
  intros H. destruct s as [p r st ln ck cn]. destruct a as [d|c|fail pc]; cbn in H.
  - destruct (0 <=? d); inversion H; subst. exists []; reflexivity.
  - inversion H; subst. exists []; reflexivity.
  - destruct p; cbn in H.
    + destruct cn; inversion H; subst; exists []; reflexivity.
    + destruct r; inversion H; subst; exists []; reflexivity.
    + destruct ln as [l|]; [destruct (tk <=? l); [destruct (l - tk <? max_overdue_ns)|]|]; inversion H; subst; exists []; reflexivity.
    + destruct cn; [destruct ((tk <=? ck) && negb pc)|destruct (tk <=? ck)]; inversion H; subst; exists []; reflexivity.
    + destruct ((length st =? 0)%nat && fail); inversion H; subst; [exists []; reflexivity|].
      exists [(length st, ck)]. reflexivity.
    + discriminate.
Qed.

Theorem started_grows l : forall s s', srun l s = Some s' -> exists new, started s' = new ++ started s.
Proof.
  induction l as [|a r IH]; cbn [srun]; intros s s' H.
  - inversion H; subst. exists []; reflexivity.
  - destruct (sstep a s) as [s1|] eqn:E; [|discriminate].
    destruct (started_grows_step _ _ _ E) as [n1 E1]. destruct (IH _ _ H) as [n2 E2].
    exists (n2 ++ n1). rewrite E2, E1, app_assoc. reflexivity.
Qed.

(* --- all tokens become instances unless a listed cause cut the start short --- *)
Theorem all_tokens l t0 s e :
  srun l (sinit toks t0) = Some s -> spc s = LEnd e ->
  (e = EExhausted -> length (started s) = length toks)
  /\ ((length (started s) < length toks)%nat ->
      (exists c, e = ECancelled c /\ cancelled s = Some c) \/ (e = EFirstCreateFailed /\ started s = [])).
Proof.
  intros H E. pose proof (srun_inv l _ _ (sinv_init t0) H) as (I1 & _). rewrite E in I1.
  split.
  - intros ->. symmetry. exact I1.
  - intros Hlt. destruct e as [|c|].
    + lia.
    + left. exists c. split; [reflexivity|exact I1].
    + right. split; [reflexivity|]. destruct (started s); [reflexivity|discriminate].
Qed.

(* the start context is cancelled only by one of the cancel sources, with its label *)
Lemma cancel_source_gen l : forall s s' c,
  srun l s = Some s' -> cancelled s' = Some c -> cancelled s = Some c \/ In (SCancel c) l.
Proof.
  induction l as [|a r IH]; cbn [srun]; intros s s' c H C.
  - inversion H; subst. left; exact C.
  - destruct (sstep a s) as [s1|] eqn:E; [|discriminate].
    destruct (IH _ _ _ H C) as [C1|Hin]; [|right; right; exact Hin].
    destruct s as [p rs st ln ck cn]. destruct a as [d|c0|fail pc]; cbn in E.
    + destruct (0 <=? d); inversion E; subst. left; exact C1.
    + inversion E; subst. cbn in C1. destruct cn; [left; exact C1|]. inversion C1; subst. right; left; reflexivity.
    + left. destruct p; cbn in E.
      * destruct cn; inversion E; subst; exact C1.
      * destruct rs; inversion E; subst; exact C1.
      * destruct ln as [l0|]; [destruct (tk <=? l0); [destruct (l0 - tk <? max_overdue_ns)|]|]; inversion E; subst; exact C1.
      * destruct cn; [destruct ((tk <=? ck) && negb pc)|destruct (tk <=? ck)]; inversion E; subst; exact C1.
      * destruct ((length st =? 0)%nat && fail); inversion E; subst; exact C1.
      * discriminate.
Qed.

Theorem cancel_source l t0 s c :
  srun l (sinit toks t0) = Some s -> cancelled s = Some c -> In (SCancel c) l.
Proof.
  intros H C. destruct (cancel_source_gen l _ _ c H C) as [D|I]; [discriminate|exact I].
Qed.

(* once the start context is cancelled the loop creates at most one more instance (the one whose
   token it had already drawn and whose time had come) *)
Definition in_flight (p : lpc) : nat :=
  match p with LNext | LHave _ | LSleep _ | LCreate _ => 1%nat | _ => 0%nat end.

Lemma cut_prompt_step a s s' bound :
  cancelled s <> None -> (length (started s) + in_flight (spc s) <= bound)%nat ->
  sstep a s = Some s' ->
  cancelled s' <> None /\ (length (started s') + in_flight (spc s') <= bound)%nat.
Proof.
  intros C B H. destruct s as [p r st ln ck cn]; cbn [spc rest started lastNow clock cancelled] in *.
  destruct a as [d|c|fail pc]; cbn [sstep spc rest started lastNow clock cancelled] in H.
  - destruct (0 <=? d); inversion H; subst; cbn; auto.
  - inversion H; subst; cbn. split; [destruct cn; [exact C|discriminate]|exact B].
  - destruct cn as [c|]; [|contradiction].
    destruct p; cbn [set_spc spc rest started lastNow clock cancelled] in H.
    + inversion H; subst; cbn in *. split; [discriminate|lia].
    + destruct r; inversion H; subst; cbn in *; (split; [discriminate|lia]).
    + destruct ln as [l0|]; [destruct (tk <=? l0); [destruct (l0 - tk <? max_overdue_ns)|]|]; inversion H; subst; cbn in *;
        try destruct (tk <=? ck); cbn; (split; [discriminate|lia]).
    + destruct ((tk <=? ck) && negb pc); inversion H; subst; cbn in *; (split; [discriminate|lia]).
    + destruct ((length st =? 0)%nat && fail); inversion H; subst; cbn in *; (split; [discriminate|lia]).
    + discriminate.
Qed.

Theorem cut_prompt l : forall s s',
  cancelled s <> None -> srun l s = Some s' -> (length (started s') <= length (started s) + 1)%nat.
Proof.
  intros s s' C H.
  assert (G : forall l s0 s1 bound, cancelled s0 <> None -> (length (started s0) + in_flight (spc s0) <= bound)%nat ->
              srun l s0 = Some s1 -> (length (started s1) + in_flight (spc s1) <= bound)%nat).
  { clear. induction l as [|a r IH]; cbn [srun]; intros s0 s1 bound C B H.
    - inversion H; subst; exact B.
    - destruct (sstep a s0) as [s2|] eqn:E; [|discriminate].
      destruct (cut_prompt_step _ _ _ _ C B E) as [C2 B2]. eapply IH; eauto. }
  assert (length (started s) + in_flight (spc s) <= length (started s) + 1)%nat by (destruct (spc s); cbn; lia).
  pose proof (G l s s' _ C H0 H). lia.
Qed.

End Loop.

(* ------------------------------------------------------------------------------------ *)
(* Running instances (Model/Instance.v): no action other than an instance's own step changes
   it - in particular not the start loop creating more instances or ending - and an instance
   leaves its loop only by finding its profile exhausted or the ammo gone. *)

Lemma nth_error_upd_neq {A} (l : list A) : forall i j x, i <> j -> nth_error (upd l i x) j = nth_error l j.
Proof.
  induction l as [|y t IH]; intros [|i] [|j] x H; cbn; try reflexivity; try congruence.
  apply IH. congruence.
Qed.

Lemma nth_error_upd_eq {A} (l : list A) : forall i x y, nth_error l i = Some y -> nth_error (upd l i x) i = Some x.
Proof.
  induction l as [|z t IH]; intros [|i] x y H; cbn in *; try discriminate; try reflexivity.
  eapply IH; eauto.
Qed.

Theorem instance_kept c a s s' :
  apply_action c a s = Some s' ->
  forall i x, nth_error (insts s) i = Some x ->
  exists x', nth_error (insts s') i = Some x'
    /\ (match a with AStep j _ => j <> i | _ => True end -> x' = x)
    /\ (pc x <> Done -> pc x' = Done -> left_of c (sh s) x = 0%nat \/ ammo (sh s) = 0%nat).
Proof.
  intros H i x Hi. destruct a as [j d| |]; cbn [apply_action] in H.
  - unfold step_inst in H. destruct (nth_error (insts s) j) as [y|] eqn:N; [|discriminate].
    destruct (local_step c j d (sh s) y) as [[sh' y']|] eqn:LS; [|discriminate].
    inversion H; subst s'; clear H. cbn [insts].
    destruct (Nat.eq_dec j i) as [->|Ne].
    + rewrite Hi in N. inversion N; subst y. exists y'. split; [eapply nth_error_upd_eq; eauto|].
      split; [intros F; contradiction|].
      intros ND D. unfold local_step in LS. destruct x as [p o]; cbn [pc] in *.
      destruct p; cbn in LS.
      * inversion LS; subst. cbn in D. destruct (Nat.eqb_spec (left_of c (sh s) {| pc := Check; own := o |}) 0); [left; assumption|discriminate].
      * destruct (ammo (sh s)) eqn:Am; [right; reflexivity|]. inversion LS; subst. discriminate.
      * destruct (per_inst c); [destruct o|destruct (stoks (sh s))]; inversion LS; subst; discriminate.
      * destruct (discard_overflow c && d); inversion LS; subst; discriminate.
      * inversion LS; subst; discriminate.
      * inversion LS; subst; discriminate.
      * inversion LS; subst; discriminate.
      * contradiction.
    + exists x. rewrite nth_error_upd_neq by assumption. repeat split; auto. intros A B; contradiction.
  - unfold spawn in H. destruct (start_open s); [|discriminate]. inversion H; subst; clear H. cbn [insts].
    exists x. split; [rewrite nth_error_app1; [exact Hi|apply nth_error_Some; congruence]|].
    split; auto. intros A B; contradiction.
  - inversion H; subst. exists x. repeat split; auto. intros A B; contradiction.
Qed.

(* ------------------------------------------------------------------------------------ *)
(* NewInstanceStep *)

Lemma to_nat_nonpos z : z <= 0 -> Z.to_nat z = 0%nat.
Proof. destruct z; cbn; try reflexivity. intros; lia. Qed.

Lemma istep_loop_spec dur step to (Hs : 1 <= step) : forall fuel i start,
  (Z.to_nat (to - i + 1) <= fuel)%nat ->
  exists ps, istep_loop fuel i to step dur = Some ps
    /\ flatten start ps =
       concat (map (fun j => repeat (start + Z.of_nat j * dur) (Z.to_nat step))
                   (seq 1 (Z.to_nat ((to - i) / step + 1)))).
Proof.
  induction fuel as [|f IH]; intros i start Hf.
  - cbn [istep_loop]. destruct (Z.leb_spec i to); [lia|].
    exists []. split; [reflexivity|].
    assert ((to - i) / step + 1 <= 0).
    { assert ((to - i) / step < 0) by (apply Z.div_lt_upper_bound; lia). lia. }
    rewrite (to_nat_nonpos ((to - i) / step + 1)) by assumption. reflexivity.
  - cbn [istep_loop]. destruct (Z.leb_spec i to).
    + destruct (IH (i + step) (start + dur)) as (ps & E & F); [lia|].
      rewrite E. eexists. split; [reflexivity|].
      cbn [flatten]. rewrite F.
      assert (D : (to - i) / step + 1 = ((to - (i + step)) / step + 1) + 1).
      { replace (to - (i + step)) with ((to - i) + (-1) * step) by lia.
        rewrite Z.div_add by lia. lia. }
      assert (NN : 0 <= (to - (i + step)) / step + 1).
      { assert (-1 <= (to - (i + step)) / step); [|lia].
        apply Z.div_le_lower_bound; lia. }
      rewrite D. rewrite (Z2Nat.inj_add ((to - (i + step)) / step + 1) 1) by lia. change (Z.to_nat 1) with 1%nat.
      rewrite Nat.add_comm. cbn [plus seq map concat].
      f_equal.
      * f_equal. lia.
      * rewrite <- (seq_shift _ 1), map_map. f_equal. apply map_ext. intros j. f_equal. lia.
    + exists []. split; [reflexivity|].
      assert ((to - i) / step + 1 <= 0).
      { assert ((to - i) / step < 0) by (apply Z.div_lt_upper_bound; lia). lia. }
      rewrite (to_nat_nonpos ((to - i) / step + 1)) by assumption. reflexivity.
Qed.

Theorem instance_step_tokens from to step dur :
  0 <= from -> 0 <= to -> 1 <= step ->
  istep_tokens from to step dur = Some (istep_spec from to step dur).
Proof.
  intros Hf Ht Hs. unfold istep_tokens, new_instance_step.
  destruct (istep_loop_spec dur step to Hs (S (Z.to_nat to)) (from + step) 0) as (ps & E & F); [lia|].
  rewrite E. cbn [flatten]. rewrite F. unfold istep_spec, istep_levels. f_equal. f_equal.
  assert (D : (to - (from + step)) / step + 1 = (to - from) / step).
  { replace (to - (from + step)) with ((to - from) + (-1) * step) by lia.
    rewrite Z.div_add by lia. lia. }
  rewrite D. reflexivity.
Qed.

(* the number of instances instance_step releases *)
Lemma concat_repeat_length {A} (f : nat -> A) k (l : list nat) :
  length (concat (map (fun j => repeat (f j) k) l)) = (length l * k)%nat.
Proof. induction l as [|x r IH]; cbn; [reflexivity|]. rewrite app_length, repeat_length, IH. lia. Qed.

Theorem instance_step_count from to step dur :
  length (istep_spec from to step dur) = (Z.to_nat from + istep_levels from to step * Z.to_nat step)%nat.
Proof.
  unfold istep_spec. rewrite app_length, repeat_length.
  rewrite (concat_repeat_length (fun j => Z.of_nat j * dur)). rewrite seq_length. reflexivity.
Qed.
