(* Lemmas about the tag layer between the scenario front-ends (property C16). *)
From Coq Require Import List NArith ZArith Bool QArith Lia.
From PV Require Import Model.ConfigDecode Model.TagTables Proofs.ConfigDecodeProofs.
Import ListNotations.
Local Open Scope N_scope.

Section Level.
Variable mv : hkind -> hval -> value.

Definition emitted (f : hfield) (v : hval) : bool := negb (h_omitempty f && h_empty v).

(* every key written by the marshaller is the yaml key of a field *)
Lemma marshal_fields_keys : forall (P : str -> bool) hfs vals,
  forallb (fun f => P (h_yaml f)) hfs = true ->
  forallb (fun kv => P (fst kv)) (marshal_fields mv hfs vals) = true.
Proof.
  induction hfs as [|f hfs IH]; intros vals H; [reflexivity|].
  destruct vals as [|v vals]; [reflexivity|]. cbn [marshal_fields].
  cbn in H. apply andb_true_iff in H. destruct H as [H1 H2].
  rewrite forallb_app. rewrite (IH vals H2), andb_true_r.
  destruct (h_omitempty f && h_empty v); [reflexivity|]. cbn. rewrite H1. reflexivity.
Qed.

Lemma marshal_fields_accepted : forall hfs ffs vals,
  level_ok hfs ffs = true ->
  forallb (fun kv => accepted_b (fst kv) (map f_key ffs)) (marshal_fields mv hfs vals) = true.
Proof.
  intros hfs ffs vals H. unfold level_ok in H. apply andb_true_iff in H. destruct H as [H _].
  apply (marshal_fields_keys (fun k => accepted_b k (map f_key ffs))). exact H.
Qed.

(* a key that matches no yaml key of the table is not written *)
Lemma marshal_fields_nokey : forall k hfs vals,
  existsb (fold_eqb k) (map h_yaml hfs) = false ->
  count_fold k (marshal_fields mv hfs vals) = O.
Proof.
  induction hfs as [|f hfs IH]; intros vals H; [reflexivity|].
  destruct vals as [|v vals]; [reflexivity|]. cbn [marshal_fields].
  cbn in H. apply orb_false_iff in H. destruct H as [H1 H2].
  destruct (h_omitempty f && h_empty v); cbn; [|rewrite H1]; apply IH; exact H2.
Qed.

Lemma count_fold_app : forall k a c, count_fold k (a ++ c) = (count_fold k a + count_fold k c)%nat.
Proof.
  induction a as [|[k1 x1] a IH]; intro c; [reflexivity|]. cbn. destruct (fold_eqb k k1); rewrite IH; reflexivity.
Qed.

Lemma existsb_fold_sym : forall k l, existsb (fold_eqb k) l = existsb (fun x => fold_eqb x k) l.
Proof. induction l as [|x l IH]; [reflexivity|]. cbn. rewrite fold_eqb_sym, IH. reflexivity. Qed.

(* Routing: a written field appears exactly once, under its yaml key, with its marshalled value;
   a field that is not written (nil with omitempty, or empty with omitempty) leaves no key. *)
Lemma marshal_fields_routes : forall hfs vals i f v,
  fold_nodup (map h_yaml hfs) = true ->
  nth_error hfs i = Some f -> nth_error vals i = Some v ->
  let kvs := marshal_fields mv hfs vals in
  if emitted f v
  then find_exact (h_yaml f) kvs = Some (h_yaml f, mv (h_kind f) v) /\ unique_key (h_yaml f) kvs = true
  else count_fold (h_yaml f) kvs = O.
Proof.
  induction hfs as [|f0 hfs IH]; intros vals i f v Hn Hf Hv; [destruct i; discriminate|].
  destruct vals as [|v0 vals]; [destruct i; discriminate|].
  cbn in Hn. apply andb_true_iff in Hn. destruct Hn as [Hn1 Hn2]. apply negb_true_iff in Hn1.
  cbn [marshal_fields]. destruct i as [|i].
  - cbn in Hf, Hv. inversion Hf; inversion Hv; subst. unfold emitted.
    pose proof (marshal_fields_nokey (h_yaml f) hfs vals Hn1) as Hz.
    destruct (h_omitempty f && h_empty v); cbn [negb app].
    + exact Hz.
    + cbn [find_exact]. rewrite str_eqb_refl. split; [reflexivity|].
      unfold unique_key. cbn [count_fold]. rewrite fold_eqb_refl, Hz. reflexivity.
  - cbn in Hf, Hv. specialize (IH vals i f v Hn2 Hf Hv). cbn zeta in IH.
    assert (Hne : fold_eqb (h_yaml f) (h_yaml f0) = false).
    { destruct (fold_eqb (h_yaml f) (h_yaml f0)) eqn:E; auto.
      rewrite existsb_fold_sym in Hn1.
      assert (Hin : In (h_yaml f) (map h_yaml hfs)) by (apply in_map; eapply nth_error_In; eauto).
      assert (existsb (fun x => fold_eqb x (h_yaml f0)) (map h_yaml hfs) = true).
      { apply existsb_exists. exists (h_yaml f). split; auto. }
      congruence. }
    assert (Hse : str_eqb (h_yaml f) (h_yaml f0) = false).
    { destruct (str_eqb (h_yaml f) (h_yaml f0)) eqn:E; auto. apply str_eqb_fold in E. congruence. }
    destruct (h_omitempty f0 && h_empty v0); cbn [app].
    + exact IH.
    + destruct (emitted f v).
      * destruct IH as [IH1 IH2]. cbn [find_exact]. rewrite Hse. split; [exact IH1|].
        unfold unique_key in *. cbn [count_fold]. rewrite Hne. exact IH2.
      * cbn [count_fold]. rewrite Hne. exact IH.
Qed.

End Level.

(* the config field whose key matches the yaml key receives exactly the marshalled value (C17's key lookup) *)
Lemma routed_to_config_field : forall mv hfs vals i f v ck,
  fold_nodup (map h_yaml hfs) = true ->
  nth_error hfs i = Some f -> nth_error vals i = Some v ->
  fold_eqb ck (h_yaml f) = true ->
  find_key ck (marshal_fields mv hfs vals) =
  if emitted f v then Some (h_yaml f, mv (h_kind f) v) else None.
Proof.
  intros mv hfs vals i f v ck Hn Hf Hv Hk.
  pose proof (marshal_fields_routes mv hfs vals i f v Hn Hf Hv) as H. cbn zeta in H.
  destruct (emitted f v).
  - destruct H as [H1 H2]. eapply find_key_unique; eauto.
  - destruct (count_fold_zero_exact _ ck _ H Hk) as [H1 H2]. unfold find_key. rewrite H1. exact H2.
Qed.

(* two written maps that hand every config field the same value tree are decoded to the same field values *)
Lemma dec_fields_ext : forall dec ffs cs kvs1 kvs2,
  (forall f, In f ffs -> option_map snd (find_key (f_key f) kvs1) = option_map snd (find_key (f_key f) kvs2)) ->
  fst (dec_fields dec ffs cs kvs1) = fst (dec_fields dec ffs cs kvs2).
Proof.
  induction ffs as [|f ffs IH]; intros cs kvs1 kvs2 H; [reflexivity|].
  cbn -[find_key].
  pose proof (H f (or_introl eq_refl)) as Hf.
  specialize (IH (tl cs) kvs1 kvs2 (fun g Hg => H g (or_intror Hg))).
  destruct (dec_fields dec ffs (tl cs) kvs1) as [r1 u1]; destruct (dec_fields dec ffs (tl cs) kvs2) as [r2 u2].
  cbn [fst] in IH. subst r2.
  destruct (find_key (f_key f) kvs1) as [[k1 x1]|]; destruct (find_key (f_key f) kvs2) as [[k2 x2]|];
    cbn in Hf; try discriminate; cbn [fst]; [inversion Hf; subst; reflexivity|reflexivity].
Qed.
