(* C02: the concurrent theorem for nested composites, instantiated with the schedules the configuration
   really describes: per-caller order needs no hypothesis about the leaves any more. *)
From Coq Require Import List ZArith QArith Bool Arith Lia.
From PV Require Import Model.Sched Model.SchedTree Model.SchedConc Model.SchedNested Model.SchedProfileTree.
From PV Require Import Proofs.SchedTreeSpec Proofs.SchedConcProofs Proofs.SchedConcCor Proofs.SchedNestedProofs Proofs.SchedNestedCor
  Proofs.SchedProfileTreeProofs.
Import ListNotations.
Local Open Scope Z_scope.

Theorem profile_conc_thread_mono : forall pc c fuel now0,
  pvalid pc -> compile pc = Some c -> (size_cfg c <= S fuel)%nat ->
  exists c0, build (S fuel) now0 c = Ok c0 /\ flatten c0 = flatten_cfg c /\
    (comp_len c0 <> 0%nat -> forall lo0 ths st, ninit_threads ths ->
       nireach fuel {| ni_g := {| ng_c := c0; ng_lo := lo0; ng_threads := ths |};
                       ni_a := a_init (flatten_cfg c); ni_log := [] |} st ->
       nconc_conclusion fuel c0 lo0 ths st /\
       exists p, forall i th, nth_error (ng_threads (ni_g st)) i = Some th ->
         nondecr p (next_results (n_hist th))).
Proof.
  intros pc c fuel now0 Hv Hc Hs.
  destruct (compile_ok pc Hv) as (c' & Hc' & Go & Gu). rewrite Hc in Hc'. inversion Hc'; subst c'.
  destruct (conc_nested_cfg c fuel now0 Hs) as (c0 & Hb & Hf & H).
  exists c0. split; [exact Hb|]. split; [exact Hf|].
  intros Hl lo0 ths st Hi Hr. pose proof (H Hl lo0 ths st Hi Hr) as Hcon.
  split; [exact Hcon|]. apply (nconc_thread_mono fuel c0 lo0 ths st Hcon); rewrite Hf; assumption.
Qed.
