(* Property C18, registration helpers (Model/RegisterHelpers.v): every helper of core/register hands
   the kind's plugin type, the name, the constructor and the default-config function(s) on to
   plugin.Register unchanged - for every name, constructor and list of default functions; hence a
   component registered through a helper is configured exactly as the registry theorems say for the
   shape the user registered (default included). *)
From Coq Require Import List String Arith Bool.
From PV Require Import Model.Registry Model.RegisterHelpers Proofs.RegistryFacts Proofs.RegistryProofs.
Import ListNotations.
Local Open Scope string_scope.

Lemma all_defs_map l : all_defs (map VDef l) = Some l.
Proof. induction l as [|x l IH]; cbn; auto. now rewrite IH. Qed.

Lemma kind_helper_forwards name iface n c defs :
  iface <> "" ->
  register_via (kind_helper name iface) register_ptr_helper n c defs = Some (mkReq iface n c defs).
Proof.
  intros Hne. unfold register_via, kind_helper, register_ptr_helper. cbn [rh_callee rh_name].
  rewrite String.eqb_refl. cbn [andb String.eqb Ascii.eqb Bool.eqb].
  unfold apply_kind_helper. cbn [rh_args eval_hargs eval_harg rh_iface rh_variadic rh_nparams nth_error Nat.eqb andb].
  apply String.eqb_neq in Hne. rewrite Hne. cbn [app]. rewrite app_nil_r, all_defs_map.
  unfold apply_ptr_helper. cbn [rq_type rq_name rq_ctor rq_defs rh_args eval_hargs eval_harg rh_variadic rh_nparams nth_error Nat.eqb andb app].
  now rewrite app_nil_r, all_defs_map.
Qed.

Theorem helpers_forward hk n c defs :
  In hk kind_helpers ->
  register_via hk register_ptr_helper n c defs = Some (mkReq (rh_iface hk) n c defs).
Proof.
  intros Hin. cbn in Hin.
  repeat (destruct Hin as [<-|Hin]; [apply kind_helper_forwards; discriminate|]). destruct Hin.
Qed.

Theorem shape_via_helper hk sh : In hk kind_helpers -> shape_via hk register_ptr_helper sh = Some sh.
Proof.
  intros Hin. unfold shape_via. rewrite (helpers_forward hk _ _ _ Hin). cbn [rq_defs].
  destruct sh as [r c ce pe df rt nm]. cbn [sh_def sh_ret sh_cfg sh_cerr sh_perr sh_rt sh_named].
  destruct df; reflexivity.
Qed.

(* a component registered through a helper of core/register, with its default-config function:
   Registry.New builds it from THAT default overlaid by the fill *)
Theorem helper_new_config hk sh sh' hf o s s1 ev p :
  In hk kind_helpers -> shape_via hk register_ptr_helper sh = Some sh' ->
  reg_new sh' hf o s = (s1, ev, OOk p) -> p_arg p = expected_arg sh hf o s.
Proof.
  intros Hin Hv H. rewrite (shape_via_helper hk sh Hin) in Hv. injection Hv as <-.
  eapply new_product_arg; eauto.
Qed.

(* ... and every product of a factory made from it *)
Theorem helper_factory_config hk sh sh' we named hf o s0 s1 cev f s s2 ev p :
  In hk kind_helpers -> shape_via hk register_ptr_helper sh = Some sh' ->
  sh_ret sh = RPlugin ->
  reg_new_factory sh' we named hf o s0 = (s1, cev, CrOk f) ->
  call_factory sh' we hf o s f = (s2, ev, OOk p) ->
  p_arg p = expected_arg sh hf o s.
Proof.
  intros Hin Hv Hr H1 H2. rewrite (shape_via_helper hk sh Hin) in Hv. injection Hv as <-.
  eapply plugin_factory_product_arg; eauto.
Qed.

Theorem helpers_checked : forallb (helper_forwards register_ptr_helper) kind_helpers = true.
Proof. vm_compute. reflexivity. Qed.
