(* Lemmas about the concrete example-service oracles of Model/GrpcExample.v (property C20):
   the Go float64 round trip of JSON numbers is the identity exactly on the representable
   integers, and the replay functions of the correspondence run coincide with the
   specification under that guard. *)
From Coq Require Import List NArith ZArith Bool Lia.
From PV Require Import Model.GrpcCall Model.GrpcExample Proofs.GrpcCallProofs.
Import ListNotations.

Section Reenc.
  Variable sd : Z -> option Z.

  Lemma fit_value_reencode f v :
    val_small v = true -> fit_value f (reencode_val sd v) = fit_value f v.
  Proof.
    destruct v as [s|z|h|b| | |]; cbn [val_small reencode_val]; intros H; try reflexivity.
    - unfold reencode_int. rewrite H. reflexivity.
    - destruct (Z.even h) eqn:He; [|reflexivity].
      unfold reencode_int. rewrite H. cbn [fit_value]. rewrite He. reflexivity.
  Qed.

  Lemma assign_reencode d fs :
    fields_small fs = true -> forall acc, assign d (reencode_c sd fs) acc = assign d fs acc.
  Proof.
    unfold fields_small, reencode_c. induction fs as [|[k v] r IH]; intros H acc; cbn [map assign fst snd]; [reflexivity|].
    cbn [forallb snd] in H. apply andb_prop in H. destruct H as [Hv Hr].
    destruct (find_field d k) as [f|]; [|reflexivity].
    rewrite (fit_value_reencode f v Hv).
    destruct (fit_value f v) as [[m|]|]; try reflexivity; apply IH; exact Hr.
  Qed.

  Lemma interp_reencode d fs : fields_small fs = true -> interp d (reencode_c sd fs) = interp d fs.
  Proof. intros H. unfold interp. rewrite (assign_reencode d fs H). reflexivity. Qed.
End Reenc.

(* the nearest float64 of 2^53+1 is 2^53: the two integers are the same number after decoding *)
Lemma f64_round_collision : f64_round (two53 + 1) = two53 /\ f64_round two53 = two53.
Proof. split; vm_compute; reflexivity. Qed.

(* Whatever decimal Go prints for a float64 — it can only depend on the float64 — some 64-bit
   integer written in an ammo payload does not reach the codec as written. *)
Lemma reencode_int_lossy (sd : Z -> option Z) :
  (forall z, sd z = sd (f64_round z)) ->
  exists z, in_int64 z = true /\ reencode_int sd z <> PInt z.
Proof.
  intros Hsd. destruct f64_round_collision as [H1 H2].
  assert (Hs : sd (two53 + 1)%Z = sd two53) by (rewrite (Hsd (two53 + 1)%Z), H1; reflexivity).
  destruct (sd two53) as [r|] eqn:E.
  - destruct (Z.eq_dec r two53) as [->|Hne].
    + exists (two53 + 1)%Z. split; [vm_compute; reflexivity|].
      unfold reencode_int. replace (Z.abs (two53 + 1) <? two53)%Z with false by (vm_compute; reflexivity).
      rewrite Hs. intros H; injection H as H. vm_compute in H. discriminate.
    + exists two53. split; [vm_compute; reflexivity|].
      unfold reencode_int. replace (Z.abs two53 <? two53)%Z with false by (vm_compute; reflexivity).
      rewrite E. intros H; injection H as H. contradiction.
  - exists two53. split; [vm_compute; reflexivity|].
    unfold reencode_int. replace (Z.abs two53 <? two53)%Z with false by (vm_compute; reflexivity).
    rewrite E. discriminate.
Qed.

Section JsonReplay.
  Variable sd : Z -> option Z.
  Variable code_of_status : N -> N.
  Variable respond : sent msg_c -> N.

  Lemma spec_result_reencode t timeout (e : entry fields) :
    fields_small (e_payload fields e) = true ->
    spec_result desc_c msg_c fields (reencode_c sd) interp code_of_status respond t timeout e =
    spec_result desc_c msg_c fields (fun p => p) interp code_of_status respond t timeout e.
  Proof.
    intros H. unfold spec_result. destruct (find_method t (e_call fields e)) as [d|]; [|reflexivity].
    rewrite (interp_reencode sd d _ H). reflexivity.
  Qed.

  Lemma round_robin_snd n j es : map snd (round_robin n j es) = es.
  Proof. revert j; induction es as [|e r IH]; intros j; cbn [round_robin map snd]; [reflexivity|]. rewrite IH. reflexivity. Qed.

  Lemma round_robin_lt n j es : n <> 0 -> Forall (fun ie : nat * entry fields => fst ie < n) (round_robin n j es).
  Proof.
    intros Hn. revert j; induction es as [|e r IH]; intros j; cbn [round_robin]; constructor.
    - cbn [fst]. apply Nat.mod_upper_bound. exact Hn.
    - apply IH.
  Qed.

  (* the code-shaped replay (n guns, round robin, Go number round trip) is the specification
     (every entry on its own, payload interpreted exactly) whenever every integer literal is
     exactly representable *)
  Lemma json_model_is_spec n timeout es :
    n <> 0 -> Forall (fun e => fields_small (e_payload fields e) = true) es ->
    json_model sd code_of_status respond n timeout es = json_spec code_of_status respond timeout es.
  Proof.
    intros Hn Hsmall. unfold json_model, json_spec.
    rewrite (run_instances_spec desc_c msg_c fields (reencode_c sd) interp code_of_status respond example_table timeout).
    - cbn [snd]. rewrite <- (round_robin_snd n 0 es) at 2. rewrite map_map.
      apply map_ext_in. intros [i e] Hin. cbn [snd]. apply spec_result_reencode.
      rewrite Forall_forall in Hsmall. apply Hsmall.
      rewrite <- (round_robin_snd n 0 es). apply in_map_iff. exists (i, e). split; [reflexivity|exact Hin].
    - unfold mk_guns. apply Forall_forall. intros g Hg. apply repeat_spec in Hg. exact Hg.
    - unfold mk_guns. rewrite repeat_length. apply round_robin_lt. exact Hn.
  Qed.
End JsonReplay.
