(* Lemmas about the concrete example-service oracles of Model/GrpcExample.v (property C20):
   the Go float64 round trip of JSON numbers is the identity exactly on the representable
   integers, and the replay functions of the correspondence run coincide with the
   specification under that guard. *)
From Coq Require Import List NArith ZArith Bool Lia.
From PV Require Import Model.GrpcCall Model.GrpcExample Proofs.GrpcCallProofs.
Import ListNotations.

Section Reenc.
  Variable sd : Z -> option Z.

  Lemma fit_value_reencode f v :
    val_small v = true -> fit_value f (reencode_val sd v) = fit_value f v.
  Proof.
    destruct v as [s|z|h|b| | |]; cbn [val_small reencode_val]; intros H; try reflexivity.
    - unfold reencode_int. rewrite H. reflexivity.
    - destruct (Z.even h) eqn:He; [|reflexivity].
      unfold reencode_int. rewrite H. cbn [fit_value]. rewrite He. reflexivity.
  Qed.

  Lemma assign_reencode d fs :
    fields_small fs = true -> forall acc, assign d (reencode_c sd fs) acc = assign d fs acc.
  Proof.
    unfold fields_small, reencode_c. induction fs as [|[k v] r IH]; intros H acc; cbn [map assign fst snd]; [reflexivity|].
    cbn [forallb snd] in H. apply andb_prop in H. destruct H as [Hv Hr].
    destruct (find_field d k) as [f|]; [|reflexivity].
    rewrite (fit_value_reencode f v Hv).
    destruct (fit_value f v) as [[m|]|]; try reflexivity; apply IH; exact Hr.
  Qed.

  Lemma interp_reencode d fs : fields_small fs = true -> interp d (reencode_c sd fs) = interp d fs.
  Proof. intros H. unfold interp. rewrite (assign_reencode d fs H). reflexivity. Qed.
End Reenc.

(* the nearest float64 of 2^53+1 is 2^53: the two integers are the same number after decoding *)
Lemma f64_round_collision : f64_round (two53 + 1) = two53 /\ f64_round two53 = two53.
Proof. split; vm_compute; reflexivity. Qed.

(* Whatever decimal Go prints for a float64 — it can only depend on the float64 — some 64-bit
   integer written in an ammo payload does not reach the codec as written. *)
Lemma reencode_int_lossy (sd : Z -> option Z) :
  (forall z, sd z = sd (f64_round z)) ->
  exists z, in_int64 z = true /\ reencode_int sd z <> PInt z.
Proof.
  intros Hsd. destruct f64_round_collision as [H1 H2].
  assert (Hs : sd (two53 + 1)%Z = sd two53) by (rewrite (Hsd (two53 + 1)%Z), H1; reflexivity).
  destruct (sd two53) as [r|] eqn:E.
  - destruct (Z.eq_dec r two53) as [->|Hne].
    + exists (two53 + 1)%Z. split; [vm_compute; reflexivity|].
      unfold reencode_int. replace (Z.abs (two53 + 1) <? two53)%Z with false by (vm_compute; reflexivity).
      rewrite Hs. intros H; injection H as H. vm_compute in H. discriminate.
    + exists two53. split; [vm_compute; reflexivity|].
      unfold reencode_int. replace (Z.abs two53 <? two53)%Z with false by (vm_compute; reflexivity).
      rewrite E. intros H; injection H as H. contradiction.
  - exists two53. split; [vm_compute; reflexivity|].
    unfold reencode_int. replace (Z.abs two53 <? two53)%Z with false by (vm_compute; reflexivity).
    rewrite E. discriminate.
Qed.

Section JsonReplay.
  Variable sd : Z -> option Z.
  Variable code_of_status : N -> N.
  Variable respond : sent msg_c -> N.

  Lemma spec_result_reencode t timeout (e : entry fields) :
    fields_small (e_payload fields e) = true ->
    spec_result desc_c msg_c fields (reencode_c sd) interp code_of_status respond t timeout e =
    spec_result desc_c msg_c fields (fun p => p) interp code_of_status respond t timeout e.
  Proof.
    intros H. unfold spec_result. destruct (find_method t (e_call fields e)) as [d|]; [|reflexivity].
    rewrite (interp_reencode sd d _ H). reflexivity.
  Qed.

  Lemma round_robin_snd n j es : map snd (round_robin n j es) = es.
  Proof. revert j; induction es as [|e r IH]; intros j; cbn [round_robin map snd]; [reflexivity|]. rewrite IH. reflexivity. Qed.

  Lemma round_robin_lt n j es : n <> 0 -> Forall (fun ie : nat * entry fields => fst ie < n) (round_robin n j es).
  Proof.
    intros Hn. revert j; induction es as [|e r IH]; intros j; cbn [round_robin]; constructor.
    - cbn [fst]. apply Nat.mod_upper_bound. exact Hn.
    - apply IH.
  Qed.

  (* the code-shaped replay (n guns, round robin, Go number round trip) is the specification
     (every entry on its own, payload interpreted exactly) whenever every integer literal is
     exactly representable *)
  Lemma json_model_is_spec n timeout es :
    n <> 0 -> Forall (fun e => fields_small (e_payload fields e) = true) es ->
    json_model sd code_of_status respond n timeout es = json_spec code_of_status respond timeout es.
  Proof.
    intros Hn Hsmall. unfold json_model, json_spec.
    rewrite (run_instances_spec desc_c msg_c fields (reencode_c sd) interp code_of_status respond example_table timeout).
    - cbn [snd]. rewrite <- (round_robin_snd n 0 es) at 2. rewrite map_map.
      apply map_ext_in. intros [i e] Hin. cbn [snd]. apply spec_result_reencode.
      rewrite Forall_forall in Hsmall. apply Hsmall.
      rewrite <- (round_robin_snd n 0 es). apply in_map_iff. exists (i, e). split; [reflexivity|exact Hin].
    - unfold mk_guns. apply Forall_forall. intros g Hg. apply repeat_spec in Hg. exact Hg.
    - unfold mk_guns. rewrite repeat_length. apply round_robin_lt. exact Hn.
  Qed.
End JsonReplay.

(* ---------- the scenario replay of the correspondence run equals its specification ---------- *)

Section ScenReplay.
  Variable code_of_status : N -> N.
  Variable respond : sent msg_c -> N.

  Definition all_steps (defs : list cdef) : list step :=
    map (fun id => step_of (fst id) (snd id)) (combine (seq 0 (length defs)) defs).

  Lemma nth_error_combine_seq {A} (l : list A) i d k :
    nth_error l i = Some d -> nth_error (combine (seq k (length l)) l) i = Some (k + i, d).
  Proof.
    revert i k; induction l as [|x r IH]; intros [|i] k H; cbn in *; try discriminate.
    - injection H as ->. rewrite Nat.add_0_r. reflexivity.
    - rewrite (IH i (S k) H). f_equal. f_equal. lia.
  Qed.

  Lemma step_in_all defs i d : nth_error defs i = Some d -> In (step_of i d) (all_steps defs).
  Proof.
    intros H. unfold all_steps. apply in_map_iff. exists (i, d). split; [reflexivity|].
    apply (nth_error_In _ i). rewrite (nth_error_combine_seq defs i d 0 H). reflexivity.
  Qed.

  Lemma steps_of_in defs idx : Forall (fun sv : step * bool => In (fst sv) (all_steps defs)) (steps_of defs idx).
  Proof.
    induction idx as [|i r IH]; cbn [steps_of]; [constructor|].
    destruct (nth_error defs i) as [d|] eqn:E; [|exact IH].
    constructor; [cbn [fst]; apply step_in_all; exact E|exact IH].
  Qed.

  Lemma with_vars_in defs users : forall sts ctr cur,
    Forall (fun sv : step * bool => In (fst sv) (all_steps defs)) sts ->
    Forall (fun sv : step * vars_c => In (fst sv) (all_steps defs)) (with_vars users ctr cur sts).
  Proof.
    induction sts as [|[st pp] r IH]; intros ctr cur H; cbn [with_vars]; [constructor|].
    inversion H as [|x l Hx Hr]; subst. cbn [fst] in Hx.
    destruct pp; constructor; try exact Hx; apply IH; exact Hr.
  Qed.

  (* well-formed definitions: distinct call names (the provider's registry is keyed by name) and
     every metadata block is a map (distinct keys) *)
  Definition defs_wf (defs : list cdef) : Prop :=
    NoDup (map cd_name defs) /\ Forall (fun d => NoDup (map fst (cd_meta d))) defs.

  Lemma in_all_steps defs s : In s (all_steps defs) ->
    exists i d, nth_error defs i = Some d /\ s = step_of i d.
  Proof.
    unfold all_steps. intros H. apply in_map_iff in H. destruct H as [[i d] [E Hin]]. cbn in E. subst s.
    apply In_nth_error in Hin. destruct Hin as [k Hk].
    assert (Hlen : k < length defs).
    { pose proof (nth_error_Some (combine (seq 0 (length defs)) defs) k) as X.
      rewrite Hk in X. rewrite combine_length, seq_length, Nat.min_id in X. apply X. discriminate. }
    destruct (nth_error defs k) as [d'|] eqn:Ed; [|apply nth_error_None in Ed; lia].
    rewrite (nth_error_combine_seq defs k d' 0 Ed) in Hk. injection Hk as <- <-. exists k, d'. auto.
  Qed.

  Lemma NoDup_map_nth_inj {A B} (f : A -> B) (l : list A) i j a b :
    NoDup (map f l) -> nth_error l i = Some a -> nth_error l j = Some b -> f a = f b -> i = j.
  Proof.
    intros Hnd Hi Hj E.
    apply (proj1 (NoDup_nth_error (map f l)) Hnd i j).
    - rewrite map_length. apply nth_error_Some. rewrite Hi. discriminate.
    - rewrite !nth_error_map, Hi, Hj. cbn. f_equal. exact E.
  Qed.

  Lemma NoDup_fst_meta_functional (md : gmeta) : NoDup (map fst md) -> meta_functional md.
  Proof.
    induction md as [|[k t] r IH]; cbn [map fst]; intros Hnd k' t1 t2 H1 H2; [contradiction|].
    inversion Hnd as [|x l Hn Hr]; subst.
    destruct H1 as [E1|H1], H2 as [E2|H2].
    - congruence.
    - injection E1 as -> ->. exfalso. apply Hn. change k' with (fst (k', t2)). apply in_map. exact H2.
    - injection E2 as -> ->. exfalso. apply Hn. change k' with (fst (k', t1)). apply in_map. exact H1.
    - eapply IH; eauto.
  Qed.

  Lemma steps_wf_of_defs defs : defs_wf defs -> steps_wf (heap_of defs) (all_steps defs).
  Proof.
    intros [Hn Hm]. split.
    - intros s1 s2 H1 H2 E.
      destruct (in_all_steps defs s1 H1) as [i [d [Hi ->]]].
      destruct (in_all_steps defs s2 H2) as [j [d' [Hj ->]]].
      cbn [step_of st_name] in E.
      assert (i = j) by (eapply (NoDup_map_nth_inj cd_name defs); eauto). subst j.
      rewrite Hi in Hj. injection Hj as <-. reflexivity.
    - intros s Hs. destruct (in_all_steps defs s Hs) as [i [d [Hi ->]]].
      cbn [step_of st_cell]. unfold heap_of, heap_get.
      rewrite (nth_error_nth (map cd_meta defs) i [] (x := cd_meta d)); [|rewrite nth_error_map, Hi; reflexivity].
      apply NoDup_fst_meta_functional. rewrite Forall_forall in Hm. apply Hm. eapply nth_error_In; eauto.
  Qed.

  Notation gun_ok_c h defs timeout := (gun_ok desc_c tmpl_c parse_t_c h (all_steps defs) example_table timeout).

  (* The code-shaped replay (guns with template caches over the shared heap, any shot order) is the
     specification (every shot rendered from the configured definitions), and the heap it returns
     is the configured one. *)
  Lemma scen_model_is_spec users defs scens timeout :
    defs_wf defs ->
    forall order guns ctr j,
    Forall (gun_ok_c (heap_of defs) defs timeout) guns ->
    Forall (fun i => i < length guns) order ->
    scen_model users defs scens (heap_of defs) guns ctr j order =
      (heap_of defs, scen_spec users defs scens timeout (heap_of defs) ctr j order).
  Proof.
    intros Hwf. pose proof (steps_wf_of_defs defs Hwf) as Hs.
    induction order as [|inst rest IH]; intros guns ctr j Hg Ho; cbn [scen_model scen_spec]; [reflexivity|].
    inversion Ho as [|x l Hi Hrest]; subst.
    destruct (nth_error scens (Nat.modulo j (length scens))) as [[sname idx]|] eqn:Es.
    - destruct (nth_error guns inst) as [g|] eqn:Eg; [|apply nth_error_None in Eg; lia].
      assert (Hgk : gun_ok_c (heap_of defs) defs timeout g) by (rewrite Forall_forall in Hg; apply Hg; eapply nth_error_In; eauto).
      destruct (shoot_scenario_ok desc_c msg_c tmpl_c vars_c parse_t_c exec_t_c fits_text_c
                  (heap_of defs) (all_steps defs) example_table timeout sname
                  (with_vars users ctr None (steps_of defs idx)) Hs
                  (with_vars_in defs users _ ctr None (steps_of_in defs idx)) g Hgk) as [g' [E Hg']].
      rewrite E. unfold spec_steps.
      rewrite (IH (firstn inst guns ++ g' :: skipn (S inst) guns)).
      + reflexivity.
      + apply Forall_replace; assumption.
      + rewrite replace_length; [exact Hrest|exact Hi].
    - rewrite (IH guns ctr (S j) Hg Hrest). reflexivity.
  Qed.

  Lemma sguns_ok defs timeout n : Forall (gun_ok_c (heap_of defs) defs timeout) (sguns_of n timeout).
  Proof.
    unfold sguns_of. apply Forall_forall. intros g Hg. apply repeat_spec in Hg. subst g.
    repeat split. apply cache_ok_nil.
  Qed.
End ScenReplay.
