(* Proofs about the sample reporting of the guns (property C10, second half). *)
From Coq Require Import List NArith Bool Lia.
From PV Require Import Lib.Table Model.Sample Model.GrpcStatus Model.Shoot Proofs.SampleProofs.
Import ListNotations.
Local Open Scope N_scope.

(* ---------- BaseGun.Shoot ---------- *)

(* every path through Shoot that gets past the Connect hook reports exactly one sample, and
   it is the one the specification describes *)
Lemma base_shoot_spec cfg h invalid id tag path x :
  h <> HFail -> base_shoot cfg h invalid id tag path x = [base_spec cfg invalid id tag path x].
Proof.
  intros Hh. unfold base_shoot, base_spec.
  destruct h; [| |contradiction];
    (destruct invalid;
     [destruct tag; reflexivity
     |destruct x as [t e|st [|t e]]; reflexivity]).
Qed.

Lemma base_shoot_one cfg h invalid id tag path x :
  h <> HFail -> length (base_shoot cfg h invalid id tag path x) = 1%nat.
Proof. intros Hh. rewrite base_shoot_spec by exact Hh. reflexivity. Qed.

(* the Connect hook failed: Shoot itself reports nothing (the hook's contract is to report
   its failure itself) *)
Lemma base_shoot_hook_failed cfg invalid id tag path x :
  base_shoot cfg HFail invalid id tag path x = [].
Proof. reflexivity. Qed.

Lemma base_spec_proto_status cfg id tag path st b :
  sm_proto (base_spec cfg false id tag path (XResp st b)) = st.
Proof. reflexivity. Qed.

Lemma base_spec_proto_no_response cfg id tag path t e :
  sm_proto (base_spec cfg false id tag path (XErr t e)) = 0.
Proof. reflexivity. Qed.

Lemma base_spec_net_ok cfg id tag path st :
  sm_net (base_spec cfg false id tag path (XResp st BodyOk)) = 0.
Proof. reflexivity. Qed.

Definition exchange_failed (x : exchange) : option (bool * nerr) :=
  match x with
  | XErr t e => Some (t, e)
  | XResp _ (BodyErr t e) => Some (t, e)
  | XResp _ BodyOk => None
  end.

Lemma base_spec_net_failed cfg id tag path x t e :
  exchange_failed x = Some (t, e) ->
  sm_net (base_spec cfg false id tag path x) = get_errno t e /\
  (errnos_nonzero e -> sm_net (base_spec cfg false id tag path x) <> 0).
Proof.
  destruct x as [t' e'|st [|t' e']]; cbn [exchange_failed]; intros H; inversion H; subst;
    (split; [reflexivity|intros Hz; cbn [base_spec sm_net]; apply get_errno_nonzero; exact Hz]).
Qed.

Lemma base_spec_tags_id cfg id tag path x :
  sm_tags (base_spec cfg false id tag path x) = shoot_tags cfg tag path /\
  sm_id (base_spec cfg false id tag path x) = id /\
  sm_tags (base_spec cfg false id tag path x) <> [].
Proof. repeat split; try reflexivity. cbn [base_spec sm_tags]. apply shoot_tags_nonempty. Qed.

Lemma base_spec_invalid cfg id tag path x :
  base_spec cfg true id tag path x =
  mkSample (match tag with [] => empty_tag | _ => tag ++ 124 :: empty_tag end) 0 0 id.
Proof. reflexivity. Qed.

(* ---------- executed steps ---------- *)

Section Executed.
  Context {A : Type} (stops : A -> bool).

  Lemma executed_prefix steps : exists rest, steps = executed stops steps ++ rest.
  Proof.
    induction steps as [|s r IH]; cbn [executed]; [exists []; reflexivity|].
    destruct (stops s); [exists r; reflexivity|].
    destruct IH as [rest H]. exists rest. cbn [app]. f_equal. exact H.
  Qed.

  (* no step stops: every step is executed *)
  Lemma executed_all steps :
    forallb (fun s => negb (stops s)) steps = true -> executed stops steps = steps.
  Proof.
    induction steps as [|s r IH]; cbn [executed forallb]; [reflexivity|].
    intros H. apply andb_prop in H. destruct H as [Hs Hr].
    apply negb_true_iff in Hs. rewrite Hs. f_equal. apply IH, Hr.
  Qed.

  (* the first stopping step is executed and is the last one *)
  Lemma executed_first_stop pre s post :
    forallb (fun s => negb (stops s)) pre = true -> stops s = true ->
    executed stops (pre ++ s :: post) = pre ++ [s].
  Proof.
    induction pre as [|p r IH]; cbn [app executed forallb]; intros Hp Hs.
    - rewrite Hs. reflexivity.
    - apply andb_prop in Hp. destruct Hp as [Hp Hr]. apply negb_true_iff in Hp. rewrite Hp.
      f_equal. apply IH; assumption.
  Qed.

  Lemma executed_length_le steps : (length (executed stops steps) <= length steps)%nat.
  Proof.
    induction steps as [|s r IH]; cbn [executed length]; [lia|].
    destruct (stops s); cbn [length]; lia.
  Qed.
End Executed.

(* ---------- scenario guns ---------- *)

Lemma hscen_fail_net_999 : hscen_fail_net = proto_code_error.
Proof. reflexivity. Qed.

Lemma add_tag_step name nm t : add_tag (step_tag name nm) t = step_tag name nm ++ 124 :: t.
Proof. unfold step_tag. destruct name; reflexivity. Qed.

Lemma hscen_shoot_spec name steps : hscen_shoot name steps = hscen_spec name steps.
Proof.
  unfold hscen_spec. induction steps as [|[nm [st|]] r IH]; cbn [hscen_shoot executed map snd hstep_stops].
  - reflexivity.
  - rewrite IH. reflexivity.
  - unfold hstep_sample. cbn [snd fst]. rewrite add_tag_step, hscen_fail_net_999. reflexivity.
Qed.

Lemma gscen_shoot_spec name steps : gscen_shoot name steps = gscen_spec name steps.
Proof.
  unfold gscen_spec. induction steps as [|[tg s] r IH]; cbn [gscen_shoot executed map snd]; [reflexivity|].
  destruct (gstep_stops s); [reflexivity|]. rewrite IH. reflexivity.
Qed.

(* one sample per executed step *)
Lemma hscen_count name steps :
  length (hscen_shoot name steps) = length (executed (fun x => hstep_stops (snd x)) steps).
Proof. rewrite hscen_shoot_spec. unfold hscen_spec. apply map_length. Qed.

Lemma gscen_count name steps :
  length (gscen_shoot name steps) = length (executed (fun x => gstep_stops (snd x)) steps).
Proof. rewrite gscen_shoot_spec. unfold gscen_spec. apply map_length. Qed.

(* every scenario sample is tagged scenario-name "." step-name (HTTP) / call tag (gRPC) *)
Lemma hscen_tags name steps s :
  In s (hscen_shoot name steps) ->
  exists nm st, In (nm, st) steps /\
    sm_tags s = match st with HStepOk _ => step_tag name nm | HStepFail => step_tag name nm ++ 124 :: empty_tag end.
Proof.
  rewrite hscen_shoot_spec. unfold hscen_spec. intros H. apply in_map_iff in H.
  destruct H as [[nm st] [Hs Hin]]. exists nm, st. split.
  - destruct (executed_prefix (fun x => hstep_stops (snd x)) steps) as [rest E].
    rewrite E. apply in_or_app. left. exact Hin.
  - subst s. unfold hstep_sample. cbn [snd fst]. destruct st; reflexivity.
Qed.

Lemma gscen_tags name steps s :
  In s (gscen_shoot name steps) ->
  exists tg st, In (tg, st) steps /\ sm_tags s = step_tag name tg /\ sm_proto s = gstep_code st /\ sm_net s = 0.
Proof.
  rewrite gscen_shoot_spec. unfold gscen_spec. intros H. apply in_map_iff in H.
  destruct H as [[tg st] [Hs Hin]]. exists tg, st. split.
  - destruct (executed_prefix (fun x => gstep_stops (snd x)) steps) as [rest E].
    rewrite E. apply in_or_app. left. exact Hin.
  - subst s. repeat split.
Qed.

(* ---------- gRPC gun ---------- *)

Lemma grpc_shoot_one tag c : length (grpc_shoot tag c) = 1%nat.
Proof. reflexivity. Qed.

Lemma grpc_shoot_sample tag c :
  grpc_shoot tag c = [mkSample tag (gcall_code c) 0 0].
Proof. reflexivity. Qed.
