(* Lemmas about Model/GrpcCall.v (property C20). *)
From Coq Require Import List NArith ZArith Bool Lia.
From PV Require Import Model.GrpcCall.
Import ListNotations.

Lemma gbytes_eqb_refl a : gbytes_eqb a a = true.
Proof. induction a as [|x a IH]; cbn [gbytes_eqb]; [reflexivity|]. rewrite N.eqb_refl, IH. reflexivity. Qed.

Lemma gbytes_eqb_eq a b : gbytes_eqb a b = true <-> a = b.
Proof.
  split; [|intros ->; apply gbytes_eqb_refl].
  revert b; induction a as [|x a IH]; intros [|y b]; cbn [gbytes_eqb]; try discriminate; [reflexivity|].
  intros H. apply andb_prop in H. destruct H as [H1 H2]. apply N.eqb_eq in H1. apply IH in H2. subst. reflexivity.
Qed.

Lemma eff_timeout_default : eff_timeout 0 = 15000000000%Z.
Proof. reflexivity. Qed.

Lemma eff_timeout_conf t : t <> 0%Z -> eff_timeout t = t.
Proof. unfold eff_timeout. intros H. destruct (Z.eqb_spec t 0); [contradiction|reflexivity]. Qed.

Section PlainProofs.
  Variables desc msg payload : Type.
  Variable reencode : payload -> payload.
  Variable fits : desc -> payload -> option msg.
  Variable code_of_status : N -> N.
  Variable respond : sent msg -> N.

  Notation shoot := (shoot desc msg payload reencode fits).
  Notation gun_shoot := (gun_shoot desc msg payload reencode fits code_of_status respond).
  Notation run_instances := (run_instances desc msg payload reencode fits code_of_status respond).
  Notation spec_result := (spec_result desc msg payload reencode fits code_of_status respond).
  Notation sample_code := (sample_code msg code_of_status respond).

  (* a sent call is exactly the entry: method, metadata, configured timeout, and the message
     the codec yields for the entry's payload against the method's input type *)
  Lemma shoot_sent g e s :
    shoot g e = Sent s ->
    s_method s = e_call payload e /\ s_meta s = e_meta payload e /\
    s_timeout s = eff_timeout (g_timeout desc g) /\
    exists d, find_method (g_services desc g) (e_call payload e) = Some d /\
              fits d (reencode (e_payload payload e)) = Some (s_message s).
  Proof.
    unfold GrpcCall.shoot. destruct (find_method _ _) as [d|] eqn:Hm; [|discriminate].
    destruct (fits d _) as [m|] eqn:Hf; [|discriminate].
    intros H; injection H as <-. cbn. repeat split; try reflexivity. exists d; split; [reflexivity|exact Hf].
  Qed.

  (* conversely: known method and fitting payload => the call is sent *)
  Lemma shoot_sends g e d m :
    find_method (g_services desc g) (e_call payload e) = Some d ->
    fits d (reencode (e_payload payload e)) = Some m ->
    shoot g e = Sent (mkSent (e_call payload e) m (e_meta payload e) (eff_timeout (g_timeout desc g))).
  Proof. unfold GrpcCall.shoot. intros -> ->. reflexivity. Qed.

  Lemma shoot_unknown g e :
    find_method (g_services desc g) (e_call payload e) = None ->
    shoot g e = UnknownMethod /\ sample_code (shoot g e) = 0%N.
  Proof. unfold GrpcCall.shoot. intros ->. split; reflexivity. Qed.

  Lemma shoot_badpayload g e d :
    find_method (g_services desc g) (e_call payload e) = Some d ->
    fits d (reencode (e_payload payload e)) = None ->
    shoot g e = BadPayload /\ sample_code (shoot g e) = 400%N.
  Proof. unfold GrpcCall.shoot. intros -> ->. split; reflexivity. Qed.

  Lemma gun_shoot_spec g e :
    gun_shoot g e = (g, spec_result (g_services desc g) (g_timeout desc g) e).
  Proof. reflexivity. Qed.

  Lemma replace_same {A} (l : list A) i x :
    nth_error l i = Some x -> firstn i l ++ x :: skipn (S i) l = l.
  Proof.
    revert i; induction l as [|a l IH]; intros [|i]; cbn; try discriminate.
    - intros H; injection H as ->. reflexivity.
    - intros H. rewrite IH; [reflexivity|exact H].
  Qed.

  (* any number of instances, any assignment of entries to instances: every entry gets exactly
     the result the specification gives it on its own — no entry influences another *)
  Lemma run_instances_spec t timeout guns sched :
    Forall (fun g => g = mkGun desc t timeout) guns ->
    Forall (fun ie => fst ie < length guns) sched ->
    run_instances guns sched = (guns, map (fun ie => spec_result t timeout (snd ie)) sched).
  Proof.
    intros Hg. induction sched as [|[i e] rest IH]; intros Hs; cbn [GrpcCall.run_instances map]; [reflexivity|].
    inversion Hs as [|x l Hi Hrest]; subst. cbn [fst] in Hi.
    destruct (nth_error guns i) as [g|] eqn:Hn; [|apply nth_error_None in Hn; lia].
    rewrite gun_shoot_spec.
    rewrite (replace_same _ _ _ Hn). rewrite (IH Hrest).
    rewrite Forall_forall in Hg. rewrite (Hg g (nth_error_In _ _ Hn)). reflexivity.
  Qed.
End PlainProofs.

(* ------------------------------------------------------------------------------------ *)
(* scenario steps: the per-gun template cache never changes what is rendered, the shared
   definitions are never written *)

Section ScenarioProofs.
  Variables desc msg tmpl vars : Type.
  Variable parse_t : gbytes -> option tmpl.
  Variable exec_t : tmpl -> vars -> option gbytes.
  Variable fits_text : desc -> gbytes -> option msg.

  Notation cache := (cache tmpl).
  Notation cache_find := (cache_find tmpl).
  Notation render_one := (render_one tmpl vars parse_t exec_t).
  Notation render_meta := (render_meta tmpl vars parse_t exec_t).
  Notation render_spec := (render_spec tmpl vars parse_t exec_t).
  Notation render_meta_spec := (render_meta_spec tmpl vars parse_t exec_t).
  Notation apply_templater := (apply_templater tmpl vars parse_t exec_t).
  Notation shoot_step := (shoot_step desc msg tmpl vars parse_t exec_t fits_text).
  Notation spec_step := (spec_step desc msg tmpl vars parse_t exec_t fits_text).
  Notation run_events := (run_events desc msg tmpl vars parse_t exec_t fits_text).
  Notation sgun := (sgun desc tmpl).

  Lemma tkind_eqb_eq a b : tkind_eqb a b = true -> a = b.
  Proof.
    destruct a as [|x], b as [|y]; cbn [tkind_eqb]; try discriminate; [reflexivity|].
    intros H. apply gbytes_eqb_eq in H. subst. reflexivity.
  Qed.

  Lemma ckey_eqb_eq a b : ckey_eqb a b = true -> a = b.
  Proof.
    destruct a as [[s1 p1] k1], b as [[s2 p2] k2]. cbn [ckey_eqb].
    intros H. apply andb_prop in H. destruct H as [H H3]. apply andb_prop in H. destruct H as [H1 H2].
    apply gbytes_eqb_eq in H1. apply gbytes_eqb_eq in H2. apply tkind_eqb_eq in H3. subst. reflexivity.
  Qed.

  (* a Go map has one value per key *)
  Definition meta_functional (md : gmeta) : Prop :=
    forall k t1 t2, In (k, t1) md -> In (k, t2) md -> t1 = t2.

  (* the step definitions in play: a call name denotes one definition (the provider's call
     registry is keyed by name), and every shared metadata cell is a map *)
  Definition steps_wf (h : heap) (S : list step) : Prop :=
    (forall s1 s2, In s1 S -> In s2 S -> st_name s1 = st_name s2 -> s1 = s2) /\
    (forall s, In s S -> meta_functional (heap_get h (st_cell s))).

  (* the configured text behind a cache key *)
  Definition configured (h : heap) (s : step) (kind : tkind) (text : gbytes) : Prop :=
    match kind with
    | KPayload => text = st_payload s
    | KMeta k => In (k, text) (heap_get h (st_cell s))
    end.

  (* cache invariant: whatever is cached under (scenario, step name, kind) is the parse of the
     configured text of the step with that name *)
  Definition cache_ok (h : heap) (S : list step) (c : cache) : Prop :=
    forall scn stp kind t, cache_find c (scn, stp, kind) = Some t ->
      forall s text, In s S -> st_name s = stp -> configured h s kind text -> parse_t text = Some t.

  Lemma cache_ok_nil h S : cache_ok h S [].
  Proof. intros scn stp kind t H. discriminate. Qed.

  Lemma configured_functional h S s kind t1 t2 :
    steps_wf h S -> In s S -> configured h s kind t1 -> configured h s kind t2 -> t1 = t2.
  Proof.
    intros [_ Hm] Hs. destruct kind as [|k]; cbn [configured].
    - intros -> ->. reflexivity.
    - intros H1 H2. exact (Hm s Hs k t1 t2 H1 H2).
  Qed.

  Lemma render_one_ok h S c scn s kind text v :
    steps_wf h S -> cache_ok h S c -> In s S -> configured h s kind text ->
    exists c', render_one c (scn, st_name s, kind) text v = (c', render_spec text v) /\ cache_ok h S c'.
  Proof.
    intros Hwf Hc Hs Hconf. unfold GrpcCall.render_one, GrpcCall.get_template, GrpcCall.render_spec.
    destruct (cache_find c (scn, st_name s, kind)) as [t|] eqn:Hf.
    - exists c. rewrite (Hc _ _ _ _ Hf s text Hs eq_refl Hconf). split; [reflexivity|exact Hc].
    - destruct (parse_t text) as [t|] eqn:Hp.
      + exists (((scn, st_name s, kind), t) :: c). split; [reflexivity|].
        intros scn' stp' kind' t' Hf' s' text' Hs' Hn' Hconf'.
        cbn [GrpcCall.cache_find] in Hf'.
        destruct (ckey_eqb (scn', stp', kind') (scn, st_name s, kind)) eqn:Hk.
        * apply ckey_eqb_eq in Hk. injection Hk as -> -> ->. injection Hf' as <-.
          destruct Hwf as [Hname Hm].
          assert (s' = s) by (apply Hname; assumption). subst s'.
          rewrite (configured_functional h S s kind text' text (conj Hname Hm) Hs Hconf' Hconf). exact Hp.
        * exact (Hc _ _ _ _ Hf' s' text' Hs' Hn' Hconf').
      + exists c. split; [reflexivity|exact Hc].
  Qed.

  Lemma render_meta_ok h S scn s v md :
    steps_wf h S -> In s S -> incl md (heap_get h (st_cell s)) ->
    forall c, cache_ok h S c ->
    exists c', render_meta c scn (st_name s) md v = (c', render_meta_spec md v) /\ cache_ok h S c'.
  Proof.
    intros Hwf Hs. induction md as [|[k text] r IH]; intros Hincl c Hc; cbn [GrpcCall.render_meta GrpcCall.render_meta_spec].
    - exists c. split; [reflexivity|exact Hc].
    - assert (Hconf : configured h s (KMeta k) text) by (cbn; apply Hincl; left; reflexivity).
      destruct (render_one_ok h S c scn s (KMeta k) text v Hwf Hc Hs Hconf) as [c1 [E1 Hc1]].
      rewrite E1. destruct (render_spec text v) as [b|].
      + destruct (IH (fun x Hx => Hincl x (or_intror Hx)) c1 Hc1) as [c2 [E2 Hc2]].
        rewrite E2. exists c2. destruct (render_meta_spec r v); split; try reflexivity; exact Hc2.
      + exists c1. split; [reflexivity|exact Hc1].
  Qed.

  Definition gun_ok (h : heap) (S : list step) (t : mtable desc) (timeout : Z) (g : sgun) : Prop :=
    sg_services desc tmpl g = t /\ sg_timeout desc tmpl g = timeout /\ cache_ok h S (sg_cache desc tmpl g).

  (* one step of one gun: the shared heap is returned untouched, the outcome is the
     specification's (rendered from the configured texts), the gun stays well-formed *)
  Lemma shoot_step_ok h S t timeout g scn s v :
    steps_wf h S -> In s S -> gun_ok h S t timeout g ->
    exists g', shoot_step h g scn s v = (h, g', spec_step t timeout h s v) /\ gun_ok h S t timeout g'.
  Proof.
    intros Hwf Hs [Ht [Hto Hc]]. unfold GrpcCall.shoot_step, GrpcCall.apply_templater, GrpcCall.spec_step.
    destruct (render_one_ok h S (sg_cache desc tmpl g) scn s KPayload (st_payload s) v Hwf Hc Hs eq_refl) as [c1 [E1 Hc1]].
    rewrite E1. destruct (render_spec (st_payload s) v) as [ptext|].
    - destruct (render_meta_ok h S scn s v (heap_get h (st_cell s)) Hwf Hs (fun x Hx => Hx) c1 Hc1) as [c2 [E2 Hc2]].
      rewrite E2. destruct (render_meta_spec (heap_get h (st_cell s)) v) as [md|].
      + rewrite Ht, Hto. exists (mkSGun desc tmpl t timeout c2).
        destruct (find_method t (st_call s)) as [d|]; [destruct (fits_text d ptext)|];
          (split; [subst; reflexivity|repeat split; exact Hc2]).
      + exists (mkSGun desc tmpl (sg_services desc tmpl g) (sg_timeout desc tmpl g) c2).
        split; [reflexivity|]. repeat split; assumption.
    - exists (mkSGun desc tmpl (sg_services desc tmpl g) (sg_timeout desc tmpl g) c1).
      split; [reflexivity|]. repeat split; assumption.
  Qed.

  Lemma Forall_replace {A} (P : A -> Prop) (l : list A) i x :
    Forall P l -> P x -> Forall P (firstn i l ++ x :: skipn (S i) l).
  Proof.
    intros Hl Hx. apply Forall_app. split.
    - apply Forall_forall. intros y Hy. rewrite Forall_forall in Hl. apply Hl.
      rewrite <- (firstn_skipn i l). apply in_or_app. left. exact Hy.
    - constructor; [exact Hx|]. apply Forall_forall. intros y Hy. rewrite Forall_forall in Hl. apply Hl.
      rewrite <- (firstn_skipn (S i) l). apply in_or_app. right. exact Hy.
  Qed.

  Lemma replace_length {A} (l : list A) i x :
    i < length l -> length (firstn i l ++ x :: skipn (S i) l) = length l.
  Proof.
    intros H. rewrite app_length, firstn_length. cbn [length]. rewrite skipn_length. lia.
  Qed.

  (* every interleaving of the step executions of any number of instances, with any variables:
     the shared definitions end as configured, and every step execution has exactly the outcome
     obtained by rendering the CONFIGURED templates with that execution's variables *)
  Lemma run_events_spec h S t timeout evs :
    steps_wf h S ->
    forall guns,
    Forall (gun_ok h S t timeout) guns ->
    Forall (fun e => In (ev_step vars e) S /\ ev_inst vars e < length guns) evs ->
    exists guns',
      run_events h guns evs =
        (h, guns', map (fun e => spec_step t timeout h (ev_step vars e) (ev_vars vars e)) evs) /\
      Forall (gun_ok h S t timeout) guns' /\ length guns' = length guns.
  Proof.
    intros Hwf. induction evs as [|e rest IH]; intros guns Hg He; cbn [GrpcCall.run_events map].
    - exists guns. repeat split; auto.
    - inversion He as [|x l [Hin Hi] Hrest]; subst.
      destruct (nth_error guns (ev_inst vars e)) as [g|] eqn:Hn; [|apply nth_error_None in Hn; lia].
      assert (Hgk : gun_ok h S t timeout g) by (rewrite Forall_forall in Hg; apply Hg; eapply nth_error_In; eauto).
      destruct (shoot_step_ok h S t timeout g (ev_scn vars e) (ev_step vars e) (ev_vars vars e) Hwf Hin Hgk) as [g' [E Hg']].
      rewrite E.
      set (guns1 := firstn (ev_inst vars e) guns ++ g' :: skipn (Datatypes.S (ev_inst vars e)) guns).
      assert (Hl1 : length guns1 = length guns) by (apply replace_length; exact Hi).
      destruct (IH guns1) as [guns' [E' [Hok Hlen]]].
      + apply Forall_replace; assumption.
      + rewrite Hl1. exact Hrest.
      + rewrite E'. exists guns'. repeat split; [exact Hok|congruence].
  Qed.
End ScenarioProofs.

Section ScenarioShotProofs.
  Variables desc msg tmpl vars : Type.
  Variable parse_t : gbytes -> option tmpl.
  Variable exec_t : tmpl -> vars -> option gbytes.
  Variable fits_text : desc -> gbytes -> option msg.

  (* a whole scenario shot: heap untouched, outcomes = the specified outcomes up to the first
     step that is not sent *)
  Lemma shoot_scenario_ok h SS t timeout scn sts :
    steps_wf h SS -> Forall (fun sv => In (fst sv) SS) sts ->
    forall g, gun_ok desc tmpl parse_t h SS t timeout g ->
    exists g',
      shoot_scenario desc msg tmpl vars parse_t exec_t fits_text h g scn sts =
        (h, g', spec_scenario desc msg tmpl vars parse_t exec_t fits_text t timeout h sts) /\
      gun_ok desc tmpl parse_t h SS t timeout g'.
  Proof.
    intros Hwf. induction sts as [|[st v] rest IH]; intros Hs g Hg; cbn [shoot_scenario spec_scenario].
    - exists g. split; [reflexivity|exact Hg].
    - inversion Hs as [|x l Hin Hrest]; subst. cbn [fst] in Hin.
      destruct (shoot_step_ok desc msg tmpl vars parse_t exec_t fits_text h SS t timeout g scn st v Hwf Hin Hg) as [g1 [E Hg1]].
      rewrite E.
      destruct (spec_step desc msg tmpl vars parse_t exec_t fits_text t timeout h st v) eqn:Ho;
        try (exists g1; split; [reflexivity|exact Hg1]).
      destruct (IH Hrest g1 Hg1) as [g2 [E2 Hg2]]. rewrite E2. exists g2. split; [reflexivity|exact Hg2].
  Qed.
End ScenarioShotProofs.
