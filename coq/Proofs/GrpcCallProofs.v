(* Lemmas about Model/GrpcCall.v (property C20). *)
From Coq Require Import List NArith ZArith Bool Lia.
From PV Require Import Model.GrpcCall.
Import ListNotations.

Lemma gbytes_eqb_refl a : gbytes_eqb a a = true.
Proof. induction a as [|x a IH]; cbn [gbytes_eqb]; [reflexivity|]. rewrite N.eqb_refl, IH. reflexivity. Qed.

Lemma gbytes_eqb_eq a b : gbytes_eqb a b = true <-> a = b.
Proof.
  split; [|intros ->; apply gbytes_eqb_refl].
  revert b; induction a as [|x a IH]; intros [|y b]; cbn [gbytes_eqb]; try discriminate; [reflexivity|].
  intros H. apply andb_prop in H. destruct H as [H1 H2]. apply N.eqb_eq in H1. apply IH in H2. subst. reflexivity.
Qed.

Lemma eff_timeout_default : eff_timeout 0 = 15000000000%Z.
Proof. reflexivity. Qed.

Lemma eff_timeout_conf t : t <> 0%Z -> eff_timeout t = t.
Proof. unfold eff_timeout. intros H. destruct (Z.eqb_spec t 0); [contradiction|reflexivity]. Qed.

Section PlainProofs.
  Variables desc msg payload : Type.
  Variable reencode : payload -> payload.
  Variable fits : desc -> payload -> option msg.
  Variable code_of_status : N -> N.
  Variable respond : sent msg -> N.

  Notation shoot := (shoot desc msg payload reencode fits).
  Notation gun_shoot := (gun_shoot desc msg payload reencode fits code_of_status respond).
  Notation run_instances := (run_instances desc msg payload reencode fits code_of_status respond).
  Notation spec_result := (spec_result desc msg payload reencode fits code_of_status respond).
  Notation sample_code := (sample_code msg code_of_status respond).

  (* a sent call is exactly the entry: method, metadata, configured timeout, and the message
     the codec yields for the entry's payload against the method's input type *)
  Lemma shoot_sent g e s :
    shoot g e = Sent s ->
    s_method s = e_call payload e /\ s_meta s = e_meta payload e /\
    s_timeout s = eff_timeout (g_timeout desc g) /\
    exists d, find_method (g_services desc g) (e_call payload e) = Some d /\
              fits d (reencode (e_payload payload e)) = Some (s_message s).
  Proof.
    unfold GrpcCall.shoot. destruct (find_method _ _) as [d|] eqn:Hm; [|discriminate].
    destruct (fits d _) as [m|] eqn:Hf; [|discriminate].
    intros H; injection H as <-. cbn. repeat split; try reflexivity. exists d; split; [reflexivity|exact Hf].
  Qed.

  (* conversely: known method and fitting payload => the call is sent *)
  Lemma shoot_sends g e d m :
    find_method (g_services desc g) (e_call payload e) = Some d ->
    fits d (reencode (e_payload payload e)) = Some m ->
    shoot g e = Sent (mkSent (e_call payload e) m (e_meta payload e) (eff_timeout (g_timeout desc g))).
  Proof. unfold GrpcCall.shoot. intros -> ->. reflexivity. Qed.

  Lemma shoot_unknown g e :
    find_method (g_services desc g) (e_call payload e) = None ->
    shoot g e = UnknownMethod /\ sample_code (shoot g e) = 0%N.
  Proof. unfold GrpcCall.shoot. intros ->. split; reflexivity. Qed.

  Lemma shoot_badpayload g e d :
    find_method (g_services desc g) (e_call payload e) = Some d ->
    fits d (reencode (e_payload payload e)) = None ->
    shoot g e = BadPayload /\ sample_code (shoot g e) = 400%N.
  Proof. unfold GrpcCall.shoot. intros -> ->. split; reflexivity. Qed.

  Lemma gun_shoot_spec g e :
    gun_shoot g e = (g, spec_result (g_services desc g) (g_timeout desc g) e).
  Proof. reflexivity. Qed.

  Lemma replace_same {A} (l : list A) i x :
    nth_error l i = Some x -> firstn i l ++ x :: skipn (S i) l = l.
  Proof.
    revert i; induction l as [|a l IH]; intros [|i]; cbn; try discriminate.
    - intros H; injection H as ->. reflexivity.
    - intros H. rewrite IH; [reflexivity|exact H].
  Qed.

  (* any number of instances, any assignment of entries to instances: every entry gets exactly
     the result the specification gives it on its own — no entry influences another *)
  Lemma run_instances_spec t timeout guns sched :
    Forall (fun g => g = mkGun desc t timeout) guns ->
    Forall (fun ie => fst ie < length guns) sched ->
    run_instances guns sched = (guns, map (fun ie => spec_result t timeout (snd ie)) sched).
  Proof.
    intros Hg. induction sched as [|[i e] rest IH]; intros Hs; cbn [GrpcCall.run_instances map]; [reflexivity|].
    inversion Hs as [|x l Hi Hrest]; subst. cbn [fst] in Hi.
    destruct (nth_error guns i) as [g|] eqn:Hn; [|apply nth_error_None in Hn; lia].
    rewrite gun_shoot_spec.
    rewrite (replace_same _ _ _ Hn). rewrite (IH Hrest).
    rewrite Forall_forall in Hg. rewrite (Hg g (nth_error_In _ _ Hn)). reflexivity.
  Qed.
End PlainProofs.
