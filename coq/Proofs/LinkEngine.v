(* Links L2 (C02 -> C03) and L3 (C04 -> C03): the engine's shooting loop over the REAL schedule
   stream and the REAL Waiter.

   Model/Instance.v (C03) abstracts the RPS schedule as a token counter ([stoks] / [own]) and the
   Waiter's overdue decision as an oracle bit of the action [AStep i d].  Here the three models are
   composed: [cstep_inst] runs the sections of instance.Run where
     - IsFinished asks the abstract token stream of C02 ([abs_left] at the clock value read),
     - Wait draws the token from that stream ([abs_next]) and hands its TIME to the Waiter model
       of C04 ([wait wfixed], the per-instance Waiter state is kept in [ax_w]),
     - the fire/discard decision reads [is_slow_down] of that Waiter state,
   and every other section is the section of the C03 model.  The counters of the C03 state are
   kept as ghosts (decremented when a token is drawn).

   Theorems: under the coupling "the stream has no unlimited window and exactly as many items as
   the counter says" (which holds initially for every finite schedule and is preserved), every
   step of the composed system IS the step of the C03 model with oracle bit
   d = IsSlowDown of the instance's own Waiter (so every C03 theorem holds of composed runs), and
   the ghost record of every decision carries the C04 facts about the token it was taken for. *)
From Coq Require Import List ZArith Bool Arith Lia.
From PV Require Import Model.SchedTree Proofs.SchedTreeProofs Proofs.SchedTreeSeq Proofs.SchedTreeRun Proofs.SchedTreeSpec.
From PV Require Import Model.Waiter Proofs.WaiterProofs.
From PV Require Import Model.Instance Proofs.InstanceProofs.
Import ListNotations.

(* ---------------------------------------------------------------- counter vs stream *)
(* the stream has no unlimited window and exactly [n] tokens *)
Definition tok_abs (its : list item) (n : nat) : Prop :=
  existsb is_window its = false /\ length its = n.

Lemma tok_abs_left its n now : tok_abs its n -> (abs_left now its =? 0)%Z = (n =? 0).
Proof.
  intros [W L]. unfold abs_left. rewrite (no_window_dc now its W), W, L.
  destruct n; [reflexivity|]. cbn [Nat.eqb]. apply Z.eqb_neq. lia.
Qed.

Lemma tok_abs_next its n now f : tok_abs its n ->
  snd (abs_next now f its) = negb (n =? 0) /\ tok_abs (fst (fst (abs_next now f its))) (pred n).
Proof.
  intros [W L]. destruct its as [|[t|g] r]; cbn [existsb is_window orb] in W; try discriminate.
  - subst n. cbn. split; [reflexivity|split; reflexivity].
  - subst n. cbn [abs_next fst snd length pred Nat.eqb negb]. split; [reflexivity|]. split; [exact W|reflexivity].
Qed.

(* a finite flat schedule: its stream from any start instant has exactly sumcnt tokens *)
Lemma finite_stream fl p : Forall is_leaf fl -> existsb unknown_part fl = false ->
  tok_abs (fst (items_from p fl)) (Z.to_nat (sumcnt fl)).
Proof.
  intros Hl Hu. split.
  - rewrite (items_windows fl Hl p). exact Hu.
  - rewrite <- (items_length fl Hl Hu p). rewrite Nat2Z.id. reflexivity.
Qed.

(* the same for a schedule tree of any nesting (configuration of the constructors): the leaves of
   its flattening are leaves, so a tree without unlimited part hands out exactly its static count
   (what Left() answers before the start, C02_seq_left_before_start) *)
Lemma flatten_cfg_leaves c : Forall is_leaf (flatten_cfg c).
Proof.
  destruct (build_ok c (size_cfg c) 0 (le_n _)) as (s & _ & _ & E & _). rewrite <- E. apply flatten_leaves.
Qed.

Lemma finite_tree_stream c p : existsb unknown_part (flatten_cfg c) = false ->
  tok_abs (fst (items_from p (flatten_cfg c))) (Z.to_nat (sumcnt (flatten_cfg c))) /\
  statl (flatten_cfg c) = sumcnt (flatten_cfg c).
Proof.
  intros Hu. split; [apply finite_stream; [apply flatten_cfg_leaves|exact Hu]|].
  unfold statl. rewrite Hu. reflexivity.
Qed.

(* object level: for ANY sequence of Left / Next calls with ANY clock values the answers of the
   stream are the answers of the counter (Left() = 0 ?  /  Next's ok) *)
Inductive sop := SLeft (now : Z) | SNext (now : Z).

Fixpoint stream_obs (f : Z) (its : list item) (ops : list sop) : list bool :=
  match ops with
  | [] => []
  | SLeft now :: r => (abs_left now its =? 0)%Z :: stream_obs f its r
  | SNext now :: r => snd (abs_next now f its) :: stream_obs f (fst (fst (abs_next now f its))) r
  end.

Fixpoint counter_obs (n : nat) (ops : list sop) : list bool :=
  match ops with
  | [] => []
  | SLeft _ :: r => (n =? 0) :: counter_obs n r
  | SNext _ :: r => negb (n =? 0) :: counter_obs (pred n) r
  end.

Theorem stream_is_counter f ops : forall its n, tok_abs its n -> stream_obs f its ops = counter_obs n ops.
Proof.
  induction ops as [|[now|now] r IH]; intros its n H; [reflexivity| |]; cbn [stream_obs counter_obs].
  - rewrite (tok_abs_left its n now H). f_equal. apply IH. exact H.
  - destruct (tok_abs_next its n now f H) as [E T]. rewrite E. f_equal. apply IH. exact T.
Qed.

(* ---------------------------------------------------------------- the composed system *)
Record aux := mkAux {
  ax_its : list item;              (* the instance's own schedule (rps-per-instance) *)
  ax_fin : Z;
  ax_w : wstate;                   (* the instance's Waiter *)
  ax_pend : option (Z * Z * Z)     (* ghost: time of the token drawn last, instant Wait was entered
                                      for it, earliest instant at which that Wait returned *)
}.

Record shotrec := mkShot {
  sr_inst : nat; sr_item : nat;
  sr_tok : Z; sr_enter : Z; sr_ret : Z;
  sr_dec : decision
}.

Record tstate := mkT {
  t_s : state;                     (* the state of the C03 model (counters are ghosts here) *)
  t_its : list item; t_fin : Z;    (* the shared schedule *)
  t_aux : nat -> aux;
  t_shots : list shotrec           (* ghost: one record per fire/discard decision, newest first *)
}.

(* what a section meets: the clock value the schedule operation reads, the instant Wait is
   entered at and the world of that Wait call (Model/Waiter.v) *)
Record world := mkWorld { w_clock : Z; w_enter : Z; w_call : wcall }.

Definition otok_eqb (a b : option Z) : bool :=
  match a, b with Some x, Some y => (x =? y)%Z | None, None => true | _, _ => false end.

Definition wf_call_b (st : wstate) (enter : Z) (c : wcall) : bool :=
  (match lastNow st with Some l => (l <=? enter)%Z | None => true end)
  && (enter <=? c_now c)%Z
  && (match c_tok c with Some next => (next <=? c_wake c)%Z | None => true end).

(* the world of a Wait call is admissible: monotone clock, timers never early (wf_call), no
   cancellation (not part of the C03 model), and the token is the one the schedule returned *)
Definition world_ok (st : wstate) (w : world) (tok : option Z) : bool :=
  wf_call_b st (w_enter w) (w_call w) && negb (c_ctx_done (w_call w))
  && negb (c_cancel_in_sleep (w_call w)) && otok_eqb (c_tok (w_call w)) tok.

Definition draw (c : cfg) (s : shared) (x : inst) (a : nat) : shared * inst :=
  if per_inst c then (s, mkInst (Dec a) (pred (own x)))
  else (mkSh (pred (stoks s)) (ammo s) (acquired s) (released s) (fired s) (discarded s) (unfired s)
             (request s) (response s) (log s), set_pc x (Dec a)).

Definition waste (s : shared) (x : inst) (a : nat) : shared * inst :=
  (mkSh (stoks s) (ammo s) (acquired s) (released s) (fired s) (discarded s) (S (unfired s))
        (request s) (response s) (log s), set_pc x (Rel a)).

(* one section; the two sections that touch the schedule take its answers as inputs *)
Definition comp_local (c : cfg) (i : nat) (slow left_zero next_ok : bool) (s : shared) (x : inst)
  : option (shared * inst) :=
  match pc x with
  | Check => Some (s, set_pc x (if left_zero then Done else Acq))
  | Wait a => Some (if next_ok then draw c s x a else waste s x a)
  | _ => local_step c i slow s x
  end.

Definition set_aux (f : nat -> aux) (i : nat) (a : aux) : nat -> aux := fun j => if j =? i then a else f j.

Definition mkshot (i a : nat) (p : option (Z * Z * Z)) (d : decision) : shotrec :=
  match p with
  | Some (tok, enter, ret) => mkShot i a tok enter ret d
  | None => mkShot i a 0 0 0 d
  end.

Definition cstep_inst (c : cfg) (i : nat) (w : world) (ts : tstate) : option tstate :=
  let s := t_s ts in
  match nth_error (insts s) i with
  | None => None
  | Some x =>
      let ax := t_aux ts i in
      let its := if per_inst c then ax_its ax else t_its ts in
      let fin := if per_inst c then ax_fin ax else t_fin ts in
      let nx := abs_next (w_clock w) fin its in
      let ok := snd nx in
      let lz := (abs_left (w_clock w) its =? 0)%Z in
      let slow := is_slow_down (ax_w ax) in
      match comp_local c i slow lz ok (sh s) x with
      | None => None
      | Some (sh', x') =>
          let s' := mkSt sh' (upd (insts s) i x') (start_open s) in
          match pc x with
          | Wait a =>
              let tok := if ok then Some (snd (fst nx)) else None in
              if world_ok (ax_w ax) w tok then
                let r := wait wfixed (ax_w ax) (w_call w) in
                let ax' := mkAux (if per_inst c then fst (fst nx) else ax_its ax) (ax_fin ax) (fst r)
                                 (if ok then Some (snd (fst nx), w_enter w, return_lower (w_enter w) (w_call w) (snd r))
                                  else None) in
                Some (mkT s' (if per_inst c then t_its ts else fst (fst nx)) (t_fin ts)
                          (set_aux (t_aux ts) i ax') (t_shots ts))
              else None
          | Dec a =>
              Some (mkT s' (t_its ts) (t_fin ts) (t_aux ts)
                        (mkshot i a (ax_pend ax) (decide (discard_overflow c) slow) :: t_shots ts))
          | _ => Some (mkT s' (t_its ts) (t_fin ts) (t_aux ts) (t_shots ts))
          end
      end
  end.

Inductive caction :=
| CSpawn (p : Z)     (* the start loop creates an instance; with rps-per-instance its own schedule starts at p *)
| CClose
| CStep (i : nat) (w : world).

Definition capply (c : cfg) (fl : list sched) (a : caction) (ts : tstate) : option tstate :=
  match a with
  | CSpawn p =>
      match spawn c (t_s ts) with
      | Some s' =>
          Some (mkT s' (t_its ts) (t_fin ts)
                    (set_aux (t_aux ts) (length (insts (t_s ts)))
                             (mkAux (fst (items_from p fl)) (snd (items_from p fl)) wstate_init None))
                    (t_shots ts))
      | None => None
      end
  | CClose => Some (mkT (close_start (t_s ts)) (t_its ts) (t_fin ts) (t_aux ts) (t_shots ts))
  | CStep i w => cstep_inst c i w ts
  end.

Fixpoint crun (c : cfg) (fl : list sched) (l : list caction) (ts : tstate) : option tstate :=
  match l with
  | [] => Some ts
  | a :: r => match capply c fl a ts with Some ts' => crun c fl r ts' | None => None end
  end.

Definition cinit (c : cfg) (fl : list sched) (p0 : Z) : tstate :=
  mkT (init c) (fst (items_from p0 fl)) (snd (items_from p0 fl))
      (fun _ => mkAux [] 0 wstate_init None) [].

(* the flat schedule [fl] (every RPS profile of the pool) is finite and is the one the C03
   configuration counts *)
Definition sched_cfg_ok (c : cfg) (fl : list sched) : Prop :=
  Forall is_leaf fl /\ existsb unknown_part fl = false /\ prof c = Z.to_nat (sumcnt fl).

(* the C03 action a composed action projects to *)
Definition proj_action (ts : tstate) (a : caction) : action :=
  match a with
  | CSpawn _ => ASpawn
  | CClose => AClose
  | CStep i _ => AStep i (is_slow_down (ax_w (t_aux ts i)))
  end.

(* ---------------------------------------------------------------- coupling *)
Definition Cpl (c : cfg) (ts : tstate) : Prop :=
  (per_inst c = false -> tok_abs (t_its ts) (stoks (sh (t_s ts)))) /\
  (per_inst c = true -> forall i x, nth_error (insts (t_s ts)) i = Some x -> tok_abs (ax_its (t_aux ts i)) (own x)).

Lemma nth_upd {A} (l : list A) x : forall i j,
  nth_error (upd l i x) j =
  if j =? i then match nth_error l i with Some _ => Some x | None => None end else nth_error l j.
Proof.
  induction l as [|y r IH]; intros [|i] [|j]; cbn [upd nth_error Nat.eqb]; try reflexivity.
  - destruct (j =? i); reflexivity.
  - apply IH.
Qed.

Lemma comp_local_refines c i slow lz ok s x :
  lz = (left_of c s x =? 0) -> ok = negb (left_of c s x =? 0) ->
  comp_local c i slow lz ok s x = local_step c i slow s x.
Proof.
  intros -> ->. unfold comp_local, local_step. destruct (pc x) eqn:Epc; try reflexivity.
  unfold left_of, draw, waste. destruct (per_inst c).
  - destruct (own x); reflexivity.
  - destruct (stoks s); reflexivity.
Qed.

(* what a section does to the two counters *)
Lemma comp_local_counters c i slow lz ok s x s' x' :
  comp_local c i slow lz ok s x = Some (s', x') ->
  match pc x with
  | Wait _ =>
      if ok then (if per_inst c then stoks s' = stoks s /\ own x' = pred (own x)
                  else stoks s' = pred (stoks s) /\ own x' = own x)
      else stoks s' = stoks s /\ own x' = own x
  | _ => stoks s' = stoks s /\ own x' = own x
  end.
Proof.
  unfold comp_local, local_step, draw, waste. destruct (pc x) eqn:Epc; intros H.
  - inversion H; subst. split; reflexivity.
  - destruct (ammo s); inversion H; subst; split; reflexivity.
  - destruct ok; [destruct (per_inst c)|]; inversion H; subst; split; reflexivity.
  - destruct (discard_overflow c && slow); inversion H; subst; split; reflexivity.
  - inversion H; subst; split; reflexivity.
  - inversion H; subst; split; reflexivity.
  - inversion H; subst; split; reflexivity.
  - discriminate.
Qed.

Lemma Cpl_left c ts i x : Cpl c ts -> nth_error (insts (t_s ts)) i = Some x ->
  tok_abs (if per_inst c then ax_its (t_aux ts i) else t_its ts) (left_of c (sh (t_s ts)) x).
Proof.
  intros [Hs Hp] Hx. unfold left_of. destruct (per_inst c); [apply (Hp eq_refl i x Hx)|apply (Hs eq_refl)].
Qed.

Lemma set_aux_eq f i a : set_aux f i a i = a.
Proof. unfold set_aux. rewrite Nat.eqb_refl. reflexivity. Qed.
Lemma set_aux_neq f i a j : j <> i -> set_aux f i a j = f j.
Proof. intros H. unfold set_aux. destruct (Nat.eqb_spec j i); [contradiction|reflexivity]. Qed.

(* the shape of a composed instance step *)
Lemma cstep_inst_inv c i w ts ts' : cstep_inst c i w ts = Some ts' ->
  exists x sh' x',
    nth_error (insts (t_s ts)) i = Some x /\
    let ax := t_aux ts i in
    let its := if per_inst c then ax_its ax else t_its ts in
    let fin := if per_inst c then ax_fin ax else t_fin ts in
    let nx := abs_next (w_clock w) fin its in
    comp_local c i (is_slow_down (ax_w ax)) (abs_left (w_clock w) its =? 0)%Z (snd nx) (sh (t_s ts)) x = Some (sh', x') /\
    t_s ts' = mkSt sh' (upd (insts (t_s ts)) i x') (start_open (t_s ts)) /\
    t_fin ts' = t_fin ts /\
    match pc x with
    | Wait a =>
        let tok := if snd nx then Some (snd (fst nx)) else None in
        world_ok (ax_w ax) w tok = true /\
        t_its ts' = (if per_inst c then t_its ts else fst (fst nx)) /\
        t_aux ts' = set_aux (t_aux ts) i
           (mkAux (if per_inst c then fst (fst nx) else ax_its ax) (ax_fin ax) (fst (wait wfixed (ax_w ax) (w_call w)))
                  (if snd nx then Some (snd (fst nx), w_enter w,
                                        return_lower (w_enter w) (w_call w) (snd (wait wfixed (ax_w ax) (w_call w))))
                   else None)) /\
        t_shots ts' = t_shots ts
    | Dec a =>
        t_its ts' = t_its ts /\ t_aux ts' = t_aux ts /\
        t_shots ts' = mkshot i a (ax_pend ax) (decide (discard_overflow c) (is_slow_down (ax_w ax))) :: t_shots ts
    | _ => t_its ts' = t_its ts /\ t_aux ts' = t_aux ts /\ t_shots ts' = t_shots ts
    end.
Proof.
  unfold cstep_inst. intros H.
  destruct (nth_error (insts (t_s ts)) i) as [x|] eqn:Ex; [|discriminate].
  cbv zeta in H.
  destruct (comp_local c i _ _ _ (sh (t_s ts)) x) as [[sh' x']|] eqn:El; [|discriminate].
  exists x, sh', x'. split; [reflexivity|]. cbv zeta. split; [exact El|].
  destruct (pc x) eqn:Epc.
  all: try (inversion H; subst; cbn; repeat split; reflexivity).
  destruct (world_ok _ w _) eqn:Ew; [|discriminate].
  inversion H; subst; cbn. repeat split; reflexivity.
Qed.

Lemma Cpl_step c fl a ts ts' : sched_cfg_ok c fl -> Cpl c ts -> capply c fl a ts = Some ts' -> Cpl c ts'.
Proof.
  intros (Hl & Hu & Hprof) HC H. destruct a as [p| |i w]; cbn [capply] in H.
  - (* spawn *)
    unfold spawn in H. destruct (start_open (t_s ts)); [|discriminate]. inversion H; subst; clear H.
    destruct HC as [Hs Hp]. split; cbn [t_its t_s sh insts t_aux].
    + exact Hs.
    + intros Hper j y Hy.
      destruct (Nat.eqb_spec j (length (insts (t_s ts)))) as [->|Hne].
      * rewrite set_aux_eq. cbn [ax_its].
        rewrite nth_error_app2 in Hy by lia. rewrite Nat.sub_diag in Hy. cbn in Hy. inversion Hy; subst y.
        unfold new_inst. cbn [own]. rewrite Hper, Hprof. apply finite_stream; assumption.
      * rewrite set_aux_neq by exact Hne.
        assert (Hlt : j < length (insts (t_s ts))).
        { assert (Hj : nth_error (insts (t_s ts) ++ [new_inst c]) j <> None) by congruence.
          apply nth_error_Some in Hj. rewrite app_length in Hj. cbn in Hj. lia. }
        rewrite nth_error_app1 in Hy by exact Hlt. apply (Hp Hper j y Hy).
  - inversion H; subst. exact HC.
  - destruct (cstep_inst_inv c i w ts ts' H) as (x & sh' & x' & Ex & El & Es & _ & Hrest). cbv zeta in El, Hrest.
    pose proof (Cpl_left c ts i x HC Ex) as Habs.
    pose proof (comp_local_counters c i _ _ _ _ x sh' x' El) as Hcnt.
    set (its := if per_inst c then ax_its (t_aux ts i) else t_its ts) in *.
    set (fin := if per_inst c then ax_fin (t_aux ts i) else t_fin ts) in *.
    destruct (tok_abs_next its _ (w_clock w) fin Habs) as [Eok Tn].
    destruct HC as [Hs Hp]. split; rewrite Es; cbn [t_s sh insts].
    + intros Hper. specialize (Hs Hper). unfold left_of in Eok, Tn. rewrite Hper in *.
      destruct (pc x) eqn:Epc.
      all: try (destruct Hrest as (-> & _); destruct Hcnt as [-> _]; exact Hs).
      destruct Hrest as (_ & -> & _).
      destruct (snd (abs_next (w_clock w) fin its)) eqn:Eo.
      * destruct Hcnt as [-> _]. exact Tn.
      * destruct Hcnt as [-> _]. destruct (stoks (sh (t_s ts))); [|discriminate]. exact Tn.
    + intros Hper j y Hy. specialize (Hp Hper). rewrite nth_upd in Hy.
      unfold left_of in Eok, Tn. rewrite Hper in *.
      destruct (Nat.eqb_spec j i) as [->|Hne].
      * rewrite Ex in Hy. inversion Hy; subst y. specialize (Hp i x Ex).
        destruct (pc x) eqn:Epc.
        all: try (destruct Hrest as (_ & -> & _); destruct Hcnt as [_ ->]; exact Hp).
        destruct Hrest as (_ & _ & -> & _). rewrite set_aux_eq. cbn [ax_its].
        destruct (snd (abs_next (w_clock w) fin its)) eqn:Eo.
        -- destruct Hcnt as [_ ->]. exact Tn.
        -- destruct Hcnt as [_ ->]. destruct (own x); [|discriminate]. exact Tn.
      * assert (Ea : t_aux ts' j = t_aux ts j).
        { destruct (pc x); try (destruct Hrest as (_ & -> & _); reflexivity).
          destruct Hrest as (_ & _ & -> & _). apply set_aux_neq. exact Hne. }
        rewrite Ea. apply (Hp j y Hy).
Qed.

Lemma Cpl_init c fl p0 : sched_cfg_ok c fl -> Cpl c (cinit c fl p0).
Proof.
  intros (Hl & Hu & Hprof). split; cbn [cinit t_its t_s init sh stoks insts].
  - intros ->. rewrite Hprof. apply finite_stream; assumption.
  - intros _ i x Hx. destruct i; discriminate.
Qed.

(* every composed step is the step of the C03 model, with the oracle bit = IsSlowDown of the
   instance's own Waiter *)
Lemma capply_refines c fl a ts ts' : Cpl c ts -> capply c fl a ts = Some ts' ->
  apply_action c (proj_action ts a) (t_s ts) = Some (t_s ts').
Proof.
  intros HC H. destruct a as [p| |i w]; cbn [capply proj_action apply_action] in *.
  - destruct (spawn c (t_s ts)); [|discriminate]. inversion H; subst. reflexivity.
  - inversion H; subst. reflexivity.
  - destruct (cstep_inst_inv c i w ts ts' H) as (x & sh' & x' & Ex & El & Es & _). cbv zeta in El.
    pose proof (Cpl_left c ts i x HC Ex) as Habs.
    rewrite comp_local_refines in El.
    + unfold step_inst. rewrite Ex, El, Es. reflexivity.
    + apply tok_abs_left. exact Habs.
    + apply (tok_abs_next _ _ _ _ Habs).
Qed.

Theorem crun_refines c fl : sched_cfg_ok c fl -> forall l ts ts',
  Cpl c ts -> reach c (t_s ts) -> crun c fl l ts = Some ts' -> Cpl c ts' /\ reach c (t_s ts').
Proof.
  intros Hok. induction l as [|a r IH]; intros ts ts' HC HR H; cbn [crun] in H.
  - inversion H; subst. split; assumption.
  - destruct (capply c fl a ts) as [ts1|] eqn:Ea; [|discriminate].
    apply (IH ts1 ts'); [eapply Cpl_step; eauto| |exact H].
    eapply reach_step; [exact HR|]. eapply capply_refines; eauto.
Qed.

(* ---------------------------------------------------------------- the Waiter's verdicts *)
Lemma wf_call_b_ok st enter cl : wf_call_b st enter cl = true -> wf_call st enter cl.
Proof.
  unfold wf_call_b. rewrite !andb_true_iff. intros [[H1 H2] H3]. constructor.
  - intros l El. rewrite El in H1. apply Z.leb_le. exact H1.
  - apply Z.leb_le. exact H2.
  - intros next En. rewrite En in H3. apply Z.leb_le. exact H3.
Qed.

Lemma wait_ok_of_token v st cl next :
  c_ctx_done cl = false -> c_cancel_in_sleep cl = false -> c_tok cl = Some next ->
  w_ok (snd (wait v st cl)) = true.
Proof.
  intros H1 H2 H3. unfold wait. rewrite H1, H3, H2.
  destruct (lastNow st) as [l|].
  - destruct (next - l <=? 0)%Z.
    + destruct v; [reflexivity|]. destruct (l - next <? max_overdue)%Z; reflexivity.
    + destruct (next - c_now cl <=? 0)%Z; reflexivity.
  - destruct (next - c_now cl <=? 0)%Z; reflexivity.
Qed.

(* the pending ghost of an instance about to decide: the C04 facts about its token *)
Definition pend_ok (ax : aux) : Prop :=
  exists tok enter ret, ax_pend ax = Some (tok, enter, ret) /\
    (tok <= ret)%Z /\ (enter <= ret)%Z /\
    (is_slow_down (ax_w ax) = true -> (max_overdue <= ret - tok)%Z) /\
    ((max_overdue <= enter - tok)%Z -> is_slow_down (ax_w ax) = true).

Definition Pend (ts : tstate) : Prop :=
  forall i x a, nth_error (insts (t_s ts)) i = Some x -> pc x = Dec a -> pend_ok (t_aux ts i).

(* what every decision record says: never before the token's time; discarded only with
   discard_overflow and only when the token was at least 2 s in the past when Wait returned;
   with discard_overflow every token at least 2 s late when Wait was entered is discarded;
   without it nothing is *)
Definition shot_fact (c : cfg) (r : shotrec) : Prop :=
  (sr_tok r <= sr_ret r)%Z /\ (sr_enter r <= sr_ret r)%Z /\
  (sr_dec r = Discard -> discard_overflow c = true /\ (max_overdue <= sr_ret r - sr_tok r)%Z) /\
  (discard_overflow c = true -> (max_overdue <= sr_enter r - sr_tok r)%Z -> sr_dec r = Discard) /\
  (discard_overflow c = false -> sr_dec r = Fire).

Definition is_disc (r : shotrec) : bool := match sr_dec r with Discard => true | Fire => false end.
Definition is_edisc (e : event) : bool := match ev_kind e with EDisc => true | _ => false end.
Definition disc_recs (l : list shotrec) : list (nat * nat) := map (fun r => (sr_inst r, sr_item r)) (filter is_disc l).
Definition disc_evs (l : list event) : list (nat * nat) := map (fun e => (ev_inst e, ev_item e)) (filter is_edisc l).

Definition Shots (c : cfg) (ts : tstate) : Prop :=
  Forall (shot_fact c) (t_shots ts) /\
  disc_recs (t_shots ts) = disc_evs (log (sh (t_s ts))) /\
  length (filter is_disc (t_shots ts)) = discarded (sh (t_s ts)) /\
  length (filter (fun r => negb (is_disc r)) (t_shots ts)) = request (sh (t_s ts)).

(* what a section does to the discard side of the C03 state *)
Lemma comp_local_disc c i slow lz ok s x s' x' :
  comp_local c i slow lz ok s x = Some (s', x') ->
  match pc x with
  | Dec a =>
      if discard_overflow c && slow
      then discarded s' = S (discarded s) /\ request s' = request s /\ log s' = mkEv i EDisc a :: log s
      else discarded s' = discarded s /\ request s' = S (request s) /\ log s' = log s
  | _ => discarded s' = discarded s /\ request s' = request s /\ disc_evs (log s') = disc_evs (log s)
  end.
Proof.
  unfold comp_local, local_step, draw, waste. destruct (pc x) eqn:Epc; intros H.
  - inversion H; subst. repeat split.
  - destruct (ammo s); inversion H; subst; repeat split.
  - destruct ok; [destruct (per_inst c)|]; inversion H; subst; repeat split.
  - destruct (discard_overflow c && slow); inversion H; subst; repeat split.
  - inversion H; subst; repeat split.
  - inversion H; subst; repeat split.
  - inversion H; subst; repeat split.
  - discriminate.
Qed.

(* a section leads to the decision point only by drawing a token *)
Lemma comp_local_to_dec c i slow lz ok s x s' x' a :
  comp_local c i slow lz ok s x = Some (s', x') -> pc x' = Dec a -> pc x = Wait a /\ ok = true.
Proof.
  unfold comp_local, local_step, draw, waste. destruct (pc x) eqn:Epc; intros H Hd.
  - inversion H; subst. cbn in Hd. destruct lz; discriminate.
  - destruct (ammo s); inversion H; subst; cbn in Hd; discriminate.
  - destruct ok; [destruct (per_inst c)|]; inversion H; subst; cbn in Hd; try discriminate; inversion Hd; subst; split; reflexivity.
  - destruct (discard_overflow c && slow); inversion H; subst; cbn in Hd; discriminate.
  - inversion H; subst; cbn in Hd; discriminate.
  - inversion H; subst; cbn in Hd; discriminate.
  - inversion H; subst; cbn in Hd; discriminate.
  - discriminate.
Qed.

Lemma world_ok_spec st w tok : world_ok st w tok = true ->
  wf_call st (w_enter w) (w_call w) /\ c_ctx_done (w_call w) = false /\
  c_cancel_in_sleep (w_call w) = false /\ c_tok (w_call w) = tok.
Proof.
  unfold world_ok. rewrite !andb_true_iff, !negb_true_iff. intros [[[H1 H2] H3] H4].
  split; [apply wf_call_b_ok; exact H1|]. split; [exact H2|]. split; [exact H3|].
  unfold otok_eqb in H4. destruct (c_tok (w_call w)), tok; try discriminate; [|reflexivity].
  apply Z.eqb_eq in H4. subst. reflexivity.
Qed.

Lemma Pend_step c fl a ts ts' : Pend ts -> capply c fl a ts = Some ts' -> Pend ts'.
Proof.
  intros HP H. destruct a as [p| |i w]; cbn [capply] in H.
  - unfold spawn in H. destruct (start_open (t_s ts)); [|discriminate]. inversion H; subst; clear H.
    intros j y a Hy Hd. cbn [t_s insts t_aux] in *.
    destruct (Nat.eqb_spec j (length (insts (t_s ts)))) as [->|Hne].
    + rewrite nth_error_app2 in Hy by lia. rewrite Nat.sub_diag in Hy. cbn in Hy. inversion Hy; subst y. discriminate.
    + rewrite set_aux_neq by exact Hne.
      assert (Hlt : j < length (insts (t_s ts))).
      { assert (Hj : nth_error (insts (t_s ts) ++ [new_inst c]) j <> None) by congruence.
        apply nth_error_Some in Hj. rewrite app_length in Hj. cbn in Hj. lia. }
      rewrite nth_error_app1 in Hy by exact Hlt. apply (HP j y a Hy Hd).
  - inversion H; subst. exact HP.
  - destruct (cstep_inst_inv c i w ts ts' H) as (x & sh' & x' & Ex & El & Es & _ & Hrest). cbv zeta in El, Hrest.
    intros j y a Hy Hd. rewrite Es in Hy. cbn [insts] in Hy. rewrite nth_upd in Hy.
    destruct (Nat.eqb_spec j i) as [->|Hne].
    + rewrite Ex in Hy. inversion Hy; subst y.
      destruct (comp_local_to_dec c i _ _ _ _ x sh' x' a El Hd) as [Epc Eok].
      rewrite Epc in Hrest. cbv zeta in Hrest. rewrite Eok in Hrest.
      destruct Hrest as (Hw & _ & -> & _). rewrite set_aux_eq.
      destruct (world_ok_spec _ _ _ Hw) as (Wf & C1 & C2 & C3).
      set (tok := snd (fst (abs_next (w_clock w) (if per_inst c then ax_fin (t_aux ts i) else t_fin ts)
                                     (if per_inst c then ax_its (t_aux ts i) else t_its ts)))) in *.
      destruct (wait wfixed (ax_w (t_aux ts i)) (w_call w)) as [st' o] eqn:Ewt.
      pose proof (wait_ok_of_token wfixed (ax_w (t_aux ts i)) (w_call w) tok C1 C2 C3) as Hok.
      rewrite Ewt in Hok. cbn [snd] in Hok.
      exists tok, (w_enter w), (return_lower (w_enter w) (w_call w) o). cbn [ax_pend ax_w fst snd].
      split; [reflexivity|].
      split; [exact (wait_no_early wfixed _ _ _ _ _ _ Wf Ewt Hok C3)|].
      split; [apply return_lower_ge_enter|].
      split; [exact (wait_slow_is_late wfixed _ _ _ _ _ _ Wf Ewt Hok C3)|].
      exact (wait_late_is_slow _ _ _ _ _ _ Wf Ewt Hok C3).
    + assert (Ea : t_aux ts' j = t_aux ts j).
      { destruct (pc x); try (destruct Hrest as (_ & -> & _); reflexivity).
        destruct Hrest as (_ & _ & -> & _). apply set_aux_neq. exact Hne. }
      rewrite Ea. apply (HP j y a Hy Hd).
Qed.

Lemma Shots_step c fl a ts ts' : Pend ts -> Shots c ts -> capply c fl a ts = Some ts' -> Shots c ts'.
Proof.
  intros HP (F & P & N1 & N2) H. destruct a as [p| |i w]; cbn [capply] in H.
  - unfold spawn in H. destruct (start_open (t_s ts)); [|discriminate]. inversion H; subst; clear H.
    repeat split; assumption.
  - inversion H; subst. repeat split; assumption.
  - destruct (cstep_inst_inv c i w ts ts' H) as (x & sh' & x' & Ex & El & Es & _ & Hrest). cbv zeta in El, Hrest.
    pose proof (comp_local_disc c i _ _ _ _ x sh' x' El) as Hd.
    unfold Shots. rewrite Es. cbn [t_s sh].
    destruct (pc x) eqn:Epc.
    all: try (destruct Hrest as (_ & _ & ->); destruct Hd as (-> & -> & ->); repeat split; assumption).
    + (* Wait *) destruct Hrest as (_ & _ & _ & ->). destruct Hd as (-> & -> & ->). repeat split; assumption.
    + (* Dec *)
      destruct Hrest as (_ & _ & ->).
      destruct (HP i x a Ex Epc) as (tok & enter & ret & Ep & L1 & L2 & L3 & L4).
      rewrite Ep. cbn [mkshot].
      set (slow := is_slow_down (ax_w (t_aux ts i))) in *.
      assert (Hfact : shot_fact c (mkShot i a tok enter ret (decide (discard_overflow c) slow))).
      { unfold shot_fact, decide. cbn [sr_tok sr_ret sr_enter sr_dec].
        split; [exact L1|]. split; [exact L2|].
        destruct (discard_overflow c), slow eqn:Esl; cbn [negb orb]; repeat split; try discriminate; try reflexivity; auto.
        intros _ Hl. specialize (L4 Hl). discriminate. }
      unfold decide in *.
      destruct (discard_overflow c) eqn:Edo, slow eqn:Esl; cbn [negb orb andb] in *;
        destruct Hd as (-> & -> & ->);
        (split; [constructor; assumption|]); unfold disc_recs, disc_evs in *;
        cbn [filter is_disc is_edisc sr_dec ev_kind negb map sr_inst sr_item ev_inst ev_item length];
        repeat split; try assumption; try (f_equal; assumption).
Qed.

Lemma Pend_init c fl p0 : Pend (cinit c fl p0).
Proof. intros i x a Hx. destruct i; discriminate. Qed.

Lemma Shots_init c fl p0 : Shots c (cinit c fl p0).
Proof. repeat split. constructor. Qed.

Theorem crun_shots c fl : forall l ts ts',
  Pend ts -> Shots c ts -> crun c fl l ts = Some ts' -> Pend ts' /\ Shots c ts'.
Proof.
  induction l as [|a r IH]; intros ts ts' HP HS H; cbn [crun] in H.
  - inversion H; subst. split; assumption.
  - destruct (capply c fl a ts) as [ts1|] eqn:Ea; [|discriminate].
    apply (IH ts1 ts'); [eapply Pend_step; eauto|eapply Shots_step; eauto|exact H].
Qed.

(* ---------------------------------------------------------------- assembled *)
Theorem composed_run c fl p0 l ts :
  sched_cfg_ok c fl -> crun c fl l (cinit c fl p0) = Some ts ->
  (* L2: the run is a run of the C03 model, and the counters are the streams *)
  reach c (t_s ts) /\ Cpl c ts /\
  (* L3: the decisions are the Waiter's *)
  Forall (shot_fact c) (t_shots ts) /\
  disc_recs (t_shots ts) = disc_evs (log (sh (t_s ts))) /\
  length (filter is_disc (t_shots ts)) = discarded (sh (t_s ts)) /\
  length (filter (fun r => negb (is_disc r)) (t_shots ts)) = request (sh (t_s ts)).
Proof.
  intros Hok H.
  destruct (crun_refines c fl Hok l _ ts (Cpl_init c fl p0 Hok) (reach_init c) H) as [HC HR].
  destruct (crun_shots c fl l _ ts (Pend_init c fl p0) (Shots_init c fl p0) H) as [_ (F & P & N1 & N2)].
  split; [exact HR|]. split; [exact HC|]. split; [exact F|]. split; [exact P|]. split; [exact N1|exact N2].
Qed.

(* at the end of a composed run over a finite schedule: the C03 statements, with the number of
   tokens = the static count of the schedule *)
Theorem composed_conservation c fl p0 l ts :
  sched_cfg_ok c fl -> crun c fl l (cinit c fl p0) = Some ts ->
  terminal (t_s ts) -> length (insts (t_s ts)) >= 1 ->
  fired (sh (t_s ts)) + discarded (sh (t_s ts)) =
    Nat.min ((if per_inst c then length (insts (t_s ts)) else 1) * Z.to_nat (sumcnt fl)) (ammo0 c) /\
  fired (sh (t_s ts)) = length (filter (fun r => negb (is_disc r)) (t_shots ts)) /\
  discarded (sh (t_s ts)) = length (filter is_disc (t_shots ts)).
Proof.
  intros Hok H Ht Hn. destruct (composed_run c fl p0 l ts Hok H) as (HR & _ & _ & _ & N1 & N2).
  destruct Hok as (_ & _ & Hprof).
  split; [|split].
  - rewrite (conservation c (t_s ts) HR Ht Hn). unfold tokens. rewrite Hprof.
    destruct (per_inst c); [reflexivity|]. rewrite Nat.mul_1_l. reflexivity.
  - destruct (counters c (t_s ts) HR Ht) as (E & _). rewrite N2. symmetry. exact E.
  - symmetry. exact N1.
Qed.

(* the decision section of the C03 model with oracle bit d is C04's [decide] *)
Lemma dec_section_is_decide c i d s x a : pc x = Dec a ->
  exists s' x', local_step c i d s x = Some (s', x') /\
    (decide (discard_overflow c) d = Discard ->
       pc x' = Rel a /\ discarded s' = S (discarded s) /\ fired s' = fired s /\ request s' = request s) /\
    (decide (discard_overflow c) d = Fire ->
       pc x' = Shoot a /\ discarded s' = discarded s /\ request s' = S (request s)).
Proof.
  intros Hpc. unfold local_step, decide. rewrite Hpc.
  destruct (discard_overflow c), d; cbn [andb negb orb]; eexists; eexists; (split; [reflexivity|]);
    split; intros H; try discriminate; cbn; repeat split.
Qed.

(* ---------------------------------------------------------------- the real tree as a counter *)
(* sequential callers: the tree the constructors build for a configuration without unlimited part
   (C02_seq_refines), asked Left / Next in any order with any non-decreasing clock (the engine
   never calls Start; the schedule starts itself at the first Next), answers "Left() = 0" and
   Next's ok exactly as the token counter of the C03 model initialised with the static count *)
Definition eng_ops (l : list sop) : list (Z * op) :=
  map (fun o => match o with SLeft now => (now, SchedTree.OLeft) | SNext now => (now, SchedTree.ONext) end) l.

Definition obs_bit (o : obs) : bool :=
  match o with RNext _ ok => ok | RLeft k => (k =? 0)%Z | _ => false end.

Lemma run_abs_counter fl : Forall is_leaf fl -> existsb unknown_part fl = false ->
  forall l a n, a_flat a = fl ->
    ((a_started a = false /\ n = Z.to_nat (sumcnt fl)) \/ (a_started a = true /\ tok_abs (a_items a) n)) ->
    map obs_bit (run_abs a (eng_ops l)) = counter_obs n l.
Proof.
  intros Hl Hu. induction l as [|[now|now] r IH]; intros a n Hfl Hst; [reflexivity| |];
    cbn [eng_ops map run_abs counter_obs].
  - (* Left *)
    fold (eng_ops r). cbn [obs_bit]. f_equal; [|apply IH; assumption].
    destruct Hst as [[Hs ->]|[Hs Habs]]; rewrite Hs.
    + rewrite Hfl. destruct (finite_stream fl 0%Z Hl Hu) as [W L]. rewrite W, L.
      destruct (Z.to_nat (sumcnt fl)); [reflexivity|]. cbn [Nat.eqb]. apply Z.eqb_neq. lia.
    + apply tok_abs_left. exact Habs.
  - (* Next *)
    fold (eng_ops r).
    set (a1 := if a_started a then a else a_start now a).
    assert (Habs : tok_abs (a_items a1) n /\ a_flat a1 = fl).
    { unfold a1. destruct Hst as [[Hs ->]|[Hs Habs]]; rewrite Hs; [|split; assumption].
      unfold a_start. rewrite Hfl. destruct (items_from now fl) as [its f] eqn:E. cbn [a_items a_flat].
      split; [|reflexivity]. replace its with (fst (items_from now fl)) by (rewrite E; reflexivity).
      apply finite_stream; assumption. }
    destruct Habs as [Habs Hfl1].
    destruct (tok_abs_next (a_items a1) n now (a_fin a1) Habs) as [Eok Tn].
    destruct (abs_next now (a_fin a1) (a_items a1)) as [[its' t] ok] eqn:En. cbn [fst snd] in Eok, Tn.
    cbn [map obs_bit]. rewrite Eok. f_equal. apply IH; [exact Hfl1|].
    right. split; [reflexivity|exact Tn].
Qed.

Theorem tree_is_counter c fuel now0 : (size_cfg c <= fuel)%nat -> existsb unknown_part (flatten_cfg c) = false ->
  exists s, build fuel now0 c = Ok s /\
    forall lo l, clock_ok lo (eng_ops l) ->
      map obs_bit (run_tree fuel s (eng_ops l)) = counter_obs (Z.to_nat (sumcnt (flatten_cfg c))) l.
Proof.
  intros Hsz Hu. destruct (seq_refines c fuel now0 Hsz) as (s & Eb & Href).
  exists s. split; [exact Eb|]. intros lo l Hck. rewrite (Href lo _ Hck).
  apply (run_abs_counter (flatten_cfg c) (flatten_cfg_leaves c) Hu l (a_init (flatten_cfg c))); [reflexivity|].
  left. split; reflexivity.
Qed.

Theorem step_refines c fl a ts ts' :
  sched_cfg_ok c fl -> Cpl c ts -> capply c fl a ts = Some ts' ->
  apply_action c (proj_action ts a) (t_s ts) = Some (t_s ts') /\ Cpl c ts'.
Proof. intros Hok HC H. split; [exact (capply_refines c fl a ts ts' HC H)|exact (Cpl_step c fl a ts ts' Hok HC H)]. Qed.
