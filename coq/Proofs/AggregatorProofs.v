(* Lemmas about the aggregator queue model (property C06, part b). *)
From Coq Require Import List Arith NArith Bool Lia ZifyN ZifyNat.
From PV Require Import Model.Aggregator.
Import ListNotations.
Local Open Scope N_scope.

(* order-preserving sub-list *)
Inductive Subseq {T} : list T -> list T -> Prop :=
| Sub_nil : Subseq [] []
| Sub_keep x a b : Subseq a b -> Subseq (x :: a) (x :: b)
| Sub_skip y a b : Subseq a b -> Subseq a (y :: b).

Lemma Subseq_refl {T} (l : list T) : Subseq l l.
Proof. induction l; constructor; assumption. Qed.

Lemma Subseq_app_keep {T} (a b : list T) x : Subseq a b -> Subseq (a ++ [x]) (b ++ [x]).
Proof. induction 1; cbn; constructor; try assumption. constructor. Qed.

Lemma Subseq_app_skip {T} (a b : list T) x : Subseq a b -> Subseq a (b ++ [x]).
Proof. induction 1; cbn; constructor; try assumption. constructor. Qed.

Ltac simp_st := cbn [queue buf sink dropped cancelled ph closed acc_log rep_log].

Section AggProofs.
  Variable A : Type.
  Variable enc : A -> option (list N).
  Variable k : kind.
  Variable Q : nat.

  Notation st := (st A).
  Notation step := (step A enc k Q).
  Notation run := (run A enc k Q).
  Notation enc_all := (enc_all A enc).

  Definition enc_ok (x : A) : Prop := enc x <> None.

  Fixpoint reports_of (h : list (ev A)) : list A :=
    match h with
    | [] => []
    | Report _ x :: r => x :: reports_of r
    | _ :: r => reports_of r
    end.

  Lemma enc_all_app a b : enc_all (a ++ b) = enc_all a ++ enc_all b.
  Proof. unfold Aggregator.enc_all. apply flat_map_app. Qed.

  Record Inv (s : st) : Prop := {
    inv_bytes : enc_all (acc_log s) = sink s ++ buf s ++ enc_all (queue s);
    inv_count : N.of_nat (length (acc_log s)) + dropped s = N.of_nat (length (rep_log s));
    inv_block : k = Blocking -> dropped s = 0 /\ acc_log s = rep_log s;
    inv_done : ph s = Done -> queue s = [] /\ buf s = [] /\ closed s = true;
    inv_canc : ph s <> Running -> cancelled s = true;
    inv_nocrash : ph s <> Crashed;
    inv_encq : Forall enc_ok (queue s);
    inv_sub : Subseq (acc_log s) (rep_log s);
    inv_len : (length (queue s) <= Q)%nat
  }.

  Lemma inv_init : Inv (init A).
  Proof.
    constructor; cbn; try reflexivity; try discriminate; try tauto; try constructor; try lia.
  Qed.

  Lemma step_inv s e s' :
    Inv s -> step s e = Some s' ->
    (forall g x, e = Report g x -> cancelled s = false /\ enc_ok x) ->
    Inv s'.
  Proof.
    intros I H Hr. destruct I as [Ib Ic Ibl Id Ica Incr Ieq Isub Ilen].
    destruct e as [g x| |n| | |]; cbn [Aggregator.step] in H.
    - (* Report *)
      destruct (Hr g x eq_refl) as [Hc Hx].
      assert (Hrun : ph s = Running).
      { destruct (ph s) eqn:E; try reflexivity; rewrite Ica in Hc by discriminate; discriminate. }
      destruct (Nat.ltb_spec (length (queue s)) Q) as [Hlt|Hge].
      + injection H as <-. constructor; simp_st.
        * rewrite !enc_all_app, Ib, <- !app_assoc. reflexivity.
        * rewrite !app_length. cbn [length]. lia.
        * intros Hk. destruct (Ibl Hk) as [-> ->]. split; reflexivity.
        * rewrite Hrun. discriminate.
        * rewrite Hrun. intros X; contradiction.
        * exact Incr.
        * apply Forall_app. split; [exact Ieq|]. constructor; [exact Hx|constructor].
        * apply Subseq_app_keep. exact Isub.
        * rewrite app_length. cbn [length]. lia.
      + destruct k eqn:Ek; [discriminate|]. injection H as <-. constructor; simp_st.
        * exact Ib.
        * rewrite app_length. cbn [length]. lia.
        * intros Hk. congruence.
        * exact Id.
        * exact Ica.
        * exact Incr.
        * exact Ieq.
        * apply Subseq_app_skip. exact Isub.
        * exact Ilen.
    - (* Handle *)
      destruct (active (ph s)) eqn:Ea; [|discriminate].
      destruct (queue s) as [|x q] eqn:Eq; [discriminate|].
      inversion Ieq as [|? ? Hx Hq]; subst.
      destruct (enc x) as [b|] eqn:Ex; [|exfalso; apply Hx; exact Ex].
      injection H as <-. constructor; simp_st.
      + rewrite Ib. change (enc_all (x :: q)) with ((match enc x with Some b => b | None => [] end) ++ enc_all q).
        rewrite Ex. rewrite <- !app_assoc. reflexivity.
      + exact Ic.
      + exact Ibl.
      + intros E. rewrite E in Ea. discriminate.
      + exact Ica.
      + exact Incr.
      + exact Hq.
      + exact Isub.
      + cbn [length] in Ilen. lia.
    - (* Flush *)
      destruct (active (ph s)) eqn:Ea; [|discriminate].
      injection H as <-. constructor; simp_st; try assumption.
      + rewrite Ib. rewrite <- !app_assoc. f_equal. rewrite app_assoc, firstn_skipn. reflexivity.
      + intros E. rewrite E in Ea. discriminate.
    - (* Cancel *)
      injection H as <-. constructor; simp_st; try assumption. intros _. reflexivity.
    - (* SeeCancel *)
      destruct (ph s) eqn:Ep; try discriminate. destruct (cancelled s) eqn:Ec; [|discriminate].
      injection H as <-. constructor; simp_st; try assumption; try discriminate. intros _. reflexivity.
    - (* Finish *)
      destruct (ph s) eqn:Ep; try discriminate. destruct (queue s) eqn:Eq; [|discriminate].
      injection H as <-. constructor; simp_st; try assumption; try discriminate.
      + rewrite Ib. cbn. rewrite !app_nil_r. reflexivity.
      + intros _. repeat split.
      + intros _. apply Ica. discriminate.
  Qed.

  Lemma step_cancelled s e s' : step s e = Some s' ->
    cancelled s' = match e with Cancel => true | _ => cancelled s end.
  Proof.
    destruct e as [g x| |n| | |]; cbn [Aggregator.step]; intros H.
    - destruct (length (queue s) <? Q)%nat; [injection H as <-; reflexivity|].
      destruct k; [discriminate|injection H as <-; reflexivity].
    - destruct (active (ph s)); [|discriminate]. destruct (queue s); [discriminate|].
      destruct (enc a); injection H as <-; reflexivity.
    - destruct (active (ph s)); [|discriminate]. injection H as <-; reflexivity.
    - injection H as <-; reflexivity.
    - destruct (ph s); try discriminate. destruct (cancelled s) eqn:E; [|discriminate]. injection H as <-. reflexivity.
    - destruct (ph s); try discriminate. destruct (queue s); [|discriminate]. injection H as <-; reflexivity.
  Qed.

  Lemma run_inv h : forall s s',
    run s h = Some s' -> Inv s -> reports_first A (cancelled s) h = true -> Forall enc_ok (reports_of h) -> Inv s'.
  Proof.
    induction h as [|e r IH]; intros s s' H I Ho He; cbn [Aggregator.run] in H.
    - injection H as <-. exact I.
    - destruct (step s e) as [s1|] eqn:Es; [|discriminate].
      pose proof (step_cancelled s e s1 Es) as Hc.
      apply (IH s1 s' H).
      + apply (step_inv s e s1 I Es). intros g x ->. cbn in Ho, He.
        apply andb_prop in Ho. destruct Ho as [Ho _]. apply negb_true_iff in Ho.
        inversion He; subst. split; assumption.
      + rewrite Hc. destruct e; cbn in Ho; try exact Ho. apply andb_prop in Ho. tauto.
      + destruct e; cbn in He; try exact He. inversion He; assumption.
  Qed.

  Lemma run_rep_log h : forall s s', run s h = Some s' -> rep_log s' = rep_log s ++ reports_of h.
  Proof.
    induction h as [|e r IH]; intros s s' H; cbn [Aggregator.run] in H.
    - injection H as <-. cbn. rewrite app_nil_r. reflexivity.
    - destruct (step s e) as [s1|] eqn:Es; [|discriminate]. rewrite (IH s1 s' H).
      destruct e as [g x| |n| | |]; cbn [Aggregator.step] in Es; cbn [reports_of].
      + destruct (length (queue s) <? Q)%nat.
        * injection Es as <-. cbn. rewrite <- app_assoc. reflexivity.
        * destruct k; [discriminate|]. injection Es as <-. cbn. rewrite <- app_assoc. reflexivity.
      + destruct (active (ph s)); [|discriminate]. destruct (queue s); [discriminate|].
        destruct (enc a); injection Es as <-; reflexivity.
      + destruct (active (ph s)); [|discriminate]. injection Es as <-; reflexivity.
      + injection Es as <-; reflexivity.
      + destruct (ph s); try discriminate. destruct (cancelled s); [|discriminate]. injection Es as <-; reflexivity.
      + destruct (ph s); try discriminate. destruct (queue s); [|discriminate]. injection Es as <-; reflexivity.
  Qed.

  (* C06_queue_complete *)
  Theorem queue_complete h s :
    run (init A) h = Some s ->
    reports_first A false h = true ->
    Forall enc_ok (reports_of h) ->
    ph s = Done ->
    sink s = enc_all (acc_log s) /\ buf s = [] /\ queue s = [] /\ closed s = true
    /\ rep_log s = reports_of h
    /\ Subseq (acc_log s) (reports_of h)
    /\ N.of_nat (length (acc_log s)) + dropped s = N.of_nat (length (reports_of h))
    /\ (k = Blocking -> acc_log s = reports_of h /\ dropped s = 0)
    /\ run_error A s = (if dropped s =? 0 then None else Some (dropped s)).
  Proof.
    intros H Ho He Hd.
    pose proof (run_inv h (init A) s H inv_init Ho He) as I.
    pose proof (run_rep_log h (init A) s H) as Hl. cbn in Hl.
    destruct I as [Ib Ic Ibl Idn Ica Incr Ieq Isub Ilen].
    destruct (Idn Hd) as (Eq & Eb & Ecl).
    rewrite Eq, Eb in Ib. cbn in Ib. rewrite app_nil_r in Ib.
    rewrite Hl in *.
    repeat split; try assumption.
    - symmetry. exact Ib.
    - destruct (Ibl H0) as [_ E]. exact E.
    - destruct (Ibl H0) as [E _]. exact E.
  Qed.

  (* Run can always return once the context is cancelled: SeeCancel, one Handle per queued
     sample, Finish are all enabled in that order (no deadlock, |queue|+2 steps). *)
  Lemma drain_loop : forall q s, queue s = q -> ph s = Draining -> Forall enc_ok q ->
    exists s', run s (repeat Handle (length q) ++ [Finish]) = Some s' /\ ph s' = Done.
  Proof.
    induction q as [|x q IH]; intros s Eq Ep Hq.
    - cbn. rewrite Ep, Eq. eexists. split; reflexivity.
    - cbn [length repeat app Aggregator.run Aggregator.step]. rewrite Ep, Eq. cbn [active].
      inversion Hq as [|? ? Hx Hq']; subst.
      destruct (enc x) as [b|] eqn:Ex; [|exfalso; apply Hx; exact Ex].
      apply IH; [reflexivity|reflexivity|exact Hq'].
  Qed.

  Lemma finish_enabled s : Inv s -> ph s = Running -> cancelled s = true ->
    exists s', run s (finish_history A s) = Some s' /\ ph s' = Done.
  Proof.
    intros I Ep Ec. unfold finish_history. cbn [Aggregator.run Aggregator.step]. rewrite Ep, Ec.
    apply drain_loop; [reflexivity|reflexivity|]. exact (inv_encq s I).
  Qed.
  Theorem run_can_finish h s :
    run (init A) h = Some s -> reports_first A false h = true -> Forall enc_ok (reports_of h) ->
    ph s = Running -> cancelled s = true ->
    exists s', run s (finish_history A s) = Some s' /\ ph s' = Done.
  Proof.
    intros H Ho He. apply finish_enabled. exact (run_inv h (init A) s H inv_init Ho He).
  Qed.

  Lemma run_app h1 : forall h2 s, run s (h1 ++ h2) = match run s h1 with Some s1 => run s1 h2 | None => None end.
  Proof.
    induction h1 as [|e r IH]; intros h2 s; cbn [app Aggregator.run]; [reflexivity|].
    destruct (step s e); [apply IH|reflexivity].
  Qed.
End AggProofs.

(* Without the ordering hypothesis the conclusion fails: a Report that completes after Run
   has returned stays in the queue for ever (samples = numbers, line = the number and LF). *)
Definition enc_demo (x : N) : option (list N) := Some [x; 10].

Lemma late_report_is_lost :
  exists h s, run N enc_demo Blocking 4 (init N) h = Some s /\ ph s = Done
              /\ reports_first N false h = false
              /\ sink s <> enc_all N enc_demo (rep_log s) /\ dropped s = 0.
Proof.
  exists [Report 0 1; Cancel; SeeCancel; Handle; Finish; Report 0 2]. eexists.
  split; [vm_compute; reflexivity|]. split; [reflexivity|]. split; [reflexivity|]. split; [|reflexivity].
  vm_compute. discriminate.
Qed.

(* ---------- the executable specification accepts what the theorem guarantees ---------- *)

Lemma Subseq_tail {T} (x : T) a b : Subseq (x :: a) b -> Subseq a b.
Proof.
  remember (x :: a) as l eqn:E. intros H. revert x a E.
  induction H as [|y a0 b0 H IH|y a0 b0 H IH]; intros x a E.
  - discriminate.
  - injection E as -> ->. constructor. exact H.
  - constructor. eapply IH. exact E.
Qed.

Lemma subseq_b_complete a b : Subseq a b -> subseq_b a b = true.
Proof.
  revert a. induction b as [|y b IH]; intros a H.
  - inversion H. reflexivity.
  - destruct a as [|x a]; [reflexivity|]. cbn [subseq_b].
    destruct (N.eqb_spec x y) as [->|Hne].
    + apply IH. inversion H; subst; [assumption|]. eapply Subseq_tail. eassumption.
    + apply IH. inversion H; subst; [contradiction|assumption].
Qed.

Lemma Subseq_filter {T} (p : T -> bool) a b : Subseq a b -> Subseq (filter p a) (filter p b).
Proof.
  induction 1; cbn [filter].
  - constructor.
  - destruct (p x); [constructor|]; assumption.
  - destruct (p y); [constructor|]; assumption.
Qed.

Lemma Subseq_In {T} (a b : list T) x : Subseq a b -> In x a -> In x b.
Proof.
  induction 1; intros Hin; [destruct Hin| |].
  - destruct Hin as [->|Hin]; [left; reflexivity|right; auto].
  - right; auto.
Qed.

Definition by_owner (owner : N -> N) (G : nat) (l : list N) : list (list N) :=
  map (fun g => filter (fun i => owner i =? N.of_nat g) l) (seq 0 G).

Lemma per_owner_ok_seq owner lines reps : Subseq lines reps -> forall n g0,
  per_owner_ok owner (N.of_nat g0) (map (fun g => filter (fun i => owner i =? N.of_nat g) reps) (seq g0 n)) lines = true.
Proof.
  intros Hs. induction n as [|n IH]; intros g0; [reflexivity|].
  cbn [seq map per_owner_ok]. apply andb_true_intro. split.
  - apply subseq_b_complete. apply Subseq_filter. exact Hs.
  - replace (N.of_nat g0 + 1) with (N.of_nat (S g0)) by lia. apply IH.
Qed.

Lemma total_len_cons0 (a : list N) r : total_len (a :: r) = (length a + total_len r)%nat.
Proof. reflexivity. Qed.

Lemma total_len_cons (p : nat -> N -> bool) x l gs :
  total_len (map (fun g => filter (p g) (x :: l)) gs) =
  (length (filter (fun g => p g x) gs) + total_len (map (fun g => filter (p g) l) gs))%nat.
Proof.
  induction gs as [|g gs IH]; [reflexivity|].
  rewrite !map_cons, !total_len_cons0, IH.
  change (filter (p g) (x :: l)) with (if p g x then x :: filter (p g) l else filter (p g) l).
  change (filter (fun g0 => p g0 x) (g :: gs)) with (if p g x then g :: filter (fun g0 => p g0 x) gs else filter (fun g0 => p g0 x) gs).
  destruct (p g x); cbn [length]; lia.
Qed.

Ltac bool_lia := repeat match goal with
  | H : (_ && _) = true |- _ => apply andb_prop in H; destruct H
  | H : (_ && _) = false |- _ => apply andb_false_iff in H; destruct H
  | H : (_ <=? _)%nat = true |- _ => apply Nat.leb_le in H
  | H : (_ <=? _)%nat = false |- _ => apply Nat.leb_gt in H
  | H : (_ <? _)%nat = true |- _ => apply Nat.ltb_lt in H
  | H : (_ <? _)%nat = false |- _ => apply Nat.ltb_ge in H
  end; lia.

Lemma count_owner_seq (v : N) : forall n a,
  length (filter (fun g => v =? N.of_nat g) (seq a n)) =
  if (a <=? N.to_nat v)%nat && (N.to_nat v <? a + n)%nat then 1%nat else 0%nat.
Proof.
  induction n as [|n IH]; intros a.
  - cbn [seq filter length]. destruct ((a <=? N.to_nat v)%nat && (N.to_nat v <? a + 0)%nat) eqn:E; [bool_lia|reflexivity].
  - cbn [seq filter]. destruct (N.eqb_spec v (N.of_nat a)) as [->|Hne].
    + cbn [length]. rewrite IH. rewrite Nat2N.id.
      destruct ((S a <=? a)%nat && (a <? S a + n)%nat) eqn:E1; [bool_lia|].
      destruct ((a <=? a)%nat && (a <? a + S n)%nat) eqn:E2; [reflexivity|bool_lia].
    + rewrite IH.
      assert (N.to_nat v <> a) by (intros E; apply Hne; lia).
      destruct ((S a <=? N.to_nat v)%nat && (N.to_nat v <? S a + n)%nat) eqn:E1;
        destruct ((a <=? N.to_nat v)%nat && (N.to_nat v <? a + S n)%nat) eqn:E2; try reflexivity; bool_lia.
Qed.

Lemma total_len_by_owner owner G l : Forall (fun x => owner x < N.of_nat G) l -> total_len (by_owner owner G l) = length l.
Proof.
  unfold by_owner. induction l as [|x l IH]; intros H.
  - induction (seq 0 G) as [|g gs IHg]; [reflexivity|]. rewrite map_cons, total_len_cons0, IHg. reflexivity.
  - inversion H as [|? ? Hx Hl]; subst.
    rewrite (total_len_cons (fun g i => owner i =? N.of_nat g) x l (seq 0 G)). rewrite (IH Hl).
    rewrite count_owner_seq. cbn [Nat.leb andb].
    destruct (Nat.ltb_spec (N.to_nat (owner x)) (0 + G)); [reflexivity|lia].
Qed.

(* What C06_queue_complete guarantees is accepted by the executable specification [complete_b]
   (samples are numbers; [owner] maps a sample to the goroutine that reports it). *)
Theorem queue_complete_spec (enc : N -> option (list N)) k Q owner G h s :
  run N enc k Q (init N) h = Some s ->
  reports_first N false h = true ->
  Forall (enc_ok N enc) (reports_of N h) ->
  ph s = Done ->
  Forall (fun x => owner x < N.of_nat G) (reports_of N h) ->
  complete_b k owner (by_owner owner G (reports_of N h)) (acc_log s) (dropped s) (run_error N s) = true.
Proof.
  intros H Ho He Hd Hown.
  destruct (queue_complete N enc k Q h s H Ho He Hd) as (_ & _ & _ & _ & _ & Hsub & Hcnt & Hblk & Herr).
  unfold complete_b. repeat (apply andb_true_intro; split).
  - unfold by_owner. apply (per_owner_ok_seq owner (acc_log s) (reports_of N h) Hsub G 0%nat).
  - apply forallb_forall. intros x Hx. unfold by_owner. rewrite map_length, seq_length.
    apply N.ltb_lt. rewrite Forall_forall in Hown. apply Hown. eapply Subseq_In; eassumption.
  - apply N.eqb_eq. rewrite total_len_by_owner by exact Hown. exact Hcnt.
  - rewrite Herr. destruct (dropped s =? 0) eqn:E; [reflexivity|]. apply N.eqb_refl.
  - destruct k; [|reflexivity]. destruct (Hblk eq_refl) as [_ ->]. reflexivity.
Qed.
