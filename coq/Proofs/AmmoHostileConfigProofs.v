(* C13 (round 7): lemmas about Model/AmmoHostileConfig.v. *)
From Coq Require Import List NArith ZArith Bool Lia.
From PV Require Import Lib.AmmoBytes Lib.AmmoDecimal Lib.AmmoLines Model.AmmoCommon Model.AmmoRobust
  Model.AmmoConfigInput Model.AmmoHostileConfig.
Import ListNotations.
Local Open Scope Z_scope.

(* ---------- numeric options ---------- *)

Lemma opt_accept_exact f z v : opt_accept f z = Some v -> v = z /\ int_min <= z <= uint_max.
Proof.
  unfold opt_accept, int_min, int_max, uint_max. destruct f;
    (destruct (_ && _) eqn:E; [|discriminate]); intros H; injection H as <-;
    apply andb_prop in E; destruct E as [A B]; apply Z.leb_le in A; apply Z.leb_le in B; lia.
Qed.

Lemma opt_accept_negative_rejected f z : f <> OInt -> z < 0 -> opt_accept f z = None.
Proof.
  intros Hf Hz. unfold opt_accept. destruct f; try congruence;
    (replace (0 <=? z) with false by (symmetry; apply Z.leb_gt; lia)); reflexivity.
Qed.

Lemma opt_accept_unsigned_iff z : (exists v, opt_accept OUint z = Some v) <-> 0 <= z <= uint_max.
Proof.
  unfold opt_accept. split.
  - intros [v H]. destruct (_ && _) eqn:E; [|discriminate].
    apply andb_prop in E. destruct E as [A B]. apply Z.leb_le in A. apply Z.leb_le in B. lia.
  - intros [A B]. exists z. apply Z.leb_le in A. apply Z.leb_le in B. rewrite A, B. reflexivity.
Qed.

(* the code's scanner set-up reserves nothing, whatever the number *)
Lemma scanner_setup_code max : scanner_setup false max = VOk 0.
Proof. unfold scanner_setup. destruct (max =? 0); reflexivity. Qed.

Lemma scanner_setup_prealloc_panics max :
  max < 0 \/ max_alloc < max -> max <> 0 -> scanner_setup true max = VPanic.
Proof.
  intros H Hn. unfold scanner_setup, make_cap.
  replace (max =? 0) with false by (symmetry; apply Z.eqb_neq; exact Hn).
  destruct H as [H|H].
  - replace (max <? 0) with true by (symmetry; apply Z.ltb_lt; exact H). reflexivity.
  - replace (max_alloc <? max) with true by (symmetry; apply Z.ltb_lt; exact H). rewrite orb_true_r. reflexivity.
Qed.

Lemma http_provider_opts_no_panic limit passes max : http_provider_opts false limit passes max <> VPanic.
Proof.
  unfold http_provider_opts. destruct (opt_accept OUint limit); [|discriminate].
  destruct (opt_accept OUint passes); [|discriminate]. destruct (opt_accept OInt max); [|discriminate].
  rewrite scanner_setup_code. discriminate.
Qed.

Lemma http_provider_opts_reserves_nothing limit passes max n :
  http_provider_opts false limit passes max = VOk n -> n = 0.
Proof.
  unfold http_provider_opts. destruct (opt_accept OUint limit); [|discriminate].
  destruct (opt_accept OUint passes); [|discriminate]. destruct (opt_accept OInt max); [|discriminate].
  rewrite scanner_setup_code. intros H. injection H as <-. reflexivity.
Qed.

Lemma http_provider_opts_negative_rejected limit passes max :
  limit < 0 \/ passes < 0 -> http_provider_opts false limit passes max = VErr.
Proof.
  intros H. unfold http_provider_opts. destruct H as [H|H].
  - rewrite (opt_accept_negative_rejected OUint limit) by (congruence || exact H). reflexivity.
  - rewrite (opt_accept_negative_rejected OUint passes) by (congruence || exact H).
    destruct (opt_accept OUint limit); reflexivity.
Qed.

(* ---------- the scanner limit ---------- *)

Lemma scan_lines_opt_negative max file : max < 0 -> scan_lines_opt max file = ([], STooLong).
Proof.
  intros H. unfold scan_lines_opt, scan_limit.
  replace (max =? 0) with false by (symmetry; apply Z.eqb_neq; lia).
  replace (max <? 0) with true by (symmetry; apply Z.ltb_lt; exact H). reflexivity.
Qed.

(* lines shorter than the limit in front of anything: they are scanned as they are *)
Lemma cap_lines_prefix m a b :
  forallb (fun l => N.ltb (nlen l) m) a = true ->
  exists x e, cap_lines m (a ++ b) = (a ++ x, e).
Proof.
  induction a as [|l r IH]; intros H.
  - cbn [app]. destruct (cap_lines m b) as [x e]. exists x, e. reflexivity.
  - cbn [forallb] in H. apply andb_prop in H. destruct H as [Hl Hr].
    destruct (IH Hr) as (x & e & E). exists x, e. cbn [app cap_lines]. rewrite Hl, E. reflexivity.
Qed.

(* ---------- grpc/json provider ---------- *)

Section Grpc.
  Variable unmarshal : bytes -> option (bytes * bytes).
  Variable cont : bool.

  (* the first deliveries depend only on the lines they come from: whatever follows those lines, however the
     scanner ends, whatever a later pass would see *)
  Lemma grpc_run_opts_prefix limit passes k :
    forall a x y all all' e e' ammo pass,
      (k <= length a)%nat ->
      grpc_run_opts unmarshal cont limit passes k all e ammo pass (a ++ x) =
      grpc_run_opts unmarshal cont limit passes k all' e' ammo pass (a ++ y).
  Proof.
    induction k as [|k IH]; intros a x y all all' e e' ammo pass Hk; [reflexivity|].
    destruct a as [|l r]; [cbn [length] in Hk; lia|].
    cbn [length] in Hk. cbn [app grpc_run_opts].
    destruct (limit_reached limit ammo); [reflexivity|].
    destruct (unmarshal (drop_cr l)) as [[t c]|].
    - f_equal. apply IH. lia.
    - destruct cont; [|reflexivity]. f_equal. apply IH. lia.
  Qed.

  (* never a loop that does not deliver: at most k results for k steps, and the run is finite by construction;
     the results of an accepted configuration never contain anything but deliveries and one end *)
  Lemma grpc_run_opts_length limit passes k : forall all e ammo pass left,
    (length (grpc_run_opts unmarshal cont limit passes k all e ammo pass left) <= k)%nat.
  Proof.
    induction k as [|k IH]; intros all e ammo pass left; [cbn; lia|].
    assert (Hstep : forall l r ps,
      (length (if limit_reached limit ammo then [PDone]
               else match unmarshal (drop_cr l) with
                    | Some (t, c) => PDeliver t c :: grpc_run_opts unmarshal cont limit passes k all e (ammo + 1) ps r
                    | None => if cont then PInvalid :: grpc_run_opts unmarshal cont limit passes k all e (ammo + 1) ps r else [PErr]
                    end) <= S k)%nat).
    { intros l r ps. destruct (limit_reached limit ammo); [cbn; lia|].
      destruct (unmarshal (drop_cr l)) as [[t c]|].
      - cbn [length]. specialize (IH all e (ammo + 1) ps r). lia.
      - destruct cont; [|cbn; lia]. cbn [length]. specialize (IH all e (ammo + 1) ps r). lia. }
    cbn [grpc_run_opts]. destruct left as [|l r]; [|apply Hstep].
    destruct e; [|cbn; lia]. destruct (ammo =? 0); [cbn; lia|].
    destruct (limit_reached limit ammo); [cbn; lia|].
    destruct (negb (passes =? 0) && (passes <=? pass)); [cbn; lia|].
    destruct all as [|l r]; [cbn; lia|apply Hstep].
  Qed.

  (* a negative MaxAmmoSize: an error at once, for every file, nothing delivered *)
  Lemma grpc_provider_negative_max limit passes max k file rs :
    max < 0 -> grpc_provider unmarshal cont limit passes max (S k) file = Some rs -> rs = [PErr].
  Proof.
    intros Hm. unfold grpc_provider.
    destruct (opt_accept OIntMin0 limit); [|discriminate]. destruct (opt_accept OIntMin0 passes); [|discriminate].
    destruct (opt_accept OInt max) as [m|] eqn:Em; [|discriminate].
    apply opt_accept_exact in Em. destruct Em as [-> _].
    rewrite scanner_setup_code, scan_lines_opt_negative by exact Hm.
    intros H. injection H as <-. reflexivity.
  Qed.

  Lemma grpc_provider_negative_rejected limit passes max k file :
    limit < 0 \/ passes < 0 -> grpc_provider unmarshal cont limit passes max k file = None.
  Proof.
    intros H. unfold grpc_provider. destruct H as [H|H].
    - rewrite (opt_accept_negative_rejected OIntMin0 limit) by (congruence || exact H). reflexivity.
    - rewrite (opt_accept_negative_rejected OIntMin0 passes) by (congruence || exact H).
      destruct (opt_accept OIntMin0 limit); reflexivity.
  Qed.

  (* MaxAmmoSize and the lines in front of the first line it refuses: for EVERY value of the option (any sign,
     any magnitude), if the first lines [a] of the file are shorter than the limit in force, the first
     deliveries are those the provider makes from [a] under the default limit — a too-long line, or a hostile
     limit, never alters how the entries in front of it are delivered *)
  Lemma grpc_max_ammo_size_prefix limit passes max m a b k :
    scan_limit max = Some m ->
    forallb (fun l => N.ltb (nlen l) m) a = true ->
    forallb (fun l => N.ltb (nlen l) max_token) a = true ->
    (k <= length a)%nat ->
    (let '(ls, e) := cap_lines m (a ++ b) in grpc_run_opts unmarshal cont limit passes k ls e 0 1 ls) =
    (let '(ls, e) := cap_lines max_token (a ++ b) in grpc_run_opts unmarshal cont limit passes k ls e 0 1 ls).
  Proof.
    intros _ H1 H2 Hk.
    destruct (cap_lines_prefix m a b H1) as (x & e & E). destruct (cap_lines_prefix max_token a b H2) as (y & e' & E').
    rewrite E, E'. apply grpc_run_opts_prefix. exact Hk.
  Qed.
End Grpc.

(* ---------- syntax stage ---------- *)

Section Syntax.
  Variable A : Type.

  (* a text the parser reports errors for is rejected, whatever the parser recovered from it and whatever the
     later stages would make of that *)
  Lemma hcl_syntax_error_rejected (hcl : bytes -> hcl_parse A) yaml decode text :
    hp_errors (hcl text) = true -> read_description A true FHcl hcl yaml decode text = VErr.
  Proof. intros H. unfold read_description, hcl_syntax_stage. rewrite H. reflexivity. Qed.

  Lemma yaml_syntax_error_rejected f (hcl : bytes -> hcl_parse A) yaml decode text :
    f = FYaml \/ f = FYml -> yaml text = None -> read_description A true f hcl yaml decode text = VErr.
  Proof. intros [->| ->] H; unfold read_description; rewrite H; reflexivity. Qed.

  (* accepted exactly when the syntax is fine and the later stages accept *)
  Lemma hcl_accepted_iff (hcl : bytes -> hcl_parse A) yaml decode text cs :
    read_description A true FHcl hcl yaml decode text = VOk cs <->
    hp_errors (hcl text) = false /\ exists a, hp_file (hcl text) = Some a /\ decode a = VOk cs.
  Proof.
    unfold read_description, hcl_syntax_stage. destruct (hp_errors (hcl text)).
    - split; [discriminate|]. intros [H _]. discriminate.
    - destruct (hp_file (hcl text)) as [a|].
      + split; [intros H; split; [reflexivity|exists a; split; [reflexivity|exact H]]|].
        intros [_ (a' & Ha & Hd)]. injection Ha as <-. exact Hd.
      + split; [discriminate|]. intros [_ (a' & Ha & _)]. discriminate.
  Qed.

  (* the syntax stage itself never panics when the parser keeps its contract (no error => a file) *)
  Lemma read_description_no_panic f (hcl : bytes -> hcl_parse A) yaml decode text :
    (forall t, hp_errors (hcl t) = false -> hp_file (hcl t) <> None) ->
    (forall a, decode a <> VPanic) ->
    read_description A true f hcl yaml decode text <> VPanic.
  Proof.
    intros Hc Hd. unfold read_description, hcl_syntax_stage. destruct f; try discriminate.
    - destruct (hp_errors (hcl text)) eqn:E; [discriminate|].
      specialize (Hc text E). destruct (hp_file (hcl text)) as [a|]; [|congruence].
      specialize (Hd a). destruct (decode a); congruence.
    - destruct (yaml text) as [a|]; [|discriminate]. specialize (Hd a). destruct (decode a); congruence.
    - destruct (yaml text) as [a|]; [|discriminate]. specialize (Hd a). destruct (decode a); congruence.
  Qed.
End Syntax.

(* the nil check instead of the diagnostics: a broken text is accepted as far as it was recovered *)
Lemma hcl_nil_check_refuted :
  exists (hcl : bytes -> hcl_parse unit) text,
    hp_errors (hcl text) = true /\
    read_description unit false FHcl hcl (fun _ => None) (fun _ => VOk [1]) text = VOk [1].
Proof. exists (fun _ => {| hp_errors := true; hp_file := Some tt |}), []. split; reflexivity. Qed.

(* ---------- round 8: a pass that ends at an entry the scanner refuses ---------- *)

Section GrpcRefusedProofs.
  Variable unmarshal : bytes -> option (bytes * bytes).
  Variable cont : bool.

  (* the pass loop on a file with a refused entry IS the specification: no dependence on Passes, on the pass
     counter or on what a pass starts with *)
  Lemma grpc_refused_run limit passes k : forall all ammo pass left,
    grpc_run_opts unmarshal cont limit passes k all STooLong ammo pass left =
    firstn k (refused_spec unmarshal cont limit ammo left).
  Proof.
    induction k as [|k IH]; intros all ammo pass left; [reflexivity|].
    destruct left as [|l r]; [cbn [grpc_run_opts refused_spec firstn]; rewrite firstn_nil; reflexivity|].
    cbn [grpc_run_opts refused_spec].
    destruct (limit_reached limit ammo); [cbn [firstn]; rewrite firstn_nil; reflexivity|].
    destruct (unmarshal (drop_cr l)) as [[t c]|].
    - cbn [firstn]. f_equal. apply IH.
    - destruct cont; [|cbn [firstn]; rewrite firstn_nil; reflexivity]. cbn [firstn]. f_equal. apply IH.
  Qed.

  Lemma grpc_provider_refused limit passes max l p m a k file :
    opt_accept OIntMin0 limit = Some l -> opt_accept OIntMin0 passes = Some p -> opt_accept OInt max = Some m ->
    scan_lines_opt m file = (a, STooLong) ->
    grpc_provider unmarshal cont limit passes max k file = Some (firstn k (refused_spec unmarshal cont l 0 a)).
  Proof.
    intros Hl Hp Hm Hs. unfold grpc_provider. rewrite Hl, Hp, Hm, scanner_setup_code, Hs.
    f_equal. apply grpc_refused_run.
  Qed.

  (* the driver's expectation is the model's answer whenever it has one *)
  Lemma grpc_refused_expected_sound limit passes max k file rs :
    grpc_refused_expected unmarshal cont limit passes max k file = Some rs ->
    grpc_provider unmarshal cont limit passes max k file = Some rs.
  Proof.
    unfold grpc_refused_expected.
    destruct (opt_accept OIntMin0 limit) as [l|] eqn:El; [|discriminate].
    destruct (opt_accept OIntMin0 passes) as [p|] eqn:Ep; [|discriminate].
    destruct (opt_accept OInt max) as [m|] eqn:Em; [|discriminate].
    destruct (scan_lines_opt m file) as [a e] eqn:Es. destruct e; [discriminate|].
    intros H. injection H as <-. eapply grpc_provider_refused; eassumption.
  Qed.

  (* what the consumer sees of one line *)
  Definition deliver_of (l : bytes) : pres :=
    match unmarshal (drop_cr l) with Some (t, c) => PDeliver t c | None => PInvalid end.

  Definition decodable (l : bytes) : Prop := unmarshal (drop_cr l) <> None.

  (* when the limit does not end the run in front of the refused entry: every accepted line is delivered, in
     order, and then the run FAILS — never a successful end *)
  Lemma refused_spec_reaches_error limit : forall left ammo,
    0 <= ammo ->
    limit = 0 \/ ammo + Z.of_nat (length left) <= limit ->
    (cont = true \/ Forall decodable left) ->
    refused_spec unmarshal cont limit ammo left = map deliver_of left ++ [PErr].
  Proof.
    induction left as [|l r IH]; intros ammo H0 Hlim Hdec; [reflexivity|].
    cbn [refused_spec map app].
    assert (Hr : limit_reached limit ammo = false).
    { unfold limit_reached. destruct Hlim as [->|Hlim]; [reflexivity|].
      cbn [length] in Hlim. apply andb_false_iff. right. apply Z.leb_gt. lia. }
    rewrite Hr. unfold deliver_of at 1.
    assert (Hnext : refused_spec unmarshal cont limit (ammo + 1) r = map deliver_of r ++ [PErr]).
    { apply IH; [lia| |].
      - destruct Hlim as [->|Hlim]; [left; reflexivity|right]. cbn [length] in Hlim. lia.
      - destruct Hdec as [Hc|Hd]; [left; exact Hc|right]. inversion Hd; assumption. }
    destruct (unmarshal (drop_cr l)) as [[t c]|] eqn:Eu.
    - rewrite Hnext. reflexivity.
    - destruct Hdec as [->|Hd]; [rewrite Hnext; reflexivity|].
      inversion Hd as [|? ? Hl _]. unfold decodable in Hl. congruence.
  Qed.

  (* a successful end needs the limit: it is set and lies within the accepted lines *)
  Lemma refused_spec_done_needs_limit limit : forall left ammo,
    0 <= ammo -> In PDone (refused_spec unmarshal cont limit ammo left) ->
    limit <> 0 /\ limit < ammo + Z.of_nat (length left).
  Proof.
    induction left as [|l r IH]; intros ammo H0 Hin.
    - cbn in Hin. destruct Hin as [Hin|[]]. discriminate.
    - cbn [refused_spec] in Hin. cbn [length]. rewrite Nat2Z.inj_succ.
      destruct (limit_reached limit ammo) eqn:Er.
      + unfold limit_reached in Er. apply andb_prop in Er. destruct Er as [A B].
        apply negb_true_iff in A. apply Z.eqb_neq in A. apply Z.leb_le in B. split; [exact A|lia].
      + assert (Hn : In PDone (refused_spec unmarshal cont limit (ammo + 1) r) ->
                     limit <> 0 /\ limit < ammo + Z.succ (Z.of_nat (length r))).
        { intros Hi. destruct (IH (ammo + 1)) as [A B]; [lia|exact Hi|]. split; [exact A|lia]. }
        destruct (unmarshal (drop_cr l)) as [[t c]|].
        * destruct Hin as [Hin|Hin]; [discriminate|]. apply Hn, Hin.
        * destruct cont.
          -- destruct Hin as [Hin|Hin]; [discriminate|]. apply Hn, Hin.
          -- destruct Hin as [Hin|[]]. discriminate.
  Qed.

  (* the order of the checks: with scanner.Err() first the parametrised loop is the model ... *)
  Lemma grpc_run_ord_code limit passes k : forall all e ammo pass left,
    grpc_run_ord unmarshal cont limit true passes k all e ammo pass left =
    grpc_run_opts unmarshal cont limit passes k all e ammo pass left.
  Proof.
    induction k as [|k IH]; intros all e ammo pass left; [reflexivity|].
    cbn [grpc_run_ord grpc_run_opts].
    destruct left as [|l r].
    - destruct e; [|reflexivity].
      destruct (ammo =? 0); [reflexivity|]. destruct (limit_reached limit ammo); [reflexivity|].
      destruct (negb (passes =? 0) && (passes <=? pass)); [reflexivity|].
      destruct all as [|l r]; [reflexivity|].
      destruct (unmarshal (drop_cr l)) as [[t c]|]; [rewrite IH; reflexivity|].
      destruct cont; [rewrite IH; reflexivity|reflexivity].
    - destruct (limit_reached limit ammo); [reflexivity|].
      destruct (unmarshal (drop_cr l)) as [[t c]|]; [rewrite IH; reflexivity|].
      destruct cont; [rewrite IH; reflexivity|reflexivity].
  Qed.

  (* ... and on a file the scanner reads to its end the order does not matter at all (which is why a test
     suite of well-formed files cannot tell the two orders apart) *)
  Lemma grpc_run_ord_wellformed limit passes b k : forall all ammo pass left,
    grpc_run_ord unmarshal cont limit b passes k all SEof ammo pass left =
    grpc_run_opts unmarshal cont limit passes k all SEof ammo pass left.
  Proof.
    induction k as [|k IH]; intros all ammo pass left; [reflexivity|].
    cbn [grpc_run_ord grpc_run_opts].
    destruct left as [|l r].
    - destruct b;
        (destruct (ammo =? 0); [reflexivity|]; destruct (limit_reached limit ammo); [reflexivity|];
         destruct (negb (passes =? 0) && (passes <=? pass)); [reflexivity|];
         destruct all as [|l r]; [reflexivity|];
         destruct (unmarshal (drop_cr l)) as [[t c]|]; [rewrite IH; reflexivity|];
         destruct cont; [rewrite IH; reflexivity|reflexivity]).
    - destruct (limit_reached limit ammo); [reflexivity|].
      destruct (unmarshal (drop_cr l)) as [[t c]|]; [rewrite IH; reflexivity|].
      destruct cont; [rewrite IH; reflexivity|reflexivity].
  Qed.
End GrpcRefusedProofs.

(* the bounds looked at before the scanner: the last pass ends "successfully" at the refused entry, the
   entries behind it are never delivered and nothing is reported *)
Lemma grpc_err_after_bounds_refuted :
  let u := fun l : bytes => Some (l, @nil N) in
  grpc_run_ord u false 0 false 1 4 [[97%N]] STooLong 0 1 [[97%N]] = [PDeliver [97%N] []; PDone] /\
  grpc_run_ord u false 0 true 1 4 [[97%N]] STooLong 0 1 [[97%N]] = [PDeliver [97%N] []; PErr].
Proof. split; reflexivity. Qed.

(* ---------- round 8: a source that fails while it is read ---------- *)

Section GrpcReadErrorProofs.
  Variable unmarshal : bytes -> option (bytes * bytes).
  Variable cont : bool.
  Variable limit : Z.

  (* an error on a line boundary (or a rest that does not fit the buffer) is the refused-entry case, and with it
     (grpc_refused_run) the end of the pass loop at a scanner error *)
  Lemma rerr_spec_boundary : forall a ammo p,
    p = None \/ p = Some [] -> rerr_spec unmarshal cont limit ammo a p = refused_spec unmarshal cont limit ammo a.
  Proof.
    induction a as [|l r IH]; intros ammo p Hp.
    - destruct Hp as [->| ->]; reflexivity.
    - cbn [rerr_spec refused_spec]. destruct (limit_reached limit ammo); [reflexivity|].
      destruct (unmarshal (drop_cr l)) as [[t c]|]; [rewrite IH by exact Hp; reflexivity|].
      destruct cont; [rewrite IH by exact Hp; reflexivity|reflexivity].
  Qed.

  (* the token handed out after the error never ends the run successfully *)
  Lemma rerr_tail_ends_with_error ammo p : exists pre, rerr_tail unmarshal cont limit ammo p = pre ++ [PErr] /\ ~ In PDone pre.
  Proof.
    unfold rerr_tail. destruct p as [[|b l]|]; try (exists []; split; [reflexivity|intros []]).
    destruct (limit_reached limit ammo); [exists []; split; [reflexivity|intros []]|].
    destruct (unmarshal (drop_cr (b :: l))) as [[t c]|].
    - exists [PDeliver t c]. split; [reflexivity|]. intros [H|[]]. discriminate.
    - destruct cont; [|exists []; split; [reflexivity|intros []]].
      exists [PInvalid]. split; [reflexivity|]. intros [H|[]]. discriminate.
  Qed.

  (* a successful end is the limit's doing, and only within the COMPLETE lines read before the error *)
  Lemma rerr_spec_done_needs_limit p : forall a ammo,
    0 <= ammo -> In PDone (rerr_spec unmarshal cont limit ammo a p) ->
    limit <> 0 /\ limit < ammo + Z.of_nat (length a).
  Proof.
    induction a as [|l r IH]; intros ammo H0 Hin.
    - cbn [rerr_spec] in Hin. destruct (rerr_tail_ends_with_error ammo p) as (pre & E & Hn).
      rewrite E in Hin. apply in_app_or in Hin. destruct Hin as [Hin|[Hin|[]]]; [contradiction|discriminate].
    - cbn [rerr_spec] in Hin. cbn [length]. rewrite Nat2Z.inj_succ.
      destruct (limit_reached limit ammo) eqn:Er.
      + unfold limit_reached in Er. apply andb_prop in Er. destruct Er as [A B].
        apply negb_true_iff in A. apply Z.eqb_neq in A. apply Z.leb_le in B. split; [exact A|lia].
      + assert (Hn : In PDone (rerr_spec unmarshal cont limit (ammo + 1) r p) ->
                     limit <> 0 /\ limit < ammo + Z.succ (Z.of_nat (length r))).
        { intros Hi. destruct (IH (ammo + 1)) as [A B]; [lia|exact Hi|]. split; [exact A|lia]. }
        destruct (unmarshal (drop_cr l)) as [[t c]|].
        * destruct Hin as [Hin|Hin]; [discriminate|]. apply Hn, Hin.
        * destruct cont.
          -- destruct Hin as [Hin|Hin]; [discriminate|]. apply Hn, Hin.
          -- destruct Hin as [Hin|[]]. discriminate.
  Qed.

  (* when the limit does not end the run within the complete lines: they are all delivered, in order, then comes
     what the scanner hands out after the error — which ends with the error *)
  Lemma rerr_spec_reaches_error p : forall a ammo,
    0 <= ammo ->
    limit = 0 \/ ammo + Z.of_nat (length a) <= limit ->
    (cont = true \/ Forall (decodable unmarshal) a) ->
    rerr_spec unmarshal cont limit ammo a p =
    map (deliver_of unmarshal) a ++ rerr_tail unmarshal cont limit (ammo + Z.of_nat (length a)) p.
  Proof.
    induction a as [|l r IH]; intros ammo H0 Hlim Hdec.
    - cbn [rerr_spec map app length Z.of_nat]. rewrite Z.add_0_r. reflexivity.
    - cbn [rerr_spec map app].
      assert (Hr : limit_reached limit ammo = false).
      { unfold limit_reached. destruct Hlim as [->|Hlim]; [reflexivity|].
        cbn [length] in Hlim. apply andb_false_iff. right. apply Z.leb_gt. lia. }
      rewrite Hr. unfold deliver_of at 1.
      assert (Hnext : rerr_spec unmarshal cont limit (ammo + 1) r p =
                      map (deliver_of unmarshal) r ++ rerr_tail unmarshal cont limit (ammo + Z.of_nat (length (l :: r))) p).
      { rewrite IH; [| lia | | ].
        - cbn [length]. rewrite Nat2Z.inj_succ. f_equal. f_equal. lia.
        - destruct Hlim as [->|Hlim]; [left; reflexivity|right]. cbn [length] in Hlim. lia.
        - destruct Hdec as [Hc|Hd]; [left; exact Hc|right]. inversion Hd; assumption. }
      destruct (unmarshal (drop_cr l)) as [[t c]|] eqn:Eu.
      + rewrite Hnext. reflexivity.
      + destruct Hdec as [->|Hd]; [rewrite Hnext; reflexivity|].
        inversion Hd as [|? ? Hl _]. unfold decodable in Hl. congruence.
  Qed.
End GrpcReadErrorProofs.
