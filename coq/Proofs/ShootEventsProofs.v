(* Proofs about the order of sample writes and hand-overs (Model/ShootEvents.v, property C10). *)
From Coq Require Import List NArith Bool Lia.
From PV Require Import Lib.Table Model.Sample Model.GrpcStatus Model.Shoot Model.ShootEvents
  Proofs.SampleProofs Proofs.ShootProofs.
Import ListNotations.
Local Open Scope N_scope.

(* ---------- the hand-over discipline makes every reported value final ---------- *)

Definition consistent (s : sst) : Prop :=
  Forall (fun p : sample * sample => fst p = snd p) (st_done s) /\
  Forall (fun sn => sn = st_cur s) (st_snaps s).

Lemma consistent_pairs s :
  consistent s -> Forall (fun p : sample * sample => fst p = snd p) (st_pairs s).
Proof.
  intros [Hd Hs]. unfold st_pairs. apply Forall_app. split; [exact Hd|].
  apply Forall_forall. intros p Hp. apply in_map_iff in Hp. destruct Hp as [sn [<- Hin]].
  cbn [fst snd]. exact (proj1 (Forall_forall _ _) Hs sn Hin).
Qed.

Lemma handoff_consistent tr : forall s rep,
  consistent s -> (rep = false -> st_snaps s = []) -> handoff_ok rep tr = true ->
  consistent (fold_left sev_step tr s).
Proof.
  induction tr as [|e r IH]; intros s rep Hc Hr Hok; cbn [fold_left]; [exact Hc|].
  assert (Hw : forall w, sev_step s e = mkSst (st_done s) (sev_write (st_cur s) w) (st_snaps s) ->
                         handoff_ok rep (e :: r) = (negb rep && handoff_ok rep r)%bool ->
                         consistent (fold_left sev_step r (sev_step s e))).
  { intros w Es Eo. rewrite Eo in Hok. apply andb_prop in Hok. destruct Hok as [Hn Hok].
    apply negb_true_iff in Hn. apply (IH _ rep); [|rewrite Es; cbn [st_snaps]; exact Hr|exact Hok].
    rewrite Es. split; cbn [st_done st_snaps st_cur]; [exact (proj1 Hc)|].
    rewrite (Hr Hn). constructor. }
  destruct e as [tag id|t|p|t e|].
  - cbn [handoff_ok] in Hok. apply (IH _ false); [|reflexivity|exact Hok].
    cbn [sev_step]. split; cbn [st_done st_snaps st_cur]; [apply consistent_pairs; exact Hc|constructor].
  - apply (Hw (SvAddTag t)); reflexivity.
  - apply (Hw (SvSetProto p)); reflexivity.
  - apply (Hw (SvSetErr t e)); reflexivity.
  - cbn [handoff_ok] in Hok. apply (IH _ true); [|discriminate|exact Hok].
    cbn [sev_step]. split; cbn [st_done st_snaps st_cur]; [exact (proj1 Hc)|].
    apply Forall_app. split; [exact (proj2 Hc)|repeat constructor].
Qed.

Lemma handoff_ok_prefix p : forall rep q, handoff_ok rep (p ++ q) = true -> handoff_ok rep p = true.
Proof.
  induction p as [|e r IH]; intros rep q H; [reflexivity|].
  destruct e; cbn [app handoff_ok] in *;
    try (apply (IH _ q); exact H);
    (apply andb_prop in H; destruct H as [Hn H]; rewrite Hn; cbn [andb]; apply (IH _ q); exact H).
Qed.

Lemma tags_eqb_refl t : tags_eqb t t = true.
Proof. induction t as [|x r IH]; cbn [tags_eqb]; [reflexivity|]. rewrite N.eqb_refl, IH. reflexivity. Qed.

Lemma sample_eqb_refl s : sample_eqb s s = true.
Proof. unfold sample_eqb. rewrite tags_eqb_refl, !N.eqb_refl. reflexivity. Qed.

Lemma consistent0 : consistent sst0.
Proof. split; constructor. Qed.

(* A trace that keeps the discipline: at every moment (after every prefix of the trace) every
   sample handed over so far still has the value it was handed over with - whenever the
   aggregator reads it, it sees the value at Report. *)
Lemma handoff_stable tr :
  handoff_ok false tr = true ->
  forall p q, tr = p ++ q -> at_end p = at_report p /\ late_writes p = 0%nat.
Proof.
  intros Hok p q ->. apply handoff_ok_prefix in Hok.
  pose proof (consistent_pairs _ (handoff_consistent p sst0 false consistent0 (fun _ => eq_refl) Hok)) as Hf.
  unfold at_end, at_report, late_writes, sev_run.
  induction (st_pairs (fold_left sev_step p sst0)) as [|[a b] l IH]; [split; reflexivity|].
  inversion Hf as [|? ? Hab Hl]; subst. cbn [fst snd] in Hab. subst b.
  destruct (IH Hl) as [E1 E2]. cbn [map fst snd filter]. rewrite sample_eqb_refl. cbn [negb].
  split; [f_equal; exact E1|exact E2].
Qed.

(* ---------- BaseGun.Shoot ---------- *)

Lemma base_ev_handoff cfg h invalid id tag path x :
  handoff_ok false (base_shoot_ev cfg h invalid id tag path x) = true.
Proof.
  unfold base_shoot_ev, base_tag_events.
  destruct h; try reflexivity;
    (destruct invalid; [reflexivity|];
     cbn [handoff_ok];
     destruct (at_enabled cfg && (negb (at_notagonly cfg) || is_nil tag))%bool;
     match goal with |- context [if is_nil ?t then _ else _] => destruct (is_nil t) end;
     destruct x as [t e|st [|t e]]; reflexivity).
Qed.

(* the samples as they are at the moment of Report are the values of Model/Shoot.v *)
Lemma base_ev_at_report cfg h invalid id tag path x :
  at_report (base_shoot_ev cfg h invalid id tag path x) = base_shoot cfg h invalid id tag path x.
Proof.
  unfold at_report, sev_run, base_shoot_ev, base_tag_events, base_shoot, shoot_tags.
  destruct cfg as [en d nto].
  destruct h; try reflexivity;
    (destruct invalid; [reflexivity|];
     cbn [at_enabled at_notagonly at_depth];
     destruct en, nto, tag as [|c tg]; cbn [andb orb negb is_nil add_tag];
     try (destruct (autotag_go d path) as [|a0 ar]; cbn [is_nil app]);
     destruct x as [t e|st [|t e]]; reflexivity).
Qed.

Lemma base_ev_final cfg h invalid id tag path x :
  forall p q, base_shoot_ev cfg h invalid id tag path x = p ++ q ->
    at_end p = at_report p /\ late_writes p = 0%nat.
Proof. apply handoff_stable, base_ev_handoff. Qed.

Lemma base_ev_spec cfg h invalid id tag path x :
  h <> HFail ->
  at_report (base_shoot_ev cfg h invalid id tag path x) = [base_spec cfg invalid id tag path x] /\
  at_end (base_shoot_ev cfg h invalid id tag path x) = [base_spec cfg invalid id tag path x].
Proof.
  intros Hh.
  destruct (base_ev_final cfg h invalid id tag path x _ [] (eq_sym (app_nil_r _))) as [E _].
  rewrite E, base_ev_at_report, base_shoot_spec by exact Hh. split; reflexivity.
Qed.

(* ---------- scenario guns, gRPC gun ---------- *)

Definition dup (s : sample) : sample * sample := (s, s).

Lemma hscen_ev_pairs name steps : forall s,
  st_pairs (fold_left sev_step (hscen_ev name steps) s) = st_pairs s ++ map dup (hscen_shoot name steps).
Proof.
  induction steps as [|[nm [st|]] r IH]; intros s; cbn [hscen_ev hscen_shoot map fold_left].
  - rewrite app_nil_r. reflexivity.
  - rewrite IH. unfold st_pairs at 1. cbn [sev_step st_done st_cur st_snaps sev_write app map].
    rewrite <- app_assoc. reflexivity.
  - unfold st_pairs at 1. cbn [sev_step st_done st_cur st_snaps sev_write app map]. reflexivity.
Qed.

Lemma gscen_ev_pairs name steps : forall s,
  st_pairs (fold_left sev_step (gscen_ev name steps) s) = st_pairs s ++ map dup (gscen_shoot name steps).
Proof.
  induction steps as [|[tg g] r IH]; intros s; cbn [gscen_ev gscen_shoot map fold_left].
  - rewrite app_nil_r. reflexivity.
  - destruct (gstep_stops g); cbn [fold_left].
    + unfold st_pairs at 1. cbn [sev_step st_done st_cur st_snaps sev_write app map]. reflexivity.
    + rewrite IH. unfold st_pairs at 1. cbn [sev_step st_done st_cur st_snaps sev_write app map].
      rewrite <- app_assoc. reflexivity.
Qed.

Lemma map_fst_dup l : map fst (map dup l) = l.
Proof. induction l as [|a r IH]; cbn [map dup fst]; [reflexivity|]. rewrite IH. reflexivity. Qed.
Lemma map_snd_dup l : map snd (map dup l) = l.
Proof. induction l as [|a r IH]; cbn [map dup snd]; [reflexivity|]. rewrite IH. reflexivity. Qed.

Lemma hscen_ev_at_report name steps :
  at_report (hscen_ev name steps) = hscen_shoot name steps /\ at_end (hscen_ev name steps) = hscen_shoot name steps.
Proof.
  unfold at_report, at_end, sev_run. rewrite hscen_ev_pairs. cbn [st_pairs sst0 st_done st_snaps map app].
  split; [apply map_fst_dup|apply map_snd_dup].
Qed.

Lemma gscen_ev_at_report name steps :
  at_report (gscen_ev name steps) = gscen_shoot name steps /\ at_end (gscen_ev name steps) = gscen_shoot name steps.
Proof.
  unfold at_report, at_end, sev_run. rewrite gscen_ev_pairs. cbn [st_pairs sst0 st_done st_snaps map app].
  split; [apply map_fst_dup|apply map_snd_dup].
Qed.

Lemma hscen_ev_handoff name steps : forall rep, handoff_ok rep (hscen_ev name steps) = true.
Proof.
  induction steps as [|[nm [st|]] r IH]; intros rep; cbn [hscen_ev handoff_ok negb andb]; [reflexivity| |reflexivity].
  apply IH.
Qed.

Lemma gscen_ev_handoff name steps : forall rep, handoff_ok rep (gscen_ev name steps) = true.
Proof.
  induction steps as [|[tg g] r IH]; intros rep; cbn [gscen_ev handoff_ok negb andb]; [reflexivity|].
  destruct (gstep_stops g); [reflexivity|apply IH].
Qed.

Lemma grpc_ev_ok tag c :
  handoff_ok false (grpc_ev tag c) = true /\
  at_report (grpc_ev tag c) = grpc_shoot tag c /\ at_end (grpc_ev tag c) = grpc_shoot tag c.
Proof. repeat split. Qed.
