(* Lemmas about the Waiter model (Model/Waiter.v) for property C04. *)
From Coq Require Import List ZArith Bool Lia.
From PV Require Import Model.Waiter.
Import ListNotations.
Local Open Scope Z_scope.

(* What is assumed of the world around one call of Wait entered at instant [enter]:
   the clock is monotone (the cached reading was taken earlier, a reading taken during the call
   is not before the call) and a timer never fires early. *)
Record wf_call (st : wstate) (enter : Z) (c : wcall) : Prop := {
  wf_last : forall l, lastNow st = Some l -> l <= enter;
  wf_now : enter <= c_now c;
  wf_wake : forall next, c_tok c = Some next -> next <= c_wake c
}.

Lemma return_lower_ge_enter : forall enter c o, enter <= return_lower enter c o.
Proof. intros. unfold return_lower. destruct (w_read o), (w_slept o); lia. Qed.

Ltac wait_cases H :=
  unfold wait in H;
  repeat match type of H with
  | context [if ?b then _ else _] => let E := fresh "E" in destruct b eqn:E
  | context [match ?x with Some _ => _ | None => _ end] => let E := fresh "E" in destruct x eqn:E
  | context [match ?v with worig => _ | wfixed => _ end] => destruct v
  end;
  injection H as <- <-.

(* C04_no_early *)
Lemma wait_no_early : forall v st enter c st' o next,
  wf_call st enter c -> wait v st c = (st', o) -> w_ok o = true -> c_tok c = Some next ->
  next <= return_lower enter c o.
Proof.
  intros v st enter c st' o next [Hl Hn Hw] H Hok Ht.
  pose proof (Hw _ Ht) as Hwk.
  unfold wait in H. destruct (c_ctx_done c); [injection H as <- <-; discriminate|].
  rewrite Ht in H.
  destruct (lastNow st) as [l|] eqn:El.
  - pose proof (Hl l eq_refl) as Hle.
    destruct (next - l <=? 0) eqn:E1.
    + apply Z.leb_le in E1.
      destruct v; [|destruct (l - next <? max_overdue)]; injection H as <- <-; unfold return_lower; cbn; lia.
    + destruct (next - c_now c <=? 0) eqn:E2.
      * apply Z.leb_le in E2. injection H as <- <-. unfold return_lower; cbn. lia.
      * injection H as <- <-. cbn in Hok. unfold return_lower; cbn. rewrite Hok. lia.
  - cbn in H. destruct (next - c_now c <=? 0) eqn:E2.
    + apply Z.leb_le in E2. injection H as <- <-. unfold return_lower; cbn. lia.
    + injection H as <- <-. cbn in Hok. unfold return_lower; cbn. rewrite Hok. lia.
Qed.

(* the cached reading never runs ahead of real time: the next call is well-formed again *)
Lemma wait_last_le : forall v st enter c st' o l',
  wf_call st enter c -> wait v st c = (st', o) -> lastNow st' = Some l' -> l' <= return_lower enter c o.
Proof.
  intros v st enter c st' o l' [Hl Hn Hw] H Hs.
  pose proof (return_lower_ge_enter enter c o) as Hge.
  unfold wait in H. destruct (c_ctx_done c).
  { injection H as <- <-. cbn in Hs. pose proof (Hl _ Hs). lia. }
  destruct (c_tok c) as [next|].
  2:{ injection H as <- <-. cbn in Hs. pose proof (Hl _ Hs). lia. }
  destruct (lastNow st) as [l|] eqn:El.
  - pose proof (Hl l eq_refl) as Hle.
    destruct (next - l <=? 0).
    + destruct v; [|destruct (l - next <? max_overdue)]; injection H as <- <-; cbn in Hs; injection Hs as <-;
        unfold return_lower in *; cbn in *; lia.
    + destruct (next - c_now c <=? 0); injection H as <- <-; cbn in Hs; injection Hs as <-;
        unfold return_lower; cbn; destruct (negb (c_cancel_in_sleep c)); lia.
  - cbn in H. destruct (next - c_now c <=? 0); injection H as <- <-; cbn in Hs; injection Hs as <-;
      unfold return_lower; cbn; destruct (negb (c_cancel_in_sleep c)); lia.
Qed.

(* C04_no_false_discard: judged slow => really at least 2 s late when Wait returns (both variants) *)
Lemma wait_slow_is_late : forall v st enter c st' o next,
  wf_call st enter c -> wait v st c = (st', o) -> w_ok o = true -> c_tok c = Some next ->
  is_slow_down st' = true -> max_overdue <= return_lower enter c o - next.
Proof.
  intros v st enter c st' o next [Hl Hn Hw] H Hok Ht Hs.
  unfold is_slow_down in Hs. apply Z.leb_le in Hs.
  unfold wait in H. destruct (c_ctx_done c); [injection H as <- <-; discriminate|].
  rewrite Ht in H.
  destruct (lastNow st) as [l|] eqn:El.
  - pose proof (Hl l eq_refl) as Hle.
    destruct (next - l <=? 0) eqn:E1.
    + destruct v; [|destruct (l - next <? max_overdue)]; injection H as <- <-; unfold return_lower; cbn in *; lia.
    + destruct (next - c_now c <=? 0) eqn:E2.
      * injection H as <- <-. unfold return_lower; cbn in *. lia.
      * injection H as <- <-. cbn in Hs. unfold max_overdue in Hs. lia.
  - cbn in H. destruct (next - c_now c <=? 0) eqn:E2.
    + injection H as <- <-. unfold return_lower; cbn in *. lia.
    + injection H as <- <-. cbn in Hs. unfold max_overdue in Hs. lia.
Qed.

(* C04_late_discarded (current tree): at least 2 s late when Wait is entered => judged slow *)
Lemma wait_late_is_slow : forall st enter c st' o next,
  wf_call st enter c -> wait wfixed st c = (st', o) -> w_ok o = true -> c_tok c = Some next ->
  max_overdue <= enter - next -> is_slow_down st' = true.
Proof.
  intros st enter c st' o next [Hl Hn Hw] H Hok Ht Hlate.
  unfold is_slow_down. apply Z.leb_le.
  unfold wait in H. destruct (c_ctx_done c); [injection H as <- <-; discriminate|].
  rewrite Ht in H.
  destruct (lastNow st) as [l|] eqn:El.
  - pose proof (Hl l eq_refl) as Hle.
    destruct (next - l <=? 0) eqn:E1.
    + destruct (l - next <? max_overdue) eqn:E3; injection H as <- <-; cbn.
      * lia.
      * apply Z.ltb_ge in E3. lia.
    + destruct (next - c_now c <=? 0) eqn:E2.
      * injection H as <- <-. cbn. lia.
      * apply Z.leb_gt in E2. unfold max_overdue in Hlate. lia.
  - cbn in H. destruct (next - c_now c <=? 0) eqn:E2.
    + injection H as <- <-. cbn. lia.
    + apply Z.leb_gt in E2. unfold max_overdue in Hlate. lia.
Qed.

(* what a not-slow verdict means on the current tree: the clock reading this call relied on was
   less than 2 s after the token (the call read the clock, or slept until the token's time) *)
Lemma wait_not_slow_reading : forall st enter c st' o next,
  wf_call st enter c -> wait wfixed st c = (st', o) -> w_ok o = true -> c_tok c = Some next ->
  is_slow_down st' = false -> w_read o = true /\ c_now c - next < max_overdue.
Proof.
  intros st enter c st' o next [Hl Hn Hw] H Hok Ht Hs.
  unfold is_slow_down in Hs. apply Z.leb_gt in Hs.
  unfold wait in H. destruct (c_ctx_done c); [injection H as <- <-; discriminate|].
  rewrite Ht in H.
  destruct (lastNow st) as [l|] eqn:El.
  - destruct (next - l <=? 0) eqn:E1.
    + destruct (l - next <? max_overdue) eqn:E3; injection H as <- <-; cbn in *.
      * split; [reflexivity|lia].
      * apply Z.ltb_ge in E3. lia.
    + destruct (next - c_now c <=? 0) eqn:E2; injection H as <- <-; cbn in *.
      * split; [reflexivity|lia].
      * apply Z.leb_gt in E2. split; [reflexivity|unfold max_overdue; lia].
  - cbn in H. destruct (next - c_now c <=? 0) eqn:E2; injection H as <- <-; cbn in *.
    + split; [reflexivity|lia].
    + apply Z.leb_gt in E2. split; [reflexivity|unfold max_overdue; lia].
Qed.

(* discard_overflow off: nothing is ever discarded *)
Lemma decide_off : forall slow, decide false slow = Fire.
Proof. reflexivity. Qed.

Lemma decide_on : forall slow, decide true slow = if slow then Discard else Fire.
Proof. destruct slow; reflexivity. Qed.

Lemma is_slow_down_spec : forall st, is_slow_down st = true <-> 2000000000 <= overdue st.
Proof. intros st. unfold is_slow_down, max_overdue. apply Z.leb_le. Qed.

(* ---------------------------------------------------------------------------------------- *)
(* Whole histories of one instance (token times, response durations) on the idealised timeline *)

Definition last_le (st : wstate) (t : Z) : Prop := forall l, lastNow st = Some l -> l <= t.

Lemma ideal_call_wf : forall st t pre next,
  last_le st t -> 0 <= pre ->
  wf_call st (t + pre) {| c_ctx_done := false; c_tok := Some next; c_now := t + pre; c_cancel_in_sleep := false; c_wake := next |}.
Proof.
  intros st t pre next Hl Hp. constructor; cbn.
  - intros l E. pose proof (Hl l E). lia.
  - lia.
  - intros n E. injection E as <-. lia.
Qed.

Lemma ideal_wait_ok : forall v st enter next st' o,
  wait v st {| c_ctx_done := false; c_tok := Some next; c_now := enter; c_cancel_in_sleep := false; c_wake := next |} = (st', o) ->
  w_ok o = true.
Proof.
  intros v st enter next st' o H. unfold wait in H. cbn in H.
  destruct (lastNow st) as [l|]; cbn in H.
  - destruct (next - l <=? 0).
    + destruct v; [|destruct (l - next <? max_overdue)]; injection H as <- <-; reflexivity.
    + destruct (next - enter <=? 0); injection H as <- <-; reflexivity.
  - destruct (next - enter <=? 0); injection H as <- <-; reflexivity.
Qed.

Lemma ideal_return : forall v st enter next st' o,
  last_le st enter ->
  wait v st {| c_ctx_done := false; c_tok := Some next; c_now := enter; c_cancel_in_sleep := false; c_wake := next |} = (st', o) ->
  return_lower enter {| c_ctx_done := false; c_tok := Some next; c_now := enter; c_cancel_in_sleep := false; c_wake := next |} o
  = Z.max enter next.
Proof.
  intros v st enter next st' o Hl H. unfold wait in H. cbn in H.
  destruct (lastNow st) as [l|] eqn:El; cbn in H.
  - pose proof (Hl l El).
    destruct (next - l <=? 0) eqn:E1.
    + apply Z.leb_le in E1.
      destruct v; [|destruct (l - next <? max_overdue)]; injection H as <- <-; unfold return_lower; cbn; lia.
    + destruct (next - enter <=? 0) eqn:E2; injection H as <- <-; unfold return_lower; cbn.
      * apply Z.leb_le in E2. lia.
      * apply Z.leb_gt in E2. lia.
  - destruct (next - enter <=? 0) eqn:E2; injection H as <- <-; unfold return_lower; cbn.
    + apply Z.leb_le in E2. lia.
    + apply Z.leb_gt in E2. lia.
Qed.

Definition shot_ok (v : wvariant) (d : bool) (s : shot) : Prop :=
  s_tok s <= s_entry s /\                                             (* never early *)
  s_pickup s <= s_entry s /\
  (s_dec s = Discard -> d = true /\ max_overdue <= s_entry s - s_tok s) /\   (* discarded => >= 2 s late *)
  (v = wfixed -> d = true -> max_overdue <= s_pickup s - s_tok s -> s_dec s = Discard) /\  (* >= 2 s late => discarded *)
  (v = wfixed -> d = true -> s_dec s = Fire -> s_entry s - s_tok s < max_overdue) /\  (* fired => inside the window *)
  (d = false -> s_dec s = Fire).                                      (* off: never discarded *)

Lemma run_inst_tokens : forall v d toks st t durs,
  map s_tok (run_inst v d st t toks durs) = map snd toks.
Proof.
  intros v d toks. induction toks as [|[pre next] r IH]; intros st t durs; cbn [run_inst map]; auto.
  destruct (wait v st _) as [st' o]. destruct (decide d (is_slow_down st')); cbn [map s_tok snd]; rewrite IH; reflexivity.
Qed.

Lemma run_inst_ok : forall v d toks st t durs,
  last_le st t -> Forall (fun p => 0 <= fst p) toks -> Forall (fun x => 0 <= x) durs ->
  Forall (shot_ok v d) (run_inst v d st t toks durs).
Proof.
  intros v d toks. induction toks as [|[pre next] r IH]; intros st t durs Hl Hp Hd; cbn [run_inst]; [constructor|].
  inversion Hp as [|x xs Hpre Hp']; subst. cbn in Hpre.
  set (c := {| c_ctx_done := false; c_tok := Some next; c_now := t + pre; c_cancel_in_sleep := false; c_wake := next |}).
  destruct (wait v st c) as [st' o] eqn:Ew.
  pose proof (ideal_call_wf st t pre next Hl Hpre) as Hwf. fold c in Hwf.
  pose proof (ideal_wait_ok _ _ _ _ _ _ Ew) as Hok.
  assert (Hle : last_le st (t + pre)) by (intros l E; pose proof (Hl l E); lia).
  pose proof (ideal_return _ _ _ _ _ _ Hle Ew) as Hret. fold c in Hret.
  pose proof (wait_no_early _ _ _ _ _ _ next Hwf Ew Hok eq_refl) as Hne.
  assert (Hlast' : last_le st' (return_lower (t + pre) c o)).
  { intros l E. eapply wait_last_le; eauto. }
  assert (Hshot : forall dec, dec = decide d (is_slow_down st') ->
            shot_ok v d {| s_tok := next; s_pickup := t + pre; s_entry := return_lower (t + pre) c o; s_dec := dec |}).
  { intros dec Hdec. unfold shot_ok. cbn [s_tok s_pickup s_entry s_dec].
    split; [exact Hne|]. split; [apply return_lower_ge_enter|]. split; [|split; [|split]].
    - intros ->. destruct d; cbn in Hdec; [|discriminate]. split; [reflexivity|].
      destruct (is_slow_down st') eqn:Es; cbn in Hdec; [|discriminate].
      eapply wait_slow_is_late; eauto.
    - intros -> -> Hlate. rewrite (wait_late_is_slow _ _ _ _ _ next Hwf Ew Hok eq_refl Hlate) in Hdec. cbn in Hdec. exact Hdec.
    - intros -> -> ->. destruct (is_slow_down st') eqn:Es; cbn in Hdec; [discriminate|].
      rewrite Hret. destruct (Z_lt_le_dec (t + pre - next) max_overdue) as [Hlt|Hge].
      + unfold max_overdue in *. lia.
      + rewrite (wait_late_is_slow _ _ _ _ _ next Hwf Ew Hok eq_refl Hge) in Es. discriminate.
    - intros ->. cbn in Hdec. exact Hdec. }
  destruct (decide d (is_slow_down st')) eqn:Edec.
  - constructor; [apply Hshot; reflexivity|].
    apply IH.
    + intros l E. pose proof (Hlast' l E).
      assert (0 <= match durs with d0 :: _ => d0 | [] => 0 end).
      { destruct durs; [lia|]. inversion Hd; assumption. }
      lia.
    + exact Hp'.
    + destruct durs; [constructor|]. inversion Hd; assumption.
  - constructor; [apply Hshot; reflexivity|].
    apply IH; auto.
Qed.

(* the tree before the fix: a token picked up 2.68 s late is fired (DESIGN.md section 6 #3):
   tokens at +10/+20/+30 ms, the instance is busy 1.2 s and 1.5 s before the 2nd and 3rd Wait *)
Definition refute3_toks : list (Z * Z) := [(0, 10000000); (1200000000, 20000000); (1500000000, 30000000)].

Lemma orig_late_token_fired :
  exists s, nth_error (run_inst worig true wstate_init 0 refute3_toks []) 2 = Some s /\
    s_dec s = Fire /\ s_pickup s - s_tok s = 2680000000 /\ max_overdue <= s_pickup s - s_tok s.
Proof. eexists. split; [vm_compute; reflexivity|]. vm_compute. repeat split; discriminate. Qed.

Lemma fixed_late_token_discarded :
  exists s, nth_error (run_inst wfixed true wstate_init 0 refute3_toks []) 2 = Some s /\ s_dec s = Discard.
Proof. eexists. split; [vm_compute; reflexivity|]. reflexivity. Qed.

(* ---------------------------------------------------------------------------------------- *)
(* the configured-profile specification: no token of a profile lies before the profile's start,
   and a segment's tokens are not before the finish of the segments in front of it *)
Definition seg_wf (s : segment) : Prop :=
  match s with
  | SOnce _ => True
  | SConst period _ dur => 0 <= period /\ 0 <= dur
  | SPause dur | SUnl dur => 0 <= dur
  end.

Lemma const_offsets_ge : forall n start period k, 0 <= period ->
  Forall (fun o => start <= o) (const_offsets start period k n).
Proof.
  induction n as [|m IH]; intros start period k Hp; cbn; constructor; [nia|apply IH; exact Hp].
Qed.

Lemma Forall_ge_weaken : forall (a b : Z) l, a <= b -> Forall (fun o => b <= o) l -> Forall (fun o => a <= o) l.
Proof. intros a b l Hab H. induction H; constructor; [lia|assumption]. Qed.

Lemma profile_offsets_ge : forall segs start,
  Forall seg_wf segs ->
  Forall (fun o => start <= o) (fst (profile_offsets start segs)) /\
  Forall (fun w => start <= fst w) (snd (profile_offsets start segs)).
Proof.
  induction segs as [|s r IH]; intros start Hwf; cbn [profile_offsets]; [split; constructor|].
  inversion Hwf as [|x xs Hs Hr]; subst.
  destruct s as [n|period n dur|dur|dur]; cbn [seg_wf] in Hs.
  - destruct (profile_offsets start r) as [o u] eqn:E. destruct (IH start Hr) as [I1 I2]. rewrite E in I1, I2. cbn in *.
    split; [|exact I2]. apply Forall_app. split; [|exact I1].
    clear. induction n; cbn; constructor; [lia|assumption].
  - destruct Hs as [Hp Hd].
    destruct (profile_offsets (start + dur) r) as [o u] eqn:E. destruct (IH (start + dur) Hr) as [I1 I2]. rewrite E in I1, I2. cbn in *.
    split.
    + apply Forall_app. split; [apply const_offsets_ge; exact Hp|]. eapply Forall_ge_weaken; [|exact I1]. lia.
    + clear -I2 Hd. induction I2; constructor; [lia|assumption].
  - destruct (IH (start + dur) Hr) as [I1 I2]. split.
    + eapply Forall_ge_weaken; [|exact I1]. lia.
    + clear -I2 Hs. induction I2; constructor; [lia|assumption].
  - destruct (profile_offsets (start + dur) r) as [o u] eqn:E. destruct (IH (start + dur) Hr) as [I1 I2]. rewrite E in I1, I2. cbn in *.
    split.
    + eapply Forall_ge_weaken; [|exact I1]. lia.
    + constructor; [cbn; lia|]. clear -I2 Hs. induction I2; constructor; [lia|assumption].
Qed.
