(* Proofs about Model/Provider.v (property C08, reused by C14).

   Structure: a generic simulation theorem ([Section Sim]): a step machine with an invariant
   [R a m s] ("a items sent so far, at most m more internal steps before the next send or
   stop") that only ever emits the next entry of the cyclic sequence and only stops at the
   bound, delivers exactly the cyclic prefix, ends Ok with the sink closed, and uses a number
   of steps linear in the number of deliveries.  Then one invariant per provider kind. *)
From Coq Require Import List Arith Bool Lia PeanoNat.
From PV Require Import Model.Provider.
Import ListNotations.

Definition below (a : nat) (B : option nat) : Prop :=
  match B with None => True | Some b => a < b end.

Definition le_opt (a : nat) (B : option nat) : Prop :=
  match B with None => True | Some b => a <= b end.

(* how a run may end once the context is cancelled: nil, context.Canceled, or the latter
   wrapped by loadAmmo ("cant LoadAmmo, err: %w") *)
Definition clean_or_cancelled (o : outcome) : Prop :=
  o = Ok \/ o = Failed ECtx \/ o = Failed (ELoad ECtx).

Lemma below_le_opt a B : below a B -> le_opt (S a) B.
Proof. destruct B; cbn; lia. Qed.

Ltac b2p_in H :=
  unfold limit_faced in H; unfold nz in H; cbn [ammoNum passNum pos inloop iter] in H;
  rewrite ?andb_true_iff, ?andb_false_iff, ?orb_true_iff, ?orb_false_iff,
    ?negb_true_iff, ?negb_false_iff, ?Nat.leb_le, ?Nat.leb_gt, ?Nat.ltb_lt, ?Nat.ltb_ge,
    ?Nat.eqb_eq, ?Nat.eqb_neq in H.

(* boolean tests of the model -> arithmetic propositions (no case split) *)
Ltac b2p :=
  repeat match goal with
  | H : _ = true |- _ => progress (b2p_in H)
  | H : _ = false |- _ => progress (b2p_in H)
  end.

(* ---------------------------------------------------------------------------------- *)
(* the cyclic sequence *)

Lemma cyc_nth_error src a q p e :
  a = q * length src + p -> nth_error src p = Some e -> cyc src a = e.
Proof.
  intros -> H. unfold cyc.
  assert (Hp : p < length src) by (apply nth_error_Some; congruence).
  rewrite Nat.add_comm, Nat.mod_add by lia.
  rewrite Nat.mod_small by exact Hp.
  apply nth_error_nth; exact H.
Qed.

Lemma cyc_mod src a e :
  nth_error src (a mod length src) = Some e -> cyc src a = e.
Proof. intros H. unfold cyc. apply nth_error_nth; exact H. Qed.

Lemma cyc_prefix_full src : cyc_prefix src (length src) = src.
Proof.
  unfold cyc_prefix.
  apply (nth_ext _ _ (cyc src 0) dummy_entry).
  - rewrite map_length, seq_length. reflexivity.
  - rewrite map_length, seq_length. intros i Hi.
    rewrite (map_nth (cyc src) (seq 0 (length src)) 0 i).
    rewrite seq_nth by exact Hi. cbn [plus].
    unfold cyc. rewrite Nat.mod_small by exact Hi. reflexivity.
Qed.

Lemma firstn_seq_min m a k : firstn m (seq a k) = seq a (Nat.min m k).
Proof.
  revert a k; induction m as [|m IH]; intros a k; [reflexivity|].
  destruct k as [|k]; [reflexivity|]. cbn [seq firstn Nat.min]. f_equal. apply IH.
Qed.

Lemma cyc_prefix_S src a : cyc_prefix src (S a) = cyc_prefix src a ++ [cyc src a].
Proof. unfold cyc_prefix. rewrite seq_S, map_app. reflexivity. Qed.

(* ---------------------------------------------------------------------------------- *)
(* the chosencases filter over the cyclic sequence *)

Definition chosenb (ch : list nat) (e : entry) : bool := is_chosen (e_tag e) ch.

Lemma cyc_add_len es i : cyc es (length es + i) = cyc es i.
Proof.
  unfold cyc. destruct (length es) as [|n'] eqn:E; [reflexivity|].
  f_equal. rewrite Nat.add_comm. replace (i + S n') with (i + 1 * S n') by lia.
  apply Nat.mod_add. lia.
Qed.

Lemma seq_add_map n a m : seq (n + a) m = map (fun i => n + i) (seq a m).
Proof.
  revert a; induction m as [|m IH]; intros a; [reflexivity|].
  cbn [seq map]. f_equal. rewrite <- IH. f_equal. lia.
Qed.

Lemma cyc_prefix_add_len es m : cyc_prefix es (length es + m) = es ++ cyc_prefix es m.
Proof.
  unfold cyc_prefix. rewrite seq_app, map_app.
  fold (cyc_prefix es (length es)). rewrite cyc_prefix_full. f_equal.
  rewrite (Nat.add_comm 0 (length es)).
  rewrite seq_add_map, map_map.
  apply map_ext. intros i. apply cyc_add_len.
Qed.

Lemma cyc_prefix_small es r : r <= length es -> cyc_prefix es r = firstn r es.
Proof.
  intros Hr. rewrite <- (cyc_prefix_full es) at 2. unfold cyc_prefix.
  rewrite firstn_map, firstn_seq_min, Nat.min_l by exact Hr. reflexivity.
Qed.

Lemma cyc_prefix_length es a : length (cyc_prefix es a) = a.
Proof. unfold cyc_prefix. rewrite map_length, seq_length. reflexivity. Qed.

Lemma filter_firstn_prefix {A} (f : A -> bool) (l : list A) r :
  filter f (firstn r l) = firstn (length (filter f (firstn r l))) (filter f l).
Proof.
  rewrite <- (firstn_skipn r l) at 3. rewrite filter_app.
  rewrite firstn_app, Nat.sub_diag, firstn_O, app_nil_r, firstn_all. reflexivity.
Qed.

Lemma filter_firstn_le {A} (f : A -> bool) (l : list A) r :
  length (filter f (firstn r l)) <= length (filter f l).
Proof.
  rewrite <- (firstn_skipn r l) at 2. rewrite filter_app, app_length. lia.
Qed.

Section Filter.
  Variable ch : list nat.
  Variable es : list entry.
  Let f := chosenb ch.
  Let src := filter f es.
  Let n := length es.
  Let n' := length src.

  Definition cnt (a : nat) : nat := length (filter (chosenb ch) (cyc_prefix es a)).

  Lemma filter_cyc_prefix_qr q r :
    r <= n ->
    filter f (cyc_prefix es (q * n + r)) = cyc_prefix src (q * n' + length (filter f (firstn r es))).
  Proof.
    intros Hr. induction q as [|q IH].
    - cbn [Nat.mul plus]. rewrite cyc_prefix_small by exact Hr.
      rewrite cyc_prefix_small by apply filter_firstn_le.
      apply filter_firstn_prefix.
    - replace (S q * n + r) with (n + (q * n + r)) by lia.
      replace (S q * n' + length (filter f (firstn r es)))
        with (n' + (q * n' + length (filter f (firstn r es)))) by lia.
      unfold n at 1. rewrite cyc_prefix_add_len, filter_app, IH.
      unfold n' at 2. rewrite cyc_prefix_add_len. reflexivity.
  Qed.

  Hypothesis Hn : 0 < n.

  Lemma filter_cyc_prefix a : filter f (cyc_prefix es a) = cyc_prefix src (cnt a).
  Proof.
    pose proof (Nat.div_mod a n ltac:(lia)) as E.
    pose proof (Nat.mod_upper_bound a n ltac:(lia)) as Hr.
    unfold cnt. fold f.
    rewrite E at 1 2. rewrite (Nat.mul_comm n (a / n)).
    rewrite filter_cyc_prefix_qr by lia. rewrite cyc_prefix_length. reflexivity.
  Qed.

  Lemma cnt_mul q : cnt (q * n) = q * n'.
  Proof.
    unfold cnt. fold f. replace (q * n) with (q * n + 0) by lia.
    rewrite filter_cyc_prefix_qr by lia. rewrite cyc_prefix_length. cbn. lia.
  Qed.

  Lemma cnt_0 : cnt 0 = 0.
  Proof. reflexivity. Qed.

  Lemma cnt_S a : cnt (S a) = if f (cyc es a) then S (cnt a) else cnt a.
  Proof.
    unfold cnt. fold f. rewrite cyc_prefix_S, filter_app, app_length. cbn [filter].
    destruct (f (cyc es a)); cbn [length]; lia.
  Qed.

  Lemma cnt_mono a b : a <= b -> cnt a <= cnt b.
  Proof.
    induction 1 as [|b Hle IH]; [lia|]. rewrite cnt_S. destruct (f (cyc es b)); lia.
  Qed.

  Lemma cnt_n : cnt n = n'.
  Proof. replace n with (1 * n) by lia. rewrite cnt_mul. lia. Qed.

  (* the a-th decoded entry, when chosen, is the (cnt a)-th entry of the cyclic replay of src *)
  Lemma chosen_is_next a : f (cyc es a) = true -> cyc es a = cyc src (cnt a).
  Proof.
    intros Hc.
    pose proof (filter_cyc_prefix (S a)) as E1. pose proof (filter_cyc_prefix a) as E0.
    rewrite cnt_S, Hc in E1. rewrite cyc_prefix_S, filter_app in E1. cbn [filter] in E1.
    rewrite Hc in E1. rewrite E0, cyc_prefix_S in E1.
    apply app_inj_tail in E1. apply E1.
  Qed.
End Filter.

Definition cfg0 (lim pas : nat) : cfg := {| limit := lim; passes := pas; chosen := [] |}.

(* ---------------------------------------------------------------------------------- *)
(* generic simulation *)

Section Sim.
  Context {St : Type}.
  Variable step : bool -> St -> sres St.
  Variable src : list entry.        (* the sequence that is replayed cyclically *)
  Variable B : option nat.          (* the bound on deliveries, None = unbounded *)
  Variable c : nat.                 (* internal steps allowed between two deliveries *)
  Variable cancel : option nat.
  Variable R : nat -> nat -> St -> Prop.

  Hypothesis Hcont : forall cc a m s s',
      R a m s -> step cc s = Cont s' -> exists m', m' < m /\ R a m' s'.
  Hypothesis Hemit : forall a m s e s',
      R a m s -> step false s = Emit e s' -> below a B /\ e = cyc src a /\ R (S a) c s'.
  Hypothesis Hstop : forall a m s o cl,
      R a m s -> step false s = Stop o cl -> B = Some a /\ o = Ok /\ cl = true.
  Hypothesis Cemit : forall a m s e s', R a m s -> step true s = Emit e s' -> False.
  Hypothesis Cstop : forall a m s o cl,
      R a m s -> step true s = Stop o cl -> clean_or_cancelled o /\ cl = true.

  Definition sim_post (fuel a m : nat) (x : result) : Prop :=
    let len := length (delivered x) in
    delivered x = map (cyc src) (seq a len)
    /\ steps x <= (m + 1) + (c + 1) * len
    /\ (out x = OutOfFuel -> steps x = fuel)
    /\ (le_opt a B -> le_opt (a + len) B)
    /\ (forall k, cancel = Some k -> a + len <= Nat.max a k)
    /\ (out x <> OutOfFuel ->
        closed x = true /\ clean_or_cancelled (out x)
        /\ (is_cancelled cancel (a + len) = false -> out x = Ok /\ B = Some (a + len))).

  Lemma sim_main : forall fuel a m s,
      R a m s -> sim_post fuel a m (run_steps step cancel fuel a s).
  Proof.
    induction fuel as [|f IH]; intros a m s HR; cbn [run_steps].
    - unfold sim_post; cbn [delivered out closed steps length]. rewrite Nat.add_0_r.
      split; [reflexivity|]. split; [lia|]. split; [reflexivity|]. split; [auto|].
      split; [intros k _; lia|]. intros H; congruence.
    - destruct (is_cancelled cancel a) eqn:Ecc;
        destruct (step _ s) as [s'|e s'|o cl] eqn:Es.
      + (* cancelled, Cont *)
        destruct (Hcont _ _ _ _ _ HR Es) as (m' & Hm & HR').
        specialize (IH a m' s' HR'). unfold sim_post in *.
        cbn [bump delivered out closed steps].
        destruct IH as (I1 & I2 & I3 & I4 & I5 & I6).
        split; [exact I1|]. split; [lia|]. split; [intros H; rewrite (I3 H); reflexivity|].
        split; [exact I4|]. split; [exact I5|exact I6].
      + exfalso. eapply Cemit; eauto.
      + destruct (Cstop _ _ _ _ _ HR Es) as (Ho & ->).
        unfold sim_post; cbn [delivered out closed steps length]. rewrite Nat.add_0_r.
        split; [reflexivity|]. split; [lia|]. split; [intros H; destruct Ho as [Ho|[Ho|Ho]]; congruence|].
        split; [auto|]. split; [intros k _; lia|].
        intros _. split; [reflexivity|]. split; [exact Ho|]. intros H; congruence.
      + (* not cancelled, Cont *)
        destruct (Hcont _ _ _ _ _ HR Es) as (m' & Hm & HR').
        specialize (IH a m' s' HR'). unfold sim_post in *.
        cbn [bump delivered out closed steps].
        destruct IH as (I1 & I2 & I3 & I4 & I5 & I6).
        split; [exact I1|]. split; [lia|]. split; [intros H; rewrite (I3 H); reflexivity|].
        split; [exact I4|]. split; [exact I5|exact I6].
      + (* Emit *)
        destruct (Hemit _ _ _ _ _ HR Es) as (Hb & -> & HR').
        specialize (IH (S a) c s' HR'). unfold sim_post in *.
        cbn [push delivered out closed steps length].
        destruct IH as (I1 & I2 & I3 & I4 & I5 & I6).
        rewrite <- !Nat.add_succ_comm.
        split; [cbn [seq map]; f_equal; exact I1|]. split; [lia|].
        split; [intros H; rewrite (I3 H); reflexivity|].
        split; [intros _; apply I4; apply below_le_opt; exact Hb|].
        split; [|exact I6].
        intros k Hk. specialize (I5 k Hk). subst cancel. cbn in Ecc. b2p. lia.
      + destruct (Hstop _ _ _ _ _ HR Es) as (HB & -> & ->).
        unfold sim_post; cbn [delivered out closed steps length]. rewrite Nat.add_0_r.
        split; [reflexivity|]. split; [lia|]. split; [intros H; congruence|].
        split; [auto|]. split; [intros k _; lia|].
        intros _. split; [reflexivity|]. split; [left; reflexivity|]. intros _; split; [reflexivity|exact HB].
  Qed.

  (* Consequences for a run from the start. *)
  Variable s0 : St.
  Variable m0 : nat.
  Hypothesis HR0 : R 0 m0 s0.

  Let x fuel := run_steps step cancel fuel 0 s0.

  Lemma sim_prefix fuel : delivered (x fuel) = cyc_prefix src (length (delivered (x fuel))).
  Proof. destruct (sim_main fuel 0 m0 s0 HR0) as (H & _). exact H. Qed.

  Lemma sim_steps fuel : steps (x fuel) <= (m0 + 1) + (c + 1) * length (delivered (x fuel)).
  Proof. destruct (sim_main fuel 0 m0 s0 HR0) as (_ & H & _). exact H. Qed.

  Lemma sim_oof fuel : out (x fuel) = OutOfFuel -> steps (x fuel) = fuel.
  Proof. destruct (sim_main fuel 0 m0 s0 HR0) as (_ & _ & H & _). exact H. Qed.

  Lemma sim_le_bound fuel b : B = Some b -> length (delivered (x fuel)) <= b.
  Proof.
    intros HB. destruct (sim_main fuel 0 m0 s0 HR0) as (_ & _ & _ & H & _).
    rewrite HB in H. unfold x. cbn [le_opt plus] in H. apply H. lia.
  Qed.

  Lemma sim_le_cancel fuel k : cancel = Some k -> length (delivered (x fuel)) <= k.
  Proof.
    intros Hk. destruct (sim_main fuel 0 m0 s0 HR0) as (_ & _ & _ & _ & H & _).
    specialize (H k Hk). unfold x. cbn [plus Nat.max] in H. exact H.
  Qed.

  Lemma sim_end fuel :
    out (x fuel) <> OutOfFuel ->
    closed (x fuel) = true /\ clean_or_cancelled (out (x fuel))
    /\ (is_cancelled cancel (length (delivered (x fuel))) = false ->
        out (x fuel) = Ok /\ B = Some (length (delivered (x fuel)))).
  Proof.
    destruct (sim_main fuel 0 m0 s0 HR0) as (_ & _ & _ & _ & _ & H). exact H.
  Qed.

  (* termination: with a bound or a cancellation point t on the number of deliveries, fuel
     beyond (m0+1) + (c+1)*t is never exhausted *)
  Lemma sim_terminates fuel t :
    (B = Some t \/ cancel = Some t) ->
    (m0 + 1) + (c + 1) * t < fuel -> out (x fuel) <> OutOfFuel.
  Proof.
    intros Ht Hf Ho.
    pose proof (sim_oof fuel Ho) as E. pose proof (sim_steps fuel) as S1.
    assert (length (delivered (x fuel)) <= t) as L.
    { destruct Ht as [Ht|Ht]; [eapply sim_le_bound|eapply sim_le_cancel]; eauto. }
    assert ((c + 1) * length (delivered (x fuel)) <= (c + 1) * t) by (apply Nat.mul_le_mono_l; exact L).
    lia.
  Qed.
End Sim.

(* ---------------------------------------------------------------------------------- *)
(* arithmetic of the bound *)

Lemma bound_some_limit lim pas n a :
  lim <> 0 -> a = lim -> (pas <> 0 -> a <= pas * n) -> bound lim pas n = Some a.
Proof.
  intros Hl -> Hp. unfold bound. destruct lim as [|l]; [congruence|].
  destruct pas as [|p]; [reflexivity|]. f_equal. specialize (Hp ltac:(discriminate)). lia.
Qed.

Lemma bound_some_passes lim pas n a :
  pas <> 0 -> a = pas * n -> (lim <> 0 -> a <= lim) -> bound lim pas n = Some a.
Proof.
  intros Hp -> Hl. unfold bound. destruct pas as [|p]; [congruence|].
  destruct lim as [|l]; [reflexivity|]. f_equal. specialize (Hl ltac:(discriminate)). lia.
Qed.

Lemma below_bound lim pas n a :
  (lim <> 0 -> a < lim) -> (pas <> 0 -> a < pas * n) -> below a (bound lim pas n).
Proof.
  intros Hl Hp. unfold bound, below.
  destruct lim as [|l], pas as [|p]; auto;
    try specialize (Hl ltac:(discriminate)); try specialize (Hp ltac:(discriminate)); lia.
Qed.

Lemma le_bound lim pas n a :
  le_opt a (bound lim pas n) <-> (lim <> 0 -> a <= lim) /\ (pas <> 0 -> a <= pas * n).
Proof.
  unfold bound, le_opt. destruct lim as [|l], pas as [|p]; split; intros H.
  all: try (split; intros; try congruence; lia).
  all: try (destruct H as [H1 H2]; try specialize (H1 ltac:(discriminate));
            try specialize (H2 ltac:(discriminate)); try lia; auto).
Qed.

(* ---------------------------------------------------------------------------------- *)
(* contract of a decoder's Scan, as the http provider uses it *)

Record contract (dec : bool -> nat -> nat -> list entry -> dstate -> dres)
       (es : list entry) (cD lim pas : nat) (DI : nat -> nat -> dstate -> Prop) : Prop := {
  k_init : DI 0 cD dinit;
  k_again : forall cc a m d d',
      DI a m d -> dec cc lim pas es d = DAgain d' -> exists m', m' < m /\ DI a m' d';
  k_ammo : forall cc a m d e d',
      DI a m d -> dec cc lim pas es d = DAmmo e d' ->
      below a (bound lim pas (length es)) /\ e = cyc es a /\ DI (S a) cD d' /\ inloop d' = false;
  k_err : forall cc a m d e,
      DI a m d -> dec cc lim pas es d = DErr e ->
      (cc = true /\ e = ECtx)
      \/ (bound lim pas (length es) = Some a /\ ((e = EAmmoLimit /\ lim <> 0) \/ e = EPassLimit));
  (* PassNum() >= 1 only after the whole file was decoded once, and always after n+1 entries *)
  k_pass : forall a m d,
      DI a m d -> (1 <= passNum d -> length es <= a) /\ (length es < a -> 1 <= passNum d)
}.

(* uri / raw / uripost: a = passNum*n + pos; passes checked right after the increment at EOF *)
Definition DI_s (n lim pas : nat) (a m : nat) (d : dstate) : Prop :=
  ammoNum d = a /\ pos d <= n /\ a = passNum d * n + pos d
  /\ (pas <> 0 -> passNum d < pas)
  /\ (lim <> 0 -> a <= lim)
  /\ (inloop d = true -> pos d = 0 /\ (lim <> 0 -> a < lim) /\ iter d <= 1)
  /\ (if pos d =? n then 1 else 0) <= m.

Ltac dstate_cases d :=
  destruct d as [an pn ps il it];
  unfold DI_s in *; cbn [ammoNum passNum pos inloop iter] in *.

Lemma nth_error_eof {A} (l : list A) p : p <= length l -> nth_error l p = None -> p = length l.
Proof. intros H1 H2. apply nth_error_None in H2. lia. Qed.

Lemma nth_error_in {A} (l : list A) p e : nth_error l p = Some e -> p < length l.
Proof. intros H. apply nth_error_Some. congruence. Qed.

Lemma uri_contract es lim pas :
  es <> [] -> contract uri_step es 1 lim pas (DI_s (length es) lim pas).
Proof.
  intros Hn. assert (Hlen : 0 < length es) by (destruct es; [congruence|cbn; lia]).
  set (n := length es) in *.
  constructor.
  - unfold DI_s, dinit; cbn [ammoNum passNum pos inloop iter]. repeat split; try lia; try congruence.
    destruct (0 =? n); lia.
  - intros cc a m d d' HI Hs. dstate_cases d. unfold uri_step in Hs; cbn [ammoNum passNum pos inloop iter] in Hs.
    destruct HI as (Ha & Hp & Hq & Hpas & Hlim & Hin & Hm).
    destruct (negb il && limit_faced lim _) eqn:E1; [discriminate|].
    destruct cc; [discriminate|].
    destruct (nth_error es ps) as [e|] eqn:En; [discriminate|].
    destruct (nz pas && (pas <=? S pn)) eqn:E2; [discriminate|].
    destruct (an =? 0) eqn:E3; [discriminate|].
    injection Hs as <-. cbn [ammoNum passNum pos inloop iter].
    apply nth_error_eof in En; [|exact Hp]. fold n in En. subst ps.
    rewrite Nat.eqb_refl in Hm.
    exists 0. split; [lia|].
    assert (il = false) as ->.
    { destruct il; [|reflexivity]. destruct (Hin eq_refl) as (H0 & _). lia. }
    cbn [negb andb] in E1.
    repeat split; try lia.
    all: try (intros Hp0; b2p; lia).
    all: try (destruct (0 =? n) eqn:E; [b2p; lia|lia]).
  - intros cc a m d e d' HI Hs. dstate_cases d. unfold uri_step in Hs; cbn [ammoNum passNum pos inloop iter] in Hs.
    destruct HI as (Ha & Hp & Hq & Hpas & Hlim & Hin & Hm).
    destruct (negb il && limit_faced lim _) eqn:E1; [discriminate|].
    destruct cc; [discriminate|].
    destruct (nth_error es ps) as [e0|] eqn:En.
    2:{ destruct (nz pas && (pas <=? S pn)); [discriminate|]. destruct (an =? 0); discriminate. }
    injection Hs as <- <-. cbn [ammoNum passNum pos inloop iter].
    pose proof (nth_error_in _ _ _ En) as Hlt. fold n in Hlt.
    assert (Hal : lim <> 0 -> a < lim).
    { intros Hl0. destruct il; [apply Hin; auto|]. cbn [negb andb] in E1. b2p; lia. }
    split; [|split; [|split]].
    + apply below_bound; [exact Hal|]. intros Hp0. specialize (Hpas Hp0). fold n. nia.
    + symmetry. apply (cyc_nth_error es a pn ps); [fold n; lia|exact En].
    + repeat split; try lia; try (intros; discriminate).
      all: try (intros Hl0; specialize (Hal Hl0); lia).
      all: try (destruct (S ps =? n); lia).
    + reflexivity.
  - intros cc a m d e HI Hs. dstate_cases d. unfold uri_step in Hs; cbn [ammoNum passNum pos inloop iter] in Hs.
    destruct HI as (Ha & Hp & Hq & Hpas & Hlim & Hin & Hm).
    destruct (negb il && limit_faced lim _) eqn:E1.
    { injection Hs as <-. right. b2p. split; [|left; split; [reflexivity|lia]].
      apply bound_some_limit; [lia|specialize (Hlim ltac:(lia)); lia|].
      intros Hp0. specialize (Hpas Hp0). fold n. nia. }
    destruct cc; [injection Hs as <-; left; auto|].
    destruct (nth_error es ps) as [e0|] eqn:En; [discriminate|].
    apply nth_error_eof in En; [|exact Hp]. fold n in En. subst ps.
    destruct (nz pas && (pas <=? S pn)) eqn:E2.
    { injection Hs as <-. right. b2p. split; [|right; reflexivity].
      apply bound_some_passes; [lia| |].
      - specialize (Hpas ltac:(lia)). fold n. assert (pas = S pn) by lia. subst pas. lia.
      - exact Hlim. }
    destruct (an =? 0) eqn:E3; [|discriminate].
    b2p; lia.
  - intros a m d HI. dstate_cases d.
    destruct HI as (Ha & Hp & Hq & _). fold n in Hp, Hq |- *. split; intros H; nia.
Qed.

Lemma raw_step_is_uri_step : raw_step = uri_step.
Proof. reflexivity. Qed.

Lemma raw_contract es lim pas :
  es <> [] -> contract raw_step es 1 lim pas (DI_s (length es) lim pas).
Proof. rewrite raw_step_is_uri_step. apply uri_contract. Qed.

Lemma uripost_contract es lim pas :
  es <> [] -> contract uripost_step es 1 lim pas (DI_s (length es) lim pas).
Proof.
  intros Hn. assert (Hlen : 0 < length es) by (destruct es; [congruence|cbn; lia]).
  set (n := length es) in *.
  constructor.
  - unfold DI_s, dinit; cbn [ammoNum passNum pos inloop iter]. repeat split; try lia; try congruence.
    destruct (0 =? n); lia.
  - intros cc a m d d' HI Hs. dstate_cases d. unfold uripost_step in Hs; cbn [ammoNum passNum pos inloop iter] in Hs.
    destruct HI as (Ha & Hp & Hq & Hpas & Hlim & Hin & Hm).
    destruct (negb il && limit_faced lim _) eqn:E1; [discriminate|].
    destruct (2 <=? (if il then it else 0)) eqn:E0; [discriminate|].
    destruct cc; [discriminate|].
    destruct (nth_error es ps) as [e|] eqn:En; [discriminate|].
    destruct (nz pas && (pas <=? S pn)) eqn:E2; [discriminate|].
    destruct (an =? 0) eqn:E3; [discriminate|].
    injection Hs as <-. cbn [ammoNum passNum pos inloop iter].
    apply nth_error_eof in En; [|exact Hp]. fold n in En. subst ps.
    rewrite Nat.eqb_refl in Hm.
    exists 0. split; [lia|].
    assert (il = false) as ->.
    { destruct il; [|reflexivity]. destruct (Hin eq_refl) as (H0 & _). lia. }
    cbn [negb andb] in E1.
    repeat split; try lia.
    all: try (intros Hp0; b2p; lia).
    all: try (destruct (0 =? n) eqn:E; [b2p; lia|lia]).
  - intros cc a m d e d' HI Hs. dstate_cases d. unfold uripost_step in Hs; cbn [ammoNum passNum pos inloop iter] in Hs.
    destruct HI as (Ha & Hp & Hq & Hpas & Hlim & Hin & Hm).
    destruct (negb il && limit_faced lim _) eqn:E1; [discriminate|].
    destruct (2 <=? (if il then it else 0)) eqn:E0; [discriminate|].
    destruct cc; [discriminate|].
    destruct (nth_error es ps) as [e0|] eqn:En.
    2:{ destruct (nz pas && (pas <=? S pn)); [discriminate|]. destruct (an =? 0); discriminate. }
    injection Hs as <- <-. cbn [ammoNum passNum pos inloop iter].
    pose proof (nth_error_in _ _ _ En) as Hlt. fold n in Hlt.
    assert (Hal : lim <> 0 -> a < lim).
    { intros Hl0. destruct il; [apply Hin; auto|]. cbn [negb andb] in E1. b2p; lia. }
    split; [|split; [|split]].
    + apply below_bound; [exact Hal|]. intros Hp0. specialize (Hpas Hp0). fold n. nia.
    + symmetry. apply (cyc_nth_error es a pn ps); [fold n; lia|exact En].
    + repeat split; try lia; try (intros; discriminate).
      all: try (intros Hl0; specialize (Hal Hl0); lia).
      all: try (destruct (S ps =? n); lia).
    + reflexivity.
  - intros cc a m d e HI Hs. dstate_cases d. unfold uripost_step in Hs; cbn [ammoNum passNum pos inloop iter] in Hs.
    destruct HI as (Ha & Hp & Hq & Hpas & Hlim & Hin & Hm).
    destruct (negb il && limit_faced lim _) eqn:E1.
    { injection Hs as <-. right. b2p. split; [|left; split; [reflexivity|lia]].
      apply bound_some_limit; [lia|specialize (Hlim ltac:(lia)); lia|].
      intros Hp0. specialize (Hpas Hp0). fold n. nia. }
    destruct (2 <=? (if il then it else 0)) eqn:E0.
    { exfalso. destruct il; b2p; [destruct (Hin eq_refl) as (_ & _ & H1); lia|lia]. }
    destruct cc; [injection Hs as <-; left; auto|].
    destruct (nth_error es ps) as [e0|] eqn:En; [discriminate|].
    apply nth_error_eof in En; [|exact Hp]. fold n in En. subst ps.
    destruct (nz pas && (pas <=? S pn)) eqn:E2.
    { injection Hs as <-. right. b2p. split; [|right; reflexivity].
      apply bound_some_passes; [lia| |].
      - specialize (Hpas ltac:(lia)). fold n. assert (pas = S pn) by lia. subst pas. lia.
      - exact Hlim. }
    destruct (an =? 0) eqn:E3; [|discriminate].
    b2p; lia.
  - intros a m d HI. dstate_cases d.
    destruct HI as (Ha & Hp & Hq & _). fold n in Hp, Hq |- *. split; intros H; nia.
Qed.

(* jsonline stream: the passes test comes at the top of the loop, so after the rewind the
   state may sit at passNum = Passes for one step *)
Definition DI_j (n lim pas : nat) (a m : nat) (d : dstate) : Prop :=
  ammoNum d = a /\ pos d <= n /\ a = passNum d * n + pos d
  /\ (pas <> 0 -> passNum d < pas \/ (passNum d = pas /\ pos d = 0 /\ inloop d = true))
  /\ (lim <> 0 -> a <= lim)
  /\ (inloop d = true -> pos d = 0 /\ (lim <> 0 -> a < lim))
  /\ (if pos d =? n then 1 else 0) <= m.

Lemma jsonl_contract es lim pas :
  es <> [] -> contract jsonl_step es 1 lim pas (DI_j (length es) lim pas).
Proof.
  intros Hn. assert (Hlen : 0 < length es) by (destruct es; [congruence|cbn; lia]).
  set (n := length es) in *.
  constructor.
  - unfold DI_j, dinit; cbn [ammoNum passNum pos inloop iter]. repeat split; try lia; try congruence.
    destruct (0 =? n); lia.
  - intros cc a m d d' HI Hs. destruct d as [an pn ps il it]; unfold DI_j in *; cbn [ammoNum passNum pos inloop iter] in *.
    unfold jsonl_step in Hs; cbn [ammoNum passNum pos inloop iter] in Hs.
    destruct HI as (Ha & Hp & Hq & Hpas & Hlim & Hin & Hm).
    destruct (negb il && limit_faced lim _) eqn:E1; [discriminate|].
    destruct (nz pas && (pas <=? pn)) eqn:E2; [discriminate|].
    destruct (nth_error es ps) as [e|] eqn:En; [discriminate|].
    destruct (an =? 0) eqn:E3; [discriminate|].
    injection Hs as <-. cbn [ammoNum passNum pos inloop iter].
    apply nth_error_eof in En; [|exact Hp]. fold n in En. subst ps.
    rewrite Nat.eqb_refl in Hm.
    exists 0. split; [lia|].
    assert (il = false) as ->.
    { destruct il; [|reflexivity]. destruct (Hin eq_refl) as (H0 & _). lia. }
    cbn [negb andb] in E1.
    repeat split; try lia.
    all: try (intros Hp0; b2p; specialize (Hpas Hp0); lia).
    all: try (intros Hp0; b2p; lia).
    all: try (destruct (0 =? n) eqn:E; [b2p; lia|lia]).
  - intros cc a m d e d' HI Hs. destruct d as [an pn ps il it]; unfold DI_j in *; cbn [ammoNum passNum pos inloop iter] in *.
    unfold jsonl_step in Hs; cbn [ammoNum passNum pos inloop iter] in Hs.
    destruct HI as (Ha & Hp & Hq & Hpas & Hlim & Hin & Hm).
    destruct (negb il && limit_faced lim _) eqn:E1; [discriminate|].
    destruct (nz pas && (pas <=? pn)) eqn:E2; [discriminate|].
    destruct (nth_error es ps) as [e0|] eqn:En.
    2:{ destruct (an =? 0); discriminate. }
    injection Hs as <- <-. cbn [ammoNum passNum pos inloop iter].
    pose proof (nth_error_in _ _ _ En) as Hlt. fold n in Hlt.
    assert (Hal : lim <> 0 -> a < lim).
    { intros Hl0. destruct il; [apply Hin; auto|]. cbn [negb andb] in E1. b2p; lia. }
    assert (Hpl : pas <> 0 -> pn < pas) by (intros Hp0; b2p; lia).
    split; [|split; [|split]].
    + apply below_bound; [exact Hal|]. intros Hp0. specialize (Hpl Hp0). fold n. nia.
    + symmetry. apply (cyc_nth_error es a pn ps); [fold n; lia|exact En].
    + repeat split; try lia; try (intros; discriminate).
      all: try (intros Hl0; specialize (Hal Hl0); lia).
      all: try (intros Hp0; specialize (Hpl Hp0); lia).
      all: try (destruct (S ps =? n); lia).
    + reflexivity.
  - intros cc a m d e HI Hs. destruct d as [an pn ps il it]; unfold DI_j in *; cbn [ammoNum passNum pos inloop iter] in *.
    unfold jsonl_step in Hs; cbn [ammoNum passNum pos inloop iter] in Hs.
    destruct HI as (Ha & Hp & Hq & Hpas & Hlim & Hin & Hm).
    destruct (negb il && limit_faced lim _) eqn:E1.
    { injection Hs as <-. right. b2p. split; [|left; split; [reflexivity|lia]].
      apply bound_some_limit; [lia|specialize (Hlim ltac:(lia)); lia|].
      intros Hp0. specialize (Hpas Hp0). fold n. nia. }
    destruct (nz pas && (pas <=? pn)) eqn:E2.
    { injection Hs as <-. right. b2p. split; [|right; reflexivity].
      apply bound_some_passes; [lia| |exact Hlim].
      specialize (Hpas ltac:(lia)). fold n. destruct Hpas as [Hpas|(-> & -> & _)]; lia. }
    destruct (nth_error es ps) as [e0|] eqn:En; [discriminate|].
    apply nth_error_eof in En; [|exact Hp]. fold n in En. subst ps.
    destruct (an =? 0) eqn:E3; [|discriminate].
    b2p; lia.
  - intros a m d HI. destruct d as [an pn ps il it]; unfold DI_j in *; cbn [ammoNum passNum pos inloop iter] in *.
    destruct HI as (Ha & Hp & Hq & _). fold n in Hp, Hq |- *. split; intros H; nia.
Qed.


(* ---------------------------------------------------------------------------------- *)
(* What C08 says about one provider, as a predicate on its run function:
   [runf cancel fuel].  [src] is the sequence replayed cyclically, [B] the bound on the
   number of deliveries, [n] the size of the file, [C] the step constant. *)

Definition c08_spec (runf : option nat -> nat -> result) (src : list entry)
           (B : option nat) (n C : nat) : Prop :=
  (* always: a cyclic prefix, within the bounds, steps linear in deliveries (no spinning) *)
  (forall cancel fuel,
      let x := runf cancel fuel in
      let len := length (delivered x) in
      delivered x = cyc_prefix src len
      /\ le_opt len B
      /\ (forall k, cancel = Some k -> len <= k)
      /\ steps x <= C * (len + n + 1)
      /\ (out x = OutOfFuel -> steps x = fuel))
  (* count and clean end: with a bound b and no cancellation the run ends by itself, has
     delivered exactly b items, returns nil and has closed its sink *)
  /\ (forall b fuel, B = Some b -> C * (b + n + 1) < fuel ->
        let x := runf None fuel in
        delivered x = cyc_prefix src b /\ out x = Ok /\ closed x = true)
  (* cancelled once k items were sent: returns promptly, sink closed, nil or context.Canceled *)
  /\ (forall k fuel, C * (k + n + 1) < fuel ->
        let x := runf (Some k) fuel in
        out x <> OutOfFuel /\ closed x = true /\ clean_or_cancelled (out x)
        /\ (length (delivered x) = k \/ B = Some (length (delivered x))))
  (* unbounded and not cancelled: never ends, and keeps delivering (every count is reached) *)
  /\ (B = None -> forall fuel,
        let x := runf None fuel in
        out x = OutOfFuel /\ fuel <= C * (length (delivered x) + n + 1)).

Lemma sim_c08 {St} (step : bool -> St -> sres St) (src : list entry) (B : option nat)
      (c : nat) (R : nat -> nat -> St -> Prop) (s0 : St) (m0 n C : nat) :
  (forall cc a m s s', R a m s -> step cc s = Cont s' -> exists m', m' < m /\ R a m' s') ->
  (forall a m s e s', R a m s -> step false s = Emit e s' -> below a B /\ e = cyc src a /\ R (S a) c s') ->
  (forall a m s o cl, R a m s -> step false s = Stop o cl -> B = Some a /\ o = Ok /\ cl = true) ->
  (forall a m s e s', R a m s -> step true s = Emit e s' -> False) ->
  (forall a m s o cl, R a m s -> step true s = Stop o cl -> clean_or_cancelled o /\ cl = true) ->
  R 0 m0 s0 ->
  (forall len, (m0 + 1) + (c + 1) * len <= C * (len + n + 1)) ->
  c08_spec (fun cancel fuel => run_steps step cancel fuel 0 s0) src B n C.
Proof.
  intros H1 H2 H3 H4 H5 H0 HC.
  unfold c08_spec. split; [|split; [|split]].
  - intros cancel fuel.
    split; [apply (sim_prefix step src B c cancel R H1 H2 H3 H4 H5 s0 m0 H0)|].
    split.
    { destruct B as [b|] eqn:EB; cbn [le_opt]; [|exact I].
      apply (sim_le_bound step src (Some b) c cancel R H1 H2 H3 H4 H5 s0 m0 H0 fuel b eq_refl). }
    split; [intros k Hk; apply (sim_le_cancel step src B c cancel R H1 H2 H3 H4 H5 s0 m0 H0 fuel k Hk)|].
    split.
    { eapply Nat.le_trans; [apply (sim_steps step src B c cancel R H1 H2 H3 H4 H5 s0 m0 H0)|apply HC]. }
    apply (sim_oof step src B c cancel R H1 H2 H3 H4 H5 s0 m0 H0).
  - intros b fuel HB Hf.
    assert (Ht : out (run_steps step None fuel 0 s0) <> OutOfFuel).
    { apply (sim_terminates step src B c None R H1 H2 H3 H4 H5 s0 m0 H0 fuel b); [left; exact HB|].
      specialize (HC b). lia. }
    destruct (sim_end step src B c None R H1 H2 H3 H4 H5 s0 m0 H0 fuel Ht) as (Hc & _ & Hn).
    destruct (Hn eq_refl) as (Ho & HB').
    assert (length (delivered (run_steps step None fuel 0 s0)) = b) as Hl by congruence.
    split; [|split; [exact Ho|exact Hc]].
    pose proof (sim_prefix step src B c None R H1 H2 H3 H4 H5 s0 m0 H0 fuel) as Hp.
    cbv beta in Hp. rewrite Hl in Hp. exact Hp.
  - intros k fuel Hf.
    assert (Ht : out (run_steps step (Some k) fuel 0 s0) <> OutOfFuel).
    { apply (sim_terminates step src B c (Some k) R H1 H2 H3 H4 H5 s0 m0 H0 fuel k); [right; reflexivity|].
      specialize (HC k). lia. }
    destruct (sim_end step src B c (Some k) R H1 H2 H3 H4 H5 s0 m0 H0 fuel Ht) as (Hc & Hcc & Hn).
    split; [exact Ht|]. split; [exact Hc|]. split; [exact Hcc|].
    pose proof (sim_le_cancel step src B c (Some k) R H1 H2 H3 H4 H5 s0 m0 H0 fuel k eq_refl) as Hle.
    cbn [is_cancelled] in Hn.
    destruct (k <=? length (delivered (run_steps step (Some k) fuel 0 s0))) eqn:E.
    + left. b2p. lia.
    + right. apply Hn. reflexivity.
  - intros HB fuel.
    assert (Ho : out (run_steps step None fuel 0 s0) = OutOfFuel).
    { destruct (out (run_steps step None fuel 0 s0)) eqn:E; [| |reflexivity]; exfalso.
      - assert (Ht : out (run_steps step None fuel 0 s0) <> OutOfFuel) by congruence.
        destruct (sim_end step src B c None R H1 H2 H3 H4 H5 s0 m0 H0 fuel Ht) as (_ & _ & Hn).
        destruct (Hn eq_refl) as (_ & HB'). congruence.
      - assert (Ht : out (run_steps step None fuel 0 s0) <> OutOfFuel) by congruence.
        destruct (sim_end step src B c None R H1 H2 H3 H4 H5 s0 m0 H0 fuel Ht) as (_ & _ & Hn).
        destruct (Hn eq_refl) as (_ & HB'). congruence. }
    split; [exact Ho|].
    rewrite <- (sim_oof step src B c None R H1 H2 H3 H4 H5 s0 m0 H0 fuel Ho) at 1.
    eapply Nat.le_trans; [apply (sim_steps step src B c None R H1 H2 H3 H4 H5 s0 m0 H0)|apply HC].
Qed.


(* ---------------------------------------------------------------------------------- *)
(* DecodeProvider over MultiPassReader *)

Definition R_decode (n lim pas : nat) (a m : nat) (p : pstate) : Prop :=
  p_ammo p = a /\ p_pos p <= n /\ a = p_passes p * n + p_pos p
  /\ (pas <> 0 -> p_passes p < pas)
  /\ (lim <> 0 -> a <= lim)
  /\ (if p_pos p =? n then 1 else 0) <= m.

Lemma decode_c08 es lim pas :
  es <> [] ->
  c08_spec (decode_run (cfg0 lim pas) es) es (bound lim pas (length es)) (length es) 2.
Proof.
  intros Hn. assert (Hlen : 0 < length es) by (destruct es; [congruence|cbn; lia]).
  set (n := length es) in *.
  apply (sim_c08 (decode_step (cfg0 lim pas) es) es (bound lim pas n) 1
                 (R_decode n lim pas) pinit 1 n 2).
  - (* Cont *)
    intros cc a m [pa pp ps] s' HR Hs. unfold R_decode in *; cbn [p_ammo p_passes p_pos] in *.
    unfold decode_step in Hs; cbn [p_ammo p_passes p_pos limit passes cfg0] in Hs.
    destruct HR as (Ha & Hp & Hq & Hpas & Hlim & Hm).
    destruct (nz lim && (lim <=? pa)) eqn:E1; [discriminate|].
    destruct (nth_error es ps) as [e|] eqn:En; [destruct cc; discriminate|].
    destruct (pas =? 1) eqn:E2; [discriminate|].
    destruct (ps =? 0) eqn:E4; [discriminate|].
    destruct ((pas =? 0) || (S pp <? pas)) eqn:E3; [|discriminate].
    injection Hs as <-. cbn [p_ammo p_passes p_pos].
    apply nth_error_eof in En; [|exact Hp]. fold n in En. subst ps.
    rewrite Nat.eqb_refl in Hm. exists 0. split; [lia|].
    repeat split; try lia.
    all: try (intros Hp0; b2p; lia).
    all: try (destruct (0 =? n) eqn:E; [b2p; lia|lia]).
  - (* Emit *)
    intros a m [pa pp ps] e s' HR Hs. unfold R_decode in *; cbn [p_ammo p_passes p_pos] in *.
    unfold decode_step in Hs; cbn [p_ammo p_passes p_pos limit passes cfg0] in Hs.
    destruct HR as (Ha & Hp & Hq & Hpas & Hlim & Hm).
    destruct (nz lim && (lim <=? pa)) eqn:E1; [discriminate|].
    destruct (nth_error es ps) as [e0|] eqn:En.
    2:{ destruct (pas =? 1); [discriminate|]. destruct (ps =? 0); [discriminate|].
        destruct ((pas =? 0) || (S pp <? pas)); discriminate. }
    injection Hs as <- <-. cbn [p_ammo p_passes p_pos].
    pose proof (nth_error_in _ _ _ En) as Hlt. fold n in Hlt.
    assert (Hal : lim <> 0 -> a < lim) by (intros Hl0; b2p; lia).
    split; [|split].
    + apply below_bound; [exact Hal|]. intros Hp0. specialize (Hpas Hp0). nia.
    + symmetry. apply (cyc_nth_error es a pp ps); [fold n; lia|exact En].
    + repeat split; try lia.
      all: try (intros Hl0; specialize (Hal Hl0); lia).
      all: try (destruct (S ps =? n); lia).
  - (* Stop, not cancelled *)
    intros a m [pa pp ps] o cl HR Hs. unfold R_decode in *; cbn [p_ammo p_passes p_pos] in *.
    unfold decode_step in Hs; cbn [p_ammo p_passes p_pos limit passes cfg0] in Hs.
    destruct HR as (Ha & Hp & Hq & Hpas & Hlim & Hm).
    destruct (nz lim && (lim <=? pa)) eqn:E1.
    { injection Hs as <- <-. split; [|split; reflexivity]. b2p.
      apply bound_some_limit; [lia|specialize (Hlim ltac:(lia)); lia|].
      intros Hp0. specialize (Hpas Hp0). nia. }
    destruct (nth_error es ps) as [e0|] eqn:En; [discriminate|].
    apply nth_error_eof in En; [|exact Hp]. fold n in En. subst ps.
    destruct (pas =? 1) eqn:E2.
    { injection Hs as <- <-. split; [|split; reflexivity]. b2p. subst pas.
      apply bound_some_passes; [lia| |exact Hlim]. specialize (Hpas ltac:(lia)). nia. }
    destruct (n =? 0) eqn:E4; [b2p; lia|].
    destruct ((pas =? 0) || (S pp <? pas)) eqn:E3; [discriminate|].
    injection Hs as <- <-. split; [|split; reflexivity]. b2p.
    apply bound_some_passes; [lia| |exact Hlim]. specialize (Hpas ltac:(lia)).
    assert (pas = S pp) by lia. subst pas. lia.
  - (* no Emit once cancelled *)
    intros a m [pa pp ps] e s' HR Hs.
    unfold decode_step in Hs; cbn [p_ammo p_passes p_pos limit passes cfg0] in Hs.
    destruct (nz lim && (lim <=? pa)); [discriminate|].
    destruct (nth_error es ps); [discriminate|].
    destruct (pas =? 1); [discriminate|]. destruct (ps =? 0); [discriminate|].
    destruct ((pas =? 0) || (S pp <? pas)); discriminate.
  - (* Stop when cancelled: always nil, sink closed by the deferred close *)
    intros a m [pa pp ps] o cl HR Hs.
    unfold decode_step in Hs; cbn [p_ammo p_passes p_pos limit passes cfg0] in Hs.
    destruct (nz lim && (lim <=? pa)); [injection Hs as <- <-; split; [left|]; reflexivity|].
    destruct (nth_error es ps); [injection Hs as <- <-; split; [left|]; reflexivity|].
    destruct (pas =? 1); [injection Hs as <- <-; split; [left|]; reflexivity|].
    destruct (ps =? 0); [injection Hs as <- <-; split; [left|]; reflexivity|].
    destruct ((pas =? 0) || (S pp <? pas)); [discriminate|].
    injection Hs as <- <-; split; [left|]; reflexivity.
  - unfold R_decode, pinit; cbn [p_ammo p_passes p_pos]. repeat split; try lia.
    destruct (0 =? n); lia.
  - intros len. lia.
Qed.

(* ---------------------------------------------------------------------------------- *)
(* division facts used by the loops that compute pass = ammoNum / length *)

Lemma div_ge_iff a n p : 0 < n -> (p <= a / n <-> p * n <= a).
Proof.
  intros Hn. split; intros H.
  - pose proof (Nat.mul_div_le a n ltac:(lia)). nia.
  - apply Nat.div_le_lower_bound; lia.
Qed.

Lemma div_lt_iff a n p : 0 < n -> (a / n < p <-> a < p * n).
Proof.
  intros Hn. pose proof (div_ge_iff a n p Hn). lia.
Qed.

Lemma div_succ a n :
  0 < n -> S a / n = if a mod n =? n - 1 then S (a / n) else a / n.
Proof.
  intros Hn. pose proof (Nat.div_mod a n ltac:(lia)) as E.
  pose proof (Nat.mod_upper_bound a n ltac:(lia)) as Hr.
  destruct (a mod n =? n - 1) eqn:Eb.
  - apply Nat.eqb_eq in Eb. symmetry. apply (Nat.div_unique (S a) n (S (a / n)) 0); lia.
  - apply Nat.eqb_neq in Eb. symmetry. apply (Nat.div_unique (S a) n (a / n) (S (a mod n))); lia.
Qed.

(* jsonline array: pass = a / n, one step per Scan *)
Definition DI_a (n lim pas : nat) (a m : nat) (d : dstate) : Prop :=
  ammoNum d = a /\ passNum d = a / n
  /\ (lim <> 0 -> a <= lim) /\ (pas <> 0 -> a <= pas * n).

Lemma jsonarr_contract es lim pas :
  es <> [] -> contract jsonarr_step es 0 lim pas (DI_a (length es) lim pas).
Proof.
  intros Hn. assert (Hlen : 0 < length es) by (destruct es; [congruence|cbn; lia]).
  set (n := length es) in *.
  constructor.
  - unfold DI_a, dinit; cbn [ammoNum passNum pos inloop iter].
    rewrite Nat.div_0_l by lia. repeat split; lia.
  - intros cc a m d d' HI Hs. destruct d as [an pn ps il it].
    unfold jsonarr_step in Hs; cbn [ammoNum passNum pos inloop iter] in Hs. fold n in Hs.
    destruct (limit_faced lim _); [discriminate|].
    destruct (n =? 0); [discriminate|].
    destruct (nz pas && (pas <=? pn)); [discriminate|].
    destruct (nth_error es (an mod n)); discriminate.
  - intros cc a m d e d' HI Hs. destruct d as [an pn ps il it].
    unfold DI_a in *; cbn [ammoNum passNum pos inloop iter] in *.
    unfold jsonarr_step in Hs; cbn [ammoNum passNum pos inloop iter] in Hs. fold n in Hs.
    destruct HI as (Ha & Hq & Hlim & Hpas). subst an pn.
    destruct (limit_faced lim _) eqn:E1; [discriminate|].
    destruct (n =? 0) eqn:E0; [discriminate|].
    destruct (nz pas && (pas <=? a / n)) eqn:E2; [discriminate|].
    destruct (nth_error es (a mod n)) as [e0|] eqn:En; [|discriminate].
    injection Hs as <- <-. cbn [ammoNum passNum pos inloop iter].
    assert (Hal : lim <> 0 -> a < lim) by (intros Hl0; b2p; lia).
    assert (Hpl : pas <> 0 -> a < pas * n).
    { intros Hp0. b2p. apply div_lt_iff; [exact Hlen|]. lia. }
    split; [|split; [|split]].
    + apply below_bound; assumption.
    + symmetry. apply cyc_mod. exact En.
    + repeat split.
      * symmetry. apply div_succ. exact Hlen.
      * intros Hl0. specialize (Hal Hl0). lia.
      * intros Hp0. specialize (Hpl Hp0). lia.
    + reflexivity.
  - intros cc a m d e HI Hs. destruct d as [an pn ps il it].
    unfold DI_a in *; cbn [ammoNum passNum pos inloop iter] in *.
    unfold jsonarr_step in Hs; cbn [ammoNum passNum pos inloop iter] in Hs. fold n in Hs.
    destruct HI as (Ha & Hq & Hlim & Hpas). subst an pn. right.
    destruct (limit_faced lim _) eqn:E1.
    { injection Hs as <-. b2p. split; [|left; split; [reflexivity|lia]].
      apply bound_some_limit; [lia|specialize (Hlim ltac:(lia)); lia|exact Hpas]. }
    destruct (n =? 0) eqn:E0; [b2p; lia|].
    destruct (nz pas && (pas <=? a / n)) eqn:E2.
    { injection Hs as <-. b2p. split; [|right; reflexivity].
      destruct E2 as (Hp0 & Hge). apply div_ge_iff in Hge; [|exact Hlen].
      apply bound_some_passes; [lia| |exact Hlim]. specialize (Hpas ltac:(lia)). lia. }
    destruct (nth_error es (a mod n)) as [e0|] eqn:En; [discriminate|].
    exfalso. apply nth_error_None in En. pose proof (Nat.mod_upper_bound a n ltac:(lia)). fold n in En. lia.
  - intros a m d HI. destruct d as [an pn ps il it].
    unfold DI_a in *; cbn [ammoNum passNum pos inloop iter] in *.
    destruct HI as (Ha & Hq & _). subst an pn. fold n. split; intros H.
    + apply div_ge_iff in H; [lia|exact Hlen].
    + apply div_ge_iff; [exact Hlen|lia].
Qed.

(* ---------------------------------------------------------------------------------- *)
(* the cyclic replay loop (scenario.Provider.Run; provider.runPreloaded) *)

Lemma cyc_loop_facts lim pas len a :
  0 < len -> le_opt a (bound lim pas len) ->
  (* passes test *)
  ((nz pas && (pas <=? a / len)) = true -> bound lim pas len = Some a)
  /\ ((nz pas && (pas <=? a / len)) = false -> (nz lim && (lim <=? a)) = true -> bound lim pas len = Some a)
  /\ ((nz pas && (pas <=? a / len)) = false -> (nz lim && (lim <=? a)) = false -> below a (bound lim pas len)).
Proof.
  intros Hlen Hle. apply le_bound in Hle. destruct Hle as (Hl & Hp).
  split; [|split].
  - intros H. b2p. destruct H as (Hp0 & Hge). apply div_ge_iff in Hge; [|exact Hlen].
    apply bound_some_passes; [lia|specialize (Hp ltac:(lia)); lia|exact Hl].
  - intros H1 H2. b2p. apply bound_some_limit; [lia|specialize (Hl ltac:(lia)); lia|exact Hp].
  - intros H1 H2. b2p. apply below_bound; [lia|].
    intros Hp0. apply div_lt_iff; [exact Hlen|]. lia.
Qed.

Lemma match_len_pos {X A} (l : list X) (x y : A) :
  0 < length l -> match length l with 0 => x | S _ => y end = y.
Proof. destruct l; cbn; [lia|reflexivity]. Qed.

Definition R_scen (B : option nat) (a m : nat) (s : nat) : Prop := s = a /\ le_opt a B.

Lemma scen_c08 es lim pas :
  es <> [] ->
  c08_spec (scen_run (cfg0 lim pas) es) es (bound lim pas (length es)) (length es) 1.
Proof.
  intros Hn. assert (Hlen : 0 < length es) by (destruct es; [congruence|cbn; lia]).
  apply (sim_c08 (scen_step (cfg0 lim pas) es) es (bound lim pas (length es)) 0
                 (R_scen (bound lim pas (length es))) 0 0 (length es) 1).
  - intros cc a m s s' (-> & Hle) Hs. unfold scen_step in Hs.
    rewrite match_len_pos in Hs by exact Hlen. destruct cc; [discriminate|].
    cbn [limit passes cfg0] in Hs.
    destruct (nz pas && _); [discriminate|]. destruct (nz lim && _); [discriminate|].
    destruct (nth_error es _); discriminate.
  - intros a m s e s' (-> & Hle) Hs. unfold scen_step in Hs.
    rewrite match_len_pos in Hs by exact Hlen.
    destruct (cyc_loop_facts lim pas (length es) a Hlen Hle) as (F1 & F2 & F3).
    cbn [limit passes cfg0] in Hs.
    destruct (nz pas && (pas <=? a / length es)) eqn:E1; [discriminate|].
    destruct (nz lim && (lim <=? a)) eqn:E2; [discriminate|].
    destruct (nth_error es (a mod length es)) as [e0|] eqn:Ee; [|discriminate].
    injection Hs as <- <-.
    specialize (F3 eq_refl eq_refl).
    split; [exact F3|]. split; [symmetry; apply cyc_mod; exact Ee|].
    split; [reflexivity|apply below_le_opt; exact F3].
  - intros a m s o cl (-> & Hle) Hs. unfold scen_step in Hs.
    rewrite match_len_pos in Hs by exact Hlen.
    destruct (cyc_loop_facts lim pas (length es) a Hlen Hle) as (F1 & F2 & F3).
    cbn [limit passes cfg0] in Hs.
    destruct (nz pas && (pas <=? a / length es)) eqn:E1.
    { injection Hs as <- <-. split; [apply F1; reflexivity|split; reflexivity]. }
    destruct (nz lim && (lim <=? a)) eqn:E2.
    { injection Hs as <- <-. split; [apply F2; reflexivity|split; reflexivity]. }
    destruct (nth_error es (a mod length es)) as [e0|] eqn:Ee; [discriminate|].
    exfalso. apply nth_error_None in Ee. pose proof (Nat.mod_upper_bound a (length es) ltac:(lia)). lia.
  - intros a m s e s' _ Hs. unfold scen_step in Hs. destruct (length es); discriminate.
  - intros a m s o cl _ Hs. unfold scen_step in Hs.
    rewrite match_len_pos in Hs by exact Hlen. injection Hs as <- <-.
    split; [right; left; reflexivity|reflexivity].
  - split; [reflexivity|]. unfold bound, le_opt. destruct lim, pas; lia.
  - intros len. lia.
Qed.

Lemma c08_spec_mono runf src B n C C' :
  C <= C' -> c08_spec runf src B n C -> c08_spec runf src B n C'.
Proof.
  intros HC (P1 & P2 & P3 & P4). unfold c08_spec. split; [|split; [|split]].
  - intros cancel fuel. destruct (P1 cancel fuel) as (A1 & A2 & A3 & A4 & A5).
    split; [exact A1|]. split; [exact A2|]. split; [exact A3|]. split; [|exact A5].
    eapply Nat.le_trans; [exact A4|]. apply Nat.mul_le_mono_r. exact HC.
  - intros b fuel HB Hf. apply (P2 b fuel HB).
    eapply Nat.le_lt_trans; [|exact Hf]. apply Nat.mul_le_mono_r. exact HC.
  - intros k fuel Hf. apply (P3 k fuel).
    eapply Nat.le_lt_trans; [|exact Hf]. apply Nat.mul_le_mono_r. exact HC.
  - intros HB fuel. destruct (P4 HB fuel) as (A1 & A2). split; [exact A1|].
    eapply Nat.le_trans; [exact A2|]. apply Nat.mul_le_mono_r. exact HC.
Qed.

(* ---------------------------------------------------------------------------------- *)
(* http provider with preload: loadAmmo (one unbounded pass) then runPreloaded *)

Lemma filter_all_chosen (l : list entry) :
  filter (fun e => is_chosen (e_tag e) []) l = l.
Proof. induction l as [|x r IH]; cbn; [reflexivity|]. f_equal. exact IH. Qed.


Lemma match_nonempty {X A} (l : list X) (x y : A) :
  l <> [] -> match l with [] => x | _ :: _ => y end = y.
Proof. destruct l; [congruence|reflexivity]. Qed.

(* ---------------------------------------------------------------------------------- *)
(* http provider, streaming (runFullScan) with the chosencases filter.
   [dist a] bounds the number of further entries that are decoded before a chosen one comes
   (0 everywhere when there is no filter). *)

Lemma bound0_some pas n a : bound 0 pas n = Some a -> pas <> 0 /\ a = pas * n.
Proof. unfold bound. destruct pas; [discriminate|]. intros H. injection H as <-. split; [discriminate|reflexivity]. Qed.

Lemma below_bound0 pas n a : below a (bound 0 pas n) -> pas <> 0 -> S a <= pas * n.
Proof. unfold below, bound. destruct pas; [congruence|]. lia. Qed.

Section HttpStream.
  Variable k : dkind.
  Variable es : list entry.
  Variables lim pas cD : nat.
  Variable ch : list nat.
  Variable DI : nat -> nat -> dstate -> Prop.
  Hypothesis K : contract (dec_step k) es cD 0 pas DI.
  Hypothesis Hn : es <> [].
  Variable dist : nat -> nat.
  Variable g : nat.
  Hypothesis Hd1 : forall a, chosenb ch (cyc es a) = false -> dist (S a) < dist a.
  Hypothesis Hd2 : forall a, dist a <= g.

  Local Notation n := (length es).
  Local Notation src := (filter (chosenb ch) es).
  Local Notation n' := (length (filter (chosenb ch) es)).
  Local Notation B := (bound lim pas (length (filter (chosenb ch) es))).
  Local Notation cf := {| limit := lim; passes := pas; chosen := ch |}.
  Local Notation cntf := (cnt ch es).

  Hypothesis Hsrc : 0 < n'.

  Lemma Hlen_stream : 0 < n.
  Proof. destruct es; [congruence|cbn; lia]. Qed.

  Definition R_stream (dl m : nat) (s : hstate) : Prop :=
    exists d a md,
      s = HStream d dl /\ DI a md d /\ dl = cntf a
      /\ (pas <> 0 -> a <= pas * n)
      /\ (lim <> 0 -> dl <= lim)
      /\ (inloop d = true -> lim <> 0 -> dl < lim)
      /\ dist a * (cD + 1) + md <= m.

  (* the limit test at the top of runFullScan's loop *)
  Lemma top_limit d dl :
    (negb (inloop d) && nz lim && (lim <=? dl)) = false ->
    (inloop d = true -> lim <> 0 -> dl < lim) -> lim <> 0 -> dl < lim.
  Proof.
    intros E Hin Hl0. destruct (inloop d) eqn:Ei; [apply Hin; auto|].
    cbn [negb andb] in E. b2p. lia.
  Qed.

  Lemma cnt_le_passes a : pas <> 0 -> a <= pas * n -> cntf a <= pas * n'.
  Proof.
    intros Hp Ha. rewrite <- (cnt_mul ch es Hlen_stream pas).
    apply cnt_mono; [exact Hlen_stream|exact Ha].
  Qed.

  (* the "matched nothing in a whole pass" test cannot fire when something matches *)
  Lemma no_false_noammo a d' :
    DI (S a) cD d' -> chosenb ch (cyc es a) = false ->
    ((cntf a =? 0) && (1 <=? passNum d')) = false.
  Proof.
    intros HI Hc. destruct ((cntf a =? 0) && (1 <=? passNum d')) eqn:E; [|reflexivity]. exfalso.
    b2p. destruct E as (E0 & E1).
    destruct (k_pass _ _ _ _ _ _ K _ _ _ HI) as (P1 & _). specialize (P1 E1).
    pose proof (cnt_mono ch es Hlen_stream n (S a) P1) as Hm. rewrite (cnt_n ch es Hlen_stream) in Hm.
    rewrite (cnt_S ch es Hlen_stream) in Hm. fold (chosenb ch) in Hm. rewrite Hc in Hm. lia.
  Qed.

  Lemma pass_limit_delivered a :
    bound 0 pas n = Some a -> pas <> 0 /\ a = pas * n /\ cntf a = pas * n' /\ 0 < cntf a.
  Proof.
    intros H. destruct (bound0_some _ _ _ H) as (Hp0 & ->).
    split; [exact Hp0|]. split; [reflexivity|].
    rewrite (cnt_mul ch es Hlen_stream). split; [reflexivity|].
    assert (0 < pas) by lia. nia.
  Qed.

  Lemma stream_cont cc dl m s s' :
    R_stream dl m s -> http_step k cf es cc s = Cont s' -> exists m', m' < m /\ R_stream dl m' s'.
  Proof.
    intros (d & a & md & -> & HI & Hdl & Hpa & Hlim & Hin & Hm) Hs. cbn [http_step] in Hs.
    destruct (negb (inloop d) && cc); [discriminate|].
    cbn [limit passes chosen] in Hs.
    destruct (negb (inloop d) && nz lim && (lim <=? dl)) eqn:El; [discriminate|].
    pose proof (top_limit d dl El Hin) as Hlt.
    destruct (dec_step k cc 0 pas es d) as [d'|e d'|e] eqn:Ed.
    - injection Hs as <-. destruct (k_again _ _ _ _ _ _ K _ _ _ _ _ HI Ed) as (md' & Hmd & HI').
      exists (dist a * (cD + 1) + md'). split; [lia|].
      exists d', a, md'. repeat split; auto.
    - destruct (k_ammo _ _ _ _ _ _ K _ _ _ _ _ _ HI Ed) as (Hb & -> & HI' & Hil).
      fold (chosenb ch (cyc es a)) in Hs.
      destruct (chosenb ch (cyc es a)) eqn:Hc; cbn [negb] in Hs; [destruct cc; discriminate|].
      subst dl. rewrite (no_false_noammo a d' HI' Hc) in Hs. injection Hs as <-.
      pose proof (Hd1 a Hc) as Hdd.
      exists (dist (S a) * (cD + 1) + cD). split; [nia|].
      exists d', (S a), cD. repeat split; auto.
      all: try (rewrite (cnt_S ch es Hlen_stream); fold (chosenb ch); rewrite Hc; reflexivity).
      all: try (intros Hp0; apply (below_bound0 _ _ _ Hb Hp0)).
      all: try (rewrite Hil; discriminate).
    - discriminate.
  Qed.

  Lemma stream_emit dl m s e s' :
    R_stream dl m s -> http_step k cf es false s = Emit e s' ->
    below dl B /\ e = cyc src dl /\ R_stream (S dl) (g * (cD + 1) + cD) s'.
  Proof.
    intros (d & a & md & -> & HI & Hdl & Hpa & Hlim & Hin & Hm) Hs. cbn [http_step] in Hs.
    rewrite andb_false_r in Hs. cbn [limit passes chosen] in Hs.
    destruct (negb (inloop d) && nz lim && (lim <=? dl)) eqn:El; [discriminate|].
    pose proof (top_limit d dl El Hin) as Hlt.
    destruct (dec_step k false 0 pas es d) as [d'|e0 d'|e0] eqn:Ed; try discriminate.
    destruct (k_ammo _ _ _ _ _ _ K _ _ _ _ _ _ HI Ed) as (Hb & -> & HI' & Hil).
    fold (chosenb ch (cyc es a)) in Hs.
    destruct (chosenb ch (cyc es a)) eqn:Hc; cbn [negb] in Hs.
    2:{ destruct ((dl =? 0) && (1 <=? passNum d')); discriminate. }
    injection Hs as <- <-.
    assert (HS : cntf (S a) = S dl).
    { rewrite (cnt_S ch es Hlen_stream). fold (chosenb ch). rewrite Hc. congruence. }
    assert (Hpa' : pas <> 0 -> S a <= pas * n).
    { intros Hp0. apply (below_bound0 _ _ _ Hb Hp0). }
    split; [|split].
    - apply below_bound; [exact Hlt|]. intros Hp0.
      pose proof (cnt_le_passes (S a) Hp0 (Hpa' Hp0)). lia.
    - subst dl. apply (chosen_is_next ch es Hlen_stream a Hc).
    - exists d', (S a), cD. repeat split; auto.
      all: try (intros Hl0; specialize (Hlt Hl0); lia).
      all: try (rewrite Hil; discriminate).
      all: try (pose proof (Hd2 (S a)); nia).
  Qed.

  Lemma stream_stop dl m s o cl :
    R_stream dl m s -> http_step k cf es false s = Stop o cl -> B = Some dl /\ o = Ok /\ cl = true.
  Proof.
    intros (d & a & md & -> & HI & Hdl & Hpa & Hlim & Hin & Hm) Hs. cbn [http_step] in Hs.
    rewrite andb_false_r in Hs. cbn [limit passes chosen] in Hs.
    destruct (negb (inloop d) && nz lim && (lim <=? dl)) eqn:El.
    { injection Hs as <- <-. split; [|split; reflexivity]. b2p.
      destruct El as ((_ & Hl0) & Hge).
      apply bound_some_limit; [lia|specialize (Hlim ltac:(lia)); lia|].
      intros Hp0. subst dl. apply cnt_le_passes; auto. }
    pose proof (top_limit d dl El Hin) as Hlt.
    destruct (dec_step k false 0 pas es d) as [d'|e0 d'|e0] eqn:Ed; [discriminate| |].
    - exfalso. destruct (k_ammo _ _ _ _ _ _ K _ _ _ _ _ _ HI Ed) as (Hb & -> & HI' & Hil).
      fold (chosenb ch (cyc es a)) in Hs.
      destruct (chosenb ch (cyc es a)) eqn:Hc; cbn [negb] in Hs; [discriminate|].
      subst dl. rewrite (no_false_noammo a d' HI' Hc) in Hs. discriminate.
    - injection Hs as <- <-.
      destruct (k_err _ _ _ _ _ _ K _ _ _ _ _ HI Ed) as [(Hc & _)|(HB & He)]; [discriminate|].
      destruct (pass_limit_delivered a HB) as (Hp0 & Ha & Hc & Hpos).
      destruct He as [(_ & He)| ->]; [congruence|].
      unfold fullscan_result. cbn [is_limit_err].
      destruct (dl =? 0) eqn:E0; [b2p; lia|].
      split; [|split; reflexivity].
      apply bound_some_passes; [exact Hp0|congruence|exact Hlim].
  Qed.

  Lemma stream_cemit dl m s e s' :
    R_stream dl m s -> http_step k cf es true s = Emit e s' -> False.
  Proof.
    intros (d & a & md & -> & _) Hs. cbn [http_step] in Hs.
    destruct (negb (inloop d) && true); [discriminate|].
    destruct (negb (inloop d) && _ && _); [discriminate|].
    destruct (dec_step k true _ _ es d) as [d'|e0 d'|e0]; try discriminate.
    destruct (negb _); [|discriminate]. destruct (_ && _); discriminate.
  Qed.

  Lemma stream_cstop dl m s o cl :
    R_stream dl m s -> http_step k cf es true s = Stop o cl -> clean_or_cancelled o /\ cl = true.
  Proof.
    intros (d & a & md & -> & HI & Hdl & Hpa & Hlim & Hin & Hm) Hs. cbn [http_step] in Hs.
    destruct (negb (inloop d) && true).
    { injection Hs as <- <-. split; [right; left; reflexivity|reflexivity]. }
    cbn [limit passes chosen] in Hs.
    destruct (negb (inloop d) && nz lim && (lim <=? dl)).
    { injection Hs as <- <-. split; [left; reflexivity|reflexivity]. }
    destruct (dec_step k true 0 pas es d) as [d'|e0 d'|e0] eqn:Ed; [discriminate| |].
    - destruct (k_ammo _ _ _ _ _ _ K _ _ _ _ _ _ HI Ed) as (Hb & -> & HI' & Hil).
      fold (chosenb ch (cyc es a)) in Hs.
      destruct (chosenb ch (cyc es a)) eqn:Hc; cbn [negb] in Hs.
      + injection Hs as <- <-. split; [right; left; reflexivity|reflexivity].
      + subst dl. rewrite (no_false_noammo a d' HI' Hc) in Hs. discriminate.
    - injection Hs as <- <-. split; [|reflexivity].
      destruct (k_err _ _ _ _ _ _ K _ _ _ _ _ HI Ed) as [(_ & ->)|(HB & He)].
      + right; left; reflexivity.
      + destruct (pass_limit_delivered a HB) as (Hp0 & Ha & Hc & Hpos).
        destruct He as [(_ & He)| ->]; [congruence|].
        unfold fullscan_result. cbn [is_limit_err].
        destruct (dl =? 0) eqn:E0; [b2p; lia|]. left; reflexivity.
  Qed.

  Lemma stream_init : R_stream 0 (g * (cD + 1) + cD) (http_init false).
  Proof.
    exists dinit, 0, cD. split; [reflexivity|]. split; [apply (k_init _ _ _ _ _ _ K)|].
    split; [reflexivity|]. repeat split; try lia.
    all: try (intros _ Hl0; lia).
    all: try (pose proof (Hd2 0); nia).
  Qed.
End HttpStream.

(* streaming with a filter: c08_spec over the chosen entries, step constant depending on the gap *)
Lemma http_stream_spec k es lim pas cD ch DI dist g C :
  contract (dec_step k) es cD 0 pas DI -> es <> [] ->
  (forall a, chosenb ch (cyc es a) = false -> dist (S a) < dist a) -> (forall a, dist a <= g) ->
  0 < length (filter (chosenb ch) es) ->
  (forall len, (g * (cD + 1) + cD + 1) + (g * (cD + 1) + cD + 1) * len <= C * (len + length es + 1)) ->
  c08_spec (http_run k false {| limit := lim; passes := pas; chosen := ch |} es)
           (filter (chosenb ch) es) (bound lim pas (length (filter (chosenb ch) es))) (length es) C.
Proof.
  intros K Hn Hd1 Hd2 Hsrc HC.
  apply (sim_c08 (http_step k {| limit := lim; passes := pas; chosen := ch |} es)
                 (filter (chosenb ch) es) (bound lim pas (length (filter (chosenb ch) es)))
                 (g * (cD + 1) + cD)
                 (R_stream es lim pas cD ch DI dist) (http_init false) (g * (cD + 1) + cD) (length es) C).
  - intros cc a m s s'. eapply stream_cont; eauto.
  - intros a m s e s'. eapply stream_emit; eauto.
  - intros a m s o cl. eapply stream_stop; eauto.
  - intros a m s e s'. eapply stream_cemit; eauto.
  - intros a m s o cl. eapply stream_cstop; eauto.
  - eapply stream_init; eauto.
  - exact HC.
Qed.

Lemma chosenb_nil e : chosenb [] e = true.
Proof. reflexivity. Qed.

Lemma filter_chosenb_nil (l : list entry) : filter (chosenb []) l = l.
Proof. induction l as [|x r IH]; cbn; [reflexivity|]. f_equal. exact IH. Qed.

(* no filter: every entry is chosen, dist = 0 *)
Lemma http_stream_c08_gen k es lim pas cD DI :
  cD <= 1 -> es <> [] ->
  contract (dec_step k) es cD 0 pas DI ->
  c08_spec (http_run k false (cfg0 lim pas) es) es (bound lim pas (length es)) (length es) 2.
Proof.
  intros HcD Hn K.
  pose proof (http_stream_spec k es lim pas cD [] DI (fun _ => 0) 0 2 K Hn) as H.
  rewrite filter_chosenb_nil in H. apply H.
  - intros a Hc. rewrite chosenb_nil in Hc. discriminate.
  - intros a. lia.
  - destruct es; [congruence|cbn; lia].
  - intros len. nia.
Qed.

Lemma budget_again t md md' m : md' < md -> t + md + 2 <= m -> m - 1 < m /\ t + md' + 2 <= m - 1.
Proof. lia. Qed.

Lemma budget_ammo t cD md m : S t * (cD + 1) + md + 2 <= m -> m - 1 < m /\ t * (cD + 1) + cD + 2 <= m - 1.
Proof. cbn [Nat.mul]. set (x := t * (cD + 1)). lia. Qed.

Section HttpPreload.
  Variable k : dkind.
  Variable es : list entry.
  Variables lim pas cD : nat.
  Variable DI : nat -> nat -> dstate -> Prop.
  Hypothesis K : contract (dec_step k) es cD 0 1 DI.
  Hypothesis Hn : es <> [].
  Variable ch : list nat.
  Hypothesis Hsrc : filter (chosenb ch) es <> [].

  Local Notation n := (length es).
  Local Notation src := (filter (chosenb ch) es).
  Local Notation n' := (length (filter (chosenb ch) es)).
  Local Notation B := (bound lim pas (length (filter (chosenb ch) es))).
  Local Notation cf := {| limit := lim; passes := pas; chosen := ch |}.

  Definition R_pre (a m : nat) (s : hstate) : Prop :=
    (a = 0 /\ exists d acc a' md,
        s = HLoad d acc /\ DI a' md d /\ acc = cyc_prefix es a' /\ a' <= n
        /\ (n - a') * (cD + 1) + md + 2 <= m)
    \/ (s = HPre src a /\ le_opt a B).

  Lemma Hlen_pre : 0 < n.
  Proof. unfold n. destruct es; [congruence|cbn; lia]. Qed.

  Lemma Hlen_src : 0 < n'.
  Proof. destruct (filter (chosenb ch) es); [congruence|cbn; lia]. Qed.

  Lemma bound_load a' : bound 0 1 (length es) = Some a' -> a' = n.
  Proof. unfold bound. intros H. injection H as <-. unfold n. lia. Qed.

  Lemma pre_cont cc a m s s' :
    R_pre a m s -> http_step k cf es cc s = Cont s' -> exists m', m' < m /\ R_pre a m' s'.
  Proof.
    intros [(-> & d & acc & a' & md & -> & HI & Hacc & Ha' & Hm)|(-> & Hle)] Hs.
    - cbn [http_step] in Hs.
      destruct (dec_step k cc 0 1 es d) as [d'|e d'|e] eqn:Ed.
      + injection Hs as <-. destruct (k_again _ _ _ _ _ _ K _ _ _ _ _ HI Ed) as (md' & Hlt & HI').
        destruct (budget_again _ _ _ _ Hlt Hm) as (Hb1 & Hb2).
        exists (m - 1). split; [exact Hb1|]. left. split; [reflexivity|].
        exists d', acc, a', md'. repeat split; auto.
      + injection Hs as <-.
        destruct (k_ammo _ _ _ _ _ _ K _ _ _ _ _ _ HI Ed) as (Hb & -> & HI' & _).
        assert (a' < n) as Hlt.
        { unfold below, bound in Hb. fold n in Hb. lia. }
        replace (n - a') with (S (n - S a')) in Hm by lia.
        destruct (budget_ammo _ _ _ _ Hm) as (Hb1 & Hb2).
        exists (m - 1). split; [exact Hb1|]. left. split; [reflexivity|].
        exists d', (acc ++ [cyc es a']), (S a'), cD. repeat split; auto.
        rewrite cyc_prefix_S, Hacc. reflexivity.
      + destruct (k_err _ _ _ _ _ _ K _ _ _ _ _ HI Ed) as [(_ & ->)|(HB & He)]; [discriminate|].
        apply bound_load in HB. subst a'.
        destruct He as [(_ & He)| ->]; [congruence|].
        cbn [chosen] in Hs. rewrite Hacc, cyc_prefix_full in Hs.
        change (filter (fun e => is_chosen (e_tag e) ch) es) with src in Hs.
        rewrite match_nonempty in Hs by exact Hsrc.
        injection Hs as <-. exists 0. split; [lia|]. right. split; [reflexivity|].
        unfold bound, le_opt. destruct lim, pas; lia.
    - cbn [http_step] in Hs. destruct cc; [discriminate|].
      rewrite match_len_pos in Hs by exact Hlen_src.
      cbn [limit passes] in Hs.
      destruct (nz pas && _); [discriminate|]. destruct (nz lim && _); [discriminate|].
      destruct (nth_error src _); discriminate.
  Qed.

  Lemma pre_emit a m s e s' :
    R_pre a m s -> http_step k cf es false s = Emit e s' ->
    below a B /\ e = cyc src a /\ R_pre (S a) 0 s'.
  Proof.
    intros [(-> & d & acc & a' & md & -> & HI & Hacc & Ha' & Hm)|(-> & Hle)] Hs.
    - cbn [http_step] in Hs.
      destruct (dec_step k false 0 1 es d) as [d'|e0 d'|e0]; try discriminate.
      destruct e0; try discriminate.
      destruct (filter _ acc); discriminate.
    - cbn [http_step] in Hs. rewrite match_len_pos in Hs by exact Hlen_src.
      destruct (cyc_loop_facts lim pas n' a Hlen_src Hle) as (F1 & F2 & F3).
      cbn [limit passes] in Hs.
      destruct (nz pas && (pas <=? a / n')) eqn:E1; [discriminate|].
      destruct (nz lim && (lim <=? a)) eqn:E2; [discriminate|].
      destruct (nth_error src (a mod n')) as [e0|] eqn:Ee; [|discriminate].
      injection Hs as <- <-. specialize (F3 eq_refl eq_refl).
      split; [exact F3|]. split; [symmetry; apply cyc_mod; exact Ee|].
      right. split; [reflexivity|apply below_le_opt; exact F3].
  Qed.

  Lemma pre_stop a m s o cl :
    R_pre a m s -> http_step k cf es false s = Stop o cl -> B = Some a /\ o = Ok /\ cl = true.
  Proof.
    intros [(-> & d & acc & a' & md & -> & HI & Hacc & Ha' & Hm)|(-> & Hle)] Hs.
    - exfalso. cbn [http_step] in Hs.
      destruct (dec_step k false 0 1 es d) as [d'|e0 d'|e0] eqn:Ed; try discriminate.
      destruct (k_err _ _ _ _ _ _ K _ _ _ _ _ HI Ed) as [(Hc & _)|(HB & He)]; [discriminate|].
      apply bound_load in HB. subst a'.
      destruct He as [(_ & He)| ->]; [congruence|].
      cbn [chosen] in Hs. rewrite Hacc, cyc_prefix_full in Hs.
      change (filter (fun e => is_chosen (e_tag e) ch) es) with src in Hs.
      rewrite match_nonempty in Hs by exact Hsrc. discriminate.
    - cbn [http_step] in Hs. rewrite match_len_pos in Hs by exact Hlen_src.
      destruct (cyc_loop_facts lim pas n' a Hlen_src Hle) as (F1 & F2 & F3).
      cbn [limit passes] in Hs.
      destruct (nz pas && (pas <=? a / n')) eqn:E1.
      { injection Hs as <- <-. split; [apply F1; reflexivity|split; reflexivity]. }
      destruct (nz lim && (lim <=? a)) eqn:E2.
      { injection Hs as <- <-. split; [apply F2; reflexivity|split; reflexivity]. }
      destruct (nth_error src (a mod n')) as [e0|] eqn:Ee; [discriminate|].
      exfalso. apply nth_error_None in Ee. pose proof (Nat.mod_upper_bound a n' ltac:(pose proof Hlen_src; lia)).
      lia.
  Qed.

  Lemma pre_cemit a m s e s' :
    R_pre a m s -> http_step k cf es true s = Emit e s' -> False.
  Proof.
    intros [(-> & d & acc & a' & md & -> & HI & Hacc & Ha' & Hm)|(-> & Hle)] Hs.
    - cbn [http_step] in Hs.
      destruct (dec_step k true 0 1 es d) as [d'|e0 d'|e0]; try discriminate.
      destruct e0; try discriminate.
      destruct (filter _ acc); discriminate.
    - cbn [http_step] in Hs. discriminate.
  Qed.

  Lemma pre_cstop a m s o cl :
    R_pre a m s -> http_step k cf es true s = Stop o cl -> clean_or_cancelled o /\ cl = true.
  Proof.
    intros [(-> & d & acc & a' & md & -> & HI & Hacc & Ha' & Hm)|(-> & Hle)] Hs.
    - cbn [http_step] in Hs.
      destruct (dec_step k true 0 1 es d) as [d'|e0 d'|e0] eqn:Ed; try discriminate.
      destruct (k_err _ _ _ _ _ _ K _ _ _ _ _ HI Ed) as [(_ & ->)|(HB & He)].
      + injection Hs as <- <-. split; [right; right; reflexivity|reflexivity].
      + exfalso. apply bound_load in HB. subst a'.
        destruct He as [(_ & He)| ->]; [congruence|].
        cbn [chosen] in Hs. rewrite Hacc, cyc_prefix_full in Hs.
        change (filter (fun e => is_chosen (e_tag e) ch) es) with src in Hs.
        rewrite match_nonempty in Hs by exact Hsrc. discriminate.
    - cbn [http_step] in Hs. injection Hs as <- <-.
      split; [right; left; reflexivity|reflexivity].
  Qed.

  Lemma pre_init : R_pre 0 (n * (cD + 1) + cD + 2) (http_init true).
  Proof.
    left. split; [reflexivity|]. exists dinit, [], 0, cD.
    split; [reflexivity|]. split; [apply (k_init _ _ _ _ _ _ K)|].
    split; [reflexivity|]. split; [lia|]. rewrite Nat.sub_0_r. lia.
  Qed.
End HttpPreload.

Lemma http_preload_spec k es lim pas cD ch DI :
  cD <= 1 -> es <> [] -> filter (chosenb ch) es <> [] -> contract (dec_step k) es cD 0 1 DI ->
  c08_spec (http_run k true {| limit := lim; passes := pas; chosen := ch |} es)
           (filter (chosenb ch) es) (bound lim pas (length (filter (chosenb ch) es))) (length es) 4.
Proof.
  intros HcD Hn Hsrc K.
  apply (sim_c08 (http_step k {| limit := lim; passes := pas; chosen := ch |} es)
                 (filter (chosenb ch) es) (bound lim pas (length (filter (chosenb ch) es))) 0
                 (R_pre es lim pas cD DI ch) (http_init true)
                 (length es * (cD + 1) + cD + 2) (length es) 4).
  - intros cc a m s s'. eapply pre_cont; eauto.
  - intros a m s e s'. eapply pre_emit; eauto.
  - intros a m s o cl. eapply pre_stop; eauto.
  - intros a m s e s'. eapply pre_cemit; eauto.
  - intros a m s o cl. eapply pre_cstop; eauto.
  - eapply pre_init; eauto.
  - intros len. nia.
Qed.

Lemma http_preload_c08 k es lim pas cD DI :
  cD <= 1 -> es <> [] -> contract (dec_step k) es cD 0 1 DI ->
  c08_spec (http_run k true (cfg0 lim pas) es) es (bound lim pas (length es)) (length es) 4.
Proof.
  intros HcD Hn K.
  pose proof (http_preload_spec k es lim pas cD [] DI HcD Hn) as H.
  rewrite filter_chosenb_nil in H. apply H; assumption.
Qed.

(* ---------------------------------------------------------------------------------- *)
(* grpc/json provider *)

Definition R_g (n lim pas : nat) (a m : nat) (g : gstate) : Prop :=
  g_ammo g = a /\ (lim <> 0 -> a <= lim)
  /\ (g_inner g = false ->
      g_pos g = 0 /\ a = g_pass g * n /\ (pas <> 0 -> g_pass g < pas) /\ (lim <> 0 -> a < lim) /\ 1 <= m)
  /\ (g_inner g = true ->
      1 <= g_pass g /\ g_pos g <= n /\ a = (g_pass g - 1) * n + g_pos g
      /\ (pas <> 0 -> g_pass g <= pas) /\ (if g_pos g =? n then 2 else 0) <= m).

Lemma g_after_cases n lim pas a m ga gp gs :
  0 < n -> ga = a -> (lim <> 0 -> a <= lim) -> 1 <= gp -> (pas <> 0 -> gp <= pas) ->
  a <= gp * n -> (a = gp * n \/ (lim <> 0 /\ lim <= a)) -> 2 <= m ->
  match g_after (cfg0 lim pas) {| g_ammo := ga; g_pass := gp; g_pos := gs; g_inner := true |} with
  | Stop o cl => o = Ok /\ cl = true /\ bound lim pas n = Some a
  | Cont g' => R_g n lim pas a 1 g'
  | Emit _ _ => False
  end.
Proof.
  intros Hn -> Hlim Hp1 Hpas Hle Hor Hm. unfold g_after. cbn [limit passes cfg0 g_ammo g_pass].
  destruct (a =? 0) eqn:E0; [exfalso; b2p; destruct Hor as [Hor|Hor]; nia|].
  destruct (nz lim && (lim <=? a)) eqn:E1.
  { split; [reflexivity|]. split; [reflexivity|]. b2p.
    apply bound_some_limit; [lia|specialize (Hlim ltac:(lia)); lia|].
    intros Hp0. specialize (Hpas Hp0). nia. }
  destruct (nz pas && (pas <=? gp)) eqn:E2.
  { split; [reflexivity|]. split; [reflexivity|]. b2p.
    destruct Hor as [Hor|Hor]; [|lia].
    apply bound_some_passes; [lia| |exact Hlim].
    specialize (Hpas ltac:(lia)). assert (gp = pas) by lia. subst gp. exact Hor. }
  unfold R_g; cbn [g_ammo g_pass g_pos g_inner]. b2p.
  split; [reflexivity|]. split; [exact Hlim|]. split; [|intros; discriminate].
  intros _. destruct Hor as [Hor|Hor]; [|lia].
  repeat split; try lia.
Qed.

Lemma grpcjson_c08 es lim pas :
  es <> [] ->
  c08_spec (grpcjson_run (cfg0 lim pas) es) es (bound lim pas (length es)) (length es) 3.
Proof.
  intros Hn. assert (Hlen : 0 < length es) by (destruct es; [congruence|cbn; lia]).
  apply (sim_c08 (grpcjson_step (cfg0 lim pas) es) es (bound lim pas (length es)) 2
                 (R_g (length es) lim pas) ginit 1 (length es) 3).
  - (* Cont *)
    intros cc a m [ga gp gs gi] s' HR Hs.
    unfold R_g in HR; cbn [g_ammo g_pass g_pos g_inner] in HR.
    destruct HR as (Ha & Hlim & Hout & Hin).
    unfold grpcjson_step in Hs; cbn [g_ammo g_pass g_pos g_inner] in Hs.
    destruct gi; cbn [negb] in Hs.
    + destruct (Hin eq_refl) as (Hp1 & Hps & Hq & Hpas & Hm).
      destruct (nth_error es gs) as [e|] eqn:En.
      * pose proof (nth_error_in _ _ _ En) as Hlt.
        cbn [limit chosen cfg0 is_chosen negb] in Hs.
        destruct ((lim =? 0) || (ga <? lim)) eqn:E1; [destruct cc; discriminate|].
        pose proof (g_after_cases (length es) lim pas a m ga gp (S gs) Hlen Ha Hlim Hp1 Hpas) as G.
        rewrite Hs in G.
        assert (Hle : a <= gp * length es) by nia.
        assert (Hor : a = gp * length es \/ (lim <> 0 /\ lim <= a)) by (right; b2p; lia).
        assert (2 <= m \/ m < 2) as [Hm2|Hm2] by lia.
        { exists 1. split; [lia|]. apply G; auto. }
        (* m < 2: the continuation of g_after is impossible here, the limit test stops *)
        exfalso. unfold g_after in Hs. cbn [limit passes cfg0 g_ammo g_pass] in Hs.
        b2p. destruct (ga =? 0); [discriminate|].
        destruct (nz lim && (lim <=? ga)) eqn:E3; [discriminate|]. b2p. lia.
      * apply nth_error_eof in En; [|exact Hps]. subst gs. rewrite Nat.eqb_refl in Hm.
        pose proof (g_after_cases (length es) lim pas a m ga gp (length es) Hlen Ha Hlim Hp1 Hpas) as G.
        rewrite Hs in G.
        exists 1. split; [lia|]. apply G; [nia|left; nia|lia].
    + destruct (Hout eq_refl) as (Hps & Hq & Hpas & Hal & Hm).
      injection Hs as <-. exists (m - 1). split; [lia|].
      unfold R_g; cbn [g_ammo g_pass g_pos g_inner].
      split; [exact Ha|]. split; [exact Hlim|]. split; [intros; discriminate|]. intros _.
      subst gs. repeat split; try lia.
      all: try (rewrite Nat.sub_succ, Nat.sub_0_r; lia).
      all: try (intros Hp0; specialize (Hpas Hp0); lia).
      all: try (destruct (0 =? length es) eqn:E; [b2p; lia|lia]).
  - (* Emit *)
    intros a m [ga gp gs gi] e s' HR Hs.
    unfold R_g in HR; cbn [g_ammo g_pass g_pos g_inner] in HR.
    destruct HR as (Ha & Hlim & Hout & Hin).
    unfold grpcjson_step in Hs; cbn [g_ammo g_pass g_pos g_inner] in Hs.
    destruct gi; cbn [negb] in Hs; [|discriminate].
    destruct (Hin eq_refl) as (Hp1 & Hps & Hq & Hpas & Hm).
    destruct (nth_error es gs) as [e0|] eqn:En.
    2:{ unfold g_after in Hs. destruct (g_ammo _ =? 0); [discriminate|].
        destruct (nz _ && _); [discriminate|]. destruct (nz _ && _); discriminate. }
    pose proof (nth_error_in _ _ _ En) as Hlt.
    cbn [limit chosen cfg0 is_chosen negb] in Hs.
    destruct ((lim =? 0) || (ga <? lim)) eqn:E1.
    2:{ unfold g_after in Hs. destruct (g_ammo _ =? 0); [discriminate|].
        destruct (nz _ && _); [discriminate|]. destruct (nz _ && _); discriminate. }
    injection Hs as <- <-. subst ga.
    assert (Hal : lim <> 0 -> a < lim) by (intros Hl0; b2p; lia).
    split; [|split].
    + apply below_bound; [exact Hal|]. intros Hp0. specialize (Hpas Hp0). nia.
    + symmetry. apply (cyc_nth_error es a (gp - 1) gs); [lia|exact En].
    + unfold R_g; cbn [g_ammo g_pass g_pos g_inner].
      split; [reflexivity|]. split; [intros Hl0; specialize (Hal Hl0); lia|].
      split; [intros; discriminate|]. intros _.
      repeat split; try lia. destruct (S gs =? length es); lia.
  - (* Stop, not cancelled *)
    intros a m [ga gp gs gi] o cl HR Hs.
    unfold R_g in HR; cbn [g_ammo g_pass g_pos g_inner] in HR.
    destruct HR as (Ha & Hlim & Hout & Hin).
    unfold grpcjson_step in Hs; cbn [g_ammo g_pass g_pos g_inner] in Hs.
    destruct gi; cbn [negb] in Hs; [|discriminate].
    destruct (Hin eq_refl) as (Hp1 & Hps & Hq & Hpas & Hm).
    destruct (nth_error es gs) as [e0|] eqn:En.
    + pose proof (nth_error_in _ _ _ En) as Hlt.
      cbn [limit chosen cfg0 is_chosen negb] in Hs.
      destruct ((lim =? 0) || (ga <? lim)) eqn:E1; [discriminate|].
      assert (Hle : a <= gp * length es) by nia.
      assert (Hor : a = gp * length es \/ (lim <> 0 /\ lim <= a)) by (right; b2p; lia).
      unfold g_after in Hs. cbn [limit passes cfg0 g_ammo g_pass] in Hs.
      destruct (ga =? 0) eqn:E4; [exfalso; b2p; lia|].
      destruct (nz lim && (lim <=? ga)) eqn:E3.
      * injection Hs as <- <-. split; [|split; reflexivity]. b2p.
        apply bound_some_limit; [lia|specialize (Hlim ltac:(lia)); lia|].
        intros Hp0. specialize (Hpas Hp0). nia.
      * exfalso. b2p. lia.
    + apply nth_error_eof in En; [|exact Hps]. subst gs. rewrite Nat.eqb_refl in Hm.
      pose proof (g_after_cases (length es) lim pas a m ga gp (length es) Hlen Ha Hlim Hp1 Hpas) as G.
      rewrite Hs in G.
      destruct G as (-> & -> & HB); [nia|left; nia|lia|].
      split; [exact HB|split; reflexivity].
  - (* no Emit once cancelled *)
    intros a m [ga gp gs gi] e s' HR Hs.
    unfold grpcjson_step in Hs; cbn [g_ammo g_pass g_pos g_inner] in Hs.
    destruct gi; cbn [negb] in Hs; [|discriminate].
    destruct (nth_error es gs) as [e0|].
    + cbn [limit chosen cfg0 is_chosen negb] in Hs.
      destruct ((lim =? 0) || (ga <? lim)); [discriminate|].
      unfold g_after in Hs. destruct (g_ammo _ =? 0); [discriminate|].
      destruct (nz _ && _); [discriminate|]. destruct (nz _ && _); discriminate.
    + unfold g_after in Hs. destruct (g_ammo _ =? 0); [discriminate|].
      destruct (nz _ && _); [discriminate|]. destruct (nz _ && _); discriminate.
  - (* Stop when cancelled *)
    intros a m [ga gp gs gi] o cl HR Hs.
    unfold R_g in HR; cbn [g_ammo g_pass g_pos g_inner] in HR.
    destruct HR as (Ha & Hlim & Hout & Hin).
    unfold grpcjson_step in Hs; cbn [g_ammo g_pass g_pos g_inner] in Hs.
    destruct gi; cbn [negb] in Hs; [|discriminate].
    destruct (Hin eq_refl) as (Hp1 & Hps & Hq & Hpas & Hm).
    destruct (nth_error es gs) as [e0|] eqn:En.
    + cbn [limit chosen cfg0 is_chosen negb] in Hs.
      destruct ((lim =? 0) || (ga <? lim)) eqn:E1; [injection Hs as <- <-; split; [left|]; reflexivity|].
      unfold g_after in Hs. cbn [limit passes cfg0 g_ammo g_pass] in Hs.
      destruct (ga =? 0) eqn:E4; [exfalso; b2p; lia|].
      destruct (nz _ && _); [injection Hs as <- <-; split; [left|]; reflexivity|].
      destruct (nz _ && _); [injection Hs as <- <-; split; [left|]; reflexivity|discriminate].
    + apply nth_error_eof in En; [|exact Hps]. subst gs.
      unfold g_after in Hs. cbn [limit passes cfg0 g_ammo g_pass] in Hs.
      destruct (ga =? 0) eqn:E4; [exfalso; b2p; nia|].
      destruct (nz _ && _); [injection Hs as <- <-; split; [left|]; reflexivity|].
      destruct (nz _ && _); [injection Hs as <- <-; split; [left|]; reflexivity|discriminate].
  - unfold R_g, ginit; cbn [g_ammo g_pass g_pos g_inner].
    split; [reflexivity|]. split; [lia|]. split; [|intros; discriminate].
    intros _. repeat split; lia.
  - intros len. lia.
Qed.

(* ---------------------------------------------------------------------------------- *)
(* every provider kind *)

Theorem all_kinds_c08 (k : pkind) es lim pas :
  es <> [] ->
  c08_spec (run k (cfg0 lim pas) es) es (bound lim pas (length es)) (length es) 4.
Proof.
  intros Hn. destruct k as [d pre| | |]; cbn [run].
  - destruct pre.
    + destruct d.
      * exact (http_preload_c08 DUri es lim pas 1 _ (le_n 1) Hn (uri_contract es 0 1 Hn)).
      * exact (http_preload_c08 DUripost es lim pas 1 _ (le_n 1) Hn (uripost_contract es 0 1 Hn)).
      * exact (http_preload_c08 DRaw es lim pas 1 _ (le_n 1) Hn (raw_contract es 0 1 Hn)).
      * exact (http_preload_c08 DJsonl es lim pas 1 _ (le_n 1) Hn (jsonl_contract es 0 1 Hn)).
      * exact (http_preload_c08 DJsonArr es lim pas 0 _ (le_S 0 0 (le_n 0)) Hn (jsonarr_contract es 0 1 Hn)).
    + apply (c08_spec_mono _ _ _ _ 2 4); [lia|].
      destruct d.
      * exact (http_stream_c08_gen DUri es lim pas 1 _ (le_n 1) Hn (uri_contract es 0 pas Hn)).
      * exact (http_stream_c08_gen DUripost es lim pas 1 _ (le_n 1) Hn (uripost_contract es 0 pas Hn)).
      * exact (http_stream_c08_gen DRaw es lim pas 1 _ (le_n 1) Hn (raw_contract es 0 pas Hn)).
      * exact (http_stream_c08_gen DJsonl es lim pas 1 _ (le_n 1) Hn (jsonl_contract es 0 pas Hn)).
      * exact (http_stream_c08_gen DJsonArr es lim pas 0 _ (le_S 0 0 (le_n 0)) Hn (jsonarr_contract es 0 pas Hn)).
  - apply (c08_spec_mono _ _ _ _ 1 4); [lia|]. exact (scen_c08 es lim pas Hn).
  - apply (c08_spec_mono _ _ _ _ 3 4); [lia|]. exact (grpcjson_c08 es lim pas Hn).
  - apply (c08_spec_mono _ _ _ _ 2 4); [lia|]. exact (decode_c08 es lim pas Hn).
Qed.

(* ---------------------------------------------------------------------------------- *)
(* the three statements of C08, for every kind, limit, passes, file of n >= 1 entries *)

Definition step_const : nat := 4.


Lemma c08_count (k : pkind) es lim pas :
  es <> [] ->
  let n := length es in
  let runk := run k (cfg0 lim pas) es in
  (* with a bound: exactly min of the non-zero bounds, the cyclic prefix of that length *)
  (forall b fuel, bound lim pas n = Some b -> step_const * (b + n + 1) < fuel ->
     delivered (runk None fuel) = cyc_prefix es b /\ length (delivered (runk None fuel)) = b)
  (* never more than the bound or than what was sent before cancellation; always a cyclic prefix *)
  /\ (forall cancel fuel,
        delivered (runk cancel fuel) = cyc_prefix es (length (delivered (runk cancel fuel)))
        /\ le_opt (length (delivered (runk cancel fuel))) (bound lim pas n)
        /\ (forall j, cancel = Some j -> length (delivered (runk cancel fuel)) <= j))
  (* unbounded: every prefix of the cyclic sequence is delivered *)
  /\ (bound lim pas n = None -> forall m, exists fuel,
        m <= length (delivered (runk None fuel))
        /\ firstn m (delivered (runk None fuel)) = cyc_prefix es m).
Proof.
  intros Hn n runk. destruct (all_kinds_c08 k es lim pas Hn) as (P1 & P2 & P3 & P4).
  fold n in P1, P2, P3, P4. fold runk in P1, P2, P3, P4.
  split; [|split].
  - intros b fuel HB Hf. destruct (P2 b fuel HB Hf) as (A1 & _). split; [exact A1|].
    rewrite A1. unfold cyc_prefix. rewrite map_length, seq_length. reflexivity.
  - intros cancel fuel. destruct (P1 cancel fuel) as (A1 & A2 & A3 & _). auto.
  - intros HB m. exists (step_const * (m + n + 1) + step_const).
    destruct (P4 HB (step_const * (m + n + 1) + step_const)) as (_ & A2).
    destruct (P1 None (step_const * (m + n + 1) + step_const)) as (A1 & _).
    set (x := runk None (step_const * (m + n + 1) + step_const)) in *.
    assert (m <= length (delivered x)) as Hm by (unfold step_const in *; lia).
    split; [exact Hm|].
    rewrite A1. unfold cyc_prefix. rewrite firstn_map, firstn_seq_min.
    rewrite Nat.min_l by exact Hm. reflexivity.
Qed.

Lemma c08_clean_end (k : pkind) es lim pas b fuel :
  es <> [] -> bound lim pas (length es) = Some b -> step_const * (b + length es + 1) < fuel ->
  let r := run k (cfg0 lim pas) es None fuel in
  out r = Ok /\ closed r = true /\ acquire_after r = AcqEndOfAmmo.
Proof.
  intros Hn HB Hf r. destruct (all_kinds_c08 k es lim pas Hn) as (_ & P2 & _).
  destruct (P2 b fuel HB Hf) as (_ & A2 & A3). fold r in A2, A3.
  split; [exact A2|]. split; [exact A3|]. unfold acquire_after. rewrite A3. reflexivity.
Qed.

Lemma c08_no_spin (k : pkind) es lim pas :
  es <> [] ->
  let n := length es in
  let runk := run k (cfg0 lim pas) es in
  (* steps are linear in deliveries: no loop iteration sequence of unbounded length without a delivery *)
  (forall cancel fuel,
      steps (runk cancel fuel) <= step_const * (length (delivered (runk cancel fuel)) + n + 1)
      /\ (out (runk cancel fuel) = OutOfFuel -> steps (runk cancel fuel) = fuel))
  (* a bounded run terminates within that many steps *)
  /\ (forall b fuel, bound lim pas n = Some b -> step_const * (b + n + 1) < fuel ->
        out (runk None fuel) <> OutOfFuel)
  (* cancelled after j items: returns within the budget, sink closed (consumers see end of ammo),
     result nil or context.Canceled, and nothing more was delivered *)
  /\ (forall j fuel, step_const * (j + n + 1) < fuel ->
        let r := runk (Some j) fuel in
        out r <> OutOfFuel /\ closed r = true /\ acquire_after r = AcqEndOfAmmo
        /\ clean_or_cancelled (out r) /\ length (delivered r) <= j).
Proof.
  intros Hn n runk. destruct (all_kinds_c08 k es lim pas Hn) as (P1 & P2 & P3 & P4).
  fold n in P1, P2, P3, P4. fold runk in P1, P2, P3, P4.
  split; [|split].
  - intros cancel fuel. destruct (P1 cancel fuel) as (_ & _ & _ & A4 & A5). auto.
  - intros b fuel HB Hf. destruct (P2 b fuel HB Hf) as (_ & A2 & _). congruence.
  - intros j fuel Hf r. destruct (P3 j fuel Hf) as (A1 & A2 & A3 & _). fold r in A1, A2, A3.
    destruct (P1 (Some j) fuel) as (_ & _ & A6 & _). fold r in A6.
    split; [exact A1|]. split; [exact A2|].
    split; [unfold acquire_after; rewrite A2; reflexivity|]. split; [exact A3|].
    apply A6. reflexivity.
Qed.

Lemma bound_is_min lim pas n :
  bound 0 0 n = None
  /\ (lim <> 0 -> bound lim 0 n = Some lim)
  /\ (pas <> 0 -> bound 0 pas n = Some (pas * n))
  /\ (lim <> 0 -> pas <> 0 -> bound lim pas n = Some (Nat.min lim (pas * n))).
Proof.
  split; [reflexivity|]. split; [|split].
  - destruct lim; [congruence|reflexivity].
  - destruct pas; [congruence|reflexivity].
  - destruct lim; [congruence|]. destruct pas; [congruence|reflexivity].
Qed.
