From Coq Require Import ZArith Bool Lia.
From PV Require Import Model.AmmoConfigValue.
Local Open Scope Z_scope.

(* an accepted value is the value written, and it lies in the range of the field's type *)
Theorem cast_int_exact unsigned bits z r :
  cast_int unsigned bits z = Some r ->
  r = z /\ (if unsigned then 0 <= r < 2 ^ bits else - 2 ^ (bits - 1) <= r < 2 ^ (bits - 1)).
Proof.
  unfold cast_int, in_unsigned, in_signed. destruct unsigned.
  - destruct ((0 <=? z) && (z <? 2 ^ bits)) eqn:E; [|discriminate]. intros H. inversion H; subst r.
    apply andb_true_iff in E. destruct E as [E1 E2]. apply Z.leb_le in E1. apply Z.ltb_lt in E2. lia.
  - destruct ((- 2 ^ (bits - 1) <=? z) && (z <? 2 ^ (bits - 1))) eqn:E; [|discriminate]. intros H. inversion H; subst r.
    apply andb_true_iff in E. destruct E as [E1 E2]. apply Z.leb_le in E1. apply Z.ltb_lt in E2. lia.
Qed.

(* a negative number is never accepted for an unsigned field; every value of the type's range is *)
Theorem cast_int_unsigned_iff bits z :
  (exists r, cast_int true bits z = Some r) <-> 0 <= z < 2 ^ bits.
Proof.
  unfold cast_int, in_unsigned. split.
  - intros [r H]. destruct ((0 <=? z) && (z <? 2 ^ bits)) eqn:E; [|discriminate].
    apply andb_true_iff in E. destruct E as [E1 E2]. apply Z.leb_le in E1. apply Z.ltb_lt in E2. lia.
  - intros [H1 H2]. exists z.
    assert (E : (0 <=? z) && (z <? 2 ^ bits) = true).
    { apply andb_true_iff. split; [apply Z.leb_le|apply Z.ltb_lt]; lia. }
    rewrite E. reflexivity.
Qed.
