(* C13: an http/json file with an entity that is not an entry is rejected — in the line form after
   the entries in front of it, in the array form and with preload as a whole — and the provider model
   never panics or runs out of fuel. *)
From Coq Require Import List NArith ZArith Bool Lia.
From PV Require Import Lib.AmmoBytes Lib.AmmoLines Model.AmmoCommon Model.AmmoJson Model.AmmoJsonReject
  Proofs.AmmoSafetyProofs.
Import ListNotations.
Local Open Scope N_scope.

Lemma passes_hit_0 c : passes_hit c 0 = false.
Proof.
  unfold passes_hit. destruct (N.eqb_spec (c_passes c) 0) as [E|E]; [reflexivity|].
  cbn [negb andb]. apply N.leb_gt. lia.
Qed.

Section JsonRejectProofs.
  Variable url_parse : bytes -> option (bytes * bytes).
  Notation entity_okb := (entity_okb url_parse).
  Notation entities_okb := (entities_okb url_parse).
  Notation good_prefix := (good_prefix url_parse).
  Notation entity_entry := (entity_entry url_parse).
  Notation read_array := (read_array url_parse).

  (* ---------- the specification of an entity is what Setup accepts ---------- *)
  Lemma entity_okb_true d : entity_okb d = true -> exists e, entity_entry d = inl e.
  Proof.
    unfold AmmoJsonReject.entity_okb, AmmoJson.entity_entry, setup. intros H.
    apply andb_true_iff in H. destruct H as [Hm Hu]. rewrite Hm, Hu. cbn [negb]. eauto.
  Qed.

  Lemma entity_okb_false d : entity_okb d = false -> exists er, entity_entry d = inr er.
  Proof.
    unfold AmmoJsonReject.entity_okb, AmmoJson.entity_entry, setup. intros H.
    destruct (valid_method (j_method d)); cbn [negb]; [|eauto].
    cbn [andb] in H. rewrite H. cbn [negb]. eauto.
  Qed.

  Theorem entity_spec d : entity_okb d = true <-> exists e, entity_entry d = inl e.
  Proof.
    split; [apply entity_okb_true|]. intros [e He].
    destruct (entity_okb d) eqn:E; [reflexivity|].
    destruct (entity_okb_false d E) as [er Her]. rewrite Her in He. discriminate.
  Qed.

  Lemma read_array_ok ds : entities_okb ds = true -> exists es, read_array ds = Some es /\ length es = length ds.
  Proof.
    induction ds as [|d r IH]; intros H; [exists []; split; reflexivity|].
    cbn [AmmoJsonReject.entities_okb forallb] in H. apply andb_true_iff in H. destruct H as [Hd Hr].
    destruct (entity_okb_true d Hd) as [e He]. destruct (IH Hr) as [es [Hes Hl]].
    exists (e :: es). cbn [AmmoJson.read_array]. rewrite He, Hes. split; [reflexivity|cbn; lia].
  Qed.

  Lemma read_array_bad ds : entities_okb ds = false -> read_array ds = None.
  Proof.
    induction ds as [|d r IH]; intros H; [discriminate|].
    cbn [AmmoJsonReject.entities_okb forallb] in H. cbn [AmmoJson.read_array].
    destruct (entity_okb d) eqn:Ed.
    - cbn [andb] in H. rewrite (IH H). destruct (entity_entry d); reflexivity.
    - destruct (entity_okb_false d Ed) as [er Her]. rewrite Her. reflexivity.
  Qed.

  Theorem array_accepted_iff ds : (exists es, read_array ds = Some es) <-> entities_okb ds = true.
  Proof.
    split.
    - intros [es H]. destruct (entities_okb ds) eqn:E; [reflexivity|]. rewrite (read_array_bad ds E) in H. discriminate.
    - intros H. destruct (read_array_ok ds H) as [es [Hes _]]. eauto.
  Qed.

  (* the list splits at its first malformed entity *)
  Lemma split_first_bad ds : entities_okb ds = false ->
    exists bad b, ds = good_prefix ds ++ bad :: b /\ entities_okb (good_prefix ds) = true /\ entity_okb bad = false.
  Proof.
    induction ds as [|d r IH]; intros H; [discriminate|].
    cbn [AmmoJsonReject.entities_okb forallb] in H. cbn [AmmoJsonReject.good_prefix].
    destruct (entity_okb d) eqn:Ed.
    - cbn [andb] in H. destruct (IH H) as [bad [b [E1 [E2 E3]]]].
      exists bad, b. split; [cbn [app]; f_equal; exact E1|]. split; [|exact E3].
      cbn [AmmoJsonReject.entities_okb forallb]. rewrite Ed. exact E2.
    - exists d, r. split; [reflexivity|]. split; [reflexivity|exact Ed].
  Qed.

  Lemma good_prefix_app a bad b :
    entities_okb a = true -> entity_okb bad = false -> good_prefix (a ++ bad :: b) = a.
  Proof.
    induction a as [|d r IH]; intros Ha Hb.
    - cbn [app AmmoJsonReject.good_prefix]. rewrite Hb. reflexivity.
    - cbn [AmmoJsonReject.entities_okb forallb] in Ha. apply andb_true_iff in Ha. destruct Ha as [Hd Hr].
      cbn [app AmmoJsonReject.good_prefix]. rewrite Hd. f_equal. apply IH; assumption.
  Qed.

  (* ---------- line form, streaming ---------- *)
  Definition st0 (all : list entity) (e : jend) (left : list entity) (a : N) : jstate :=
    {| js_all := all; js_end := e; js_left := left; js_ammo := a; js_pass := 0 |}.

  Lemma stream_reject c e bad b er : c_limit c = 0 -> entity_entry bad = inr er ->
    forall a es k all ammo, read_array a = Some es -> (length a < k)%nat ->
    json_run url_parse k c (st0 all e (a ++ bad :: b) ammo) = map SDeliver es ++ [SErr er].
  Proof.
    intros Hl Hbad. induction a as [|d r IH]; intros es k all ammo Ha Hk.
    - cbn [AmmoJson.read_array] in Ha. inversion Ha; subst es.
      destruct k as [|k]; [cbn in Hk; lia|].
      cbn [json_run app map]. unfold json_scan, limit_hit. rewrite Hl. cbn [N.eqb negb andb].
      cbn [json_loop st0 js_pass js_left]. rewrite passes_hit_0. rewrite Hbad. reflexivity.
    - destruct k as [|k]; [cbn in Hk; lia|].
      cbn [AmmoJson.read_array] in Ha.
      destruct (entity_entry d) as [en|] eqn:Ed; [|discriminate].
      destruct (read_array r) as [es'|] eqn:Er; [|discriminate]. inversion Ha; subst es.
      cbn [json_run app map]. unfold json_scan, limit_hit. rewrite Hl. cbn [N.eqb negb andb].
      cbn [json_loop st0 js_pass js_left app js_all js_end js_ammo]. rewrite passes_hit_0. rewrite Ed.
      f_equal. apply (IH es' k all (N.succ ammo)); [reflexivity|cbn in Hk; lia].
  Qed.

  Lemma fullscan_limit_keeps n : forall (es : list entry) r,
    (length es < n)%nat -> is_deliver r = false ->
    fullscan_limit n (map SDeliver es ++ [r]) = map SDeliver es ++ [r].
  Proof.
    induction n as [|n IH]; intros es r Hn Hr; [lia|].
    destruct es as [|e es]; cbn [map app fullscan_limit].
    - destruct r; try reflexivity. discriminate.
    - f_equal. apply IH; [cbn in Hn; lia|exact Hr].
  Qed.

  Theorem stream_malformed_rejected ents e limit passes k :
    entities_okb ents = false ->
    (length (good_prefix ents) < k)%nat ->
    (limit = 0 \/ (length (good_prefix ents) < N.to_nat limit)%nat) ->
    exists es er, read_array (good_prefix ents) = Some es /\ length es = length (good_prefix ents) /\
      json_provider url_parse false limit passes k (JFStream e) ents = Some (map SDeliver es ++ [SErr er]).
  Proof.
    intros Hbad Hk Hlim.
    destruct (split_first_bad ents Hbad) as [bad [b [E1 [E2 E3]]]].
    destruct (read_array_ok _ E2) as [es [Hes Hlen]].
    destruct (entity_okb_false bad E3) as [er Her].
    exists es, er. split; [exact Hes|]. split; [exact Hlen|].
    unfold json_provider. f_equal. unfold json_stream_decode, json_init.
    set (cd := {| c_limit := 0; c_passes := passes |}).
    assert (Hrun : json_run url_parse k cd (st0 ents e ents 0) = map SDeliver es ++ [SErr er]).
    { rewrite E1 at 2. apply (stream_reject cd e bad b er); auto. }
    unfold st0 in Hrun. rewrite Hrun. unfold fullscan.
    destruct Hlim as [Hz|Hn].
    - subst limit. reflexivity.
    - destruct (N.eqb limit 0); [reflexivity|].
      apply fullscan_limit_keeps; [lia|reflexivity].
  Qed.

  (* ---------- preload ---------- *)
  Lemma load_reject e bad b er : entity_entry bad = inr er ->
    forall a es fuel all ammo acc, read_array a = Some es -> (length a < fuel)%nat ->
    json_load url_parse fuel (st0 all e (a ++ bad :: b) ammo) acc = inl (SErr er).
  Proof.
    intros Hbad. induction a as [|d r IH]; intros es fuel all ammo acc Ha Hf.
    - destruct fuel as [|f]; [cbn in Hf; lia|].
      cbn [json_load]. unfold json_scan, limit_hit, load_cfg. cbn [c_limit N.eqb negb andb].
      cbn [json_loop st0 js_pass js_left app]. rewrite passes_hit_0. rewrite Hbad. reflexivity.
    - destruct fuel as [|f]; [cbn in Hf; lia|].
      cbn [AmmoJson.read_array] in Ha.
      destruct (entity_entry d) as [en|] eqn:Ed; [|discriminate].
      destruct (read_array r) as [es'|] eqn:Er; [|discriminate].
      cbn [json_load]. unfold json_scan, limit_hit, load_cfg. cbn [c_limit N.eqb negb andb].
      cbn [json_loop st0 js_pass js_left app js_all js_end js_ammo]. rewrite passes_hit_0. rewrite Ed.
      apply (IH es' f all (N.succ ammo) (en :: acc)); [reflexivity|cbn in Hf; lia].
  Qed.

  Theorem preload_malformed_rejected ents e limit passes k :
    entities_okb ents = false ->
    exists er, json_provider url_parse true limit passes k (JFStream e) ents = Some [SErr er].
  Proof.
    intros Hbad.
    destruct (split_first_bad ents Hbad) as [bad [b [E1 [E2 E3]]]].
    destruct (read_array_ok _ E2) as [es [Hes Hlen]].
    destruct (entity_okb_false bad E3) as [er Her].
    exists er. unfold json_provider. f_equal. unfold json_init.
    assert (Hl : json_load url_parse (S (S (length ents))) (st0 ents e ents 0) [] = inl (SErr er)).
    { rewrite E1 at 3. apply (load_reject e bad b er Her (good_prefix ents) es); [exact Hes|].
      rewrite E1 at 2. rewrite app_length. cbn [length]. lia. }
    unfold st0 in Hl. rewrite Hl. reflexivity.
  Qed.

  (* ---------- array form ---------- *)
  Theorem array_malformed_rejected ents pre limit passes k :
    entities_okb ents = false -> json_provider url_parse pre limit passes k JFArray ents = None.
  Proof. intros H. unfold json_provider. rewrite (read_array_bad ents H). reflexivity. Qed.

  Theorem array_wellformed_accepted ents pre limit passes k :
    entities_okb ents = true -> json_provider url_parse pre limit passes k JFArray ents <> None.
  Proof.
    intros H. unfold json_provider. destruct (read_array_ok ents H) as [es [Hes _]]. rewrite Hes.
    destruct pre; discriminate.
  Qed.

  (* ---------- no panic, no fuel exhaustion, for every file ---------- *)
  Lemma fullscan_limit_safe n : forall rs,
    Forall (fun r : sres entry => bad r = false) rs -> Forall (fun r : sres entry => bad r = false) (fullscan_limit n rs).
  Proof.
    induction n as [|n IH]; intros rs H; [repeat constructor|].
    destruct rs as [|r rs]; [exact H|]. cbn [fullscan_limit].
    destruct r; try exact H. inversion H; subst. constructor; [reflexivity|apply IH; assumption].
  Qed.

  Lemma fullscan_safe limit rs :
    Forall (fun r : sres entry => bad r = false) rs -> Forall (fun r : sres entry => bad r = false) (fullscan limit rs).
  Proof. intros H. unfold fullscan. destruct (N.eqb limit 0); [exact H|apply fullscan_limit_safe; exact H]. Qed.

  Lemma preloaded_run_safe k : forall c es n,
    Forall (fun r : sres entry => bad r = false) (preloaded_run k c es n).
  Proof.
    induction k as [|k IH]; intros c es n; [constructor|].
    cbn [preloaded_run]. destruct es as [|e0 es']; [repeat constructor|].
    destruct (passes_hit c _); [repeat constructor|].
    destruct (limit_hit c n); [repeat constructor|].
    constructor; [reflexivity|apply IH].
  Qed.

  Lemma json_load_safe e : forall left fuel all ammo acc, (length left < fuel)%nat ->
    match json_load url_parse fuel (st0 all e left ammo) acc with
    | inl r => bad r = false
    | inr _ => True
    end.
  Proof.
    induction left as [|d r IH]; intros fuel all ammo acc Hf; (destruct fuel as [|f]; [cbn in Hf; lia|]).
    - cbn [json_load]. unfold json_scan, limit_hit, load_cfg. cbn [c_limit N.eqb negb andb].
      cbn [json_loop st0 js_pass js_left js_end js_ammo js_all]. rewrite passes_hit_0.
      destruct e; [|reflexivity].
      destruct (N.eqb ammo 0); [reflexivity|].
      change (passes_hit {| c_limit := 0; c_passes := 1 |} (N.succ 0)) with true. cbv iota. exact I.
    - cbn [json_load]. unfold json_scan, limit_hit, load_cfg. cbn [c_limit N.eqb negb andb].
      cbn [json_loop st0 js_pass js_left js_end js_ammo js_all]. rewrite passes_hit_0.
      destruct (entity_entry d) as [en|er]; [|reflexivity].
      apply (IH f all (N.succ ammo) (en :: acc)). cbn in Hf. lia.
  Qed.

  Theorem json_provider_safe pre limit passes k form ents rs :
    json_provider url_parse pre limit passes k form ents = Some rs ->
    Forall (fun r : sres entry => bad r = false) rs.
  Proof.
    unfold json_provider. destruct form as [e|].
    - destruct pre.
      + pose proof (json_load_safe e ents (S (S (length ents))) ents 0 [] ltac:(lia)) as Hs.
        unfold st0 in Hs.
        remember (json_load url_parse (S (S (length ents))) (json_init ents e) []) as L eqn:EL.
        unfold json_init in EL. rewrite <- EL in Hs. clear EL.
        intros H. injection H as <-.
        destruct L as [r|es]; [repeat constructor; exact Hs|apply preloaded_run_safe].
      + intros H. injection H as <-. apply fullscan_safe. apply json_stream_safe.
    - destruct (read_array ents) as [es|]; [|discriminate].
      destruct pre; intros H; injection H as <-.
      + apply preloaded_run_safe.
      + apply fullscan_safe. apply array_run_safe.
  Qed.
End JsonRejectProofs.
