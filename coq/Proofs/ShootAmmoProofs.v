(* Proofs about shooting the ammo a provider delivers (Model/ShootAmmo.v, property C10). *)
From Coq Require Import List NArith ZArith Bool Lia Permutation.
From PV Require Import Lib.Table Lib.AmmoBytes Lib.AmmoLines Model.Sample Model.Shoot Model.AmmoCommon Model.AmmoUri Model.AmmoUripost
  Model.AmmoRaw Model.AmmoJson Model.ShootAmmo Proofs.SampleProofs Proofs.ShootProofs
  Proofs.AmmoUriProofs Proofs.AmmoUripostProofs Proofs.AmmoRawProofs Proofs.AmmoJsonProofs.
Import ListNotations.
Local Open Scope N_scope.

Section Generic.
  Context {E : Type}.
  Variable cfg : autotag_cfg.
  Variable tag_of path_of : E -> bytes.
  Variable xof : nat -> E -> exchange.

  Lemma shoot_deliveries_spec es : forall i id,
    shoot_deliveries cfg tag_of path_of xof i id (map SDeliver es) = ammo_spec cfg tag_of path_of xof i id es.
  Proof.
    induction es as [|e r IH]; intros i id; cbn [map shoot_deliveries ammo_spec]; [reflexivity|].
    rewrite base_shoot_spec by discriminate. rewrite IH. reflexivity.
  Qed.

  Lemma ammo_spec_length es : forall i id, length (ammo_spec cfg tag_of path_of xof i id es) = length es.
  Proof. induction es as [|e r IH]; intros i id; cbn [ammo_spec length]; [reflexivity|]. rewrite IH. reflexivity. Qed.

  (* every sample carries the tag chosen from the tag of ITS ammo (C10_tag_choice) *)
  Lemma ammo_spec_tags es : forall i id,
    map sm_tags (ammo_spec cfg tag_of path_of xof i id es) = map (fun e => shoot_tags cfg (tag_of e) (path_of e)) es.
  Proof. induction es as [|e r IH]; intros i id; cbn [ammo_spec map]; [reflexivity|]. rewrite IH. reflexivity. Qed.

  (* the ids are the consecutive values of the counter: pairwise distinct *)
  Lemma ammo_spec_ids es : forall i id,
    map sm_id (ammo_spec cfg tag_of path_of xof i id es) = ids_from id (length es).
  Proof. induction es as [|e r IH]; intros i id; cbn [ammo_spec map length ids_from]; [reflexivity|]. rewrite IH. reflexivity. Qed.

  Lemma ammo_spec_ids_nodup es i id : NoDup (map sm_id (ammo_spec cfg tag_of path_of xof i id es)).
  Proof. rewrite ammo_spec_ids. apply ids_from_nodup. Qed.
End Generic.

(* Concurrently shooting instances: which instance acquires which ammo, and in which order the
   samples reach the aggregator, is up to the scheduler - but the tag and the codes of a sample
   depend on ITS ammo only (not on the position, not on the id), so the reported samples are,
   up to order and ids, those of the sequential run. *)
Definition sm_fields (s : sample) : bytes * N * N := (sm_tags s, sm_proto s, sm_net s).

Section Concurrent.
  Context {E : Type}.
  Variable cfg : autotag_cfg.
  Variable tag_of path_of : E -> bytes.
  Variable x : E -> exchange.

  Lemma ammo_spec_fields_local es : forall i id,
    map sm_fields (ammo_spec cfg tag_of path_of (fun _ => x) i id es) =
    map (fun e => sm_fields (base_spec cfg false 0 (tag_of e) (path_of e) (x e))) es.
  Proof.
    induction es as [|e r IH]; intros i id; cbn [ammo_spec map]; [reflexivity|].
    rewrite IH. f_equal.
  Qed.

  Lemma ammo_spec_any_order es es' i id i' id' :
    Permutation es es' ->
    Permutation (map sm_fields (ammo_spec cfg tag_of path_of (fun _ => x) i id es))
                (map sm_fields (ammo_spec cfg tag_of path_of (fun _ => x) i' id' es')).
  Proof. intros H. rewrite !ammo_spec_fields_local. apply Permutation_map. exact H. Qed.
End Concurrent.

(* the tags of the entries a file means are the tags written on its request lines, in order *)
Definition uitem_tags (items : list uitem) : list bytes :=
  flat_map (fun i => match i with UReq _ t => [t] | _ => [] end) items.
Definition pitem_tags (items : list pitem) : list bytes :=
  flat_map (fun i => match i with PReq _ t _ => [t] | _ => [] end) items.
Definition ritem_tags (items : list ritem) : list bytes :=
  flat_map (fun i => match i with RReq t _ => [t] | _ => [] end) items.

Lemma uri_entries_tags items : forall h, map e_tag (uri_entries items h) = uitem_tags items.
Proof.
  induction items as [|[kl k kt vl v vt|u t|] r IH]; intros h; cbn [uri_entries uitem_tags flat_map map app]; [reflexivity| | |].
  - apply IH.
  - f_equal. apply IH.
  - apply IH.
Qed.

Lemma uripost_entries_tags items : forall h, map e_tag (uripost_entries items h) = pitem_tags items.
Proof.
  induction items as [|[kl k kt vl v vt|u t b|] r IH]; intros h; cbn [uripost_entries pitem_tags flat_map map app]; [reflexivity| | |].
  - apply IH.
  - f_equal. apply IH.
  - apply IH.
Qed.

Lemma raw_entries_tags items : map rb_tag (raw_entries items) = ritem_tags items.
Proof.
  induction items as [|[t b|] r IH]; cbn [raw_entries ritem_tags flat_map map app]; [reflexivity| |].
  - f_equal. apply IH.
  - apply IH.
Qed.

Section Files.
  Variable cfg : autotag_cfg.
  Variable url_parse : bytes -> option (bytes * bytes).

  Lemma uri_file_samples path_of xof maxtok items fin k :
    forallb (wf_uitem url_parse maxtok) items = true ->
    uri_entries (map fst items) [] <> [] ->
    shoot_deliveries cfg e_tag path_of xof 0 1 (uri_decode url_parse maxtok cfg0 k (render_uri items fin)) =
    ammo_spec cfg e_tag path_of xof 0 1
      (cycle_take k (uri_entries (map fst items) []) (uri_entries (map fst items) [])).
  Proof. intros Hwf Hne. rewrite uri_roundtrip by assumption. apply shoot_deliveries_spec. Qed.

  Lemma uripost_file_samples path_of xof items fin k :
    forallb (wf_pitem url_parse) items = true ->
    uripost_entries (map fst items) [] <> [] ->
    shoot_deliveries cfg e_tag path_of xof 0 1 (uripost_decode url_parse cfg0 k (render_uripost items fin)) =
    ammo_spec cfg e_tag path_of xof 0 1
      (cycle_take k (uripost_entries (map fst items) []) (uripost_entries (map fst items) [])).
  Proof. intros Hwf Hne. rewrite uripost_roundtrip by assumption. apply shoot_deliveries_spec. Qed.

  Lemma raw_file_samples path_of xof items fin k :
    forallb wf_ritem items = true ->
    raw_entries (map fst items) <> [] ->
    shoot_deliveries cfg rb_tag path_of xof 0 1 (raw_decode cfg0 k (render_raw items fin)) =
    ammo_spec cfg rb_tag path_of xof 0 1
      (cycle_take k (raw_entries (map fst items)) (raw_entries (map fst items))).
  Proof. intros Hwf Hne. rewrite raw_roundtrip by assumption. apply shoot_deliveries_spec. Qed.

  Lemma json_file_samples path_of xof ents es k :
    read_array url_parse ents = Some es -> es <> [] ->
    shoot_deliveries cfg e_tag path_of xof 0 1 (json_stream_decode url_parse cfg0 k ents JEof) =
    ammo_spec cfg e_tag path_of xof 0 1 (cycle_take k es es).
  Proof. intros H Hne. rewrite (json_stream_cyclic url_parse ents es k H Hne). apply shoot_deliveries_spec. Qed.

  (* the entries of an http/json file carry the tags of its entities *)
  Lemma read_array_tags ents : forall es,
    read_array url_parse ents = Some es -> map e_tag es = map j_tag ents.
  Proof.
    induction ents as [|d r IH]; intros es; cbn [read_array]; [intros H; inversion H; reflexivity|].
    destruct (entity_entry url_parse d) as [e|] eqn:Ee; [|discriminate].
    destruct (read_array url_parse r) as [es'|]; [|discriminate]. intros H; inversion H; subst.
    cbn [map]. f_equal; [|apply IH; reflexivity].
    unfold entity_entry, setup in Ee.
    destruct (negb (valid_method (j_method d))); [discriminate|].
    destruct (negb (url_ok url_parse _)); [discriminate|]. inversion Ee. reflexivity.
  Qed.
End Files.
