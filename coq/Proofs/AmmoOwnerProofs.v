From Coq Require Import List Bool Arith Lia.
From PV Require Import Model.AmmoOwner.
Import ListNotations.

Lemma holder_drop a a' st :
  holder a' (drop_obj a st) = if Nat.eqb a' a then None else holder a' st.
Proof.
  induction st as [|[x r] t IH]; cbn [drop_obj filter holder fst]; [destruct (Nat.eqb a' a); reflexivity|].
  destruct (Nat.eqb_spec x a) as [->|Hne]; cbn [negb].
  - fold (drop_obj a t). rewrite IH. destruct (Nat.eqb_spec a' a) as [->|N]; [reflexivity|].
    destruct (Nat.eqb_spec a a'); [congruence|reflexivity].
  - cbn [holder]. fold (drop_obj a t). rewrite IH.
    destruct (Nat.eqb_spec x a') as [->|N]; [destruct (Nat.eqb_spec a' a); [congruence|reflexivity]|reflexivity].
Qed.

Lemma obj_run_app a tr1 : forall h tr2,
  obj_run a h (tr1 ++ tr2) = match obj_run a h tr1 with Some h' => obj_run a h' tr2 | None => None end.
Proof.
  induction tr1 as [|e t IH]; intros h tr2; cbn [app obj_run]; [reflexivity|].
  destruct e as [r a'|r a']; destruct (Nat.eqb a' a); try apply IH.
  - destruct h; [reflexivity|apply IH].
  - destruct h as [r'|]; [destruct (Nat.eqb r' r); [apply IH|reflexivity]|reflexivity].
Qed.

(* one step of the model keeps "the per-object run of the trace so far ends in the model's holder" *)
Lemma astep_inv tr st e st' :
  (forall a, obj_run a None tr = Some (holder a st)) -> astep st e = Some st' ->
  forall a, obj_run a None (tr ++ [e]) = Some (holder a st').
Proof.
  intros I H a. rewrite obj_run_app, (I a). destruct e as [r x|r x]; cbn [astep] in H; cbn [obj_run].
  - destruct (holder x st) eqn:Hx; [discriminate|]. destruct (holds_any r st); [discriminate|]. injection H as <-.
    cbn [holder]. destruct (Nat.eqb_spec x a) as [->|]; [rewrite Hx; reflexivity|reflexivity].
  - destruct (holder x st) as [r'|] eqn:Hx; [|discriminate].
    destruct (Nat.eqb_spec r' r) as [->|]; [|discriminate]. injection H as <-.
    rewrite holder_drop. rewrite (Nat.eqb_sym a x).
    destruct (Nat.eqb_spec x a) as [->|]; [rewrite Hx, Nat.eqb_refl; reflexivity|reflexivity].
Qed.

Lemma arun_inv tr2 : forall tr1 st st',
  (forall a, obj_run a None tr1 = Some (holder a st)) -> arun st tr2 = Some st' ->
  forall a, obj_run a None (tr1 ++ tr2) = Some (holder a st').
Proof.
  induction tr2 as [|e t IH]; intros tr1 st st' I H; cbn [arun] in H.
  - injection H as <-. rewrite app_nil_r. exact I.
  - destruct (astep st e) as [st1|] eqn:E; [|discriminate].
    replace (tr1 ++ e :: t) with ((tr1 ++ [e]) ++ t) by (rewrite <- app_assoc; reflexivity).
    eapply IH; [eapply astep_inv; eauto|exact H].
Qed.

(* every trace of the model: for every ammo object, Acquire/Release alternate and each Release is by
   the holder — an object is held by at most one instance and is handed back exactly once *)
Lemma ammo_exclusive tr st : arun [] tr = Some st -> forall a, obj_run a None tr <> None.
Proof.
  intros H a. pose proof (arun_inv tr [] [] st (fun _ => eq_refl) H a) as E. cbn [app] in E. rewrite E. discriminate.
Qed.

Lemma obj_run_absent a tr h : ~ In a (objs_of tr) -> obj_run a h tr = Some h.
Proof.
  induction tr as [|e t IH]; cbn [obj_run objs_of map In]; intros H; [reflexivity|].
  destruct e as [r x|r x]; destruct (Nat.eqb_spec x a) as [->|]; try (exfalso; apply H; left; reflexivity);
    apply IH; intros X; apply H; right; exact X.
Qed.

Lemma ammo_exclusive_b_sound tr : ammo_exclusive_b tr = true -> forall a, obj_run a None tr <> None.
Proof.
  unfold ammo_exclusive_b. intros H a. destruct (in_dec Nat.eq_dec a (objs_of tr)) as [Hin|Hn].
  - rewrite forallb_forall in H. specialize (H a Hin). destruct (obj_run a None tr); [discriminate|discriminate].
  - rewrite (obj_run_absent a tr None Hn). discriminate.
Qed.
