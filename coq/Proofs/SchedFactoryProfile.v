(* Property C01, the profile as a user gets it: products of the pool's rps schedule FACTORY.

   With `rps-per-instance: true` the engine calls the factory decoded from the `rps` section once per
   instance.  Property C02's factory model (Model/SchedFactory.v: every factory call runs the constructors
   again; K products, operations of one caller interleaved in any order) and its independence theorem
   (Proofs/SchedFactoryProofs.v factory_independent) are imported, not copied.  Here the configuration is
   the composite of the leaves of a C01 profile (Model/Sched.v leaves / Model/SchedList.v list_leaves, each
   leaf read as a doAtSchedule exactly as in Proofs/SchedShare.v), and the conclusion is C01's: EVERY
   product that is started at an instant s and then drained answers the operations of the configured
   profile started at s - part after part, each exactly once - and then (s + total duration, false) for
   ever, whatever is done with its siblings in between. *)
From Coq Require Import List ZArith QArith Bool Arith Lia.
From PV Require Import Model.SchedTree Model.SchedConc Model.SchedFactory
  Proofs.SchedTreeProofs Proofs.SchedTreeSeq Proofs.SchedTreeRun Proofs.SchedTreeSpec
  Proofs.SchedConcSections Proofs.SchedConcProofs Proofs.SchedConcCor Proofs.SchedFactoryProofs.
From PV Require Import Model.Sched Model.SchedList Proofs.SchedProofs Proofs.SchedStep Proofs.SchedList Proofs.SchedShare.
Import ListNotations.
Local Open Scope Z_scope.

(* the configuration whose constructors make the leaves of a profile *)
Definition cfg_of_leaf (l : leaf) : cfg := CDoAt (Z.to_nat (l_n l)) (l_dur l) (at_nat l).
Definition cfg_of_leaves (ls : list leaf) : cfg := CComp (map cfg_of_leaf ls).

Lemma flat_map_cfg_leaves ls : flat_map flatten_cfg (map cfg_of_leaf ls) = map doat_of ls.
Proof. induction ls as [|x xs IH]; [reflexivity|]. cbn [map flat_map]. rewrite IH. reflexivity. Qed.

Lemma flatten_cfg_leaves ls : ls <> [] -> flatten_cfg (cfg_of_leaves ls) = map doat_of ls.
Proof.
  intros H. destruct ls as [|l r]; [congruence|].
  rewrite <- flat_map_cfg_leaves. reflexivity.
Qed.

Lemma size_cfg_leaves ls : size_cfg (cfg_of_leaves ls) = S (length ls).
Proof.
  unfold cfg_of_leaves.
  change (S (fold_right (fun x a => (size_cfg x + a)%nat) 0%nat (map cfg_of_leaf ls)) = S (length ls)).
  f_equal. induction ls as [|x xs IH]; [reflexivity|]. cbn [map fold_right length]. rewrite IH. reflexivity.
Qed.

(* draining the abstract stream of a started profile without windows: its tokens, then the finish for ever *)
Lemma abs_drain fl fin : forall ts cs e, length cs = (length ts + e)%nat ->
  run_abs {| a_started := true; a_items := map IT ts; a_fin := fin; a_flat := fl |} (map (fun c => (c, ONext)) cs)
  = map (fun t => RNext t true) ts ++ repeat (RNext fin false) e.
Proof.
  induction ts as [|t r IH]; intros cs e L.
  - cbn [length Nat.add] in L. subst e. cbn [map app]. induction cs as [|c cs IHc]; [reflexivity|].
    simpl. f_equal. exact IHc.
  - destruct cs as [|c cs]; [discriminate|]. cbn [length Nat.add] in L. injection L as L.
    simpl. f_equal. apply IH. exact L.
Qed.

(* what is done with ONE product: started at s (clock c0), then asked for Next at the clocks cs *)
Definition drain_ops (c0 : Z) (s : Z) (cs : list Z) : list (Z * op) :=
  (c0, OStart s) :: map (fun c => (c, ONext)) cs.

Theorem factory_products_realise ls fuel now0 k :
  ls <> [] -> Forall defined ls -> (S (length ls) <= fuel)%nat ->
  exists ss, SchedFactory.sys_init fuel now0 (cfg_of_leaves ls) k = Ok ss /\ length ss = k /\
    forall lo ops, clock_ok lo (map snd ops) ->
    forall j s c0 cs, (j < k)%nat ->
      SchedFactory.proj_ops j ops = drain_ops c0 s cs ->
      exists ts, comp_tokens ls s = map Some ts /\
        forall e, length cs = (length ts + e)%nat ->
          SchedFactory.proj_obs j (SchedFactory.sys_run fuel ss ops) =
          RStart :: map (fun t => RNext t true) ts ++ repeat (RNext (comp_finish ls s) false) e.
Proof.
  intros Hne Hd Hf.
  destruct (factory_independent (cfg_of_leaves ls) fuel now0 k) as (ss & Ei & Lk & Hrun).
  { rewrite size_cfg_leaves. exact Hf. }
  exists ss. split; [exact Ei|]. split; [exact Lk|].
  intros lo ops Hc j s c0 cs Hj Hp.
  destruct (items_of_leaves ls Hd s) as (ts & Tk & It).
  exists ts. split; [exact Tk|]. intros e Le.
  rewrite (Hrun lo ops Hc j Hj), Hp, (flatten_cfg_leaves ls Hne).
  unfold drain_ops. cbn [run_abs a_init a_started]. unfold a_start. cbn [a_flat a_init]. rewrite It.
  f_equal. apply abs_drain. exact Le.
Qed.

(* the `rps` section in its list form (a single profile p is the list [p]: Proofs/SchedList.v list_single) *)
Theorem factory_list_products ps ls fuel now0 k :
  Forall valid ps -> list_leaves ps = Some ls -> ls <> [] -> (S (length ls) <= fuel)%nat ->
  exists ss, SchedFactory.sys_init fuel now0 (cfg_of_leaves ls) k = Ok ss /\ length ss = k /\
    forall lo ops, clock_ok lo (map snd ops) ->
    forall j s c0 cs, (j < k)%nat ->
      SchedFactory.proj_ops j ops = drain_ops c0 s cs ->
      exists ts, list_tokens ps s = map Some ts /\
        forall e, length cs = (length ts + e)%nat ->
          SchedFactory.proj_obs j (SchedFactory.sys_run fuel ss ops) =
          RStart :: map (fun t => RNext t true) ts ++ repeat (RNext (s + list_spec_finish ps) false) e.
Proof.
  intros Hv El Hne Hf.
  destruct (list_drain_spec ps Hv) as (ls' & E' & T & F & _). rewrite El in E'. inversion E'; subst ls'.
  destruct (factory_products_realise ls fuel now0 k Hne (list_leaves_defined ps ls Hv El) Hf) as (ss & Ei & Lk & H).
  exists ss. split; [exact Ei|]. split; [exact Lk|].
  intros lo ops Hc j s c0 cs Hj Hp.
  destruct (H lo ops Hc j s c0 cs Hj Hp) as (ts & Tk & Hr).
  exists ts. rewrite <- T, <- F. split; [exact Tk|exact Hr].
Qed.

(* non-vacuity: `rps: [{once 2}, {const 2 rps 1 s}]`, rps-per-instance, two products drained alternately,
   product 1 started 100 ns after product 0: both get the whole profile, relative to their own start *)
Definition fp_ps : list profile := [POnce 2; PConst (2 # 1) 1000000000].
Definition fp_ops : list (nat * (Z * op)) :=
  map (fun p => (Z.to_nat (fst p), (200, snd p)))
    [(0, OStart 0); (1, OStart 100); (0, ONext); (1, ONext); (0, ONext); (1, ONext); (0, ONext); (1, ONext);
     (0, ONext); (1, ONext); (0, ONext); (1, ONext); (1, ONext)].

Lemma factory_profile_example :
  Forall valid fp_ps /\ clock_ok 0 (map snd fp_ops) /\
  match list_leaves fp_ps with
  | Some ls =>
      ls <> [] /\ length ls = 2%nat /\
      SchedFactory.proj_ops 1 fp_ops = drain_ops 200 100 [200; 200; 200; 200; 200; 200] /\
      match SchedFactory.sys_init 3 0 (cfg_of_leaves ls) 2 with
      | Ok ss => SchedFactory.proj_obs 0 (SchedFactory.sys_run 3 ss fp_ops) =
                   [RStart; RNext 0 true; RNext 0 true; RNext 0 true; RNext 500000000 true; RNext 1000000000 false] /\
                 SchedFactory.proj_obs 1 (SchedFactory.sys_run 3 ss fp_ops) =
                   [RStart; RNext 100 true; RNext 100 true; RNext 100 true; RNext 500000100 true;
                    RNext 1000000100 false; RNext 1000000100 false]
      | _ => False
      end
  | None => False
  end.
Proof.
  split; [repeat constructor; easy|]. split; [vm_compute; repeat split; discriminate|].
  vm_compute. repeat split; try reflexivity. discriminate.
Qed.
