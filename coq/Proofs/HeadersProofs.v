(* Lemmas about Model/Headers.v (property C09). *)
From Coq Require Import List NArith Bool Lia.
From PV Require Import Model.Headers.
Import ListNotations.
Local Open Scope N_scope.

(* ---------- canon_mime ---------- *)
Lemma lower_to_upper : forall c, is_lower c = true -> is_upper (c - 32) = true.
Proof.
  unfold is_lower, is_upper. intros c H. apply andb_true_iff in H. destruct H as [H1 H2].
  apply N.leb_le in H1, H2. apply andb_true_iff. split; apply N.leb_le; lia.
Qed.

Lemma upper_to_lower : forall c, is_upper c = true -> is_lower (c + 32) = true.
Proof.
  unfold is_lower, is_upper. intros c H. apply andb_true_iff in H. destruct H as [H1 H2].
  apply N.leb_le in H1, H2. apply andb_true_iff. split; apply N.leb_le; lia.
Qed.

Lemma lower_not_upper : forall c, is_lower c = true -> is_upper c = false.
Proof.
  unfold is_lower, is_upper. intros c H. apply andb_true_iff in H. destruct H as [H1 H2].
  apply N.leb_le in H1, H2. apply andb_false_iff. right. apply N.leb_gt. lia.
Qed.

Lemma upper_not_lower : forall c, is_upper c = true -> is_lower c = false.
Proof.
  intros c H. destruct (is_lower c) eqn:E; [|reflexivity].
  apply lower_not_upper in E. congruence.
Qed.

Lemma valid_of_lower : forall c, is_lower c = true -> valid_hdr_byte c = true.
Proof. intros c H. unfold valid_hdr_byte. rewrite H. reflexivity. Qed.
Lemma valid_of_upper : forall c, is_upper c = true -> valid_hdr_byte c = true.
Proof. intros c H. unfold valid_hdr_byte. rewrite H. apply orb_true_iff. left. apply orb_true_iff. left. apply orb_true_r. Qed.

Lemma cap_byte_valid : forall u c, valid_hdr_byte (cap_byte u c) = valid_hdr_byte c.
Proof.
  intros u c. unfold cap_byte.
  destruct (u && is_lower c) eqn:E1.
  - apply andb_true_iff in E1. destruct E1 as [_ L].
    rewrite (valid_of_lower _ L). apply valid_of_upper, lower_to_upper, L.
  - destruct (negb u && is_upper c) eqn:E2; [|reflexivity].
    apply andb_true_iff in E2. destruct E2 as [_ U].
    rewrite (valid_of_upper _ U). apply valid_of_lower, upper_to_lower, U.
Qed.

Lemma cap_byte_idem : forall u c, cap_byte u (cap_byte u c) = cap_byte u c.
Proof.
  intros u c. remember (cap_byte u c) as d eqn:Hd. unfold cap_byte in Hd.
  destruct (u && is_lower c) eqn:E1.
  - apply andb_true_iff in E1. destruct E1 as [-> L]. subst d. unfold cap_byte. cbn [andb negb].
    rewrite (upper_not_lower _ (lower_to_upper _ L)). reflexivity.
  - destruct (negb u && is_upper c) eqn:E2.
    + apply andb_true_iff in E2. destruct E2 as [Hu U]. apply negb_true_iff in Hu. subst u d.
      unfold cap_byte. cbn [andb negb]. rewrite (lower_not_upper _ (upper_to_lower _ U)). reflexivity.
    + subst d. unfold cap_byte. rewrite E1, E2. reflexivity.
Qed.

Lemma cap_valid : forall s u, forallb valid_hdr_byte (cap u s) = forallb valid_hdr_byte s.
Proof.
  induction s as [|c r IH]; intros u; [reflexivity|].
  cbn [cap forallb]. rewrite cap_byte_valid, IH. reflexivity.
Qed.

Lemma cap_idem : forall s u, cap u (cap u s) = cap u s.
Proof.
  induction s as [|c r IH]; intros u; [reflexivity|].
  cbn [cap]. rewrite cap_byte_idem, IH. reflexivity.
Qed.

Lemma canon_mime_idem : forall s, canon_mime (canon_mime s) = canon_mime s.
Proof.
  intros s. unfold canon_mime at 2. destruct (forallb valid_hdr_byte s) eqn:E.
  - unfold canon_mime. rewrite cap_valid, E. apply cap_idem.
  - unfold canon_mime. rewrite E. reflexivity.
Qed.

Lemma canon_mime_host : canon_mime host_key = host_key.
Proof. reflexivity. Qed.

(* ---------- the uri/uripost merge as the code has it now: configured headers override in-file headers ---------- *)
Definition xa : str := [88;45;65].
Definition w_entry : entry := {| e_method := m_get; e_uri := [47;97]; e_scheme := 0; e_urlhost := []; e_hdrs := []; e_body := [] |}.
Definition w_gun : gun_cfg := {| g_ssl := false; g_target_host := [116]; g_resolved := [84] |}.

Lemma uri_precedence_refuted :
  exists file cfg e g k,
    hm_get k (w_hdrs (on_wire g (effective canon_mime FUri file cfg e))) <> spec_get canon_mime FUri file cfg e k.
Proof.
  exists [(xa, [102])], [(xa, [99])], w_entry, w_gun, xa. vm_compute. discriminate.
Qed.
