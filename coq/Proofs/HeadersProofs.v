(* Lemmas about Model/Headers.v (property C09). *)
From Coq Require Import List NArith Bool Lia Arith PeanoNat.
From PV Require Import Model.Headers.
Import ListNotations.
Local Open Scope N_scope.

(* ---------- canon_mime ---------- *)
Lemma lower_to_upper : forall c, is_lower c = true -> is_upper (c - 32) = true.
Proof.
  unfold is_lower, is_upper. intros c H. apply andb_true_iff in H. destruct H as [H1 H2].
  apply N.leb_le in H1, H2. apply andb_true_iff. split; apply N.leb_le; lia.
Qed.

Lemma upper_to_lower : forall c, is_upper c = true -> is_lower (c + 32) = true.
Proof.
  unfold is_lower, is_upper. intros c H. apply andb_true_iff in H. destruct H as [H1 H2].
  apply N.leb_le in H1, H2. apply andb_true_iff. split; apply N.leb_le; lia.
Qed.

Lemma lower_not_upper : forall c, is_lower c = true -> is_upper c = false.
Proof.
  unfold is_lower, is_upper. intros c H. apply andb_true_iff in H. destruct H as [H1 H2].
  apply N.leb_le in H1, H2. apply andb_false_iff. right. apply N.leb_gt. lia.
Qed.

Lemma upper_not_lower : forall c, is_upper c = true -> is_lower c = false.
Proof.
  intros c H. destruct (is_lower c) eqn:E; [|reflexivity].
  apply lower_not_upper in E. congruence.
Qed.

Lemma valid_of_lower : forall c, is_lower c = true -> valid_hdr_byte c = true.
Proof. intros c H. unfold valid_hdr_byte. rewrite H. reflexivity. Qed.
Lemma valid_of_upper : forall c, is_upper c = true -> valid_hdr_byte c = true.
Proof. intros c H. unfold valid_hdr_byte. rewrite H. apply orb_true_iff. left. apply orb_true_iff. left. apply orb_true_r. Qed.

Lemma cap_byte_valid : forall u c, valid_hdr_byte (cap_byte u c) = valid_hdr_byte c.
Proof.
  intros u c. unfold cap_byte.
  destruct (u && is_lower c) eqn:E1.
  - apply andb_true_iff in E1. destruct E1 as [_ L].
    rewrite (valid_of_lower _ L). apply valid_of_upper, lower_to_upper, L.
  - destruct (negb u && is_upper c) eqn:E2; [|reflexivity].
    apply andb_true_iff in E2. destruct E2 as [_ U].
    rewrite (valid_of_upper _ U). apply valid_of_lower, upper_to_lower, U.
Qed.

Lemma cap_byte_idem : forall u c, cap_byte u (cap_byte u c) = cap_byte u c.
Proof.
  intros u c. remember (cap_byte u c) as d eqn:Hd. unfold cap_byte in Hd.
  destruct (u && is_lower c) eqn:E1.
  - apply andb_true_iff in E1. destruct E1 as [-> L]. subst d. unfold cap_byte. cbn [andb negb].
    rewrite (upper_not_lower _ (lower_to_upper _ L)). reflexivity.
  - destruct (negb u && is_upper c) eqn:E2.
    + apply andb_true_iff in E2. destruct E2 as [Hu U]. apply negb_true_iff in Hu. subst u d.
      unfold cap_byte. cbn [andb negb]. rewrite (lower_not_upper _ (upper_to_lower _ U)). reflexivity.
    + subst d. unfold cap_byte. rewrite E1, E2. reflexivity.
Qed.

Lemma cap_valid : forall s u, forallb valid_hdr_byte (cap u s) = forallb valid_hdr_byte s.
Proof.
  induction s as [|c r IH]; intros u; [reflexivity|].
  cbn [cap forallb]. rewrite cap_byte_valid, IH. reflexivity.
Qed.

Lemma cap_idem : forall s u, cap u (cap u s) = cap u s.
Proof.
  induction s as [|c r IH]; intros u; [reflexivity|].
  cbn [cap]. rewrite cap_byte_idem, IH. reflexivity.
Qed.

Lemma canon_mime_idem : forall s, canon_mime (canon_mime s) = canon_mime s.
Proof.
  intros s. unfold canon_mime at 2. destruct (forallb valid_hdr_byte s) eqn:E.
  - unfold canon_mime. rewrite cap_valid, E. apply cap_idem.
  - unfold canon_mime. rewrite E. reflexivity.
Qed.

Lemma canon_mime_host : canon_mime host_key = host_key.
Proof. reflexivity. Qed.


(* ---------- association-list header maps ---------- *)
Lemma str_eqb_eq : forall a b, str_eqb a b = true <-> a = b.
Proof.
  induction a as [|x a IH]; destruct b as [|y b]; cbn; split; intro H; try reflexivity; try discriminate.
  - apply andb_true_iff in H. destruct H as [H1 H2]. apply N.eqb_eq in H1. apply IH in H2. congruence.
  - inversion H; subst. apply andb_true_iff. split; [apply N.eqb_refl|apply IH; reflexivity].
Qed.

Lemma str_eqb_refl : forall a, str_eqb a a = true.
Proof. intro a. apply str_eqb_eq. reflexivity. Qed.

Lemma str_eqb_neq : forall a b, str_eqb a b = false <-> a <> b.
Proof.
  intros a b. split; intro H.
  - intro E. apply str_eqb_eq in E. congruence.
  - destruct (str_eqb a b) eqn:E; [|reflexivity]. apply str_eqb_eq in E. contradiction.
Qed.

Lemma str_eqb_sym : forall a b, str_eqb a b = str_eqb b a.
Proof.
  intros a b. destruct (str_eqb a b) eqn:E.
  - apply str_eqb_eq in E. subst. symmetry. apply str_eqb_refl.
  - symmetry. apply str_eqb_neq. apply str_eqb_neq in E. congruence.
Qed.

Lemma hm_get_put : forall k k' v m,
  hm_get k (hm_put k' v m) = if str_eqb k k' then Some v else hm_get k m.
Proof.
  intros k k' v m. induction m as [|[k1 v1] m IH]; cbn.
  - destruct (str_eqb k k'); reflexivity.
  - destruct (str_eqb k' k1) eqn:E1; cbn.
    + apply str_eqb_eq in E1. subst k1. destruct (str_eqb k k'); reflexivity.
    + destruct (str_eqb k k1) eqn:E2.
      * destruct (str_eqb k k') eqn:E3; [|reflexivity].
        apply str_eqb_eq in E2, E3. subst. rewrite str_eqb_refl in E1. discriminate.
      * exact IH.
Qed.

Lemma hm_get_app : forall k m m',
  hm_get k (m ++ m') = match hm_get k m with Some v => Some v | None => hm_get k m' end.
Proof.
  intros k m m'. induction m as [|[k1 v1] m IH]; cbn; [reflexivity|].
  destruct (str_eqb k k1); [reflexivity|exact IH].
Qed.

Lemma hm_get_del : forall k k' m,
  hm_get k (hm_del k' m) = if str_eqb k k' then None else hm_get k m.
Proof.
  intros k k' m. induction m as [|[k1 v1] m IH]; cbn.
  - destruct (str_eqb k k'); reflexivity.
  - destruct (str_eqb k' k1) eqn:E1.
    + rewrite IH. apply str_eqb_eq in E1. subst k1. destruct (str_eqb k k'); reflexivity.
    + cbn. destruct (str_eqb k k1) eqn:E2; [|exact IH].
      destruct (str_eqb k k') eqn:E3; [|reflexivity].
      apply str_eqb_eq in E2, E3. subst. rewrite str_eqb_refl in E1. discriminate.
Qed.

Lemma hm_get_filter : forall (q : str -> bool) k m,
  hm_get k (filter (fun kv => q (fst kv)) m) = if q k then hm_get k m else None.
Proof.
  intros q k m. induction m as [|[k1 v1] m IH]; cbn.
  - destruct (q k); reflexivity.
  - destruct (q k1) eqn:Q1; cbn.
    + destruct (str_eqb k k1) eqn:E.
      * apply str_eqb_eq in E. subst. rewrite Q1. reflexivity.
      * exact IH.
    + rewrite IH. destruct (str_eqb k k1) eqn:E; [|reflexivity].
      apply str_eqb_eq in E. subst. rewrite Q1. reflexivity.
Qed.

Lemma hm_get_none_notin : forall k m, hm_get k m = None <-> ~ In k (map fst m).
Proof.
  intros k m. induction m as [|[k1 v1] m IH]; cbn.
  - split; [intros _ []|reflexivity].
  - destruct (str_eqb k k1) eqn:E.
    + apply str_eqb_eq in E. subst. split; [discriminate|intro H; exfalso; apply H; left; reflexivity].
    + apply str_eqb_neq in E. rewrite IH. split.
      * intros H [H1|H1]; [congruence|contradiction].
      * intros H H1. apply H. right. exact H1.
Qed.

Definition keys (m : hmap) : list str := map fst m.

Lemma keys_put_some : forall k v m x, hm_get k m = Some x -> keys (hm_put k v m) = keys m.
Proof.
  intros k v m x. induction m as [|[k1 v1] m IH]; cbn; [discriminate|].
  destruct (str_eqb k k1) eqn:E; cbn.
  - apply str_eqb_eq in E. subst. reflexivity.
  - intro H. f_equal. apply IH, H.
Qed.

Lemma keys_put_none : forall k v m, hm_get k m = None -> keys (hm_put k v m) = keys m ++ [k].
Proof.
  intros k v m. induction m as [|[k1 v1] m IH]; cbn; [reflexivity|].
  destruct (str_eqb k k1) eqn:E; cbn; [discriminate|].
  intro H. f_equal. apply IH, H.
Qed.

Lemma nodup_snoc : forall (l : list str) k, NoDup l -> ~ In k l -> NoDup (l ++ [k]).
Proof.
  induction l as [|x l IH]; intros k Hn Hk; cbn.
  - constructor; [intros []|constructor].
  - inversion Hn; subst. constructor.
    + intro H. apply in_app_or in H. destruct H as [H|[H|[]]]; [contradiction|].
      subst. apply Hk. left. reflexivity.
    + apply IH; [assumption|]. intro H. apply Hk. right. exact H.
Qed.

Lemma nodup_put : forall k v m, NoDup (keys m) -> NoDup (keys (hm_put k v m)).
Proof.
  intros k v m H. destruct (hm_get k m) eqn:E.
  - rewrite (keys_put_some _ _ _ _ E). exact H.
  - rewrite (keys_put_none _ _ _ E). apply nodup_snoc; [exact H|]. apply hm_get_none_notin, E.
Qed.

Lemma keys_del_incl : forall k m x, In x (keys (hm_del k m)) -> In x (keys m).
Proof.
  intros k m x. induction m as [|[k1 v1] m IH]; cbn; [tauto|].
  destruct (str_eqb k k1); cbn; intuition.
Qed.

Lemma nodup_del : forall k m, NoDup (keys m) -> NoDup (keys (hm_del k m)).
Proof.
  intros k m. induction m as [|[k1 v1] m IH]; cbn; intro H; [constructor|].
  inversion H; subst. destruct (str_eqb k k1); cbn; [apply IH; assumption|].
  constructor; [|apply IH; assumption].
  intro Hin. apply keys_del_incl in Hin. contradiction.
Qed.

(* ---------- everything that depends on the canonicalisation ---------- *)
Section WithCanon.
Variable canon : str -> str.
Hypothesis canon_idem : forall s, canon (canon s) = canon s.

Definition ckeys (m : hmap) : Prop := Forall (fun kv => canon (fst kv) = fst kv) m.

Lemma ckeys_put : forall k v m, ckeys m -> ckeys (hm_put (canon k) v m).
Proof.
  intros k v m H. induction m as [|[k1 v1] m IH]; cbn.
  - constructor; [cbn; apply canon_idem|constructor].
  - inversion H; subst. destruct (str_eqb (canon k) k1).
    + constructor; [cbn; apply canon_idem|assumption].
    + constructor; [assumption|apply IH; assumption].
Qed.

Lemma ckeys_del : forall k m, ckeys m -> ckeys (hm_del k m).
Proof.
  intros k m H. induction m as [|[k1 v1] m IH]; cbn; [constructor|].
  inversion H; subst. destruct (str_eqb k k1); [apply IH; assumption|constructor; [assumption|apply IH; assumption]].
Qed.

Lemma ckeys_set : forall m k v, ckeys m -> ckeys (hm_set canon m k v).
Proof. intros. apply ckeys_put. assumption. Qed.
Lemma ckeys_add : forall m k v, ckeys m -> ckeys (hm_add canon m k v).
Proof. intros m k v H. unfold hm_add. destruct (hm_get (canon k) m) as [[a r]|]; apply ckeys_put; assumption. Qed.
Lemma nodup_set : forall m k v, NoDup (keys m) -> NoDup (keys (hm_set canon m k v)).
Proof. intros. apply nodup_put. assumption. Qed.
Lemma nodup_add : forall m k v, NoDup (keys m) -> NoDup (keys (hm_add canon m k v)).
Proof. intros m k v H. unfold hm_add. destruct (hm_get (canon k) m) as [[a r]|]; apply nodup_put; assumption. Qed.

Definition wf (m : hmap) : Prop := ckeys m /\ NoDup (keys m).

Lemma wf_nil : wf [].
Proof. split; constructor. Qed.

Lemma wf_fold_set : forall l m, wf m -> wf (fold_left (fun m kv => hm_set canon m (fst kv) (snd kv)) l m).
Proof.
  induction l as [|[k v] l IH]; intros m [H1 H2]; cbn; [split; assumption|].
  apply IH. split; [apply ckeys_set|apply nodup_set]; assumption.
Qed.

Lemma wf_fold_add : forall l m, wf m -> wf (fold_left (fun m kv => hm_add canon m (fst kv) (snd kv)) l m).
Proof.
  induction l as [|[k v] l IH]; intros m [H1 H2]; cbn; [split; assumption|].
  apply IH. split; [apply ckeys_add|apply nodup_add]; assumption.
Qed.

Lemma wf_cfg_map : forall cfg, wf (cfg_map canon cfg).
Proof. intro cfg. apply wf_fold_add, wf_nil. Qed.
Lemma wf_common_map : forall l, wf (common_map canon l).
Proof. intro l. apply wf_fold_set, wf_nil. Qed.

(* merge_uri: in-file headers win, configured keys only where absent *)
Lemma merge_uri_get : forall k G C,
  hm_get k (merge_uri C G) = match hm_get k C with Some v => Some v | None => hm_get k G end.
Proof.
  intros k G. unfold merge_uri. induction G as [|[k1 v1] G IH]; intros C; cbn.
  - destruct (hm_get k C); reflexivity.
  - rewrite IH. destruct (hm_get k1 C) eqn:E1.
    + destruct (hm_get k C) eqn:E2; [reflexivity|].
      destruct (str_eqb k k1) eqn:E3; [|reflexivity].
      apply str_eqb_eq in E3. subst. congruence.
    + rewrite hm_get_app. cbn. destruct (hm_get k C); [reflexivity|].
      destruct (str_eqb k k1); reflexivity.
Qed.

Lemma wf_merge_uri : forall G C, wf C -> ckeys G -> wf (merge_uri C G).
Proof.
  unfold merge_uri. induction G as [|[k1 v1] G IH]; intros C HC HG; cbn; [assumption|].
  inversion HG as [|? ? Hk1 HG']; subst. apply IH; [|assumption].
  destruct (hm_get k1 C) eqn:E; [assumption|].
  destruct HC as [HC1 HC2]. split.
  - apply Forall_app. split; [assumption|constructor; [assumption|constructor]].
  - unfold keys. rewrite map_app. cbn. apply nodup_snoc; [exact HC2|]. apply hm_get_none_notin, E.
Qed.

(* merge_json: entity headers Set on top of the cloned configured headers *)
Lemma fold_set_get : forall k E M,
  hm_get k (fold_left (fun m kv => hm_set canon m (fst kv) (snd kv)) E M) =
  match hm_get k (fold_left (fun m kv => hm_set canon m (fst kv) (snd kv)) E []) with
  | Some v => Some v
  | None => hm_get k M
  end.
Proof.
  intros k E. induction E as [|[k1 v1] E IH]; intros M; cbn [fold_left fst snd]; [cbn; reflexivity|].
  rewrite IH. rewrite (IH (hm_set canon [] k1 v1)).
  match goal with |- context [match ?x with Some _ => _ | None => _ end] => destruct x end; [reflexivity|].
  unfold hm_set. rewrite !hm_get_put. cbn. destruct (str_eqb k (canon k1)); reflexivity.
Qed.

(* EnrichRequestWithHeaders *)
Lemma enrich_get : forall h r k, ckeys h ->
  hm_get k (r_hdrs (enrich canon r h)) =
  match hm_get k (r_hdrs r) with
  | Some v => Some v
  | None => if str_eqb k host_key then None else hm_get k h
  end.
Proof.
  unfold enrich. induction h as [|[k1 v1] h IH]; intros r k Hc; cbn [fold_left].
  - cbn. destruct (hm_get k (r_hdrs r)); [reflexivity|]. destruct (str_eqb k host_key); reflexivity.
  - inversion Hc as [|? ? Hk1 Hc']; subst. cbn [fst] in Hk1.
    rewrite IH by assumption. unfold enrich_one. cbn [fst snd]. rewrite Hk1.
    destruct (hm_get k1 (r_hdrs r)) eqn:E1.
    + destruct (hm_get k (r_hdrs r)) eqn:E2; [reflexivity|].
      destruct (str_eqb k host_key); [reflexivity|]. cbn.
      destruct (str_eqb k k1) eqn:E3; [|reflexivity]. apply str_eqb_eq in E3. subst. congruence.
    + destruct (str_eqb k1 host_key) eqn:EH.
      * assert (Hh : r_hdrs (if is_nil (r_host r) then with_host r (fst v1) else r) = r_hdrs r)
          by (destruct (is_nil (r_host r)); reflexivity).
        rewrite Hh. destruct (hm_get k (r_hdrs r)); [reflexivity|].
        destruct (str_eqb k host_key) eqn:E4; [reflexivity|]. cbn.
        destruct (str_eqb k k1) eqn:E3; [|reflexivity].
        apply str_eqb_eq in E3. subst. congruence.
      * cbn [with_hdrs r_hdrs]. rewrite hm_get_app. cbn.
        destruct (hm_get k (r_hdrs r)); [reflexivity|].
        destruct (str_eqb k k1) eqn:E3.
        -- apply str_eqb_eq in E3. subst. rewrite EH. reflexivity.
        -- reflexivity.
Qed.

Definition host_of (h : hmap) : str := match hm_get host_key h with Some (v, _) => v | None => [] end.

Lemma enrich_host : forall h r, ckeys h -> NoDup (keys h) -> hm_get host_key (r_hdrs r) = None ->
  r_host (enrich canon r h) = if is_nil (r_host r) then host_of h else r_host r.
Proof.
  unfold enrich. induction h as [|[k1 v1] h IH]; intros r Hc Hn Hr; cbn [fold_left].
  - unfold host_of. cbn. destruct (r_host r); reflexivity.
  - inversion Hc as [|? ? Hk1 Hc']; subst. cbn [fst] in Hk1.
    inversion Hn as [|? ? Hnot Hn']; subst.
    unfold enrich_one at 2. cbn [fst snd]. rewrite Hk1.
    destruct (hm_get k1 (r_hdrs r)) eqn:E1.
    + rewrite IH by assumption.
      assert (Hne : str_eqb host_key k1 = false).
      { apply str_eqb_neq. intro; subst. congruence. }
      unfold host_of. cbn [hm_get]. rewrite Hne. reflexivity.
    + destruct (str_eqb k1 host_key) eqn:EH.
      * apply str_eqb_eq in EH. subst k1.
        assert (Hh0 : hm_get host_key h = None) by (apply hm_get_none_notin; exact Hnot).
        destruct (is_nil (r_host r)) eqn:En.
        -- rewrite IH by assumption. cbn [with_host r_host].
           unfold host_of at 2. cbn [hm_get]. rewrite str_eqb_refl. destruct v1 as [a rest]. cbn [fst].
           unfold host_of. rewrite Hh0. destruct a; reflexivity.
        -- rewrite IH by assumption. rewrite En. reflexivity.
      * rewrite IH; [| assumption | assumption |].
        -- cbn [with_hdrs r_host]. unfold host_of. cbn [hm_get].
           rewrite (str_eqb_sym host_key k1), EH. reflexivity.
        -- cbn [with_hdrs r_hdrs]. rewrite hm_get_app, Hr. cbn [hm_get].
           rewrite (str_eqb_sym host_key k1), EH. reflexivity.
Qed.

Lemma enrich_nodup : forall h r, ckeys h -> NoDup (keys (r_hdrs r)) -> NoDup (keys (r_hdrs (enrich canon r h))).
Proof.
  unfold enrich. induction h as [|[k1 v1] h IH]; intros r Hc Hn; cbn [fold_left]; [assumption|].
  inversion Hc as [|? ? Hk1 Hc']; subst. cbn [fst] in Hk1.
  apply IH; [assumption|]. unfold enrich_one. cbn [fst snd]. rewrite Hk1.
  destruct (hm_get k1 (r_hdrs r)) eqn:E1; [assumption|].
  destruct (str_eqb k1 host_key).
  - destruct (is_nil (r_host r)); assumption.
  - cbn [with_hdrs r_hdrs]. unfold keys. rewrite map_app. cbn. apply nodup_snoc; [exact Hn|].
    apply hm_get_none_notin, E1.
Qed.

Lemma enrich_fixed : forall h r,
  r_method (enrich canon r h) = r_method r /\ r_uri (enrich canon r h) = r_uri r /\ r_body (enrich canon r h) = r_body r.
Proof.
  unfold enrich. induction h as [|[k1 v1] h IH]; intros r; cbn [fold_left]; [auto|].
  destruct (IH (enrich_one canon r (k1, v1))) as (A & B & C). rewrite A, B, C.
  unfold enrich_one. cbn [fst snd].
  destruct (hm_get (canon k1) (r_hdrs r)); [auto|].
  destruct (str_eqb (canon k1) host_key); [destruct (is_nil (r_host r)); auto|auto].
Qed.

End WithCanon.

(* ---------- the four formats against the format-independent specification ---------- *)
Section Formats.
Variable canon : str -> str.
Hypothesis canon_idem : forall s, canon (canon s) = canon s.

Lemma wf_cfg : forall cfg, wf canon (cfg_map canon cfg).
Proof. intro cfg. apply wf_cfg_map. exact canon_idem. Qed.

Lemma wf_uri : forall file cfg, wf canon (merge_uri (common_map canon file) (cfg_map canon cfg)).
Proof.
  intros file cfg. apply wf_merge_uri.
  - apply wf_common_map. exact canon_idem.
  - apply (proj1 (wf_cfg cfg)).
Qed.

Lemma wf_json : forall cfg E, wf canon (merge_json canon (cfg_map canon cfg) E).
Proof. intros cfg E. unfold merge_json. apply wf_fold_set; [exact canon_idem|apply wf_cfg]. Qed.

Lemma raw_nodup : forall e, NoDup (keys (r_hdrs (read_request canon e))).
Proof.
  intro e. cbn [read_request r_hdrs]. apply nodup_del.
  apply (proj2 (wf_fold_add canon canon_idem (e_hdrs e) [] (wf_nil canon))).
Qed.

Lemma raw_nohost : forall e, hm_get host_key (r_hdrs (read_request canon e)) = None.
Proof. intro e. cbn [read_request r_hdrs]. rewrite hm_get_del, str_eqb_refl. reflexivity. Qed.

Lemma effective_shape : forall f file cfg e,
  exists r0 h, effective canon f file cfg e = enrich canon r0 h /\ wf canon h /\
    NoDup (keys (r_hdrs r0)) /\ hm_get host_key (r_hdrs r0) = None /\
    r_method r0 = spec_method f e /\ r_uri r0 = e_uri e /\ r_body r0 = spec_body f e.
Proof.
  intros f file cfg e. destruct f; cbn [effective].
  - eexists _, _. split; [reflexivity|]. split; [apply wf_uri|]. repeat split; cbn; constructor.
  - eexists _, _. split; [reflexivity|]. split; [apply wf_uri|]. repeat split; cbn; constructor.
  - eexists _, _. split; [reflexivity|]. split; [apply wf_json|]. repeat split; cbn; constructor.
  - eexists _, _. split; [reflexivity|]. split; [apply wf_cfg|].
    split; [apply raw_nodup|]. split; [apply raw_nohost|]. repeat split.
Qed.

(* C09_precedence: for every key, the header map on the wire is the entry's own definition where it has one,
   else the configured values, and never a Host entry. *)
Lemma precedence : forall f file cfg e g k,
  hm_get k (w_hdrs (on_wire g (effective canon f file cfg e))) = spec_get canon f file cfg e k.
Proof.
  intros f file cfg e g k. cbn [on_wire w_hdrs]. unfold spec_get.
  destruct f; cbn [effective entry_defined].
  - rewrite enrich_get by (apply (proj1 (wf_uri file cfg))).
    cbn [new_request r_hdrs hm_get]. rewrite merge_uri_get. reflexivity.
  - rewrite enrich_get by (apply (proj1 (wf_uri file cfg))).
    cbn [new_request r_hdrs hm_get]. rewrite merge_uri_get. reflexivity.
  - rewrite enrich_get by (apply (proj1 (wf_json cfg (e_hdrs e)))).
    cbn [new_request r_hdrs hm_get]. unfold merge_json. rewrite fold_set_get. reflexivity.
  - rewrite enrich_get by (apply (proj1 (wf_cfg cfg))).
    cbn [read_request r_hdrs]. rewrite hm_get_del.
    destruct (str_eqb k host_key); reflexivity.
Qed.

Lemma spec_hdrs_get : forall f file cfg e k,
  hm_get k (spec_hdrs canon f file cfg e) = spec_get canon f file cfg e k.
Proof.
  intros f file cfg e k. unfold spec_hdrs, spec_get.
  set (ed := entry_defined canon f file e).
  rewrite hm_get_app.
  rewrite (hm_get_filter (fun k' => match hm_get k' (hm_del host_key ed) with Some _ => false | None => negb (str_eqb k' host_key) end)).
  rewrite !hm_get_del. destruct (str_eqb k host_key) eqn:EH; [reflexivity|].
  destruct (hm_get k ed); reflexivity.
Qed.

(* the header map on the wire has no shadowed entries: what is printed is what hm_get sees *)
Lemma wire_hdrs_nodup : forall f file cfg e g,
  NoDup (keys (w_hdrs (on_wire g (effective canon f file cfg e)))).
Proof.
  intros f file cfg e g. cbn [on_wire w_hdrs].
  destruct (effective_shape f file cfg e) as (r0 & h & -> & [Hc Hn] & Hn0 & _).
  apply enrich_nodup; assumption.
Qed.

Lemma passthrough_fixed : forall f file cfg e g,
  let w := on_wire g (effective canon f file cfg e) in
  w_method w = spec_method f e /\ w_uri w = e_uri e /\ w_body w = spec_body f e /\
  w_tls w = g_ssl g /\ w_addr w = g_resolved g.
Proof.
  intros f file cfg e g. cbn [on_wire w_method w_uri w_body w_tls w_addr].
  destruct (effective_shape f file cfg e) as (r0 & h & -> & _ & _ & _ & Hm & Hu & Hb).
  destruct (enrich_fixed canon h r0) as (A & B & C). rewrite A, B, C. auto.
Qed.

Lemma passthrough : forall f file cfg e g,
  let w := on_wire g (effective canon f file cfg e) in
  w_method w = spec_method f e /\ w_uri w = e_uri e /\ w_body w = spec_body f e /\
  w_tls w = g_ssl g /\ w_addr w = g_resolved g /\
  (forall k vs, str_eqb k host_key = false -> hm_get k (entry_defined canon f file e) = Some vs -> hm_get k (w_hdrs w) = Some vs).
Proof.
  intros f file cfg e g w.
  destruct (passthrough_fixed f file cfg e g) as (A & B & C & D & E).
  repeat split; try assumption.
  intros k vs Hk Hd. unfold w. rewrite precedence. unfold spec_get. rewrite Hk, Hd. reflexivity.
Qed.

Lemma configured_iff : forall f file cfg e g k vs,
  str_eqb k host_key = false -> hm_get k (cfg_map canon cfg) = Some vs ->
  (hm_get k (w_hdrs (on_wire g (effective canon f file cfg e))) = Some vs /\ hm_get k (entry_defined canon f file e) = None)
  \/ (exists ws, hm_get k (entry_defined canon f file e) = Some ws /\
                 hm_get k (w_hdrs (on_wire g (effective canon f file cfg e))) = Some ws).
Proof.
  intros f file cfg e g k vs Hk Hcfg. rewrite precedence. unfold spec_get. rewrite Hk.
  destruct (hm_get k (entry_defined canon f file e)) as [ws|].
  - right. exists ws. split; reflexivity.
  - left. split; [exact Hcfg|reflexivity].
Qed.

(* Host. The guard excludes only an entry whose own Host header is present with an EMPTY value. *)
Definition host_guard (f : fmt) (file : list (str * str)) (e : entry) : Prop :=
  entry_host canon f file e <> Some [].

Lemma merge_uri_host : forall C G,
  host_of (merge_uri C G) = match hm_get host_key C with Some (v, _) => v | None => host_of G end.
Proof. intros C G. unfold host_of. rewrite merge_uri_get. destruct (hm_get host_key C) as [[v r]|]; reflexivity. Qed.

Lemma merge_json_host : forall G E,
  host_of (merge_json canon G E) =
  match hm_get host_key (fold_left (fun m kv => hm_set canon m (fst kv) (snd kv)) E []) with
  | Some (v, _) => v | None => host_of G end.
Proof.
  intros G E. unfold host_of, merge_json. rewrite fold_set_get.
  match goal with |- context [hm_get host_key (fold_left ?f E [])] => destruct (hm_get host_key (fold_left f E [])) as [[v r]|] end; reflexivity.
Qed.

Lemma host_rule : forall f file cfg e g, host_guard f file e ->
  w_host (on_wire g (effective canon f file cfg e)) = spec_host canon f file cfg e g.
Proof.
  intros f file cfg e g Hg. cbn [on_wire w_host]. unfold spec_host, host_guard, entry_host in *.
  fold (host_of (cfg_map canon cfg)).
  destruct f; cbn [effective entry_defined] in *.
  - rewrite enrich_host; [|apply (proj1 (wf_uri file cfg))|apply (proj2 (wf_uri file cfg))|reflexivity].
    cbn [new_request r_host]. rewrite merge_uri_host.
    destruct (is_nil (e_urlhost e)) eqn:En; [|cbv iota; rewrite ?En; reflexivity].
    destruct (hm_get host_key (common_map canon file)) as [[v r]|]; reflexivity.
  - rewrite enrich_host; [|apply (proj1 (wf_uri file cfg))|apply (proj2 (wf_uri file cfg))|reflexivity].
    cbn [new_request r_host]. rewrite merge_uri_host.
    destruct (is_nil (e_urlhost e)) eqn:En; [|cbv iota; rewrite ?En; reflexivity].
    destruct (hm_get host_key (common_map canon file)) as [[v r]|]; reflexivity.
  - rewrite enrich_host; [|apply (proj1 (wf_json cfg (e_hdrs e)))|apply (proj2 (wf_json cfg (e_hdrs e)))|reflexivity].
    cbn [new_request r_host]. rewrite merge_json_host.
    destruct (is_nil (e_urlhost e)) eqn:En; [|cbv iota; rewrite ?En; reflexivity].
    match goal with |- context [match ?x with Some _ => _ | None => _ end] => destruct x as [[v r]|] end; reflexivity.
  - rewrite enrich_host; [|apply (proj1 (wf_cfg cfg))|apply (proj2 (wf_cfg cfg))|apply raw_nohost].
    cbn [read_request r_host].
    destruct (is_nil (e_urlhost e)) eqn:En; [|cbv iota; rewrite ?En; reflexivity].
    match goal with |- context [match ?x with Some _ => _ | None => _ end] => destruct x as [[v r]|] end.
    + destruct v as [|c v']; [exfalso; apply Hg; reflexivity|]. reflexivity.
    + reflexivity.
Qed.

(* what happens in the excluded corner: the entry's own Host header is present but empty *)
Lemma host_empty_corner : forall f file cfg e g, entry_host canon f file e = Some [] ->
  w_host (on_wire g (effective canon f file cfg e)) =
  match f with
  | FRaw => let c := host_of (cfg_map canon cfg) in if is_nil c then g_target_host g else c
  | _ => g_target_host g
  end.
Proof.
  intros f file cfg e g Hg. cbn [on_wire w_host]. unfold entry_host in Hg.
  destruct (is_nil (e_urlhost e)) eqn:En.
  2:{ injection Hg as Hg. rewrite Hg in En. discriminate. }
  destruct f; cbn [effective entry_defined] in *.
  - rewrite enrich_host; [|apply (proj1 (wf_uri file cfg))|apply (proj2 (wf_uri file cfg))|reflexivity].
    cbn [new_request r_host]. rewrite En, merge_uri_host.
    destruct (hm_get host_key (common_map canon file)) as [[v r]|]; [|discriminate].
    injection Hg as ->. reflexivity.
  - rewrite enrich_host; [|apply (proj1 (wf_uri file cfg))|apply (proj2 (wf_uri file cfg))|reflexivity].
    cbn [new_request r_host]. rewrite En, merge_uri_host.
    destruct (hm_get host_key (common_map canon file)) as [[v r]|]; [|discriminate].
    injection Hg as ->. reflexivity.
  - rewrite enrich_host; [|apply (proj1 (wf_json cfg (e_hdrs e)))|apply (proj2 (wf_json cfg (e_hdrs e)))|reflexivity].
    cbn [new_request r_host]. rewrite En, merge_json_host.
    match goal with H : match ?x with Some _ => _ | None => _ end = _ |- _ => destruct x as [[v r]|] end; [|discriminate].
    injection Hg as ->. reflexivity.
  - rewrite enrich_host; [|apply (proj1 (wf_cfg cfg))|apply (proj2 (wf_cfg cfg))|apply raw_nohost].
    cbn [read_request r_host]. rewrite En.
    match goal with H : match ?x with Some _ => _ | None => _ end = _ |- _ => destruct x as [[v r]|] end; [|discriminate].
    injection Hg as ->. reflexivity.
Qed.

(* whole files: every entry, with the in-file headers in scope at its position *)
Definition wire_equiv (a b : wire) : Prop :=
  w_tls a = w_tls b /\ w_addr a = w_addr b /\ w_method a = w_method b /\ w_uri a = w_uri b /\
  w_host a = w_host b /\ w_body a = w_body b /\ (forall k, hm_get k (w_hdrs a) = hm_get k (w_hdrs b)).

Fixpoint items_guard (f : fmt) (common : list (str * str)) (items : list item) : Prop :=
  match items with
  | [] => True
  | IHdr k v :: r => items_guard f (common ++ [(k, v)]) r
  | IEntry e :: r => host_guard f common e /\ items_guard f common r
  end.

Lemma entry_equiv : forall f file cfg e g, host_guard f file e ->
  wire_equiv (on_wire g (effective canon f file cfg e)) (spec_wire canon f file cfg e g).
Proof.
  intros f file cfg e g Hg.
  destruct (passthrough_fixed f file cfg e g) as (A & B & C & D & E).
  unfold wire_equiv. cbn [spec_wire w_tls w_addr w_method w_uri w_host w_body w_hdrs].
  repeat split; try assumption.
  - apply host_rule, Hg.
  - intro k. rewrite spec_hdrs_get. apply precedence.
Qed.

Lemma file_equiv : forall f cfg g items common, items_guard f common items ->
  Forall2 wire_equiv (map (on_wire g) (file_requests canon f cfg common items)) (file_spec canon f cfg common g items).
Proof.
  intros f cfg g. induction items as [|[k v|e] items IH]; intros common Hg; cbn.
  - constructor.
  - apply IH. exact Hg.
  - destruct Hg as [H1 H2]. constructor; [apply entry_equiv, H1|apply IH, H2].
Qed.

End Formats.

(* ---------- keep-alive, gun side ---------- *)
Lemma shoot_body_closed : forall ok, exists pre, shoot_body_events (RespOk ok) = pre ++ [BodyClosed].
Proof. intros [|]; eexists [_]; reflexivity. Qed.

Lemma shoot_body_drained : shoot_body_events (RespOk true) = [BodyDrained; BodyClosed].
Proof. reflexivity. Qed.

Lemma gun_client_own_injective : forall n i j, gun_client false n i = gun_client false n j -> i = j.
Proof. intros n i j H. cbn in H. congruence. Qed.

Lemma gun_client_shared_bound : forall n i, exists s, gun_client true n i = PoolClient s /\ (s < Nat.max 1 n)%nat.
Proof.
  intros n i. cbn [gun_client]. eexists. split; [reflexivity|].
  apply Nat.mod_upper_bound. destruct n; cbn; lia.
Qed.
