(* Proofs about Model/PreloadMw.v: a request gets a new header map, the middlewares write only
   to that map, so a kept ammo object yields the same request every time it is delivered. *)
From Coq Require Import List Arith Bool NArith Lia.
From PV Require Import Lib.AmmoBytes.
From PV Require Model.AmmoCommon.
From PV Require Import Model.Provider Model.Preload Model.PreloadContent Model.PreloadMw
  Proofs.ProviderProofs Proofs.PreloadProofs Proofs.PreloadContentProofs.
Import ListNotations.

(* ------------------------------------------------------------------ heap *)

Lemma length_mupd a f m : length (mupd a f m) = length m.
Proof. revert a; induction m as [|c r IH]; intros [|a]; cbn [mupd length]; auto. Qed.

Lemma mcell_mupd_same a f m : a < length m -> mcell (mupd a f m) a = f (mcell m a).
Proof.
  unfold mcell. revert a; induction m as [|c r IH]; intros [|a] H; cbn [mupd nth length] in *; try lia; auto.
  apply IH. lia.
Qed.

Lemma mcell_mupd_other a b f m : a <> b -> mcell (mupd a f m) b = mcell m b.
Proof.
  unfold mcell. revert a b; induction m as [|c r IH]; intros [|a] [|b] H; cbn [mupd nth]; auto; try congruence.
Qed.

Lemma mcell_app_old m x a : a < length m -> mcell (m ++ x) a = mcell m a.
Proof. intros H. unfold mcell. apply app_nth1. exact H. Qed.

Lemma mcell_app_new m c : mcell (m ++ [c]) (length m) = c.
Proof. unfold mcell. rewrite app_nth2, Nat.sub_diag by lia. reflexivity. Qed.

(* the middlewares write to the request's map and to nothing else *)
Lemma run_mws_facts ops : forall m r, r < length m ->
  length (run_mws ops m r) = length m
  /\ mcell (run_mws ops m r) r = apply_mw ops (mcell m r)
  /\ (forall b, b <> r -> mcell (run_mws ops m r) b = mcell m b).
Proof.
  unfold run_mws, apply_mw. induction ops as [|op ops IH]; intros m r Hr; cbn [fold_left].
  - repeat split; reflexivity.
  - destruct (IH (mupd r (apply_op op) m) r) as (Hl & Hc & Ho); [rewrite length_mupd; exact Hr|].
    rewrite length_mupd in Hl. repeat split.
    + exact Hl.
    + rewrite Hc, mcell_mupd_same by exact Hr. reflexivity.
    + intros b Hb. rewrite Ho by exact Hb. apply mcell_mupd_other. congruence.
Qed.

(* Acquire: the request is what the ammo's map and the middlewares say; every map that existed
   before — all ammo objects — is unchanged *)
Lemma acquire_facts ops m a m2 v : acquire ops m a = (m2, v) ->
  v = apply_mw ops (enrich_r (mcell m a))
  /\ length m2 = S (length m)
  /\ (forall b, b < length m -> mcell m2 b = mcell m b).
Proof.
  unfold acquire, acquire_with, build_req. intros H. injection H as <- <-.
  destruct (run_mws_facts ops (m ++ [enrich_r (mcell m a)]) (length m)) as (Hl & Hc & Ho).
  { rewrite app_length. cbn. lia. }
  repeat split.
  - rewrite Hc, mcell_app_new. reflexivity.
  - rewrite Hl, app_length. cbn. lia.
  - intros b Hb. rewrite Ho by lia. apply mcell_app_old. exact Hb.
Qed.

(* the kept objects delivered in any order, any number of times *)
Lemma replay_spec ops refs : forall m, (forall a, In a refs -> a < length m) ->
  snd (replay ops m refs) = map (fun a => apply_mw ops (enrich_r (mcell m a))) refs
  /\ (forall b, b < length m -> mcell (fst (replay ops m refs)) b = mcell m b).
Proof.
  unfold replay. induction refs as [|a r IH]; intros m Hin; cbn [replay_with map].
  - split; [reflexivity|]. intros; reflexivity.
  - destruct (acquire_with build_req ops m a) as [m1 v] eqn:Ha.
    destruct (acquire_facts ops m a m1 v Ha) as (Hv & Hl & Hold).
    destruct (replay_with build_req ops m1 r) as [m2 vs] eqn:Hr.
    destruct (IH m1) as (IH1 & IH2).
    { intros x Hx. rewrite Hl. specialize (Hin x (or_intror Hx)). lia. }
    rewrite Hr in IH1, IH2. cbn [fst snd] in *. split.
    + rewrite Hv, IH1. f_equal. apply map_ext_in. intros x Hx.
      rewrite Hold by (apply Hin; right; exact Hx). reflexivity.
    + intros b Hb. rewrite IH2 by lia. apply Hold. exact Hb.
Qed.

(* newly set up objects *)
Lemma stream_spec ops hs : forall m,
  snd (stream ops m hs) = map (fun h => apply_mw ops (enrich_r h)) hs.
Proof.
  unfold stream. induction hs as [|h r IH]; intros m; cbn [stream_with map]; [reflexivity|].
  destruct (acquire_with build_req ops (m ++ [h]) (length m)) as [m1 v] eqn:Ha.
  destruct (acquire_facts ops _ _ m1 v Ha) as (Hv & _ & _).
  specialize (IH m1). destruct (stream_with build_req ops m1 r) as [m2 vs]. cbn [snd] in *.
  rewrite Hv, mcell_app_new, IH. reflexivity.
Qed.

Lemma nth_map_lift (cs : list content) i c : nth_error cs i = Some c ->
  mcell (map (fun c => lift (c_hdrs c)) cs) i = lift (c_hdrs c).
Proof.
  unfold mcell. revert i; induction cs as [|x cs IH]; intros [|i] H; cbn in *; try discriminate.
  - injection H as ->. reflexivity.
  - apply IH. exact H.
Qed.

(* every request is [req_spec] of its own entry, whatever was delivered before, on both kinds of
   providers *)
Lemma requests_pure k preload ops cs del :
  (forall c, In c del -> nth_error cs (c_pos c) = Some c) ->
  requests_of k preload ops cs del = map (fun c => req_spec ops (c_hdrs c)) del.
Proof.
  intros Hin. unfold requests_of, requests_with. destruct (keeps_objects k preload).
  - destruct (replay_spec ops (map c_pos del) (map (fun c => lift (c_hdrs c)) cs)) as (H & _).
    { intros a Ha. apply in_map_iff in Ha. destruct Ha as (c & <- & Hc). rewrite map_length.
      apply nth_error_Some. rewrite (Hin c Hc). congruence. }
    unfold replay in H. rewrite H, map_map. apply map_ext_in. intros c Hc.
    rewrite (nth_map_lift cs (c_pos c) c (Hin c Hc)). reflexivity.
  - pose proof (stream_spec ops (map (fun c => lift (c_hdrs c)) del) []) as H.
    unfold stream in H. rewrite H, map_map. reflexivity.
Qed.

Lemma pick_in {A} (cs : list A) ids c : In c (pick cs ids) -> exists i, nth_error cs i = Some c.
Proof.
  unfold pick. intros H. apply in_flat_map in H. destruct H as (i & _ & Hi).
  destruct (nth_error cs i) as [x|] eqn:E; [|contradiction]. destruct Hi as [<-|[]]. exists i. exact E.
Qed.

Lemma deliver_c_in k preload lim pas cfgh items chb cancel fuel c :
  In c (fst (fst (deliver_c k preload lim pas cfgh items chb cancel fuel))) ->
  nth_error (file_entries cfgh items [] 0) (c_pos c) = Some c.
Proof.
  unfold deliver_c. rewrite contents_of_spec. cbn [fst]. intros H.
  apply pick_in in H. destruct H as (i & Hi). apply file_entries_at. eapply nth_error_In. exact Hi.
Qed.

Definition with_req (ops : list mwop) (c : content) : content * rheaders := (c, req_spec ops (c_hdrs c)).

Lemma combine_map {A B} (f : A -> B) l : combine l (map f l) = map (fun a => (a, f a)) l.
Proof. induction l as [|a l IH]; cbn; [reflexivity|]. rewrite IH. reflexivity. Qed.

(* the provider with middlewares = the provider without, every delivered content paired with the
   request its own line describes *)
Lemma deliver_m_spec k preload lim pas cfgh items chb ops cancel fuel :
  init_fails ops = false ->
  deliver_m k preload lim pas cfgh items chb ops cancel fuel =
    (let '(del, o, cl) := deliver_c k preload lim pas cfgh items chb cancel fuel in
     (map (with_req ops) del, end_with ops o, cl)).
Proof.
  intros Hi. unfold deliver_m. rewrite Hi.
  pose proof (deliver_c_in k preload lim pas cfgh items chb cancel fuel) as Hin.
  destruct (deliver_c k preload lim pas cfgh items chb cancel fuel) as [[del o] cl]. cbn [fst] in Hin.
  rewrite contents_of_spec, requests_pure by exact Hin. rewrite combine_map. reflexivity.
Qed.

Lemma deliver_m_badinit k preload lim pas cfgh items chb ops cancel fuel :
  init_fails ops = true ->
  deliver_m k preload lim pas cfgh items chb ops cancel fuel = ([], Failed EUnexpected, true).
Proof. intros Hi. unfold deliver_m. rewrite Hi. reflexivity. Qed.

Lemma c14_mw k preload lim pas cfgh items chb ops :
  let cs := file_entries cfgh items [] 0 in
  let src := chosen_content chb cs in
  let n := length cs in
  let C := c14_const n in
  let runm := deliver_m k preload lim pas cfgh items chb ops in
  cs <> [] -> init_fails ops = false ->
  (src <> [] ->
      (forall b fuel, bound lim pas (length src) = Some b -> C * (b + n + 1) < fuel ->
         runm None fuel = (map (with_req ops) (cyc_c src b), end_with ops Ok, true))
      /\ (forall cancel fuel, exists j,
            fst (fst (runm cancel fuel)) = map (with_req ops) (cyc_c src j) /\ le_opt j (bound lim pas (length src))))
  /\ (src = [] -> forall fuel, C * (n + 1) < fuel -> runm None fuel = ([], end_with ops (Failed ENoAmmo), true)).
Proof.
  intros cs src n C runm Hne Hi.
  destruct (c14_content k preload lim pas cfgh items chb Hne) as (_ & Hsome & Hnone).
  fold cs src n C in Hsome, Hnone. split.
  - intros Hs. destruct (Hsome Hs) as (Hb & Hany). split.
    + intros b fuel Hbd Hf. unfold runm. rewrite deliver_m_spec by exact Hi.
      rewrite (Hb b fuel Hbd Hf). reflexivity.
    + intros cancel fuel. destruct (Hany cancel fuel) as (j & Hj & Hle). exists j. split; [|exact Hle].
      unfold runm. rewrite deliver_m_spec by exact Hi.
      destruct (deliver_c k preload lim pas cfgh items chb cancel fuel) as [[del o] cl].
      cbn [fst] in *. rewrite Hj. reflexivity.
  - intros Hs fuel Hf. unfold runm. rewrite deliver_m_spec by exact Hi.
    rewrite (Hnone Hs fuel Hf). reflexivity.
Qed.

Lemma c14_mw_equiv k lim pas cfgh items chb ops :
  let cs := file_entries cfgh items [] 0 in
  let src := chosen_content chb cs in
  let n := length cs in
  let C := c14_const n in
  cs <> [] ->
  forall b f1 f2,
    ((src <> [] /\ bound lim pas (length src) = Some b) \/ (src = [] /\ b = n)) ->
    C * (b + n + 1) < f1 -> C * (b + n + 1) < f2 ->
    deliver_m k true lim pas cfgh items chb ops None f1 = deliver_m k false lim pas cfgh items chb ops None f2.
Proof.
  intros cs src n C Hne b f1 f2 Hb H1 H2.
  destruct (init_fails ops) eqn:Hi.
  - rewrite !deliver_m_badinit by exact Hi. reflexivity.
  - rewrite !deliver_m_spec by exact Hi.
    rewrite (c14_content_equiv k lim pas cfgh items chb Hne b f1 f2 Hb H1 H2). reflexivity.
Qed.

(* nothing a request goes through changes a kept ammo object: after any deliveries every ammo
   map is what it was, and the next request of an entry is the first one again *)
Lemma kept_objects_unchanged ops m refs :
  (forall a, In a refs -> a < length m) ->
  (forall b, b < length m -> mcell (fst (replay ops m refs)) b = mcell m b)
  /\ (forall a, a < length m ->
        snd (acquire ops (fst (replay ops m refs)) a) = snd (acquire ops m a)).
Proof.
  intros Hin. destruct (replay_spec ops refs m Hin) as (_ & Hold). split; [exact Hold|].
  intros a Ha.
  destruct (acquire ops (fst (replay ops m refs)) a) as [m2 v] eqn:E1.
  destruct (acquire ops m a) as [m3 w] eqn:E2.
  destruct (acquire_facts _ _ _ _ _ E1) as (-> & _). destruct (acquire_facts _ _ _ _ _ E2) as (-> & _).
  cbn [snd]. rewrite Hold by exact Ha. reflexivity.
Qed.

Lemma kept_objects ops :
  (forall m a m2 v, acquire ops m a = (m2, v) ->
     v = apply_mw ops (enrich_r (mcell m a)) /\ length m2 = S (length m)
     /\ (forall b, b < length m -> mcell m2 b = mcell m b))
  /\ (forall m refs, (forall a, In a refs -> a < length m) ->
        (forall b, b < length m -> mcell (fst (replay ops m refs)) b = mcell m b)
        /\ (forall a, a < length m -> snd (acquire ops (fst (replay ops m refs)) a) = snd (acquire ops m a)))
  /\ (forall k preload cs del, (forall c, In c del -> nth_error cs (c_pos c) = Some c) ->
        requests_of k preload ops cs del = map (fun c => req_spec ops (c_hdrs c)) del).
Proof.
  split; [exact (acquire_facts ops)|]. split; [exact (kept_objects_unchanged ops)|].
  intros k preload cs del. exact (requests_pure k preload ops cs del).
Qed.
