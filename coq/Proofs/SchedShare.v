(* Property C01, step and list profiles SHARED by several consumers (the engine's instances all
   call Next on the one pool-wide rps schedule).

   The composite of the leaves of a step / list profile (Model/Sched.v, Model/SchedList.v) is
   read as a compositeSchedule of doAtSchedule leaves of the concurrent model of composite.go
   (Model/SchedConc.v: interleavings of the sections delimited by its RWMutex, every leaf
   operation one atomic action; the retry `return s.Next()` after finding the freshly started
   part already drained is `Goto PIdle` in sec_next1).  The linearizability theorem of property
   C02 (Proofs/SchedConcCor.v conc_flat / conc_exactly_once) then gives C01's clauses for the
   shared profile: there is ONE start instant s such that, whatever the interleaving,
     - the Next answers, in linearisation order, are the operations of the profile started at s
       (part after part, each part shifted by the durations of the parts before it), each exactly
       once, and after them only (s + sum of the durations, false);
     - hence a consumer is told "exhausted" only after every operation has been handed out, and
       always with the instant start + duration of the whole profile. *)
From Coq Require Import List ZArith QArith Bool Arith Lia.
From PV Require Import Model.SchedTree Model.SchedConc
  Proofs.SchedTreeProofs Proofs.SchedTreeSeq Proofs.SchedTreeRun Proofs.SchedTreeSpec
  Proofs.SchedConcSections Proofs.SchedConcProofs Proofs.SchedConcCor.
From PV Require Import Model.Sched Model.SchedList Proofs.SchedProofs Proofs.SchedStep Proofs.SchedList.
Import ListNotations.
Local Open Scope Z_scope.

(* a leaf of C01's model as the doAtSchedule of the concurrent model *)
Definition at_nat (l : leaf) (k : nat) : Z :=
  match l_at l (Z.of_nat k) with Some x => x | None => 0 end.
Definition doat_of (l : leaf) : sched := DoAt (Z.to_nat (l_n l)) (l_dur l) (at_nat l) 0 None.
(* NewComposite(parts...) of at least two leaves, as the constructor leaves it *)
Definition shared (ls : list leaf) : sched :=
  Comp (map doat_of ls) (la_of (map doat_of ls)) false.

Lemma flatten_doats ls : flat_map flatten (map doat_of ls) = map doat_of ls.
Proof. induction ls as [|l r IH]; cbn; [reflexivity|f_equal; exact IH]. Qed.

Lemma flatten_shared ls : flatten (shared ls) = map doat_of ls.
Proof. unfold shared. cbn [flatten]. apply flatten_doats. Qed.

Lemma doats_known ls : existsb unknown_part (map doat_of ls) = false.
Proof. induction ls as [|l r IH]; cbn; [reflexivity|exact IH]. Qed.

Lemma fresh_shared ls : ls <> [] -> fresh (shared ls).
Proof.
  intros NE. unfold shared. apply fr_comp.
  - apply Forall_forall. intros x Hx. apply in_map_iff in Hx. destruct Hx as (l & <- & _). constructor.
  - destruct ls; [congruence|discriminate].
Qed.

Lemma size_doats ls : fold_right (fun x a => (size x + a)%nat) 0%nat (map doat_of ls) = length ls.
Proof. induction ls as [|l r IH]; cbn; [reflexivity|f_equal; exact IH]. Qed.

Lemma size_shared ls : size (shared ls) = S (length ls).
Proof. unfold shared. cbn [size]. rewrite size_doats. reflexivity. Qed.

(* the abstract stream of the composite started at s = the model's tokens / finish started at s *)
Lemma leaf_tokens_defined l s : defined l ->
  map (Sched.shift s) (leaf_tokens l) = map Some (map (fun k => s + at_nat l k) (seq 0 (Z.to_nat (l_n l)))).
Proof.
  intros Hd. unfold leaf_tokens. rewrite !map_map. apply map_ext_in. intros k Hk.
  apply in_seq in Hk. unfold at_nat.
  destruct (l_at l (Z.of_nat k)) as [x|] eqn:E; [reflexivity|].
  exfalso. apply (Hd (Z.of_nat k)); [lia|exact E].
Qed.

Lemma items_of_leaves ls : Forall defined ls -> forall s,
  exists ts, comp_tokens ls s = map Some ts /\
             items_from s (map doat_of ls) = (map IT ts, comp_finish ls s).
Proof.
  induction 1 as [|l r Hl _ IH]; intros s.
  - exists []. split; reflexivity.
  - destruct (IH (s + l_dur l)) as (tr & Tr & Ir).
    exists (map (fun k => s + at_nat l k) (seq 0 (Z.to_nat (l_n l))) ++ tr). split.
    + cbn [comp_tokens]. rewrite Tr, (leaf_tokens_defined l s Hl), map_app. reflexivity.
    + cbn [map]. unfold doat_of at 1. cbn [items_from]. rewrite Ir. cbn [comp_finish].
      rewrite Nat.sub_0_r, map_app, map_map. reflexivity.
Qed.

(* what every reachable state of the shared profile satisfies *)
Definition shared_conclusion (ls : list leaf) (fuel : nat) (ths : list thread) (st : istate) : Prop :=
  (* composite.go neither panics nor retries for ever *)
  ~ gstuck fuel (i_g st) /\
  exists s ts,
    (* ts = the profile's operations when started at s: part after part *)
    comp_tokens ls s = map Some ts /\
    comp_tokens ls s = map (Sched.shift s) (comp_tokens ls 0) /\
    (* all Next answers so far, in linearisation order: the operations, each once, in order,
       then nothing but (start + total duration, false) *)
    (let n := length (next_nows (map evt (i_log st))) in
     next_results (map eres (i_log st)) =
       firstn n (map (fun t => (t, true)) ts) ++ repeat (s + comp_finish ls 0, false) (n - length ts)) /\
    (* every consumer holds exactly its own answers *)
    (forall i th, nth_error (g_threads (i_g st)) i = Some th -> t_hist th = proj i (i_log st)) /\
    (* so: whoever is told "exhausted" is told start + duration of the whole profile, and by then
       all the profile's operations have been handed out *)
    (forall i th t, nth_error (g_threads (i_g st)) i = Some th -> In (RNext t false) (t_hist th) ->
       t = s + comp_finish ls 0 /\
       (length ts <= length (next_nows (map evt (i_log st))))%nat /\
       firstn (length ts) (next_results (map eres (i_log st))) = map (fun t => (t, true)) ts).

Lemma in_next_results t ok l : In (RNext t ok) l -> In (t, ok) (next_results l).
Proof.
  unfold next_results. intros H. apply in_flat_map. exists (RNext t ok). split; [exact H|left; reflexivity].
Qed.

Lemma in_proj_log i log x : In x (proj i log) -> In x (map eres log).
Proof.
  unfold proj. intros H. apply in_map_iff in H. destruct H as (e & <- & He).
  apply filter_In in He. apply in_map. apply He.
Qed.

Lemma in_firstn {A} (x : A) n l : In x (firstn n l) -> In x l.
Proof. intros H. rewrite <- (firstn_skipn n l). apply in_or_app. left. exact H. Qed.

Lemma false_in_shape (n m : nat) (toks : list (Z * bool)) (f t : Z) :
  m = length toks -> Forall (fun x => snd x = true) toks ->
  In (t, false) (firstn n toks ++ repeat (f, false) (n - m)) ->
  t = f /\ (m <= n)%nat.
Proof.
  intros -> Ht H. apply in_app_or in H. destruct H as [H|H].
  - apply in_firstn in H. rewrite Forall_forall in Ht. specialize (Ht _ H). discriminate.
  - destruct (Nat.le_gt_cases (length toks) n) as [L|G].
    + apply repeat_spec in H. inversion H. split; [reflexivity|exact L].
    + replace (n - length toks)%nat with 0%nat in H by lia. destruct H.
Qed.

Theorem shared_profile ls fuel lo0 ths st :
  (2 <= length ls)%nat -> Forall defined ls -> (length ls <= fuel)%nat -> init_threads ths ->
  ireach fuel {| i_g := {| g_c := shared ls; g_lo := lo0; g_threads := ths |};
                 i_a := a_init (flatten (shared ls)); i_log := [] |} st ->
  shared_conclusion ls fuel ths st.
Proof.
  intros L2 Hd Hf It R.
  assert (NE : ls <> []) by (destruct ls; [cbn in L2; lia|discriminate]).
  assert (C : conc_conclusion fuel (shared ls) lo0 ths st).
  { apply conc_flat; [apply fresh_shared; exact NE| | |rewrite size_shared; lia|exact It|exact R].
    - unfold shared. cbn [comp_len]. rewrite map_length. lia.
    - unfold shared, children. apply Forall_forall. intros x Hx. apply in_map_iff in Hx.
      destruct Hx as (l & <- & _). exact I. }
  pose proof C as (Hstuck & _ & _ & _ & Hhist & _).
  destruct (conc_exactly_once _ _ _ _ _ C) as (s & E).
  { rewrite flatten_shared. apply doats_known. }
  cbn zeta in E. rewrite flatten_shared in E.
  destruct (items_of_leaves ls Hd s) as (ts & Ts & Is). rewrite Is in E. cbn [fst snd] in E.
  rewrite map_map in E. cbn [tok_time] in E. rewrite map_length in E.
  rewrite comp_finish_shift in E.
  split; [exact Hstuck|]. exists s, ts.
  split; [exact Ts|]. split; [apply comp_tokens_shift|]. split; [exact E|].
  split; [intros i th Hi; apply (Hhist i th Hi)|].
  intros i th t Hi Hin.
  destruct (Hhist i th Hi) as [Hh _]. rewrite Hh in Hin.
  apply in_proj_log, in_next_results in Hin. rewrite E in Hin.
  apply false_in_shape in Hin; [|symmetry; apply map_length|apply Forall_forall; intros x Hx; apply in_map_iff in Hx; destruct Hx as (y & <- & _); reflexivity].
  destruct Hin as [-> Hn].
  split; [reflexivity|]. split; [exact Hn|].
  rewrite E. set (n := length (next_nows (map evt (i_log st)))) in *.
  set (tk := map (fun x : Z => (x, true)) ts).
  assert (Lk : length tk = length ts) by apply map_length.
  rewrite firstn_app, firstn_firstn.
  replace (Nat.min (length ts) n) with (length ts) by lia.
  rewrite firstn_length. replace (length ts - Nat.min n (length tk))%nat with 0%nat by lia.
  cbn [firstn]. rewrite app_nil_r, <- Lk. apply firstn_all.
Qed.

(* a step profile with at least two levels, shared: finish = start + levels * D *)
Theorem step_shared f t st D ls fuel lo0 ths sta :
  valid (PStep f t st D) -> leaves (PStep f t st D) = Some ls -> (2 <= length ls)%nat ->
  (length ls <= fuel)%nat -> init_threads ths ->
  ireach fuel {| i_g := {| g_c := shared ls; g_lo := lo0; g_threads := ths |};
                 i_a := a_init (flatten (shared ls)); i_log := [] |} sta ->
  shared_conclusion ls fuel ths sta /\
  comp_finish ls 0 = Z.of_nat (length (spec_levels f t st)) * D /\
  length ls = length (spec_levels f t st).
Proof.
  intros Hv El L2 Hf It R. split; [|split].
  - apply (shared_profile ls fuel lo0 ths sta L2); auto. eapply leaves_defined; eauto.
  - destruct (leaves_finish _ Hv) as (ls' & E' & F). rewrite El in E'. inversion E'; subst ls'. exact F.
  - destruct Hv as (_ & _ & Hst & _). destruct (step_levels_spec f t st Hst) as (lv' & Hlv & Hf2).
    cbn [leaves] in El. rewrite Hlv in El. cbn [option_map] in El. inversion El; subst ls.
    rewrite map_length. apply (Forall2_length_Q _ _ Hf2).
Qed.

(* a list profile whose parts yield at least two leaves, shared: finish = start + sum of durations *)
Theorem list_shared ps ls fuel lo0 ths sta :
  Forall valid ps -> list_leaves ps = Some ls -> (2 <= length ls)%nat ->
  (length ls <= fuel)%nat -> init_threads ths ->
  ireach fuel {| i_g := {| g_c := shared ls; g_lo := lo0; g_threads := ths |};
                 i_a := a_init (flatten (shared ls)); i_log := [] |} sta ->
  shared_conclusion ls fuel ths sta /\
  comp_finish ls 0 = list_spec_finish ps /\
  (forall s, comp_tokens ls s = list_tokens ps s).
Proof.
  intros Hv El L2 Hf It R.
  destruct (list_drain_spec ps Hv) as (ls' & E' & T & F & _). rewrite El in E'. inversion E'; subst ls'.
  split; [|split].
  - apply (shared_profile ls fuel lo0 ths sta L2); auto. eapply list_leaves_defined; eauto.
  - rewrite F. lia.
  - exact T.
Qed.

(* ---------- an executable scheduler for examples: thread i runs its next section at clock now ---------- *)
Definition share_init (ls : list leaf) (lo0 : Z) (ths : list thread) : istate :=
  {| i_g := {| g_c := shared ls; g_lo := lo0; g_threads := ths |};
     i_a := a_init (flatten (shared ls)); i_log := [] |}.

Fixpoint iplay (fuel : nat) (st : istate) (sch : list (nat * Z)) : option istate :=
  match sch with
  | [] => Some st
  | (i, now) :: r =>
      match nth_error (g_threads (i_g st)) i with
      | Some th =>
          if g_lo (i_g st) <=? now then
            match thread_section fuel now (g_c (i_g st)) th with
            | Some (Ok (c', out)) =>
                iplay fuel
                  {| i_g := {| g_c := c'; g_lo := now; g_threads := upd i (thread_after th out) (g_threads (i_g st)) |};
                     i_a := fst (ghost i now (i_a st) out);
                     i_log := i_log st ++ snd (ghost i now (i_a st) out) |} r
            | _ => None
            end
          else None
      | None => None
      end
  end.

Lemma ireach_trans fuel a b c : ireach fuel a b -> ireach fuel b c -> ireach fuel a c.
Proof.
  intros H1 H2. induction H2 as [|b c d _ IH S]; [exact H1|].
  eapply ireach_step; [apply IH; exact H1|exact S].
Qed.

Lemma iplay_reach fuel : forall sch st st', iplay fuel st sch = Some st' -> ireach fuel st st'.
Proof.
  induction sch as [|[i now] r IH]; intros st st' H.
  - inversion H; subst. apply ireach_refl.
  - cbn [iplay] in H.
    destruct (nth_error (g_threads (i_g st)) i) as [th|] eqn:Ei; [|discriminate].
    destruct (Z.leb_spec (g_lo (i_g st)) now) as [Hl|]; [|discriminate].
    destruct (thread_section fuel now (g_c (i_g st)) th) as [[[c' out]| |]|] eqn:Es; try discriminate.
    eapply ireach_trans; [|apply IH; exact H].
    eapply ireach_step; [apply ireach_refl|]. eapply istep_intro; eauto.
Qed.
