(* Proofs about Model/RegistryDecode.v: the fill that the config hooks build from a section. *)
From Coq Require Import List Arith Bool NArith Lia.
From PV Require Import Model.Registry Model.RegistrySection Model.RegistryDecode.
From PV Require Import Proofs.RegistryFacts Proofs.RegistryProofs Proofs.RegistrySectionProofs.
Import ListNotations.

Lemma forallb_repeat_other fl n : forallb (names_field fl) (repeat KOther n) = Nat.eqb n 0.
Proof. destruct n; [reflexivity|]. cbn. destruct fl; reflexivity. Qed.

(* the decoder as the code goes (fields take their keys, unused keys counted) leaves no key unused
   exactly when every key of the section names a field of the config *)
Lemma decode_unused_accepted fl u seen :
  Nat.eqb (snd (decode_map fl u seen)) 0 = settings_accepted_b fl u.
Proof.
  unfold settings_accepted_b, keys_present. rewrite !forallb_app, forallb_repeat_other.
  destruct u as [[a|] [b|] [c|] n]; destruct fl; cbn; try reflexivity; destruct n; reflexivity.
Qed.

(* and what it writes is the default overlaid by the settings *)
Lemma decode_value fl u seen : fst (decode_map fl u seen) = overlay fl u seen.
Proof. destruct u as [[a|] [b|] [c|] n]; destruct fl; destruct seen; reflexivity. Qed.

(* the fill built by parseConf fails exactly when a key names no field of the config, or the
   validator refuses the result *)
Lemma hook_fill_fails fl u o n :
  o_ffail (hook_oracle fl u o) n = negb (settings_accepted_b fl u) || o_ffail o n.
Proof. cbn. rewrite decode_unused_accepted. reflexivity. Qed.

Lemma hook_fill_value fl u o n seen : o_fill (hook_oracle fl u o) n seen = overlay fl u seen.
Proof. cbn. apply decode_value. Qed.

Lemma hook_expected_base sh fl u o s : expected_base sh (hook_oracle fl u o) s = expected_base sh o s.
Proof. reflexivity. Qed.

(* ---------- settings that name no field: the creation is the error result, nothing built ---------- *)

Lemma get_conf_rejected sh o s :
  (forall n, o_ffail o n = true) ->
  exists s1 evs n, get_conf sh true o s = (s1, evs, inl (EFill n)) /\ no_construction evs = true.
Proof.
  intros H. unfold get_conf. destruct (is_nocfg (sh_cfg sh)).
  - rewrite H. do 3 eexists. split; [reflexivity|reflexivity].
  - unfold new_base. destruct (sh_def sh); cbn; rewrite H; do 3 eexists; (split; [reflexivity|reflexivity]).
Qed.

Lemma rejected_always fl u o :
  settings_accepted_b fl u = false -> forall n, o_ffail (hook_oracle fl u o) n = true.
Proof. intros A n. rewrite hook_fill_fails, A. reflexivity. Qed.

Lemma new_rejected sh fl u o s :
  settings_accepted_b fl u = false ->
  exists s1 evs n, reg_new sh true (hook_oracle fl u o) s = (s1, evs, OErr (EFill n)) /\ no_construction evs = true.
Proof.
  intros A. destruct (get_conf_rejected sh _ s (rejected_always fl u o A)) as (s1 & evs & n & G & N).
  unfold reg_new. rewrite G. eauto.
Qed.

Lemma factory_rejected sh we named fl u o s :
  settings_accepted_b fl u = false ->
  exists s1 evs n, reg_new_factory sh we named true (hook_oracle fl u o) s = (s1, evs, CrErr (EFill n)) /\ no_construction evs = true.
Proof.
  intros A. pose proof (rejected_always fl u o A) as F.
  unfold reg_new_factory.
  destruct (is_nocfg (sh_cfg sh)) eqn:NC; cbn [negb].
  - rewrite F. do 3 eexists. split; reflexivity.
  - destruct (get_conf_rejected sh _ s F) as (s1 & evs & n & G & N).
    destruct (sh_ret sh); rewrite G; cbn [app]; eauto.
Qed.

(* through a section: an accepted section with settings that name no field of the constructor's
   config (for a constructor without config: any setting at all) reaches the registry and comes
   back as the fill's error with nothing constructed *)
Theorem settings_rejected_creation sh empty o s sec u :
  section_ok_b sec = true ->
  settings_accepted_b (decode_target sh empty) u = false ->
  (exists s1 evs n, create_by_settings sh empty o s sec u = inr (s1, evs, OErr (EFill n)) /\ no_construction evs = true) /\
  (forall we named, exists s1 evs n,
      factory_by_settings sh empty we named o s sec u = inr (s1, evs, CrErr (EFill n)) /\ no_construction evs = true).
Proof.
  intros SO A. split.
  - unfold create_by_settings.
    destruct (section_creation sh true (hook_oracle (decode_target sh empty) u o) s sec) as [Hok _].
    rewrite (Hok SO).
    destruct (new_rejected sh _ u o s A) as (s1 & evs & n & R & N). rewrite R. eauto.
  - intros we named. unfold factory_by_settings.
    pose proof (section_creation sh true o s sec) as [Hok _]. specialize (Hok SO).
    unfold create_by_section in Hok.
    destruct (parse_section sec) as [e|[|]]; try discriminate.
    destruct (factory_rejected sh we named _ u o s A) as (s1 & evs & n & R & N). rewrite R. eauto.
Qed.

(* a constructor without config: ANY setting besides the type key is rejected *)
Lemma nocfg_accepts_only_empty sh empty u :
  sh_cfg sh = NoCfg ->
  settings_accepted_b (decode_target sh empty) u = true -> u = no_settings.
Proof.
  intros NC. unfold decode_target. rewrite NC. cbn [is_nocfg].
  unfold settings_accepted_b, keys_present. rewrite !forallb_app, forallb_repeat_other.
  destruct u as [[a|] [b|] [c|] n]; cbn; try discriminate.
  destruct n; [reflexivity|discriminate].
Qed.

(* ---------- accepted settings: products built from the default overlaid by them ---------- *)

Definition settings_arg (sh : shape) (fl : cfgfields) (u : settings) (o : oracle) (s : st) : carg :=
  match sh_cfg sh with
  | NoCfg => ANone
  | k => mk_arg k (s_alloc s) (overlay fl u (expected_base sh o s))
  end.

Lemma hook_expected_arg sh fl u o s :
  expected_arg sh true (hook_oracle fl u o) s = settings_arg sh fl u o s.
Proof.
  unfold expected_arg, settings_arg. rewrite hook_fill_value. reflexivity.
Qed.

Theorem settings_new_config sh empty o s sec u s1 ev p :
  create_by_settings sh empty o s sec u = inr (s1, ev, OOk p) ->
  p_arg p = settings_arg sh (decode_target sh empty) u o s /\
  settings_accepted_b (decode_target sh empty) u = true.
Proof.
  unfold create_by_settings. intros H. split.
  - rewrite <- hook_expected_arg. eapply section_product_config; eauto.
  - destruct (settings_accepted_b (decode_target sh empty) u) eqn:A; [reflexivity|].
    unfold create_by_section in H. destruct (parse_section sec) as [e|[|]]; try discriminate.
    destruct (new_rejected sh _ u o s A) as (s2 & evs & n & R & N).
    rewrite R in H. discriminate.
Qed.

Theorem settings_factory_config sh empty we named o s0 sec u s1 cev f s s2 ev p :
  factory_by_settings sh empty we named o s0 sec u = inr (s1, cev, CrOk f) ->
  call_factory sh we true (hook_oracle (decode_target sh empty) u o) s f = (s2, ev, OOk p) ->
  p_arg p = settings_arg sh (decode_target sh empty) u o (match sh_ret sh with RPlugin => s | RFactory => s0 end).
Proof.
  unfold factory_by_settings. destruct (parse_section sec) as [e|[|]]; try discriminate.
  intros C K. injection C as C. rewrite <- hook_expected_arg.
  destruct (sh_ret sh) eqn:R.
  - eapply plugin_factory_product_arg; eauto.
  - eapply factory_factory_product_arg; eauto.
Qed.

(* field by field: the section's value where the section has the key, the default's otherwise *)
Lemma overlay_fields u d :
  va (overlay FldABC u d) = or_else (set_a u) (va d) /\
  vb (overlay FldABC u d) = or_else (set_b u) (vb d) /\
  vc (overlay FldABC u d) = or_else (set_c u) (vc d).
Proof. repeat split. Qed.
