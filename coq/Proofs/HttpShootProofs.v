(* Proofs about Model/HttpShoot.v (property C09: the request body under the gun options that make Shoot read it). *)
From Coq Require Import List NArith Bool Arith.
From PV Require Import Model.Headers Model.HttpShoot Proofs.HeadersProofs.
Import ListNotations.

Lemma get_body_snd : forall b, snd (get_body b) = b.
Proof. intros [[|] u d rw]; reflexivity. Qed.

Lemma dump_request_id : forall b, dump_request b = b.
Proof. intros [[|] u d rw]; reflexivity. Qed.

(* whatever the options, Client.Do gets the Body the ammo built: same unread bytes, same head, same GetBody *)
Lemma pre_send_snd : forall o b, snd (pre_send o b) = b.
Proof.
  intros o b. unfold pre_send.
  destruct (o_answlog o).
  - destruct (get_body b) as [lg b1] eqn:E.
    assert (H : b1 = b) by (rewrite <- (get_body_snd b), E; reflexivity).
    subst b1. cbn [snd]. destruct (o_dump o); [apply dump_request_id|reflexivity].
  - cbn [snd]. destruct (o_dump o); [apply dump_request_id|reflexivity].
Qed.

Lemma send_body_of : forall f ch body, send (body_of f ch body) = Sent body.
Proof.
  intros f ch body. unfold body_of. destruct body as [|c body]; [reflexivity|].
  cbn [is_nil]. destruct f; try (destruct ch); unfold send; cbn [rb_present rb_declared rb_unread];
    rewrite ?Nat.eqb_refl; reflexivity.
Qed.

Lemma shoot_send_any_options : forall o f ch body, shoot_send o (body_of f ch body) = Sent body.
Proof. intros. unfold shoot_send. rewrite pre_send_snd. apply send_body_of. Qed.

Lemma with_body_same : forall g r, with_body (on_wire g r) (r_body r) = on_wire g r.
Proof. reflexivity. Qed.

Lemma shoot_wire_any_options : forall o g f ch r, shoot_wire o g f ch r = Some (on_wire g r).
Proof. intros. unfold shoot_wire. rewrite shoot_send_any_options, with_body_same. reflexivity. Qed.

(* the copy the answer log gets is the body too *)
Lemma answlog_copy : forall o f ch body, o_answlog o = true -> is_nil body = false ->
  fst (pre_send o (body_of f ch body)) = Some body.
Proof.
  intros o f ch body Ha Hn. unfold pre_send. rewrite Ha.
  unfold body_of. rewrite Hn.
  destruct f; try (destruct ch); reflexivity.
Qed.

Lemma answlog_copy_none : forall o b, o_answlog o = false -> fst (pre_send o b) = None.
Proof. intros o b Ha. unfold pre_send. rewrite Ha. reflexivity. Qed.

Section WithCanon.
Variable canon : str -> str.
Hypothesis canon_idem : forall s, canon (canon s) = canon s.

Lemma shoot_passthrough : forall o f ch file cfg e g,
  exists w, shoot_wire o g f ch (effective canon f file cfg e) = Some w /\
    w = on_wire g (effective canon f file cfg e) /\ w_body w = spec_body f e.
Proof.
  intros. eexists. split; [apply shoot_wire_any_options|]. split; [reflexivity|].
  destruct (passthrough canon canon_idem f file cfg e g) as (_ & _ & B & _). exact B.
Qed.

Lemma shoot_file : forall o (chf : request -> bool) f cfg g items, items_guard canon f [] items ->
  Forall2 (fun ow s => exists w, ow = Some w /\ wire_equiv w s)
    (map (fun r => shoot_wire o g f (chf r) r) (file_requests canon f cfg [] items)) (file_spec canon f cfg [] g items).
Proof.
  intros o chf f cfg g items Hg.
  pose proof (file_equiv canon canon_idem f cfg g items [] Hg) as H.
  remember (file_requests canon f cfg [] items) as reqs eqn:Er. clear Er.
  remember (file_spec canon f cfg [] g items) as sp eqn:Es. clear Es.
  revert sp H. induction reqs as [|r reqs IH]; intros sp H; inversion H; subst; cbn [map].
  - constructor.
  - constructor; [|apply IH; assumption].
    eexists. split; [apply shoot_wire_any_options|assumption].
Qed.
End WithCanon.

(* response side *)
Lemma resp_events_end : forall o st, exists pre, shoot_resp_events o st = pre ++ [RCopyDiscard; RClose] /\
  Forall (fun e => e = RReadAll \/ e = RDumpResponse) pre.
Proof.
  intros o st. unfold shoot_resp_events.
  destruct (o_debug o), (answlog_logs o st); cbn [app].
  - exists [RReadAll; RDumpResponse]. split; [reflexivity|]. repeat (apply Forall_cons; [auto|]). apply Forall_nil.
  - exists [RReadAll]. split; [reflexivity|]. repeat (apply Forall_cons; [auto|]). apply Forall_nil.
  - exists [RDumpResponse]. split; [reflexivity|]. repeat (apply Forall_cons; [auto|]). apply Forall_nil.
  - exists []. split; [reflexivity|]. constructor.
Qed.

Lemma resp_events_default : forall o st, o_debug o = false -> o_answlog o = false ->
  shoot_resp_events o st = [RCopyDiscard; RClose].
Proof. intros o st Hd Ha. unfold shoot_resp_events, answlog_logs. rewrite Hd, Ha. reflexivity. Qed.
