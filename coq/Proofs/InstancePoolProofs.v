(* Proofs about Model/InstancePool.v: the pool (start loop over the startup schedule + await loop of
   Model/Pool.v) around the instances of Model/Instance.v.  What a pool that has ENDED looks like:
   every instance finished, one instance per startup token unless the ammo / the shared profile
   ran out, and therefore the C03 accounting with the tokens of the CONFIGURATION. *)
From Coq Require Import List Arith Bool Lia.
From PV Require Import Model.Pool Model.Instance Model.InstancePool Proofs.InstanceProofs.
Import ListNotations.

Inductive preach (c : cfg) (S0 : nat) : pool -> Prop :=
| preach_init : preach c S0 (pinit c S0)
| preach_step : forall p a p', preach c S0 p -> pl_step c a p = Some p' -> preach c S0 p'.

Lemma pl_run_preach c S0 l : forall p p', preach c S0 p -> pl_run c l p = Some p' -> preach c S0 p'.
Proof.
  induction l as [|a r IH]; cbn [pl_run]; intros p p' R H.
  - inversion H; subst; exact R.
  - destruct (pl_step c a p) as [p1|] eqn:E; [|discriminate].
    eapply IH; [eapply preach_step; eauto|exact H].
Qed.

Definition bn (b : bool) : nat := if b then 1 else 0.

(* ---------------------------------------------------------------------------------------- *)
(* list helpers for Instance.upd *)

Lemma iupd_length {A} (l : list A) : forall i x, length (upd l i x) = length l.
Proof. induction l as [|y r IH]; intros [|i] x; cbn; auto. Qed.

Lemma iupd_nth_same {A} (l : list A) : forall i x, i < length l -> nth_error (upd l i x) i = Some x.
Proof. induction l as [|y r IH]; intros [|i] x H; cbn in *; try lia; auto. apply IH; lia. Qed.

Lemma iupd_nth_other {A} (l : list A) : forall i j x, i <> j -> nth_error (upd l i x) j = nth_error l j.
Proof.
  induction l as [|y r IH]; intros [|i] [|j] x H; cbn; auto; try congruence; try (apply IH; congruence).
Qed.

Lemma iupd_In {A} (l : list A) : forall i x y, In y (upd l i x) -> y = x \/ In y l.
Proof.
  induction l as [|z r IH]; intros [|i] x y H; cbn in *; auto.
  - destruct H; auto.
  - destruct H as [H|H]; auto. destruct (IH _ _ _ H); auto.
Qed.

Definition nrep (l : list istat) : nat := length (filter is_reported l).

Lemma nrep_upd l : forall i a b, nth_error l i = Some a ->
  nrep (upd l i b) + bn (is_reported a) = nrep l + bn (is_reported b).
Proof.
  unfold nrep. induction l as [|z r IH]; intros [|i] a b H; cbn in H; try discriminate.
  - inversion H; subst. cbn. destruct (is_reported a), (is_reported b); cbn; lia.
  - cbn. specialize (IH _ _ b H). destruct (is_reported z); cbn; lia.
Qed.

Lemma nrep_app l1 l2 : nrep (l1 ++ l2) = nrep l1 + nrep l2.
Proof. unfold nrep. rewrite filter_app, app_length. reflexivity. Qed.

Lemma nrep_le l : nrep l <= length l.
Proof. unfold nrep. induction l as [|z r IH]; cbn; [lia|]. destruct (is_reported z); cbn; lia. Qed.

Lemma nrep_full l : length l <= nrep l -> forall st, In st l -> st = IReported.
Proof.
  unfold nrep. induction l as [|z r IH]; cbn; intros H st Hin; [contradiction|].
  pose proof (nrep_le r) as Hle. unfold nrep in Hle.
  destruct z; cbn in H; try lia.
  destruct Hin as [<-|Hin]; [reflexivity|]. apply IH; [lia|exact Hin].
Qed.

(* ---------------------------------------------------------------------------------------- *)
(* one section of one instance: what it does to the shared resources *)

Lemma step_inst_facts c i d s s' x :
  nth_error (insts s) i = Some x -> step_inst c i d s = Some s' ->
  ammo (sh s') <= ammo (sh s) /\ stoks (sh s') <= stoks (sh s)
  /\ start_open s' = start_open s
  /\ exists x', insts s' = upd (insts s) i x'
                /\ (pc x = Acq -> pc x' = Done -> ammo (sh s) = 0).
Proof.
  intros Hn H. unfold step_inst in H. rewrite Hn in H.
  destruct (local_step c i d (sh s) x) as [[t x']|] eqn:E; [|discriminate].
  inversion H; subst s'; clear H. cbn [sh insts start_open].
  assert (ammo t <= ammo (sh s) /\ stoks t <= stoks (sh s) /\ (pc x = Acq -> pc x' = Done -> ammo (sh s) = 0)) as (A1 & A2 & A3).
  { unfold local_step in E. destruct (pc x) eqn:P.
    - inversion E; subst. repeat split; auto; discriminate.
    - destruct (ammo (sh s)) eqn:Am; inversion E; subst; cbn; repeat split; auto; try lia.
      intros _ Hd. discriminate.
    - destruct (per_inst c).
      + destruct (own x); inversion E; subst; cbn; repeat split; auto; discriminate.
      + destruct (stoks (sh s)) eqn:St; inversion E; subst; cbn; repeat split; auto; try lia; discriminate.
    - destruct (discard_overflow c && d); inversion E; subst; cbn; repeat split; auto; discriminate.
    - inversion E; subst; cbn; repeat split; auto; discriminate.
    - inversion E; subst; cbn; repeat split; auto; discriminate.
    - inversion E; subst; cbn; repeat split; auto; discriminate.
    - discriminate. }
  repeat split; auto. exists x'. split; auto.
Qed.

(* ---------------------------------------------------------------------------------------- *)
(* effects *)

Definition is_startcancel (e : effect) : bool := match e with EffStartCancel => true | _ => false end.
Definition is_runcancel (e : effect) : bool := match e with EffRunCancel => true | _ => false end.
Definition is_badeff (e : effect) : bool :=
  match e with EffSend _ | EffSuppress _ | EffPanic => true | _ => false end.

Lemma apply_effs_fields l : forall p,
  core (apply_effs l p) = core p /\ sleft (apply_effs l p) = sleft p /\ stat (apply_effs l p) = stat p
  /\ start_res (apply_effs l p) = start_res p /\ paw (apply_effs l p) = paw p
  /\ start_cancel (apply_effs l p) = start_cancel p || existsb is_startcancel l
  /\ run_cancel (apply_effs l p) = run_cancel p || existsb is_runcancel l
  /\ bad (apply_effs l p) = bad p || existsb is_badeff l.
Proof.
  induction l as [|e r IH]; intros p; cbn [apply_effs existsb].
  - rewrite !orb_false_r. repeat split.
  - destruct (IH (apply_eff e p)) as (H1 & H2 & H3 & H4 & H5 & H6 & H7 & H8).
    rewrite H1, H2, H3, H4, H5, H6, H7, H8.
    destruct e; cbn; repeat split; auto;
      try (destruct (start_cancel p), (run_cancel p), (bad p); reflexivity).
Qed.

(* ---------------------------------------------------------------------------------------- *)
(* the instances of a reachable pool are reachable in Model/Instance.v *)

Lemma preach_core c S0 p : preach c S0 p -> reach c (core p).
Proof.
  induction 1 as [|p a p' R IH H].
  - cbn. constructor.
  - destruct a as [|ce|i d|m]; cbn [pl_step] in H.
    + destruct (start_open (core p)); [|discriminate]. destruct (sleft p); [discriminate|].
      destruct (spawn c (core p)) as [s'|] eqn:E; [|discriminate]. inversion H; subst. cbn.
      eapply reach_step with (a := ASpawn); [exact IH|]. cbn. exact E.
    + match type of H with (if ?b then _ else _) = _ => destruct b end; [|discriminate].
      inversion H; subst. cbn. eapply reach_step with (a := AClose); [exact IH|]. reflexivity.
    + destruct (nth_error (stat p) i) as [[| |]|]; try discriminate.
      destruct (nth_error (insts (core p)) i); [|discriminate].
      destruct (step_inst c i d (core p)) as [s'|] eqn:E; [|discriminate].
      inversion H; subst. cbn. eapply reach_step with (a := AStep i d); [exact IH|]. exact E.
    + destruct (deliverable p m); [|discriminate].
      destruct (step_await (penv p) (paw p) m ChSend) as [[a' effs]|]; [|discriminate].
      inversion H; subst. destruct (apply_effs_fields effs
        (mkPool (core p) (sleft p) (mark_reported p m) (start_res p) a' (start_cancel p) (run_cancel p) (bad p))) as (H1 & _).
      rewrite H1. exact IH.
Qed.

(* ---------------------------------------------------------------------------------------- *)
(* the invariant *)

Definition exhausted (c : cfg) (p : pool) : Prop :=
  ammo (sh (core p)) = 0 \/ (per_inst c = false /\ stoks (sh (core p)) = 0).

Record PInv (c : cfg) (S0 : nat) (p : pool) : Prop := {
  pi_len : length (stat p) = length (insts (core p));
  pi_tok : sleft p + length (insts (core p)) = S0;
  pi_res : match start_res p with
           | None => start_open (core p) = true /\ start_pending (paw p) = true
           | Some (n, e) => start_open (core p) = false /\ n = length (insts (core p))
                            /\ (e = ENil \/ (e = ECtx /\ startctx_cancelled p = true))
           end;
  pi_done : forall i st x, nth_error (stat p) i = Some st -> nth_error (insts (core p)) i = Some x ->
                           st <> IRun -> pc x = Done;
  pi_ooa : In (IEnded true) (stat p) -> ammo (sh (core p)) = 0;
  pi_cancel : start_cancel p = true -> 1 <= length (insts (core p)) /\ exhausted c p;
  pi_towait : toWait (paw p) = bn (prov_pending (paw p)) + bn (aggr_pending (paw p))
                               + bn (start_pending (paw p)) + bn (run_open (paw p));
  pi_awaited : awaited (paw p) = nrep (stat p);
  pi_started : start_pending (paw p) = false -> started (paw p) = length (insts (core p));
  pi_closed : run_open (paw p) = false -> start_pending (paw p) = false /\ started (paw p) <= awaited (paw p);
  pi_runc : run_cancel p = true -> run_open (paw p) = false;
  pi_bad : bad p = false
}.

Lemma PInv_init c S0 : PInv c S0 (pinit c S0).
Proof.
  constructor; cbn; auto; try lia; try discriminate; try contradiction.
  - intros [|i] st x H; discriminate.
Qed.

Ltac destr_if H :=
  match type of H with
  | (if ?b then _ else _) = _ => let E := fresh "E" in destruct b eqn:E; [|try discriminate]
  | match ?b with _ => _ end = _ => let E := fresh "E" in destruct b eqn:E; try discriminate
  end.

Lemma exhausted_mono c p p' :
  ammo (sh (core p')) <= ammo (sh (core p)) -> stoks (sh (core p')) <= stoks (sh (core p)) ->
  exhausted c p -> exhausted c p'.
Proof. unfold exhausted. intros A B [E|[E1 E2]]; [left; lia|right; split; [auto|lia]]. Qed.

Lemma PInv_spawn c S0 p p' : PInv c S0 p -> pl_step c PSpawn p = Some p' -> PInv c S0 p'.
Proof.
  intros I H. cbn [pl_step] in H.
  destruct (start_open (core p)) eqn:Eo; [|discriminate].
  destruct (sleft p) as [|k] eqn:Es; [discriminate|].
  unfold spawn in H. rewrite Eo in H. inversion H; subst p'; clear H.
  destruct I. constructor; cbn [core sleft stat start_res paw start_cancel run_cancel bad sh insts start_open] in *.
  - rewrite !app_length. cbn. lia.
  - rewrite app_length. cbn. lia.
  - destruct (start_res p) as [[n e]|]; [destruct pi_res0 as (F & _); congruence|]. split; [reflexivity|apply pi_res0].
  - intros i st x Hs Hx Hne.
    destruct (Nat.lt_ge_cases i (length (stat p))) as [L|G].
    + rewrite nth_error_app1 in Hs by lia. rewrite nth_error_app1 in Hx by lia. eapply pi_done0; eauto.
    + rewrite nth_error_app2 in Hs by lia. destruct (i - length (stat p)) as [|[|?]]; cbn in Hs; try discriminate.
      inversion Hs; subst. congruence.
  - intros Hin. apply in_app_or in Hin. destruct Hin as [Hin|[Hin|[]]]; [auto|discriminate].
  - intros Hc. destruct (pi_cancel0 Hc) as (L & E). rewrite app_length. split; [lia|exact E].
  - exact pi_towait0.
  - rewrite nrep_app. cbn. lia.
  - intros Hs. destruct (start_res p) as [[n e]|]; [destruct pi_res0 as (F & _); congruence|].
    destruct pi_res0 as (_ & F). congruence.
  - exact pi_closed0.
  - exact pi_runc0.
  - exact pi_bad0.
Qed.

Lemma PInv_endstart c S0 ce p p' : PInv c S0 p -> pl_step c (PEndStart ce) p = Some p' -> PInv c S0 p'.
Proof.
  intros I H. cbn [pl_step] in H. destr_if H. inversion H; subst p'; clear H.
  apply andb_true_iff in E. destruct E as [E E3]. apply andb_true_iff in E. destruct E as [E1 E2].
  destruct I. constructor; cbn [core sleft stat start_res paw start_cancel run_cancel bad sh insts start_open close_start] in *; auto.
  - split; [reflexivity|]. split; [reflexivity|].
    destruct ce; [right; split; [reflexivity|]|left; reflexivity].
    unfold startctx_cancelled in *. cbn. exact E3.
Qed.

Lemma PInv_inst c S0 i d p p' : PInv c S0 p -> pl_step c (PInst i d) p = Some p' -> PInv c S0 p'.
Proof.
  intros I H. cbn [pl_step] in H.
  destruct (nth_error (stat p) i) as [[| |]|] eqn:Est; try discriminate.
  destruct (nth_error (insts (core p)) i) as [x|] eqn:Ex; [|discriminate].
  destruct (step_inst c i d (core p)) as [s'|] eqn:E; [|discriminate].
  inversion H; subst p'; clear H.
  destruct (step_inst_facts _ _ _ _ _ _ Ex E) as (A1 & A2 & A3 & x' & A4 & A5).
  assert (Li : i < length (insts (core p))) by (apply nth_error_Some; congruence).
  assert (Hpc : pc_at s' i = Some (pc x')).
  { unfold pc_at. rewrite A4, iupd_nth_same by exact Li. reflexivity. }
  rewrite Hpc.
  set (ended := match Some (pc x') with Some Done => true | _ => false end).
  assert (Hended : ended = true -> pc x' = Done).
  { unfold ended. destruct (pc x'); try discriminate; auto. }
  set (st' := if ended then upd (stat p) i (IEnded match pc x with Acq => true | _ => false end) else stat p).
  assert (Lst : length st' = length (stat p)).
  { unfold st'. destruct ended; [apply iupd_length|reflexivity]. }
  destruct I. constructor; cbn [core sleft stat start_res paw start_cancel run_cancel bad sh insts start_open] in *.
  - rewrite Lst, A4, iupd_length. exact pi_len0.
  - rewrite A4, iupd_length. exact pi_tok0.
  - rewrite A3, A4, iupd_length. destruct (start_res p) as [[n e]|]; [|exact pi_res0].
    destruct pi_res0 as (F1 & F2 & F3). split; [exact F1|]. split; [exact F2|].
    destruct F3 as [F3|[F3 F4]]; [left; exact F3|right; split; [exact F3|]].
    unfold startctx_cancelled in *. cbn. apply orb_true_iff in F4. destruct F4 as [F4|F4]; rewrite F4; cbn; auto.
    apply orb_true_r.
  - intros j st y Hs Hy Hne. rewrite A4 in Hy.
    destruct (Nat.eq_dec i j) as [<-|Nij].
    + rewrite iupd_nth_same in Hy by exact Li. inversion Hy; subst y.
      unfold st' in Hs. destruct ended eqn:Een; [apply Hended; reflexivity|]. congruence.
    + rewrite iupd_nth_other in Hy by exact Nij.
      assert (Hs' : nth_error (stat p) j = Some st).
      { unfold st' in Hs. destruct ended; [rewrite iupd_nth_other in Hs by exact Nij|]; exact Hs. }
      eapply pi_done0; eauto.
  - intros Hin. assert (ammo (sh (core p)) = 0); [|lia].
    unfold st' in Hin. destruct ended eqn:Een; [|auto].
    apply iupd_In in Hin. destruct Hin as [Hin|Hin]; [|auto].
    destruct (pc x) eqn:P; try discriminate. apply A5; [reflexivity|apply Hended; reflexivity].
  - intros Hc. rewrite A4, iupd_length. split; [lia|].
    apply orb_true_iff in Hc. destruct Hc as [Hc|Hc].
    + destruct (pi_cancel0 Hc) as (_ & Ex0). destruct Ex0 as [Ex0|[Ex1 Ex2]]; [left; cbn; lia|right; cbn; split; [auto|lia]].
    + apply andb_true_iff in Hc. destruct Hc as [Hc _]. apply andb_true_iff in Hc. destruct Hc as [Hp Hs].
      right. cbn. apply negb_true_iff in Hp. apply Nat.eqb_eq in Hs. split; [exact Hp|lia].
  - exact pi_towait0.
  - rewrite pi_awaited0. unfold st'. destruct ended; [|reflexivity].
    pose proof (nrep_upd (stat p) i IRun (IEnded match pc x with Acq => true | _ => false end) Est) as Hn.
    cbn in Hn. lia.
  - intros Hs. rewrite A4, iupd_length. auto.
  - exact pi_closed0.
  - exact pi_runc0.
  - exact pi_bad0.
Qed.

Ltac open_await p :=
  let a := fresh "a" in let Ea := fresh "Ea" in
  remember (paw p) as a eqn:Ea in *; destruct a as [tw st aw pp ap sp ro];
  cbn [toWait started awaited prov_pending aggr_pending start_pending run_open] in *.

Ltac bool_crush :=
  repeat match goal with
         | H : _ && _ = true |- _ => apply andb_true_iff in H; destruct H
         | H : _ || _ = true |- _ => apply orb_true_iff in H; destruct H
         | H : (_ =? _) = true |- _ => apply Nat.eqb_eq in H
         | H : (_ <=? _) = true |- _ => apply Nat.leb_le in H
         | H : (_ <=? _) = false |- _ => apply Nat.leb_gt in H
         end.

(* a result of the provider / aggregator changes nothing but the loop's own bookkeeping *)
Lemma PInv_recv_comp c S0 m p p' :
  (exists e, m = ProvRes e \/ m = AggrRes e) ->
  PInv c S0 p -> pl_step c (PRecv m) p = Some p' -> PInv c S0 p'.
Proof.
  intros (e & Hm) I H. cbn [pl_step] in H.
  destruct (deliverable p m) eqn:Ed; [|discriminate].
  destruct (step_await (penv p) (paw p) m ChSend) as [[a' effs]|] eqn:Es; [|discriminate].
  inversion H; subst p'; clear H.
  destruct I. open_await p.
  assert (Hctx : is_ctx_error (run_cancel p) e = true).
  { destruct Hm; subst m; cbn in Ed; destruct e; try discriminate; cbn; auto. }
  destruct Hm; subst m; cbn [step_await penv e_runctx prov_pending aggr_pending] in Es;
    [destruct pp|destruct ap]; try discriminate; rewrite Hctx in Es; inversion Es; subst a' effs; clear Es;
    cbn [apply_effs mark_reported]; constructor;
    cbn [core sleft stat start_res paw start_cancel run_cancel bad toWait started awaited prov_pending aggr_pending start_pending run_open bn] in *;
    auto; try lia;
    try (destruct (start_res p) as [[n e']|]; auto).
Qed.

Lemma PInv_recv_start c S0 n e p p' :
  PInv c S0 p -> pl_step c (PRecv (StartRes n e)) p = Some p' -> PInv c S0 p'.
Proof.
  intros I H. cbn [pl_step] in H.
  destruct (deliverable p (StartRes n e)) eqn:Ed; [|discriminate].
  destruct (step_await (penv p) (paw p) (StartRes n e) ChSend) as [[a' effs]|] eqn:Es; [|discriminate].
  inversion H; subst p'; clear H.
  destruct I. open_await p.
  cbn [deliverable] in Ed. destruct (start_res p) as [[n' e']|] eqn:Er; [|discriminate].
  destruct pi_res0 as (R1 & R2 & R3).
  apply andb_true_iff in Ed. destruct Ed as [Ed1 Ed2]. apply Nat.eqb_eq in Ed1.
  assert (Hctx : is_ctx_error (startctx_cancelled p) e = true).
  { destruct e, e'; try discriminate; cbn; auto. destruct R3 as [R3|[_ R3]]; [discriminate|exact R3]. }
  cbn [step_await penv e_startctx start_pending] in Es.
  destruct sp; [|discriminate]. rewrite Hctx in Es.
  assert (ro = true) as -> by (destruct ro; auto; destruct (pi_closed0 eq_refl); discriminate).
  unfold check_finished in Es; cbn [toWait started awaited prov_pending aggr_pending start_pending run_open negb andb fst snd] in Es.
  destruct (n <=? aw) eqn:El; cbn [fst snd] in Es; inversion Es; subst a' effs; clear Es;
    cbn [apply_effs apply_eff mark_reported]; constructor;
    cbn [core sleft stat start_res paw start_cancel run_cancel bad toWait started awaited prov_pending aggr_pending start_pending run_open bn] in *;
    rewrite ?Er; auto; try lia; try discriminate; try congruence; bool_crush.
  - split; [exact R1|]. split; [exact R2|]. destruct R3 as [R3|[R3 R4]]; [left; exact R3|right; split; [exact R3|]].
    unfold startctx_cancelled. cbn. apply orb_true_r.
  - intros _. split; [reflexivity|exact El].
Qed.

Lemma PInv_recv_run c S0 i e p p' :
  PInv c S0 p -> pl_step c (PRecv (RunRes i e)) p = Some p' -> PInv c S0 p'.
Proof.
  intros I H. cbn [pl_step] in H.
  destruct (deliverable p (RunRes i e)) eqn:Ed; [|discriminate].
  destruct (step_await (penv p) (paw p) (RunRes i e) ChSend) as [[a' effs]|] eqn:Es; [|discriminate].
  inversion H; subst p'; clear H.
  destruct I. open_await p.
  cbn [deliverable] in Ed. destruct (nth_error (stat p) i) as [[|ooa|]|] eqn:Est; try discriminate.
  assert (Li : i < length (stat p)) by (apply nth_error_Some; congruence).
  assert (H_len : length (upd (stat p) i IReported) = length (insts (core p))) by (rewrite iupd_length; exact pi_len0).
  assert (H_done : forall j st x, nth_error (upd (stat p) i IReported) j = Some st ->
                     nth_error (insts (core p)) j = Some x -> st <> IRun -> pc x = Done).
  { intros j st0 x Hs Hx Hne. destruct (Nat.eq_dec i j) as [<-|Nij].
    - eapply pi_done0; [exact Est|exact Hx|discriminate].
    - rewrite iupd_nth_other in Hs by exact Nij. eapply pi_done0; eauto. }
  assert (H_ooa : In (IEnded true) (upd (stat p) i IReported) -> ammo (sh (core p)) = 0).
  { intros Hin. apply iupd_In in Hin. destruct Hin as [Hin|Hin]; [discriminate|auto]. }
  assert (H_nrep : nrep (upd (stat p) i IReported) = S (nrep (stat p))).
  { pose proof (nrep_upd (stat p) i _ IReported Est) as Hn. cbn in Hn. lia. }
  assert (H_i : 1 <= length (insts (core p))) by lia.
  assert (H_am : e = EOutOfAmmo -> ammo (sh (core p)) = 0).
  { intros ->. destruct ooa; [|discriminate]. apply pi_ooa0. eapply nth_error_In; eauto. }
  assert (H_e : e = EOutOfAmmo \/ e = ENil) by (destruct e, ooa; try discriminate; auto).
  cbn [step_await penv e_runctx run_open] in Es.
  destruct ro; [|discriminate].
  assert (H_rc : run_cancel p = false) by (destruct (run_cancel p); auto; specialize (pi_runc0 eq_refl); discriminate).
  unfold check_finished in Es; cbn [toWait started awaited prov_pending aggr_pending start_pending run_open fst snd] in Es.
  destruct H_e as [-> | ->]; cbn [is_ctx_error] in Es;
  destruct sp; cbn [negb andb app fst snd] in Es;
  try (destruct (st <=? S aw) eqn:El; cbn [fst snd app] in Es);
  inversion Es; subst a' effs; clear Es;
    cbn [apply_effs apply_eff mark_reported]; constructor;
    cbn [core sleft stat start_res paw start_cancel run_cancel bad toWait started awaited prov_pending aggr_pending start_pending run_open bn] in *;
    auto; try lia; try discriminate; try congruence; bool_crush;
    try (destruct (start_res p) as [[n0 e0]|]; [|destruct pi_res0; try discriminate; auto];
         destruct pi_res0 as (R1 & R2 & [R3|[R3 R4]]); (split; [exact R1|]); (split; [exact R2|]);
         [left; exact R3|right; split; [exact R3|]];
         unfold startctx_cancelled in *; cbn; rewrite ?H_rc in *; rewrite ?orb_false_r in *; rewrite ?orb_true_r; auto);
    try (intros _; split; [exact H_i|left; apply H_am; reflexivity]);
    try (intros _; split; [reflexivity|lia]).
Qed.

Lemma PInv_step c S0 a p p' : PInv c S0 p -> pl_step c a p = Some p' -> PInv c S0 p'.
Proof.
  destruct a as [|ce|i d|m].
  - apply PInv_spawn.
  - apply PInv_endstart.
  - apply PInv_inst.
  - destruct m as [e|e|n e|i e].
    + apply PInv_recv_comp. exists e; auto.
    + apply PInv_recv_comp. exists e; auto.
    + apply PInv_recv_start.
    + apply PInv_recv_run.
Qed.

Lemma preach_PInv c S0 p : preach c S0 p -> PInv c S0 p.
Proof. induction 1; [apply PInv_init|eapply PInv_step; eauto]. Qed.

(* the start loop stops only when the startup schedule is used up or the start was cancelled *)
Lemma why_closed c S0 p :
  preach c S0 p -> start_open (core p) = false -> sleft p = 0 \/ start_cancel p = true.
Proof.
  induction 1 as [|p a p' R IH H]; [discriminate|].
  pose proof (preach_PInv _ _ _ R) as I. intros Hc.
  destruct a as [|ce|i d|m]; cbn [pl_step] in H.
  - destruct (start_open (core p)) eqn:Eo; [|discriminate]. destruct (sleft p); [discriminate|].
    unfold spawn in H. rewrite Eo in H. inversion H; subst p'. cbn in Hc. discriminate.
  - destr_if H. inversion H; subst p'; clear H. cbn [sleft start_cancel].
    apply andb_true_iff in E. destruct E as [E _]. apply andb_true_iff in E. destruct E as [E1 E2].
    apply orb_true_iff in E2. destruct E2 as [E2|E2]; [left; apply Nat.eqb_eq; exact E2|].
    unfold startctx_cancelled in E2. apply orb_true_iff in E2. destruct E2 as [E2|E2]; [right; exact E2|].
    exfalso. destruct I. destruct (pi_closed0 (pi_runc0 E2)) as (F & _).
    destruct (start_res p) as [[n e]|]; [destruct pi_res0; congruence|destruct pi_res0; congruence].
  - destruct (nth_error (stat p) i) as [[| |]|]; try discriminate.
    destruct (nth_error (insts (core p)) i) as [x|] eqn:Ex; [|discriminate].
    destruct (step_inst c i d (core p)) as [s'|] eqn:E; [|discriminate].
    inversion H; subst p'; clear H. cbn [core sleft start_cancel] in *.
    destruct (step_inst_facts _ _ _ _ _ _ Ex E) as (_ & _ & A3 & _).
    rewrite A3 in Hc. destruct (IH Hc) as [F|F]; [left; exact F|right; rewrite F; reflexivity].
  - destruct (deliverable p m); [|discriminate].
    destruct (step_await (penv p) (paw p) m ChSend) as [[a' effs]|]; [|discriminate].
    inversion H; subst p'; clear H.
    destruct (apply_effs_fields effs
      (mkPool (core p) (sleft p) (mark_reported p m) (start_res p) a' (start_cancel p) (run_cancel p) (bad p)))
      as (H1 & H2 & _ & _ & _ & H6 & _).
    rewrite H1 in Hc. rewrite H2, H6. cbn [core sleft start_cancel] in *.
    destruct (IH Hc) as [F|F]; [left; exact F|right; rewrite F; reflexivity].
Qed.

(* ---------------------------------------------------------------------------------------- *)
(* Theorems *)

(* the await loop can only leave its `for` when the start loop is over and every instance finished *)
Theorem pool_ended_terminal c S0 p :
  preach c S0 p -> toWait (paw p) = 0 -> terminal (core p) /\ reach c (core p) /\ bad p = false.
Proof.
  intros R Hw. pose proof (preach_PInv _ _ _ R) as I. destruct I.
  split; [|split; [eapply preach_core; eauto|exact pi_bad0]].
  rewrite pi_towait0 in Hw.
  assert (Ho : run_open (paw p) = false) by (destruct (run_open (paw p)); auto; cbn in Hw; lia).
  destruct (pi_closed0 Ho) as (Hs & Hle). specialize (pi_started0 Hs).
  split.
  - destruct (start_res p) as [[n e]|]; [apply pi_res0|destruct pi_res0; congruence].
  - apply Forall_forall. intros x Hx. apply In_nth_error in Hx. destruct Hx as (i & Hx).
    assert (Li : i < length (stat p)) by (rewrite pi_len0; apply nth_error_Some; congruence).
    destruct (nth_error (stat p) i) as [st|] eqn:Est; [|apply nth_error_None in Est; lia].
    eapply pi_done0; [exact Est|exact Hx|].
    rewrite (nrep_full (stat p)) with (st := st); [discriminate|lia|eapply nth_error_In; eauto].
Qed.

(* one instance per startup token; fewer only if the ammo or the shared profile ran out, and then at least one *)
Theorem pool_started c S0 p :
  preach c S0 p -> start_open (core p) = false ->
  length (insts (core p)) = S0
  \/ (1 <= length (insts (core p)) < S0 /\ exhausted c p).
Proof.
  intros R Hc. pose proof (preach_PInv _ _ _ R) as I. destruct I.
  destruct (why_closed _ _ _ R Hc) as [F|F]; [left; lia|].
  destruct (pi_cancel0 F) as (L & E).
  destruct (Nat.eq_dec (length (insts (core p))) S0) as [Q|Q]; [left; exact Q|right].
  split; [lia|exact E].
Qed.

(* the accounting with the tokens of the CONFIGURATION: S0 >= 1 startup tokens instead of "at least one
   instance was started" *)
Theorem pool_conservation c S0 p :
  S0 >= 1 -> preach c S0 p -> toWait (paw p) = 0 ->
  fired (sh (core p)) + discarded (sh (core p)) = Nat.min (cfg_tokens c S0) (ammo0 c).
Proof.
  intros HS R Hw. destruct (pool_ended_terminal _ _ _ R Hw) as (T & Rc & _).
  destruct (pool_started _ _ _ R (proj1 T)) as [Q|(Q1 & Q2)].
  - rewrite (conservation c (core p) Rc T) by lia. unfold tokens, cfg_tokens. rewrite Q. reflexivity.
  - pose proof (conservation c (core p) Rc T ltac:(lia)) as Cv.
    unfold tokens, cfg_tokens in *. destruct (per_inst c) eqn:P; [|exact Cv].
    destruct Q2 as [Am|[F _]]; [|congruence].
    destruct (unfired_bound c (core p) Rc T ltac:(lia)) as (_ & U). specialize (U P).
    destruct (reach_inv_common c (core p) Rc) as (Ia & _).
    assert (length (insts (core p)) * prof c <= S0 * prof c) by (apply Nat.mul_le_mono_r; lia).
    lia.
Qed.

(* fewer instances than startup tokens were started: everything the pool could fire was fired *)
Theorem pool_started_fewer c S0 p :
  preach c S0 p -> toWait (paw p) = 0 -> length (insts (core p)) < S0 ->
  1 <= length (insts (core p))
  /\ (acquired (sh (core p)) = ammo0 c \/ (per_inst c = false /\ stoks (sh (core p)) = 0)).
Proof.
  intros R Hw L. destruct (pool_ended_terminal _ _ _ R Hw) as (T & Rc & _).
  destruct (pool_started _ _ _ R (proj1 T)) as [Q|(Q1 & Q2)]; [lia|].
  split; [lia|]. destruct Q2 as [Am|F]; [left|right; exact F].
  destruct (reach_inv_common c (core p) Rc) as (Ia & _). lia.
Qed.

(* the executable specification the driver evaluates on observed runs is what the theorems give *)
Theorem started_ok_b_holds c S0 p :
  preach c S0 p -> toWait (paw p) = 0 ->
  started_ok_b c S0 (length (insts (core p))) (acquired (sh (core p))) (prof c - stoks (sh (core p))) = true.
Proof.
  intros R Hw. destruct (pool_ended_terminal _ _ _ R Hw) as (T & Rc & _).
  unfold started_ok_b.
  destruct (pool_started _ _ _ R (proj1 T)) as [Q|(Q1 & Q2)].
  - rewrite Q, Nat.eqb_refl. reflexivity.
  - destruct (pool_started_fewer _ _ _ R Hw ltac:(lia)) as (L & E).
    apply orb_true_iff. right. rewrite !andb_true_iff. split; [split|].
    + apply Nat.leb_le. lia.
    + apply Nat.ltb_lt. lia.
    + apply orb_true_iff. destruct E as [E|(E1 & E2)].
      * left. apply Nat.eqb_eq. exact E.
      * right. rewrite E1, E2. cbn. apply Nat.eqb_eq. lia.
Qed.

(* ---------------------------------------------------------------------------------------- *)
(* Replay of observed runs: an accepted log ends in a reachable pool state *)

Lemma spawn_upto_preach c S0 n : forall fuel p p',
  preach c S0 p -> spawn_upto c n fuel p = Some p' -> preach c S0 p'.
Proof.
  induction fuel as [|f IH]; intros p p' R H; cbn [spawn_upto] in H;
    destruct (n <=? length (insts (core p))); try (inversion H; subst; exact R); try discriminate.
  destruct (pl_step c PSpawn p) as [p1|] eqn:E; [|discriminate].
  eapply IH; [eapply preach_step; eauto|exact H].
Qed.

Lemma phop_preach c S0 i d from to p p' : preach c S0 p -> phop c i d from to p = Some p' -> preach c S0 p'.
Proof.
  intros R H. unfold phop in H.
  destruct (pc_at (core p) i); [|discriminate]. destruct (ipc_eqb i0 from); [|discriminate].
  destruct (pl_step c (PInst i d) p) as [p1|] eqn:E; [|discriminate].
  destruct (pc_at (core p1) i); [|discriminate]. destruct (ipc_eqb i1 to); [|discriminate].
  inversion H; subst. eapply preach_step; eauto.
Qed.

Lemma pool_op_preach c S0 e p p' : preach c S0 p -> pool_op c e p = Some p' -> preach c S0 p'.
Proof.
  intros R H. destruct e as [i|i z|i [a|]|i ok|i a|i|i a|]; cbn [pool_op] in H; try discriminate;
    try (eapply phop_preach; eauto; fail).
  - destruct (pc_at (core p) i) as [[]|]; try discriminate. eapply phop_preach; eauto.
  - unfold bind in H. destruct (phop c i false (Dec a) (Shoot a) p) as [p1|] eqn:E; [|discriminate].
    eapply phop_preach; [eapply phop_preach; eauto|exact H].
  - destruct (pc_at (core p) i) as [[]|]; try discriminate. eapply phop_preach; eauto.
  - destruct (pc_at (core p) i) as [[]|]; try (eapply phop_preach; eauto; fail).
    unfold bind in H. destruct (phop c i false (Resp a) (Rel a) p) as [p1|] eqn:E; [|discriminate].
    eapply phop_preach; [eapply phop_preach; eauto|exact H].
Qed.

Lemma preplay_one_preach c S0 e p p' : preach c S0 p -> preplay_one c e p = Some p' -> preach c S0 p'.
Proof.
  intros R H. destruct e as [o| | |n ce|i ooa]; cbn [preplay_one] in H.
  - destruct o; try (eapply pool_op_preach; eauto; fail).
    + eapply spawn_upto_preach; eauto.
    + inversion H; subst; exact R.
  - eapply preach_step; eauto.
  - eapply preach_step; eauto.
  - destruct (spawn_upto c n n p) as [p1|] eqn:E1; [|discriminate].
    destruct (pl_step c (PEndStart ce) p1) as [p2|] eqn:E2; [|discriminate].
    eapply preach_step; [eapply preach_step; [eapply spawn_upto_preach; eauto|exact E2]|exact H].
  - eapply preach_step; eauto.
Qed.

Theorem preplay_preach c S0 l : forall p k p' k',
  preach c S0 p -> preplay c l p k = (p', k', true) -> preach c S0 p'.
Proof.
  induction l as [|e r IH]; cbn [preplay]; intros p k p' k' R H.
  - inversion H; subst; exact R.
  - destruct (preplay_one c e p) as [p1|] eqn:E; [|inversion H].
    eapply IH; [eapply preplay_one_preach; eauto|exact H].
Qed.
