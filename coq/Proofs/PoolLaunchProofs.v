(* Lemmas about Model/PoolLaunch.v (property C05): what runAsync has launched when it returns,
   and "Engine.Wait returns only when nothing the pools launched is still outstanding". *)
From Coq Require Import List Arith Bool Lia.
From PV Require Import Model.Pool Model.PoolLaunch Proofs.PoolProofs.
Import ListNotations.

(* ---------------------------------------------------------------------------------------- *)
(* runAsync as a statement sequence *)

(* the goroutines launched by the statements that precede the (first) schedule construction *)
Fixpoint launches_before_build (prog : list ra_stmt) : list producer :=
  match prog with
  | [] => []
  | RaBuildSchedule :: _ => []
  | RaGo pr :: r => pr :: launches_before_build r
  end.

Fixpoint launches (prog : list ra_stmt) : list producer :=
  match prog with
  | [] => []
  | RaBuildSchedule :: r => launches r
  | RaGo pr :: r => pr :: launches r
  end.

(* an early return leaves running exactly what was launched before the failing statement *)
Lemma ra_exec_fail : forall prog l,
  In RaBuildSchedule prog ->
  ra_exec prog false l = (rev (launches_before_build prog) ++ l, false).
Proof.
  induction prog as [|st r IH]; intros l Hin; [destruct Hin|].
  destruct st as [|pr]; cbn [ra_exec launches_before_build].
  - reflexivity.
  - destruct Hin as [H|H]; [discriminate|].
    rewrite (IH _ H). cbn [rev]. rewrite <- app_assoc. reflexivity.
Qed.

Lemma ra_exec_ok : forall prog l, ra_exec prog true l = (rev (launches prog) ++ l, true).
Proof.
  induction prog as [|st r IH]; intros l; [reflexivity|].
  destruct st as [|pr]; cbn [ra_exec launches].
  - apply IH.
  - rewrite IH. cbn [rev]. rewrite <- app_assoc. reflexivity.
Qed.

(* The early return of runAsync leaves nothing behind iff no goroutine is launched before the
   schedule is built.  (Both directions: a program that launches first does leave something.) *)
Lemma ra_fail_clean_iff : forall prog,
  In RaBuildSchedule prog ->
  (fst (ra_exec prog false []) = [] <-> launches_before_build prog = []).
Proof.
  intros prog Hin. rewrite (ra_exec_fail _ _ Hin). cbn [fst]. rewrite app_nil_r. split; intro H.
  - destruct (launches_before_build prog) as [|x r]; [reflexivity|].
    cbn [rev] in H. destruct (rev r); discriminate.
  - rewrite H. reflexivity.
Qed.

(* runAsync of the tree *)
Lemma run_async_fail_launches_nothing : ra_exec run_async_prog false [] = ([], false).
Proof. reflexivity. Qed.

Lemma run_async_ok_launches_each_once :
  snd (ra_exec run_async_prog true []) = true /\
  forall pr, count_pr pr (fst (ra_exec run_async_prog true [])) = 1.
Proof. split; [reflexivity|]. intros []; reflexivity. Qed.

(* the pre-start step of Model/Pool.v agrees with the opened-up runAsync: the pool counts as
   "launched" exactly when runAsync launched something, and then it launched one provider run
   and one aggregator run *)
Lemma pre_step_launched : forall v n parent s o s',
  pstep v n parent s (PvPre o) = Some s' ->
  launched s = false /\
  launched s' = negb (is_nil (pre_launched run_async_prog o)) /\
  comp_runs s' = count_pr PrProv (pre_launched run_async_prog o) + count_pr PrAggr (pre_launched run_async_prog o).
Proof.
  intros v n parent s o s' H. cbn [pstep] in H. unfold launched, comp_runs, launched.
  destruct (ph s) eqn:Eph; try discriminate.
  destruct o; injection H as <-; cbn; repeat split.
Qed.

(* every other step keeps the set of launched goroutines *)
Lemma pstep_launched_stable : forall v n parent s e s',
  pstep v n parent s e = Some s' -> (forall o, e <> PvPre o) -> launched s' = launched s.
Proof.
  intros v n parent s e s' H Hne. destruct e as [o|m ch| | |]; cbn [pstep] in H.
  - exfalso. eapply Hne. reflexivity.
  - destruct (ph s) eqn:Eph; try discriminate.
    destruct (msg_allowed n parent s m); [|discriminate].
    destruct (step_await (mk_aenv v parent s) (aw s) m ch) as [[a' effs]|]; [|discriminate].
    destruct (msg_guns m) as [[gc gl] gu]. injection H as <-.
    unfold launched. rewrite Eph.
    match goal with |- context[apply_effects ?e ?x] => destruct (apply_effects_fields e x) as (Hph & _) end.
    rewrite Hph. cbn [ph]. destruct (toWait a' =? 0); reflexivity.
  - destruct (ph s) eqn:Eph; try discriminate. destruct (sched_fin s); [discriminate|].
    injection H as <-. unfold launched. cbn [set_sched_fin ph]. reflexivity.
  - unfold launched. destruct (ph s) eqn:Eph; try discriminate;
      (destruct (front s); [discriminate|]); (destruct parent; [|discriminate]); injection H as <-; cbn [set_front ph]; rewrite Eph; reflexivity.
  - unfold launched. destruct (ph s) eqn:Eph; try discriminate.
    destruct (front s); [discriminate|]. injection H as <-. cbn [set_front ph]. rewrite Eph. reflexivity.
Qed.

(* ---------------------------------------------------------------------------------------- *)
(* onWaitDone / Engine.Wait versus what is still outstanding *)

(* per pool, in every state that satisfies the pool invariant: onWaitDone has been called
   iff the pool is past its start and nothing it launched is outstanding any more *)
Lemma PI_wait_done_outstanding : forall n parent s,
  PI n parent s -> wait_done s = 1 -> outstanding n s = 0.
Proof.
  intros n parent s HP Hw. unfold outstanding, launched.
  destruct (ph s) eqn:Eph; try reflexivity.
  - destruct (pi_await _ _ _ HP Eph) as [_ H0]. lia.
  - destruct (pi_done _ _ _ HP Eph) as [Ht _].
    assert (Haw : awaiting s) by (right; exact Eph).
    destruct (pi_ai _ _ _ HP Haw) as [A1 A2 A3 A4 A5]. rewrite Ht in A1.
    destruct (prov_pending (aw s)), (aggr_pending (aw s)), (start_pending (aw s)), (run_open (aw s)) eqn:Eo;
      cbn in A1; try lia.
    destruct (A4 eq_refl) as [_ Ha]. cbn. lia.
Qed.

Lemma PI_outstanding_wait_done : forall n parent s,
  PI n parent s -> launched s = true -> outstanding n s = 0 -> wait_done s = 1.
Proof.
  intros n parent s HP Hl Ho. unfold outstanding in Ho. rewrite Hl in Ho. unfold launched in Hl.
  destruct (ph s) eqn:Eph; try discriminate.
  - exfalso. destruct (pi_await _ _ _ HP Eph) as [Hpos _].
    assert (Haw : awaiting s) by (left; exact Eph).
    destruct (pi_ai _ _ _ HP Haw) as [A1 A2 A3 A4 A5].
    destruct (prov_pending (aw s)), (aggr_pending (aw s)), (start_pending (aw s)) eqn:Es, (run_open (aw s)) eqn:Eo;
      cbn in Ho, A1; try lia.
    all: try (specialize (A5 eq_refl eq_refl); lia).
  - apply (pi_done _ _ _ HP Eph).
Qed.

Lemma total_outstanding_zero : forall cfg ps,
  (forall p s n, nth_error ps p = Some s -> nth_error cfg p = Some n -> outstanding n s = 0) ->
  total_outstanding cfg ps = 0.
Proof.
  induction cfg as [|n cr IH]; intros ps H; [reflexivity|].
  destruct ps as [|s pr]; [reflexivity|]. cbn [total_outstanding].
  rewrite (H 0 s n eq_refl eq_refl). cbn. apply IH. intros p s0 n0 Hp Hn. apply (H (S p) s0 n0); assumption.
Qed.

(* a pool that has released the WaitGroup has nothing outstanding -- at ANY moment of the run,
   not only at the end *)
Lemma wait_done_means_stopped : forall cfg g p s n,
  reachable cfg g -> nth_error (pools g) p = Some s -> nth_error cfg p = Some n ->
  wait_done s = 1 -> outstanding n s = 0.
Proof.
  intros cfg g p s n HR Hp Hn Hw. pose proof (reachable_GI _ _ HR) as HG.
  eapply PI_wait_done_outstanding; [eapply gi_pools; eauto|exact Hw].
Qed.

(* conversely the WaitGroup is released as soon as the last outstanding result has been received *)
Lemma stopped_means_wait_done : forall cfg g p s n,
  reachable cfg g -> nth_error (pools g) p = Some s -> nth_error cfg p = Some n ->
  launched s = true -> outstanding n s = 0 -> wait_done s = 1.
Proof.
  intros cfg g p s n HR Hp Hn Hl Ho. pose proof (reachable_GI _ _ HR) as HG.
  eapply PI_outstanding_wait_done; [eapply gi_pools; eauto|exact Hl|exact Ho].
Qed.

(* whenever Engine.Wait() can return, nothing any pool launched is outstanding *)
Lemma wait_returns_means_stopped : forall cfg g,
  reachable cfg g -> wait_returns g = true -> total_outstanding cfg (pools g) = 0.
Proof.
  intros cfg g HR Hw. apply total_outstanding_zero. intros p s n Hp Hn.
  eapply wait_done_means_stopped; eauto.
  unfold wait_returns in Hw. rewrite forallb_forall in Hw.
  specialize (Hw s (nth_error_In _ _ Hp)). apply Nat.eqb_eq in Hw. exact Hw.
Qed.

Lemma outstanding_at_wait_run : forall cfg tr g k,
  reachable cfg g -> outstanding_at_wait fixed cfg g tr = Some k -> k = 0.
Proof.
  intros cfg tr. induction tr as [|e r IH]; intros g k HR H; cbn [outstanding_at_wait] in H.
  - destruct (wait_returns g) eqn:Ew; [|discriminate]. injection H as <-.
    apply wait_returns_means_stopped; assumption.
  - destruct (wait_returns g) eqn:Ew.
    + injection H as <-. apply wait_returns_means_stopped; assumption.
    + destruct (gstep fixed cfg g e) as [g1|] eqn:E; [|discriminate].
      eapply IH; [|exact H]. destruct HR as [tr0 H0]. exists (tr0 ++ [e]).
      clear -H0 E. revert H0. generalize (ginit cfg). induction tr0 as [|x t IHt]; intros g0 H0; cbn in *.
      * injection H0 as ->. rewrite E. reflexivity.
      * destruct (gstep fixed cfg g0 x); [|discriminate]. apply IHt. exact H0.
Qed.

(* along every history: at the first moment Engine.Wait() can return, nothing is outstanding *)
Lemma outstanding_at_wait_zero : forall cfg tr k,
  outstanding_at_wait fixed cfg (ginit cfg) tr = Some k -> k = 0.
Proof. intros cfg tr k H. eapply outstanding_at_wait_run; [exists []; reflexivity|exact H]. Qed.

(* number of Provider.Run / Aggregator.Run calls: two per pool that got past runAsync *)
Lemma comp_runs_spec : forall s, comp_runs s = if launched s then 2 else 0.
Proof. reflexivity. Qed.

(* what the property excludes, on a runAsync that launches before it builds the schedule:
   the pool would release the WaitGroup with two goroutines running *)
Definition launch_first_prog : list ra_stmt := [RaGo PrProv; RaGo PrAggr; RaBuildSchedule; RaGo PrStart].

Lemma launch_first_leaves_running :
  ra_exec launch_first_prog false [] = ([PrAggr; PrProv], false) /\
  launches launch_first_prog = launches run_async_prog.
Proof. split; reflexivity. Qed.
