(* The round-7 decoder of Model/RegistryDecode.v (config = the three scalars a, b, c; settings = the
   values under a, b, c and a number of other keys) is the general decoder of
   Model/RegistryOverlay.v on the struct {a; b; c} of number fields: same result, same failures.
   So the registry-level theorems stated with hook_oracle (C18_settings_rejected,
   C18_settings_new_config, ...) are statements about an instance of dec_cfg. *)
From Coq Require Import List Arith Bool NArith Lia.
From PV Require Import Model.Registry Model.RegistrySection Model.RegistryDecode Model.RegistryOverlay.
From PV Require Import Proofs.RegistryOverlayProofs.
Import ListNotations.

Definition embed_cfg (v : cfgv) : cfg := [(0%N, FNum (va v)); (1%N, FNum (vb v)); (2%N, FNum (vc v))].
Definition opt_entry (k : N) (x : option N) : sect := match x with Some n => [(k, UNum n)] | None => [] end.
(* the other keys: names 3, 4, ... (their values are never looked at) *)
Definition others_from (s n : nat) : sect := map (fun i => (N.of_nat (3 + i), UNum 1%N)) (seq s n).
Definition embed_set (u : settings) : sect :=
  opt_entry 0 (set_a u) ++ opt_entry 1 (set_b u) ++ opt_entry 2 (set_c u) ++ others_from 0 (set_other u).

Lemma alookup_others k n : (k < 3)%N -> forall s, alookup k (others_from s n) = None.
Proof.
  intros H. unfold others_from. induction n as [|n IH]; intros s; cbn [seq map alookup]; [reflexivity|].
  destruct (N.eqb_spec k (N.of_nat (3 + s))); [lia|]. apply IH.
Qed.

Lemma unused_app {A B} (f : list (key * A)) (a b : list (key * B)) :
  unused_keys f (a ++ b) = unused_keys f a + unused_keys f b.
Proof. unfold unused_keys. rewrite filter_app, app_length. reflexivity. Qed.

Lemma unused_others v n : forall s, unused_keys (embed_cfg v) (others_from s n) = n.
Proof.
  unfold others_from, unused_keys. induction n as [|n IH]; intros s; cbn [seq map filter]; [reflexivity|].
  unfold has_key at 1. cbn [existsb embed_cfg fst].
  destruct (N.eqb_spec (N.of_nat (3 + s)) 0); [lia|].
  destruct (N.eqb_spec (N.of_nat (3 + s)) 1); [lia|].
  destruct (N.eqb_spec (N.of_nat (3 + s)) 2); [lia|].
  cbn [orb negb length]. rewrite IH. reflexivity.
Qed.

Theorem decode_map_is_instance u seen :
  dec_cfg (embed_cfg seen) (embed_set u) =
    if Nat.eqb (snd (decode_map FldABC u seen)) 0
    then Some (embed_cfg (fst (decode_map FldABC u seen))) else None.
Proof.
  destruct u as [a b c n]. destruct seen as [sa sb sc].
  unfold dec_cfg, embed_set. cbn [set_a set_b set_c set_other].
  rewrite !unused_app, unused_others.
  assert (L0 := alookup_others 0 n eq_refl 0). assert (L1 := alookup_others 1 n eq_refl 0).
  assert (L2 := alookup_others 2 n eq_refl 0).
  destruct a as [a|], b as [b|], c as [c|]; cbn; rewrite ?L0, ?L1, ?L2; cbn; destruct n; reflexivity.
Qed.
