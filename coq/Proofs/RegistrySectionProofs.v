(* Property C18, config sections and lookup (Model/RegistrySection.v). *)
From Coq Require Import List Arith Bool NArith Lia.
From PV Require Import Model.Registry Model.RegistrySection Proofs.RegistryFacts Proofs.RegistryProofs.
Import ListNotations.

Lemma filter_present_all l : forallb tk_present (filter tk_present l) = true.
Proof. induction l as [|a l IH]; cbn; auto. destruct (tk_present a) eqn:E; cbn; auto. now rewrite E. Qed.

Lemma exists_name_filter l :
  existsb (fun k => match k with TkName true => true | _ => false end) l =
  existsb (fun k => match k with TkName true => true | _ => false end) (filter tk_present l).
Proof. induction l as [|a l IH]; cbn; auto. destruct a as [|[|]|]; cbn; auto. Qed.

(* a creation through a config section succeeds in reaching the registry exactly for the sections
   the specification accepts - every other section is an error result - and then it IS Registry.New *)
Theorem section_creation sh hf o s sec :
  (section_ok_b sec = true -> create_by_section sh hf o s sec = inr (reg_new sh hf o s)) /\
  (section_ok_b sec = false -> exists e, create_by_section sh hf o s sec = inl e).
Proof.
  unfold section_ok_b, create_by_section, parse_section.
  destruct sec as [f tys bk]. cbn [sc_form sc_types sc_badkey].
  rewrite exists_name_filter.
  pose proof (filter_present_all tys) as Hall.
  destruct f; cbn [is_untyped andb negb].
  - (* map[string] *)
    destruct (filter tk_present tys) as [|k [|k2 r]] eqn:E; cbn.
    + split; [discriminate|eauto].
    + destruct k as [|[|]|]; cbn; split; try discriminate; eauto.
    + split; [discriminate|]. intros _.
      destruct (tk_nonstring k || (tk_nonstring k2 || existsb tk_nonstring r)); eauto.
      destruct k as [|rg|]; eauto.
  - (* untyped map *)
    destruct bk; cbn [negb andb].
    + split; [discriminate|eauto].
    + destruct (filter tk_present tys) as [|k [|k2 r]] eqn:E; cbn.
      * split; [discriminate|eauto].
      * destruct k as [|[|]|]; cbn; split; try discriminate; eauto.
      * split; [discriminate|]. intros _.
        destruct (tk_nonstring k || (tk_nonstring k2 || existsb tk_nonstring r)); eauto.
        destruct k as [|rg|]; eauto.
  - split; [discriminate|eauto].
Qed.

(* the product of an accepted section is configured as C18_new_config says *)
Theorem section_product_config sh hf o s sec s1 ev p :
  create_by_section sh hf o s sec = inr (s1, ev, OOk p) -> p_arg p = expected_arg sh hf o s.
Proof.
  unfold create_by_section. destruct (parse_section sec) as [e|[|]]; try discriminate.
  intros H. injection H as H. eapply new_product_arg; eauto.
Qed.

Lemma find_registered content t n :
  types_unique content = true ->
  registered_b content t n = match find (fun e => Nat.eqb (fst e) t) content with
                             | Some e => existsb (Nat.eqb n) (snd e) | None => false end.
Proof.
  induction content as [|e r IH]; cbn; auto. intros H. apply andb_true_iff in H. destruct H as [H1 H2].
  destruct (Nat.eqb (fst e) t) eqn:E; cbn.
  - apply Nat.eqb_eq in E. destruct (existsb (Nat.eqb n) (snd e)); cbn; auto.
    unfold registered_b. apply negb_true_iff in H1.
    destruct (existsb (fun e0 => Nat.eqb (fst e0) t && existsb (Nat.eqb n) (snd e0)) r) eqn:X; auto.
    apply existsb_exists in X. destruct X as [e' [Hin He']]. apply andb_true_iff in He'. destruct He' as [He' _].
    assert (existsb (fun e'0 => Nat.eqb (fst e'0) (fst e)) r = true).
    { apply existsb_exists. exists e'. split; auto. now rewrite E. }
    congruence.
  - apply IH; auto.
Qed.

(* Registry.New / NewFactory by (plugin type, name): an error result, with nothing of the user's
   code run, exactly when that name is not registered for that type; otherwise Registry.New *)
Theorem lookup_creation content t n sh hf o s :
  types_unique content = true ->
  (registered_b content t n = true -> new_by_name content t n sh hf o s = inr (reg_new sh hf o s)) /\
  (registered_b content t n = false -> exists e, new_by_name content t n sh hf o s = inl e).
Proof.
  intros Hu. rewrite (find_registered content t n Hu). unfold new_by_name, reg_get.
  destruct (find (fun e => Nat.eqb (fst e) t) content) as [e|].
  - destruct (existsb (Nat.eqb n) (snd e)); split; try discriminate; eauto.
  - split; [discriminate|eauto].
Qed.

(* ---------- requested forms ---------- *)
Theorem factory_type_forms t :
  is_factory_type t = match factory_form t with Some _ => true | None => false end /\
  factory_plugin_type t = option_map fst (factory_form t).
Proof.
  unfold factory_plugin_type.
  destruct t as [[|] [|n] [|p [|q [|r l]]]]; cbn; try (split; reflexivity);
    destruct p; cbn; try (split; reflexivity); destruct q; cbn; split; reflexivity.
Qed.

(* NewFactory by requested type reaches the registered constructor exactly for a factory form of
   a registered (plugin type, name): with the error-result flag of that form; a type that is no
   factory form is refused by a panic (expectation), a form of something unregistered is the
   error result *)
Theorem new_factory_request_spec content t n :
  types_unique content = true ->
  new_factory_request content t n =
    match factory_form t with
    | None => FqPanic
    | Some (TyIface p, we) => if registered_b content p n then FqReaches p we else FqLookupErr
    | Some (_, _) => FqLookupErr
    end.
Proof.
  intros U. unfold new_factory_request.
  destruct (factory_type_forms t) as [F _]. rewrite F.
  destruct t as [[|] [|m] [|p [|q [|r l]]]]; cbn; try reflexivity.
  - destruct p as [pt| |]; cbn; try reflexivity.
    rewrite (find_registered content pt n U). unfold reg_get.
    destruct (find (fun e => Nat.eqb (fst e) pt) content) as [e|]; [destruct (existsb (Nat.eqb n) (snd e))|]; reflexivity.
  - destruct p as [pt| |]; destruct q; cbn; try reflexivity.
    rewrite (find_registered content pt n U). unfold reg_get.
    destruct (find (fun e => Nat.eqb (fst e) pt) content) as [e|]; [destruct (existsb (Nat.eqb n) (snd e))|]; reflexivity.
  - destruct q; reflexivity.
Qed.
