(* Proofs for property C01: the schedule formulas of const.go / line.go realise the integral
   of the configured rate. *)
From Coq Require Import ZArith QArith Qround Lia Psatz Qfield List Bool.
From PV Require Import Model.Sched Proofs.SchedArith Proofs.SchedQ.
Import ListNotations.
Local Open Scope Z_scope.

Lemma ns_pos : 0 < ns_per_s. Proof. unfold ns_per_s; lia. Qed.

Lemma Qdiv_z_nonneg a b : 0 <= a -> 0 < b -> (0 <= qz a / qz b)%Q.
Proof.
  intros Ha Hb. destruct b as [|b|b]; try lia. unfold qz.
  rewrite <- (Qmake_Qdiv a b). unfold Qle; cbn. lia.
Qed.

Lemma clamp0_nonneg ops : (0 <= ops)%Q -> clamp0 ops = ops.
Proof. unfold clamp0. intros H. apply Qle_bool_iff in H. rewrite H. reflexivity. Qed.

(* ---------------- const ---------------- *)

Lemma cum_const_nonneg ops x : (0 <= ops)%Q -> 0 <= x -> (0 <= cum_const ops x)%Q.
Proof.
  intros Ho Hx. rewrite cum_const_frac. apply Qdiv_z_nonneg.
  - destruct ops as [a b]; unfold Qle in Ho; cbn in *. nia.
  - pose proof ns_pos. lia.
Qed.

Lemma const_n_cum ops D : (ops * secs D == cum_const ops D)%Q.
Proof. unfold secs, cum_const. field. apply qz_nonzero. pose proof ns_pos; lia. Qed.

Lemma const_n_spec ops D : (0 <= ops)%Q -> 0 <= D -> const_n ops D = Qfloor (cum_const ops D).
Proof.
  intros Ho HD. unfold const_n. rewrite Qtrunc_floor.
  - apply Qfloor_comp. apply const_n_cum.
  - rewrite const_n_cum. apply cum_const_nonneg; assumption.
Qed.

Lemma const_n_z a b D : 0 <= a -> 0 <= D -> const_n (a # b) D = (a * D) / (Zpos b * ns_per_s).
Proof.
  intros Ha HD. rewrite const_n_spec; [|unfold Qle; cbn; lia|lia].
  rewrite (Qfloor_comp _ _ (cum_const_frac (a # b) D)). cbn [Qnum Qden].
  apply Qfloor_div_z. pose proof ns_pos; lia.
Qed.

Lemma const_at_z a b k : 0 < a -> 0 <= k -> const_at (a # b) k = (k * ns_per_s * Zpos b) / a.
Proof.
  intros Ha Hk. unfold const_at.
  assert (E : (qz k * (qz ns_per_s / (a # b)) == qz (k * ns_per_s * Zpos b) / qz a)%Q).
  { rewrite (Qmake_Qdiv a b). qz_push. field. split; apply qz_nonzero; lia. }
  assert (Hnn : (0 <= qz (k * ns_per_s * Zpos b) / qz a)%Q) by (apply Qdiv_z_nonneg; [pose proof ns_pos; nia|lia]).
  assert (Hnn' : (0 <= qz k * (qz ns_per_s / (a # b)))%Q) by (rewrite E; exact Hnn).
  rewrite (Qtrunc_comp_nonneg _ _ Hnn' E).
  rewrite Qtrunc_floor by exact Hnn. apply Qfloor_div_z; lia.
Qed.

Lemma const_core ops D k :
  (0 <= ops)%Q -> 0 < D -> 0 <= k < const_n ops D ->
  let x := const_at ops k in
  0 <= x /\ x + 1 <= D /\ (cum_const ops x <= qz k)%Q /\ (qz k < cum_const ops (x + 1))%Q.
Proof.
  intros Ho HD Hk x. destruct ops as [a b].
  assert (Ha : 0 <= a) by (unfold Qle in Ho; cbn in Ho; lia).
  pose proof ns_pos as Hns.
  rewrite const_n_z in Hk by lia.
  destruct (Z.eq_dec a 0) as [->|Hne].
  { rewrite Z.mul_0_l, Z.div_0_l in Hk by lia. lia. }
  assert (Ha' : 0 < a) by lia.
  subst x. rewrite const_at_z by lia.
  set (q := (k * ns_per_s * Zpos b) / a).
  assert (Hq1 : a * q <= k * ns_per_s * Zpos b) by (apply Z.mul_div_le; lia).
  assert (Hq2 : k * ns_per_s * Zpos b < a * (q + 1)).
  { replace (q + 1) with (Z.succ q) by lia. apply Z.mul_succ_div_gt; lia. }
  assert (Hq0 : 0 <= q) by (apply Z.div_pos; nia).
  assert (Hn : (k + 1) * (Zpos b * ns_per_s) <= a * D).
  { assert ((k + 1) <= (a * D) / (Zpos b * ns_per_s)) by lia.
    pose proof (Z.mul_div_le (a * D) (Zpos b * ns_per_s)). nia. }
  split; [exact Hq0|]. split; [nia|].
  rewrite !cum_const_frac. cbn [Qnum Qden].
  split; [apply Qdiv_z_le; nia|apply Qdiv_z_lt; nia].
Qed.

(* ---------------- line ---------------- *)

Lemma Qeq_rn f t : (f == t)%Q <-> rn_from f t = rn_to f t.
Proof. unfold Qeq, rn_from, rn_to. reflexivity. Qed.

Lemma rn_nonneg f t : (0 <= f)%Q -> (0 <= t)%Q -> 0 <= rn_from f t /\ 0 <= rn_to f t.
Proof. destruct f as [a b], t as [c d]. unfold Qle, rn_from, rn_to; cbn. nia. Qed.

Lemma cum_line_flat f t D x : (f == t)%Q -> (cum_line f t D x == cum_const f x)%Q.
Proof.
  intros E. unfold cum_line, cum_const. rewrite <- E.
  setoid_replace (f - f)%Q with 0%Q by ring. unfold Qdiv. ring.
Qed.

Lemma line_n_cum f t D : 0 < D ->
  (line_a f t D * secs D * secs D / (2 # 1) + f * secs D == cum_line f t D D)%Q.
Proof.
  intros HD. unfold line_a, secs, cum_line. qz_push. change (inject_Z 2) with (2 # 1).
  field. split; apply qz_nonzero; pose proof ns_pos; lia.
Qed.

Lemma Npoly_at_D f t D : Npoly (t - f) f D D = (t + f) * D * D.
Proof. unfold Npoly. ring. Qed.

Lemma line_n_z f t D : (0 <= f)%Q -> (0 <= t)%Q -> 0 < D ->
  line_n f t D = (Npoly (rn_to f t - rn_from f t) (rn_from f t) D D) / line_scale f t D /\
  line_n f t D = Qfloor (cum_line f t D D).
Proof.
  intros Hf Ht HD. destruct (rn_nonneg f t Hf Ht) as [Hfn Htn].
  pose proof (line_scale_pos f t D HD) as Hsc.
  assert (Hnn : 0 <= Npoly (rn_to f t - rn_from f t) (rn_from f t) D D) by (rewrite Npoly_at_D; nia).
  assert (E : line_n f t D = Qfloor (cum_line f t D D)).
  { unfold line_n. rewrite Qtrunc_floor.
    - apply Qfloor_comp. apply line_n_cum. exact HD.
    - rewrite line_n_cum by exact HD. rewrite cum_line_frac by exact HD. apply Qdiv_z_nonneg; lia. }
  split; [|exact E]. rewrite E.
  rewrite (Qfloor_comp _ _ (cum_line_frac f t D D HD)). apply Qfloor_div_z. exact Hsc.
Qed.

Lemma line_core f t D k :
  (0 <= f)%Q -> (0 <= t)%Q -> ~ (f == t)%Q -> 0 < D -> 0 <= k < line_n f t D ->
  exists x, line_at f t D k = Some x /\
  0 <= x /\ x + 1 <= D /\ (cum_line f t D x <= qz k)%Q /\ (qz k < cum_line f t D (x + 1))%Q /\
  0 <= line_radicand f t D k.
Proof.
  intros Hf Ht Hne HD Hk.
  destruct (rn_nonneg f t Hf Ht) as [Hfn Htn].
  rewrite Qeq_rn in Hne.
  pose proof (line_scale_pos f t D HD) as Hsc.
  destruct (line_n_z f t D Hf Ht HD) as [Hn _]. rewrite Hn in Hk. clear Hn.
  unfold line_at, line_radicand, line_at_z, line_radicand_z. change (line_scale_z (rn_den f t) D) with (line_scale f t D).
  set (fn := rn_from f t) in *. set (tn := rn_to f t) in *. set (sc := line_scale f t D) in *.
  set (K := k * sc).
  assert (HK0 : 0 <= K) by (unfold K; nia).
  (* K + sc <= N(D) *)
  assert (HKD : K + sc <= Npoly (tn - fn) fn D D).
  { assert (k + 1 <= Npoly (tn - fn) fn D D / sc) by lia.
    pose proof (Z.mul_div_le (Npoly (tn - fn) fn D D) sc Hsc). unfold K. nia. }
  assert (Hbr : forall x, 0 <= x -> Npoly (tn - fn) fn D x <= K -> (cum_line f t D x <= qz k)%Q).
  { intros x _ H. rewrite cum_line_frac by exact HD. apply Qdiv_z_le; [exact Hsc|]. exact H. }
  assert (Hbr2 : forall x, K < Npoly (tn - fn) fn D x -> (qz k < cum_line f t D x)%Q).
  { intros x H. rewrite cum_line_frac by exact HD. apply Qdiv_z_lt; [exact Hsc|]. exact H. }
  destruct (Z.ltb_spec fn tn) as [Hlt|Hge].
  - (* increasing *)
    assert (HR : 0 <= fn * fn * D * D + (tn - fn) * K) by nia.
    destruct (Z.ltb_spec (fn * fn * D * D + (tn - fn) * K) 0) as [Hneg|_]; [lia|].
    destruct (inc_bracket (tn - fn) fn D K) as (Hq0 & Hq1 & Hq2); try lia.
    set (q := (Z.sqrt (fn * fn * D * D + (tn - fn) * K) - fn * D) / (tn - fn)) in *.
    exists q. split; [reflexivity|]. split; [exact Hq0|].
    assert (HqD : q + 1 <= D).
    { destruct (Z_lt_le_dec q D) as [|Hc]; [lia|].
      pose proof (Npoly_mono_inc (tn - fn) fn D D q). lia. }
    split; [exact HqD|]. split; [apply Hbr; assumption|]. split; [apply Hbr2; exact Hq2|exact HR].
  - (* decreasing *)
    assert (Hgt : tn < fn) by lia.
    assert (HR : 0 <= fn * fn * D * D - (fn - tn) * K).
    { rewrite Npoly_at_D in HKD. nia. }
    replace (fn * fn * D * D + (tn - fn) * K) with (fn * fn * D * D - (fn - tn) * K) by ring.
    destruct (Z.ltb_spec (fn * fn * D * D - (fn - tn) * K) 0) as [Hneg|_]; [lia|].
    destruct (dec_bracket (fn - tn) fn D K) as (Hq0 & Hqv & Hq1 & Hq2); try lia.
    set (q := (fn * D - csqrt (fn * fn * D * D - (fn - tn) * K)) / (fn - tn)) in *.
    replace (- (fn - tn)) with (tn - fn) in * by ring.
    exists q. split; [reflexivity|]. split; [exact Hq0|].
    assert (HqD : q + 1 <= D).
    { destruct (Z_lt_le_dec q D) as [|Hc]; [lia|].
      pose proof (Npoly_mono_dec (fn - tn) fn D D q).
      replace (- (fn - tn)) with (tn - fn) in * by ring. lia. }
    split; [exact HqD|]. split; [apply Hbr; assumption|]. split; [|exact HR].
    apply Hbr2. apply Hq2. nia.
Qed.

(* ---------------- profile level (const and line) ---------------- *)

Lemma line_cases f t D :
  ((f == t)%Q /\ leaf_line f t D = leaf_const f D) \/
  (~ (f == t)%Q /\ leaf_line f t D = {| l_n := line_n f t D; l_dur := D; l_at := line_at f t D |}).
Proof.
  unfold leaf_line. destruct (Qeq_bool f t) eqn:E.
  - left. split; [apply Qeq_bool_eq; exact E|reflexivity].
  - right. split; [apply Qeq_bool_neq; exact E|reflexivity].
Qed.

Lemma min_dur_pos D : min_dur <= D -> 0 < D.
Proof. unfold min_dur. lia. Qed.

Lemma dur_rate p : is_rate p = true ->
  dur p = match p with PConst _ D | PLine _ _ D => D | _ => 0 end.
Proof.
  destruct p as [ops D|f t D|f t st D|n]; cbn [is_rate]; intros H; try discriminate; unfold dur, the_leaf.
  - reflexivity.
  - destruct (line_cases f t D) as [[_ ->]|[_ ->]]; reflexivity.
Qed.

Theorem count_spec p : valid p -> is_rate p = true -> count p = Qfloor (cum p (dur p)).
Proof.
  intros Hv Hr. rewrite (dur_rate p Hr).
  destruct p as [ops D|f t D|f t st D|n]; cbn [is_rate] in Hr; try discriminate; cbn [valid] in Hv; unfold count, the_leaf, cum.
  - destruct Hv as [Ho HD]. apply min_dur_pos in HD. cbn [leaf_const l_n]. rewrite clamp0_nonneg by exact Ho.
    apply const_n_spec; [exact Ho|lia].
  - destruct Hv as (Hf & Ht & HD). apply min_dur_pos in HD.
    destruct (line_cases f t D) as [[E ->]|[E ->]]; cbn [leaf_const l_n].
    + rewrite clamp0_nonneg by exact Hf. rewrite (Qfloor_comp _ _ (cum_line_flat f t D D E)).
      apply const_n_spec; [exact Hf|lia].
    + apply line_n_z; assumption.
Qed.

Theorem at_bracket p k : valid p -> is_rate p = true -> 0 <= k < count p ->
  exists x, at_ p k = Some x /\ 0 <= x /\ x + 1 <= dur p /\
            (cum p x <= qz k)%Q /\ (qz k < cum p (x + 1))%Q.
Proof.
  intros Hv Hr. rewrite (dur_rate p Hr).
  destruct p as [ops D|f t D|f t st D|n]; cbn [is_rate] in Hr; try discriminate; cbn [valid] in Hv; unfold count, at_, the_leaf, cum.
  - destruct Hv as [Ho HD]. apply min_dur_pos in HD. cbn [leaf_const l_n l_at]. rewrite clamp0_nonneg by exact Ho.
    intros Hk. exists (const_at ops k). split; [reflexivity|]. apply const_core; assumption.
  - destruct Hv as (Hf & Ht & HD). apply min_dur_pos in HD.
    destruct (line_cases f t D) as [[E ->]|[E ->]]; cbn [leaf_const l_n l_at].
    + rewrite clamp0_nonneg by exact Hf. intros Hk. exists (const_at f k). split; [reflexivity|].
      rewrite !(cum_line_flat f t D _ E). apply const_core; assumption.
    + intros Hk. destruct (line_core f t D k Hf Ht E HD Hk) as (x & H1 & H2 & H3 & H4 & H5 & _).
      exists x. auto.
Qed.

(* a decreasing line never takes the square root of a negative number *)
Theorem line_radicand_nonneg f t D k :
  (0 <= f)%Q -> (0 <= t)%Q -> min_dur <= D -> ~ (f == t)%Q -> 0 <= k < line_n f t D ->
  0 <= line_radicand f t D k.
Proof.
  intros Hf Ht HD E Hk. apply min_dur_pos in HD.
  destruct (line_core f t D k Hf Ht E HD Hk) as (x & _ & _ & _ & _ & _ & H). exact H.
Qed.

Lemma const_pos_of_count a b D : 0 <= a -> 0 < D -> 0 < const_n (a # b) D -> 0 < a.
Proof.
  intros Ha HD Hn. rewrite const_n_z in Hn by lia.
  destruct (Z.eq_dec a 0) as [->|]; [|lia]. rewrite Z.mul_0_l, Z.div_0_l in Hn; [lia|]. pose proof ns_pos; lia.
Qed.

Lemma cum_const_mono ops x y : (0 <= ops)%Q -> x <= y -> (cum_const ops x <= cum_const ops y)%Q.
Proof.
  intros Ho Hxy. rewrite !cum_const_frac. destruct ops as [a b]. cbn [Qnum Qden].
  unfold Qle in Ho; cbn in Ho. pose proof ns_pos.
  apply Qdiv_z_le2; try lia.
  apply Z.mul_le_mono_nonneg_r; [lia|]. apply Z.mul_le_mono_nonneg_l; lia.
Qed.

Lemma cum_const_strict a b x y : 0 < a -> x < y -> (cum_const (a # b) x < cum_const (a # b) y)%Q.
Proof.
  intros Ha Hxy. rewrite !cum_const_frac. cbn [Qnum Qden]. pose proof ns_pos.
  apply Qdiv_z_lt2; try lia.
  apply Z.mul_lt_mono_pos_r; [lia|]. apply Z.mul_lt_mono_pos_l; lia.
Qed.

Lemma cum_line_strict f t D x y :
  (0 <= f)%Q -> (0 <= t)%Q -> ~ (f == t)%Q -> 0 < D -> 0 <= x -> x < y -> y <= D ->
  (cum_line f t D x < cum_line f t D y)%Q.
Proof.
  intros Hf Ht E HD Hx Hxy HyD. destruct (rn_nonneg f t Hf Ht) as [Hfn Htn]. rewrite Qeq_rn in E.
  pose proof (line_scale_pos f t D HD) as Hsc.
  rewrite !cum_line_frac by exact HD. apply Qdiv_z_lt2; try exact Hsc.
  apply Z.mul_lt_mono_pos_r; [exact Hsc|].
  apply (Npoly_strict _ _ (rn_to f t)); try lia.
Qed.

Theorem cum_mono p x y : valid p -> is_rate p = true -> 0 <= x -> x <= y -> y <= dur p ->
  (cum p x <= cum p y)%Q.
Proof.
  intros Hv Hr. rewrite (dur_rate p Hr).
  destruct p as [ops D|f t D|f t st D|n]; cbn [is_rate] in Hr; try discriminate; cbn [valid] in Hv; unfold cum; intros Hx Hxy HyD.
  - apply cum_const_mono; [tauto|exact Hxy].
  - destruct Hv as (Hf & Ht & HD). apply min_dur_pos in HD.
    destruct (Qeq_dec f t) as [E|E].
    + rewrite !(cum_line_flat f t D _ E). apply cum_const_mono; assumption.
    + destruct (Z.eq_dec x y) as [->|]; [apply Qle_refl|].
      apply Qlt_le_weak. apply cum_line_strict; try assumption. lia.
Qed.

Theorem cum_strict p x y : valid p -> is_rate p = true -> 0 < count p ->
  0 <= x -> x < y -> y <= dur p -> (cum p x < cum p y)%Q.
Proof.
  intros Hv Hr. rewrite (dur_rate p Hr).
  destruct p as [ops D|f t D|f t st D|n]; cbn [is_rate] in Hr; try discriminate; cbn [valid] in Hv; unfold count, the_leaf, cum; intros Hc Hx Hxy HyD.
  - destruct Hv as [Ho HD]. apply min_dur_pos in HD. cbn [leaf_const l_n] in Hc. rewrite clamp0_nonneg in Hc by exact Ho.
    destruct ops as [a b]. apply cum_const_strict; [|exact Hxy].
    apply (const_pos_of_count a b D); [unfold Qle in Ho; cbn in Ho; lia|exact HD|exact Hc].
  - destruct Hv as (Hf & Ht & HD). apply min_dur_pos in HD.
    destruct (line_cases f t D) as [[E HE]|[E HE]]; rewrite HE in Hc; cbn [leaf_const l_n] in Hc.
    + rewrite clamp0_nonneg in Hc by exact Hf. rewrite !(cum_line_flat f t D _ E).
      destruct f as [a b]. apply cum_const_strict; [|exact Hxy].
      apply (const_pos_of_count a b D); [unfold Qle in Hf; cbn in Hf; lia|exact HD|exact Hc].
    + apply cum_line_strict; assumption.
Qed.

(* the bracket determines the instant: it is the only nanosecond of [0, D) with the property *)
Theorem at_unique p k x : valid p -> is_rate p = true -> 0 <= k < count p ->
  0 <= x -> x + 1 <= dur p -> (cum p x <= qz k)%Q -> (qz k < cum p (x + 1))%Q -> at_ p k = Some x.
Proof.
  intros Hv Hr Hk Hx HxD H1 H2.
  destruct (at_bracket p k Hv Hr Hk) as (x' & Ha & Hx' & HxD' & H1' & H2').
  rewrite Ha. f_equal.
  destruct (Z.lt_trichotomy x' x) as [Hlt|[->|Hgt]]; [exfalso|reflexivity|exfalso].
  - assert (cum p (x' + 1) <= cum p x)%Q by (apply cum_mono; try assumption; lia).
    apply (Qlt_irrefl (qz k)). eapply Qlt_le_trans; [exact H2'|]. eapply Qle_trans; eassumption.
  - assert (cum p (x + 1) <= cum p x')%Q by (apply cum_mono; try assumption; lia).
    apply (Qlt_irrefl (qz k)). eapply Qlt_le_trans; [exact H2|]. eapply Qle_trans; eassumption.
Qed.

Theorem at_mono p k k' x x' : valid p -> is_rate p = true ->
  0 <= k -> k <= k' -> k' < count p -> at_ p k = Some x -> at_ p k' = Some x' -> x <= x'.
Proof.
  intros Hv Hr Hk Hkk Hk' Ha Ha'.
  destruct (at_bracket p k Hv Hr) as (y & Hy & Hy0 & HyD & H1 & H2); [lia|].
  destruct (at_bracket p k' Hv Hr) as (y' & Hy' & Hy0' & HyD' & H1' & H2'); [lia|].
  rewrite Ha in Hy; injection Hy as <-. rewrite Ha' in Hy'; injection Hy' as <-.
  destruct (Z_lt_le_dec x' x) as [Hlt|]; [exfalso|assumption].
  assert (cum p (x' + 1) <= cum p x)%Q by (apply cum_mono; try assumption; lia).
  assert (qz k <= qz k')%Q by (unfold qz; rewrite <- Zle_Qle; exact Hkk).
  apply (Qlt_irrefl (qz k')). eapply Qlt_le_trans; [exact H2'|].
  eapply Qle_trans; [eassumption|]. eapply Qle_trans; eassumption.
Qed.

(* do_at.go Next: every call after the n-th reports exactly start + duration, ok = false *)
Theorem finish_spec p i : is_rate p = true -> count p <= i ->
  leaf_next (the_leaf p) i = (Some (dur p), false) /\ leaf_left (the_leaf p) i = 0.
Proof.
  intros Hr Hi. unfold leaf_next, leaf_left, count, dur in *.
  destruct (Z.ltb_spec i (l_n (the_leaf p))); [lia|]. split; [reflexivity|lia].
Qed.

Theorem next_token p i : 0 <= i < count p -> leaf_next (the_leaf p) i = (at_ p i, true).
Proof.
  intros Hi. unfold leaf_next, count, at_ in *. destruct (Z.ltb_spec i (l_n (the_leaf p))); [reflexivity|lia].
Qed.

Theorem at_range p k : valid p -> is_rate p = true -> 0 <= k < count p ->
  exists x, at_ p k = Some x /\ 0 <= x <= dur p.
Proof.
  intros Hv Hr Hk. destruct (at_bracket p k Hv Hr Hk) as (x & Ha & H0 & HD & _). exists x. split; [exact Ha|lia].
Qed.
