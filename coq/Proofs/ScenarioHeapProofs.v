(* Isolation and non-interference over the footprint table of Model/ScenarioHeap.v (C11 b). *)
From Coq Require Import List NArith Bool Arith Lia.
From PV Require Import Model.ScenarioHeap.
Import ListNotations.

Lemma cell_eqb_eq a b : cell_eqb a b = true <-> a = b.
Proof.
  split.
  - destruct a, b; cbn [cell_eqb]; try discriminate; try reflexivity; intros H; apply Nat.eqb_eq in H; subst; reflexivity.
  - intros <-. destruct a; cbn [cell_eqb]; try reflexivity; apply Nat.eqb_refl.
Qed.

Lemma mem_cell_In c l : mem_cell c l = true <-> In c l.
Proof.
  induction l as [|x r IH]; cbn [mem_cell In]; [split; [discriminate|tauto]|].
  rewrite orb_true_iff, IH, cell_eqb_eq. split; intros [H|H]; auto.
Qed.

Lemma cell_eq_dec (a b : cell) : {a = b} + {a <> b}.
Proof. decide equality; apply Nat.eq_dec. Qed.

Ltac split_eqb :=
  repeat match goal with
         | |- context [Nat.eqb ?x ?y] => destruct (Nat.eqb_spec x y); subst; cbn
         end.

(* the table: two operations of different instances never meet on an unsynchronised cell *)
Lemma isolated_all a b : inst_of a <> inst_of b -> isolated_b a b = true.
Proof.
  intros H. destruct a, b; cbn in H |- *; split_eqb; try reflexivity; try congruence.
Qed.

Lemma isolation a b c :
  inst_of a <> inst_of b -> In c (writes a) -> In c (reads b ++ writes b) -> synchronised c = true.
Proof.
  intros H Hw Hr. pose proof (isolated_all a b H) as Hi. unfold isolated_b in Hi.
  rewrite forallb_forall in Hi. specialize (Hi c Hw). apply orb_true_iff in Hi.
  destruct Hi as [Hi|Hi]; [|exact Hi].
  apply mem_cell_In in Hr. rewrite Hr in Hi. discriminate.
Qed.

Lemma flow_ok_all o : flow_ok_b o = true.
Proof. destruct o; cbn; rewrite ?Nat.eqb_refl; reflexivity. Qed.

(* ---------- non-interference ---------- *)

Section NI.
  Variable value : Type.
  Variable sem : op -> store value -> store value.

  (* [sem] respects the footprint table: cells outside [writes] keep their content, and the new
     content of a written cell is a function of the cells listed as its dependencies *)
  Definition respects (o : op) : Prop :=
    (forall s c, ~ In c (writes o) -> sem o s c = s c) /\
    (forall s1 s2 c ds, In (c, ds) (fp o) -> (forall d, In d ds -> s1 d = s2 d) -> sem o s1 c = sem o s2 c).

  (* the two stores agree everywhere except on the private cells of instance A *)
  Definition agree_except (A : nat) (s1 s2 : store value) : Prop :=
    forall c, owner c <> Some A -> s1 c = s2 c.

  Lemma in_writes o c : In c (writes o) -> exists ds, In (c, ds) (fp o).
  Proof.
    unfold writes. intros H. apply in_map_iff in H. destruct H as [[c' ds] [E Hin]]. cbn in E. subst. eauto.
  Qed.

  Lemma step_agree A o s1 s2 :
    respects o -> agree_except A s1 s2 -> agree_except A (sem o s1) (sem o s2).
  Proof.
    intros [Hframe Hdep] Hag c Hc.
    destruct (in_dec cell_eq_dec c (writes o)) as [Hw|Hn].
    - destruct (in_writes o c Hw) as [ds Hin].
      apply (Hdep s1 s2 c ds Hin). intros d Hd. apply Hag.
      pose proof (flow_ok_all o) as F. unfold flow_ok_b in F. rewrite forallb_forall in F.
      specialize (F _ Hin). cbn [fst snd] in F. apply andb_prop in F. destruct F as [F1 F2].
      rewrite forallb_forall in F1. specialize (F1 d Hd).
      destruct (owner d) as [j|] eqn:Od; [|discriminate].
      apply Nat.eqb_eq in F1. subst j. intros E. injection E as E.
      (* d is a private cell of the operation's own instance A: then the written cell c is not shared … *)
      destruct (owner c) as [k|] eqn:Oc.
      + apply Nat.eqb_eq in F2. subst k. congruence.
      + rewrite forallb_forall in F2. specialize (F2 d Hd). rewrite Od in F2. discriminate.
    - rewrite (Hframe s1 c Hn), (Hframe s2 c Hn). apply Hag. exact Hc.
  Qed.

  (* Any sequence of operations of any instances (any interleaving): what ends up outside the
     private cells of instance A does not depend on what was in A's private cells. *)
  Lemma noninterference A ops : (forall o, In o ops -> respects o) ->
    forall s1 s2, agree_except A s1 s2 -> agree_except A (run_ops value sem ops s1) (run_ops value sem ops s2).
  Proof.
    induction ops as [|o r IH]; intros Hr s1 s2 Hag; cbn [run_ops]; [exact Hag|].
    apply IH; [intros o' Ho'; apply Hr; right; exact Ho'|].
    apply step_agree; [apply Hr; left; reflexivity|exact Hag].
  Qed.
End NI.
