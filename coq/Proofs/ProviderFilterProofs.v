(* Property C08 with the chosencases filter (round 8): every provider kind that has the filter
   (the http kinds, streaming and preloaded; grpc/json) under ANY list of chosen tags.

   - grpc/json under a filter ([grpcjson_filter_c08]): [c08_spec] over the chosen entries; the
     invariant is R_g of Proofs/ProviderProofs.v with the count of chosen entries in the part of
     the file that was read in place of the position, and as measure the distance to the end of
     the pass plus, when nothing chosen is left in this pass, one whole pass more;
   - grpc/json, nothing chosen ([grpcjson_nomatch]): one pass, "no ammo in file", sink closed;
   - the http kinds are Proofs/PreloadProofs.v ([deliver_spec], [deliver_nomatch]: the streaming
     path ends through its whole-pass probe `delivered == 0 && fullPassDone()`);
   - [filtered_c08] / [filtered_nomatch]: all of them. *)
From Coq Require Import List Arith Bool Lia PeanoNat.
From PV Require Import Model.Provider Model.Preload Model.ProviderProbe Proofs.ProviderProofs Proofs.PreloadProofs.
Import ListNotations.

Lemma firstn_S_nth {A} (l : list A) p e :
  nth_error l p = Some e -> firstn (S p) l = firstn p l ++ [e].
Proof.
  revert p; induction l as [|x l IH]; intros [|p] H; cbn in H; try discriminate.
  - injection H as ->. reflexivity.
  - cbn [firstn app]. f_equal. apply IH. exact H.
Qed.

Lemma skipn_nth {A} (l : list A) p e :
  nth_error l p = Some e -> skipn p l = e :: skipn (S p) l.
Proof.
  revert p; induction l as [|x l IH]; intros [|p] H; cbn in H; try discriminate.
  - injection H as ->. reflexivity.
  - cbn [skipn]. apply IH. exact H.
Qed.

Section GrpcFilter.
  Variable ch : list nat.
  Variable es : list entry.
  Variables lim pas : nat.
  Let f := chosenb ch.
  Let src := filter f es.
  Let n := length es.
  Let n' := length src.

  (* chosen entries among the first p; is a chosen entry left from position p on *)
  Definition fc (p : nat) : nat := length (filter (chosenb ch) (firstn p es)).
  Definition ex (p : nat) : bool := existsb (chosenb ch) (skipn p es).

  Lemma fc_S p e : nth_error es p = Some e -> fc (S p) = fc p + (if f e then 1 else 0).
  Proof.
    intros H. unfold fc. rewrite (firstn_S_nth _ _ _ H), filter_app, app_length. cbn [filter].
    fold f. destruct (f e); reflexivity.
  Qed.

  Lemma ex_S p e : nth_error es p = Some e -> ex p = f e || ex (S p).
  Proof. intros H. unfold ex. rewrite (skipn_nth _ _ _ H). reflexivity. Qed.

  Lemma fc_le p : fc p <= n'.
  Proof. apply filter_firstn_le. Qed.

  Lemma fc_0 : fc 0 = 0.
  Proof. reflexivity. Qed.

  Lemma fc_n : fc n = n'.
  Proof. unfold fc, n. rewrite firstn_all. reflexivity. Qed.

  Lemma ex_n : ex n = false.
  Proof. unfold ex, n. rewrite skipn_all. reflexivity. Qed.

  Lemma ex_0 : src <> [] -> ex 0 = true.
  Proof.
    intros Hs. unfold ex. cbn [skipn]. destruct src as [|x r] eqn:E; [congruence|].
    assert (Hin : In x (filter f es)) by (fold src; rewrite E; left; reflexivity).
    apply filter_In in Hin. apply existsb_exists. exists x. exact Hin.
  Qed.

  Lemma cyc_chosen q p e :
    0 < n -> nth_error es p = Some e -> f e = true -> e = cyc src (q * n' + fc p).
  Proof.
    intros Hn He Hf.
    assert (Hp : p < n) by (apply nth_error_Some; congruence).
    assert (Ec : cyc es (q * n + p) = e) by (apply (cyc_nth_error es _ q p); [reflexivity|exact He]).
    pose proof (chosen_is_next ch es Hn (q * n + p)) as H.
    rewrite Ec in H. specialize (H Hf). rewrite H. f_equal.
    unfold cnt. unfold n. rewrite filter_cyc_prefix_qr by (fold n; lia).
    rewrite cyc_prefix_length. reflexivity.
  Qed.

  Definition R_gf (a m : nat) (g : gstate) : Prop :=
    g_ammo g = a /\ (lim <> 0 -> a <= lim)
    /\ (g_inner g = false ->
        g_pos g = 0 /\ a = g_pass g * n' /\ (pas <> 0 -> g_pass g < pas) /\ (lim <> 0 -> a < lim) /\ n + 2 <= m)
    /\ (g_inner g = true ->
        1 <= g_pass g /\ g_pos g <= n /\ a = (g_pass g - 1) * n' + fc (g_pos g)
        /\ (pas <> 0 -> g_pass g <= pas)
        /\ (n - g_pos g) + 1 + (if ex (g_pos g) then 0 else n + 2) <= m).

  (* the end of a pass / of the inner loop: [a] items delivered so far, a >= 1 *)
  Lemma g_after_f a gp gs m :
    a <> 0 -> (lim <> 0 -> a <= lim) -> 1 <= gp -> (pas <> 0 -> gp <= pas) ->
    a <= gp * n' -> (a = gp * n' \/ (lim <> 0 /\ lim <= a)) -> n + 3 <= m ->
    match g_after (cfgc lim pas ch) {| g_ammo := a; g_pass := gp; g_pos := gs; g_inner := true |} with
    | Stop o cl => o = Ok /\ cl = true /\ bound lim pas n' = Some a
    | Cont g' => R_gf a (n + 2) g'
    | Emit _ _ => False
    end.
  Proof.
    intros Ha0 Hlim Hp1 Hpas Hle Hor Hm. unfold g_after. cbn [limit passes cfgc g_ammo g_pass].
    destruct (a =? 0) eqn:E0; [b2p; congruence|].
    destruct (nz lim && (lim <=? a)) eqn:E1.
    { split; [reflexivity|]. split; [reflexivity|]. b2p.
      apply bound_some_limit; [lia|specialize (Hlim ltac:(lia)); lia|].
      intros Hp0. specialize (Hpas Hp0). nia. }
    destruct (nz pas && (pas <=? gp)) eqn:E2.
    { split; [reflexivity|]. split; [reflexivity|]. b2p.
      destruct Hor as [Hor|Hor]; [|lia].
      apply bound_some_passes; [lia| |exact Hlim].
      specialize (Hpas ltac:(lia)). assert (gp = pas) by lia. subst gp. exact Hor. }
    unfold R_gf; cbn [g_ammo g_pass g_pos g_inner]. b2p.
    split; [reflexivity|]. split; [exact Hlim|]. split; [|intros; discriminate].
    intros _. destruct Hor as [Hor|Hor]; [|lia].
    repeat split; try lia.
  Qed.

  Hypothesis Hsrc : src <> [].

  Lemma n'_pos : 0 < n'.
  Proof. unfold n'. destruct src; [congruence|cbn; lia]. Qed.

  Lemma n_pos : 0 < n.
  Proof.
    unfold n. destruct es as [|x r] eqn:E; [|cbn; lia].
    exfalso. apply Hsrc. unfold src. reflexivity.
  Qed.

  Lemma grpcjson_filter_c08 :
    c08_spec (grpcjson_run (cfgc lim pas ch) es) src (bound lim pas n') n (2 * n + 4).
  Proof.
    pose proof n'_pos as Hn'. pose proof n_pos as Hn.
    apply (sim_c08 (grpcjson_step (cfgc lim pas ch) es) src (bound lim pas n') (2 * n + 3)
                   R_gf ginit (n + 2) n (2 * n + 4)).
    - (* Cont *)
      intros cc a m [ga gp gs gi] s' HR Hs.
      unfold R_gf in HR; cbn [g_ammo g_pass g_pos g_inner] in HR.
      destruct HR as (Ha & Hlim & Hout & Hin).
      unfold grpcjson_step in Hs; cbn [g_ammo g_pass g_pos g_inner] in Hs.
      destruct gi; cbn [negb] in Hs.
      + destruct (Hin eq_refl) as (Hp1 & Hps & Hq & Hpas & Hm). subst ga.
        pose proof (fc_le gs) as Hfc.
        destruct (nth_error es gs) as [e|] eqn:En.
        * pose proof (nth_error_in _ _ _ En) as Hlt. fold n in Hlt.
          cbn [limit chosen cfgc] in Hs.
          destruct ((lim =? 0) || (a <? lim)) eqn:E1.
          -- fold (chosenb ch e) in Hs. fold f in Hs.
             destruct (f e) eqn:Ef; cbn [negb] in Hs; [destruct cc; discriminate|].
             injection Hs as <-. exists (m - 1). split; [lia|].
             unfold R_gf; cbn [g_ammo g_pass g_pos g_inner].
             split; [reflexivity|]. split; [exact Hlim|]. split; [intros; discriminate|]. intros _.
             rewrite (fc_S _ _ En), Ef, Nat.add_0_r.
             rewrite (ex_S _ _ En), Ef in Hm. cbn [orb] in Hm.
             repeat split; try lia.
          -- exfalso.
             pose proof (g_after_f a gp (S gs) (n + 3)) as G. rewrite Hs in G.
             unfold g_after in Hs. cbn [limit passes cfgc g_ammo g_pass] in Hs.
             b2p. destruct (a =? 0) eqn:E4; [discriminate|].
             destruct (nz lim && (lim <=? a)) eqn:E3; [discriminate|]. b2p. lia.
        * apply nth_error_eof in En; [|exact Hps]. fold n in En. subst gs.
          rewrite fc_n in Hq. rewrite ex_n in Hm.
          pose proof (g_after_f a gp n m) as G. rewrite Hs in G.
          exists (n + 2). split; [lia|]. apply G; try assumption; try nia.
      + destruct (Hout eq_refl) as (Hps & Hq & Hpas & Hal & Hm).
        injection Hs as <-. exists (m - 1). split; [lia|].
        unfold R_gf; cbn [g_ammo g_pass g_pos g_inner].
        split; [exact Ha|]. split; [exact Hlim|]. split; [intros; discriminate|]. intros _.
        subst gs. rewrite fc_0, (ex_0 Hsrc).
        repeat split; try lia.
    - (* Emit *)
      intros a m [ga gp gs gi] e s' HR Hs.
      unfold R_gf in HR; cbn [g_ammo g_pass g_pos g_inner] in HR.
      destruct HR as (Ha & Hlim & Hout & Hin).
      unfold grpcjson_step in Hs; cbn [g_ammo g_pass g_pos g_inner] in Hs.
      destruct gi; cbn [negb] in Hs; [|discriminate].
      destruct (Hin eq_refl) as (Hp1 & Hps & Hq & Hpas & Hm). subst ga.
      destruct (nth_error es gs) as [e0|] eqn:En.
      2:{ unfold g_after in Hs. destruct (g_ammo _ =? 0); [discriminate|].
          destruct (nz _ && _); [discriminate|]. destruct (nz _ && _); discriminate. }
      pose proof (nth_error_in _ _ _ En) as Hlt. fold n in Hlt.
      cbn [limit chosen cfgc] in Hs.
      destruct ((lim =? 0) || (a <? lim)) eqn:E1.
      2:{ unfold g_after in Hs. destruct (g_ammo _ =? 0); [discriminate|].
          destruct (nz _ && _); [discriminate|]. destruct (nz _ && _); discriminate. }
      fold (chosenb ch e0) in Hs. fold f in Hs.
      destruct (f e0) eqn:Ef; cbn [negb] in Hs; [|discriminate].
      injection Hs as <- <-.
      assert (Hal : lim <> 0 -> a < lim) by (intros Hl0; b2p; lia).
      pose proof (fc_S _ _ En) as HfS. rewrite Ef in HfS. pose proof (fc_le (S gs)) as HfL.
      split; [|split].
      + apply below_bound; [exact Hal|]. intros Hp0. specialize (Hpas Hp0). nia.
      + rewrite Hq. apply cyc_chosen; assumption.
      + unfold R_gf; cbn [g_ammo g_pass g_pos g_inner].
        split; [reflexivity|]. split; [intros Hl0; specialize (Hal Hl0); lia|].
        split; [intros; discriminate|]. intros _.
        repeat split; try lia. destruct (ex (S gs)); lia.
    - (* Stop, not cancelled *)
      intros a m [ga gp gs gi] o cl HR Hs.
      unfold R_gf in HR; cbn [g_ammo g_pass g_pos g_inner] in HR.
      destruct HR as (Ha & Hlim & Hout & Hin).
      unfold grpcjson_step in Hs; cbn [g_ammo g_pass g_pos g_inner] in Hs.
      destruct gi; cbn [negb] in Hs; [|discriminate].
      destruct (Hin eq_refl) as (Hp1 & Hps & Hq & Hpas & Hm). subst ga.
      pose proof (fc_le gs) as Hfc.
      destruct (nth_error es gs) as [e0|] eqn:En.
      + cbn [limit chosen cfgc] in Hs.
        destruct ((lim =? 0) || (a <? lim)) eqn:E1.
        { destruct (negb _); discriminate. }
        pose proof (g_after_f a gp (S gs) (n + 3)) as G. rewrite Hs in G.
        assert (Hl : lim <> 0 /\ lim <= a) by (b2p; lia).
        assert (Ha0 : a <> 0) by lia.
        assert (Hle : a <= gp * n') by nia.
        destruct (G Ha0 Hlim Hp1 Hpas Hle (or_intror Hl) (le_n _)) as (-> & -> & HB).
        split; [exact HB|split; reflexivity].
      + apply nth_error_eof in En; [|exact Hps]. fold n in En. subst gs.
        rewrite fc_n in Hq.
        pose proof (g_after_f a gp n (n + 3)) as G. rewrite Hs in G.
        assert (Hl : a = gp * n') by nia.
        assert (Ha0 : a <> 0) by nia.
        assert (Hle : a <= gp * n') by nia.
        destruct (G Ha0 Hlim Hp1 Hpas Hle (or_introl Hl) (le_n _)) as (-> & -> & HB).
        split; [exact HB|split; reflexivity].
    - (* no Emit once cancelled *)
      intros a m [ga gp gs gi] e s' HR Hs.
      unfold grpcjson_step in Hs; cbn [g_ammo g_pass g_pos g_inner] in Hs.
      destruct gi; cbn [negb] in Hs; [|discriminate].
      destruct (nth_error es gs) as [e0|].
      + destruct ((limit _ =? 0) || _).
        * destruct (negb _); discriminate.
        * unfold g_after in Hs. destruct (g_ammo _ =? 0); [discriminate|].
          destruct (nz _ && _); [discriminate|]. destruct (nz _ && _); discriminate.
      + unfold g_after in Hs. destruct (g_ammo _ =? 0); [discriminate|].
        destruct (nz _ && _); [discriminate|]. destruct (nz _ && _); discriminate.
    - (* Stop when cancelled *)
      intros a m [ga gp gs gi] o cl HR Hs.
      unfold R_gf in HR; cbn [g_ammo g_pass g_pos g_inner] in HR.
      destruct HR as (Ha & Hlim & Hout & Hin).
      unfold grpcjson_step in Hs; cbn [g_ammo g_pass g_pos g_inner] in Hs.
      destruct gi; cbn [negb] in Hs; [|discriminate].
      destruct (Hin eq_refl) as (Hp1 & Hps & Hq & Hpas & Hm). subst ga.
      pose proof (fc_le gs) as Hfc.
      destruct (nth_error es gs) as [e0|] eqn:En.
      + cbn [limit chosen cfgc] in Hs.
        destruct ((lim =? 0) || (a <? lim)) eqn:E1.
        { destruct (negb _); [discriminate|]. injection Hs as <- <-. split; [left|]; reflexivity. }
        pose proof (g_after_f a gp (S gs) (n + 3)) as G. rewrite Hs in G.
        assert (Hl : lim <> 0 /\ lim <= a) by (b2p; lia).
        assert (Ha0 : a <> 0) by lia.
        assert (Hle : a <= gp * n') by nia.
        destruct (G Ha0 Hlim Hp1 Hpas Hle (or_intror Hl) (le_n _)) as (-> & -> & HB).
        split; [left|]; reflexivity.
      + apply nth_error_eof in En; [|exact Hps]. fold n in En. subst gs.
        rewrite fc_n in Hq.
        pose proof (g_after_f a gp n (n + 3)) as G. rewrite Hs in G.
        assert (Hl : a = gp * n') by nia.
        assert (Ha0 : a <> 0) by nia.
        assert (Hle : a <= gp * n') by nia.
        destruct (G Ha0 Hlim Hp1 Hpas Hle (or_introl Hl) (le_n _)) as (-> & -> & HB).
        split; [left|]; reflexivity.
    - unfold R_gf, ginit; cbn [g_ammo g_pass g_pos g_inner].
      split; [reflexivity|]. split; [lia|]. split; [|intros; discriminate].
      intros _. repeat split; lia.
    - intros len. nia.
  Qed.
End GrpcFilter.

(* ---------------------------------------------------------------------------------- *)
(* grpc/json, nothing chosen: the first pass delivers nothing -> "no ammo in file" *)

Section GrpcNoMatch.
  Variable ch : list nat.
  Variable es : list entry.
  Variables lim pas : nat.
  Hypothesis Hnone : filter (chosenb ch) es = [].

  Lemma none_chosen p e : nth_error es p = Some e -> is_chosen (e_tag e) ch = false.
  Proof.
    intros H. apply nth_error_In in H.
    destruct (is_chosen (e_tag e) ch) eqn:E; [|reflexivity].
    assert (Hin : In e (filter (chosenb ch) es)) by (apply filter_In; split; [exact H|exact E]).
    rewrite Hnone in Hin. destruct Hin.
  Qed.

  Definition Q_g (m : nat) (g : gstate) : Prop :=
    g_ammo g = 0 /\ g_pos g <= length es
    /\ m = (length es - g_pos g) + (if g_inner g then 0 else 1).

  Lemma grpcjson_nomatch_step cc m g :
    Q_g m g ->
    (exists g', grpcjson_step (cfgc lim pas ch) es cc g = Cont g' /\ Q_g (m - 1) g' /\ 1 <= m)
    \/ grpcjson_step (cfgc lim pas ch) es cc g = Stop (Failed ENoAmmoText) true.
  Proof.
    intros HQ. destruct g as [ga gp gs gi]. unfold Q_g in HQ; cbn [g_ammo g_pass g_pos g_inner] in HQ.
    destruct HQ as (-> & Hps & Hm).
    unfold grpcjson_step; cbn [g_ammo g_pass g_pos g_inner].
    destruct gi; cbn [negb].
    - destruct (nth_error es gs) as [e|] eqn:En.
      + pose proof (nth_error_in _ _ _ En) as Hlt.
        cbn [limit chosen cfgc]. rewrite (none_chosen _ _ En). cbn [negb].
        assert (E1 : (lim =? 0) || (0 <? lim) = true) by (destruct lim; reflexivity).
        rewrite E1. left. eexists. split; [reflexivity|].
        unfold Q_g; cbn [g_ammo g_pass g_pos g_inner]. repeat split; lia.
      + right. reflexivity.
    - left. eexists. split; [reflexivity|].
      unfold Q_g; cbn [g_ammo g_pass g_pos g_inner]. repeat split; lia.
  Qed.

  Lemma grpcjson_nomatch_run cancel fuel sent m g :
    Q_g m g ->
    let x := run_steps (grpcjson_step (cfgc lim pas ch) es) cancel fuel sent g in
    delivered x = [] /\ steps x <= m + 1
    /\ (m < fuel -> out x = Failed ENoAmmoText /\ closed x = true).
  Proof.
    revert m g. induction fuel as [|fu IH]; intros m g HQ; cbn [run_steps].
    - cbn. repeat split; try lia.
    - destruct (grpcjson_nomatch_step (is_cancelled cancel sent) m g HQ) as [(g' & -> & HQ' & Hm)| ->].
      + destruct (IH (m - 1) g' HQ') as (I1 & I2 & I3).
        cbn [bump delivered steps out closed].
        split; [exact I1|]. split; [lia|]. intros Hf. apply I3. lia.
      + cbn. repeat split; lia.
  Qed.

  Lemma grpcjson_nomatch cancel fuel :
    let x := grpcjson_run (cfgc lim pas ch) es cancel fuel in
    delivered x = [] /\ steps x <= length es + 2
    /\ (length es + 1 < fuel -> out x = Failed ENoAmmoText /\ closed x = true).
  Proof.
    unfold grpcjson_run.
    destruct (grpcjson_nomatch_run cancel fuel 0 (length es + 1) ginit) as (A1 & A2 & A3).
    { unfold Q_g, ginit; cbn [g_ammo g_pass g_pos g_inner]. repeat split; lia. }
    cbv zeta. split; [exact A1|]. split; [lia|exact A3].
  Qed.
End GrpcNoMatch.

(* ---------------------------------------------------------------------------------- *)
(* every provider kind that has the filter *)

Definition has_filter (k : pkind) : bool :=
  match k with KHttp _ _ | KGrpcJson => true | _ => false end.

(* the scenario providers and the generic JSON provider have no such option: the list changes nothing *)
Lemma no_filter_ignores_list k lim pas ch es cancel fuel :
  has_filter k = false -> run k (cfgc lim pas ch) es cancel fuel = run k (cfg0 lim pas) es cancel fuel.
Proof. destruct k; cbn [has_filter]; intros H; try discriminate; reflexivity. Qed.

Theorem filtered_c08 k es lim pas ch :
  has_filter k = true -> chosen_entries ch es <> [] ->
  c08_spec (run k (cfgc lim pas ch) es) (chosen_entries ch es)
           (bound lim pas (length (chosen_entries ch es))) (length es) (c14_const (length es)).
Proof.
  intros Hk Hsrc.
  assert (Hn : es <> []) by (intros ->; apply Hsrc; reflexivity).
  destruct k as [d pre| | |]; cbn [has_filter] in Hk; try discriminate; cbn [run].
  - apply (deliver_spec d pre es lim pas ch Hn Hsrc).
  - rewrite chosen_entries_is_filter in *. unfold c14_const.
    apply (grpcjson_filter_c08 ch es lim pas Hsrc).
Qed.

Definition no_ammo_outcome (o : outcome) : Prop := o = Failed ENoAmmo \/ o = Failed ENoAmmoText.

Theorem filtered_nomatch k es lim pas ch cancel fuel :
  has_filter k = true -> es <> [] -> chosen_entries ch es = [] -> is_cancelled cancel 0 = false ->
  let x := run k (cfgc lim pas ch) es cancel fuel in
  let C := c14_const (length es) * (length es + 1) in
  delivered x = [] /\ steps x <= C
  /\ (C < fuel -> no_ammo_outcome (out x) /\ closed x = true /\ acquire_after x = AcqEndOfAmmo).
Proof.
  intros Hk Hn Hnone Hc.
  destruct k as [d pre| | |]; cbn [has_filter] in Hk; try discriminate; cbn [run].
  - destruct (deliver_nomatch d pre es lim pas ch cancel fuel Hn Hnone Hc) as (A1 & A2 & A3).
    unfold deliver in *. split; [exact A1|]. split; [exact A2|]. intros Hf.
    destruct (A3 Hf) as (B1 & B2). split; [left; exact B1|]. split; [exact B2|].
    unfold acquire_after. rewrite B2. reflexivity.
  - rewrite chosen_entries_is_filter in Hnone.
    destruct (grpcjson_nomatch ch es lim pas Hnone cancel fuel) as (A1 & A2 & A3).
    split; [exact A1|]. split; [unfold c14_const; nia|]. intros Hf.
    destruct A3 as (B1 & B2); [unfold c14_const in Hf; nia|].
    split; [right; exact B1|]. split; [exact B2|].
    unfold acquire_after. rewrite B2. reflexivity.
Qed.

(* the statement of Properties/C08.v: [c08_spec] spelled out *)
Lemma c08_filtered (k : pkind) es lim pas ch :
  has_filter k = true ->
  let src := chosen_entries ch es in
  src <> [] ->
  let n := length es in
  let C := c14_const n in
  let runk := run k (cfgc lim pas ch) es in
  (forall b fuel, bound lim pas (length src) = Some b -> C * (b + n + 1) < fuel ->
     let r := runk None fuel in
     delivered r = cyc_prefix src b /\ out r = Ok /\ closed r = true /\ acquire_after r = AcqEndOfAmmo)
  /\ (forall cancel fuel,
        let r := runk cancel fuel in
        delivered r = cyc_prefix src (length (delivered r))
        /\ le_opt (length (delivered r)) (bound lim pas (length src))
        /\ (forall j, cancel = Some j -> length (delivered r) <= j)
        /\ steps r <= C * (length (delivered r) + n + 1)
        /\ (out r = OutOfFuel -> steps r = fuel))
  /\ (forall j fuel, C * (j + n + 1) < fuel ->
        let r := runk (Some j) fuel in
        out r <> OutOfFuel /\ closed r = true /\ acquire_after r = AcqEndOfAmmo /\ clean_or_cancelled (out r)).
Proof.
  intros Hk src Hsrc n C runk.
  destruct (filtered_c08 k es lim pas ch Hk Hsrc) as (S1 & S2 & S3 & _).
  split; [|split].
  - intros b fuel HB Hf. destruct (S2 b fuel HB Hf) as (A1 & A2 & A3).
    cbv zeta. split; [exact A1|]. split; [exact A2|]. split; [exact A3|].
    unfold acquire_after. unfold runk in *. rewrite A3. reflexivity.
  - intros cancel fuel. exact (S1 cancel fuel).
  - intros j fuel Hf. destruct (S3 j fuel Hf) as (A1 & A2 & A3 & _).
    cbv zeta. split; [exact A1|]. split; [exact A2|]. split; [|exact A3].
    unfold acquire_after. unfold runk in *. rewrite A2. reflexivity.
Qed.

(* ---------------------------------------------------------------------------------- *)
(* the whole-pass probe of runFullScan (Model/ProviderProbe.v) *)

Lemma stream_step_p_code k cf es c d dl :
  match stream_step_p probe_code k cf es c (d, dl) with
  | Cont (d', dl') => http_step k cf es c (HStream d dl) = Cont (HStream d' dl')
  | Emit e (d', dl') => http_step k cf es c (HStream d dl) = Emit e (HStream d' dl')
  | Stop o cl => http_step k cf es c (HStream d dl) = Stop o cl
  end.
Proof.
  unfold stream_step_p, http_step, probe_code.
  destruct (negb (inloop d) && c); [reflexivity|].
  destruct (negb (inloop d) && nz (limit cf) && (limit cf <=? dl)); [reflexivity|].
  destruct (dec_step k c 0 (passes cf) es d) as [d'|e d'|e]; try reflexivity.
  destruct (negb (is_chosen (e_tag e) (chosen cf))).
  - destruct ((dl =? 0) && (1 <=? passNum d')); reflexivity.
  - destruct c; reflexivity.
Qed.

(* with the probe the code has, the parametrised loop IS the streaming path of the http provider *)
Lemma stream_run_p_code_gen k cf es cancel fuel sent d dl :
  run_steps (stream_step_p probe_code k cf es) cancel fuel sent (d, dl)
  = run_steps (http_step k cf es) cancel fuel sent (HStream d dl).
Proof.
  revert sent d dl. induction fuel as [|f IH]; intros sent d dl; cbn [run_steps]; [reflexivity|].
  pose proof (stream_step_p_code k cf es (is_cancelled cancel sent) d dl) as H.
  destruct (stream_step_p probe_code k cf es (is_cancelled cancel sent) (d, dl)) as [[d' dl']|e [d' dl']|o cl];
    rewrite H; [rewrite IH|rewrite IH|]; reflexivity.
Qed.

Lemma stream_run_p_code k cf es cancel fuel :
  stream_run_p probe_code k cf es cancel fuel = run (KHttp k false) cf es cancel fuel.
Proof. unfold stream_run_p. cbn [run]. unfold http_run. cbn [http_init]. apply stream_run_p_code_gen. Qed.

Lemma cyc_in es a : es <> [] -> In (cyc es a) es.
Proof.
  intros Hn. unfold cyc. apply nth_In. apply Nat.mod_upper_bound.
  destruct es; [congruence|cbn; lia].
Qed.

(* A dead probe: full scan, passes = 0, nothing chosen — every iteration of the loop is a
   `continue`: whatever the fuel, Run has not returned, nothing was delivered, the sink is open. *)
Lemma dead_probe_step k es lim ch DI :
  es <> [] -> chosen_entries ch es = [] -> contract (dec_step k) es (dkind_cD k) 0 0 DI ->
  forall a m d, DI a m d ->
    exists d' a' m', stream_step_p probe_dead k (cfgc lim 0 ch) es false (d, 0) = Cont (d', 0) /\ DI a' m' d'.
Proof.
  intros Hn Hnone K a m d HD. rewrite chosen_entries_is_filter in Hnone.
  unfold stream_step_p. cbn [limit passes chosen cfgc].
  rewrite andb_false_r. cbn [andb].
  assert (E : negb (inloop d) && nz lim && (lim <=? 0) = false).
  { destruct lim; [unfold nz; cbn; rewrite andb_false_r; reflexivity|cbn; apply andb_false_r]. }
  rewrite E.
  destruct (dec_step k false 0 0 es d) as [d'|e d'|e] eqn:Ed.
  - destruct (k_again _ _ _ _ _ _ K _ _ _ _ _ HD Ed) as (m' & _ & HD').
    exists d', a, m'. split; [reflexivity|exact HD'].
  - destruct (k_ammo _ _ _ _ _ _ K _ _ _ _ _ _ HD Ed) as (_ & -> & HD' & _).
    assert (Hc : is_chosen (e_tag (cyc es a)) ch = false).
    { destruct (is_chosen (e_tag (cyc es a)) ch) eqn:Ec; [|reflexivity].
      assert (Hin : In (cyc es a) (filter (chosenb ch) es))
        by (apply filter_In; split; [apply cyc_in; exact Hn|exact Ec]).
      rewrite Hnone in Hin. destruct Hin. }
    rewrite Hc. cbn [negb]. unfold probe_dead. rewrite andb_false_r.
    exists d', (S a), (dkind_cD k). split; [reflexivity|exact HD'].
  - exfalso. destruct (k_err _ _ _ _ _ _ K _ _ _ _ _ HD Ed) as [(Hcc & _)|(HB & _)]; discriminate.
Qed.

Lemma dead_probe_spins_gen k es lim ch DI :
  es <> [] -> chosen_entries ch es = [] -> contract (dec_step k) es (dkind_cD k) 0 0 DI ->
  forall fuel sent a m d,
    DI a m d ->
    let r := run_steps (stream_step_p probe_dead k (cfgc lim 0 ch) es) None fuel sent (d, 0) in
    out r = OutOfFuel /\ delivered r = [] /\ closed r = false /\ steps r = fuel.
Proof.
  intros Hn Hnone K.
  induction fuel as [|f IH]; intros sent a m d HD; cbn [run_steps].
  - cbn. repeat split.
  - cbn [is_cancelled].
    destruct (dead_probe_step k es lim ch DI Hn Hnone K a m d HD) as (d' & a' & m' & -> & HD').
    destruct (IH sent a' m' d' HD') as (I1 & I2 & I3 & I4).
    cbn [bump out delivered closed steps]. repeat split; congruence.
Qed.

Lemma dead_probe_spins k es lim ch fuel :
  es <> [] -> chosen_entries ch es = [] ->
  let r := stream_run_p probe_dead k (cfgc lim 0 ch) es None fuel in
  out r = OutOfFuel /\ delivered r = [] /\ closed r = false /\ acquire_after r = AcqBlocked /\ steps r = fuel.
Proof.
  intros Hn Hnone. destruct (dkind_contract k es 0 0 Hn) as (DI & K).
  destruct (dead_probe_spins_gen k es lim ch DI Hn Hnone K fuel 0 0 _ dinit (k_init _ _ _ _ _ _ K))
    as (A1 & A2 & A3 & A4).
  unfold stream_run_p. cbv zeta. split; [exact A1|]. split; [exact A2|]. split; [exact A3|].
  split; [|exact A4]. unfold acquire_after. rewrite A3. reflexivity.
Qed.
