(* Lemmas about the pool/engine model (Model/Pool.v) for property C05. *)
From Coq Require Import List Arith Bool Lia.
From PV Require Import Model.Pool.
Import ListNotations.

Definition b2n (b : bool) : nat := if b then 1 else 0.

(* ---------------------------------------------------------------------------------------- *)
(* The await loop: bookkeeping invariant *)

Record AI (n : nat) (a : await) : Prop := {
  ai_towait : toWait a = b2n (prov_pending a) + b2n (aggr_pending a) + b2n (start_pending a) + b2n (run_open a);
  ai_started : start_pending a = false -> started a = n;
  ai_awaited : awaited a <= n;
  ai_closed : run_open a = false -> start_pending a = false /\ awaited a = n;
  ai_open : run_open a = true -> start_pending a = false -> awaited a < n
}.

Lemma AI_init : forall n, AI n await_init.
Proof. intro n; constructor; cbn; intros; try lia; try discriminate. Qed.

Definition is_send (e : effect) : bool := match e with EffSend _ => true | _ => false end.
Definition is_runcancel (e : effect) : bool := match e with EffRunCancel => true | _ => false end.
Definition is_panic (e : effect) : bool := match e with EffPanic => true | _ => false end.

(* the error part of the effects of one message: nothing, one send, or one suppression *)
Inductive err_part (env : aenv) (m : msg) : list effect -> Prop :=
| ep_none : msg_fail m = [] -> err_part env m []
| ep_send : forall c, msg_fail m = [c] -> e_listening env = true -> err_part env m [EffSend c]
| ep_supp : forall c, msg_fail m = [c] -> e_suppctx env = true -> err_part env m [EffSuppress c].

(* the rest: cancel of the instance start, and the all-finished step *)
Definition tail_ok (n : nat) (a a' : await) (tl : list effect) : Prop :=
  existsb is_send tl = false /\ existsb is_panic tl = false /\
  (existsb is_runcancel tl = true <-> (run_open a = true /\ run_open a' = false)).

Lemma check_finished_spec : forall n a,
  toWait a = b2n (prov_pending a) + b2n (aggr_pending a) + b2n (start_pending a) + b2n (run_open a) ->
  (start_pending a = false -> started a = n) ->
  awaited a <= n ->
  (run_open a = false -> start_pending a = false /\ awaited a = n) ->
  run_open a = true ->
  let r := check_finished a in
  AI n (fst r) /\ existsb is_send (snd r) = false /\ existsb is_panic (snd r) = false /\
  (existsb is_runcancel (snd r) = true <-> run_open (fst r) = false) /\
  prov_pending (fst r) = prov_pending a /\ aggr_pending (fst r) = aggr_pending a /\
  start_pending (fst r) = start_pending a /\ awaited (fst r) = awaited a.
Proof.
  intros n a Hw Hs Ha Hc Ho. unfold check_finished.
  destruct (start_pending a) eqn:Esp; cbn [negb andb].
  - cbn. split.
    + constructor; rewrite ?Esp, ?Ho; intros; try congruence; try lia; auto.
    + repeat split; try (intros; congruence); try assumption; try lia.
  - destruct (started a <=? awaited a) eqn:El.
    + rewrite Ho. cbn. apply Nat.leb_le in El. rewrite (Hs eq_refl) in El. split.
      * constructor; cbn; rewrite ?Esp; intros; try congruence; try lia; auto.
        rewrite Hw, Ho. cbn. lia.
      * repeat split; try (intros; congruence); try lia.
    + cbn. apply Nat.leb_gt in El. rewrite (Hs eq_refl) in El. split.
      * constructor; rewrite ?Esp, ?Ho; intros; try congruence; try lia; auto.
      * repeat split; try (intros; congruence); try assumption; try lia.
Qed.

Lemma tail_ok_nil : forall n a a', run_open a' = run_open a -> tail_ok n a a' [].
Proof.
  intros n a a' H. unfold tail_ok. cbn. split; [reflexivity|]. split; [reflexivity|].
  split; [discriminate|]. intros [H1 H2]. congruence.
Qed.

(* kind of message that can be received: what msg_allowed says without the context part *)
Definition kind_ok (n : nat) (a : await) (m : msg) : Prop :=
  match m with
  | StartRes k _ => k = n
  | RunRes _ _ => awaited a < n
  | _ => True
  end.

(* a message that passed msg_allowed calls onErrAwaited only with a genuine failure *)
Definition ctx_ok (env : aenv) (m : msg) : Prop :=
  match m with
  | ProvRes e | AggrRes e => match e with ECtx => e_runctx env = true | EOutOfAmmo => False | _ => True end
  | StartRes _ e => match e with ECtx => e_startctx env = true | EOutOfAmmo => False | _ => True end
  | RunRes _ e => match e with ECtx => e_runctx env = true | _ => True end
  end.

Lemma on_err_awaited_part : forall env m c ch effs,
  msg_fail m = [c] -> on_err_awaited env c ch = Some effs -> err_part env m effs.
Proof.
  intros env m c ch effs Hm H. unfold on_err_awaited in H.
  destruct ch.
  - destruct (e_listening env) eqn:E; inversion H; subst. apply ep_send; assumption.
  - destruct (e_suppctx env) eqn:E; inversion H; subst. apply ep_supp; assumption.
Qed.

Lemma step_await_spec : forall n env a m ch a' effs,
  AI n a -> kind_ok n a m -> ctx_ok env m ->
  step_await env a m ch = Some (a', effs) ->
  AI n a' /\ exists ep tl, effs = ep ++ tl /\ err_part env m ep /\ tail_ok n a a' tl.
Proof.
  intros n env a m ch a' effs HA Hk Hc H.
  destruct HA as [Hw Hs Ha Hcl Hop].
  destruct m as [e|e|k e|id e]; cbn [step_await] in H.
  - (* provider *)
    destruct (prov_pending a) eqn:Ep; [|discriminate].
    assert (HA' : AI n {| toWait := toWait a - 1; started := started a; awaited := awaited a;
                          prov_pending := false; aggr_pending := aggr_pending a;
                          start_pending := start_pending a; run_open := run_open a |}).
    { constructor; cbn; auto. rewrite Hw. cbn. lia. }
    assert (Ht : tail_ok n a {| toWait := toWait a - 1; started := started a; awaited := awaited a;
                          prov_pending := false; aggr_pending := aggr_pending a;
                          start_pending := start_pending a; run_open := run_open a |} (@nil effect)).
    { apply tail_ok_nil. reflexivity. }
    destruct e as [| | |c]; cbn [is_ctx_error ctx_ok] in *.
    + inversion H; subst. split; [exact HA'|]. exists [], []. split; [reflexivity|]. split; [apply ep_none; reflexivity|exact Ht].
    + rewrite Hc in H. inversion H; subst. split; [exact HA'|]. exists [], []. split; [reflexivity|]. split; [apply ep_none; reflexivity|exact Ht].
    + contradiction.
    + destruct (on_err_awaited env (err_cause (EFail c)) ch) as [l|] eqn:Eo; [|discriminate]. cbn in H. injection H as <- <-.
      split; [exact HA'|]. exists l, []. rewrite app_nil_r. split; [reflexivity|]. split.
      * eapply on_err_awaited_part; [|exact Eo]. reflexivity.
      * exact Ht.
  - (* aggregator *)
    destruct (aggr_pending a) eqn:Ep; [|discriminate].
    assert (HA' : AI n {| toWait := toWait a - 1; started := started a; awaited := awaited a;
                          prov_pending := prov_pending a; aggr_pending := false;
                          start_pending := start_pending a; run_open := run_open a |}).
    { constructor; cbn; auto. rewrite Hw. cbn. lia. }
    assert (Ht : tail_ok n a {| toWait := toWait a - 1; started := started a; awaited := awaited a;
                          prov_pending := prov_pending a; aggr_pending := false;
                          start_pending := start_pending a; run_open := run_open a |} (@nil effect)).
    { apply tail_ok_nil. reflexivity. }
    destruct e as [| | |c]; cbn [is_ctx_error ctx_ok] in *.
    + inversion H; subst. split; [exact HA'|]. exists [], []. split; [reflexivity|]. split; [apply ep_none; reflexivity|exact Ht].
    + rewrite Hc in H. inversion H; subst. split; [exact HA'|]. exists [], []. split; [reflexivity|]. split; [apply ep_none; reflexivity|exact Ht].
    + contradiction.
    + destruct (on_err_awaited env (err_cause (EFail c)) ch) as [l|] eqn:Eo; [|discriminate]. cbn in H. injection H as <- <-.
      split; [exact HA'|]. exists l, []. rewrite app_nil_r. split; [reflexivity|]. split.
      * eapply on_err_awaited_part; [|exact Eo]. reflexivity.
      * exact Ht.
  - (* start result *)
    destruct (start_pending a) eqn:Ep; [|discriminate].
    cbn [kind_ok] in Hk. subst k.
    set (a1 := {| toWait := toWait a - 1; started := n; awaited := awaited a;
                  prov_pending := prov_pending a; aggr_pending := aggr_pending a;
                  start_pending := false; run_open := run_open a |}) in *.
    assert (Ho : run_open a = true).
    { destruct (run_open a) eqn:E; auto. destruct (Hcl eq_refl). congruence. }
    destruct (check_finished_spec n a1) as (HA' & Hns & Hnp & Hrc & _); subst a1; cbn; auto.
    { rewrite Hw. cbn. lia. }
    { intros E. congruence. }
    set (a1 := {| toWait := toWait a - 1; started := n; awaited := awaited a;
                  prov_pending := prov_pending a; aggr_pending := aggr_pending a;
                  start_pending := false; run_open := run_open a |}) in *.
    assert (Ht : tail_ok n a (fst (check_finished a1)) (snd (check_finished a1))).
    { split; [exact Hns|]. split; [exact Hnp|]. rewrite Hrc. rewrite Ho. tauto. }
    destruct e as [| | |c]; cbn [is_ctx_error ctx_ok] in *.
    + inversion H; subst. split; [exact HA'|]. exists [], (snd (check_finished a1)). split; [reflexivity|]. split; [apply ep_none; reflexivity|exact Ht].
    + rewrite Hc in H. inversion H; subst. split; [exact HA'|]. exists [], (snd (check_finished a1)). split; [reflexivity|]. split; [apply ep_none; reflexivity|exact Ht].
    + contradiction.
    + destruct (on_err_awaited env (err_cause (EFail c)) ch) as [l|] eqn:Eo; [|discriminate]. cbn in H. injection H as <- <-.
      split; [exact HA'|]. exists l, (snd (check_finished a1)). split; [reflexivity|]. split.
      * eapply on_err_awaited_part; [|exact Eo]. reflexivity.
      * exact Ht.
  - (* instance run result *)
    destruct (run_open a) eqn:Ho; [|discriminate].
    cbn [kind_ok] in Hk.
    set (a1 := {| toWait := toWait a; started := started a; awaited := S (awaited a);
                  prov_pending := prov_pending a; aggr_pending := aggr_pending a;
                  start_pending := start_pending a; run_open := true |}) in *.
    destruct (check_finished_spec n a1) as (HA' & Hns & Hnp & Hrc & _); subst a1; cbn; auto;
      try (rewrite Hw; reflexivity); try (intros; discriminate); try lia.
    set (a1 := {| toWait := toWait a; started := started a; awaited := S (awaited a);
                  prov_pending := prov_pending a; aggr_pending := aggr_pending a;
                  start_pending := start_pending a; run_open := true |}) in *.
    assert (Ht : forall pre, existsb is_send pre = false -> existsb is_panic pre = false -> existsb is_runcancel pre = false ->
                 tail_ok n a (fst (check_finished a1)) (pre ++ snd (check_finished a1))).
    { intros pre P1 P2 P3. unfold tail_ok. rewrite !existsb_app, P1, P2, P3, Hns, Hnp. cbn.
      split; [reflexivity|]. split; [reflexivity|]. rewrite Hrc. tauto. }
    destruct e as [| | |c]; cbn [is_ctx_error ctx_ok] in *.
    + inversion H; subst. split; [exact HA'|]. exists [], (snd (check_finished a1)). split; [reflexivity|]. split; [apply ep_none; reflexivity|apply (Ht []); reflexivity].
    + rewrite Hc in H. inversion H; subst. split; [exact HA'|]. exists [], (snd (check_finished a1)). split; [reflexivity|]. split; [apply ep_none; reflexivity|apply (Ht []); reflexivity].
    + inversion H; subst. split; [exact HA'|].
      exists [], ((if start_pending a then [EffStartCancel] else []) ++ snd (check_finished a1)).
      split; [reflexivity|]. split; [apply ep_none; reflexivity|].
      apply Ht; destruct (start_pending a); reflexivity.
    + destruct (on_err_awaited env (err_cause (EFail c)) ch) as [l|] eqn:Eo; [|discriminate]. cbn in H. injection H as <- <-.
      split; [exact HA'|]. exists l, (snd (check_finished a1)). split; [reflexivity|]. split.
      * eapply on_err_awaited_part; [|exact Eo]. reflexivity.
      * apply (Ht []); reflexivity.
Qed.

(* ---------------------------------------------------------------------------------------- *)
(* apply_effects *)

Lemma apply_effects_fields : forall effs s,
  let s' := apply_effects effs s in
  ph s' = ph s /\ aw s' = aw s /\ taken s' = taken s /\ wait_done s' = wait_done s /\ fails s' = fails s /\
  created s' = created s /\ closed s' = closed s /\ unbound s' = unbound s /\ sched_fin s' = sched_fin s /\
  run_cancelled s' = (run_cancelled s || existsb is_runcancel effs) /\
  panicked s' = (panicked s || existsb is_panic effs) /\
  (existsb is_send effs = false -> front s' = front s).
Proof.
  induction effs as [|eff r IH]; intros s; cbn [apply_effects].
  - cbn. rewrite !orb_false_r. repeat split; auto.
  - specialize (IH (apply_effect eff s)). cbn zeta in IH.
    destruct IH as (I1 & I2 & I3 & I4 & I5 & I6 & I7 & I8 & I9 & I10 & I11 & I12).
    cbn zeta. rewrite I1, I2, I3, I4, I5, I6, I7, I8, I9, I10, I11.
    destruct eff; cbn; rewrite ?orb_true_r, ?orb_false_r; repeat split; auto;
      try (intros; discriminate); try (rewrite orb_assoc; reflexivity).
    all: try (intros Hs; rewrite (I12 Hs); reflexivity).
    all: try (rewrite <- orb_assoc; reflexivity).
Qed.

Lemma apply_effects_send_front : forall c tl s,
  existsb is_send tl = false -> front (apply_effects (EffSend c :: tl) s) = Some (RFail c).
Proof.
  intros c tl s H. cbn [apply_effects apply_effect].
  destruct (apply_effects_fields tl (set_front (RFail c) s)) as (_ & _ & _ & _ & _ & _ & _ & _ & _ & _ & _ & Hf).
  rewrite (Hf H). reflexivity.
Qed.

(* ---------------------------------------------------------------------------------------- *)
(* One pool: invariant of pstep (variant [fixed]) *)

Definition awaiting (s : pstate) : Prop := ph s = PhAwait \/ ph s = PhDone.

Record PI (n : nat) (parent : bool) (s : pstate) : Prop := {
  pi_init : ph s = PhInit -> front s = None /\ fails s = [] /\ wait_done s = 0 /\ created s = 0 /\ closed s = 0 /\ unbound s = 0;
  pi_ai : awaiting s -> AI n (aw s);
  pi_await : ph s = PhAwait -> 0 < toWait (aw s) /\ wait_done s = 0;
  pi_done : ph s = PhDone -> toWait (aw s) = 0 /\ wait_done s = 1;
  pi_prefailed : ph s = PhPreFailed -> wait_done s = 1 /\ exists c, front s = Some (RFail c);
  pi_runcancel : awaiting s -> run_open (aw s) = false -> run_cancelled s = true;
  pi_front_nil : front s = Some RNil -> ph s = PhDone /\ (fails s = [] \/ parent = true);
  pi_front_fail : forall c, front s = Some (RFail c) -> In c (fails s);
  pi_front_ctx : front s = Some RCtx -> parent = true;
  pi_fails : fails s <> [] -> front s <> None \/ parent = true;
  pi_guns : created s = closed s + unbound s;
  pi_nopanic : panicked s = false
}.

Lemma PI_init : forall n parent, PI n parent pstate_init.
Proof.
  intros n parent. constructor; cbn; try discriminate; auto.
  - intros _. repeat split.
  - intros _. apply AI_init.
Qed.

Lemma PI_parent_mono : forall n s, PI n false s -> PI n true s.
Proof.
  intros n s [I1 I2 I3 I4 I5 I6 I7 I8 I9 I10 I11 I12].
  constructor; auto.
  intros H. destruct (I7 H) as [H1 _]. split; auto.
Qed.

Lemma msg_guns_balanced : forall m, let '(gc, gl, gu) := msg_guns m in gc = gl + gu.
Proof.
  destruct m as [e|e|k e|id e]; cbn; auto; destruct e as [| | |c]; cbn; auto; destruct c; cbn; auto.
Qed.

Lemma msg_allowed_kind_ctx : forall v n parent s m,
  msg_allowed n parent s m = true -> kind_ok n (aw s) m /\ ctx_ok (mk_aenv v parent s) m.
Proof.
  intros v n parent s m H. unfold msg_allowed in H.
  destruct m as [e|e|k e|id e]; cbn [kind_ok ctx_ok mk_aenv e_runctx e_startctx].
  - split; [exact I|]. destruct e; auto; discriminate.
  - split; [exact I|]. destruct e; auto; discriminate.
  - apply andb_true_iff in H as [H1 H2]. apply Nat.eqb_eq in H1. split; [exact H1|]. destruct e; auto; discriminate.
  - apply andb_true_iff in H as [H1 H2]. apply Nat.ltb_lt in H1. split; [exact H1|]. destruct e; auto.
Qed.

Lemma pstep_PI : forall n parent s e s',
  pstep fixed n parent s e = Some s' -> PI n parent s -> PI n parent s'.
Proof.
  intros n parent s e s' Hstep HI.
  destruct HI as [I1 I2 I3 I4 I5 I6 I7 I8 I9 I10 I11 I12].
  destruct e as [o|m ch| | |]; cbn [pstep] in Hstep.
  - (* warm-up / runAsync *)
    destruct (ph s) eqn:Eph; try discriminate.
    destruct (I1 eq_refl) as (F & Fl & W & C & L & U).
    destruct o; injection Hstep as <-; unfold pre_failed; cbn [v_waitdone_on_sched_fail fixed].
    + (* ok *)
      constructor; cbn; rewrite ?F, ?Fl, ?W, ?C, ?L, ?U; intros; try discriminate; try lia; auto;
        try apply AI_init; try (split; [lia|reflexivity]); try contradiction;
        try (match goal with H : awaiting _ |- _ => clear H end);
        try (match goal with H : _ \/ _ |- _ => destruct H; discriminate end).
    + constructor; cbn; rewrite ?F, ?Fl, ?W, ?C, ?L, ?U; intros; try discriminate; try lia; auto;
        try (match goal with H : awaiting _ |- _ => destruct H; discriminate end);
        try (split; [lia|eauto]); try (left; discriminate);
        try (match goal with H : Some _ = Some _ |- _ => injection H as <-; left; reflexivity end).
    + constructor; cbn; rewrite ?F, ?Fl, ?W, ?C, ?L, ?U; intros; try discriminate; try lia; auto;
        try (match goal with H : awaiting _ |- _ => destruct H; discriminate end);
        try (split; [lia|eauto]); try (left; discriminate);
        try (match goal with H : Some _ = Some _ |- _ => injection H as <-; left; reflexivity end).
    + constructor; cbn; rewrite ?F, ?Fl, ?W, ?C, ?L, ?U; intros; try discriminate; try lia; auto;
        try (match goal with H : awaiting _ |- _ => destruct H; discriminate end);
        try (split; [lia|eauto]); try (left; discriminate);
        try (match goal with H : Some _ = Some _ |- _ => injection H as <-; left; reflexivity end).
  - (* a message *)
    destruct (ph s) eqn:Eph; try discriminate.
    destruct (msg_allowed n parent s m) eqn:Eal; [|discriminate].
    destruct (step_await (mk_aenv fixed parent s) (aw s) m ch) as [[a' effs]|] eqn:Est; [|discriminate].
    destruct (msg_allowed_kind_ctx fixed _ _ _ _ Eal) as [Hk Hc].
    assert (Haw : awaiting s) by (left; exact Eph).
    destruct (step_await_spec n _ _ _ _ _ _ (I2 Haw) Hk Hc Est) as (HA' & ep & tl & -> & Hep & Hns & Hnp & Hrc).
    pose proof (msg_guns_balanced m) as Hg.
    destruct (msg_guns m) as [[gc gl] gu].
    injection Hstep as <-.
    match goal with |- PI _ _ (apply_effects _ ?s1) => set (s1' := s1) end.
    destruct (apply_effects_fields (ep ++ tl) s1') as (E1 & E2 & E3 & E4 & E5 & E6 & E7 & E8 & E9 & E10 & E11 & E12).
    cbn zeta in *. subst s1'. cbn [ph aw taken wait_done fails created closed unbound sched_fin run_cancelled panicked front] in *.
    destruct (I3 eq_refl) as [Hpos Hwd].
    assert (Hfrontnil : front s <> Some RNil).
    { intros H. destruct (I7 H) as [H1 _]. congruence. }
    assert (Hpan : existsb is_panic (ep ++ tl) = false).
    { rewrite existsb_app, Hnp. destruct Hep; reflexivity. }
    assert (Hfront :
      (msg_fail m = [] /\ front (apply_effects (ep ++ tl) {|
          ph := if toWait a' =? 0 then PhDone else PhAwait; aw := a'; run_cancelled := run_cancelled s;
          start_cancelled := start_cancelled s; sched_fin := sched_fin s; front := front s; taken := taken s;
          wait_done := wait_done s + (if toWait a' =? 0 then 1 else 0); fails := msg_fail m ++ fails s;
          created := created s + gc; closed := closed s + gl; unbound := unbound s + gu; panicked := panicked s |}) = front s) \/
      (exists c, msg_fail m = [c] /\ front (apply_effects (ep ++ tl) {|
          ph := if toWait a' =? 0 then PhDone else PhAwait; aw := a'; run_cancelled := run_cancelled s;
          start_cancelled := start_cancelled s; sched_fin := sched_fin s; front := front s; taken := taken s;
          wait_done := wait_done s + (if toWait a' =? 0 then 1 else 0); fails := msg_fail m ++ fails s;
          created := created s + gc; closed := closed s + gl; unbound := unbound s + gu; panicked := panicked s |}) = Some (RFail c)) \/
      (exists c, msg_fail m = [c] /\ pctx_done parent s = true /\ front (apply_effects (ep ++ tl) {|
          ph := if toWait a' =? 0 then PhDone else PhAwait; aw := a'; run_cancelled := run_cancelled s;
          start_cancelled := start_cancelled s; sched_fin := sched_fin s; front := front s; taken := taken s;
          wait_done := wait_done s + (if toWait a' =? 0 then 1 else 0); fails := msg_fail m ++ fails s;
          created := created s + gc; closed := closed s + gl; unbound := unbound s + gu; panicked := panicked s |}) = front s)).
    { destruct Hep as [Hm|c Hm Hl|c Hm Hsu].
      - left. split; [exact Hm|]. apply E12. cbn. exact Hns.
      - right; left. exists c. split; [exact Hm|]. cbn [app]. apply apply_effects_send_front. exact Hns.
      - right; right. exists c. split; [exact Hm|]. split; [exact Hsu|]. apply E12. cbn. exact Hns. }
    constructor; rewrite ?E1, ?E2, ?E4, ?E5, ?E6, ?E7, ?E8, ?E10, ?E11.
    + destruct (toWait a' =? 0); discriminate.
    + intros _. exact HA'.
    + destruct (toWait a' =? 0) eqn:Et; [discriminate|]. intros _. apply Nat.eqb_neq in Et. split; [lia|lia].
    + destruct (toWait a' =? 0) eqn:Et; [|discriminate]. intros _. apply Nat.eqb_eq in Et. split; [exact Et|lia].
    + destruct (toWait a' =? 0); discriminate.
    + intros _ Hro. destruct (run_open (aw s)) eqn:Eo.
      * assert (existsb is_runcancel tl = true) by (apply Hrc; auto).
        rewrite existsb_app, H. rewrite !orb_true_r. reflexivity.
      * rewrite (I6 Haw eq_refl). reflexivity.
    + intros H. destruct Hfront as [[Hm Hf]|[(c & Hm & Hf)|(c & Hm & Hp & Hf)]]; rewrite Hf in H; try discriminate; contradiction.
    + intros c0 H. destruct Hfront as [[Hm Hf]|[(c & Hm & Hf)|(c & Hm & Hp & Hf)]]; rewrite Hf in H; rewrite Hm.
      * cbn. apply I8. exact H.
      * injection H as <-. left. reflexivity.
      * right. apply I8. exact H.
    + intros H. destruct Hfront as [[Hm Hf]|[(c & Hm & Hf)|(c & Hm & Hp & Hf)]]; rewrite Hf in H; try discriminate; apply I9; exact H.
    + intros H. destruct Hfront as [[Hm Hf]|[(c & Hm & Hf)|(c & Hm & Hp & Hf)]]; rewrite Hf.
      * rewrite Hm in H. cbn in H. apply I10. exact H.
      * left. discriminate.
      * unfold pctx_done in Hp. apply orb_true_iff in Hp as [Hp|Hp]; [right; exact Hp|].
        left. destruct (front s); [discriminate|discriminate].
    + cbn zeta in Hg. lia.
    + rewrite I12, Hpan. reflexivity.
  - (* schedule finished *)
    destruct (ph s) eqn:Eph; try discriminate.
    destruct (sched_fin s); [discriminate|]. injection Hstep as <-.
    constructor; cbn; rewrite ?Eph; auto.
  - (* front: ctx done *)
    destruct (ph s) eqn:Eph; try discriminate; destruct (front s) eqn:Ef; try discriminate;
      destruct parent; try discriminate; injection Hstep as <-.
    + constructor; cbn; rewrite ?Eph; auto; try discriminate; try (intros _; left; discriminate).
    + constructor; cbn; rewrite ?Eph; auto; try discriminate; try (intros _; left; discriminate).
  - (* front: awaitErr closed *)
    destruct (ph s) eqn:Eph; try discriminate; destruct (front s) eqn:Ef; try discriminate.
    injection Hstep as <-.
    constructor; cbn; rewrite ?Eph; auto; try discriminate.
    + intros _. split; [reflexivity|]. destruct (fails s) eqn:Efl; [left; reflexivity|].
      destruct I10 as [H|H]; [discriminate|congruence|right; exact H].
    + intros _. left. discriminate.
Qed.

Lemma pstep_front_stable : forall n parent s e s' r,
  pstep fixed n parent s e = Some s' -> PI n parent s -> front s = Some r -> front s' = Some r.
Proof.
  intros n parent s e s' r Hstep HI Hf.
  destruct e as [o|m ch| | |]; cbn [pstep] in Hstep.
  - destruct (ph s) eqn:Eph; try discriminate.
    destruct (pi_init _ _ _ HI Eph) as (F & _). congruence.
  - destruct (ph s) eqn:Eph; try discriminate.
    destruct (msg_allowed n parent s m) eqn:Eal; [|discriminate].
    destruct (step_await (mk_aenv fixed parent s) (aw s) m ch) as [[a' effs]|] eqn:Est; [|discriminate].
    destruct (msg_allowed_kind_ctx fixed _ _ _ _ Eal) as [Hk Hc].
    assert (Haw : awaiting s) by (left; exact Eph).
    destruct (step_await_spec n _ _ _ _ _ _ (pi_ai _ _ _ HI Haw) Hk Hc Est) as (HA' & ep & tl & -> & Hep & Hns & Hnp & Hrc).
    destruct (msg_guns m) as [[gc gl] gu].
    injection Hstep as <-.
    match goal with |- front (apply_effects _ ?s1) = _ => 
      destruct (apply_effects_fields (ep ++ tl) s1) as (_ & _ & _ & _ & _ & _ & _ & _ & _ & _ & _ & E12) end.
    cbn zeta in E12. rewrite E12; [exact Hf|].
    rewrite existsb_app, Hns. destruct Hep as [Hm|c Hm Hl|c Hm Hsu]; try reflexivity.
    cbn [mk_aenv e_listening] in Hl. rewrite Hf in Hl. discriminate.
  - destruct (ph s); try discriminate. destruct (sched_fin s); [discriminate|]. injection Hstep as <-. exact Hf.
  - rewrite Hf in Hstep. destruct (ph s); discriminate.
  - rewrite Hf in Hstep. destruct (ph s); discriminate.
Qed.

Lemma pstep_taken : forall v n parent s e s', pstep v n parent s e = Some s' -> taken s' = taken s.
Proof.
  intros v n parent s e s' Hstep.
  destruct e as [o|m ch| | |]; cbn [pstep] in Hstep.
  - destruct (ph s); try discriminate. destruct o; injection Hstep as <-; reflexivity.
  - destruct (ph s); try discriminate.
    destruct (msg_allowed n parent s m); [|discriminate].
    destruct (step_await (mk_aenv v parent s) (aw s) m ch) as [[a' effs]|]; [|discriminate].
    destruct (msg_guns m) as [[gc gl] gu]. injection Hstep as <-.
    match goal with |- taken (apply_effects ?e ?s1) = _ => 
      destruct (apply_effects_fields e s1) as (_ & _ & E3 & _) end.
    cbn zeta in E3. rewrite E3. reflexivity.
  - destruct (ph s); try discriminate. destruct (sched_fin s); [discriminate|]. injection Hstep as <-. reflexivity.
  - destruct (ph s); try discriminate; destruct (front s); try discriminate; destruct parent; try discriminate;
      injection Hstep as <-; reflexivity.
  - destruct (ph s); try discriminate; destruct (front s); try discriminate; injection Hstep as <-; reflexivity.
Qed.

Lemma PI_set_taken : forall n parent s, PI n parent s -> PI n parent (set_taken s).
Proof. intros n parent s [I1 I2 I3 I4 I5 I6 I7 I8 I9 I10 I11 I12]. constructor; auto. Qed.

(* ---------------------------------------------------------------------------------------- *)
(* lists *)

Lemma upd_length : forall A (l : list A) p x, length (upd p x l) = length l.
Proof. induction l as [|y r IH]; intros [|p] x; cbn; auto. Qed.

Lemma nth_error_upd_eq : forall A (l : list A) p x y, nth_error l p = Some y -> nth_error (upd p x l) p = Some x.
Proof. induction l as [|z r IH]; intros [|p] x y H; cbn in *; try discriminate; eauto. Qed.

Lemma nth_error_upd_neq : forall A (l : list A) p q x, p <> q -> nth_error (upd p x l) q = nth_error l q.
Proof.
  induction l as [|z r IH]; intros [|p] [|q] x H; cbn; auto; try contradiction;
    try (apply IH; congruence).
Qed.

Lemma In_upd : forall A (l : list A) p x y, In y (upd p x l) -> y = x \/ In y l.
Proof.
  induction l as [|z r IH]; intros [|p] x y H; cbn in *; auto.
  - destruct H; auto.
  - destruct H as [H|H]; auto. destruct (IH _ _ _ H); auto.
Qed.

Lemma In_upd_self : forall A (l : list A) p x y, nth_error l p = Some y -> In x (upd p x l).
Proof. induction l as [|z r IH]; intros [|p] x y H; cbn in *; try discriminate; eauto. Qed.

Lemma forallb_upd_same : forall A (f : A -> bool) (l : list A) p x y,
  nth_error l p = Some y -> f x = f y -> forallb f (upd p x l) = forallb f l.
Proof.
  induction l as [|z r IH]; intros [|p] x y H E; cbn in *; try discriminate; auto.
  - injection H as ->. rewrite E. reflexivity.
  - rewrite (IH _ _ _ H E). reflexivity.
Qed.

Lemma all_fails_from_nil : forall l i, (forall s, In s l -> fails s = []) -> all_fails_from i l = [].
Proof.
  induction l as [|s r IH]; intros i H; cbn; auto.
  rewrite (H s (or_introl eq_refl)). cbn. apply IH. intros s' Hs. apply H. right. exact Hs.
Qed.

Lemma all_fails_from_In : forall l i p s c,
  nth_error l p = Some s -> In c (fails s) -> In (i + p, c) (all_fails_from i l).
Proof.
  induction l as [|z r IH]; intros i [|p] s c H Hc; cbn in *; try discriminate.
  - injection H as ->. apply in_or_app. left. rewrite Nat.add_0_r. apply in_map. exact Hc.
  - apply in_or_app. right. replace (i + S p) with (S i + p) by lia. eapply IH; eauto.
Qed.

(* ---------------------------------------------------------------------------------------- *)
(* The engine: global invariant *)

Record GI (cfg : list nat) (g : gstate) : Prop := {
  gi_len : length (pools g) = length cfg;
  gi_pools : forall p s n, nth_error (pools g) p = Some s -> nth_error cfg p = Some n -> PI n (parent_done g) s;
  gi_running : eng g = None ->
     all_taken (pools g) = false /\ (forall s, In s (pools g) -> taken s = true -> front s = Some RNil);
  gi_ret : forall er, eng g = Some er ->
     (er_res er = RNil -> (forall s, In s (pools g) -> front s = Some RNil) /\ (er_fails er = [] \/ er_cancelled er = true)) /\
     (forall c, er_res er = RFail c -> er_cancelled er = false /\ exists p, In (p, c) (er_fails er)) /\
     (er_res er = RCtx -> er_cancelled er = true) /\
     (er_cancelled er = true -> cancelled g = true)
}.

Lemma GI_init : forall cfg, GI cfg (ginit cfg).
Proof.
  intros cfg. constructor; cbn [ginit pools eng cancelled].
  - apply map_length.
  - intros p s n H _. 
    assert (s = pstate_init).
    { clear -H. revert p H. induction cfg as [|x r IH]; intros [|p] H; cbn in H; try discriminate.
      - injection H as <-. reflexivity.
      - eapply IH; eauto. }
    subst s. apply PI_init.
  - destruct cfg as [|x r]; [discriminate|]. intros _. split; [reflexivity|].
    intros s Hs Ht. exfalso. apply in_map_iff in Hs as (y & <- & _). discriminate.
  - destruct cfg as [|x r]; [|discriminate]. intros er H. injection H as <-. cbn.
    repeat split; try discriminate; auto. intros s [].
Qed.

Lemma PI_parent_le : forall n (b b' : bool) s, (b = true -> b' = true) -> PI n b s -> PI n b' s.
Proof.
  intros n b b' s H HI. destruct b, b'; auto.
  - discriminate (H eq_refl).
  - apply PI_parent_mono. exact HI.
Qed.

Lemma gstep_GI : forall cfg g e g', gstep fixed cfg g e = Some g' -> GI cfg g -> GI cfg g'.
Proof.
  intros cfg g e g' Hstep HG. destruct HG as [G1 G2 G3 G4].
  destruct e as [p pe| |p|]; cbn [gstep] in Hstep.
  - (* a pool event *)
    destruct (nth_error (pools g) p) as [s|] eqn:Es; [|discriminate].
    destruct (nth_error cfg p) as [n|] eqn:En; [|discriminate].
    destruct (pstep fixed n (parent_done g) s pe) as [s'|] eqn:Ep; [|discriminate].
    injection Hstep as <-.
    pose proof (G2 _ _ _ Es En) as HPs.
    pose proof (pstep_PI _ _ _ _ _ Ep HPs) as HPs'.
    pose proof (pstep_taken _ _ _ _ _ _ Ep) as Htk.
    constructor; cbn [pools eng cancelled parent_done].
    + rewrite upd_length. exact G1.
    + intros q s0 n0 Hq Hn. destruct (Nat.eq_dec p q) as [<-|Hne].
      * rewrite (nth_error_upd_eq _ _ _ _ _ Es) in Hq. injection Hq as <-. rewrite En in Hn. injection Hn as <-. exact HPs'.
      * rewrite (nth_error_upd_neq _ _ _ _ _ Hne) in Hq. apply (G2 _ _ _ Hq Hn).
    + intros He. destruct (G3 He) as [Ha Hr]. split.
      * unfold all_taken in *. rewrite (forallb_upd_same _ _ _ _ _ _ Es Htk). exact Ha.
      * intros s0 Hin Ht. apply In_upd in Hin as [->|Hin]; [|apply Hr; auto].
        rewrite Htk in Ht. eapply pstep_front_stable; eauto. apply Hr; auto. eapply nth_error_In; eauto.
    + intros er He. destruct (G4 er He) as (R1 & R2 & R3 & R4).
      split; [|split; [exact R2|split; [exact R3|exact R4]]].
      intros H. destruct (R1 H) as [Hf Hx]. split; [|exact Hx].
      intros s0 Hin. apply In_upd in Hin as [->|Hin]; [|apply Hf; auto].
      eapply pstep_front_stable; eauto. apply Hf. eapply nth_error_In; eauto.
  - (* the caller cancels *)
    destruct (cancelled g) eqn:Ec; [discriminate|]. injection Hstep as <-.
    constructor; cbn [pools eng cancelled parent_done]; auto.
    + intros q s0 n0 Hq Hn. eapply PI_parent_le; [|apply (G2 _ _ _ Hq Hn)]. intros _. reflexivity.
    + intros er He. destruct (G4 er He) as (R1 & R2 & R3 & R4).
      split; [exact R1|split; [exact R2|split; [exact R3|intros _; reflexivity]]].
  - (* Engine.Run receives a pool result *)
    destruct (eng g) eqn:Ee; [discriminate|].
    destruct (nth_error (pools g) p) as [s|] eqn:Es; [|discriminate].
    destruct (front s) as [r|] eqn:Ef; [|discriminate].
    destruct (taken s) eqn:Et; [discriminate|].
    destruct (G3 eq_refl) as [Ha Hr].
    assert (Hlen : exists n, nth_error cfg p = Some n).
    { destruct (nth_error cfg p) eqn:En; eauto. apply nth_error_None in En.
      assert (p < length (pools g)) by (apply nth_error_Some; congruence). lia. }
    destruct Hlen as [n En].
    pose proof (G2 _ _ _ Es En) as HPs.
    assert (Hpd : parent_done g = cancelled g) by (unfold parent_done; rewrite Ee; apply orb_false_r).
    assert (Hpools : forall b q s0 n0, nth_error (upd p (set_taken s) (pools g)) q = Some s0 -> nth_error cfg q = Some n0 ->
                     (parent_done g = true -> b = true) -> PI n0 b s0).
    { intros b q s0 n0 Hq Hn Hb. destruct (Nat.eq_dec p q) as [<-|Hne].
      - rewrite (nth_error_upd_eq _ _ _ _ _ Es) in Hq. injection Hq as <-. rewrite En in Hn. injection Hn as <-.
        apply PI_set_taken. eapply PI_parent_le; eauto.
      - rewrite (nth_error_upd_neq _ _ _ _ _ Hne) in Hq. eapply PI_parent_le; [exact Hb|]. apply (G2 _ _ _ Hq Hn). }
    assert (Htaken' : forall s0, In s0 (upd p (set_taken s) (pools g)) -> taken s0 = true -> front s0 = Some r \/ front s0 = Some RNil).
    { intros s0 Hin Ht0. apply In_upd in Hin as [->|Hin]; [left; exact Ef|right; apply Hr; auto]. }
    destruct r as [| |c].
    + (* nil *)
      destruct (all_taken (upd p (set_taken s) (pools g))) eqn:Eat; injection Hstep as <-.
      * assert (Hall : forall s0, In s0 (upd p (set_taken s) (pools g)) -> front s0 = Some RNil).
        { intros s0 Hin. unfold all_taken in Eat. rewrite forallb_forall in Eat.
          destruct (Htaken' s0 Hin (Eat _ Hin)); auto. }
        constructor; cbn [pools eng cancelled parent_done mk_eret]; auto.
        -- rewrite upd_length. exact G1.
        -- intros q s0 n0 Hq Hn. eapply Hpools; eauto; try (intros _; apply orb_true_r).
        -- discriminate.
        -- intros er He. injection He as <-. unfold mk_eret. cbn [er_res er_cancelled er_fails]. repeat split; auto; try discriminate.
           destruct (cancelled g) eqn:Ec; [right; reflexivity|left].
           unfold all_fails. apply all_fails_from_nil. intros s0 Hin.
           assert (Hf0 : front s0 = Some RNil).
           { destruct (In_nth_error _ _ Hin) as [q Hq]. destruct (Nat.eq_dec p q) as [<-|Hne].
             - rewrite Es in Hq. injection Hq as <-. exact Ef.
             - apply Hall. rewrite <- (nth_error_upd_neq _ _ p q (set_taken s) Hne) in Hq. eapply nth_error_In; eauto. }
           destruct (In_nth_error _ _ Hin) as [q Hq].
           assert (exists n0, nth_error cfg q = Some n0) as [n0 Hn0].
           { destruct (nth_error cfg q) eqn:E0; eauto. apply nth_error_None in E0.
             assert (q < length (pools g)) by (apply nth_error_Some; congruence). lia. }
           pose proof (G2 _ _ _ Hq Hn0) as HP0. rewrite Hpd in HP0.
           destruct (pi_front_nil _ _ _ HP0 Hf0) as [_ [Hz|Hz]]; [exact Hz|discriminate].
      * constructor; cbn [pools eng cancelled parent_done]; auto.
        -- rewrite upd_length. exact G1.
        -- intros q s0 n0 Hq Hn. eapply Hpools; eauto. unfold parent_done. rewrite Ee. auto.
        -- intros _. split; [exact Eat|]. intros s0 Hin Ht0. destruct (Htaken' s0 Hin Ht0); auto.
        -- discriminate.
    + (* ctx error from the pool *)
      injection Hstep as <-.
      assert (Hc : cancelled g = true).
      { rewrite <- Hpd. eapply pi_front_ctx; eauto. }
      rewrite Hc. constructor; cbn [pools eng cancelled parent_done mk_eret]; auto.
      * rewrite upd_length. exact G1.
      * intros q s0 n0 Hq Hn. eapply Hpools; eauto; try (intros _; apply orb_true_r).
      * discriminate.
      * intros er He. injection He as <-. unfold mk_eret. cbn [er_res er_cancelled er_fails]. repeat split; auto; try discriminate.
    + (* a failure from the pool *)
      injection Hstep as <-.
      constructor; cbn [pools eng cancelled parent_done mk_eret]; auto.
      * rewrite upd_length. exact G1.
      * intros q s0 n0 Hq Hn. eapply Hpools; eauto; try (intros _; apply orb_true_r).
      * discriminate.
      * intros er He. injection He as <-. unfold mk_eret. cbn [er_res er_cancelled er_fails].
        destruct (cancelled g) eqn:Ec; repeat split; auto; try discriminate.
        injection H as <-. exists p.
        unfold all_fails. apply (all_fails_from_In (pools g) 0 p s c Es). eapply pi_front_fail; eauto.
  - (* Engine.Run takes ctx.Done *)
    destruct (eng g) eqn:Ee; [discriminate|].
    destruct (cancelled g) eqn:Ec; [|discriminate]. injection Hstep as <-.
    constructor; cbn [pools eng cancelled parent_done mk_eret]; auto.
    + intros q s0 n0 Hq Hn. eapply PI_parent_le; [|apply (G2 _ _ _ Hq Hn)]. intros _. reflexivity.
    + intros er He. injection He as <-. unfold mk_eret. cbn [er_res er_cancelled er_fails]. rewrite Ec. repeat split; auto; try discriminate.
Qed.

Lemma grun_GI : forall cfg tr g g', GI cfg g -> grun fixed cfg g tr = Some g' -> GI cfg g'.
Proof.
  intros cfg tr. induction tr as [|e r IH]; intros g g' HG H; cbn in H.
  - injection H as <-. exact HG.
  - destruct (gstep fixed cfg g e) as [g1|] eqn:E; [|discriminate].
    eapply IH; [|exact H]. eapply gstep_GI; eauto.
Qed.

Definition reachable (cfg : list nat) (g : gstate) : Prop :=
  exists tr, grun fixed cfg (ginit cfg) tr = Some g.

Lemma reachable_GI : forall cfg g, reachable cfg g -> GI cfg g.
Proof. intros cfg g [tr H]. eapply grun_GI; [apply GI_init|exact H]. Qed.

(* the ghost fields of the engine's return record are what they are meant to be *)
Lemma eret_snapshot : forall v cfg g e g' er,
  gstep v cfg g e = Some g' -> eng g = None -> eng g' = Some er ->
  er_cancelled er = cancelled g /\ er_fails er = all_fails g.
Proof.
  intros v cfg g e g' er Hstep He He'.
  destruct e as [p pe| |p|]; cbn [gstep] in Hstep.
  - destruct (nth_error (pools g) p); [|discriminate]. destruct (nth_error cfg p); [|discriminate].
    destruct (pstep v n (parent_done g) p0 pe); [|discriminate]. injection Hstep as <-. cbn in He'. congruence.
  - destruct (cancelled g); [discriminate|]. injection Hstep as <-. cbn in He'. congruence.
  - rewrite He in Hstep. destruct (nth_error (pools g) p); [|discriminate].
    destruct (front p0) as [r|]; [|discriminate]. destruct (taken p0); [discriminate|].
    destruct r; [destruct (all_taken _)|..]; injection Hstep as <-; cbn in He'; try discriminate;
      injection He' as <-; split; reflexivity.
  - rewrite He in Hstep. destruct (cancelled g) eqn:Ec; [|discriminate]. injection Hstep as <-. cbn in He'.
    injection He' as <-. unfold mk_eret. cbn. rewrite Ec. split; reflexivity.
Qed.

(* ---------------------------------------------------------------------------------------- *)
(* Outcome *)

Lemma outcome_success_iff : forall cfg g er,
  reachable cfg g -> eng g = Some er -> er_cancelled er = false ->
  (er_res er = RNil <-> er_fails er = []).
Proof.
  intros cfg g er HR He Hc. destruct (gi_ret _ _ (reachable_GI _ _ HR) er He) as (R1 & R2 & R3 & R4).
  split.
  - intros H. destruct (R1 H) as [_ [H1|H1]]; [exact H1|congruence].
  - intros H. destruct (er_res er) as [| |c] eqn:Er; [reflexivity| |].
    + rewrite (R3 eq_refl) in Hc. discriminate.
    + destruct (R2 c eq_refl) as [_ [p Hp]]. rewrite H in Hp. contradiction.
Qed.

Lemma outcome_nil_complete : forall cfg g er,
  reachable cfg g -> eng g = Some er -> er_res er = RNil ->
  (forall p s n, nth_error (pools g) p = Some s -> nth_error cfg p = Some n ->
     front s = Some RNil /\ ph s = PhDone /\ awaited (aw s) = n /\ prov_pending (aw s) = false /\
     aggr_pending (aw s) = false /\ start_pending (aw s) = false) /\
  (er_fails er = [] \/ er_cancelled er = true).
Proof.
  intros cfg g er HR He Hr. pose proof (reachable_GI _ _ HR) as HG.
  destruct (gi_ret _ _ HG er He) as (R1 & _). destruct (R1 Hr) as [Hf Hx]. split; [|exact Hx].
  intros p s n Hs Hn. assert (Hfs : front s = Some RNil) by (apply Hf; eapply nth_error_In; eauto).
  pose proof (gi_pools _ _ HG _ _ _ Hs Hn) as HP.
  destruct (pi_front_nil _ _ _ HP Hfs) as [Hph _].
  destruct (pi_done _ _ _ HP Hph) as [Hw _].
  destruct (pi_ai _ _ _ HP (or_intror Hph)) as [A1 A2 A3 A4 A5].
  rewrite Hw in A1.
  destruct (prov_pending (aw s)), (aggr_pending (aw s)), (start_pending (aw s)), (run_open (aw s)) eqn:Eo; cbn in A1; try lia.
  destruct (A4 eq_refl) as [_ Haw]. repeat split; auto.
Qed.

Lemma outcome_error_carried : forall cfg g er,
  reachable cfg g -> eng g = Some er -> er_fails er <> [] -> er_cancelled er = false ->
  exists p c, er_res er = RFail c /\ In (p, c) (er_fails er).
Proof.
  intros cfg g er HR He Hf Hc. destruct (gi_ret _ _ (reachable_GI _ _ HR) er He) as (R1 & R2 & R3 & R4).
  destruct (er_res er) as [| |c] eqn:Er.
  - destruct (R1 eq_refl) as [_ [H|H]]; [contradiction|congruence].
  - rewrite (R3 eq_refl) in Hc. discriminate.
  - destruct (R2 c eq_refl) as [_ [p Hp]]. exists p, c. split; [reflexivity|exact Hp].
Qed.

Lemma outcome_fail_sound : forall cfg g er c,
  reachable cfg g -> eng g = Some er -> er_res er = RFail c ->
  er_cancelled er = false /\ exists p, In (p, c) (er_fails er).
Proof.
  intros cfg g er c HR He Hr. destruct (gi_ret _ _ (reachable_GI _ _ HR) er He) as (_ & R2 & _). apply R2. exact Hr.
Qed.

Lemma outcome_after_cancel : forall cfg g er,
  reachable cfg g -> eng g = Some er -> er_cancelled er = true ->
  er_res er = RCtx \/ (er_res er = RNil /\ forall s, In s (pools g) -> front s = Some RNil).
Proof.
  intros cfg g er HR He Hc. destruct (gi_ret _ _ (reachable_GI _ _ HR) er He) as (R1 & R2 & R3 & R4).
  destruct (er_res er) as [| |c] eqn:Er.
  - right. split; [reflexivity|]. apply R1. reflexivity.
  - left. reflexivity.
  - destruct (R2 c eq_refl) as [H _]. congruence.
Qed.

Lemma outcome_ctx_means_cancel : forall cfg g er,
  reachable cfg g -> eng g = Some er -> er_res er = RCtx -> er_cancelled er = true /\ cancelled g = true.
Proof.
  intros cfg g er HR He Hr. destruct (gi_ret _ _ (reachable_GI _ _ HR) er He) as (R1 & R2 & R3 & R4).
  split; auto.
Qed.

(* the executable specification holds of what the model returns *)
Lemma cause_in_spec : forall c l, cause_in c l = true <-> exists p, In (p, c) l.
Proof.
  intros c l. unfold cause_in. rewrite existsb_exists. split.
  - intros [[p c'] [Hin Heq]]. cbn in Heq. exists p. destruct c, c'; try discriminate; exact Hin.
  - intros [p Hin]. exists (p, c). split; [exact Hin|]. cbn. destruct c; reflexivity.
Qed.

Lemma spec_outcome_holds : forall cfg g er,
  reachable cfg g -> eng g = Some er ->
  spec_outcome_b (er_fails er) (er_cancelled er) (forallb front_is_nil (pools g)) (er_res er) = true.
Proof.
  intros cfg g er HR He. destruct (gi_ret _ _ (reachable_GI _ _ HR) er He) as (R1 & R2 & R3 & R4).
  unfold spec_outcome_b. destruct (er_res er) as [| |c] eqn:Er.
  - destruct (R1 eq_refl) as [Hf Hx]. apply andb_true_iff. split.
    + apply forallb_forall. intros s Hin. unfold front_is_nil. rewrite (Hf s Hin). reflexivity.
    + destruct Hx as [H|H]; rewrite H; [reflexivity|apply orb_true_r].
  - apply R3. reflexivity.
  - destruct (R2 c eq_refl) as [H1 H2]. rewrite H1. cbn. apply cause_in_spec. exact H2.
Qed.

(* prompt: once the caller has cancelled, Engine.Run's select can fire without any component,
   and so can the select of every pool front that reached it *)
Lemma cancel_engine_enabled : forall v cfg g,
  cancelled g = true -> eng g = None -> exists g', gstep v cfg g GvEngCtx = Some g' /\ option_map er_res (eng g') = Some RCtx.
Proof.
  intros v cfg g Hc He. cbn [gstep]. rewrite He, Hc. eexists. split; [reflexivity|]. reflexivity.
Qed.

Lemma cancel_front_enabled : forall v n s,
  front s = None -> (ph s = PhAwait \/ ph s = PhDone) ->
  exists s', pstep v n true s PvFrontCtx = Some s' /\ front s' = Some RCtx.
Proof.
  intros v n s Hf [Hp|Hp]; cbn [pstep]; rewrite Hp, Hf; eexists; split; reflexivity.
Qed.

(* ---------------------------------------------------------------------------------------- *)
(* Termination *)

Lemma PI_wait_done_le1 : forall n parent s, PI n parent s -> wait_done s <= 1.
Proof.
  intros n parent s HP. destruct (ph s) eqn:Eph.
  - destruct (pi_init _ _ _ HP Eph) as (_ & _ & H & _). lia.
  - destruct (pi_await _ _ _ HP Eph) as [_ H]. lia.
  - destruct (pi_done _ _ _ HP Eph) as [_ H]. lia.
  - destruct (pi_prefailed _ _ _ HP Eph) as [H _]. lia.
Qed.

Lemma wait_done_at_most_once : forall cfg g s, reachable cfg g -> In s (pools g) -> wait_done s <= 1.
Proof.
  intros cfg g s HR Hin. pose proof (reachable_GI _ _ HR) as HG.
  destruct (In_nth_error _ _ Hin) as [p Hp].
  assert (exists n, nth_error cfg p = Some n) as [n Hn].
  { destruct (nth_error cfg p) eqn:E0; eauto. apply nth_error_None in E0.
    assert (p < length (pools g)) by (apply nth_error_Some; congruence). rewrite (gi_len _ _ HG) in H. lia. }
  eapply PI_wait_done_le1. eapply gi_pools; eauto.
Qed.

Lemma cfg_index : forall cfg g p s, GI cfg g -> nth_error (pools g) p = Some s -> exists n, nth_error cfg p = Some n.
Proof.
  intros cfg g p s HG Hp. destruct (nth_error cfg p) eqn:E0; eauto. apply nth_error_None in E0.
  assert (p < length (pools g)) by (apply nth_error_Some; congruence). rewrite (gi_len _ _ HG) in H. lia.
Qed.

(* what holds of every pool once nothing is left to run *)
Definition pool_final (n : nat) (s : pstate) : Prop :=
  wait_done s = 1 /\ panicked s = false /\ created s = closed s + unbound s /\ front s <> None /\
  (ph s = PhPreFailed \/
   (ph s = PhDone /\ prov_pending (aw s) = false /\ aggr_pending (aw s) = false /\ start_pending (aw s) = false /\
    run_open (aw s) = false /\ started (aw s) = n /\ awaited (aw s) = n /\ run_cancelled s = true)).

Lemma terminal_final : forall cfg g,
  reachable cfg g -> terminal g = true ->
  eng g <> None /\ wait_returns g = true /\
  forall p s n, nth_error (pools g) p = Some s -> nth_error cfg p = Some n -> pool_final n s.
Proof.
  intros cfg g HR Ht. pose proof (reachable_GI _ _ HR) as HG.
  unfold terminal in Ht. apply andb_true_iff in Ht as [He Hall]. rewrite forallb_forall in Hall.
  assert (Hfin : forall p s n, nth_error (pools g) p = Some s -> nth_error cfg p = Some n -> pool_final n s).
  { intros p s n Hp Hn. pose proof (gi_pools _ _ HG _ _ _ Hp Hn) as HP.
    pose proof (Hall s (nth_error_In _ _ Hp)) as Hf. unfold pool_finished in Hf.
    apply andb_true_iff in Hf as [Hf1 Hf2].
    unfold pool_final. split; [|split; [apply (pi_nopanic _ _ _ HP)|split; [apply (pi_guns _ _ _ HP)|split]]].
    - destruct (ph s) eqn:Eph; try discriminate.
      + apply (pi_done _ _ _ HP Eph). + apply (pi_prefailed _ _ _ HP Eph).
    - destruct (front s); [discriminate|discriminate].
    - destruct (ph s) eqn:Eph; try discriminate; [right|left; reflexivity].
      destruct (pi_done _ _ _ HP Eph) as [Hw _].
      assert (Haw : awaiting s) by (right; exact Eph).
      destruct (pi_ai _ _ _ HP Haw) as [A1 A2 A3 A4 A5]. rewrite Hw in A1.
      destruct (prov_pending (aw s)), (aggr_pending (aw s)), (start_pending (aw s)) eqn:Esp, (run_open (aw s)) eqn:Eo; cbn in A1; try lia.
      destruct (A4 eq_refl) as [_ Ha]. repeat split; auto. apply (pi_runcancel _ _ _ HP Haw Eo). }
  split; [destruct (eng g); [discriminate|discriminate]|]. split; [|exact Hfin].
  unfold wait_returns. apply forallb_forall. intros s Hin.
  destruct (In_nth_error _ _ Hin) as [p Hp]. destruct (cfg_index _ _ _ _ HG Hp) as [n Hn].
  destruct (Hfin _ _ _ Hp Hn) as [Hw _]. rewrite Hw. reflexivity.
Qed.

(* the await loop is always able to take any result that is still outstanding: its only
   blocking point inside an iteration, the select of onErrAwaited, always has an arm that fires *)
Definition pending (a : await) (m : msg) : bool :=
  match m with
  | ProvRes _ => prov_pending a | AggrRes _ => aggr_pending a
  | StartRes _ _ => start_pending a | RunRes _ _ => run_open a
  end.

Lemma pstep_msg_enabled : forall v n parent s m ch,
  ph s = PhAwait -> msg_allowed n parent s m = true ->
  step_await (mk_aenv v parent s) (aw s) m ch <> None ->
  pstep v n parent s (PvMsg m ch) <> None.
Proof.
  intros v n parent s m ch Hp Ha Hs. cbn [pstep]. rewrite Hp, Ha.
  destruct (step_await (mk_aenv v parent s) (aw s) m ch) as [[a' effs]|]; [|contradiction].
  destruct (msg_guns m) as [[gc gl] gu]. discriminate.
Qed.

Lemma on_err_awaited_receptive : forall parent s c,
  exists ch, on_err_awaited (mk_aenv fixed parent s) c ch <> None.
Proof.
  intros parent s c. destruct (front s) eqn:Ef.
  - exists ChSuppress. cbn. unfold pctx_done. rewrite Ef. rewrite orb_true_r. discriminate.
  - exists ChSend. cbn. rewrite Ef. discriminate.
Qed.

Lemma await_receptive : forall n parent s m,
  ph s = PhAwait -> msg_allowed n parent s m = true -> pending (aw s) m = true ->
  exists ch, pstep fixed n parent s (PvMsg m ch) <> None.
Proof.
  intros n parent s m Hp Ha Hpend.
  destruct (on_err_awaited_receptive parent s (err_cause (match m with ProvRes e | AggrRes e | StartRes _ e | RunRes _ e => e end))) as [ch Hch].
  exists ch. apply pstep_msg_enabled; auto.
  destruct m as [e|e|k e|id e]; cbn [step_await pending] in *; rewrite Hpend.
  - destruct (is_ctx_error _ e); [discriminate|]. destruct (on_err_awaited _ _ ch); [discriminate|contradiction].
  - destruct (is_ctx_error _ e); [discriminate|]. destruct (on_err_awaited _ _ ch); [discriminate|contradiction].
  - destruct (is_ctx_error _ e); [discriminate|]. destruct (on_err_awaited _ _ ch); [discriminate|contradiction].
  - destruct e; try discriminate.
    + destruct (is_ctx_error _ ECtx); [discriminate|]. destruct (on_err_awaited _ _ ch); [discriminate|contradiction].
    + destruct (on_err_awaited _ _ ch); [discriminate|contradiction].
Qed.

(* some outstanding result with a nil error can always be delivered *)
Lemma pool_msg_progress : forall n parent s,
  PI n parent s -> ph s = PhAwait -> exists m, pstep fixed n parent s (PvMsg m ChSend) <> None.
Proof.
  intros n parent s HP Hp. destruct (pi_await _ _ _ HP Hp) as [Hpos _].
  destruct (pi_ai _ _ _ HP (or_introl Hp)) as [A1 A2 A3 A4 A5].
  destruct (prov_pending (aw s)) eqn:E1.
  { exists (ProvRes ENil). apply pstep_msg_enabled; auto. cbn. rewrite E1. discriminate. }
  destruct (aggr_pending (aw s)) eqn:E2.
  { exists (AggrRes ENil). apply pstep_msg_enabled; auto. cbn. rewrite E2. discriminate. }
  destruct (start_pending (aw s)) eqn:E3.
  { exists (StartRes n ENil). apply pstep_msg_enabled; auto.
    - cbn. rewrite Nat.eqb_refl. reflexivity.
    - cbn. rewrite E3. discriminate. }
  destruct (run_open (aw s)) eqn:E4.
  { exists (RunRes 0 ENil). apply pstep_msg_enabled; auto.
    - cbn. rewrite andb_true_r. apply Nat.ltb_lt. apply A5; reflexivity.
    - cbn. rewrite E4. discriminate. }
  cbn in A1. lia.
Qed.

Lemma forallb_false_ex : forall A (f : A -> bool) l, forallb f l = false -> exists x, In x l /\ f x = false.
Proof.
  induction l as [|y r IH]; cbn; intros H; [discriminate|].
  destruct (f y) eqn:E; cbn in H.
  - destruct (IH H) as [x [Hx Hf]]. exists x. split; auto.
  - exists y. split; auto.
Qed.

(* no deadlock: in every reachable state that is not terminal some step other than the caller's
   cancel is possible (given that outstanding components deliver their result) *)
Lemma progress : forall cfg g,
  reachable cfg g -> terminal g = false ->
  exists e, e <> GvCancel /\ gstep fixed cfg g e <> None.
Proof.
  intros cfg g HR Ht. pose proof (reachable_GI _ _ HR) as HG.
  assert (Hpool : forall p s n pe, nth_error (pools g) p = Some s -> nth_error cfg p = Some n ->
             pstep fixed n (parent_done g) s pe <> None -> gstep fixed cfg g (GvPool p pe) <> None).
  { intros p s n pe Hp Hn Hs. cbn [gstep]. rewrite Hp, Hn. destruct (pstep fixed n (parent_done g) s pe); [discriminate|contradiction]. }
  destruct (eng g) as [er|] eqn:Ee.
  - (* Engine.Run has returned: some pool is not finished *)
    unfold terminal in Ht. rewrite Ee in Ht. cbn in Ht.
    destruct (forallb_false_ex _ _ _ Ht) as [s [Hin Hnf]].
    destruct (In_nth_error _ _ Hin) as [p Hp]. destruct (cfg_index _ _ _ _ HG Hp) as [n Hn].
    pose proof (gi_pools _ _ HG _ _ _ Hp Hn) as HP.
    assert (Hpar : parent_done g = true) by (unfold parent_done; rewrite Ee; apply orb_true_r).
    unfold pool_finished in Hnf.
    destruct (ph s) eqn:Eph.
    + exists (GvPool p (PvPre PreOk)). split; [discriminate|]. eapply Hpool; eauto. cbn. rewrite Eph. discriminate.
    + destruct (pool_msg_progress _ _ _ HP Eph) as [m Hm].
      exists (GvPool p (PvMsg m ChSend)). split; [discriminate|]. eapply Hpool; eauto.
    + destruct (front s) eqn:Ef; [cbn in Hnf; discriminate|].
      exists (GvPool p PvFrontCtx). split; [discriminate|]. eapply Hpool; eauto. cbn. rewrite Eph, Ef, Hpar. discriminate.
    + destruct (pi_prefailed _ _ _ HP Eph) as [_ [c Hc]]. rewrite Hc in Hnf. discriminate.
  - destruct (cancelled g) eqn:Ec.
    + exists GvEngCtx. split; [discriminate|]. cbn. rewrite Ee, Ec. discriminate.
    + destruct (gi_running _ _ HG Ee) as [Hat _].
      destruct (forallb_false_ex _ _ _ Hat) as [s [Hin Hnt]].
      destruct (In_nth_error _ _ Hin) as [p Hp]. destruct (cfg_index _ _ _ _ HG Hp) as [n Hn].
      pose proof (gi_pools _ _ HG _ _ _ Hp Hn) as HP.
      destruct (front s) as [r|] eqn:Ef.
      * exists (GvEngRecv p). split; [discriminate|]. cbn. rewrite Ee, Hp, Ef, Hnt.
        destruct r; try destruct (all_taken (upd p (set_taken s) (pools g))); intro Hx; discriminate Hx.
      * destruct (ph s) eqn:Eph.
        -- exists (GvPool p (PvPre PreOk)). split; [discriminate|]. eapply Hpool; eauto. cbn. rewrite Eph. discriminate.
        -- destruct (pool_msg_progress _ _ _ HP Eph) as [m Hm].
           exists (GvPool p (PvMsg m ChSend)). split; [discriminate|]. eapply Hpool; eauto.
        -- exists (GvPool p PvFrontClosed). split; [discriminate|]. eapply Hpool; eauto. cbn. rewrite Eph, Ef. discriminate.
        -- destruct (pi_prefailed _ _ _ HP Eph) as [_ [c Hc]]. congruence.
Qed.

(* ---------------------------------------------------------------------------------------- *)
(* Every step consumes something: executions are finite, with an explicit bound *)

Definition await_measure (n : nat) (a : await) : nat :=
  b2n (prov_pending a) + b2n (aggr_pending a) + b2n (start_pending a) +
  (if run_open a then S (n - awaited a) else 0).

Definition pmeasure (n : nat) (s : pstate) : nat :=
  b2n (negb (taken s)) + b2n (negb (is_some (front s))) +
  match ph s with
  | PhInit => n + 7
  | PhAwait => await_measure n (aw s) + b2n (negb (sched_fin s))
  | _ => 0
  end.

Lemma check_finished_measure : forall n a,
  await_measure n (fst (check_finished a)) <= await_measure n a.
Proof.
  intros n a. unfold check_finished.
  destruct (negb (start_pending a) && (started a <=? awaited a)); [|cbn; lia].
  destruct (run_open a) eqn:Eo; cbn; [|lia]. unfold await_measure. cbn. rewrite Eo. lia.
Qed.

Lemma step_await_measure : forall n env a m ch a' effs,
  kind_ok n a m -> step_await env a m ch = Some (a', effs) -> await_measure n a' < await_measure n a.
Proof.
  intros n env a m ch a' effs Hk H.
  destruct m as [e|e|k e|id e]; cbn [step_await] in H.
  - destruct (prov_pending a) eqn:Ep; [|discriminate].
    destruct (is_ctx_error (e_runctx env) e); [|destruct (on_err_awaited env (err_cause e) ch); [|discriminate]];
      cbn in H; injection H as <- <-; unfold await_measure; cbn; rewrite Ep; cbn; lia.
  - destruct (aggr_pending a) eqn:Ep; [|discriminate].
    destruct (is_ctx_error (e_runctx env) e); [|destruct (on_err_awaited env (err_cause e) ch); [|discriminate]];
      cbn in H; injection H as <- <-; unfold await_measure; cbn; rewrite Ep; cbn; lia.
  - destruct (start_pending a) eqn:Ep; [|discriminate].
    match type of H with context [check_finished ?a1] => pose proof (check_finished_measure n a1) as Hm end.
    assert (Hlt : forall x, await_measure n x <= await_measure n
               {| toWait := toWait a - 1; started := k; awaited := awaited a; prov_pending := prov_pending a;
                  aggr_pending := aggr_pending a; start_pending := false; run_open := run_open a |} ->
               await_measure n x < await_measure n a).
    { intros x Hx. eapply Nat.le_lt_trans; [exact Hx|]. unfold await_measure. cbn. rewrite Ep. cbn. lia. }
    destruct (is_ctx_error (e_startctx env) e); [|destruct (on_err_awaited env (err_cause e) ch); [|discriminate]];
      cbn in H; injection H as <- <-; apply Hlt; exact Hm.
  - destruct (run_open a) eqn:Ep; [|discriminate]. cbn [kind_ok] in Hk.
    match type of H with context [check_finished ?a1] => pose proof (check_finished_measure n a1) as Hm end.
    assert (Hlt : forall x, await_measure n x <= await_measure n
               {| toWait := toWait a; started := started a; awaited := S (awaited a); prov_pending := prov_pending a;
                  aggr_pending := aggr_pending a; start_pending := start_pending a; run_open := true |} ->
               await_measure n x < await_measure n a).
    { intros x Hx. eapply Nat.le_lt_trans; [exact Hx|]. unfold await_measure. cbn. rewrite Ep. lia. }
    destruct e as [| | |c].
    + cbn in H. injection H as <- <-. apply Hlt; exact Hm.
    + cbn [is_ctx_error] in H. destruct (e_runctx env); [|destruct (on_err_awaited env (err_cause ECtx) ch); [|discriminate]];
        cbn in H; injection H as <- <-; apply Hlt; exact Hm.
    + injection H as <- <-. apply Hlt; exact Hm.
    + cbn [is_ctx_error] in H. destruct (on_err_awaited env (err_cause (EFail c)) ch); [|discriminate].
      cbn in H. injection H as <- <-. apply Hlt; exact Hm.
Qed.

Lemma apply_effects_front_some : forall effs s,
  is_some (front s) = true -> is_some (front (apply_effects effs s)) = true.
Proof.
  induction effs as [|eff r IH]; intros s H; cbn [apply_effects]; auto.
  apply IH. destruct eff; cbn; auto.
Qed.

Lemma b2n_le1 : forall b, b2n b <= 1.
Proof. destruct b; cbn; lia. Qed.

Lemma pstep_measure : forall v n parent s e s',
  pstep v n parent s e = Some s' -> pmeasure n s' < pmeasure n s.
Proof.
  intros v n parent s e s' Hstep.
  destruct e as [o|m ch| | |]; cbn [pstep] in Hstep.
  - destruct (ph s) eqn:Eph; try discriminate. unfold pmeasure. rewrite Eph.
    destruct o; injection Hstep as <-; unfold pre_failed; cbn.
    + pose proof (b2n_le1 (negb (sched_fin s))). lia.
    + pose proof (b2n_le1 (negb (is_some (front s)))). lia.
    + pose proof (b2n_le1 (negb (is_some (front s)))). lia.
    + pose proof (b2n_le1 (negb (is_some (front s)))). lia.
  - destruct (ph s) eqn:Eph; try discriminate.
    destruct (msg_allowed n parent s m) eqn:Eal; [|discriminate].
    destruct (step_await (mk_aenv v parent s) (aw s) m ch) as [[a' effs]|] eqn:Est; [|discriminate].
    destruct (msg_allowed_kind_ctx v _ _ _ _ Eal) as [Hk _].
    pose proof (step_await_measure _ _ _ _ _ _ _ Hk Est) as Hm.
    destruct (msg_guns m) as [[gc gl] gu]. injection Hstep as <-.
    match goal with |- pmeasure _ (apply_effects ?e ?s1) < _ =>
      destruct (apply_effects_fields e s1) as (E1 & E2 & E3 & _ & _ & _ & _ & _ & E9 & _ & _ & E12);
      pose proof (apply_effects_fields e s1) as Hall end.
    cbn zeta in *. unfold pmeasure. rewrite E1, E2, E3, E9, Eph. cbn [ph aw taken sched_fin].
    assert (Hfr : b2n (negb (is_some (front (apply_effects effs
                {| ph := if toWait a' =? 0 then PhDone else PhAwait; aw := a'; run_cancelled := run_cancelled s;
                   start_cancelled := start_cancelled s; sched_fin := sched_fin s; front := front s; taken := taken s;
                   wait_done := wait_done s + (if toWait a' =? 0 then 1 else 0); fails := msg_fail m ++ fails s;
                   created := created s + gc; closed := closed s + gl; unbound := unbound s + gu;
                   panicked := panicked s |})))) <= b2n (negb (is_some (front s)))).
    { clear -E12. destruct (existsb is_send effs) eqn:Es.
      - destruct (front s) eqn:Ef; cbn; [|apply b2n_le1].
        (* the front had returned: a send is impossible, but the bound holds anyway *)
        rewrite apply_effects_front_some; [cbn; lia|reflexivity].
      - rewrite (E12 eq_refl). cbn. lia. }
    destruct (toWait a' =? 0); lia.
  - destruct (ph s) eqn:Eph; try discriminate. destruct (sched_fin s) eqn:Esf; [discriminate|].
    injection Hstep as <-. unfold pmeasure. cbn. rewrite Eph, Esf. cbn. lia.
  - destruct (ph s) eqn:Eph; try discriminate; destruct (front s) eqn:Ef; try discriminate;
      destruct parent; try discriminate; injection Hstep as <-; unfold pmeasure; cbn; rewrite Eph, Ef; cbn; lia.
  - destruct (ph s) eqn:Eph; try discriminate; destruct (front s) eqn:Ef; try discriminate;
      injection Hstep as <-; unfold pmeasure; cbn; rewrite Eph, Ef; cbn; lia.
Qed.

Fixpoint pm_sum (cfg : list nat) (ps : list pstate) : nat :=
  match cfg, ps with
  | n :: c, s :: r => pmeasure n s + pm_sum c r
  | _, _ => 0
  end.

Definition gmeasure (cfg : list nat) (g : gstate) : nat :=
  b2n (negb (cancelled g)) + b2n (negb (is_some (eng g))) + pm_sum cfg (pools g).

Lemma pm_sum_upd : forall cfg ps p s s' n,
  nth_error ps p = Some s -> nth_error cfg p = Some n ->
  pm_sum cfg (upd p s' ps) + pmeasure n s = pm_sum cfg ps + pmeasure n s'.
Proof.
  induction cfg as [|m c IH]; intros [|z r] [|p] s s' n Hs Hn; cbn in *; try discriminate.
  - injection Hs as ->. injection Hn as ->. lia.
  - pose proof (IH r p s s' n Hs Hn). lia.
Qed.

Lemma gstep_len : forall v cfg g e g', gstep v cfg g e = Some g' -> length (pools g') = length (pools g).
Proof.
  intros v cfg g e g' Hstep.
  destruct e as [p pe| |p|]; cbn [gstep] in Hstep.
  - destruct (nth_error (pools g) p); [|discriminate]. destruct (nth_error cfg p); [|discriminate].
    destruct (pstep v n (parent_done g) p0 pe); [|discriminate]. injection Hstep as <-. cbn. apply upd_length.
  - destruct (cancelled g); [discriminate|]. injection Hstep as <-. reflexivity.
  - destruct (eng g); [discriminate|]. destruct (nth_error (pools g) p); [|discriminate].
    destruct (front p0) as [r|]; [|discriminate]. destruct (taken p0); [discriminate|].
    destruct r; [destruct (all_taken _)|..]; injection Hstep as <-; cbn; apply upd_length.
  - destruct (eng g); [discriminate|]. destruct (cancelled g); [|discriminate]. injection Hstep as <-. reflexivity.
Qed.

Lemma gstep_measure : forall v cfg g e g',
  length (pools g) = length cfg -> gstep v cfg g e = Some g' -> gmeasure cfg g' < gmeasure cfg g.
Proof.
  intros v cfg g e g' Hlen Hstep. unfold gmeasure.
  destruct e as [p pe| |p|]; cbn [gstep] in Hstep.
  - destruct (nth_error (pools g) p) as [s|] eqn:Es; [|discriminate].
    destruct (nth_error cfg p) as [n|] eqn:En; [|discriminate].
    destruct (pstep v n (parent_done g) s pe) as [s'|] eqn:Ep; [|discriminate].
    injection Hstep as <-. cbn [pools eng cancelled].
    pose proof (pstep_measure _ _ _ _ _ _ Ep). pose proof (pm_sum_upd cfg (pools g) p s s' n Es En). lia.
  - destruct (cancelled g) eqn:Ec; [discriminate|]. injection Hstep as <-. cbn. lia.
  - destruct (eng g) eqn:Ee; [discriminate|].
    destruct (nth_error (pools g) p) as [s|] eqn:Es; [|discriminate].
    destruct (front s) as [r|] eqn:Ef; [|discriminate].
    destruct (taken s) eqn:Et; [discriminate|].
    assert (exists n, nth_error cfg p = Some n \/ nth_error cfg p = None) as [n Hn].
    { destruct (nth_error cfg p); [eexists; left; reflexivity|exists 0; right; reflexivity]. }
    assert (Hdec : pm_sum cfg (upd p (set_taken s) (pools g)) <= pm_sum cfg (pools g) /\
                   (nth_error cfg p <> None -> pm_sum cfg (upd p (set_taken s) (pools g)) < pm_sum cfg (pools g))).
    { clear -Es Et. revert p Es. generalize (pools g). induction cfg as [|m c IH]; intros [|z r] [|p] Es; cbn in *; try discriminate; try (split; [lia|congruence]).
      - injection Es as ->. unfold pmeasure. cbn. rewrite Et. cbn. split; [lia|intros _; lia].
      - destruct (IH r p Es) as [H1 H2]. split; [lia|]. intros H. specialize (H2 H). lia. }
    destruct Hdec as [_ Hlt].
    assert (Hlt' : pm_sum cfg (upd p (set_taken s) (pools g)) < pm_sum cfg (pools g)).
    { apply Hlt. intros E0. apply nth_error_None in E0.
      assert (p < length (pools g)) by (apply nth_error_Some; congruence). lia. }
    destruct r; [destruct (all_taken _)|..]; injection Hstep as <-; cbn [pools eng cancelled is_some negb b2n]; lia.
  - destruct (eng g) eqn:Ee; [discriminate|]. destruct (cancelled g) eqn:Ec; [|discriminate].
    injection Hstep as <-. cbn. lia.
Qed.

Lemma grun_length : forall v cfg tr g g',
  length (pools g) = length cfg -> grun v cfg g tr = Some g' -> length tr + gmeasure cfg g' <= gmeasure cfg g.
Proof.
  intros v cfg tr. induction tr as [|e r IH]; intros g g' Hlen H; cbn in H.
  - injection H as <-. cbn. lia.
  - destruct (gstep v cfg g e) as [g1|] eqn:E; [|discriminate].
    pose proof (gstep_measure _ _ _ _ _ Hlen E). pose proof (gstep_len _ _ _ _ _ E) as Hl.
    assert (Hlen1 : length (pools g1) = length cfg) by congruence.
    pose proof (IH _ _ Hlen1 H). cbn [length]. lia.
Qed.

Fixpoint cfg_bound (cfg : list nat) : nat :=
  match cfg with [] => 0 | n :: c => n + 9 + cfg_bound c end.

Lemma pm_sum_init : forall cfg, pm_sum cfg (map (fun _ => pstate_init) cfg) = cfg_bound cfg.
Proof. induction cfg as [|n c IH]; cbn; auto. rewrite IH. unfold pmeasure. cbn. lia. Qed.

(* every execution from the initial state has at most 2 + sum (n_i + 9) steps *)
Lemma run_bounded : forall v cfg tr g,
  grun v cfg (ginit cfg) tr = Some g -> length tr <= 2 + cfg_bound cfg.
Proof.
  intros v cfg tr g H.
  assert (Hlen : length (pools (ginit cfg)) = length cfg) by (cbn; apply map_length).
  pose proof (grun_length _ _ _ _ _ Hlen H) as Hb.
  assert (gmeasure cfg (ginit cfg) <= 2 + cfg_bound cfg).
  { unfold gmeasure. cbn [ginit pools cancelled eng]. rewrite pm_sum_init.
    pose proof (b2n_le1 (negb (is_some (match cfg with [] => Some {| er_res := RNil; er_cancelled := false; er_fails := [] |} | _ :: _ => None end)))).
    cbn. lia. }
  lia.
Qed.

(* ---------------------------------------------------------------------------------------- *)
(* The tree before the two fix commits (variant [orig]): the full statements were false *)

(* #4: the shared RPS schedule cannot be created: Run returns, nothing is left to run, Wait() hangs *)
Definition refute4_trace : list gevent := [GvPool 0 (PvPre PreSchedFail); GvEngRecv 0].

Lemma orig_wait_hangs :
  exists g, grun orig [1] (ginit [1]) refute4_trace = Some g /\ terminal g = true /\ wait_returns g = false.
Proof. eexists. split; [vm_compute; reflexivity|]. split; vm_compute; reflexivity. Qed.

(* #5: the provider fails, its error is awaited after all instances finished and is dropped *)
Definition refute5_trace : list gevent :=
  [GvPool 0 (PvPre PreOk);
   GvPool 0 (PvMsg (StartRes 1 ENil) ChSend);
   GvPool 0 (PvMsg (RunRes 0 EOutOfAmmo) ChSend);
   GvPool 0 (PvMsg (ProvRes (EFail CProv)) ChSuppress);
   GvPool 0 (PvMsg (AggrRes ENil) ChSend);
   GvPool 0 PvFrontClosed;
   GvEngRecv 0].

Lemma orig_error_dropped :
  exists g er, grun orig [1] (ginit [1]) refute5_trace = Some g /\ eng g = Some er /\
    er_res er = RNil /\ er_cancelled er = false /\ er_fails er = [(0, CProv)].
Proof. eexists. eexists. split; [vm_compute; reflexivity|]. repeat split. Qed.

(* the same histories are impossible / harmless after the fixes *)
Lemma fixed_rejects_refute5 : grun fixed [1] (ginit [1]) refute5_trace = None.
Proof. vm_compute. reflexivity. Qed.

Lemma fixed_wait_returns_refute4 :
  exists g, grun fixed [1] (ginit [1]) refute4_trace = Some g /\ terminal g = true /\ wait_returns g = true.
Proof. eexists. split; [vm_compute; reflexivity|]. split; vm_compute; reflexivity. Qed.

(* #25: closable guns that are never handed to an instance stay open *)
Lemma guns_closed_refuted :
  exists g, grun fixed [1] (ginit [1])
     [GvPool 0 (PvPre PreOk); GvPool 0 (PvMsg (StartRes 1 ENil) ChSend); GvPool 0 (PvMsg (RunRes 0 ENil) ChSend);
      GvPool 0 (PvMsg (ProvRes ENil) ChSend); GvPool 0 (PvMsg (AggrRes ENil) ChSend); GvPool 0 PvFrontClosed; GvEngRecv 0] = Some g /\
    terminal g = true /\ total_created g = 2 /\ total_closed g = 1.
Proof. eexists. split; [vm_compute; reflexivity|]. repeat split. Qed.

Lemma sum_by_guns : forall l, (forall s, In s l -> created s = closed s + unbound s) ->
  sum_by created l = sum_by closed l + sum_by unbound l.
Proof.
  induction l as [|s r IH]; intros H; cbn; auto.
  pose proof (H s (or_introl eq_refl)) as H0.
  assert (H1 : sum_by created r = sum_by closed r + sum_by unbound r).
  { apply IH. intros s' Hs. apply H. right. exact Hs. }
  unfold sum_by in *. lia.
Qed.

(* what does hold: every created gun is closed except those never owned by an instance *)
Lemma guns_closed_partial : forall cfg g,
  reachable cfg g -> total_created g = total_closed g + total_unbound g.
Proof.
  intros cfg g HR. pose proof (reachable_GI _ _ HR) as HG. unfold total_created, total_closed, total_unbound.
  apply sum_by_guns. intros s Hin. destruct (In_nth_error _ _ Hin) as [p Hp].
  destruct (cfg_index _ _ _ _ HG Hp) as [n Hn]. apply (pi_guns _ _ _ (gi_pools _ _ HG _ _ _ Hp Hn)).
Qed.
