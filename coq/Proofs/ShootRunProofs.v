(* Proofs about Model/ShootRun.v (property C10): declared scenario steps, the steps a scenario
   file means, and the way of the reported samples through the phout queue. *)
From Coq Require Import List Arith NArith Bool Lia Permutation.
From PV Require Import Lib.Table Model.Sample Model.GrpcStatus Model.Shoot Model.ShootEvents Model.ReportQueue Model.ShootRun
  Proofs.SampleProofs Proofs.ShootProofs Proofs.ShootEventsProofs Proofs.ReportQueueProofs.
Import ListNotations.
Local Open Scope N_scope.

(* ---------- declared steps ---------- *)

Lemma executed_map {A B : Type} (f : A -> B) (stops : B -> bool) (l : list A) :
  executed stops (map f l) = map f (executed (fun x => stops (f x)) l).
Proof.
  induction l as [|a r IH]; cbn [map executed]; [reflexivity|].
  destruct (stops (f a)); cbn [map]; [reflexivity|]. rewrite IH. reflexivity.
Qed.

Lemma hscen_decl_shoot_spec name steps : hscen_shoot_decl name steps = hscen_decl_spec name steps.
Proof.
  unfold hscen_shoot_decl, hscen_decl_spec, hlabelled. rewrite hscen_shoot_spec. unfold hscen_spec.
  rewrite executed_map, map_map. cbn [snd]. apply map_ext. intros [d o].
  unfold hstep_sample, hdecl_sample, hstep_label, step_tag. cbn [fst snd]. destruct o; [reflexivity|].
  rewrite <- app_assoc. reflexivity.
Qed.

Lemma gscen_decl_shoot_spec name steps : gscen_shoot_decl name steps = gscen_decl_spec name steps.
Proof.
  unfold gscen_shoot_decl, gscen_decl_spec, glabelled. rewrite gscen_shoot_spec. unfold gscen_spec.
  rewrite executed_map, map_map. cbn [snd]. apply map_ext. intros [d o]. reflexivity.
Qed.

Lemma hscen_decl_ev name steps :
  handoff_ok false (hscen_ev_decl name steps) = true /\
  at_report (hscen_ev_decl name steps) = hscen_decl_spec name steps /\
  at_end (hscen_ev_decl name steps) = hscen_decl_spec name steps.
Proof.
  unfold hscen_ev_decl. split; [apply hscen_ev_handoff|].
  rewrite <- hscen_decl_shoot_spec. apply hscen_ev_at_report.
Qed.

Lemma gscen_decl_ev name steps :
  handoff_ok false (gscen_ev_decl name steps) = true /\
  at_report (gscen_ev_decl name steps) = gscen_decl_spec name steps /\
  at_end (gscen_ev_decl name steps) = gscen_decl_spec name steps.
Proof.
  unfold gscen_ev_decl. split; [apply gscen_ev_handoff|].
  rewrite <- gscen_decl_shoot_spec. apply gscen_ev_at_report.
Qed.

(* one sample per executed step, labelled <scenario>.<request name> (HTTP) whatever tag the
   request declares; <scenario>.<call tag> (gRPC) whatever the call is named *)
Definition retag {O : Type} (f : sdecl -> bytes) (steps : list (sdecl * O)) : list (sdecl * O) :=
  map (fun x => (mkDecl (sd_name (fst x)) (f (fst x)), snd x)) steps.
Definition rename {O : Type} (f : sdecl -> bytes) (steps : list (sdecl * O)) : list (sdecl * O) :=
  map (fun x => (mkDecl (f (fst x)) (sd_tag (fst x)), snd x)) steps.

Lemma hscen_decl_tag_ignored name steps f :
  hscen_shoot_decl name (retag f steps) = hscen_shoot_decl name steps.
Proof. unfold hscen_shoot_decl, hlabelled, retag. rewrite map_map. reflexivity. Qed.

Lemma gscen_decl_name_ignored name steps f :
  gscen_shoot_decl name (rename f steps) = gscen_shoot_decl name steps.
Proof. unfold gscen_shoot_decl, glabelled, rename. rewrite map_map. reflexivity. Qed.

Lemma hscen_decl_labels name steps :
  length (hscen_shoot_decl name steps) = length (executed (fun x => hstep_stops (snd x)) steps) /\
  forall s, In s (hscen_shoot_decl name steps) ->
    exists d o, In (d, o) steps /\
      sm_tags s = match o with
                  | HStepOk _ => name ++ dot :: sd_name d
                  | HStepFail => name ++ dot :: sd_name d ++ 124 :: empty_tag
                  end.
Proof.
  rewrite hscen_decl_shoot_spec. unfold hscen_decl_spec. split; [apply map_length|].
  intros s H. apply in_map_iff in H. destruct H as [[d o] [Hs Hin]]. exists d, o. split.
  - destruct (executed_prefix (fun x : sdecl * hstep => hstep_stops (snd x)) steps) as [rest E].
    rewrite E. apply in_or_app. left. exact Hin.
  - subst s. unfold hdecl_sample. cbn [fst snd]. destruct o; reflexivity.
Qed.

Lemma gscen_decl_labels name steps :
  length (gscen_shoot_decl name steps) = length (executed (fun x => gstep_stops (snd x)) steps) /\
  forall s, In s (gscen_shoot_decl name steps) ->
    exists d o, In (d, o) steps /\ sm_tags s = name ++ dot :: sd_tag d /\ sm_proto s = gstep_code o /\ sm_net s = 0.
Proof.
  rewrite gscen_decl_shoot_spec. unfold gscen_decl_spec. split; [apply map_length|].
  intros s H. apply in_map_iff in H. destruct H as [[d o] [Hs Hin]]. exists d, o. split.
  - destruct (executed_prefix (fun x : sdecl * gstep => gstep_stops (snd x)) steps) as [rest E].
    rewrite E. apply in_or_app. left. exact Hin.
  - subst s. repeat split.
Qed.

(* ---------- the steps a scenario of the file means ---------- *)

Section File.
Variable O : Type.
Implicit Types (reg : list (sdecl * O)) (items : list sitem).

Lemma find_app {A : Type} (p : A -> bool) (l1 l2 : list A) :
  find p (l1 ++ l2) = match find p l1 with Some x => Some x | None => find p l2 end.
Proof. induction l1 as [|a r IH]; cbn [app find]; [reflexivity|]. destruct (p a); [reflexivity|exact IH]. Qed.

Lemma reg_lookup_last reg name : reg_lookup reg name = last_decl reg name.
Proof.
  unfold last_decl. induction reg as [|d r IH]; cbn [reg_lookup rev]; [reflexivity|].
  rewrite find_app, <- IH. destruct (reg_lookup r name); [reflexivity|].
  cbn [find]. destruct (tags_eqb (sd_name (fst d)) name); reflexivity.
Qed.

Lemma scen_steps_sound reg items : forall acc steps,
  scen_steps reg acc items = Some steps -> steps = acc ++ file_steps reg items.
Proof.
  unfold file_steps. induction items as [|[nm cnt|] r IH]; intros acc steps H; cbn [scen_steps] in H; cbn [flat_map item_steps].
  - injection H as <-. rewrite app_nil_r. reflexivity.
  - rewrite reg_lookup_last in H. destruct (last_decl reg nm) as [d|]; [|discriminate].
    apply IH in H. rewrite H, <- app_assoc. reflexivity.
  - destruct acc; [discriminate|]. apply IH in H. exact H.
Qed.

Lemma scen_steps_complete reg items : forall acc,
  forallb (item_known reg) items = true -> acc <> [] ->
  scen_steps reg acc items = Some (acc ++ file_steps reg items).
Proof.
  unfold file_steps. induction items as [|[nm cnt|] r IH]; intros acc Hk Ha; cbn [scen_steps flat_map item_steps].
  - rewrite app_nil_r. reflexivity.
  - cbn [forallb item_known] in Hk. apply andb_true_iff in Hk. destruct Hk as [Hk1 Hk].
    rewrite reg_lookup_last. destruct (last_decl reg nm) as [d|]; [|discriminate].
    rewrite IH; [rewrite <- app_assoc; reflexivity|exact Hk|].
    destruct acc; [contradiction|discriminate].
  - cbn [forallb item_known] in Hk. destruct acc; [contradiction|]. apply IH; [exact Hk|discriminate].
Qed.

(* a list that starts with a request fired at least once and names declared requests only is accepted *)
Lemma scen_steps_accepts reg nm cnt items :
  forallb (item_known reg) (SIReq nm (S cnt) :: items) = true ->
  scen_steps reg [] (SIReq nm (S cnt) :: items) = Some (file_steps reg (SIReq nm (S cnt) :: items)).
Proof.
  intros Hk. cbn [forallb item_known] in Hk. apply andb_true_iff in Hk. destruct Hk as [Hk1 Hk].
  cbn [scen_steps]. unfold file_steps. cbn [flat_map item_steps]. rewrite reg_lookup_last.
  destruct (last_decl reg nm) as [d|]; [|discriminate]. cbn [app].
  apply scen_steps_complete; [exact Hk|]. cbn [repeat]. discriminate.
Qed.
End File.

Lemma hscen_file_shoot_spec name reg items samples :
  hscen_file_shoot name reg items = Some samples -> samples = hscen_file_spec name reg items.
Proof.
  unfold hscen_file_shoot, hscen_file_spec. destruct (scen_steps reg [] items) as [st|] eqn:E; [|discriminate].
  cbn [option_map]. intros H. injection H as <-. apply scen_steps_sound in E. cbn [app] in E. subst st.
  apply hscen_decl_shoot_spec.
Qed.

Lemma hscen_file_ev_spec name reg items tr :
  hscen_file_ev name reg items = Some tr ->
  handoff_ok false tr = true /\ at_report tr = hscen_file_spec name reg items /\ at_end tr = hscen_file_spec name reg items.
Proof.
  unfold hscen_file_ev, hscen_file_spec. destruct (scen_steps reg [] items) as [st|] eqn:E; [|discriminate].
  cbn [option_map]. intros H. injection H as <-. apply scen_steps_sound in E. cbn [app] in E. subst st.
  apply hscen_decl_ev.
Qed.

Lemma gscen_file_shoot_spec name reg items samples :
  gscen_file_shoot name reg items = Some samples -> samples = gscen_file_spec name reg items.
Proof.
  unfold gscen_file_shoot, gscen_file_spec. destruct (scen_steps reg [] items) as [st|] eqn:E; [|discriminate].
  cbn [option_map]. intros H. injection H as <-. apply scen_steps_sound in E. cbn [app] in E. subst st.
  apply gscen_decl_shoot_spec.
Qed.

Lemma gscen_file_ev_spec name reg items tr :
  gscen_file_ev name reg items = Some tr ->
  handoff_ok false tr = true /\ at_report tr = gscen_file_spec name reg items /\ at_end tr = gscen_file_spec name reg items.
Proof.
  unfold gscen_file_ev, gscen_file_spec. destruct (scen_steps reg [] items) as [st|] eqn:E; [|discriminate].
  cbn [option_map]. intros H. injection H as <-. apply scen_steps_sound in E. cbn [app] in E. subst st.
  apply gscen_decl_ev.
Qed.

(* ---------- a run through the phout queue ---------- *)

Lemma shot_reports_spec s : shot_reports s = shot_spec s.
Proof.
  destruct s as [cfg inv id tg p x|nm st|tg c|nm st]; cbn [shot_reports shot_spec].
  - apply base_shoot_spec. discriminate.
  - apply hscen_decl_shoot_spec.
  - reflexivity.
  - apply gscen_decl_shoot_spec.
Qed.

Lemma shot_spec_count s : length (shot_spec s) = shot_requests s.
Proof.
  destruct s as [cfg inv id tg p x|nm st|tg c|nm st]; cbn [shot_spec shot_requests length]; try reflexivity.
  - unfold hscen_decl_spec. apply map_length.
  - unfold gscen_decl_spec. apply map_length.
Qed.

Lemma flat_map_len {A B : Type} (f : A -> list B) (l : list A) :
  length (flat_map f l) = list_sum (map (fun a => length (f a)) l).
Proof. induction l as [|a r IH]; cbn [flat_map map list_sum]; [reflexivity|]. rewrite app_length, IH. reflexivity. Qed.

Lemma run_one_line_per_request cap shots (evs : list (qev sample)) lines :
  Permutation (sends evs) (flat_map shot_reports shots) ->
  run_lines qblocking cap evs = Some lines ->
  Permutation lines (flat_map shot_spec shots) /\
  length lines = list_sum (map shot_requests shots) /\
  run_lost qblocking cap evs = Some [].
Proof.
  unfold run_lines, run_lost. intros Hp H. destruct (qrun qblocking cap qinit evs) as [s'|] eqn:E; [|discriminate].
  cbn [option_map] in *. injection H as <-.
  destruct (blocking_report_loses_nothing sample cap evs s' E) as [Hw [Hd _]].
  assert (Hs : flat_map shot_reports shots = flat_map shot_spec shots).
  { clear. induction shots as [|a r IH]; cbn [flat_map]; [reflexivity|]. rewrite IH, shot_reports_spec. reflexivity. }
  cbv beta. unfold qdrain in *. cbn [q_written q_dropped] in *. rewrite Hw, Hd. rewrite Hs in Hp. split; [exact Hp|]. split; [|reflexivity].
  rewrite (Permutation_length Hp), flat_map_len. f_equal. apply map_ext. intros a. apply shot_spec_count.
Qed.

(* however far behind the writer is, every list of reports has a history of completed
   operations: the lazy one (the writer moves only when a reporter is stuck) *)
Lemma lazy_history_runs {A : Type} cap (reports : list A) : forall s,
  (length (q_buf s) <= cap)%nat ->
  exists s', qrun qblocking cap s (lazy_history qblocking cap s reports) = Some s' /\
             sends (lazy_history qblocking cap s reports) = reports /\ (length (q_buf s') <= cap)%nat.
Proof.
  induction reports as [|x r IH]; intros s Hb; cbn [lazy_history].
  - exists s. cbn. auto.
  - destruct (qstep qblocking cap s (QSend x)) as [s1|] eqn:E1.
    + assert (Hb1 : (length (q_buf s1) <= cap)%nat).
      { unfold qstep in E1. destruct (Nat.ltb (length (q_buf s)) cap) eqn:El.
        - injection E1 as <-. cbn [q_buf]. rewrite app_length. cbn [length]. apply Nat.ltb_lt in El. lia.
        - destruct cap; [|discriminate]. destruct (q_buf s); [|discriminate]. injection E1 as <-. cbn. lia. }
      destruct (IH s1 Hb1) as [s' [Hr [Hs Hb']]]. exists s'. cbn [qrun sends]. rewrite E1, Hr, Hs. auto.
    + unfold qstep in E1. destruct (Nat.ltb (length (q_buf s)) cap) eqn:El; [discriminate|]. apply Nat.ltb_ge in El.
      destruct cap as [|c].
      { destruct (q_buf s) eqn:Eb; [discriminate|]. cbn [length] in Hb. lia. }
      destruct (q_buf s) as [|y b] eqn:Eb; [cbn [length] in El; lia|].
      cbn [qstep]. rewrite Eb. cbn [q_buf].
      assert (El2 : (Nat.ltb (length b) (S c)) = true). { apply Nat.ltb_lt. cbn [length] in Hb. lia. }
      rewrite El2.
      match goal with |- context [lazy_history _ _ ?st r] => destruct (IH st) as [s' [Hr [Hs Hb']]] end.
      { cbn [q_buf]. rewrite app_length. cbn [length] in *. lia. }
      exists s'. cbn [qrun qstep sends]. rewrite Eb. cbn [q_buf]. rewrite El2, Hr, Hs. auto.
Qed.

(* a Report that gives up on a full channel: two instances, one request each, a queue of one
   sample, the writer behind - the second request leaves no line *)
Lemma dropping_run_loses_a_request :
  let cfg := {| at_enabled := false; at_depth := 2; at_notagonly := true |} in
  let shots := [ShHttp cfg false 1 [97] [47] (XResp 200 BodyOk); ShHttp cfg false 2 [98] [47] (XResp 200 BodyOk)] in
  let evs := lazy_history qdropping 1 qinit (flat_map shot_reports shots) in
  sends evs = flat_map shot_reports shots /\
  run_lines qdropping 1 evs = Some [mkSample [97] 200 0 1] /\
  run_lost qdropping 1 evs = Some [mkSample [98] 200 0 2].
Proof. vm_compute. repeat split. Qed.
