(* C02, concurrency: every interleaving of the atomic sections of a composite schedule is
   linearizable to the abstract token stream (forward simulation with a ghost history). *)
From Coq Require Import List ZArith Bool Arith Lia.
From PV Require Import Model.SchedTree Model.SchedConc
  Proofs.SchedTreeProofs Proofs.SchedTreeSeq Proofs.SchedTreeRun Proofs.SchedTreeSpec Proofs.SchedConcSections.
Import ListNotations.
Local Open Scope Z_scope.

(* ---------- the ghost: abstract operations at the linearisation points ---------- *)
Definition event : Type := (nat * (Z * op) * obs)%type.
Definition evt (e : event) : Z * op := snd (fst e).
Definition eres (e : event) : obs := snd e.

Definition after_next (a : astate) (now : Z) : astate * Z * bool :=
  let a1 := if a_started a then a else a_start now a in
  let '(its, t, ok) := abs_next now (a_fin a1) (a_items a1) in
  ({| a_started := true; a_items := its; a_fin := a_fin a1; a_flat := a_flat a1 |}, t, ok).

(* one step of run_abs *)
Definition abs_ev (a : astate) (e : Z * op) : astate * obs :=
  let '(now, o) := e in
  match o with
  | OStart t => (a_start t a, RStart)
  | ONext => let '(a', t, ok) := after_next a now in (a', RNext t ok)
  | OLeft => (a, RLeft (if a_started a then abs_left now (a_items a) else static_left (a_flat a)))
  end.

Lemma run_abs_step a e rest :
  (forall t, snd e = OStart t -> a_started a = false) ->
  run_abs a (e :: rest) = snd (abs_ev a e) :: run_abs (fst (abs_ev a e)) rest.
Proof.
  destruct e as [now o]. destruct o as [t| |]; cbn [snd]; intros H.
  - cbn [run_abs abs_ev fst snd]. rewrite (H t eq_refl). reflexivity.
  - cbn [run_abs abs_ev]. unfold after_next.
    destruct (abs_next now _ _) as [[its t] ok]. reflexivity.
  - destruct a as [st its f fl]. destruct st; reflexivity.
Qed.

(* the ghost step taken together with a section of thread i *)
Definition ghost (i : nat) (now : Z) (a : astate) (out : outcome) : astate * list event :=
  match out with
  | RetN _ _ => (fst (abs_ev a (now, ONext)), [(i, (now, ONext), snd (abs_ev a (now, ONext)))])
  | RetL _ => (fst (abs_ev a (now, OLeft)), [(i, (now, OLeft), snd (abs_ev a (now, OLeft)))])
  | Goto (N1 _ _) =>
      if a_started a then (a, []) else (a_start now a, [(i, (now, OStart now), RStart)])
  | Goto _ => (a, [])
  end.

Record istate : Type := { i_g : gstate; i_a : astate; i_log : list event }.

Inductive istep (fuel : nat) : istate -> istate -> Prop :=
| istep_intro st i th now c' out :
    nth_error (g_threads (i_g st)) i = Some th -> g_lo (i_g st) <= now ->
    thread_section fuel now (g_c (i_g st)) th = Some (Ok (c', out)) ->
    istep fuel st
      {| i_g := {| g_c := c'; g_lo := now; g_threads := upd i (thread_after th out) (g_threads (i_g st)) |};
         i_a := fst (ghost i now (i_a st) out);
         i_log := i_log st ++ snd (ghost i now (i_a st) out) |}.

(* the ghost does not constrain the implementation: every step of the system has its
   instrumented counterpart *)
Lemma gstep_lift fuel st g' : gstep fuel (i_g st) g' -> exists st', istep fuel st st' /\ i_g st' = g'.
Proof.
  intros H. inversion H; subst. eexists. split; [eapply istep_intro; eauto|]. reflexivity.
Qed.

(* ---------- per-thread view of the ghost history ---------- *)
Definition is_start (o : op) : bool := match o with OStart _ => true | _ => false end.
Definition mine (i : nat) (e : event) : bool := (fst (fst e) =? i)%nat && negb (is_start (snd (evt e))).
Definition proj (i : nat) (log : list event) : list obs := map eres (filter (mine i) log).
Definition proj_ops (i : nat) (log : list event) : list op := map (fun e => snd (evt e)) (filter (mine i) log).

Fixpoint clock_upto (lo0 : Z) (evs : list (Z * op)) (lo : Z) : Prop :=
  match evs with
  | [] => lo0 <= lo
  | (now, _) :: r => lo0 <= now /\ clock_upto now r lo
  end.

Lemma clock_upto_ok lo0 evs lo : clock_upto lo0 evs lo -> clock_ok lo0 evs.
Proof. revert lo0; induction evs as [|[n o] r IH]; intros lo0 H; cbn in *; [exact I|]. destruct H; split; eauto. Qed.

Lemma clock_upto_later lo0 evs lo now : clock_upto lo0 evs lo -> lo <= now -> clock_upto lo0 evs now.
Proof. revert lo0; induction evs as [|[n o] r IH]; intros lo0 H L; cbn in *; [lia|]. destruct H; split; eauto. Qed.

Lemma clock_upto_snoc lo0 evs lo now o : clock_upto lo0 evs lo -> lo <= now -> clock_upto lo0 (evs ++ [(now, o)]) now.
Proof. revert lo0; induction evs as [|[n o'] r IH]; intros lo0 H L; cbn in *; [lia|]. destruct H; split; eauto. Qed.

(* ---------- list plumbing ---------- *)
Lemma Forall_upd {A} (P : A -> Prop) i x l : Forall P l -> P x -> Forall P (upd i x l).
Proof.
  revert i; induction l as [|y r IH]; intros i F Px; [destruct i; constructor|].
  inversion F; subst. destruct i; cbn [upd]; constructor; auto.
Qed.

Lemma nth_error_upd {A} i j (x : A) l :
  nth_error (upd i x l) j = if (j =? i)%nat then (match nth_error l j with Some _ => Some x | None => None end) else nth_error l j.
Proof.
  revert i j; induction l as [|y r IH]; intros i j.
  - destruct i, j; cbn; try reflexivity; destruct (_ =? _)%nat; reflexivity.
  - destruct i, j; cbn; try reflexivity. apply IH.
Qed.

Lemma Forall_nth {A} (P : A -> Prop) l i x : Forall P l -> nth_error l i = Some x -> P x.
Proof. intros F H. rewrite Forall_forall in F. apply F. eapply nth_error_In; eauto. Qed.

Lemma Forall_impl' {A} (P Q : A -> Prop) l : (forall x, P x -> Q x) -> Forall P l -> Forall Q l.
Proof. intros H F. eapply Forall_impl; eauto. Qed.

Definition nopanic (r : obs) : Prop := match r with RPanic _ | RFuel => False | _ => True end.

(* ---------- the invariant ---------- *)
Section Invariant.
  Variable fuel : nat.
  Variable a0 : astate.              (* the abstract machine before any operation *)
  Variable lo0 : Z.                  (* the clock at the beginning *)
  Variable todo0 : nat -> list op.   (* the programs of the threads *)

  Record Inv (st : istate) : Prop := {
    inv_comp : comp_len (g_c (i_g st)) <> 0%nat;
    inv_size : (size (g_c (i_g st)) <= S fuel)%nat;
    inv_rel :
      (a_started (i_a st) = false /\ fresh (g_c (i_g st)) /\ a_flat (i_a st) = flatten (g_c (i_g st)) /\
       Forall (fun th => t_pc th = PIdle) (g_threads (i_g st))) \/
      (a_started (i_a st) = true /\ relS (g_lo (i_g st)) (g_c (i_g st)) (a_items (i_a st)) /\
       a_fin (i_a st) = afin 0 (g_c (i_g st)) /\
       Forall (fun th => Jpc (g_lo (i_g st)) (g_c (i_g st)) (t_pc th)) (g_threads (i_g st)));
    (* the ghost history is a legal sequential history of the abstract machine ... *)
    inv_legal : forall rest,
      run_abs a0 (map evt (i_log st) ++ rest) = map eres (i_log st) ++ run_abs (i_a st) rest;
    inv_clock : clock_upto lo0 (map evt (i_log st)) (g_lo (i_g st));
    inv_nopanic : Forall nopanic (map eres (i_log st));
    (* ... and every thread has seen exactly the results of its own operations in it *)
    inv_hist : forall i th, nth_error (g_threads (i_g st)) i = Some th ->
      t_hist th = proj i (i_log st) /\ proj_ops i (i_log st) ++ t_todo th = todo0 i
  }.

  (* assembling the invariant after a step of thread i *)
  Lemma inv_build st i th now c' out a' evs :
    Inv st -> nth_error (g_threads (i_g st)) i = Some th -> g_lo (i_g st) <= now ->
    comp_len c' <> 0%nat -> (size c' <= S fuel)%nat ->
    let ths' := upd i (thread_after th out) (g_threads (i_g st)) in
    ((a_started a' = false /\ fresh c' /\ a_flat a' = flatten c' /\ Forall (fun th => t_pc th = PIdle) ths') \/
     (a_started a' = true /\ relS now c' (a_items a') /\ a_fin a' = afin 0 c' /\
      Forall (fun th => Jpc now c' (t_pc th)) ths')) ->
    (forall rest, run_abs (i_a st) (map evt evs ++ rest) = map eres evs ++ run_abs a' rest) ->
    Forall (fun e => fst (fst e) = i /\ fst (evt e) = now) evs -> (length evs <= 1)%nat ->
    Forall nopanic (map eres evs) ->
    t_hist (thread_after th out) = t_hist th ++ proj i evs ->
    proj_ops i evs ++ t_todo (thread_after th out) = t_todo th ->
    Inv {| i_g := {| g_c := c'; g_lo := now; g_threads := ths' |}; i_a := a'; i_log := i_log st ++ evs |}.
  Proof.
    intros I Hth L NZ Sz ths' R Leg Fev Len Np Hh Ht.
    constructor; cbn [i_g i_a i_log g_c g_lo g_threads].
    - exact NZ.
    - exact Sz.
    - exact R.
    - intros rest. rewrite map_app, <- app_assoc, (inv_legal st I), Leg, map_app, app_assoc. reflexivity.
    - rewrite map_app. pose proof (inv_clock st I) as C.
      destruct evs as [|e [|e2 r]]; cbn [length] in Len; try lia.
      + cbn [map]. rewrite app_nil_r. eapply clock_upto_later; eauto.
      + inversion Fev as [|e0 r0 [_ En] _]. destruct e as [[j [n o]] r1]. cbn [evt fst snd] in En.
        cbn [map evt fst snd]. rewrite En. eapply clock_upto_snoc; eauto.
    - rewrite map_app. apply Forall_app. split; [exact (inv_nopanic st I)|exact Np].
    - intros j thj Hj. unfold ths' in Hj. rewrite nth_error_upd in Hj.
      unfold proj, proj_ops. rewrite !filter_app, !map_app.
      destruct (Nat.eqb_spec j i) as [->|Ne].
      + rewrite Hth in Hj. inversion Hj; subst thj.
        destruct (inv_hist st I i th Hth) as [H1 H2].
        fold (proj i (i_log st)) (proj i evs) (proj_ops i (i_log st)) (proj_ops i evs).
        split; [rewrite Hh, H1; reflexivity|]. rewrite <- app_assoc, Ht. exact H2.
      + destruct (inv_hist st I j thj Hj) as [H1 H2].
        assert (E : filter (mine j) evs = []).
        { clear -Fev Ne. induction Fev as [|e r [He _] _ IH]; [reflexivity|]. cbn [filter]. unfold mine at 1.
          rewrite He. destruct (Nat.eqb_spec i j); [congruence|]. cbn [andb]. exact IH. }
        rewrite E. cbn [map]. rewrite !app_nil_r. split; assumption.
  Qed.
End Invariant.

(* ---------- shapes ---------- *)
Lemma sec_next0_len fuel now c c' out : sec_next0 fuel now c = Ok (c', out) -> comp_len c' <> 0%nat.
Proof.
  destruct c as [| |[|h r] la cs]; try discriminate. cbn [sec_next0].
  destruct (s_next fuel now h) as [[[h' tx] ok]| |]; cbn [bind]; try discriminate.
  destruct ok; [|destruct (_ =? _)%nat]; intros H; inversion H; cbn; discriminate.
Qed.

Lemma sec_left0_len fuel now c c' out : sec_left0 fuel now c = Ok (c', out) -> comp_len c' <> 0%nat.
Proof.
  destruct c as [| |[|h r] [|la0 la'] cs]; try discriminate. cbn [sec_left0].
  destruct (s_left fuel now h) as [[h' lft]| |]; cbn [bind]; try discriminate.
  destruct (_ =? _)%nat; [intros H; inversion H; cbn; discriminate|].
  destruct (lft =? 0); [destruct (0 <=? la0); [|destruct (negb cs)]|destruct (_ || _)];
    intros H; inversion H; cbn; discriminate.
Qed.

Lemma shift_len c tx c1 : shift c tx = Ok c1 -> comp_len c1 <> 0%nat.
Proof.
  destruct c as [| |[|h [|h2 r2]] la cs]; try discriminate. cbn [shift].
  destruct (s_start tx h2); cbn [bind]; try discriminate. intros H; inversion H; cbn; discriminate.
Qed.

Lemma sec_next1_len fuel now c tx k c' out : sec_next1 fuel now c tx k = Ok (c', out) -> comp_len c' <> 0%nat.
Proof.
  unfold sec_next1. destruct (_ <? _)%nat.
  - destruct c as [| |[|h r] la cs]; try discriminate.
    destruct (s_next fuel now h) as [[[h' tx2] ok]| |]; cbn [bind]; try discriminate.
    destruct (_ || _); intros H; inversion H; cbn; discriminate.
  - destruct (shift c tx) as [c1| |] eqn:E; cbn [bind]; try discriminate.
    destruct c1 as [| |[|h r] la cs]; try discriminate.
    destruct (s_next fuel now h) as [[[h' tx2] ok]| |]; cbn [bind]; try discriminate.
    destruct (_ && _); intros H; inversion H; cbn; discriminate.
Qed.

Lemma sec_left1_len fuel now c k c' out : comp_len c <> 0%nat ->
  sec_left1 fuel now c k = Ok (c', out) -> comp_len c' <> 0%nat.
Proof.
  intros NZ. unfold sec_left1. destruct (_ =? _)%nat; [|intros H; inversion H; subst; exact NZ].
  destruct c as [| |[|h r] la cs]; try discriminate.
  destruct (s_next fuel now h) as [[[h' fin] ok]| |]; cbn [bind]; try discriminate.
  destruct ok; [discriminate|].
  destruct (shift _ fin) as [c1| |] eqn:E; cbn [bind]; try discriminate.
  intros H; inversion H; subst. eapply shift_len; eauto.
Qed.

Lemma a_start_fields t a c : a_flat a = flatten c ->
  a_started (a_start t a) = true /\ a_items (a_start t a) = absp t c /\
  a_fin (a_start t a) = afin t c /\ a_flat (a_start t a) = a_flat a.
Proof.
  intros E. unfold a_start, absp, afin. rewrite E.
  destruct (items_from t (flatten c)); cbn. repeat split; auto.
Qed.

Lemma Jpc_idle lo c ths : Forall (fun th => t_pc th = PIdle) ths -> Forall (fun th => Jpc lo c (t_pc th)) ths.
Proof. apply Forall_impl'. intros th ->. exact I. Qed.

(* ---------- ghost computations ---------- *)
Lemma after_next_unstarted a now c its' t ok :
  a_started a = false -> a_flat a = flatten c ->
  abs_next now (afin now c) (absp now c) = (its', t, ok) ->
  after_next a now = ({| a_started := true; a_items := its'; a_fin := afin now c; a_flat := a_flat a |}, t, ok).
Proof.
  intros U Fl AN. unfold after_next. rewrite U.
  destruct (a_start_fields now a c Fl) as (_ & E1 & E2 & E3). rewrite E1, E2, E3, AN. reflexivity.
Qed.

Lemma after_next_started a now its' t ok :
  a_started a = true -> abs_next now (a_fin a) (a_items a) = (its', t, ok) ->
  after_next a now = ({| a_started := true; a_items := its'; a_fin := a_fin a; a_flat := a_flat a |}, t, ok).
Proof. intros S AN. unfold after_next. rewrite S, AN. reflexivity. Qed.

Lemma proj_single i now o r : is_start o = false ->
  proj i [(i, (now, o), r)] = [r] /\ proj_ops i [(i, (now, o), r)] = [o].
Proof.
  intros H. unfold proj, proj_ops, mine. cbn [filter fst snd evt]. rewrite Nat.eqb_refl, H. split; reflexivity.
Qed.

Lemma proj_single_start i now t r :
  proj i [(i, (now, OStart t), r)] = [] /\ proj_ops i [(i, (now, OStart t), r)] = [].
Proof. unfold proj, proj_ops, mine. cbn [filter fst snd evt is_start negb]. rewrite andb_false_r. split; reflexivity. Qed.

Lemma legal_single a e r a' :
  (forall t, snd e = OStart t -> a_started a = false) -> abs_ev a e = (a', r) ->
  forall i rest, run_abs a (map evt [(i, e, r)] ++ rest) = map eres [(i, e, r)] ++ run_abs a' rest.
Proof.
  intros H E i rest. cbn [map evt eres app fst snd]. rewrite (run_abs_step a e rest H), E. reflexivity.
Qed.

Section Steps.
  Variable fuel : nat.
  Variable a0 : astate.
  Variable lo0 : Z.
  Variable todo0 : nat -> list op.
  Notation Inv := (Inv fuel a0 lo0 todo0).

  Lemma ev_single i now (e : event) : fst (fst e) = i -> fst (evt e) = now ->
    Forall (fun e => fst (fst e) = i /\ fst (evt e) = now) [e].
  Proof. intros; constructor; auto. Qed.

  (* --- the composite has not been started: Next --- *)
  Lemma step_UN st i th now todo c' out :
    Inv st -> nth_error (g_threads (i_g st)) i = Some th -> g_lo (i_g st) <= now ->
    a_started (i_a st) = false -> fresh (g_c (i_g st)) -> a_flat (i_a st) = flatten (g_c (i_g st)) ->
    Forall (fun th => t_pc th = PIdle) (g_threads (i_g st)) ->
    t_todo th = ONext :: todo ->
    sec_next0 fuel now (g_c (i_g st)) = Ok (c', out) ->
    Inv {| i_g := {| g_c := c'; g_lo := now; g_threads := upd i (thread_after th out) (g_threads (i_g st)) |};
           i_a := fst (ghost i now (i_a st) out); i_log := i_log st ++ snd (ghost i now (i_a st) out) |}.
  Proof.
    intros I Hth L U F Fl Idle Et Hsec.
    destruct (sec_next0_F fuel now _ F (inv_comp _ _ _ _ _ I) (inv_size _ _ _ _ _ I)) as (c1 & out1 & E1 & Sz1 & Ff & M).
    rewrite E1 in Hsec. inversion Hsec; subst c1 out1. clear Hsec.
    pose proof (sec_next0_len _ _ _ _ _ E1) as NZ.
    assert (Sz : (size c' <= S fuel)%nat) by (pose proof (inv_size _ _ _ _ _ I); lia).
    destruct (a_start_fields now (i_a st) _ Fl) as (S1 & S2 & S3 & S4).
    destruct out as [[|tx k|k]|t ok|v]; try contradiction.
    - (* parked in N1: the schedule has been started by this section *)
      destruct M as [RS J]. cbn [ghost]. rewrite U. cbn [fst snd].
      destruct (proj_single_start i now now RStart) as [P1 P2].
      refine (inv_build fuel a0 lo0 todo0 st i th now c' _ _ _ I Hth L NZ Sz _ _ _ _ _ _ _).
      + right. split; [exact S1|]. split; [rewrite S2; exact RS|]. split; [rewrite S3; symmetry; exact Ff|].
        apply Forall_upd; [apply Jpc_idle; exact Idle|exact J].
      + intros rest. apply (legal_single (i_a st) (now, OStart now) RStart); [intros; exact U|reflexivity].
      + apply ev_single; reflexivity.
      + cbn; lia.
      + repeat constructor.
      + rewrite P1. cbn [thread_after t_hist]. rewrite app_nil_r. reflexivity.
      + rewrite P2. reflexivity.
    - destruct M as (its' & AN & RS).
      pose proof (after_next_unstarted (i_a st) now _ its' t ok U Fl AN) as EA.
      cbn [ghost abs_ev]. rewrite EA. cbn [fst snd].
      destruct (proj_single i now ONext (RNext t ok) eq_refl) as [P1 P2].
      refine (inv_build fuel a0 lo0 todo0 st i th now c' _ _ _ I Hth L NZ Sz _ _ _ _ _ _ _).
      + right. cbn [a_started a_items a_fin]. split; [reflexivity|]. split; [exact RS|]. split; [symmetry; exact Ff|].
        apply Forall_upd; [apply Jpc_idle; exact Idle|exact Logic.I].
      + intros rest. apply (legal_single (i_a st) (now, ONext) (RNext t ok)); [discriminate|].
        cbn [abs_ev]. rewrite EA. reflexivity.
      + apply ev_single; reflexivity.
      + cbn; lia.
      + repeat constructor.
      + rewrite P1. reflexivity.
      + rewrite P2. cbn [thread_after t_todo]. rewrite Et. reflexivity.
  Qed.

  (* --- not started: Left --- *)
  Lemma step_UL st i th now todo c' out :
    Inv st -> nth_error (g_threads (i_g st)) i = Some th -> g_lo (i_g st) <= now ->
    a_started (i_a st) = false -> fresh (g_c (i_g st)) -> a_flat (i_a st) = flatten (g_c (i_g st)) ->
    Forall (fun th => t_pc th = PIdle) (g_threads (i_g st)) ->
    t_todo th = OLeft :: todo ->
    sec_left0 fuel now (g_c (i_g st)) = Ok (c', out) ->
    Inv {| i_g := {| g_c := c'; g_lo := now; g_threads := upd i (thread_after th out) (g_threads (i_g st)) |};
           i_a := fst (ghost i now (i_a st) out); i_log := i_log st ++ snd (ghost i now (i_a st) out) |}.
  Proof.
    intros I Hth L U F Fl Idle Et Hsec.
    rewrite (sec_left0_F fuel now _ F (inv_comp _ _ _ _ _ I) (inv_size _ _ _ _ _ I)) in Hsec.
    inversion Hsec; subst c' out. clear Hsec.
    cbn [ghost abs_ev fst snd]. rewrite U, Fl, (static_left_fresh _ F).
    destruct (proj_single i now OLeft (RLeft (statl (flatten (g_c (i_g st))))) eq_refl) as [P1 P2].
    refine (inv_build fuel a0 lo0 todo0 st i th now _ _ _ _ I Hth L (inv_comp _ _ _ _ _ I) (inv_size _ _ _ _ _ I) _ _ _ _ _ _ _).
    - left. split; [exact U|]. split; [exact F|]. split; [exact Fl|].
      apply Forall_upd; [exact Idle|reflexivity].
    - intros rest. apply (legal_single (i_a st) (now, OLeft)); [discriminate|].
      cbn [abs_ev]. rewrite U, Fl, (static_left_fresh _ F). reflexivity.
    - apply ev_single; reflexivity.
    - cbn; lia.
    - repeat constructor.
    - rewrite P1. reflexivity.
    - rewrite P2. cbn [thread_after t_todo]. rewrite Et. reflexivity.
  Qed.

  (* --- started: common shape of the conclusion --- *)
  Lemma started_ret_next st i th now todo c' t ok its' :
    Inv st -> nth_error (g_threads (i_g st)) i = Some th -> g_lo (i_g st) <= now ->
    a_started (i_a st) = true -> a_fin (i_a st) = afin 0 (g_c (i_g st)) ->
    Forall (fun th => Jpc (g_lo (i_g st)) (g_c (i_g st)) (t_pc th)) (g_threads (i_g st)) ->
    t_todo th = ONext :: todo ->
    comp_len c' <> 0%nat -> (size c' <= size (g_c (i_g st)))%nat -> evol (g_lo (i_g st)) now (g_c (i_g st)) c' ->
    afin 0 c' = afin 0 (g_c (i_g st)) ->
    abs_next now (afin 0 (g_c (i_g st))) (a_items (i_a st)) = (its', t, ok) -> relS now c' its' ->
    Inv {| i_g := {| g_c := c'; g_lo := now; g_threads := upd i (thread_after th (RetN t ok)) (g_threads (i_g st)) |};
           i_a := fst (ghost i now (i_a st) (RetN t ok)); i_log := i_log st ++ snd (ghost i now (i_a st) (RetN t ok)) |}.
  Proof.
    intros I Hth L As Fa FJ Et NZ Sz1 EV Fc AN RS.
    assert (Sz : (size c' <= S fuel)%nat) by (pose proof (inv_size _ _ _ _ _ I); lia).
    rewrite <- Fa in AN.
    pose proof (after_next_started (i_a st) now its' t ok As AN) as EA.
    cbn [ghost abs_ev]. rewrite EA. cbn [fst snd].
    destruct (proj_single i now ONext (RNext t ok) eq_refl) as [P1 P2].
    refine (inv_build fuel a0 lo0 todo0 st i th now c' _ _ _ I Hth L NZ Sz _ _ _ _ _ _ _).
    - right. cbn [a_started a_items a_fin]. split; [reflexivity|]. split; [exact RS|].
      split; [rewrite Fa; symmetry; exact Fc|].
      apply Forall_upd; [|exact Logic.I]. revert FJ. apply Forall_impl'. intros x. apply evol_J. exact EV.
    - intros rest. apply (legal_single (i_a st) (now, ONext) (RNext t ok)); [discriminate|].
      cbn [abs_ev]. rewrite EA. reflexivity.
    - apply ev_single; reflexivity.
    - cbn; lia.
    - repeat constructor.
    - rewrite P1. reflexivity.
    - rewrite P2. cbn [thread_after t_todo]. rewrite Et. reflexivity.
  Qed.

  Lemma started_goto st i th now c' p :
    Inv st -> nth_error (g_threads (i_g st)) i = Some th -> g_lo (i_g st) <= now ->
    a_started (i_a st) = true -> a_fin (i_a st) = afin 0 (g_c (i_g st)) ->
    Forall (fun th => Jpc (g_lo (i_g st)) (g_c (i_g st)) (t_pc th)) (g_threads (i_g st)) ->
    comp_len c' <> 0%nat -> (size c' <= size (g_c (i_g st)))%nat -> evol (g_lo (i_g st)) now (g_c (i_g st)) c' ->
    afin 0 c' = afin 0 (g_c (i_g st)) ->
    relS now c' (a_items (i_a st)) -> Jpc now c' p ->
    Inv {| i_g := {| g_c := c'; g_lo := now; g_threads := upd i (thread_after th (Goto p)) (g_threads (i_g st)) |};
           i_a := fst (ghost i now (i_a st) (Goto p)); i_log := i_log st ++ snd (ghost i now (i_a st) (Goto p)) |}.
  Proof.
    intros I Hth L As Fa FJ NZ Sz1 EV Fc RS J.
    assert (Sz : (size c' <= S fuel)%nat) by (pose proof (inv_size _ _ _ _ _ I); lia).
    assert (G : ghost i now (i_a st) (Goto p) = (i_a st, [])).
    { destruct p; cbn [ghost]; try reflexivity. rewrite As. reflexivity. }
    rewrite G. cbn [fst snd].
    refine (inv_build fuel a0 lo0 todo0 st i th now c' _ _ _ I Hth L NZ Sz _ _ _ _ _ _ _).
    - right. split; [exact As|]. split; [exact RS|]. split; [rewrite Fa; symmetry; exact Fc|].
      apply Forall_upd; [|exact J]. revert FJ. apply Forall_impl'. intros x. apply evol_J. exact EV.
    - intros rest. reflexivity.
    - constructor.
    - cbn; lia.
    - repeat constructor.
    - cbn [thread_after t_hist proj filter map]. rewrite app_nil_r. reflexivity.
    - reflexivity.
  Qed.

  Lemma started_ret_left st i th now todo c' v :
    Inv st -> nth_error (g_threads (i_g st)) i = Some th -> g_lo (i_g st) <= now ->
    a_started (i_a st) = true -> a_fin (i_a st) = afin 0 (g_c (i_g st)) ->
    Forall (fun th => Jpc (g_lo (i_g st)) (g_c (i_g st)) (t_pc th)) (g_threads (i_g st)) ->
    t_todo th = OLeft :: todo ->
    comp_len c' <> 0%nat -> (size c' <= size (g_c (i_g st)))%nat -> evol (g_lo (i_g st)) now (g_c (i_g st)) c' ->
    afin 0 c' = afin 0 (g_c (i_g st)) ->
    v = abs_left now (a_items (i_a st)) -> relS now c' (a_items (i_a st)) ->
    Inv {| i_g := {| g_c := c'; g_lo := now; g_threads := upd i (thread_after th (RetL v)) (g_threads (i_g st)) |};
           i_a := fst (ghost i now (i_a st) (RetL v)); i_log := i_log st ++ snd (ghost i now (i_a st) (RetL v)) |}.
  Proof.
    intros I Hth L As Fa FJ Et NZ Sz1 EV Fc Ev RS.
    assert (Sz : (size c' <= S fuel)%nat) by (pose proof (inv_size _ _ _ _ _ I); lia).
    cbn [ghost abs_ev fst snd]. rewrite As, <- Ev.
    destruct (proj_single i now OLeft (RLeft v) eq_refl) as [P1 P2].
    refine (inv_build fuel a0 lo0 todo0 st i th now c' _ _ _ I Hth L NZ Sz _ _ _ _ _ _ _).
    - right. split; [exact As|]. split; [exact RS|]. split; [rewrite Fa; symmetry; exact Fc|].
      apply Forall_upd; [|exact Logic.I]. revert FJ. apply Forall_impl'. intros x. apply evol_J. exact EV.
    - intros rest. apply (legal_single (i_a st) (now, OLeft) (RLeft v)); [discriminate|].
      cbn [abs_ev]. rewrite As, <- Ev. reflexivity.
    - apply ev_single; reflexivity.
    - cbn; lia.
    - repeat constructor.
    - rewrite P1. reflexivity.
    - rewrite P2. cbn [thread_after t_todo]. rewrite Et. reflexivity.
  Qed.

  (* --- every step preserves the invariant --- *)
  Lemma inv_step st st' : Inv st -> istep fuel st st' -> Inv st'.
  Proof.
    intros I H. destruct H as [st i th now c' out Hth L Hsec].
    unfold thread_section in Hsec. destruct (t_todo th) as [|o todo] eqn:Et; [discriminate|].
    pose proof (inv_comp _ _ _ _ _ I) as NZ. pose proof (inv_size _ _ _ _ _ I) as SZ.
    destruct (inv_rel _ _ _ _ _ I) as [(U & F & Fl & Idle)|(As & RS & Fa & FJ)].
    - rewrite (Forall_nth _ _ _ _ Idle Hth) in Hsec.
      destruct o; try discriminate; inversion Hsec as [Hs]; clear Hsec.
      + eapply step_UN; eauto.
      + eapply step_UL; eauto.
    - pose proof (Forall_nth _ _ _ _ FJ Hth) as J. cbn beta in J.
      destruct (t_pc th) as [|tx k|k] eqn:Epc; destruct o; try discriminate; inversion Hsec as [Hs]; clear Hsec.
      + destruct (sec_next0_S fuel _ now _ _ RS L SZ NZ) as (c1 & out1 & E1 & Sz1 & EV & Fc & M).
        rewrite E1 in Hs. inversion Hs; subst c1 out1. pose proof (sec_next0_len _ _ _ _ _ E1) as NZ'.
        destruct out as [[|tx k|k]|t ok|v]; try contradiction.
        * destruct M as [RS' J']. eapply started_goto; eauto.
        * destruct M as (its' & AN & RS'). eapply started_ret_next; eauto.
      + destruct (sec_left0_S fuel _ now _ _ RS L SZ NZ) as (c1 & out1 & E1 & Sz1 & EV & Fc & M).
        rewrite E1 in Hs. inversion Hs; subst c1 out1. pose proof (sec_left0_len _ _ _ _ _ E1) as NZ'.
        destruct out as [[|tx k|k]|t ok|v]; try contradiction.
        * destruct M as [RS' J']. eapply started_goto; eauto.
        * destruct M as [Ev RS']. eapply started_ret_left; eauto.
      + cbn [Jpc] in J.
        destruct (sec_next1_S fuel _ now _ _ tx k RS J L SZ NZ) as (c1 & out1 & E1 & Sz1 & EV & Fc & M).
        rewrite E1 in Hs. inversion Hs; subst c1 out1. pose proof (sec_next1_len _ _ _ _ _ _ _ E1) as NZ'.
        destruct out as [[|tx' k'|k']|t ok|v]; try contradiction.
        * eapply started_goto; eauto. exact Logic.I.
        * destruct M as (its' & AN & RS'). eapply started_ret_next; eauto.
      + cbn [Jpc] in J.
        destruct (sec_left1_S fuel _ now _ _ k RS J L SZ NZ) as (c1 & E1 & Sz1 & EV & Fc & RS').
        rewrite E1 in Hs. inversion Hs; subst c1 out. pose proof (sec_left1_len _ _ _ _ _ _ NZ E1) as NZ'.
        eapply started_goto; eauto. exact Logic.I.
  Qed.

  (* --- no section of an enabled thread panics or runs out of fuel --- *)
  Lemma inv_safe st : Inv st -> ~ gstuck fuel (i_g st).
  Proof.
    intros I (i & th & now & Hth & L & Hs).
    unfold thread_section in Hs. destruct (t_todo th) as [|o todo] eqn:Et; [exact Hs|].
    pose proof (inv_comp _ _ _ _ _ I) as NZ. pose proof (inv_size _ _ _ _ _ I) as SZ.
    destruct (inv_rel _ _ _ _ _ I) as [(U & F & Fl & Idle)|(As & RS & Fa & FJ)].
    - rewrite (Forall_nth _ _ _ _ Idle Hth) in Hs. destruct o; try exact Hs.
      + destruct (sec_next0_F fuel now _ F NZ SZ) as (c1 & out1 & E1 & _). rewrite E1 in Hs. exact Hs.
      + rewrite (sec_left0_F fuel now _ F NZ SZ) in Hs. exact Hs.
    - pose proof (Forall_nth _ _ _ _ FJ Hth) as J. cbn beta in J.
      destruct (t_pc th) as [|tx k|k] eqn:Epc; destruct o; try exact Hs.
      + destruct (sec_next0_S fuel _ now _ _ RS L SZ NZ) as (c1 & out1 & E1 & _). rewrite E1 in Hs. exact Hs.
      + destruct (sec_left0_S fuel _ now _ _ RS L SZ NZ) as (c1 & out1 & E1 & _). rewrite E1 in Hs. exact Hs.
      + destruct (sec_next1_S fuel _ now _ _ tx k RS J L SZ NZ) as (c1 & out1 & E1 & _). rewrite E1 in Hs. exact Hs.
      + destruct (sec_left1_S fuel _ now _ _ k RS J L SZ NZ) as (c1 & E1 & _). rewrite E1 in Hs. exact Hs.
  Qed.
End Steps.

(* ---------- all interleavings ---------- *)
Inductive ireach (fuel : nat) : istate -> istate -> Prop :=
| ireach_refl st : ireach fuel st st
| ireach_step st st' st'' : ireach fuel st st' -> istep fuel st' st'' -> ireach fuel st st''.

Lemma inv_reach fuel a0 lo0 todo0 st st' :
  Inv fuel a0 lo0 todo0 st -> ireach fuel st st' -> Inv fuel a0 lo0 todo0 st'.
Proof.
  intros I R. induction R as [st|st st' st'' R IH S]; [exact I|].
  eapply inv_step; [apply IH; exact I|exact S].
Qed.

Definition init_threads (ths : list thread) : Prop :=
  Forall (fun th => t_pc th = PIdle /\ t_hist th = []) ths.

Definition todo_of (ths : list thread) (i : nat) : list op :=
  match nth_error ths i with Some th => t_todo th | None => [] end.

Lemma inv_init fuel c0 lo0 ths :
  fresh c0 -> comp_len c0 <> 0%nat -> (size c0 <= S fuel)%nat -> init_threads ths ->
  Inv fuel (a_init (flatten c0)) lo0 (todo_of ths)
      {| i_g := {| g_c := c0; g_lo := lo0; g_threads := ths |}; i_a := a_init (flatten c0); i_log := [] |}.
Proof.
  intros F NZ Sz It. constructor; cbn [i_g i_a i_log g_c g_lo g_threads map app].
  - exact NZ.
  - exact Sz.
  - left. repeat split; auto. revert It. apply Forall_impl'. intros th [H _]. exact H.
  - intros rest. reflexivity.
  - cbn. lia.
  - constructor.
  - intros i th Hi. unfold todo_of. rewrite Hi. cbn. split; [|reflexivity].
    destruct (Forall_nth _ _ _ _ It Hi) as [_ H]. exact H.
Qed.

(* started explicitly by Start(t0) before the threads run *)
Lemma inv_init_started fuel c0 c1 lo0 t0 ths :
  fresh c0 -> comp_len c0 <> 0%nat -> (size c0 <= S fuel)%nat -> init_threads ths ->
  s_start t0 c0 = Ok c1 ->
  Inv fuel (a_init (flatten c0)) lo0 (todo_of ths)
      {| i_g := {| g_c := c1; g_lo := lo0; g_threads := ths |};
         i_a := a_start t0 (a_init (flatten c0));
         i_log := [(0%nat, (lo0, OStart t0), RStart)] |}.
Proof.
  intros F NZ Sz It E.
  destruct (start_fresh c0 F t0) as (c1' & E' & S1 & W1 & I1). rewrite E in E'. inversion E'; subst c1'.
  destruct (a_start_fields t0 (a_init (flatten c0)) c0 eq_refl) as (A1 & A2 & A3 & A4).
  assert (P : absp 0 c1 = absp t0 c0 /\ afin 0 c1 = afin t0 c0).
  { unfold absp, afin. rewrite (I1 0). split; reflexivity. }
  destruct P as [PA PF].
  constructor; cbn [i_g i_a i_log g_c g_lo g_threads].
  - destruct c0 as [| |[|h r] la cs]; cbn in NZ; try congruence. cbn [s_start] in E.
    destruct (s_start t0 h); cbn [bind] in E; try discriminate. inversion E. cbn. discriminate.
  - rewrite (size_start _ _ _ E). exact Sz.
  - right. split; [exact A1|]. split; [|split].
    + rewrite A2. repeat split; auto. rewrite PA. reflexivity.
    + rewrite A3. symmetry. exact PF.
    + revert It. apply Forall_impl'. intros th [-> _]. exact I.
  - intros rest. apply (legal_single (a_init (flatten c0)) (lo0, OStart t0) RStart); [reflexivity|reflexivity].
  - cbn. lia.
  - repeat constructor.
  - intros i th Hi. unfold todo_of. rewrite Hi. unfold proj, proj_ops, mine. cbn [filter map fst snd evt is_start negb].
    rewrite andb_false_r. cbn. split; [|reflexivity].
    destruct (Forall_nth _ _ _ _ It Hi) as [_ H]. exact H.
Qed.

(* ---------- consequences on the ghost history ---------- *)
Definition next_results (l : list obs) : list (Z * bool) :=
  flat_map (fun r => match r with RNext t ok => [(t, ok)] | _ => [] end) l.
Definition next_nows (evs : list (Z * op)) : list Z :=
  flat_map (fun e => match snd e with ONext => [fst e] | _ => [] end) evs.


Lemma nr_cons r l : next_results (r :: l) =
  match r with RNext t ok => (t, ok) :: next_results l | _ => next_results l end.
Proof. destruct r; reflexivity. Qed.
Lemma nn_cons now o r : next_nows ((now, o) :: r) =
  match o with ONext => now :: next_nows r | _ => next_nows r end.
Proof. destruct o; reflexivity. Qed.

Lemma run_abs_nexts_started : forall evs a, a_started a = true -> Forall nopanic (run_abs a evs) ->
  next_results (run_abs a evs) = nexts (next_nows evs) (a_fin a) (a_items a).
Proof.
  induction evs as [|[now o] r IH]; intros a S Np; [reflexivity|].
  destruct a as [st its f fl]. cbn [a_started] in S. subst st.
  destruct o as [t| |]; cbn [run_abs a_started a_items a_fin a_flat] in *.
  - inversion Np as [|? ? H _]. destruct H.
  - destruct (abs_next now f its) as [[its' t] ok] eqn:E.
    rewrite nr_cons, nn_cons. cbn [nexts]. rewrite E.
    inversion Np; subst. f_equal. apply (IH {| a_started := true; a_items := its'; a_fin := f; a_flat := fl |}); auto.
  - rewrite nr_cons, nn_cons. inversion Np; subst.
    apply (IH {| a_started := true; a_items := its; a_fin := f; a_flat := fl |}); auto.
Qed.

Lemma run_abs_nexts : forall evs a, a_started a = false -> Forall nopanic (run_abs a evs) ->
  exists p, next_results (run_abs a evs) =
            nexts (next_nows evs) (snd (items_from p (a_flat a))) (fst (items_from p (a_flat a))).
Proof.
  induction evs as [|[now o] r IH]; intros a U Np; [exists 0; reflexivity|].
  destruct a as [st its f fl]. cbn [a_started] in U. subst st.
  destruct o as [t| |]; cbn [run_abs a_started a_items a_fin a_flat] in *.
  - exists t. inversion Np; subst. rewrite nr_cons, nn_cons.
    unfold a_start in *. cbn [a_flat] in *. destruct (items_from t fl) as [i0 f0].
    rewrite (run_abs_nexts_started r {| a_started := true; a_items := i0; a_fin := f0; a_flat := fl |} eq_refl H2). reflexivity.
  - exists now. unfold a_start in *. cbn [a_flat] in *. destruct (items_from now fl) as [i0 f0].
    cbn [a_items a_fin a_flat fst snd] in *.
    destruct (abs_next now f0 i0) as [[its' t] ok] eqn:E.
    rewrite nr_cons, nn_cons. cbn [nexts]. rewrite E.
    inversion Np; subst. f_equal.
    apply (run_abs_nexts_started r {| a_started := true; a_items := its'; a_fin := f0; a_flat := fl |}); auto.
  - inversion Np; subst. rewrite nr_cons, nn_cons.
    apply (IH {| a_started := false; a_items := its; a_fin := f; a_flat := fl |}); auto.
Qed.

(* once exhausted, every later Next (of any thread) returns the same finish time *)
Lemma nexts_after_fail : forall nows f its, existsb (fun x => negb (snd x)) (nexts nows f its) = true ->
  exists k, firstn k (nexts nows f its) = firstn k (nexts nows f its) /\
    forall j x, nth_error (nexts nows f its) j = Some x -> snd x = false ->
      forall j' x', (j <= j')%nat -> nth_error (nexts nows f its) j' = Some x' -> x' = (f, false).
Proof.
  intros nows f its _. exists 0%nat. split; [reflexivity|].
  revert its. induction nows as [|now r IH]; intros its j x Hj Hx j' x' Le Hj'.
  - destruct j; discriminate.
  - cbn [nexts] in *. destruct (abs_next now f its) as [[its' t] ok] eqn:E.
    destruct j as [|j].
    + cbn in Hj. inversion Hj; subst x. cbn in Hx. subst ok.
      apply an_fail in E. destruct E as (-> & -> & _).
      destruct j' as [|j']; [cbn in Hj'; inversion Hj'; reflexivity|].
      cbn in Hj'. clear -Hj'. revert j' Hj'. induction r as [|n q IHq]; intros j' Hj'; [destruct j'; discriminate|].
      cbn [nexts abs_next] in Hj'. destruct j'; [inversion Hj'; reflexivity|]. cbn in Hj'. eapply IHq; eauto.
    + destruct j' as [|j']; [lia|]. cbn in Hj, Hj'. eapply (IH its' j x Hj Hx j' x'); [lia|exact Hj'].
Qed.

(* sub-sequences of a non-decreasing sequence are non-decreasing *)
Inductive subseq {A} : list A -> list A -> Prop :=
| sub_nil : subseq [] []
| sub_skip x l l' : subseq l l' -> subseq l (x :: l')
| sub_take x l l' : subseq l l' -> subseq (x :: l) (x :: l').

Lemma nondecr_lower lo lo' l : lo' <= lo -> nondecr lo l -> nondecr lo' l.
Proof. destruct l as [|[t b] r]; cbn; [auto|]. intros L [H1 H2]. split; [lia|exact H2]. Qed.

Lemma nondecr_subseq : forall l' l lo, subseq l l' -> nondecr lo l' -> nondecr lo l.
Proof.
  induction l' as [|[t b] r IH]; intros l lo S N; inversion S; subst; cbn in *; auto.
  - destruct N as [N1 N2]. eapply nondecr_lower; [exact N1|]. apply IH; auto.
  - destruct N as [N1 N2]. split; [exact N1|]. apply IH; auto.
Qed.

Lemma filter_subseq {A} (f : A -> bool) l : subseq (filter f l) l.
Proof. induction l as [|x r IH]; cbn; [constructor|]. destruct (f x); constructor; exact IH. Qed.

Lemma subseq_map {A B} (g : A -> B) l l' : subseq l l' -> subseq (map g l) (map g l').
Proof. induction 1; cbn [map]; [apply sub_nil|apply sub_skip; assumption|apply sub_take; assumption]. Qed.

Lemma subseq_flat_map {A B} (g : A -> list B) l l' : subseq l l' -> subseq (flat_map g l) (flat_map g l').
Proof.
  induction 1 as [|x l l' S IH|x l l' S IH]; cbn [flat_map]; [constructor| |].
  - induction (g x) as [|y q IHq]; cbn [app]; [exact IH|constructor; exact IHq].
  - induction (g x) as [|y q IHq]; cbn [app]; [exact IH|constructor; exact IHq].
Qed.

(* the Next results of thread i are a sub-sequence of all Next results in linearisation order *)
Lemma proj_next_subseq i log : subseq (next_results (proj i log)) (next_results (map eres log)).
Proof. unfold proj. apply subseq_flat_map, subseq_map, filter_subseq. Qed.

(* ---------- the theorem ---------- *)
Theorem conc_linearizable fuel c0 lo0 ths st :
  fresh c0 -> comp_len c0 <> 0%nat -> (size c0 <= S fuel)%nat -> init_threads ths ->
  ireach fuel {| i_g := {| g_c := c0; g_lo := lo0; g_threads := ths |};
                 i_a := a_init (flatten c0); i_log := [] |} st ->
  ~ gstuck fuel (i_g st) /\
  run_abs (a_init (flatten c0)) (map evt (i_log st)) = map eres (i_log st) /\
  clock_ok lo0 (map evt (i_log st)) /\ Forall nopanic (map eres (i_log st)) /\
  (forall i th, nth_error (g_threads (i_g st)) i = Some th ->
     t_hist th = proj i (i_log st) /\ proj_ops i (i_log st) ++ t_todo th = todo_of ths i) /\
  (exists p, next_results (map eres (i_log st)) =
             nexts (next_nows (map evt (i_log st)))
                   (snd (items_from p (flatten c0))) (fst (items_from p (flatten c0)))).
Proof.
  intros F NZ Sz It R.
  pose proof (inv_reach _ _ _ _ _ _ (inv_init fuel c0 lo0 ths F NZ Sz It) R) as I.
  split; [eapply inv_safe; eauto|].
  pose proof (inv_legal _ _ _ _ _ I []) as Lg. rewrite !app_nil_r in Lg. cbn [run_abs] in Lg. try rewrite app_nil_r in Lg.
  split; [exact Lg|]. split; [eapply clock_upto_ok, inv_clock; eauto|]. split; [eapply inv_nopanic; eauto|].
  split; [eapply inv_hist; eauto|].
  rewrite <- Lg. apply (run_abs_nexts (map evt (i_log st)) (a_init (flatten c0)) eq_refl).
  rewrite Lg. eapply inv_nopanic; eauto.
Qed.
