(* C13: the file/csv variable source never panics, whatever the relation between the field list of the
   description and the records of the file; a missing column reads as the empty string. *)
From Coq Require Import List NArith ZArith Bool Arith Lia.
From PV Require Import Lib.AmmoBytes Lib.AmmoDecimal Lib.AmmoLines Model.AmmoCommon Model.AmmoRobust
  Model.AmmoVarSource.
Import ListNotations.

(* the guarded loop is the total specification function *)
Lemma csv_row_guarded : forall fields i record acc,
  csv_row true fields i record acc = VOk (row_spec fields i record acc).
Proof.
  induction fields as [|f r IH]; intros i record acc; [reflexivity|].
  cbn [csv_row row_spec andb].
  destruct (Nat.leb_spec (length record) i) as [Hle|Hlt].
  - rewrite (nth_overflow record [] Hle). apply IH.
  - rewrite (nth_error_nth' record [] Hlt). apply IH.
Qed.

Lemma read_csv_fixed_fields : forall recs fields ignore err acc,
  fields <> [] ->
  read_csv true fields ignore recs err acc =
    if err then VErr
    else VOk (rev acc ++ map (fun rc => row_spec fields 0 rc []) (if ignore then tl recs else recs)).
Proof.
  induction recs as [|rc rest IH]; intros fields ignore err acc Hne.
  - cbn [read_csv]. destruct err; [reflexivity|]. destruct ignore; cbn [tl map]; rewrite app_nil_r; reflexivity.
  - cbn [read_csv]. destruct fields as [|f fs]; [contradiction|].
    destruct ignore.
    + rewrite (IH (f :: fs) false err acc Hne). reflexivity.
    + rewrite csv_row_guarded. rewrite (IH (f :: fs) false err _ Hne).
      destruct err; [reflexivity|]. cbn [rev map tl]. rewrite <- app_assoc. reflexivity.
Qed.

Lemma underscore_nil s : map underscore s = [] -> s = [].
Proof. destruct s; [reflexivity|discriminate]. Qed.

(* the rows are those of the specification (encoding/csv never yields a record without fields) *)
Theorem csv_source_rows fields ignore recs err :
  Forall (fun rc : list bytes => rc <> []) recs ->
  csv_source true fields ignore recs err = if err then VErr else VOk (rows_spec fields ignore recs).
Proof.
  intros Hrec. unfold csv_source, rows_spec. cbn [negb].
  destruct fields as [|f fs].
  - cbn [map]. destruct recs as [|rc rest].
    + cbn [read_csv]. destruct err; [reflexivity|]. destruct ignore; reflexivity.
    + inversion Hrec as [|x l Hx Hl]; subst.
      assert (Hne : map underscore rc <> []) by (intros E; apply Hx; destruct rc; [reflexivity|discriminate]).
      cbn [read_csv]. destruct ignore.
      * rewrite (read_csv_fixed_fields rest _ false err [] Hne). reflexivity.
      * rewrite csv_row_guarded. rewrite (read_csv_fixed_fields rest _ false err _ Hne).
        destruct err; reflexivity.
  - rewrite read_csv_fixed_fields by (cbn; discriminate). reflexivity.
Qed.

(* no panic: for every field list, every list of records (also records without fields), every ending *)
Lemma read_csv_no_panic : forall recs fields ignore err acc,
  read_csv true fields ignore recs err acc <> VPanic.
Proof.
  induction recs as [|rc rest IH]; intros fields ignore err acc.
  - cbn [read_csv]. destruct err; discriminate.
  - cbn [read_csv]. destruct ignore; [apply IH|].
    rewrite csv_row_guarded. apply IH.
Qed.

Theorem csv_source_no_panic file_exists fields ignore recs err :
  csv_source file_exists fields ignore recs err <> VPanic.
Proof.
  unfold csv_source. destruct file_exists; cbn [negb]; [apply read_csv_no_panic|discriminate].
Qed.

(* an accepted source has one row per record that is not skipped *)
Theorem csv_source_row_count fields ignore recs rows :
  csv_source true fields ignore recs false = VOk rows ->
  Forall (fun rc : list bytes => rc <> []) recs ->
  length rows = length (if ignore then tl recs else recs).
Proof.
  intros H Hrec. rewrite (csv_source_rows fields ignore recs false Hrec) in H.
  inversion H; subst rows. unfold rows_spec. rewrite map_length. reflexivity.
Qed.

(* the error of the csv reader is the error of the source, wherever it occurs *)
Theorem csv_source_error_iff fields ignore recs err :
  Forall (fun rc : list bytes => rc <> []) recs ->
  (csv_source true fields ignore recs err = VErr <-> err = true).
Proof.
  intros Hrec. rewrite (csv_source_rows fields ignore recs err Hrec).
  destruct err; split; intros H; try reflexivity; discriminate.
Qed.

(* a missing column reads as the empty string, a present one as itself: the value stored last under a
   key that no later field uses *)
Fixpoint hget (k : bytes) (h : vrow) : option bytes :=
  match h with
  | [] => None
  | (k', v) :: r => if beq k k' then Some v else hget k r
  end.

Lemma beq_true_eq a b : beq a b = true -> a = b.
Proof.
  revert b; induction a as [|x a IH]; intros [|y b] H; cbn [beq] in H; try reflexivity; try discriminate.
  apply andb_true_iff in H. destruct H as [H1 H2]. apply N.eqb_eq in H1. subst. f_equal. apply IH. exact H2.
Qed.

Lemma beq_same a : beq a a = true.
Proof. induction a as [|x a IH]; [reflexivity|]. cbn [beq]. rewrite N.eqb_refl. exact IH. Qed.

Lemma hget_hset_same k v h : hget k (hset k v h) = Some v.
Proof.
  induction h as [|[k' v'] r IH]; cbn [hset hget]; [rewrite beq_same; reflexivity|].
  destruct (beq k k') eqn:E; cbn [hget]; [rewrite beq_same; reflexivity|rewrite E; exact IH].
Qed.

Lemma hget_hset_other k k2 v h : beq k k2 = false -> hget k (hset k2 v h) = hget k h.
Proof.
  intros Hne. induction h as [|[k' v'] r IH]; cbn [hset hget]; [rewrite Hne; reflexivity|].
  destruct (beq k2 k') eqn:E; cbn [hget].
  - apply beq_true_eq in E. subst k'. rewrite Hne. reflexivity.
  - destruct (beq k k'); [reflexivity|exact IH].
Qed.

Lemma row_spec_keeps : forall fields i record acc k,
  (forall j f, nth_error fields j = Some f -> beq k (field_key (i + j) f) = false) ->
  hget k (row_spec fields i record acc) = hget k acc.
Proof.
  induction fields as [|f r IH]; intros i record acc k Hk; [reflexivity|].
  cbn [row_spec]. rewrite IH.
  - apply hget_hset_other. specialize (Hk 0%nat f eq_refl). rewrite Nat.add_0_r in Hk. exact Hk.
  - intros j f' Hj. specialize (Hk (S j) f' Hj). rewrite Nat.add_succ_r in Hk. exact Hk.
Qed.

Theorem row_spec_value fields record j f :
  nth_error fields j = Some f ->
  (forall j' f', (j < j')%nat -> nth_error fields j' = Some f' -> beq (field_key j f) (field_key j' f') = false) ->
  hget (field_key j f) (row_spec fields 0 record []) = Some (nth j record []).
Proof.
  assert (G : forall fields i acc j f,
    nth_error fields j = Some f ->
    (forall j' f', (j < j')%nat -> nth_error fields j' = Some f' -> beq (field_key (i + j) f) (field_key (i + j') f') = false) ->
    hget (field_key (i + j) f) (row_spec fields i record acc) = Some (nth (i + j) record [])).
  { induction fields0 as [|g r IH]; intros i acc j0 f0 Hj Hlater; [destruct j0; discriminate|].
    destruct j0 as [|j0].
    - cbn [nth_error] in Hj. inversion Hj; subst g. cbn [row_spec]. rewrite Nat.add_0_r.
      rewrite row_spec_keeps; [apply hget_hset_same|].
      intros j' f' Hj'. specialize (Hlater (S j') f' ltac:(lia) Hj').
      rewrite Nat.add_0_r, Nat.add_succ_r in Hlater. exact Hlater.
    - cbn [nth_error] in Hj. cbn [row_spec].
      replace (i + S j0)%nat with (S i + j0)%nat by lia.
      apply IH; [exact Hj|].
      intros j' f' Hlt Hj'. specialize (Hlater (S j') f' ltac:(lia) Hj').
      replace (i + S j0)%nat with (S i + j0)%nat in Hlater by lia.
      replace (i + S j')%nat with (S i + j')%nat in Hlater by lia. exact Hlater. }
  intros Hj Hlater. apply (G fields 0%nat [] j f Hj Hlater).
Qed.

(* construction: no source panics, so the constructor does not *)
Lemma init_sources_no_panic srcs :
  Forall (fun s : rres (list vrow) => s <> VPanic) srcs -> init_sources srcs <> VPanic.
Proof.
  induction srcs as [|s r IH]; intros H; [discriminate|].
  inversion H as [|x l Hs Hr]; subst. cbn [init_sources].
  destruct s as [rows| |]; [|discriminate|contradiction].
  specialize (IH Hr). destruct (init_sources r); [discriminate|discriminate|contradiction].
Qed.
