(* Proofs about Model/StartCompLeft.v: the code-shaped Left() of a composite profile (table built by the
   backward pass of NewComposite with the sticky `unknown` flag) is the specification: unknown while any
   remaining part is unlimited, else the sum of the parts; in particular it is 0 only when nothing is left. *)
From Coq Require Import List ZArith Bool Arith Lia.
From PV Require Import Model.StartCompLeft.
Import ListNotations.
Local Open Scope Z_scope.

Definition unk_tbl (p : cpart) : bool := tbl_left p <? 0.
Definition unk_cur (p : cpart) : bool := cur_left p <? 0.
Definition sum_tbl (ps : list cpart) : Z := fold_right (fun p a => tbl_left p + a) 0 ps.
Definition sum_cur (ps : list cpart) : Z := fold_right (fun p a => cur_left p + a) 0 ps.

(* invariant of the backward pass *)
Lemma backward_pass_sticky behind :
  fold_right (acc_step Sticky) (false, 0) behind
  = (existsb unk_tbl behind, if existsb unk_tbl behind then -1 else sum_tbl behind).
Proof.
  induction behind as [|p b IH]; [reflexivity|].
  cbn [fold_right existsb sum_tbl]. rewrite IH. unfold acc_step. cbn [fst snd].
  change (unk_tbl p) with (tbl_left p <? 0).
  destruct (tbl_left p <? 0) eqn:E; cbn [orb]; [reflexivity|].
  destruct (existsb unk_tbl b); [reflexivity|]. f_equal. fold (sum_tbl b). lia.
Qed.

Lemma left_after_sticky behind :
  left_after Sticky behind = if existsb unk_tbl behind then -1 else sum_tbl behind.
Proof. unfold left_after. rewrite backward_pass_sticky. reflexivity. Qed.

Lemma untouched_same p : untouched p = true -> tbl_left p = cur_left p.
Proof. destruct p as [n|[|]]; cbn; intros H; try reflexivity; discriminate. Qed.

Lemma untouched_exists b : forallb untouched b = true -> existsb unk_tbl b = existsb unk_cur b /\ sum_tbl b = sum_cur b.
Proof.
  induction b as [|p b IH]; [split; reflexivity|]. cbn [forallb existsb sum_tbl sum_cur fold_right].
  intros H. apply andb_true_iff in H. destruct H as [Hp Hb]. destruct (IH Hb) as [A B].
  change (unk_tbl p) with (tbl_left p <? 0). change (unk_cur p) with (cur_left p <? 0).
  rewrite (untouched_same p Hp). rewrite A. split; [reflexivity|].
  fold (sum_tbl b) (sum_cur b). rewrite B. reflexivity.
Qed.

Lemma left_spec_unfold ps : left_spec ps = if existsb unk_cur ps then -1 else sum_cur ps.
Proof. reflexivity. Qed.

Lemma left_after_is_spec behind : forallb untouched behind = true -> left_after Sticky behind = left_spec behind.
Proof.
  intros H. rewrite left_after_sticky, left_spec_unfold. destruct (untouched_exists behind H) as [A B].
  rewrite A, B. reflexivity.
Qed.

Lemma cur_left_neg p : cur_left p < 0 -> cur_left p = -1.
Proof. destruct p as [n|[|]]; cbn; lia. Qed.

Lemma sum_cur_nonneg ps : existsb unk_cur ps = false -> 0 <= sum_cur ps.
Proof.
  induction ps as [|p b IH]; cbn [existsb sum_cur fold_right]; [lia|]. intros H.
  apply orb_false_iff in H. destruct H as [Hp Hb]. unfold unk_cur in Hp. apply Z.ltb_ge in Hp.
  specialize (IH Hb). unfold sum_cur in IH. lia.
Qed.

Lemma left_spec_range ps : left_spec ps = -1 \/ 0 <= left_spec ps.
Proof.
  rewrite left_spec_unfold. destruct (existsb unk_cur ps) eqn:E; [left; reflexivity|right; apply sum_cur_nonneg; exact E].
Qed.

Lemma left_spec_cons p b :
  left_spec (p :: b) = if (cur_left p <? 0) || existsb unk_cur b then -1 else cur_left p + sum_cur b.
Proof. reflexivity. Qed.

(* compositeSchedule.Left() = the specification, in every state whose parts behind the head are untouched *)
Theorem comp_left_is_spec started : forall ps,
  forallb untouched (tl ps) = true -> comp_left Sticky started ps = left_spec ps.
Proof.
  induction ps as [|p behind IH]; [reflexivity|]. intros W. cbn [tl] in W.
  destruct behind as [|q b].
  - cbn [comp_left]. rewrite left_spec_cons. cbn [existsb sum_cur fold_right]. rewrite orb_false_r.
    destruct (cur_left p <? 0) eqn:E; [apply Z.ltb_lt in E; apply cur_left_neg; exact E|lia].
  - assert (LA : left_after Sticky (q :: b) = left_spec (q :: b)) by (apply left_after_is_spec; exact W).
    assert (IH' : comp_left Sticky started (q :: b) = left_spec (q :: b)).
    { apply IH. cbn [tl]. cbn [forallb] in W. apply andb_true_iff in W. apply W. }
    change (comp_left Sticky started (p :: q :: b)) with
      (let l := cur_left p in let la := left_after Sticky (q :: b) in
       if l =? 0 then if 0 <=? la then la else if negb started then -1 else comp_left Sticky started (q :: b)
       else if (l <? 0) || (la <? 0) then -1 else l + la).
    cbv zeta. rewrite LA, IH'. rewrite (left_spec_cons p (q :: b)).
    pose proof (left_spec_range (q :: b)) as R. rewrite (left_spec_unfold (q :: b)) in *.
    destruct (cur_left p =? 0) eqn:E0.
    + apply Z.eqb_eq in E0. rewrite E0. cbn [Z.ltb Z.compare orb].
      destruct (existsb unk_cur (q :: b)) eqn:EX.
      * cbn. destruct (negb started); reflexivity.
      * pose proof (sum_cur_nonneg _ EX) as NN. destruct (0 <=? sum_cur (q :: b)) eqn:E1; [lia|].
        apply Z.leb_gt in E1. lia.
    + apply Z.eqb_neq in E0. destruct (cur_left p <? 0) eqn:E1; cbn [orb]; [reflexivity|].
      destruct (existsb unk_cur (q :: b)) eqn:EX; [reflexivity|].
      pose proof (sum_cur_nonneg _ EX) as NN. destruct (sum_cur (q :: b) <? 0) eqn:E2; [apply Z.ltb_lt in E2; lia|reflexivity].
Qed.

(* Left() == 0 only when every remaining part is known and empty *)
Lemma left_spec_zero ps : left_spec ps = 0 -> Forall (fun p => cur_left p = 0) ps.
Proof.
  rewrite left_spec_unfold. destruct (existsb unk_cur ps) eqn:E; [lia|]. revert E.
  induction ps as [|p b IH]; [constructor|]. cbn [existsb sum_cur fold_right]. intros E S.
  apply orb_false_iff in E. destruct E as [Ep Eb]. unfold unk_cur in Ep. apply Z.ltb_ge in Ep.
  pose proof (sum_cur_nonneg _ Eb) as NN. unfold sum_cur in NN.
  constructor; [lia|]. apply IH; [exact Eb|]. unfold sum_cur. lia.
Qed.

Theorem comp_left_zero started ps :
  forallb untouched (tl ps) = true -> comp_left Sticky started ps = 0 -> Forall (fun p => cur_left p = 0) ps.
Proof. intros W H. rewrite comp_left_is_spec in H by exact W. apply left_spec_zero. exact H. Qed.

(* Left() is unknown as long as an unlimited part is ahead *)
Theorem comp_left_unknown started ps :
  forallb untouched (tl ps) = true -> In (CUnl false) ps -> comp_left Sticky started ps = -1.
Proof.
  intros W I. rewrite comp_left_is_spec by exact W. rewrite left_spec_unfold.
  assert (E : existsb unk_cur ps = true) by (apply existsb_exists; exists (CUnl false); split; [exact I|reflexivity]).
  rewrite E. reflexivity.
Qed.

(* Next keeps the parts behind the head untouched *)
Lemma cnext_untouched : forall ps ps',
  forallb untouched (tl ps) = true -> cnext ps = Some ps' -> forallb untouched (tl ps') = true.
Proof.
  induction ps as [|p r IH]; intros ps' W H; [discriminate|]. cbn [tl] in W.
  assert (REC : forall q r', r = q :: r' -> cnext r = Some ps' -> forallb untouched (tl ps') = true).
  { intros q r' -> H'. apply (IH ps'); [|exact H']. cbn [tl]. cbn [forallb] in W. apply andb_true_iff in W. apply W. }
  destruct p as [[|n]|[|]]; cbn [cnext] in H.
  - destruct r as [|q r']; [discriminate|]. eapply REC; eauto.
  - inversion H; subst. exact W.
  - destruct r as [|q r']; [discriminate|]. eapply REC; eauto.
  - inversion H; subst. exact W.
Qed.

Theorem cleft_run_is_spec : forall draws ps,
  forallb untouched (tl ps) = true ->
  cleft_run (comp_left Sticky) draws ps = cleft_run (fun _ => left_spec) draws ps.
Proof.
  induction draws as [|d IH]; intros ps W; [reflexivity|]. cbn [cleft_run].
  destruct (cnext ps) as [ps'|] eqn:E; [|reflexivity].
  pose proof (cnext_untouched ps ps' W E) as W'. rewrite (comp_left_is_spec true ps' W'), (IH ps' W'). reflexivity.
Qed.

Theorem cleft_trace_is_spec draws ps :
  forallb untouched (tl ps) = true -> cleft_trace Sticky draws ps = cleft_spec_trace draws ps.
Proof.
  intros W. unfold cleft_trace, cleft_spec_trace. rewrite (comp_left_is_spec false ps W), (cleft_run_is_spec draws ps W). reflexivity.
Qed.
