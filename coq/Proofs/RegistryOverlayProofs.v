(* Proofs about Model/RegistryOverlay.v: the decoder (ZeroFields = false) overlays the default -
   maps key by key, nested structs field by field - and the registry's names are exact. *)
From Coq Require Import List Arith Bool NArith Lia.
From PV Require Import Model.RegistryOverlay.
Import ListNotations.

Lemma aset_lookup k v m k' :
  alookup k' (aset k v m) = if N.eqb k' k then Some v else alookup k' m.
Proof.
  induction m as [|[k0 v0] r IH]; cbn.
  - reflexivity.
  - destruct (N.eqb_spec k k0) as [->|NE]; cbn.
    + destruct (N.eqb k' k0); reflexivity.
    + destruct (N.eqb_spec k' k0) as [->|NE'].
      * destruct (N.eqb_spec k0 k); [congruence|reflexivity].
      * apply IH.
Qed.

(* every key of a decoded map field: the section's value where the section's map has the key, the
   default's otherwise *)
Lemma dec_map_lookup dm um k : alookup k (dec_map dm um) = map_expect dm um k.
Proof.
  unfold dec_map, map_expect. induction um as [|[k0 v0] r IH]; cbn [fold_right fst snd alookup].
  - reflexivity.
  - rewrite aset_lookup. destruct (N.eqb k k0).
    + destruct v0; reflexivity.
    + exact IH.
Qed.

Lemma overlay_map_keeps dm um k :
  alookup k um = None -> alookup k (dec_map dm um) = alookup k dm.
Proof. intros H. rewrite dec_map_lookup. unfold map_expect. rewrite H. reflexivity. Qed.

Lemma overlay_map_sets dm um k v :
  alookup k um = Some (Some v) -> alookup k (dec_map dm um) = Some v.
Proof. intros H. rewrite dec_map_lookup. unfold map_expect. rewrite H. reflexivity. Qed.

Lemma optN_eqb_refl a : optN_eqb a a = true.
Proof. destruct a; cbn; [apply N.eqb_refl|reflexivity]. Qed.
Lemma listN_eqb_refl l : listN_eqb l l = true.
Proof. induction l; cbn; [reflexivity|]. rewrite N.eqb_refl. exact IHl. Qed.
Lemma amap_eqb_refl m : amap_eqb m m = true.
Proof. induction m as [|[k v] r IH]; cbn; [reflexivity|]. rewrite !N.eqb_refl. exact IH. Qed.

Lemma map_agrees_dec dm um : map_agrees_b dm um (dec_map dm um) = true.
Proof.
  unfold map_agrees_b. apply forallb_forall. intros k _. rewrite dec_map_lookup. apply optN_eqb_refl.
Qed.
Lemma map_agrees_self dm : map_agrees_b dm [] dm = true.
Proof. exact (map_agrees_dec dm []). Qed.

Lemma sub_expect_nil d : sub_expect d [] = d.
Proof. unfold sub_expect. induction d as [|[k v] r IH]; cbn; [reflexivity|]. f_equal. exact IH. Qed.

Lemma val_agrees_self cur : val_agrees_b cur UNull cur = true.
Proof.
  destruct cur; cbn.
  - apply N.eqb_refl.
  - apply map_agrees_self.
  - apply listN_eqb_refl.
  - rewrite sub_expect_nil. apply amap_eqb_refl.
  - rewrite eqb_reflx, amap_eqb_refl, orb_true_r. reflexivity.
Qed.

Lemma dec_field_agrees cur u v k : dec_field cur u = Some (v, k) -> val_agrees_b cur u v = true.
Proof.
  destruct u, cur; cbn; intros H; try discriminate; injection H as <- <-;
    rewrite ?sub_expect_nil, ?eqb_reflx, ?amap_eqb_refl, ?orb_true_r;
    try reflexivity; try apply N.eqb_refl; try apply map_agrees_self; try apply listN_eqb_refl;
    try apply map_agrees_dec; try apply amap_eqb_refl.
Qed.

(* what the decoder wrote is the default overlaid by the settings *)
Lemma dec_fields_agrees sec fs :
  snd (dec_fields fs sec) = false -> cfg_agrees_b fs sec (fst (fst (dec_fields fs sec))) = true.
Proof.
  induction fs as [|[f cur] r IH]; cbn [dec_fields]; [reflexivity|].
  destruct (dec_fields r sec) as [[r' n] bad] eqn:D. cbn [fst snd] in IH.
  destruct (alookup f sec) as [u|] eqn:L.
  - destruct (dec_field cur u) as [[v k]|] eqn:F; cbn [fst snd]; intros B; [|discriminate].
    cbn [cfg_agrees_b]. rewrite L, N.eqb_refl, (dec_field_agrees _ _ _ _ F), (IH B). reflexivity.
  - cbn [fst snd]. intros B. cbn [cfg_agrees_b]. rewrite L, N.eqb_refl, val_agrees_self, (IH B). reflexivity.
Qed.

Theorem dec_cfg_agrees fs sec r : dec_cfg fs sec = Some r -> cfg_agrees_b fs sec r = true.
Proof.
  unfold dec_cfg. pose proof (dec_fields_agrees sec fs) as H.
  destruct (dec_fields fs sec) as [[r' n] bad]. cbn [fst snd] in H.
  destruct bad; cbn [orb]; [discriminate|].
  destruct (negb (Nat.eqb (n + unused_keys fs sec) 0)); [discriminate|].
  intros E. injection E as <-. apply H. reflexivity.
Qed.

(* ---------- acceptance ---------- *)
Lemma unused_zero {A B} (fields : list (key * A)) (data : list (key * B)) :
  Nat.eqb (unused_keys fields data) 0 = forallb (fun kv => has_key (fst kv) fields) data.
Proof.
  unfold unused_keys. induction data as [|kv r IH]; cbn; [reflexivity|].
  destruct (has_key (fst kv) fields); cbn; [exact IH|reflexivity].
Qed.

Lemma dec_field_fits cur u :
  match dec_field cur u with
  | Some (_, k) => fits cur u = Nat.eqb k 0
  | None => fits cur u = false
  end.
Proof.
  destruct u, cur; cbn; try reflexivity; symmetry; apply unused_zero.
Qed.

Lemma eqb_add_zero a b : Nat.eqb (a + b) 0 = Nat.eqb a 0 && Nat.eqb b 0.
Proof. destruct a, b; reflexivity. Qed.

Lemma dec_fields_fits sec fs :
  negb (snd (dec_fields fs sec)) && Nat.eqb (snd (fst (dec_fields fs sec))) 0 =
  forallb (fun fv => match alookup (fst fv) sec with Some u => fits (snd fv) u | None => true end) fs.
Proof.
  induction fs as [|[f cur] r IH]; cbn [dec_fields forallb fst snd]; [reflexivity|].
  destruct (dec_fields r sec) as [[r' n] bad]. cbn [fst snd] in IH.
  destruct (alookup f sec) as [u|].
  - pose proof (dec_field_fits cur u) as F.
    destruct (dec_field cur u) as [[v k]|]; cbn [fst snd]; rewrite F, <- IH.
    + rewrite eqb_add_zero. destruct bad, (Nat.eqb k 0); reflexivity.
    + reflexivity.
  - cbn [fst snd]. exact IH.
Qed.

(* the decoder fails exactly when a key names no field (also inside a nested struct) or a value has
   the wrong kind *)
Theorem dec_cfg_accepts fs sec : ovl_some (dec_cfg fs sec) = ovl_accepted_b fs sec.
Proof.
  unfold dec_cfg, ovl_accepted_b. rewrite <- dec_fields_fits, <- unused_zero.
  destruct (dec_fields fs sec) as [[r n] bad]. cbn [fst snd].
  rewrite eqb_add_zero.
  destruct bad, (Nat.eqb n 0), (Nat.eqb (unused_keys fs sec) 0); reflexivity.
Qed.

(* a field whose key is absent from the section, or present with a nil value, stays as the
   default made it - whatever kind of field it is *)
Lemma dec_fields_keeps sec fs f cur :
  alookup f fs = Some cur ->
  alookup f sec = None \/ alookup f sec = Some UNull ->
  alookup f (fst (fst (dec_fields fs sec))) = Some cur.
Proof.
  intros L S. induction fs as [|[g c] r IH]; cbn [dec_fields]; [discriminate|].
  destruct (dec_fields r sec) as [[r' n] bad]. cbn [fst snd] in IH.
  cbn [alookup] in L. destruct (N.eqb_spec f g) as [->|NE].
  - injection L as ->. destruct S as [S|S]; rewrite S; cbn; rewrite N.eqb_refl; reflexivity.
  - specialize (IH L).
    assert (HD : forall x, alookup f ((g, x) :: r') = Some cur).
    { intros x. cbn. destruct (N.eqb_spec f g); [congruence|exact IH]. }
    destruct (alookup g sec) as [u|]; [destruct (dec_field c u) as [[v k]|]|]; cbn [fst]; apply HD.
Qed.

Theorem dec_cfg_keeps fs sec r f cur :
  dec_cfg fs sec = Some r -> alookup f fs = Some cur ->
  alookup f sec = None \/ alookup f sec = Some UNull ->
  alookup f r = Some cur.
Proof.
  unfold dec_cfg. intros D L S. pose proof (dec_fields_keeps sec fs f cur L S) as K.
  destruct (dec_fields fs sec) as [[r' n] bad]. cbn [fst] in K.
  destruct (bad || negb (Nat.eqb (n + unused_keys fs sec) 0)); [discriminate|].
  injection D as <-. exact K.
Qed.

(* ---------- registered names ---------- *)
Lemma pname_eqb_eq a b : pname_eqb a b = true <-> a = b.
Proof.
  revert b. induction a as [|x a IH]; intros [|y b]; cbn; split; intros H; try reflexivity; try discriminate.
  - apply andb_prop in H as [H1 H2]. apply N.eqb_eq in H1. apply IH in H2. congruence.
  - injection H as -> ->. rewrite N.eqb_refl. apply IH. reflexivity.
Qed.
Lemma pname_eqb_refl a : pname_eqb a a = true.
Proof. apply pname_eqb_eq. reflexivity. Qed.

Lemma nlookup_in r n e : nlookup r n = Some e -> In (n, e) r.
Proof.
  induction r as [|[m x] r IH]; cbn; [discriminate|].
  destruct (pname_eqb n m) eqn:E.
  - intros H. injection H as ->. apply pname_eqb_eq in E. subst. left. reflexivity.
  - intros H. right. apply IH, H.
Qed.
Lemma nlookup_app_some r s n e : nlookup r n = Some e -> nlookup (r ++ s) n = Some e.
Proof.
  induction r as [|[m x] r IH]; cbn; [discriminate|]. destruct (pname_eqb n m); [trivial|exact IH].
Qed.
Lemma nlookup_app_none r s n : nlookup r n = None -> nlookup (r ++ s) n = nlookup s n.
Proof.
  induction r as [|[m x] r IH]; cbn; [reflexivity|]. destruct (pname_eqb n m); [discriminate|exact IH].
Qed.

Definition finds_all (r : nreg) : Prop := forall n e, In (n, e) r -> nlookup r n = Some e.

Lemma nregister_all_shape l : forall r0 r,
  nregister_all r0 l = Some r -> finds_all r0 -> r = r0 ++ l /\ finds_all r.
Proof.
  induction l as [|[n e] l IH]; cbn; intros r0 r H P.
  - injection H as <-. rewrite app_nil_r. split; [reflexivity|exact P].
  - unfold nregister in H. destruct n as [|c n]; [discriminate|].
    destruct (nlookup r0 (c :: n)) eqn:L; [discriminate|].
    apply IH in H.
    + destruct H as [-> F]. rewrite <- app_assoc in *. split; [reflexivity|exact F].
    + intros m x I. apply in_app_or in I as [I|[I|[]]].
      * apply nlookup_app_some, P, I.
      * injection I as <- <-. rewrite (nlookup_app_none _ _ _ L). cbn [nlookup].
        rewrite pname_eqb_refl. reflexivity.
Qed.

(* a name finds the entry registered under exactly these bytes, whatever else is registered *)
Theorem nlookup_exact l r n e :
  nregister_all [] l = Some r -> (nlookup r n = Some e <-> In (n, e) l).
Proof.
  intros H. apply nregister_all_shape in H as [-> F]; [|intros ? ? []].
  cbn [app]. split; [apply nlookup_in|apply F].
Qed.

Theorem create_named_spec l r v :
  nregister_all [] l = Some r -> named_spec_b l v (create_named r v) = true.
Proof.
  intros H. unfold create_named, hook_name. destruct v as [|c v]; [reflexivity|].
  destruct (nlookup r (c :: v)) as [e|] eqn:L; unfold named_spec_b.
  - rewrite andb_true_r. apply existsb_exists. exists (c :: v, e). split.
    + apply (nlookup_exact _ _ _ _ H), L.
    + cbn [fst snd]. rewrite pname_eqb_refl, Nat.eqb_refl. reflexivity.
  - rewrite andb_true_r. apply negb_true_iff.
    destruct (existsb (fun ne => pname_eqb (c :: v) (fst ne)) l) eqn:E; [|reflexivity].
    apply existsb_exists in E as [[m x] [I E]]. cbn [fst] in E. apply pname_eqb_eq in E. subst m.
    apply (nlookup_exact _ _ _ _ H) in I. congruence.
Qed.
