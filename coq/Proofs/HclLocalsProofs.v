(* Lemmas about the locals stage of the HCL scenario front-end (Model/HclLocals.v), property C16. *)
From Coq Require Import List NArith Bool.
From PV Require Import Model.ConfigDecode Model.HclLocals Proofs.ConfigDecodeProofs.
Import ListNotations.
Local Open Scope N_scope.

Lemma eval_with_ext : forall f g e, (forall n, f n = g n) -> eval_with f e = eval_with g e.
Proof.
  intros f g e H. induction e; cbn [eval_with]; auto;
    rewrite IHe1, IHe2; reflexivity.
Qed.

Lemma map_opt_ext : forall (A B : Type) (f g : A -> option B) l,
  (forall x, f x = g x) -> map_opt f l = map_opt g l.
Proof.
  intros A B f g l H. induction l as [|x r IH]; cbn [map_opt]; auto. rewrite H, IH. reflexivity.
Qed.

Lemma assoc_app : forall (A : Type) n (a b : list (str * A)),
  assoc n (a ++ b) = match assoc n a with Some x => Some x | None => assoc n b end.
Proof.
  intros A n a b. induction a as [|[k x] r IH]; cbn [assoc app]; auto.
  destruct (str_eqb n k); auto.
Qed.

(* ---- one block ------------------------------------------------------------------------------------------------ *)

Definition eval_attr (look : str -> option lval) (ne : str * lexpr) : option (str * lval) :=
  match eval_with look (snd ne) with Some v => Some (fst ne, v) | None => None end.

Lemma map_opt_attrs_lookup : forall look b nv,
  map_opt (eval_attr look) b = Some nv ->
  forall n, assoc n nv = match assoc n b with Some e => eval_with look e | None => None end.
Proof.
  intros look b. induction b as [|[k e] r IH]; intros nv H n; cbn [map_opt] in H.
  - inversion H. reflexivity.
  - unfold eval_attr at 1 in H. cbn [fst snd] in H.
    destruct (eval_with look e) as [v|] eqn:E; [|discriminate].
    destruct (map_opt (eval_attr look) r) as [ys|] eqn:R; [|discriminate].
    inversion H; subst nv. cbn [assoc].
    destruct (str_eqb n k); [symmetry; exact E | apply IH; reflexivity].
Qed.

Lemma map_opt_attrs_some : forall look b,
  is_some (map_opt (eval_attr look) b) = forallb (fun ne => is_some (eval_with look (snd ne))) b.
Proof.
  intros look b. induction b as [|[k e] r IH]; cbn [map_opt forallb]; auto.
  unfold eval_attr at 1. cbn [fst snd].
  destruct (eval_with look e); cbn [is_some andb]; auto.
  rewrite <- IH. destruct (map_opt (eval_attr look) r); reflexivity.
Qed.

Lemma decode_block_unfold : forall ctx b,
  decode_block ctx b = if block_wf b then map_opt (eval_attr (fun n => assoc n ctx)) b else None.
Proof. reflexivity. Qed.

Lemma decode_block_lookup : forall ctx b nv,
  decode_block ctx b = Some nv ->
  forall n, assoc n nv = match assoc n b with Some e => eval_with (fun m => assoc m ctx) e | None => None end.
Proof.
  intros ctx b nv H. rewrite decode_block_unfold in H.
  destruct (block_wf b); [|discriminate]. apply map_opt_attrs_lookup. exact H.
Qed.

Lemma decode_block_some : forall ctx b,
  is_some (decode_block ctx b) =
  block_wf b && forallb (fun ne => is_some (eval_with (fun m => assoc m ctx) (snd ne))) b.
Proof.
  intros ctx b. rewrite decode_block_unfold. destruct (block_wf b); cbn [andb]; auto.
  apply map_opt_attrs_some.
Qed.

(* ---- the loop ------------------------------------------------------------------------------------------------- *)

Lemma defs_ok_app : forall xs ys, defs_ok (xs ++ ys) = true -> defs_ok ys = true.
Proof.
  induction xs as [|b r IH]; intros ys H; cbn [app defs_ok] in H; auto.
  apply andb_true_iff in H. destruct H as [H _]. apply andb_true_iff in H. destruct H as [H _].
  apply IH. exact H.
Qed.

Lemma forallb_ext' : forall (A : Type) (f g : A -> bool) l, (forall x, f x = g x) -> forallb f l = forallb g l.
Proof. intros A f g l H. induction l; cbn [forallb]; auto. rewrite H, IHl. reflexivity. Qed.

(* The invariant of decodeLocals: the accumulated map gives every name the meaning the specification gives it for a
   reader below the blocks consumed so far; and the loop fails exactly when some definition does not evaluate. *)
Lemma decode_locals_from_spec : forall blocks vars above,
  (forall n, assoc n vars = lookup_above above n) ->
  defs_ok above = true ->
  match decode_locals_from vars blocks with
  | Some vars' =>
      defs_ok (rev blocks ++ above) = true /\ forall n, assoc n vars' = lookup_above (rev blocks ++ above) n
  | None => defs_ok (rev blocks ++ above) = false
  end.
Proof.
  induction blocks as [|b rest IH]; intros vars above Hv Hd; cbn [decode_locals_from rev app].
  - split; assumption.
  - rewrite <- app_assoc. cbn [app].
    assert (Hok : is_some (decode_block vars b) =
                  block_wf b && forallb (fun ne => is_some (eval_with (lookup_above above) (snd ne))) b).
    { rewrite decode_block_some. f_equal. apply forallb_ext'. intro x. f_equal. apply eval_with_ext. exact Hv. }
    destruct (decode_block vars b) as [nv|] eqn:D.
    + cbn [is_some] in Hok.
      apply IH.
      * intro n. unfold merge_maps. rewrite assoc_app. rewrite (decode_block_lookup _ _ _ D n).
        cbn [lookup_above]. destruct (assoc n b) as [e|] eqn:A.
        -- assert (He : eval_with (fun m => assoc m vars) e = eval_with (lookup_above above) e)
             by (apply eval_with_ext; exact Hv).
           rewrite He. destruct (eval_with (lookup_above above) e) eqn:E; auto.
           (* a definition of the block that fails: impossible, the block was decoded *)
           exfalso. symmetry in Hok. apply andb_true_iff in Hok. destruct Hok as [_ Hall].
           rewrite forallb_forall in Hall.
           assert (Hin : exists k, In (k, e) b).
           { clear -A. induction b as [|[k x] r IHr]; cbn [assoc] in A; [discriminate|].
             destruct (str_eqb n k).
             - inversion A; subst. exists k. left. reflexivity.
             - destruct (IHr A) as [k' Hk]. exists k'. right. exact Hk. }
           destruct Hin as [k Hin]. specialize (Hall _ Hin). cbn [snd] in Hall. rewrite E in Hall. discriminate.
        -- apply Hv.
      * cbn [defs_ok]. rewrite Hd. cbn [andb]. symmetry. exact Hok.
    + cbn [is_some] in Hok.
      destruct (defs_ok (rev rest ++ b :: above)) eqn:F; auto.
      apply defs_ok_app in F. cbn [defs_ok] in F. rewrite Hd in F. cbn [andb] in F.
      rewrite F in Hok. discriminate.
Qed.

Lemma parse_hcl_is_spec : forall blocks body, parse_hcl blocks body = spec_locals blocks body.
Proof.
  intros blocks body. unfold parse_hcl, spec_locals, decode_locals.
  pose proof (decode_locals_from_spec blocks [] [] (fun n => eq_refl) eq_refl) as H.
  rewrite app_nil_r in H.
  destruct (decode_locals_from [] blocks) as [vars|].
  - destruct H as [Hd Hl]. rewrite Hd. apply map_opt_ext. intro e. apply eval_with_ext. exact Hl.
  - rewrite H. reflexivity.
Qed.

(* the final context, name by name *)
Lemma decode_locals_lookup : forall blocks vars,
  decode_locals blocks = Some vars -> forall n, assoc n vars = lookup_above (rev blocks) n.
Proof.
  intros blocks vars H.
  pose proof (decode_locals_from_spec blocks [] [] (fun n => eq_refl) eq_refl) as S.
  unfold decode_locals in H. rewrite H in S. rewrite app_nil_r in S. apply S.
Qed.

(* ---- a reference reaches a definition any number of blocks above it -------------------------------------------- *)

Lemma lookup_above_skips : forall mid b rest n e,
  (forall m, In m mid -> assoc n m = None) ->
  assoc n b = Some e ->
  lookup_above (mid ++ b :: rest) n = eval_with (lookup_above rest) e.
Proof.
  induction mid as [|m r IH]; intros b rest n e Hm Hb; cbn [app lookup_above].
  - rewrite Hb. reflexivity.
  - rewrite (Hm m (or_introl eq_refl)). apply IH; auto. intros m' Hin. apply Hm. right. exact Hin.
Qed.

(* in file order: blocks = before ++ [b] ++ between ++ later..., seen from a block (or the body) below `between` *)
Lemma locals_reach_any_block : forall before b between vars n e,
  decode_locals (before ++ b :: between) = Some vars ->
  assoc n b = Some e ->
  (forall m, In m between -> assoc n m = None) ->
  assoc n vars = eval_with (lookup_above (rev before)) e.
Proof.
  intros before b between vars n e H Hb Hm.
  rewrite (decode_locals_lookup _ _ H). rewrite rev_app_distr. cbn [rev]. rewrite <- app_assoc. cbn [app].
  apply lookup_above_skips; auto.
  intros m Hin. apply Hm. apply in_rev. exact Hin.
Qed.

(* ---- inlining --------------------------------------------------------------------------------------------------- *)

Definition bind_eval (o : option lexpr) : option lval :=
  match o with Some e => eval_closed e | None => None end.

Lemma subst_eval : forall le lv e,
  (forall n, bind_eval (le n) = lv n) -> bind_eval (subst le e) = eval_with lv e.
Proof.
  intros le lv e H. induction e; cbn [subst eval_with];
    [ reflexivity | apply H | | | | ];
    rewrite <- IHe1, <- IHe2;
    destruct (subst le e1) as [a|]; destruct (subst le e2) as [b|]; cbn [bind_eval];
      unfold eval_closed; cbn [eval_with]; try reflexivity;
    destruct (eval_with (fun _ => None) a) as [[| | |]|]; reflexivity.
Qed.

Lemma inline_lookup_eval : forall above n, bind_eval (inline_lookup above n) = lookup_above above n.
Proof.
  induction above as [|b rest IH]; intro n; cbn [inline_lookup lookup_above]; auto.
  destruct (assoc n b) as [e|]; [apply subst_eval; exact IH | apply IH].
Qed.

Lemma subst_ref_free : forall le e e',
  (forall n x, le n = Some x -> ref_free x = true) -> subst le e = Some e' -> ref_free e' = true.
Proof.
  intros le e. induction e; intros e' H S; cbn [subst] in S.
  - inversion S. reflexivity.
  - eapply H; eauto.
  - destruct (subst le e1) as [a|]; [|discriminate]. destruct (subst le e2) as [b|]; [|discriminate].
    inversion S. cbn [ref_free]. rewrite (IHe1 a), (IHe2 b); auto.
  - destruct (subst le e1) as [a|]; [|discriminate]. destruct (subst le e2) as [b|]; [|discriminate].
    inversion S. cbn [ref_free]. rewrite (IHe1 a), (IHe2 b); auto.
  - destruct (subst le e1) as [a|]; [|discriminate]. destruct (subst le e2) as [b|]; [|discriminate].
    inversion S. cbn [ref_free]. rewrite (IHe1 a), (IHe2 b); auto.
  - destruct (subst le e1) as [a|]; [|discriminate]. destruct (subst le e2) as [b|]; [|discriminate].
    inversion S. cbn [ref_free]. rewrite (IHe1 a), (IHe2 b); auto.
Qed.

Lemma inline_lookup_ref_free : forall above n x, inline_lookup above n = Some x -> ref_free x = true.
Proof.
  induction above as [|b rest IH]; intros n x H; cbn [inline_lookup] in H; [discriminate|].
  destruct (assoc n b) as [e|]; [eapply subst_ref_free; eauto | eapply IH; eauto].
Qed.

Lemma inline_body_correct : forall blocks e,
  match inline_body blocks e with
  | Some e' => ref_free e' = true /\ eval_closed e' = eval_with (lookup_above (rev blocks)) e
  | None => eval_with (lookup_above (rev blocks)) e = None
  end.
Proof.
  intros blocks e. unfold inline_body.
  pose proof (subst_eval (inline_lookup (rev blocks)) (lookup_above (rev blocks)) e (inline_lookup_eval (rev blocks))) as H.
  destruct (subst (inline_lookup (rev blocks)) e) as [e'|] eqn:S; cbn [bind_eval] in H.
  - split; auto. eapply subst_ref_free; eauto. apply inline_lookup_ref_free.
  - symmetry. exact H.
Qed.

(* a description whose locals all evaluate reads like the description with the locals written out *)
Lemma parse_hcl_inlined : forall blocks body vals,
  parse_hcl blocks body = Some vals ->
  exists body', map_opt (inline_body blocks) body = Some body' /\
                forallb ref_free body' = true /\
                parse_hcl [] body' = Some vals.
Proof.
  intros blocks body vals H. rewrite parse_hcl_is_spec in H. unfold spec_locals in H.
  destruct (defs_ok (rev blocks)); [|discriminate]. clear -H.
  unfold parse_hcl, decode_locals. cbn [decode_locals_from].
  revert vals H. induction body as [|e r IH]; intros vals H; cbn [map_opt] in H.
  - inversion H. exists []. repeat split; reflexivity.
  - destruct (eval_with (lookup_above (rev blocks)) e) as [v|] eqn:E; [|discriminate].
    destruct (map_opt (eval_with (lookup_above (rev blocks))) r) as [vs|] eqn:R; [|discriminate].
    inversion H; subst vals. destruct (IH vs eq_refl) as [r' [M [F P]]].
    pose proof (inline_body_correct blocks e) as C.
    destruct (inline_body blocks e) as [e'|] eqn:I.
    + destruct C as [Cf Ce]. exists (e' :: r'). cbn [map_opt forallb]. rewrite I, M, Cf, F.
      repeat split; auto.
      assert (X : eval_with (fun n => assoc n (@nil (str * lval))) e' = Some v).
      { rewrite <- E, <- Ce. unfold eval_closed. apply eval_with_ext. reflexivity. }
      rewrite X, P. reflexivity.
    + rewrite C in E. discriminate.
Qed.

(* ---- null ------------------------------------------------------------------------------------------------------- *)

(* a local set to null EXISTS: below its block (and below any number of blocks that do not set the name again) the name
   is defined and null -- whatever an earlier block said about it *)
Lemma null_redefinition_hides : forall before b between vars n,
  decode_locals (before ++ b :: between) = Some vars ->
  assoc n b = Some (ELit LNull) ->
  (forall m, In m between -> assoc n m = None) ->
  assoc n vars = Some LNull.
Proof.
  intros before b between vars n H Hb Hm.
  rewrite (locals_reach_any_block before b between vars n (ELit LNull) H Hb Hm). reflexivity.
Qed.

Lemma parse_hcl_fields_is_spec : forall blocks attrs, parse_hcl_fields blocks attrs = spec_fields blocks attrs.
Proof.
  intros blocks attrs. unfold parse_hcl_fields, spec_fields, decode_locals.
  pose proof (decode_locals_from_spec blocks [] [] (fun n => eq_refl) eq_refl) as H.
  rewrite app_nil_r in H.
  destruct (decode_locals_from [] blocks) as [vars|].
  - destruct H as [Hd Hl]. rewrite Hd. unfold decode_fields. apply map_opt_ext. intro a. unfold decode_attr.
    rewrite (eval_with_ext _ _ (snd a) Hl). reflexivity.
  - rewrite H. reflexivity.
Qed.

(* an attribute whose value is null: its field is left out, and only a field that can be nil takes it *)
Lemma decode_fields_null : forall look attrs fs,
  decode_fields look attrs = Some fs ->
  forall i a, nth_error attrs i = Some a ->
    (eval_with look (snd a) = Some LNull -> nth_error fs i = Some None /\ fst a = true) /\
    (forall v, eval_with look (snd a) = Some v -> v <> LNull -> nth_error fs i = Some (Some v)).
Proof.
  intros look attrs. induction attrs as [|x r IH]; intros fs H i a Hi.
  - destruct i; discriminate.
  - unfold decode_fields in H. cbn [map_opt] in H.
    destruct (decode_attr look x) as [y|] eqn:D; [|discriminate].
    destruct (map_opt (decode_attr look) r) as [ys|] eqn:R; [|discriminate].
    inversion H; subst fs. destruct i as [|i].
    + cbn [nth_error] in Hi. inversion Hi; subst a. cbn [nth_error]. unfold decode_attr in D. split.
      * intro E. rewrite E in D. cbn [field_val] in D. destruct (fst x); [|discriminate]. inversion D. auto.
      * intros v E Hv. rewrite E in D. destruct v; cbn [field_val] in D; try (inversion D; reflexivity).
        exfalso. apply Hv. reflexivity.
    + cbn [nth_error] in Hi |- *. apply (IH ys R i a Hi).
Qed.

(* ... and the description reads like the one with those attributes deleted from the text: the same fields are
   present, with the same values, in the same order *)
Lemma null_attributes_left_out : forall look attrs fs,
  decode_fields look attrs = Some fs ->
  decode_fields look (written_attrs look attrs) = Some (filter (@is_some lval) fs).
Proof.
  intros look attrs. induction attrs as [|x r IH]; intros fs H.
  - inversion H. reflexivity.
  - unfold decode_fields in H. cbn [map_opt] in H.
    destruct (decode_attr look x) as [y|] eqn:D; [|discriminate].
    destruct (map_opt (decode_attr look) r) as [ys|] eqn:R; [|discriminate].
    inversion H; subst fs. specialize (IH ys R).
    unfold written_attrs. cbn [filter]. unfold decode_attr in D.
    destruct (eval_with look (snd x)) as [v|] eqn:E; [|discriminate].
    destruct v; cbn [field_val] in D; cbn [is_null_val negb];
      try (inversion D; subst y; cbn [is_some]; unfold decode_fields; cbn [map_opt];
           unfold decode_attr at 1; rewrite E; cbn [field_val];
           fold (written_attrs look r); unfold decode_fields in IH; rewrite IH; reflexivity).
    destruct (fst x); [|discriminate]. inversion D; subst y. cbn [is_some]. exact IH.
Qed.

Lemma parse_hcl_fields_null_left_out : forall blocks attrs fs,
  parse_hcl_fields blocks attrs = Some fs ->
  parse_hcl_fields blocks (written_attrs (lookup_above (rev blocks)) attrs) = Some (filter (@is_some lval) fs).
Proof.
  intros blocks attrs fs H. rewrite parse_hcl_fields_is_spec in *. unfold spec_fields in *.
  destruct (defs_ok (rev blocks)); [|discriminate]. apply null_attributes_left_out. exact H.
Qed.

Lemma null_attribute_leaves_field_out : forall blocks attrs fs,
  parse_hcl_fields blocks attrs = Some fs ->
  (forall i a, nth_error attrs i = Some a ->
     eval_with (lookup_above (rev blocks)) (snd a) = Some LNull -> nth_error fs i = Some None /\ fst a = true) /\
  parse_hcl_fields blocks (written_attrs (lookup_above (rev blocks)) attrs) = Some (filter (@is_some lval) fs).
Proof.
  intros blocks attrs fs H. split; [|apply parse_hcl_fields_null_left_out; exact H].
  rewrite parse_hcl_fields_is_spec in H. unfold spec_fields in H.
  destruct (defs_ok (rev blocks)); [|discriminate].
  intros i a Hi E. exact (proj1 (decode_fields_null _ _ _ H i a Hi) E).
Qed.
