(* Lemmas about Model/Robust.v (property C19). *)
From Coq Require Import List ZArith NArith Bool Lia.
From PV Require Import Model.Robust.
Import ListNotations.
Local Open Scope Z_scope.

(* the closure returned by substr as the code has it now: slices out of range *)
Lemma substr_refuted :
  exists st s, fst (substr_call st s) = Panicked.
Proof. exists {| sb_start := -10; sb_end := 0 |}, [97%N; 98%N; 99%N]. vm_compute. reflexivity. Qed.

Lemma substr_refuted_2 :
  fst (substr_call {| sb_start := 5; sb_end := 8 |} [97%N; 98%N; 99%N]) = Panicked.
Proof. vm_compute. reflexivity. Qed.

(* and the captured start/end drift between calls of one closure: substr(-1) gives "c" on "abc" and then "" on "abcdef" *)
Lemma substr_drift :
  substr_seq {| sb_start := -1; sb_end := 0 |} [[97%N; 98%N; 99%N]; [97%N; 98%N; 99%N; 100%N; 101%N; 102%N]]
  = [Done [99%N]; Done [99%N]].
Proof. vm_compute. reflexivity. Qed.

Lemma xpath_refuted : exists k, xpath_values true k = Panicked.
Proof. exists XNumber. reflexivity. Qed.
