(* Lemmas about Model/Robust.v (property C19). *)
From Coq Require Import List ZArith NArith Bool Lia.
From PV Require Import Model.Robust.
Import ListNotations.
Local Open Scope Z_scope.

Lemma blen_nonneg : forall s, 0 <= blen s.
Proof. intro s. unfold blen. lia. Qed.

(* ---------- slicing and substr ---------- *)
Lemma go_slice_done : forall s lo hi, 0 <= lo -> lo <= hi -> hi <= blen s ->
  go_slice s lo hi = Done (firstn (Z.to_nat (hi - lo)) (skipn (Z.to_nat lo) s)).
Proof.
  intros s lo hi H1 H2 H3. unfold go_slice.
  destruct (Z.leb_spec 0 lo); [|lia]. destruct (Z.leb_spec lo hi); [|lia].
  destruct (Z.leb_spec hi (blen s)); [|lia]. reflexivity.
Qed.

(* the slice is a contiguous piece of the input *)
Lemma go_slice_piece : forall s lo hi r, go_slice s lo hi = Done r ->
  exists pre post, s = pre ++ r ++ post /\ blen pre = lo /\ blen r = hi - lo.
Proof.
  intros s lo hi r H. unfold go_slice in H.
  destruct (Z.leb_spec 0 lo); [|discriminate]. destruct (Z.leb_spec lo hi); [|discriminate].
  destruct (Z.leb_spec hi (blen s)); [|discriminate]. cbn in H. injection H as <-.
  exists (firstn (Z.to_nat lo) s), (skipn (Z.to_nat (hi - lo)) (skipn (Z.to_nat lo) s)).
  unfold blen in *. split; [|split].
  - rewrite firstn_skipn. rewrite firstn_skipn. reflexivity.
  - rewrite firstn_length. lia.
  - rewrite firstn_length, skipn_length. lia.
Qed.

Lemma substr_call_done : forall st s, exists r, substr_call st s = (Done r, st).
Proof.
  intros st s. unfold substr_call.
  pose proof (blen_nonneg s) as Hl. set (l := blen s) in *.
  set (s1 := if sb_start st <? 0 then l + sb_start st else sb_start st).
  set (s2 := if s1 <? 0 then 0 else s1).
  set (s3 := if s2 >? l then l else s2).
  set (e1 := if sb_end st <=? 0 then l + sb_end st else sb_end st).
  set (e2 := if e1 <? 0 then 0 else e1).
  set (e3 := if e2 >? l then l else e2).
  assert (Hs : 0 <= s3 <= l).
  { subst s3 s2. destruct (Z.ltb_spec s1 0); destruct (Z.gtb_spec 0 l); try lia;
      destruct (Z.gtb_spec s1 l); lia. }
  assert (He : 0 <= e3 <= l).
  { subst e3 e2. destruct (Z.ltb_spec e1 0); destruct (Z.gtb_spec 0 l); try lia;
      destruct (Z.gtb_spec e1 l); lia. }
  destruct (Z.gtb_spec s3 e3).
  - eexists. rewrite go_slice_done by (fold l; lia). reflexivity.
  - eexists. rewrite go_slice_done by (fold l; lia). reflexivity.
Qed.

Lemma substr_call_not_panic : forall st s, fst (substr_call st s) <> Panicked.
Proof. intros st s. destruct (substr_call_done st s) as [r ->]. discriminate. Qed.

Lemma substr_call_state : forall st s, snd (substr_call st s) = st.
Proof. intros st s. destruct (substr_call_done st s) as [r ->]. reflexivity. Qed.

(* every call in any sequence of calls of one closure returns a value; the captured bounds never change, so each
   result depends on the configured bounds and on that call's value only *)
Lemma substr_seq_safe : forall inputs st,
  Forall2 (fun s o => o = fst (substr_call st s) /\ exists r, o = Done r) inputs (substr_seq st inputs).
Proof.
  induction inputs as [|s r IH]; intros st; cbn [substr_seq]; [constructor|].
  destruct (substr_call_done st s) as [x Hx]. rewrite Hx. constructor.
  - split; [rewrite Hx; reflexivity|exists x; reflexivity].
  - apply IH.
Qed.

Lemma substr_seq_no_panic : forall inputs st, Forall (fun o => o <> Panicked) (substr_seq st inputs).
Proof.
  intros inputs st. pose proof (substr_seq_safe inputs st) as H.
  induction H as [|s o ss os [_ [r ->]] _ IH]; constructor; [discriminate|exact IH].
Qed.

(* ---------- modifiers and var/header ---------- *)
Lemma apply_mod_done : forall m s, exists r, apply_mod m s = Done r.
Proof.
  intros [| |st|a b] s; cbn [apply_mod]; try (eexists; reflexivity).
  destruct (substr_call_done st s) as [r ->]. exists r. reflexivity.
Qed.

Lemma apply_chain_done : forall ms s, exists r, apply_chain ms s = Done r.
Proof.
  induction ms as [|m ms IH]; intro s; cbn [apply_chain]; [eexists; reflexivity|].
  destruct (apply_mod_done m s) as [r ->]. apply IH.
Qed.

Lemma var_header_one_spec : forall chain value,
  (parse_chain chain = None /\ var_header_one chain value = Failed) \/
  (exists ms, parse_chain chain = Some ms /\ exists v, var_header_one chain value = Done v).
Proof.
  intros chain value. unfold var_header_one. destruct (parse_chain chain) as [ms|].
  - right. exists ms. split; [reflexivity|]. destruct value as [|c r]; [eexists; reflexivity|].
    destruct (apply_chain_done ms (c :: r)) as [x ->]. eexists; reflexivity.
  - left. split; reflexivity.
Qed.

Lemma var_header_one_not_panic : forall chain value, var_header_one chain value <> Panicked.
Proof.
  intros chain value. destruct (var_header_one_spec chain value) as [[_ ->]|(ms & _ & v & ->)]; discriminate.
Qed.

Lemma var_header_process_not_panic : forall mapping, var_header_process mapping <> Panicked.
Proof.
  induction mapping as [|[chain value] r IH]; cbn [var_header_process]; [discriminate|].
  destruct (var_header_one_spec chain value) as [[_ ->]|(ms & _ & v & ->)]; [discriminate|exact IH].
Qed.

(* ---------- assertions, xpath, jsonpath ---------- *)
Lemma assert_process_not_panic : forall a r, assert_process a r <> Panicked.
Proof.
  intros a r. unfold assert_process.
  repeat match goal with
         | |- context [if ?c then _ else _] => destruct c
         | |- context [match ?x with _ => _ end] => destruct x
         end; discriminate.
Qed.

Lemma grpc_assert_not_panic : forall st p code out, grpc_assert st p code out <> Panicked.
Proof.
  intros st p code out. unfold grpc_assert.
  repeat match goal with
         | |- context [if ?c then _ else _] => destruct c
         | |- context [match ?x with _ => _ end] => destruct x
         end; discriminate.
Qed.

Lemma xpath_values_not_panic : forall c k, xpath_values c k <> Panicked.
Proof. intros [|] [| | |]; discriminate. Qed.

Lemma var_xpath_process_not_panic : forall m, var_xpath_process m <> Panicked.
Proof.
  induction m as [|[c k] r IH]; cbn [var_xpath_process]; [discriminate|].
  destruct c, k; cbn; try discriminate; exact IH.
Qed.

Lemma var_jsonpath_process_not_panic : forall j ps, var_jsonpath_process j ps <> Panicked.
Proof. intros j ps. unfold var_jsonpath_process. destruct (negb j); [discriminate|]. destruct (forallb _ ps); discriminate. Qed.

Lemma pp_eval_not_panic : forall p, pp_eval p <> Panicked.
Proof.
  intros [m|a r|m|j ps]; cbn [pp_eval].
  - apply var_header_process_not_panic.
  - apply assert_process_not_panic.
  - apply var_xpath_process_not_panic.
  - apply var_jsonpath_process_not_panic.
Qed.

(* ---------- indexes into lists taken from earlier responses ---------- *)
Lemma go_elem_in_range : forall i len, 0 <= i < len -> go_elem i len = Done tt.
Proof.
  intros i len H. unfold go_elem. destruct (Z.leb_spec 0 i); [|lia]. destruct (Z.ltb_spec i len); [|lia]. reflexivity.
Qed.

Lemma extract_elem_not_panic : forall ix len counter rnd, 0 <= len -> 0 <= counter ->
  extract_elem ix len counter rnd <> Panicked.
Proof.
  intros ix len counter rnd Hl Hc. unfold extract_elem, calc_index, go_rem, go_intn.
  destruct (Z.eqb_spec len 0); [discriminate|]. assert (Hp : 0 < len) by lia.
  destruct ix as [i| | | |]; try discriminate.
  - destruct ((0 <=? i) && (i <? len)) eqn:E.
    + apply andb_true_iff in E. destruct E as [E1 E2]. apply Z.leb_le in E1. apply Z.ltb_lt in E2.
      rewrite go_elem_in_range by lia. discriminate.
    + assert (Hr : - len < Z.rem i len < len).
      { destruct (Z.le_ge_cases 0 i).
        - pose proof (Z.rem_bound_pos_pos i len ltac:(lia) ltac:(lia)). lia.
        - pose proof (Z.rem_bound_pos_neg i len ltac:(lia) ltac:(lia)). lia. }
      destruct (Z.ltb_spec (Z.rem i len) 0); rewrite go_elem_in_range by lia; discriminate.
  - destruct (Z.geb_spec counter len).
    + pose proof (Z.rem_bound_pos_pos counter len ltac:(lia) ltac:(lia)).
      rewrite go_elem_in_range by lia. discriminate.
    + rewrite go_elem_in_range by lia. discriminate.
  - destruct (Z.leb_spec len 0); [lia|].
    pose proof (Z.mod_pos_bound rnd len ltac:(lia)).
    rewrite go_elem_in_range by lia. discriminate.
  - rewrite go_elem_in_range by lia. discriminate.
Qed.

Definition pre_wf (p : pre_cfg) : Prop :=
  match p with PreNone => True | PreIndex _ len counter _ => 0 <= len /\ 0 <= counter end.

Lemma pre_eval_not_panic : forall p, pre_wf p -> pre_eval p <> Panicked.
Proof.
  intros [|ix len c r] H; cbn [pre_eval]; [discriminate|]. destruct H. apply extract_elem_not_panic; assumption.
Qed.

(* ---------- BaseGun.Shoot ---------- *)
Lemma side_branches_no_panic : forall o r, is_panic (side_branches o r) = false.
Proof.
  intros o r. unfold side_branches, deref_response.
  destruct (conn_ok (rs_conn r)); cbn [andb negb].
  - destruct (go_dump o), (go_debug o); cbn; destruct (go_answlog o) as [f|]; try reflexivity;
      destruct (answ_applies f (rs_status r)); reflexivity.
  - rewrite andb_false_r. reflexivity.
Qed.

Definition clean (r : response) : bool := conn_ok (rs_conn r) && rs_body_ok r.

Lemma base_shoot_total : forall c r,
  bc_bound c = true -> bc_connect c <> Some false -> (bc_http2 c = true -> rs_h2 r = true) ->
  exists sm, base_shoot c false r = Returned [sm] /\
    (clean r = true -> sm = {| sm_code := rs_status r; sm_err := false |}) /\
    (clean r = false -> sm_err sm = true) /\
    (conn_ok (rs_conn r) = true -> sm_code sm = rs_status r).
Proof.
  intros c r Hb Hc Hh. unfold base_shoot, clean. rewrite Hb. cbn [negb].
  assert (H2 : bc_http2 c && negb (rs_h2 r) = false).
  { destruct (bc_http2 c); [rewrite Hh by reflexivity|]; reflexivity. }
  destruct (bc_connect c) as [[|]|]; try congruence; cbn [negb]; rewrite H2, side_branches_no_panic; cbn [andb];
    destruct (conn_ok (rs_conn r)); cbn [negb andb];
    (eexists; split; [reflexivity|]); cbn [sm_err sm_code];
    (repeat split; intro H; try discriminate; try reflexivity;
     destruct (rs_body_ok r); try discriminate; reflexivity).
Qed.

Lemma base_shoot_invalid : forall c r, bc_bound c = true -> bc_connect c <> Some false ->
  base_shoot c true r = Returned [{| sm_code := 0; sm_err := false |}].
Proof.
  intros c r Hb Hc. unfold base_shoot. rewrite Hb. cbn [negb].
  destruct (bc_connect c) as [[|]|]; try congruence; reflexivity.
Qed.

(* the only panic leaves: gun not bound, or the documented-fatal HTTP/2 condition (target reached, no HTTP/2) *)
Lemma base_shoot_panic_only : forall c inv r l, base_shoot c inv r = ShotPanic l ->
  bc_bound c = false \/ (bc_http2 c = true /\ rs_h2 r = false /\ conn_ok (rs_conn r) = true).
Proof.
  intros c inv r l. unfold base_shoot. destruct (bc_bound c); [|left; reflexivity]. cbn [negb].
  destruct (bc_connect c) as [[|]|]; try discriminate;
    (destruct inv; [discriminate|]);
    rewrite side_branches_no_panic;
    (destruct (bc_http2 c) eqn:E2; destruct (rs_h2 r) eqn:E3; destruct (conn_ok (rs_conn r)) eqn:E4; cbn [andb negb];
     try discriminate; intros _; right; repeat split; reflexivity).
Qed.

(* ---------- ScenarioGun ---------- *)
Definition pps_safe (s : step_in) : Prop := si_pre s <> Panicked /\ Forall (fun o => o <> Panicked) (si_pps s).

Lemma run_pps_safe : forall pps, Forall (fun o : outcome unit => o <> Panicked) pps -> run_pps pps <> Panicked.
Proof.
  induction pps as [|o r IH]; intro H; cbn [run_pps]; [discriminate|].
  inversion H; subst. destruct o as [u| |]; [apply IH; assumption|discriminate|congruence].
Qed.

Lemma shoot_step_safe : forall s, pps_safe s -> shoot_step s <> StepPanic.
Proof.
  intros s [Hp H]. unfold shoot_step. rewrite side_branches_no_panic.
  destruct (si_pre s) as [u| |]; [| |congruence]; cbn [is_panic negb]; [|discriminate].
  repeat match goal with |- context [if ?c then _ else _] => destruct c end; try discriminate.
  pose proof (run_pps_safe _ H) as Hr. destruct (run_pps (si_pps s)); [discriminate|discriminate|congruence].
Qed.

Definition sample_ok_or_failure (sm : sample) : Prop := sm_err sm = false \/ sm = {| sm_code := 0; sm_err := true |}.

Lemma scenario_steps_total : forall steps acc, Forall pps_safe steps ->
  exists l, scenario_steps steps acc = Returned (acc ++ l) /\ length l = executed steps /\ Forall sample_ok_or_failure l.
Proof.
  induction steps as [|s r IH]; intros acc H; cbn [scenario_steps executed].
  - exists []. rewrite app_nil_r. repeat split. constructor.
  - inversion H as [|? ? Hs Hr]; subst.
    pose proof (shoot_step_safe s Hs) as Hn.
    destruct (shoot_step s) as [sm| |] eqn:E; [| |congruence].
    + destruct (IH (acc ++ [sm]) Hr) as (l & H1 & H2 & H3). exists (sm :: l).
      rewrite H1, <- app_assoc. repeat split; [cbn; lia|].
      constructor; [|exact H3]. left.
      unfold shoot_step in E. rewrite side_branches_no_panic in E.
      destruct (si_pre s) as [u| |]; cbn [is_panic negb] in E; try discriminate.
      repeat match type of E with context [if ?c then _ else _] => destruct c end; try discriminate.
      destruct (run_pps (si_pps s)); try discriminate. injection E as <-. reflexivity.
    + exists [{| sm_code := 0; sm_err := true |}]. repeat split. constructor; [right; reflexivity|constructor].
Qed.

Lemma scenario_shoot_total : forall steps, Forall pps_safe steps ->
  exists l, scenario_shoot true steps = Returned l /\ length l = executed steps /\ Forall sample_ok_or_failure l.
Proof. intros steps H. unfold scenario_shoot. cbn [negb]. apply (scenario_steps_total steps [] H). Qed.

(* steps whose postprocessors are the modelled ones *)
Definition mk_step (o : gun_opts) (pre : pre_cfg) (tmpl prep : bool) (r : response) (pps : list pp_cfg) : step_in :=
  {| si_opts := o; si_pre := pre_eval pre; si_tmpl_ok := tmpl; si_prep_ok := prep; si_resp := r; si_pps := map pp_eval pps |}.

Lemma mk_step_safe : forall o pre tmpl prep r pps, pre_wf pre -> pps_safe (mk_step o pre tmpl prep r pps).
Proof.
  intros o pre tmpl prep r pps Hw. unfold pps_safe, mk_step. cbn [si_pps si_pre].
  split; [apply pre_eval_not_panic, Hw|]. apply Forall_forall. intros out Hin.
  apply in_map_iff in Hin. destruct Hin as (p & <- & _). apply pp_eval_not_panic.
Qed.

(* ---------- instance.Run ---------- *)
Lemma instance_run_ok : forall shots, Forall (fun s => exists l, s = Returned l) shots ->
  snd (instance_run shots) = false /\
  fst (instance_run shots) = flat_map (fun s => match s with Returned l => l | ShotPanic l => l end) shots.
Proof.
  induction shots as [|s r IH]; intro H; cbn [instance_run flat_map]; [split; reflexivity|].
  inversion H as [|? ? [l ->] Hr]; subst. destruct (IH Hr) as [A B].
  destruct (instance_run r) as [rest failed]. cbn in *. subst. split; reflexivity.
Qed.

Lemma instance_http_survives : forall c rs,
  bc_bound c = true -> bc_connect c <> Some false -> bc_http2 c = false ->
  snd (instance_run (map (base_shoot c false) rs)) = false /\
  length (fst (instance_run (map (base_shoot c false) rs))) = length rs.
Proof.
  intros c rs Hb Hc H2.
  assert (HF : Forall (fun s => exists l, s = Returned l) (map (base_shoot c false) rs)).
  { apply Forall_forall. intros s Hin. apply in_map_iff in Hin. destruct Hin as (r & <- & _).
    destruct (base_shoot_total c r Hb Hc) as (sm & -> & _); [rewrite H2; discriminate|]. eexists; reflexivity. }
  destruct (instance_run_ok _ HF) as [A B]. split; [exact A|]. rewrite B.
  clear A B HF. induction rs as [|r rs IH]; [reflexivity|]. cbn [map flat_map].
  destruct (base_shoot_total c r Hb Hc) as (sm & -> & _); [rewrite H2; discriminate|].
  cbn. rewrite IH. reflexivity.
Qed.

Lemma instance_scenario_survives : forall scenarios,
  Forall (Forall pps_safe) scenarios ->
  snd (instance_run (map (scenario_shoot true) scenarios)) = false /\
  length (fst (instance_run (map (scenario_shoot true) scenarios))) = fold_right (fun st n => (executed st + n)%nat) O scenarios.
Proof.
  intros scs H.
  assert (HF : Forall (fun s => exists l, s = Returned l) (map (scenario_shoot true) scs)).
  { apply Forall_forall. intros s Hin. apply in_map_iff in Hin. destruct Hin as (st & <- & Hin).
    rewrite Forall_forall in H. destruct (scenario_shoot_total st (H st Hin)) as (l & -> & _). eexists; reflexivity. }
  destruct (instance_run_ok _ HF) as [A B]. split; [exact A|]. rewrite B. clear A B HF.
  induction scs as [|st r IH]; [reflexivity|]. inversion H as [|? ? Hs Hr]; subst.
  cbn [map flat_map fold_right]. destruct (scenario_shoot_total st Hs) as (l & -> & Hl & _).
  rewrite app_length, IH by assumption. lia.
Qed.

Lemma substr_is_slice : forall st s, exists r pre post,
  substr_call st s = (Done r, st) /\ s = pre ++ r ++ post.
Proof.
  intros st s. destruct (substr_call_done st s) as [r H]. exists r.
  pose proof H as H'. unfold substr_call in H'.
  match type of H' with (let '(lo, hi) := ?c in _) = _ => destruct c as [lo hi] end.
  assert (Hg : go_slice s lo hi = Done r) by congruence.
  destruct (go_slice_piece _ _ _ _ Hg) as (pre & post & E & _). exists pre, post. split; assumption.
Qed.

Lemma scenario_total_modelled : forall o (specs : list (pre_cfg * bool * bool * response * list pp_cfg)),
  Forall (fun '(pre, _, _, _, _) => pre_wf pre) specs ->
  let steps := map (fun '(pre, tmpl, prep, r, pps) => mk_step o pre tmpl prep r pps) specs in
  exists l, scenario_shoot true steps = Returned l /\ length l = executed steps /\ Forall sample_ok_or_failure l.
Proof.
  intros o specs Hw steps. apply scenario_shoot_total. apply Forall_forall. intros s Hin.
  apply in_map_iff in Hin. destruct Hin as ([[[[pre tmpl] prep] r] pps] & <- & Hin). apply mk_step_safe.
  rewrite Forall_forall in Hw. apply (Hw _ Hin).
Qed.

(* ---------- grpc gun ---------- *)
Lemma instance_grpc_survives : forall rs,
  snd (instance_run (map grpc_shoot rs)) = false /\ length (fst (instance_run (map grpc_shoot rs))) = length rs.
Proof.
  induction rs as [|r rs [A B]]; [split; reflexivity|].
  cbn [map instance_run grpc_shoot]. destruct (instance_run (map grpc_shoot rs)) as [rest failed].
  cbn in *. subst. split; [reflexivity|]. rewrite B. reflexivity.
Qed.

Lemma grpc_bind_ignores_target : forall w a b, grpc_bind w a = grpc_bind w b.
Proof. reflexivity. Qed.
