(* C02, nested composites under concurrency: every interleaving of the steps of Model/SchedNested.v
   (composites inside composites, to any depth, a child operation under a read lock being an
   interleaved sequence of the child's own sections) is linearizable to the abstract token stream
   of the flattened tree.  Forward simulation with a ghost history, as in SchedConcProofs.v; the
   per-step work is nsec_S / nsec_F of SchedNestedSteps.v. *)
From Coq Require Import List ZArith Bool Arith Lia.
From PV Require Import Model.SchedTree Model.SchedConc Model.SchedNested
  Proofs.SchedTreeProofs Proofs.SchedTreeSeq Proofs.SchedTreeRun Proofs.SchedTreeSpec
  Proofs.SchedConcSections Proofs.SchedConcProofs Proofs.SchedNestedSections Proofs.SchedNestedSteps.
Import ListNotations.
Local Open Scope Z_scope.

(* ---------- the ghost ---------- *)
(* the abstract operation is taken in the step in which the operation returns (the leaf
   operation that decided its result happens in that very step); the abstract Start is taken in
   the step that starts the tree without returning *)
Definition nghost (i : nat) (now : Z) (a : astate) (c' : sched) (out : nout) : astate * list event :=
  match out with
  | NRetN _ _ => (fst (abs_ev a (now, ONext)), [(i, (now, ONext), snd (abs_ev a (now, ONext)))])
  | NRetL _ => (fst (abs_ev a (now, OLeft)), [(i, (now, OLeft), snd (abs_ev a (now, OLeft)))])
  | NGoto _ =>
      if a_started a then (a, [])
      else if sflag c' then (a_start now a, [(i, (now, OStart now), RStart)])
      else (a, [])
  end.

Record nistate : Type := { ni_g : ngstate; ni_a : astate; ni_log : list event }.

Inductive nistep (fuel : nat) : nistate -> nistate -> Prop :=
| nistep_intro st i th now c' out :
    nth_error (ng_threads (ni_g st)) i = Some th -> ng_lo (ni_g st) <= now ->
    nthread_section fuel now (ng_c (ni_g st)) (others_depth i (ng_threads (ni_g st))) th = Some (Ok (c', out)) ->
    nistep fuel st
      {| ni_g := {| ng_c := c'; ng_lo := now; ng_threads := upd i (nthread_after th out) (ng_threads (ni_g st)) |};
         ni_a := fst (nghost i now (ni_a st) c' out);
         ni_log := ni_log st ++ snd (nghost i now (ni_a st) c' out) |}.

(* the ghost constrains nothing *)
Lemma ngstep_lift fuel st g' : ngstep fuel (ni_g st) g' -> exists st', nistep fuel st st' /\ ni_g st' = g'.
Proof.
  intros H. inversion H; subst. eexists. split; [eapply nistep_intro; eauto|]. reflexivity.
Qed.

Inductive nireach (fuel : nat) : nistate -> nistate -> Prop :=
| nireach_refl st : nireach fuel st st
| nireach_step st st' st'' : nireach fuel st st' -> nistep fuel st' st'' -> nireach fuel st st''.

(* executable instrumented scheduler (for examples) *)
Definition nistep_fn (fuel : nat) (st : nistate) (i : nat) (now : Z) : option nistate :=
  match nth_error (ng_threads (ni_g st)) i with
  | None => None
  | Some th =>
      if ng_lo (ni_g st) <=? now then
        match nthread_section fuel now (ng_c (ni_g st)) (others_depth i (ng_threads (ni_g st))) th with
        | Some (Ok (c', out)) =>
            Some {| ni_g := {| ng_c := c'; ng_lo := now; ng_threads := upd i (nthread_after th out) (ng_threads (ni_g st)) |};
                    ni_a := fst (nghost i now (ni_a st) c' out);
                    ni_log := ni_log st ++ snd (nghost i now (ni_a st) c' out) |}
        | _ => None
        end
      else None
  end.

Fixpoint nirun (fuel : nat) (st : nistate) (sch : list (nat * Z)) : option nistate :=
  match sch with
  | [] => Some st
  | (i, now) :: r => match nistep_fn fuel st i now with Some st' => nirun fuel st' r | None => None end
  end.

Lemma nistep_fn_step fuel st i now st' : nistep_fn fuel st i now = Some st' -> nistep fuel st st'.
Proof.
  unfold nistep_fn. destruct (nth_error _ i) as [th|] eqn:Hth; [|discriminate].
  destruct (Z.leb_spec (ng_lo (ni_g st)) now) as [L|]; [|discriminate].
  destruct (nthread_section _ _ _ _ th) as [[[c' out]| |]|] eqn:Hs; try discriminate.
  intros H; inversion H; subst. eapply nistep_intro; eauto.
Qed.

Lemma nireach_trans fuel a b c : nireach fuel a b -> nireach fuel b c -> nireach fuel a c.
Proof. intros R1 R2. induction R2 as [|b c d R2 IH S2]; [exact R1|]. eapply nireach_step; [apply IH; exact R1|exact S2]. Qed.

Lemma nirun_reach fuel : forall sch st st', nirun fuel st sch = Some st' -> nireach fuel st st'.
Proof.
  induction sch as [|[i now] r IH]; intros st st' H; cbn [nirun] in H.
  - inversion H; subst. constructor.
  - destruct (nistep_fn fuel st i now) as [st1|] eqn:E; [|discriminate].
    eapply nireach_trans; [|apply IH; exact H].
    eapply nireach_step; [constructor|]. eapply nistep_fn_step. exact E.
Qed.

(* ---------- the read locks held by the other threads ---------- *)
Lemma all_depth_ge ths : forall j th, nth_error ths j = Some th -> (depth_in (n_pc th) <= all_depth ths)%nat.
Proof.
  induction ths as [|x r IH]; intros j th H; [destruct j; discriminate|].
  cbn [all_depth fold_right]. fold (all_depth r). destruct j as [|j]; cbn in H.
  - inversion H; subst. lia.
  - specialize (IH j th H). lia.
Qed.

Lemma others_depth_ge : forall ths i j th, nth_error ths j = Some th -> j <> i ->
  (depth_in (n_pc th) <= others_depth i ths)%nat.
Proof.
  induction ths as [|x r IH]; intros i j th H Ne; [destruct j; discriminate|].
  destruct i as [|i]; cbn [others_depth].
  - destruct j as [|j]; [congruence|]. cbn in H. eapply all_depth_ge; eauto.
  - destruct j as [|j]; cbn in H.
    + inversion H; subst. lia.
    + assert (Nj : j <> i) by congruence. specialize (IH i j th H Nj). lia.
Qed.

Lemma Forall_upd_stab {A} (P Q : A -> Prop) : forall l i x,
  Forall P l -> (forall j y, nth_error l j = Some y -> j <> i -> P y -> Q y) -> Q x -> Forall Q (upd i x l).
Proof.
  induction l as [|y r IH]; intros i x F H Qx; [destruct i; constructor|].
  inversion F as [|? ? Py Fr]; subst. destruct i as [|i]; cbn [upd]; constructor.
  - exact Qx.
  - assert (G : forall j z, nth_error r j = Some z -> P z -> Q z)
      by (intros j z Hj; apply (H (S j) z); [exact Hj|discriminate]).
    clear H IH F. induction Fr as [|z r' Pz Fr' IHr]; constructor.
    + apply (G 0%nat z); [reflexivity|exact Pz].
    + apply IHr. intros j z0 Hj. apply (G (S j) z0 Hj).
  - apply (H 0%nat y); [reflexivity|discriminate|exact Py].
  - apply IH; [exact Fr| |exact Qx]. intros j y0 Hj Nj. apply (H (S j) y0 Hj). congruence.
Qed.

(* ---------- the invariant ---------- *)
Section NInvariant.
  Variable fuel : nat.
  Variable a0 : astate.
  Variable lo0 : Z.
  Variable todo0 : nat -> list op.

  Record NInv (st : nistate) : Prop := {
    ninv_comp : comp_len (ng_c (ni_g st)) <> 0%nat;
    ninv_size : (size (ng_c (ni_g st)) <= S fuel)%nat;
    ninv_rel :
      (a_started (ni_a st) = false /\ fresh (ng_c (ni_g st)) /\ a_flat (ni_a st) = flatten (ng_c (ni_g st))) \/
      (a_started (ni_a st) = true /\ relS (ng_lo (ni_g st)) (ng_c (ni_g st)) (a_items (ni_a st)) /\
       a_fin (ni_a st) = afin 0 (ng_c (ni_g st)));
    (* every thread's pc is valid, level by level *)
    ninv_J : Forall (fun th => Jq (ng_lo (ni_g st)) (ng_c (ni_g st)) (n_pc th)) (ng_threads (ni_g st));
    (* the ghost history is a legal sequential history of the abstract machine ... *)
    ninv_legal : forall rest,
      run_abs a0 (map evt (ni_log st) ++ rest) = map eres (ni_log st) ++ run_abs (ni_a st) rest;
    ninv_clock : clock_upto lo0 (map evt (ni_log st)) (ng_lo (ni_g st));
    ninv_nopanic : Forall nopanic (map eres (ni_log st));
    (* ... and every thread has seen exactly the results of its own operations in it *)
    ninv_hist : forall i th, nth_error (ng_threads (ni_g st)) i = Some th ->
      n_hist th = proj i (ni_log st) /\ proj_ops i (ni_log st) ++ n_todo th = todo0 i
  }.

  Lemma ninv_build st i th now c' out a' evs :
    NInv st -> nth_error (ng_threads (ni_g st)) i = Some th -> ng_lo (ni_g st) <= now ->
    comp_len c' <> 0%nat -> (size c' <= S fuel)%nat ->
    let ths' := upd i (nthread_after th out) (ng_threads (ni_g st)) in
    ((a_started a' = false /\ fresh c' /\ a_flat a' = flatten c') \/
     (a_started a' = true /\ relS now c' (a_items a') /\ a_fin a' = afin 0 c')) ->
    Forall (fun th => Jq now c' (n_pc th)) ths' ->
    (forall rest, run_abs (ni_a st) (map evt evs ++ rest) = map eres evs ++ run_abs a' rest) ->
    Forall (fun e => fst (fst e) = i /\ fst (evt e) = now) evs -> (length evs <= 1)%nat ->
    Forall nopanic (map eres evs) ->
    n_hist (nthread_after th out) = n_hist th ++ proj i evs ->
    proj_ops i evs ++ n_todo (nthread_after th out) = n_todo th ->
    NInv {| ni_g := {| ng_c := c'; ng_lo := now; ng_threads := ths' |}; ni_a := a'; ni_log := ni_log st ++ evs |}.
  Proof.
    intros I Hth L NZ Sz ths' R FJ Leg Fev Len Np Hh Ht.
    constructor; cbn [ni_g ni_a ni_log ng_c ng_lo ng_threads].
    - exact NZ.
    - exact Sz.
    - exact R.
    - exact FJ.
    - intros rest. rewrite map_app, <- app_assoc, (ninv_legal st I), Leg, map_app, app_assoc. reflexivity.
    - rewrite map_app. pose proof (ninv_clock st I) as C.
      destruct evs as [|e [|e2 r]]; cbn [length] in Len; try lia.
      + cbn [map]. rewrite app_nil_r. eapply clock_upto_later; eauto.
      + inversion Fev as [|e0 r0 [_ En] _]. destruct e as [[j [n o]] r1]. cbn [evt fst snd] in En.
        cbn [map evt fst snd]. rewrite En. eapply clock_upto_snoc; eauto.
    - rewrite map_app. apply Forall_app. split; [exact (ninv_nopanic st I)|exact Np].
    - intros j thj Hj. unfold ths' in Hj. rewrite nth_error_upd in Hj.
      unfold proj, proj_ops. rewrite !filter_app, !map_app.
      destruct (Nat.eqb_spec j i) as [->|Ne].
      + rewrite Hth in Hj. inversion Hj; subst thj.
        destruct (ninv_hist st I i th Hth) as [H1 H2].
        fold (proj i (ni_log st)) (proj i evs) (proj_ops i (ni_log st)) (proj_ops i evs).
        split; [rewrite Hh, H1; reflexivity|]. rewrite <- app_assoc, Ht. exact H2.
      + destruct (ninv_hist st I j thj Hj) as [H1 H2].
        assert (E : filter (mine j) evs = []).
        { clear -Fev Ne. induction Fev as [|e r [He _] _ IH]; [reflexivity|]. cbn [filter]. unfold mine at 1.
          rewrite He. destruct (Nat.eqb_spec i j); [congruence|]. cbn [andb]. exact IH. }
        rewrite E. cbn [map]. rewrite !app_nil_r. split; assumption.
  Qed.

  (* the pcs after a step: the stepping thread has its new pc, the others are stable *)
  Lemma J_after st i th now c' out :
    NInv st -> nth_error (ng_threads (ni_g st)) i = Some th ->
    (forall q2, (depth_in q2 <= others_depth i (ng_threads (ni_g st)))%nat ->
                Jq (ng_lo (ni_g st)) (ng_c (ni_g st)) q2 -> Jq now c' q2) ->
    Jq now c' (n_pc (nthread_after th out)) ->
    Forall (fun th => Jq now c' (n_pc th)) (upd i (nthread_after th out) (ng_threads (ni_g st))).
  Proof.
    intros I Hth Stab Jnew. eapply (Forall_upd_stab _ _ _ _ _ (ninv_J st I)); [|exact Jnew].
    intros j y Hj Ne Jy. cbn beta in *. apply Stab; [eapply others_depth_ge; eauto|exact Jy].
  Qed.

  Lemma ev_single' i now (e : event) : fst (fst e) = i -> fst (evt e) = now ->
    Forall (fun e => fst (fst e) = i /\ fst (evt e) = now) [e].
  Proof. intros; constructor; auto. Qed.

  (* --- every step preserves the invariant --- *)
  Lemma ninv_step st st' : NInv st -> nistep fuel st st' -> NInv st'.
  Proof.
    intros I H. destruct H as [st i th now c' out Hth L Hsec].
    unfold nthread_section in Hsec. destruct (n_todo th) as [|o todo] eqn:Et; [discriminate|].
    pose proof (ninv_comp _ I) as NZ. pose proof (ninv_size _ I) as SZ.
    pose proof (Forall_nth _ _ _ _ (ninv_J _ I) Hth) as J. cbn beta in J.
    assert (Hsec' : nsec fuel now o (others_depth i (ng_threads (ni_g st))) (n_pc th) (ng_c (ni_g st)) = Some (Ok (c', out)))
      by (destruct o; [discriminate|exact Hsec|exact Hsec]).
    clear Hsec.
    destruct (ninv_rel _ I) as [(U & F & Fl)|(As & RS & Fa)].
    - (* the tree has not been started *)
      destruct (nsec_F fuel _ _ (ng_lo (ni_g st)) now o _ _ F NZ SZ J Hsec')
        as (c1 & out1 & Eq & W' & NZ' & Sz1 & Stab & M).
      inversion Eq; subst c1 out1; clear Eq.
      assert (Sz : (size c' <= S fuel)%nat) by lia.
      destruct (a_start_fields now (ni_a st) _ Fl) as (S1 & S2 & S3 & S4).
      destruct out as [q'|t ok|v].
      + destruct M as [Jq' [->|(_ & S' & Ff & D)]].
        * (* nothing happened to the tree (a read lock was taken) *)
          cbn [nghost]. rewrite U, (fresh_sflag _ F). cbn [fst snd].
          refine (ninv_build st i th now _ _ _ _ I Hth L NZ SZ _ _ _ _ _ _ _ _).
          -- left. auto.
          -- apply J_after; auto.
          -- intros rest. reflexivity.
          -- constructor.
          -- cbn; lia.
          -- constructor.
          -- cbn [nthread_after n_hist proj filter map]. rewrite app_nil_r. reflexivity.
          -- reflexivity.
        * (* the tree has been started by this step, which does not return *)
          cbn [nghost]. rewrite U, (started_sflag _ S'). cbn [fst snd].
          destruct (proj_single_start i now now RStart) as [P1 P2].
          refine (ninv_build st i th now c' _ _ _ I Hth L NZ' Sz _ _ _ _ _ _ _ _).
          -- right. split; [exact S1|]. split; [rewrite S2; repeat split; auto|]. rewrite S3. symmetry. exact Ff.
          -- apply J_after; auto.
          -- intros rest. apply (legal_single (ni_a st) (now, OStart now) RStart); [intros; exact U|reflexivity].
          -- apply ev_single'; reflexivity.
          -- cbn; lia.
          -- repeat constructor.
          -- rewrite P1. cbn [nthread_after n_hist]. rewrite app_nil_r. reflexivity.
          -- rewrite P2. reflexivity.
      + destruct M as (-> & S' & Ff & its' & AN & D).
        pose proof (after_next_unstarted (ni_a st) now _ its' t ok U Fl AN) as EA.
        cbn [nghost abs_ev]. rewrite EA. cbn [fst snd].
        destruct (proj_single i now ONext (RNext t ok) eq_refl) as [P1 P2].
        refine (ninv_build st i th now c' _ _ _ I Hth L NZ' Sz _ _ _ _ _ _ _ _).
        * right. cbn [a_started a_items a_fin]. split; [reflexivity|]. split; [repeat split; auto|]. symmetry. exact Ff.
        * apply J_after; auto. exact Logic.I.
        * intros rest. apply (legal_single (ni_a st) (now, ONext) (RNext t ok)); [discriminate|].
          cbn [abs_ev]. rewrite EA. reflexivity.
        * apply ev_single'; reflexivity.
        * cbn; lia.
        * repeat constructor.
        * rewrite P1. reflexivity.
        * rewrite P2. cbn [nthread_after n_todo]. rewrite Et. reflexivity.
      + destruct M as (-> & -> & ->).
        cbn [nghost abs_ev fst snd]. rewrite U, Fl, (static_left_fresh _ F).
        destruct (proj_single i now OLeft (RLeft (statl (flatten (ng_c (ni_g st))))) eq_refl) as [P1 P2].
        refine (ninv_build st i th now _ _ _ _ I Hth L NZ SZ _ _ _ _ _ _ _ _).
        * left. auto.
        * apply J_after; auto. exact Logic.I.
        * intros rest. apply (legal_single (ni_a st) (now, OLeft)); [discriminate|].
          cbn [abs_ev]. rewrite U, Fl, (static_left_fresh _ F). reflexivity.
        * apply ev_single'; reflexivity.
        * cbn; lia.
        * repeat constructor.
        * rewrite P1. reflexivity.
        * rewrite P2. cbn [nthread_after n_todo]. rewrite Et. reflexivity.
    - (* the tree is started *)
      pose proof RS as (W & St & DC).
      destruct (nsec_S fuel _ _ (ng_lo (ni_g st)) now o _ _ W St NZ SZ L J Hsec')
        as (c1 & out1 & Eq & W' & S' & NZ' & Sz1 & [Fc SE] & Stab & M).
      inversion Eq; subst c1 out1; clear Eq.
      assert (Sz : (size c' <= S fuel)%nat) by lia.
      assert (DCn : drop_closed now (a_items (ni_a st)) = drop_closed now (absp 0 (ng_c (ni_g st))))
        by (eapply dc_lift; eauto).
      destruct out as [q'|t ok|v].
      + destruct M as [D Jq'].
        cbn [nghost]. rewrite As. cbn [fst snd].
        refine (ninv_build st i th now c' _ _ _ I Hth L NZ' Sz _ _ _ _ _ _ _ _).
        * right. split; [exact As|]. split; [repeat split; auto; rewrite D; exact DCn|]. rewrite Fa. symmetry. exact Fc.
        * apply J_after; auto.
        * intros rest. reflexivity.
        * constructor.
        * cbn; lia.
        * constructor.
        * cbn [nthread_after n_hist proj filter map]. rewrite app_nil_r. reflexivity.
        * reflexivity.
      + destruct M as (-> & its' & AN & D).
        rewrite <- (relS_next _ now _ _ RS L), <- Fa in AN.
        pose proof (after_next_started (ni_a st) now its' t ok As AN) as EA.
        cbn [nghost abs_ev]. rewrite EA. cbn [fst snd].
        destruct (proj_single i now ONext (RNext t ok) eq_refl) as [P1 P2].
        refine (ninv_build st i th now c' _ _ _ I Hth L NZ' Sz _ _ _ _ _ _ _ _).
        * right. cbn [a_started a_items a_fin]. split; [reflexivity|]. split; [repeat split; auto|].
          rewrite Fa. symmetry. exact Fc.
        * apply J_after; auto. exact Logic.I.
        * intros rest. apply (legal_single (ni_a st) (now, ONext) (RNext t ok)); [discriminate|].
          cbn [abs_ev]. rewrite EA. reflexivity.
        * apply ev_single'; reflexivity.
        * cbn; lia.
        * repeat constructor.
        * rewrite P1. reflexivity.
        * rewrite P2. cbn [nthread_after n_todo]. rewrite Et. reflexivity.
      + destruct M as (-> & Ev & D).
        assert (Ev' : v = abs_left now (a_items (ni_a st))).
        { rewrite Ev. apply abs_left_dc. symmetry. exact DCn. }
        cbn [nghost abs_ev fst snd]. rewrite As, <- Ev'.
        destruct (proj_single i now OLeft (RLeft v) eq_refl) as [P1 P2].
        refine (ninv_build st i th now c' _ _ _ I Hth L NZ' Sz _ _ _ _ _ _ _ _).
        * right. split; [exact As|]. split; [repeat split; auto; rewrite D; exact DCn|]. rewrite Fa. symmetry. exact Fc.
        * apply J_after; auto. exact Logic.I.
        * intros rest. apply (legal_single (ni_a st) (now, OLeft) (RLeft v)); [discriminate|].
          cbn [abs_ev]. rewrite As, <- Ev'. reflexivity.
        * apply ev_single'; reflexivity.
        * cbn; lia.
        * repeat constructor.
        * rewrite P1. reflexivity.
        * rewrite P2. cbn [nthread_after n_todo]. rewrite Et. reflexivity.
  Qed.

  (* --- no step of a thread that is not blocked panics or runs out of fuel --- *)
  Lemma ninv_safe st : NInv st -> ~ ngstuck fuel (ni_g st).
  Proof.
    intros I (i & th & now & Hth & L & Hs).
    unfold nthread_section in Hs. destruct (n_todo th) as [|o todo] eqn:Et; [exact Hs|].
    pose proof (ninv_comp _ I) as NZ. pose proof (ninv_size _ I) as SZ.
    pose proof (Forall_nth _ _ _ _ (ninv_J _ I) Hth) as J. cbn beta in J.
    destruct o as [t| |]; [exact Hs| |];
      (destruct (nsec fuel now _ (others_depth i (ng_threads (ni_g st))) (n_pc th) (ng_c (ni_g st))) as [r0|] eqn:E; [|exact Hs]);
      (destruct (ninv_rel _ I) as [(U & F & Fl)|(As & (W & St & DC) & Fa)];
       [destruct (nsec_F fuel _ _ (ng_lo (ni_g st)) now _ _ _ F NZ SZ J E) as (c1 & out1 & -> & _); exact Hs
       |destruct (nsec_S fuel _ _ (ng_lo (ni_g st)) now _ _ _ W St NZ SZ L J E) as (c1 & out1 & -> & _); exact Hs]).
  Qed.
End NInvariant.

Lemma ninv_reach fuel a0 lo0 todo0 st st' :
  NInv fuel a0 lo0 todo0 st -> nireach fuel st st' -> NInv fuel a0 lo0 todo0 st'.
Proof.
  intros I R. induction R as [st|st st' st'' R IH S]; [exact I|].
  eapply ninv_step; [apply IH; exact I|exact S].
Qed.

Definition ninit_threads (ths : list nthread) : Prop :=
  Forall (fun th => n_pc th = QIdle /\ n_hist th = []) ths.

Definition ntodo_of (ths : list nthread) (i : nat) : list op :=
  match nth_error ths i with Some th => n_todo th | None => [] end.

Lemma ninv_init fuel c0 lo0 ths :
  fresh c0 -> comp_len c0 <> 0%nat -> (size c0 <= S fuel)%nat -> ninit_threads ths ->
  NInv fuel (a_init (flatten c0)) lo0 (ntodo_of ths)
       {| ni_g := {| ng_c := c0; ng_lo := lo0; ng_threads := ths |}; ni_a := a_init (flatten c0); ni_log := [] |}.
Proof.
  intros F NZ Sz It. constructor; cbn [ni_g ni_a ni_log ng_c ng_lo ng_threads map app].
  - exact NZ.
  - exact Sz.
  - left. repeat split; auto.
  - revert It. apply Forall_impl'. intros th [-> _]. exact I.
  - intros rest. reflexivity.
  - cbn. lia.
  - constructor.
  - intros i th Hi. unfold ntodo_of. rewrite Hi. cbn. split; [|reflexivity].
    destruct (Forall_nth _ _ _ _ It Hi) as [_ H]. exact H.
Qed.

(* started explicitly by Start(t0) before the threads run *)
Lemma ninv_init_started fuel c0 c1 lo0 t0 ths :
  fresh c0 -> comp_len c0 <> 0%nat -> (size c0 <= S fuel)%nat -> ninit_threads ths ->
  s_start t0 c0 = Ok c1 ->
  NInv fuel (a_init (flatten c0)) lo0 (ntodo_of ths)
       {| ni_g := {| ng_c := c1; ng_lo := lo0; ng_threads := ths |};
          ni_a := a_start t0 (a_init (flatten c0));
          ni_log := [(0%nat, (lo0, OStart t0), RStart)] |}.
Proof.
  intros F NZ Sz It E.
  destruct (start_fresh c0 F t0) as (c1' & E' & S1 & W1 & I1). rewrite E in E'. inversion E'; subst c1'.
  destruct (a_start_fields t0 (a_init (flatten c0)) c0 eq_refl) as (A1 & A2 & A3 & A4).
  assert (P : absp 0 c1 = absp t0 c0 /\ afin 0 c1 = afin t0 c0).
  { unfold absp, afin. rewrite (I1 0). split; reflexivity. }
  destruct P as [PA PF].
  constructor; cbn [ni_g ni_a ni_log ng_c ng_lo ng_threads].
  - destruct c0 as [| |[|h r] la cs]; cbn in NZ; try congruence. cbn [s_start] in E.
    destruct (s_start t0 h); cbn [bind] in E; try discriminate. inversion E. cbn. discriminate.
  - rewrite (size_start _ _ _ E). exact Sz.
  - right. split; [exact A1|]. split.
    + rewrite A2. repeat split; auto. rewrite PA. reflexivity.
    + rewrite A3. symmetry. exact PF.
  - revert It. apply Forall_impl'. intros th [-> _]. exact I.
  - intros rest. apply (legal_single (a_init (flatten c0)) (lo0, OStart t0) RStart); [reflexivity|reflexivity].
  - cbn. lia.
  - repeat constructor.
  - intros i th Hi. unfold ntodo_of. rewrite Hi. unfold proj, proj_ops, mine. cbn [filter map fst snd evt is_start negb].
    rewrite andb_false_r. cbn. split; [|reflexivity].
    destruct (Forall_nth _ _ _ _ It Hi) as [_ H]. exact H.
Qed.
