(* Links L1 + L2 + L3 together: the composed engine of Proofs/LinkEngine.v over the schedule of a
   REAL profile (Model/Sched.v), and the C03 accounting restated with the number of tokens given
   by the C01 count formula of the configured profile. *)
From Coq Require Import ZArith QArith Qround Lia List Bool Arith.
From PV Require Import Model.Sched Model.SchedTree Proofs.SchedProofs Proofs.SchedStep
  Proofs.SchedTreeProofs Proofs.SchedTreeSeq Proofs.SchedTreeSpec Proofs.LinkSched.
From PV Require Import Model.Waiter Model.Instance Proofs.InstanceProofs Proofs.LinkEngine.
Import ListNotations.
Local Open Scope Z_scope.

(* the number of operations the documentation promises for a profile: the integral of the rate
   over the whole duration rounded down (const, line; per level for step), n for once *)
Definition profile_count (p : profile) : Z :=
  match p with
  | PConst _ _ | PLine _ _ _ => Qfloor (cum p (dur p))
  | PStep f t st D => fold_right Z.add 0 (map (fun r => Qfloor (cum_const r D)) (spec_levels f t st))
  | POnce n => n
  end.

Lemma drain_count p d : valid p -> drain p = Some d -> d_left d = profile_count p.
Proof.
  intros Hv Hd. destruct p as [ops D|f t D|f t st D|n]; cbn [profile_count].
  - rewrite (rate_drain (PConst ops D) Hv eq_refl) in Hd. inversion Hd; subst. cbn [d_left].
    apply count_spec; [exact Hv|reflexivity].
  - rewrite (rate_drain (PLine f t D) Hv eq_refl) in Hd. inversion Hd; subst. cbn [d_left].
    apply count_spec; [exact Hv|reflexivity].
  - destruct (step_drain f t st D Hv) as (d' & Hd' & _ & _ & Hl & Hval). rewrite Hd in Hd'. inversion Hd'; subst d'.
    rewrite Hl. f_equal. apply map_ext_in. intros r Hr. rewrite Forall_forall in Hval.
    apply (count_spec (PConst r D) (Hval r Hr) eq_refl).
  - rewrite (once_drain n Hv) in Hd. inversion Hd; subst. reflexivity.
Qed.

Lemma leaf_ok_is_leaf fl : Forall leaf_ok fl -> Forall is_leaf fl.
Proof. apply Forall_impl. intros x H. destruct x; cbn in *; auto. Qed.

(* the flattened schedule of a valid profile is a finite schedule with profile_count tokens *)
Lemma profile_sched_cfg_ok p c0 (c : Instance.cfg) : valid p -> profile_cfg p = Some c0 ->
  prof c = Z.to_nat (profile_count p) -> sched_cfg_ok c (flatten_cfg c0).
Proof.
  intros Hv Hc Hp.
  destruct (profile_stream p Hv) as (c' & d & xs & Ec & Ed & _ & El & Hok & _ & Hu & Hs).
  rewrite Hc in Ec. inversion Ec; subst c'.
  pose proof (leaf_ok_is_leaf _ Hok) as Hl.
  split; [exact Hl|]. split; [exact Hu|].
  rewrite Hp. f_equal. rewrite <- (drain_count p d Hv Ed), <- El.
  rewrite <- (items_length (flatten_cfg c0) Hl Hu 0). rewrite Hs. cbn [fst]. rewrite map_length. reflexivity.
Qed.

(* C03_conservation with the tokens of the configured profile (L2, corollary) *)
Theorem conservation_profile p (c : Instance.cfg) s : valid p -> prof c = Z.to_nat (profile_count p) ->
  reach c s -> terminal s -> (length (insts s) >= 1)%nat ->
  (fired (sh s) + discarded (sh s))%nat =
  Nat.min ((if per_inst c then length (insts s) else 1%nat) * Z.to_nat (profile_count p)) (ammo0 c).
Proof.
  intros Hv Hp Hr Ht Hn. rewrite (conservation c s Hr Ht Hn). unfold tokens. rewrite Hp.
  destruct (per_inst c); [reflexivity|]. rewrite Nat.mul_1_l. reflexivity.
Qed.

(* the composed engine over the schedule of a real profile *)
Theorem composed_profile p c0 (c : Instance.cfg) p0 l ts : valid p -> profile_cfg p = Some c0 ->
  prof c = Z.to_nat (profile_count p) ->
  crun c (flatten_cfg c0) l (cinit c (flatten_cfg c0) p0) = Some ts ->
  reach c (t_s ts) /\ Cpl c ts /\ Forall (shot_fact c) (t_shots ts) /\
  disc_recs (t_shots ts) = disc_evs (log (sh (t_s ts))) /\
  (terminal (t_s ts) -> (length (insts (t_s ts)) >= 1)%nat ->
     (fired (sh (t_s ts)) + discarded (sh (t_s ts)))%nat =
       Nat.min ((if per_inst c then length (insts (t_s ts)) else 1%nat) * Z.to_nat (profile_count p)) (ammo0 c) /\
     fired (sh (t_s ts)) = length (filter (fun r => negb (is_disc r)) (t_shots ts)) /\
     discarded (sh (t_s ts)) = length (filter is_disc (t_shots ts))).
Proof.
  intros Hv Hc Hp H. pose proof (profile_sched_cfg_ok p c0 c Hv Hc Hp) as Hok.
  destruct (composed_run c _ p0 l ts Hok H) as (HR & HC & F & P & _).
  split; [exact HR|]. split; [exact HC|]. split; [exact F|]. split; [exact P|].
  intros Ht Hn. destruct (composed_conservation c _ p0 l ts Hok H Ht Hn) as (A & B & C).
  destruct Hok as (_ & _ & Hprof). rewrite <- Hprof, Hp in A. split; [exact A|]. split; assumption.
Qed.

Theorem profile_count_spec p d : valid p -> drain p = Some d ->
  d_left d = profile_count p /\
  (is_rate p = true -> profile_count p = Qfloor (cum p (dur p)) /\ profile_count p = count p).
Proof.
  intros Hv Hd. split; [exact (drain_count p d Hv Hd)|].
  intros Hr. split; [destruct p; try discriminate; reflexivity|].
  destruct p; try discriminate; symmetry; apply count_spec; auto.
Qed.
