(* Lemmas about literal block scalars and heredocs (Model/BlockScalar.v), property C16. *)
From Coq Require Import List NArith Bool Lia PeanoNat.
From PV Require Import Model.ConfigDecode Model.BlockScalar.
Import ListNotations.
Local Open Scope N_scope.

Definition no_trailing (r : str) : Prop := forall r', r <> r' ++ [nl].

Lemma chop_app : forall t, t = fst (chop t) ++ breaks (snd (chop t)).
Proof.
  induction t as [|c t IH]; [reflexivity|].
  cbn [chop]. destruct (chop t) as [r n]. cbn [fst snd] in IH.
  destruct r as [|a r].
  - destruct (N.eqb c nl) eqn:E; cbn [fst snd].
    + apply N.eqb_eq in E. subst c. cbn. f_equal. exact IH.
    + cbn. f_equal. exact IH.
  - cbn [fst snd]. rewrite IH at 1. reflexivity.
Qed.

Lemma chop_no_trailing : forall t, no_trailing (fst (chop t)).
Proof.
  induction t as [|c t IH]; intros r' H.
  - cbn in H. destruct r'; discriminate.
  - cbn [chop] in H. destruct (chop t) as [r n]. cbn [fst] in IH.
    destruct r as [|a r].
    + destruct (N.eqb c nl) eqn:E; cbn [fst] in H.
      * destruct r'; discriminate.
      * destruct r' as [|b r']; cbn in H.
        -- inversion H. subst c. rewrite N.eqb_refl in E. discriminate.
        -- inversion H. destruct r'; discriminate.
    + cbn [fst] in H. destruct r' as [|b r']; cbn in H.
      * inversion H.
      * inversion H. apply (IH r'). assumption.
Qed.

Lemma chop_breaks_only : forall n, chop (breaks n) = ([], n).
Proof.
  induction n as [|n IH]; [reflexivity|].
  cbn [breaks repeat chop]. fold (breaks n). rewrite IH. cbn. reflexivity.
Qed.

Lemma no_trailing_tail : forall c r, no_trailing (c :: r) -> no_trailing r.
Proof. intros c r H r' E. apply (H (c :: r')). rewrite E. reflexivity. Qed.

Lemma chop_unique : forall r n, no_trailing r -> chop (r ++ breaks n) = (r, n).
Proof.
  induction r as [|c r IH]; intros n H.
  - apply chop_breaks_only.
  - cbn [app chop]. rewrite (IH n (no_trailing_tail _ _ H)).
    destruct r as [|a r]; [|reflexivity].
    destruct (N.eqb c nl) eqn:E; [|reflexivity].
    apply N.eqb_eq in E. subst c. exfalso. apply (H []). reflexivity.
Qed.

Lemma breaks_add : forall a b, breaks a ++ breaks b = breaks (a + b).
Proof. intros. unfold breaks. symmetry. apply repeat_app. Qed.

(* blank lines after the text only add to the count *)
Lemma chop_more_breaks : forall t j, chop (t ++ breaks j) = (fst (chop t), (snd (chop t) + j)%nat).
Proof.
  intros t j. rewrite (chop_app t) at 1. rewrite <- app_assoc, breaks_add.
  apply chop_unique. apply chop_no_trailing.
Qed.

(* `|+` keeps everything: the scalar is its text *)
Lemma keep_is_literal : forall t, read_block Keep t = t.
Proof. intro t. unfold read_block. pose proof (chop_app t) as H. destruct (chop t). symmetry. exact H. Qed.

(* every string has a header under which it is written as itself *)
Lemma block_of_string : forall x, read_block (chomp_for x) x = x.
Proof.
  intro x. unfold read_block, chomp_for. pose proof (chop_app x) as H.
  destruct (chop x) as [r n]. cbn [fst snd] in H.
  destruct n as [|[|n]].
  - cbn in H. rewrite app_nil_r in H. symmetry. exact H.
  - destruct r as [|a r]; symmetry; exact H.
  - symmetry. exact H.
Qed.

(* what may follow the text without changing the string: blank lines after a clipped or stripped scalar *)
Lemma clip_ignores_blank_lines : forall t j, read_block Clip (t ++ breaks (S j)) = read_block Clip (t ++ [nl]).
Proof.
  intros t j. unfold read_block. change [nl] with (breaks 1). rewrite !chop_more_breaks.
  destruct (fst (chop t)); [reflexivity|].
  rewrite !Nat.add_succ_r. reflexivity.
Qed.

Lemma strip_ignores_breaks : forall t j, read_block Strip (t ++ breaks j) = read_block Strip t.
Proof.
  intros t j. unfold read_block. rewrite chop_more_breaks. destruct (chop t). reflexivity.
Qed.

(* ... and what may not: the line break that ends the last line of a `|` or `|+` scalar is part of the string, also
   when it is the last byte of the file *)
Lemma final_break_is_content : forall c t,
  c <> Strip -> fst (chop t) <> [] -> snd (chop t) = O ->
  read_block c (t ++ [nl]) = t ++ [nl] /\ read_block c t = t /\ read_block c (t ++ [nl]) <> read_block c t.
Proof.
  intros c t Hc Hr Hn.
  assert (A : read_block c (t ++ [nl]) = t ++ [nl]).
  { unfold read_block. change [nl] with (breaks 1). rewrite chop_more_breaks, Hn. cbn [Nat.add].
    pose proof (chop_app t) as H. rewrite Hn in H. cbn in H. rewrite app_nil_r in H.
    destruct c; [congruence| |]; rewrite <- H; destruct t; try reflexivity; congruence. }
  assert (B : read_block c t = t).
  { unfold read_block. pose proof (chop_app t) as H. destruct (chop t) as [r n]. cbn [fst snd] in *. subst n.
    cbn in H. rewrite app_nil_r in H. subst r.
    destruct c; [congruence| |].
    - destruct t; [congruence|reflexivity].
    - cbn. apply app_nil_r. }
  split; [exact A|]. split; [exact B|].
  rewrite A, B. intro E. apply (f_equal (@length N)) in E. rewrite app_length in E. cbn in E. lia.
Qed.

Lemma no_trailing_line : forall a l, l <> [] -> ~ In nl l -> no_trailing (a ++ l).
Proof.
  intros a l Hl Hin r' E.
  destruct (exists_last Hl) as [l' [x Hx]]. subst l.
  rewrite app_assoc in E. apply app_inj_tail in E. destruct E as [_ E]. subst x.
  apply Hin. apply in_or_app. right. left. reflexivity.
Qed.

Lemma unlines_app : forall a b, unlines (a ++ b) = unlines a ++ unlines b.
Proof. intros. unfold unlines. apply flat_map_app. Qed.

(* the HCL heredoc and the YAML `|` scalar over the same lines are the same string, final line break included *)
Lemma heredoc_clip_twin : forall ls,
  ls <> [] -> last ls [] <> [] -> ~ In nl (last ls []) ->
  heredoc_value (unlines ls) = Some (unlines ls) /\ read_block Clip (unlines ls) = unlines ls.
Proof.
  intros ls Hne Hl Hin.
  destruct (exists_last Hne) as [ls' [l E]]. subst ls. rewrite last_last in Hl, Hin.
  assert (C : chop (unlines (ls' ++ [l])) = (unlines ls' ++ l, 1%nat)).
  { rewrite unlines_app. unfold unlines at 2. cbn [flat_map]. rewrite app_nil_r, app_assoc.
    change [nl] with (breaks 1). apply chop_unique. apply no_trailing_line; assumption. }
  split.
  - unfold heredoc_value. rewrite C. cbn [snd].
    destruct (unlines (ls' ++ [l])) eqn:U; [|reflexivity].
    rewrite unlines_app in U. apply app_eq_nil in U. destruct U as [_ U]. unfold unlines in U. cbn in U.
    destruct l; discriminate.
  - unfold read_block. rewrite C.
    destruct (unlines ls' ++ l) eqn:U.
    + apply app_eq_nil in U. destruct U. congruence.
    + rewrite <- U. rewrite unlines_app. unfold unlines at 3. cbn [flat_map]. rewrite app_nil_r, app_assoc. reflexivity.
Qed.

(* whatever its lines: a heredoc is the `|+` scalar over the same text *)
Lemma heredoc_keep_twin : forall t v, heredoc_value t = Some v -> read_block Keep t = v.
Proof.
  intros t v H. rewrite keep_is_literal. unfold heredoc_value in H.
  destruct t; [inversion H; reflexivity|]. destruct (snd (chop (n :: t))); [discriminate|]. inversion H. reflexivity.
Qed.
