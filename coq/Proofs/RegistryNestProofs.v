(* Overlapping creations of the same registered entry (property C18): a creation that runs to
   completion while the fillConf of another one is in progress. *)
From Coq Require Import List Arith Bool NArith Lia.
From PV Require Import Model.Registry Proofs.RegistryFacts.
Import ListNotations.

(* ---------- overlapping creations of the same registered entry ---------- *)

Lemma reg_new_re_ok sh o s : reround_ok sh o true (snd (reg_new_re sh o s)) = true.
Proof.
  destruct s as [a d f c p]. destruct sh as [[] [] cerr perr [] rt nm]; norm; ranges.
Qed.

Lemma call_re_ok sh we o s :
  sh_ret sh = RPlugin -> reround_ok sh o we (snd (call_re sh we o s)) = true.
Proof.
  destruct s as [a d f c p]. destruct sh as [[] [] cerr perr [] rt nm]; intros R; try discriminate R; clear R;
    destruct we; norm; ranges.
Qed.

Lemma run_re_forallb (step : st -> st * reround) (P : reround -> bool) :
  (forall s, P (snd (step s)) = true) -> forall k s, forallb P (run_re step s k) = true.
Proof.
  intros H k; induction k as [|k IH]; intros s; cbn [run_re forallb]; [reflexivity|].
  specialize (H s). destruct (step s) as [s1 r]. cbn [forallb snd] in *. rewrite H, IH. reflexivity.
Qed.

Lemma nest_creation_ok sh o s :
  is_nocfg (sh_cfg sh) = false ->
  match get_conf_re sh o s with
  | (_, cev, cinner, rc) =>
      stops_at_error sh o cev = true /\ ctor_args_configured sh true o cev = true /\
      op_configured sh true o None cinner = true /\ op_errors sh o true cinner = true /\
      errors_evs sh o cev = match rc with inl e => Some e | inr _ => None end
  end.
Proof.
  destruct s as [a d f c p]. destruct sh as [[] [] cerr perr [] rt nm]; intros N; try discriminate N; clear N;
    norm; ranges.
Qed.

Theorem nest_holds sh rq o k :
  rq = ReqNew \/ (sh_ret sh = RPlugin /\ is_nocfg (sh_cfg sh) = false) ->
  nest_b sh rq o (run_nest sh rq o k) = true.
Proof.
  intros H. unfold run_nest. destruct rq as [|we named].
  - cbn [nest_b]. apply run_re_forallb. intros s. apply reg_new_re_ok.
  - destruct H as [H|[R N]]; [discriminate H|].
    pose proof (nest_creation_ok sh o st0 N) as C.
    destruct (get_conf_re sh o st0) as [[[s1 cev] cinner] rc].
    destruct C as (C1 & C2 & C3 & C4 & C5).
    destruct rc as [e|a]; cbn [nest_b]; rewrite C1, C2, C3, C4, C5; cbn [andb].
    + rewrite err_eqb_refl. reflexivity.
    + apply run_re_forallb. intros s. apply call_re_ok. exact R.
Qed.
