(* C13 prefix preservation: a well-formed file followed by ANY bytes delivers, to begin with,
   exactly the entries of the well-formed part. *)
From Coq Require Import List NArith ZArith Bool Lia.
From PV Require Import Lib.AmmoBytes Lib.AmmoDecimal Lib.AmmoLines Model.AmmoCommon Model.AmmoUri
  Model.AmmoUripost Model.AmmoRaw
  Proofs.AmmoBytesProofs Proofs.AmmoLinesProofs Proofs.AmmoCommonProofs
  Proofs.AmmoUriProofs Proofs.AmmoUripostProofs Proofs.AmmoRawProofs.
Import ListNotations.
Local Open Scope N_scope.

(* ---------- uripost ---------- *)
Section UripostPrefix.
  Variable url_parse : bytes -> option (bytes * bytes).
  Notation wf := (wf_pitem url_parse).

  Lemma render_true_cons i l r :
    render_uripost ((i, l) :: r) true =
      wrap_line l (pitem_text i) ++ LF :: pitem_body i ++ render_uripost r true.
  Proof. destruct r; [cbn [render_uripost orb]; rewrite app_nil_r; reflexivity|reflexivity]. Qed.

  Lemma up_inner_prefix tail items : forall h fuel e rest h',
    forallb wf items = true ->
    (length (render_uripost items true ++ tail) < fuel)%nat ->
    next_preq items h = Some (e, rest, h') ->
    exists a, up_inner url_parse fuel (render_uripost items true ++ tail) h
              = IFound e (render_uripost rest true ++ tail) h' a.
  Proof.
    induction items as [|[i l] r IH]; intros h fuel e rest h' Hwf Hf En; [discriminate|].
    cbn [forallb] in Hwf. apply andb_prop in Hwf. destruct Hwf as [Hi Hr].
    destruct fuel as [|f]; [lia|].
    rewrite render_true_cons in *.
    assert (E : (wrap_line l (pitem_text i) ++ LF :: pitem_body i ++ render_uripost r true) ++ tail
                = wrap_line l (pitem_text i) ++ LF :: pitem_body i ++ (render_uripost r true ++ tail)).
    { rewrite <- app_assoc. cbn [app]. rewrite <- app_assoc. reflexivity. }
    rewrite E in *. cbn [up_inner].
    rewrite (read_block_item_lf url_parse i l _ h Hi).
    assert (Hlen : (length (render_uripost r true ++ tail) < f)%nat).
    { rewrite app_length in Hf. cbn [length] in Hf. rewrite app_length in Hf. lia. }
    destruct i; cbn [next_preq expected] in *.
    - apply IH; assumption.
    - inversion En; subst. eexists. reflexivity.
    - apply IH; assumption.
  Qed.

  Lemma up_run_prefix tail k : forall cur h a p file,
    forallb wf cur = true ->
    (k <= length (uripost_entries (map fst cur) h))%nat ->
    map fst (up_run url_parse k cfg0
               {| p_file := file; p_rest := render_uripost cur true ++ tail; p_hdr := h; p_ammo := a; p_pass := p |})
      = map SDeliver (firstn k (uripost_entries (map fst cur) h)).
  Proof.
    induction k as [|k IH]; intros cur h a p file Hcur Hk; [reflexivity|].
    cbn [up_run]. unfold up_scan. cbn [p_ammo]. change (limit_hit cfg0 a) with false. cbv iota.
    cbn [up_outer p_rest p_hdr p_file p_ammo p_pass].
    rewrite (next_preq_entries cur h) in *.
    destruct (next_preq cur h) as [[[e rest] h']|] eqn:En; [|cbn in Hk; lia].
    destruct (up_inner_prefix tail cur h (S (length (render_uripost cur true ++ tail))) e rest h' Hcur
                (Nat.lt_succ_diag_r _) En) as [al Hin].
    rewrite Hin. cbn [firstn map fst]. f_equal.
    apply IH; [exact (next_preq_wf url_parse cur h e rest h' Hcur En)|cbn [length] in Hk; lia].
  Qed.

  Theorem uripost_prefix_preserved items tail k :
    forallb wf items = true ->
    (k <= length (uripost_entries (map fst items) []))%nat ->
    uripost_decode url_parse cfg0 k (render_uripost items true ++ tail) =
      map SDeliver (firstn k (uripost_entries (map fst items) [])).
  Proof. intros H Hk. unfold uripost_decode, up_init. apply up_run_prefix; assumption. Qed.
End UripostPrefix.

(* ---------- raw ---------- *)
Lemma render_raw_true_cons i l r :
  render_raw ((i, l) :: r) true =
    wrap_line l (ritem_text i) ++ LF :: ritem_body i ++ render_raw r true.
Proof. destruct r; [cbn [render_raw orb]; rewrite app_nil_r; reflexivity|reflexivity]. Qed.

Lemma raw_inner_prefix tail items : forall fuel e rest,
  forallb wf_ritem items = true ->
  (length (render_raw items true ++ tail) < fuel)%nat ->
  next_rreq items = Some (e, rest) ->
  exists a, raw_inner fuel (render_raw items true ++ tail) = RIFound e (render_raw rest true ++ tail) a.
Proof.
  induction items as [|[i l] r IH]; intros fuel e rest Hwf Hf En; [discriminate|].
  cbn [forallb] in Hwf. apply andb_prop in Hwf. destruct Hwf as [Hi Hr].
  destruct fuel as [|f]; [lia|].
  rewrite render_raw_true_cons in *.
  assert (E : (wrap_line l (ritem_text i) ++ LF :: ritem_body i ++ render_raw r true) ++ tail
              = wrap_line l (ritem_text i) ++ LF :: ritem_body i ++ (render_raw r true ++ tail)).
  { rewrite <- app_assoc. cbn [app]. rewrite <- app_assoc. reflexivity. }
  rewrite E in *. cbn [raw_inner].
  rewrite (raw_block_item_lf i l _ Hi).
  assert (Hlen : (length (render_raw r true ++ tail) < f)%nat).
  { rewrite app_length in Hf. cbn [length] in Hf. rewrite app_length in Hf. lia. }
  destruct i; cbn [next_rreq] in *.
  - inversion En; subst. eexists. reflexivity.
  - apply IH; assumption.
Qed.

Lemma raw_run_prefix tail k : forall cur a p file,
  forallb wf_ritem cur = true ->
  (k <= length (raw_entries (map fst cur)))%nat ->
  map fst (raw_run k cfg0 {| r_file := file; r_rest := render_raw cur true ++ tail; r_ammo := a; r_pass := p |})
    = map SDeliver (firstn k (raw_entries (map fst cur))).
Proof.
  induction k as [|k IH]; intros cur a p file Hcur Hk; [reflexivity|].
  cbn [raw_run]. unfold raw_scan. cbn [r_ammo]. change (limit_hit cfg0 a) with false. cbv iota.
  cbn [raw_outer r_rest r_file r_ammo r_pass].
  rewrite (next_rreq_entries cur) in *.
  destruct (next_rreq cur) as [[e rest]|] eqn:En; [|cbn in Hk; lia].
  destruct (raw_inner_prefix tail cur (S (length (render_raw cur true ++ tail))) e rest Hcur
              (Nat.lt_succ_diag_r _) En) as [al Hin].
  rewrite Hin. cbn [firstn map fst]. f_equal.
  apply IH; [exact (next_rreq_wf cur e rest Hcur En)|cbn [length] in Hk; lia].
Qed.

Theorem raw_prefix_preserved items tail k :
  forallb wf_ritem items = true ->
  (k <= length (raw_entries (map fst items)))%nat ->
  raw_decode cfg0 k (render_raw items true ++ tail) =
    map SDeliver (firstn k (raw_entries (map fst items))).
Proof. intros H Hk. unfold raw_decode, raw_init. apply raw_run_prefix; assumption. Qed.

(* ---------- uri ---------- *)
Section UriPrefix.
  Variable url_parse : bytes -> option (bytes * bytes).
  Variable maxtok : N.
  Notation wf := (wf_uitem url_parse maxtok).

  Lemma lines_join_true_app ls tail :
    forallb nolf ls = true -> lines (join_lf ls true ++ tail) = ls ++ lines tail.
  Proof.
    induction ls as [|x r IH]; intros H; [reflexivity|].
    cbn [forallb] in H. apply andb_prop in H. destruct H as [Hx Hr].
    destruct r as [|y r'].
    - cbn [join_lf]. rewrite <- app_assoc. cbn [app]. rewrite scan_line by exact Hx. reflexivity.
    - change (join_lf (x :: y :: r') true) with (x ++ LF :: join_lf (y :: r') true).
      rewrite <- app_assoc. cbn [app]. rewrite scan_line by exact Hx. rewrite IH by exact Hr. reflexivity.
  Qed.

  Lemma cap_lines_app a b :
    forallb (fun l => N.ltb (nlen l) maxtok) a = true ->
    cap_lines maxtok (a ++ b) = let '(x, e) := cap_lines maxtok b in (a ++ x, e).
  Proof.
    induction a as [|l r IH]; intros H; [cbn [app]; destruct (cap_lines maxtok b); reflexivity|].
    cbn [forallb] in H. apply andb_prop in H. destruct H as [Hl Hr].
    cbn [app cap_lines]. rewrite Hl, IH by exact Hr. destruct (cap_lines maxtok b); reflexivity.
  Qed.

  Lemma uri_pass_prefix more items : forall h e rest h',
    forallb wf items = true ->
    next_req items h = Some (e, rest, h') ->
    uri_pass url_parse (ulines items ++ more) h = PFound e (ulines rest ++ more) h'.
  Proof.
    induction items as [|[i l] r IH]; intros h e rest h' H En; [discriminate|].
    cbn [forallb] in H. apply andb_prop in H. destruct H as [Hi Hr].
    cbn [ulines map fst snd app uri_pass]. rewrite (read_line_item url_parse maxtok i l h Hi).
    destruct i; cbn [next_req] in En.
    - apply IH; assumption.
    - inversion En; subst. reflexivity.
    - apply IH; assumption.
  Qed.

  Lemma uri_run_prefix more k : forall cur h a p all e,
    forallb wf cur = true ->
    (k <= length (uri_entries (map fst cur) h))%nat ->
    uri_run url_parse k cfg0
      {| u_all := all; u_end := e; u_lines := ulines cur ++ more; u_hdr := h; u_ammo := a; u_pass := p |}
      = map SDeliver (firstn k (uri_entries (map fst cur) h)).
  Proof.
    induction k as [|k IH]; intros cur h a p all e Hcur Hk; [reflexivity|].
    cbn [uri_run]. unfold uri_scan. cbn [u_ammo]. change (limit_hit cfg0 a) with false. cbv iota.
    cbn [uri_loop u_lines u_hdr].
    rewrite (next_req_entries cur h) in *.
    destruct (next_req cur h) as [[[en rest] h']|] eqn:En; [|cbn in Hk; lia].
    rewrite (uri_pass_prefix more cur h en rest h' Hcur En).
    cbn [firstn map u_all u_end u_ammo u_pass]. f_equal.
    apply IH; [exact (next_req_wf url_parse maxtok cur h en rest h' Hcur En)|cbn [length] in Hk; lia].
  Qed.

  Theorem uri_prefix_preserved items tail k :
    forallb wf items = true ->
    (k <= length (uri_entries (map fst items) []))%nat ->
    uri_decode url_parse maxtok cfg0 k (render_uri items true ++ tail) =
      map SDeliver (firstn k (uri_entries (map fst items) [])).
  Proof.
    intros H Hk. unfold uri_decode, uri_init, scan_lines, render_uri. fold (ulines items).
    rewrite lines_join_true_app by (apply ulines_nolf with (url_parse := url_parse) (maxtok := maxtok); exact H).
    rewrite cap_lines_app by (apply ulines_short with (url_parse := url_parse); exact H).
    destruct (cap_lines maxtok (lines tail)) as [x e].
    apply uri_run_prefix; assumption.
  Qed.
End UriPrefix.
