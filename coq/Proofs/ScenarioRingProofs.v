(* Lemmas about weights: GCD/GCDM loops, SpreadNames, the ring, cyclic delivery (C15). *)
From Coq Require Import List NArith ZArith Bool Lia Arith PeanoNat.
From PV Require Import Model.Iterator Model.Scenario Proofs.ScenarioParseProofs.
Import ListNotations.

(* ---------- GCD ---------- *)

Lemma gcd_loop_correct fuel : forall a b,
  (0 <= a)%Z -> (0 <= b)%Z -> (Z.to_nat (Z.min a b) < fuel)%nat ->
  gcd_loop fuel a b = Some (Z.gcd a b).
Proof.
  induction fuel as [|f IH]; intros a b Ha Hb Hf; [lia|].
  cbn [gcd_loop].
  destruct (Z.ltb_spec 0 a) as [Pa|Na]; destruct (Z.ltb_spec 0 b) as [Pb|Nb]; cbn [andb].
  - destruct (Z.leb_spec b a) as [Hba|Hab].
    + assert (R : Z.rem a b = (a mod b)%Z) by (apply Z.rem_mod_nonneg; lia).
      rewrite R. pose proof (Z.mod_pos_bound a b Pb) as Bd.
      rewrite IH; try lia.
      f_equal. rewrite Z.gcd_mod by lia. apply Z.gcd_comm.
    + assert (R : Z.rem b a = (b mod a)%Z) by (apply Z.rem_mod_nonneg; lia).
      rewrite R. pose proof (Z.mod_pos_bound b a Pa) as Bd.
      rewrite IH; try lia.
      f_equal. rewrite Z.gcd_comm. rewrite Z.gcd_mod by lia. reflexivity.
  - assert (b = 0%Z) by lia. subst b. destruct (Z.ltb_spec 0 a); [|lia].
    rewrite Z.gcd_0_r. rewrite Z.abs_eq by lia. reflexivity.
  - assert (a = 0%Z) by lia. subst a. destruct (Z.ltb_spec b 0); [lia|].
    rewrite Z.gcd_0_l. rewrite Z.abs_eq by lia. reflexivity.
  - assert (a = 0%Z) by lia. assert (b = 0%Z) by lia. subst. reflexivity.
Qed.

(* the Go loop computes the greatest common divisor (and never runs out of fuel) *)
Lemma gcd_go_correct a b : (0 < a)%Z -> (0 < b)%Z -> gcd_go a b = Some (Z.gcd a b).
Proof. intros Ha Hb. unfold gcd_go. apply gcd_loop_correct; lia. Qed.

Lemma gcd_pos a b : (0 < a)%Z -> (0 < b)%Z -> (0 < Z.gcd a b)%Z.
Proof.
  intros Ha Hb. pose proof (Z.gcd_nonneg a b).
  destruct (Z.eq_dec (Z.gcd a b) 0) as [E|]; [|lia].
  apply Z.gcd_eq_0_l in E. lia.
Qed.

Lemma gcd_list_snoc l x : gcd_list (l ++ [x]) = Z.gcd (gcd_list l) x.
Proof.
  induction l as [|a l IH]; cbn [app gcd_list fold_right].
  - apply Z.gcd_comm.
  - change (fold_right Z.gcd 0%Z (l ++ [x])) with (gcd_list (l ++ [x])). rewrite IH.
    change (fold_right Z.gcd 0%Z l) with (gcd_list l). apply Z.gcd_assoc.
Qed.

Lemma gcd_list_rev l : gcd_list (rev l) = gcd_list l.
Proof.
  induction l as [|a l IH]; [reflexivity|]. cbn [rev]. rewrite gcd_list_snoc, IH.
  cbn [gcd_list fold_right]. apply Z.gcd_comm.
Qed.

Definition all_pos (l : list Z) : Prop := Forall (fun w => (0 < w)%Z) l.

Lemma gcd_list_pos l : l <> [] -> all_pos l -> (0 < gcd_list l)%Z.
Proof.
  intros Hne H. induction H as [|a l Ha Hl IH]; [contradiction|].
  cbn [gcd_list fold_right]. change (fold_right Z.gcd 0%Z l) with (gcd_list l).
  destruct l as [|b l'].
  - cbn [gcd_list fold_right]. rewrite Z.gcd_0_r. lia.
  - apply gcd_pos; [exact Ha|apply IH; discriminate].
Qed.

Lemma gcdm_rev_eq z y rest' :
  gcdm_rev (z :: y :: rest') =
  match gcd_go y z with
  | None => None
  | Some res =>
      match rest' with
      | [] => Some res
      | _ => match gcdm_rev (y :: rest') with None => None | Some g => gcd_go g res end
      end
  end.
Proof. reflexivity. Qed.

Lemma gcdm_rev_correct rw : (2 <= length rw)%nat -> all_pos rw -> gcdm_rev rw = Some (gcd_list rw).
Proof.
  induction rw as [|z rw IH]; intros Hlen Hpos; [cbn in Hlen; lia|].
  destruct rw as [|y rest']; [cbn in Hlen; lia|].
  inversion Hpos as [|? ? Hz Hpos']; subst. inversion Hpos' as [|? ? Hy Hpos'']; subst.
  rewrite gcdm_rev_eq. rewrite (gcd_go_correct y z Hy Hz).
  destruct rest' as [|x rest''].
  - cbn [gcd_list fold_right]. rewrite Z.gcd_0_r. rewrite (Z.abs_eq y) by lia.
    rewrite Z.gcd_comm. reflexivity.
  - rewrite IH; [|cbn [length]; lia|exact Hpos'].
    rewrite gcd_go_correct.
    + f_equal. cbn [gcd_list fold_right].
      change (fold_right Z.gcd 0%Z rest'') with (gcd_list rest'').
      set (g := Z.gcd x (gcd_list rest'')).
      (* gcd (gcd y g) (gcd y z) = gcd z (gcd y g) *)
      rewrite (Z.gcd_comm y z). rewrite Z.gcd_assoc.
      rewrite <- (Z.gcd_assoc (Z.gcd y g) z y).
      rewrite (Z.gcd_comm z y). rewrite Z.gcd_assoc.
      rewrite <- (Z.gcd_assoc y g y). rewrite (Z.gcd_comm g y). rewrite (Z.gcd_assoc y y g).
      rewrite Z.gcd_diag. rewrite (Z.abs_eq y) by lia.
      rewrite (Z.gcd_comm (Z.gcd y g) z). reflexivity.
    + apply gcd_list_pos; [discriminate|exact Hpos'].
    + apply gcd_pos; assumption.
Qed.

Lemma gcdm_go_correct ws : (2 <= length ws)%nat -> all_pos ws -> gcdm_go ws = Some (gcd_list ws).
Proof.
  intros Hlen Hpos. unfold gcdm_go. rewrite gcdm_rev_correct.
  - rewrite gcd_list_rev. reflexivity.
  - rewrite rev_length. exact Hlen.
  - apply Forall_rev. exact Hpos.
Qed.

Lemma gcd_list_divides l x : In x l -> (gcd_list l | x)%Z.
Proof.
  induction l as [|a l IH]; [intros []|]. cbn [gcd_list fold_right].
  change (fold_right Z.gcd 0%Z l) with (gcd_list l).
  intros [->|Hin].
  - apply Z.gcd_divide_l.
  - eapply Z.divide_trans; [apply Z.gcd_divide_r|apply IH, Hin].
Qed.

(* ---------- SpreadNames and the ring ---------- *)

Definition weights_ok (ws : list Z) : Prop := Forall (fun w => (0 <= w)%Z) ws.

Lemma norm_w_pos w : (0 <= w)%Z -> (0 < norm_w w)%Z.
Proof. intros H. unfold norm_w. destruct (Z.eqb_spec w 0); lia. Qed.

Lemma all_pos_norm ws : weights_ok ws -> all_pos (map norm_w ws).
Proof. intros H. apply Forall_map. eapply Forall_impl; [|exact H]. intros w Hw. apply norm_w_pos, Hw. Qed.

Lemma lookup_last_notin (R : Type) (l : list (bytes * R)) name :
  ~ In name (map fst l) -> lookup_last R l name = None.
Proof.
  induction l as [|[k v] l IH]; cbn [lookup_last map fst In]; intros H; [reflexivity|].
  rewrite IH by tauto. rewrite beq_neq; [reflexivity|]. intros E. apply H. left. exact E.
Qed.

Lemma ring_go_nodup counts (names : list bytes) (cs : list Z) i :
  NoDup names -> length names = length cs ->
  (forall n c, In (n, c) (combine names cs) -> lookup_count counts n = Some c) ->
  ring_go counts names i =
  (fix go (cs : list Z) (i : nat) : list nat :=
     match cs with [] => [] | c :: r => repeat i (Z.to_nat c) ++ go r (S i) end) cs i.
Proof.
  revert cs i. induction names as [|n names IH]; intros cs i Hnd Hlen Hl.
  - destruct cs; [reflexivity|discriminate].
  - destruct cs as [|c cs]; [discriminate|]. cbn [ring_go].
    rewrite (Hl n c) by (left; reflexivity).
    f_equal. apply IH.
    + inversion Hnd; assumption.
    + cbn [length] in Hlen. lia.
    + intros n' c' Hin. apply Hl. right. exact Hin.
Qed.

Lemma lookup_count_nodup (l : list (bytes * Z)) n c :
  NoDup (map fst l) -> In (n, c) l -> lookup_count l n = Some c.
Proof.
  unfold lookup_count. induction l as [|[k v] l IH]; intros Hnd Hin; [destruct Hin|].
  cbn [map fst] in Hnd. inversion Hnd as [|? ? Hnotin Hnd']; subst.
  cbn [lookup_last]. destruct Hin as [E|Hin].
  - injection E as -> ->. rewrite lookup_last_notin by exact Hnotin. rewrite beq_refl. reflexivity.
  - rewrite (IH Hnd' Hin). reflexivity.
Qed.

Lemma combine_fst_map (A B C : Type) (f : A * B -> C) (l : list (A * B)) :
  combine (map fst l) (map f l) = map (fun p => (fst p, f p)) l.
Proof. induction l as [|[a b] l IH]; [reflexivity|]. cbn [map combine fst]. f_equal. exact IH. Qed.

Lemma fold_add_nonneg (l : list Z) acc : (0 <= acc)%Z -> Forall (fun x => (0 <= x)%Z) l -> (0 <= fold_left Z.add l acc)%Z.
Proof.
  revert acc. induction l as [|x l IH]; intros acc Ha H; cbn [fold_left]; [exact Ha|].
  inversion H; subst. apply IH; [lia|assumption].
Qed.

Lemma spec_ring_go_eq g ws i :
  spec_ring_go g ws i =
  (fix go (cs : list Z) (i : nat) : list nat :=
     match cs with [] => [] | c :: r => repeat i (Z.to_nat c) ++ go r (S i) end)
    (map (fun w => (norm_w w / g)%Z) ws) i.
Proof.
  revert i. induction ws as [|w ws IH]; intros i; cbn [spec_ring_go map]; [reflexivity|].
  rewrite IH. reflexivity.
Qed.

(* with non-negative weights and distinct scenario names decodeAmmo's ring is exactly:
   weight/gcd copies of every scenario, in the listed order *)
Lemma ring_of_spec (scs : list (bytes * Z)) :
  NoDup (map fst scs) -> weights_ok (map snd scs) ->
  ring_of scs = RingOk (spec_ring (map snd scs)).
Proof.
  intros Hnd Hw. unfold ring_of, spread.
  destruct scs as [|[n0 w0] rest]; [reflexivity|].
  destruct rest as [|[n1 w1] rest'].
  - cbn [map snd fst spec_ring fold_left Z.add Z.ltb]. cbn [ring_go lookup_count lookup_last map fst].
    rewrite beq_refl. cbn. reflexivity.
  - set (scs := (n0, w0) :: (n1, w1) :: rest') in *.
    assert (Hlen : (2 <= length (map (fun p => norm_w (snd p)) scs))%nat) by (cbn; lia).
    assert (Hpos : all_pos (map (fun p => norm_w (snd p)) scs)).
    { rewrite <- (map_map snd norm_w). apply all_pos_norm, Hw. }
    rewrite (gcdm_go_correct _ Hlen Hpos).
    set (g := gcd_list (map (fun p => norm_w (snd p)) scs)).
    assert (Hg : (0 < g)%Z) by (apply gcd_list_pos; [subst scs; discriminate|exact Hpos]).
    destruct (Z.eqb_spec g 0) as [E|_]; [lia|].
    set (counts := map (fun p => (fst p, Z.quot (norm_w (snd p)) g)) scs).
    assert (Hc : Forall (fun x => (0 <= x)%Z) (map snd counts)).
    { subst counts. rewrite map_map. cbn [snd]. apply Forall_map.
      rewrite Forall_forall. intros p Hin. apply Z.quot_pos; [|lia].
      assert (0 <= snd p)%Z.
      { unfold weights_ok in Hw. rewrite Forall_forall in Hw. apply Hw. apply in_map. exact Hin. }
      pose proof (norm_w_pos (snd p)). lia. }
    destruct (Z.ltb_spec (fold_left Z.add (map snd counts) 0%Z) 0) as [Hneg|_].
    { pose proof (fold_add_nonneg (map snd counts) 0%Z ltac:(lia) Hc). lia. }
    f_equal.
    assert (Hs : spec_ring (map snd scs) = spec_ring_go g (map snd scs) 0).
    { subst scs. cbn [map snd spec_ring]. subst g. cbn [map snd]. rewrite map_map. reflexivity. }
    rewrite Hs. rewrite spec_ring_go_eq.
    rewrite (ring_go_nodup counts (map fst scs) (map snd counts) 0 Hnd).
    + f_equal. subst counts. rewrite !map_map. cbn [snd]. apply map_ext_in.
      intros p Hin. apply Z.quot_div_nonneg; [|lia].
      assert (0 <= snd p)%Z.
      { unfold weights_ok in Hw. rewrite Forall_forall in Hw. apply Hw. apply in_map. exact Hin. }
      pose proof (norm_w_pos (snd p)). lia.
    + rewrite !map_length. subst counts. rewrite map_length. reflexivity.
    + intros n c Hin. apply lookup_count_nodup.
      * subst counts. rewrite map_map. cbn [fst]. exact Hnd.
      * assert (E : combine (map fst scs) (map snd counts) = counts).
        { subst counts. rewrite map_map. cbn [snd]. apply combine_fst_map. }
        rewrite E in Hin. exact Hin.
Qed.

(* ---------- counting occurrences in one turn ---------- *)

Lemma count_nat_app x a b : count_nat x (a ++ b) = (count_nat x a + count_nat x b)%nat.
Proof. induction a as [|y a IH]; cbn [app count_nat]; [reflexivity|]. rewrite IH. lia. Qed.

Lemma count_nat_repeat x y n : count_nat x (repeat y n) = if Nat.eqb x y then n else O.
Proof.
  induction n as [|n IH]; cbn [repeat count_nat]; [destruct (Nat.eqb x y); reflexivity|].
  rewrite IH. destruct (Nat.eqb x y); reflexivity.
Qed.

Lemma count_spec_ring_go g ws i0 x :
  count_nat x (spec_ring_go g ws i0) =
  if (x <? i0)%nat then O
  else match nth_error ws (x - i0) with
       | Some w => Z.to_nat (norm_w w / g)
       | None => O
       end.
Proof.
  revert i0. induction ws as [|w ws IH]; intros i0; cbn [spec_ring_go count_nat].
  - destruct (x <? i0)%nat; [reflexivity|]. destruct (x - i0)%nat; reflexivity.
  - rewrite count_nat_app, count_nat_repeat, IH.
    destruct (Nat.ltb_spec x i0) as [Hlt|Hge].
    + destruct (Nat.eqb_spec x i0); [lia|]. destruct (Nat.ltb_spec x (S i0)); [reflexivity|lia].
    + destruct (Nat.eqb_spec x i0) as [->|Hne].
      * rewrite Nat.sub_diag. cbn [nth_error]. destruct (Nat.ltb_spec i0 (S i0)); [lia|lia].
      * destruct (Nat.ltb_spec x (S i0)); [lia|].
        replace (x - i0)%nat with (S (x - S i0)) by lia. cbn [nth_error]. lia.
Qed.

(* in one turn of the ring, scenario i occurs weight_i / gcd times, and that is an exact
   division: copies * gcd = weight *)
Lemma one_turn_counts ws i w :
  (2 <= length ws)%nat -> weights_ok ws -> nth_error ws i = Some w ->
  let g := gcd_list (map norm_w ws) in
  (0 < g)%Z /\
  (Z.of_nat (count_nat i (spec_ring ws)) * g = norm_w w)%Z.
Proof.
  intros Hlen Hw Hn g.
  assert (Hpos : all_pos (map norm_w ws)) by (apply all_pos_norm, Hw).
  assert (Hg : (0 < g)%Z).
  { apply gcd_list_pos; [|exact Hpos]. destruct ws; [cbn in Hlen; lia|discriminate]. }
  split; [exact Hg|].
  assert (Hs : spec_ring ws = spec_ring_go g ws 0).
  { destruct ws as [|a [|b l]]; cbn in Hlen; try lia. reflexivity. }
  rewrite Hs, count_spec_ring_go. cbn [Nat.ltb Nat.leb]. rewrite Nat.sub_0_r, Hn.
  assert (Hd : (g | norm_w w)%Z).
  { apply gcd_list_divides. apply in_map. eapply nth_error_In. exact Hn. }
  destruct Hd as [q Hq].
  assert (0 <= w)%Z.
  { unfold weights_ok in Hw. rewrite Forall_forall in Hw. apply Hw. eapply nth_error_In. exact Hn. }
  pose proof (norm_w_pos w ltac:(assumption)).
  rewrite Hq. rewrite Z.div_mul by lia. rewrite Z2Nat.id by nia. reflexivity.
Qed.

(* ---------- cyclic delivery: counts over windows ---------- *)

Lemma deliver_nonempty ring k : (0 < length ring)%nat -> deliver ring k = nth_error ring (k mod length ring).
Proof. destruct ring; cbn [length]; [lia|reflexivity]. Qed.

Lemma nth_error_seq_all (l pre : list nat) :
  map (fun k => nth_error (pre ++ l) (k mod length (pre ++ l))) (seq (length pre) (length l)) = map Some l.
Proof.
  revert pre. induction l as [|y l IH]; intros pre; [reflexivity|].
  cbn [length seq map]. f_equal.
  - rewrite Nat.mod_small by (rewrite app_length; cbn [length]; lia).
    rewrite nth_error_app2 by lia. rewrite Nat.sub_diag. reflexivity.
  - specialize (IH (pre ++ [y])). rewrite <- app_assoc in IH. cbn [app] in IH.
    replace (length (pre ++ [y])) with (S (length pre)) in IH by (rewrite app_length; cbn [length]; lia).
    exact IH.
Qed.

Section Windows.
  Variable ring : list nat.
  Variable x : nat.
  Let T := length ring.
  Hypothesis Tpos : (0 < T)%nat.

  Definition f (k : nat) : nat :=
    match deliver ring k with Some y => if Nat.eqb x y then 1 else 0 | None => 0 end.

  Definition cnt (a len : nat) : nat := count_opt x (window ring a len).

  Lemma deliver_periodic k : deliver ring (k + T) = deliver ring k.
  Proof.
    rewrite !deliver_nonempty by exact Tpos. fold T.
    f_equal. rewrite <- (Nat.mul_1_l T) at 1. rewrite Nat.mod_add by lia. reflexivity.
  Qed.

  Lemma count_opt_app a b : count_opt x (a ++ b) = (count_opt x a + count_opt x b)%nat.
  Proof.
    induction a as [|[y|] a IH]; cbn [app count_opt]; [reflexivity| |exact IH]. rewrite IH. lia.
  Qed.

  Lemma cnt_split a l1 l2 : cnt a (l1 + l2) = (cnt a l1 + cnt (a + l1) l2)%nat.
  Proof. unfold cnt, window. rewrite seq_app, map_app, count_opt_app. reflexivity. Qed.

  Lemma cnt_1 a : cnt a 1 = f a.
  Proof. unfold cnt, window, f. cbn [seq map count_opt]. destruct (deliver ring a); lia. Qed.

  Lemma cnt_le a len : (cnt a len <= len)%nat.
  Proof.
    unfold cnt, window. revert a. induction len as [|len IH]; intros a; cbn [seq map count_opt]; [lia|].
    specialize (IH (S a)). destruct (deliver ring a) as [y|]; [destruct (Nat.eqb x y)|]; lia.
  Qed.

  Lemma window_first_turn : window ring 0 T = map Some ring.
  Proof.
    unfold window. pose proof (nth_error_seq_all ring []) as G. cbn [app length] in G.
    rewrite <- G. apply map_ext. intros k. apply deliver_nonempty. exact Tpos.
  Qed.

  Lemma count_opt_some l : count_opt x (map Some l) = count_nat x l.
  Proof. induction l as [|y l IH]; cbn [map count_opt count_nat]; [reflexivity|]. rewrite IH. reflexivity. Qed.

  (* any T consecutive deliveries contain x exactly as often as the ring does *)
  Lemma cnt_turn a : cnt a T = count_nat x ring.
  Proof.
    induction a as [|a IH].
    - unfold cnt. rewrite window_first_turn. apply count_opt_some.
    - pose proof (cnt_split a 1 T) as S1. pose proof (cnt_split a T 1) as S2.
      replace (1 + T)%nat with (T + 1)%nat in S1 by lia. rewrite S1 in S2.
      rewrite !cnt_1 in S2. unfold f in S2 at 2. rewrite deliver_periodic in S2. fold (f a) in S2.
      replace (a + 1)%nat with (S a) in S2 by lia. lia.
  Qed.

  Lemma cnt_turns a q r : cnt a (q * T + r) = (q * count_nat x ring + cnt (a + q * T) r)%nat.
  Proof.
    revert a. induction q as [|q IH]; intros a.
    - cbn [Nat.mul Nat.add]. rewrite Nat.add_0_r. reflexivity.
    - replace (S q * T + r)%nat with (T + (q * T + r))%nat by lia.
      rewrite cnt_split, cnt_turn, IH. replace (a + T + q * T)%nat with (a + S q * T)%nat by lia. lia.
  Qed.

  Lemma cnt_mono a r : (r <= T)%nat -> (cnt a r <= count_nat x ring)%nat.
  Proof.
    intros Hr. pose proof (cnt_split a r (T - r)) as S. replace (r + (T - r))%nat with T in S by lia.
    rewrite cnt_turn in S. lia.
  Qed.

  (* m full turns from any starting point: exactly m times the per-turn count *)
  Lemma cnt_full_turns a m : cnt a (m * T) = (m * count_nat x ring)%nat.
  Proof.
    pose proof (cnt_turns a m 0) as H. rewrite Nat.add_0_r in H. rewrite H.
    unfold cnt at 1. unfold window. cbn [seq map count_opt]. lia.
  Qed.

  (* any window of L consecutive deliveries: |T * count - L * c| < T * c   (c = per-turn count > 0),
     i.e. the count differs from L * c / T by less than c *)
  Lemma cnt_window_bound a L :
    let c := count_nat x ring in
    (0 < c)%nat ->
    (Z.abs (Z.of_nat T * Z.of_nat (cnt a L) - Z.of_nat L * Z.of_nat c) < Z.of_nat T * Z.of_nat c)%Z.
  Proof.
    intros c Hc.
    pose proof (Nat.div_mod L T ltac:(lia)) as HL.
    set (q := (L / T)%nat) in *. set (r := (L mod T)%nat) in *.
    assert (Hr : (r < T)%nat) by (apply Nat.mod_upper_bound; lia).
    rewrite HL. replace (T * q + r)%nat with (q * T + r)%nat by lia.
    rewrite cnt_turns. fold c.
    pose proof (cnt_mono (a + q * T) r ltac:(lia)) as M. fold c in M.
    pose proof (cnt_le (a + q * T) r) as Le.
    set (y := cnt (a + q * T) r) in *.
    apply Z.abs_lt. split; nia.
  Qed.

  Lemma cnt_zero a L : count_nat x ring = O -> cnt a L = O.
  Proof.
    intros Hc.
    pose proof (Nat.div_mod L T ltac:(lia)) as HL.
    assert (Hr : (L mod T < T)%nat) by (apply Nat.mod_upper_bound; lia).
    rewrite HL. replace (T * (L / T) + L mod T)%nat with ((L / T) * T + L mod T)%nat by lia.
    rewrite cnt_turns, Hc.
    pose proof (cnt_mono (a + L / T * T) (L mod T) ltac:(lia)). lia.
  Qed.
End Windows.

(* the statement of C15_weights, assembled *)
Lemma weights_theorem : forall (scs : list (bytes * Z)),
  NoDup (map fst scs) -> weights_ok (map snd scs) -> (2 <= length scs)%nat ->
  let ws := map snd scs in
  let ring := spec_ring ws in
  let g := gcd_list (map norm_w ws) in
  ring_of scs = RingOk ring /\ (0 < g)%Z /\
  (forall i w, nth_error ws i = Some w -> (Z.of_nat (count_nat i ring) * g = norm_w w)%Z) /\
  (forall i j wi wj, nth_error ws i = Some wi -> nth_error ws j = Some wj ->
     (Z.of_nat (count_nat i ring) * norm_w wj = Z.of_nat (count_nat j ring) * norm_w wi)%Z) /\
  (0 < length ring)%nat /\
  (forall i a m, cnt ring i a (m * length ring) = (m * count_nat i ring)%nat) /\
  (forall i a L, (0 < count_nat i ring)%nat ->
     (Z.abs (Z.of_nat (length ring) * Z.of_nat (cnt ring i a L) - Z.of_nat L * Z.of_nat (count_nat i ring))
      < Z.of_nat (length ring) * Z.of_nat (count_nat i ring))%Z) /\
  (forall i a L, count_nat i ring = O -> cnt ring i a L = O).
Proof.
  intros scs Hnd Hw Hlen ws ring g.
  assert (Hlen' : (2 <= length ws)%nat) by (subst ws; rewrite map_length; exact Hlen).
  assert (Hcnt : forall i w, nth_error ws i = Some w -> (0 < g)%Z /\ (Z.of_nat (count_nat i ring) * g = norm_w w)%Z).
  { intros i w Hn. exact (one_turn_counts ws i w Hlen' Hw Hn). }
  assert (Hg : (0 < g)%Z).
  { destruct ws as [|w0 ws'] eqn:E; [cbn in Hlen'; lia|]. exact (proj1 (Hcnt 0%nat w0 eq_refl)). }
  assert (Hring : (0 < length ring)%nat).
  { destruct ws as [|w0 ws'] eqn:E; [cbn in Hlen'; lia|].
    destruct (Hcnt 0%nat w0 eq_refl) as [_ H0].
    assert (0 <= w0)%Z by (unfold weights_ok in Hw; fold ws in Hw; rewrite E in Hw; inversion Hw; assumption).
    pose proof (norm_w_pos w0 ltac:(assumption)).
    destruct ring as [|r0 rr]; [cbn [count_nat] in H0; lia|cbn [length]; lia]. }
  split; [exact (ring_of_spec scs Hnd Hw)|]. split; [exact Hg|].
  split; [intros i w Hn; exact (proj2 (Hcnt i w Hn))|].
  split.
  { intros i j wi wj Hi Hj. destruct (Hcnt i wi Hi) as [_ Ei]. destruct (Hcnt j wj Hj) as [_ Ej].
    rewrite <- Ei, <- Ej. ring. }
  split; [exact Hring|].
  split; [intros i a m; apply cnt_full_turns; exact Hring|].
  split; [intros i a L Hc; apply cnt_window_bound; assumption|].
  intros i a L Hc. apply cnt_zero; assumption.
Qed.
