(* Lemmas about Lib/AmmoBytes.v: trimming, cut/split/join, header key canonicalisation. *)
From Coq Require Import List NArith ZArith Bool Lia.
From PV Require Import Lib.AmmoBytes.
Import ListNotations.
Local Open Scope N_scope.

Lemma frev_rev {A} (l : list A) : frev l = rev l.
Proof. unfold frev. symmetry. apply rev_alt. Qed.

(* ---------- beq ---------- *)
Lemma beq_refl a : beq a a = true.
Proof. induction a; cbn [beq]; [reflexivity|]. rewrite N.eqb_refl, IHa. reflexivity. Qed.

Lemma beq_eq a b : beq a b = true <-> a = b.
Proof.
  split; [|intros ->; apply beq_refl].
  revert b; induction a as [|x a IH]; intros [|y b]; cbn [beq]; try discriminate; auto.
  intros H. apply andb_prop in H. destruct H as [H1 H2].
  apply N.eqb_eq in H1. subst. f_equal. auto.
Qed.

Lemma beq_neq a b : a <> b -> beq a b = false.
Proof. intros H. destruct (beq a b) eqn:E; [|reflexivity]. apply beq_eq in E. contradiction. Qed.

(* ---------- ASCII blanks ---------- *)
Lemma asp_cases b : asp b = true -> b = 9 \/ b = 10 \/ b = 11 \/ b = 12 \/ b = 13 \/ b = 32.
Proof.
  unfold asp. intros H. apply orb_prop in H. destruct H as [H|H].
  - apply andb_prop in H. destruct H as [H1 H2]. apply N.leb_le in H1, H2. lia.
  - apply N.eqb_eq in H. lia.
Qed.

Lemma asp_sp2_r a b : asp b = true -> sp2 a b = false.
Proof.
  intros H. apply asp_cases in H. unfold sp2.
  destruct H as [H|[H|[H|[H|[H|H]]]]]; subst; cbn; apply andb_false_r.
Qed.

Lemma asp_sp3_r a b c : asp c = true -> sp3 a b c = false.
Proof.
  intros H. apply asp_cases in H. unfold sp3.
  destruct H as [H|[H|[H|[H|[H|H]]]]]; subst; cbn; rewrite !andb_false_r; reflexivity.
Qed.

Lemma asp_sp3_m a b c : asp b = true -> sp3 a b c = false.
Proof.
  intros H. apply asp_cases in H. unfold sp3.
  destruct H as [H|[H|[H|[H|[H|H]]]]]; subst; cbn; rewrite !andb_false_r; reflexivity.
Qed.

Lemma asp_sp2_l a b : asp a = true -> sp2 a b = false.
Proof.
  intros H. apply asp_cases in H. unfold sp2.
  destruct H as [H|[H|[H|[H|[H|H]]]]]; subst; reflexivity.
Qed.

Lemma asp_sp3_l a b c : asp a = true -> sp3 a b c = false.
Proof.
  intros H. apply asp_cases in H. unfold sp3.
  destruct H as [H|[H|[H|[H|[H|H]]]]]; subst; reflexivity.
Qed.

(* ---------- "starts with a space" and one step of ltrim ---------- *)
Lemma ltrim_step s :
  ltrim s = match space_width s with O => s | k => ltrim (skipn k s) end.
Proof.
  destruct s as [|a [|b [|c r]]]; cbn [ltrim space_width skipn]; try reflexivity.
  - destruct (asp a); reflexivity.
  - destruct (asp a); [reflexivity|]. destruct (sp2 a b); reflexivity.
  - destruct (asp a); [reflexivity|]. destruct (sp2 a b); [reflexivity|].
    destruct (sp3 a b c); reflexivity.
Qed.

Lemma ltrim_rev_step s :
  ltrim_rev s = match space_width_rev s with O => s | k => ltrim_rev (skipn k s) end.
Proof.
  destruct s as [|a [|b [|c r]]]; cbn [ltrim_rev space_width_rev skipn]; try reflexivity.
  - destruct (asp a); reflexivity.
  - destruct (asp a); [reflexivity|]. destruct (sp2 b a); reflexivity.
  - destruct (asp a); [reflexivity|]. destruct (sp2 b a); [reflexivity|].
    destruct (sp3 c b a); reflexivity.
Qed.

Lemma space_width_le s : (space_width s <= length s)%nat.
Proof.
  destruct s as [|a [|b [|c r]]]; cbn [space_width length]; try lia.
  - destruct (asp a); lia.
  - destruct (asp a); [lia|]. destruct (sp2 a b); lia.
  - destruct (asp a); [lia|]. destruct (sp2 a b); [lia|]. destruct (sp3 a b c); lia.
Qed.

Lemma space_width_rev_le s : (space_width_rev s <= length s)%nat.
Proof.
  destruct s as [|a [|b [|c r]]]; cbn [space_width_rev length]; try lia.
  - destruct (asp a); lia.
  - destruct (asp a); [lia|]. destruct (sp2 b a); lia.
  - destruct (asp a); [lia|]. destruct (sp2 b a); [lia|]. destruct (sp3 c b a); lia.
Qed.

(* appending ASCII blanks to a non-empty string does not change how it starts *)
Lemma space_width_app s t :
  s <> [] -> forallb asp t = true -> space_width (s ++ t) = space_width s.
Proof.
  intros Hs Ht. destruct s as [|a [|b [|c r]]]; [contradiction| | |]; cbn [app space_width].
  - destruct (asp a); [reflexivity|]. destruct t as [|x [|y t']]; [reflexivity| |];
      cbn [forallb] in Ht; apply andb_prop in Ht; destruct Ht as [Hx Ht].
    + rewrite (asp_sp2_r a x Hx). reflexivity.
    + rewrite (asp_sp2_r a x Hx). rewrite (asp_sp3_m a x y Hx). reflexivity.
  - destruct (asp a); [reflexivity|]. destruct (sp2 a b); [reflexivity|].
    destruct t as [|x t']; [reflexivity|].
    cbn [forallb] in Ht; apply andb_prop in Ht; destruct Ht as [Hx Ht].
    rewrite (asp_sp3_r a b x Hx). reflexivity.
  - reflexivity.
Qed.

Lemma space_width_rev_app s t :
  s <> [] -> forallb asp t = true -> space_width_rev (s ++ t) = space_width_rev s.
Proof.
  intros Hs Ht. destruct s as [|a [|b [|c r]]]; [contradiction| | |]; cbn [app space_width_rev].
  - destruct (asp a); [reflexivity|]. destruct t as [|x [|y t']]; [reflexivity| |];
      cbn [forallb] in Ht; apply andb_prop in Ht; destruct Ht as [Hx Ht].
    + rewrite (asp_sp2_l x a Hx). reflexivity.
    + rewrite (asp_sp2_l x a Hx).
      apply andb_prop in Ht. destruct Ht as [Hy _].
      rewrite (asp_sp3_l y x a Hy). reflexivity.
  - destruct (asp a); [reflexivity|]. destruct (sp2 b a); [reflexivity|].
    destruct t as [|x t']; [reflexivity|].
    cbn [forallb] in Ht; apply andb_prop in Ht; destruct Ht as [Hx Ht].
    rewrite (asp_sp3_l x b a Hx). reflexivity.
  - reflexivity.
Qed.

(* ---------- blanks in front / behind ---------- *)
Lemma ltrim_blank_app b x : forallb asp b = true -> ltrim (b ++ x) = ltrim x.
Proof.
  induction b as [|a b IH]; intros H; [reflexivity|].
  cbn [forallb] in H. apply andb_prop in H. destruct H as [Ha Hb].
  cbn [app ltrim]. rewrite Ha. auto.
Qed.

Lemma ltrim_rev_blank_app b x : forallb asp b = true -> ltrim_rev (b ++ x) = ltrim_rev x.
Proof.
  induction b as [|a b IH]; intros H; [reflexivity|].
  cbn [forallb] in H. apply andb_prop in H. destruct H as [Ha Hb].
  cbn [app ltrim_rev]. rewrite Ha. auto.
Qed.

Lemma forallb_rev {A} (f : A -> bool) l : forallb f (rev l) = forallb f l.
Proof.
  induction l as [|a l IH]; [reflexivity|].
  cbn [rev forallb]. rewrite forallb_app, IH. cbn [forallb]. rewrite andb_true_r, andb_comm. reflexivity.
Qed.

Lemma rtrim_app_blank x b : forallb asp b = true -> rtrim (x ++ b) = rtrim x.
Proof.
  intros H. unfold rtrim. rewrite !frev_rev. rewrite rev_app_distr.
  rewrite ltrim_rev_blank_app; [reflexivity|]. rewrite forallb_rev. exact H.
Qed.

Lemma ltrim_blanks b : forallb asp b = true -> ltrim b = [].
Proof. intros H. rewrite <- (app_nil_r b). rewrite ltrim_blank_app by exact H. reflexivity. Qed.

Lemma trim_blanks b : forallb asp b = true -> trim b = [].
Proof. intros H. unfold trim. rewrite ltrim_blanks by exact H. reflexivity. Qed.

Lemma tight_nonempty s : tight s = true -> s <> [].
Proof. destruct s; [discriminate|discriminate]. Qed.

Lemma tight_widths s :
  tight s = true -> space_width s = O /\ space_width_rev (rev s) = O.
Proof.
  unfold tight. intros H. apply andb_prop in H. destruct H as [H H2].
  apply andb_prop in H. destruct H as [_ H1].
  apply Nat.eqb_eq in H1, H2. rewrite frev_rev in H2. auto.
Qed.

Lemma trim_wrap lead text trail :
  forallb asp lead = true -> forallb asp trail = true -> tight text = true ->
  trim (lead ++ text ++ trail) = text.
Proof.
  intros Hl Ht Hx. pose proof (tight_nonempty _ Hx) as Hne.
  destruct (tight_widths _ Hx) as [W1 W2].
  unfold trim. rewrite ltrim_blank_app by exact Hl.
  rewrite ltrim_step, space_width_app, W1 by assumption.
  rewrite rtrim_app_blank by exact Ht.
  unfold rtrim. rewrite !frev_rev. rewrite ltrim_rev_step, W2. apply rev_involutive.
Qed.

Lemma trim_wrap_opt lead text trail :
  forallb asp lead = true -> forallb asp trail = true -> (text = [] \/ tight text = true) ->
  trim (lead ++ text ++ trail) = text.
Proof.
  intros Hl Ht [->|Hx]; [|apply trim_wrap; assumption].
  cbn [app]. apply trim_blanks. rewrite forallb_app, Hl, Ht. reflexivity.
Qed.

(* the first byte of a tight string is not an ASCII blank, nor is the last *)
Lemma tight_head s a r : tight s = true -> s = a :: r -> asp a = false.
Proof.
  intros H ->. destruct (tight_widths _ H) as [W _]. cbn [space_width] in W.
  destruct (asp a); [discriminate|reflexivity].
Qed.

Lemma tight_last s x a : tight s = true -> s = x ++ [a] -> asp a = false.
Proof.
  intros H ->. destruct (tight_widths _ H) as [_ W]. rewrite rev_app_distr in W.
  cbn [rev app space_width_rev] in W. destruct (asp a); [discriminate|reflexivity].
Qed.

(* ---------- ltrim of x ++ [blank] (for dropCR) ---------- *)
Lemma skipn_app_le {A} k (x y : list A) : (k <= length x)%nat -> skipn k (x ++ y) = skipn k x ++ y.
Proof.
  revert x; induction k as [|k IH]; intros x H; [reflexivity|].
  destruct x as [|a x]; [cbn in H; lia|]. cbn [app skipn]. apply IH. cbn in H. lia.
Qed.

Lemma ltrim_app_blank1 x b :
  asp b = true -> ltrim (x ++ [b]) = match ltrim x with [] => [] | y => y ++ [b] end.
Proof.
  intros Hb.
  remember (length x) as n eqn:Hn. revert x Hn.
  induction n as [n IH] using lt_wf_ind. intros x Hn.
  destruct x as [|a x'].
  - cbn [app ltrim]. rewrite Hb. reflexivity.
  - set (x := a :: x') in *.
    assert (Hne : x <> []) by discriminate.
    rewrite (ltrim_step (x ++ [b])), (ltrim_step x).
    rewrite space_width_app by (auto; cbn [forallb]; rewrite Hb; reflexivity).
    pose proof (space_width_le x) as Hle.
    destruct (space_width x) as [|k] eqn:W.
    + subst x. reflexivity.
    + rewrite skipn_app_le by lia.
      apply (IH (length (skipn (S k) x))); [|reflexivity].
      rewrite skipn_length. subst n. lia.
Qed.

(* ---------- cut / split / join ---------- *)
Lemma cut_app sep a b : has sep a = false -> cut sep (a ++ sep :: b) = (a, b, true).
Proof.
  induction a as [|c a IH]; intros H; cbn [app cut].
  - rewrite N.eqb_refl. reflexivity.
  - cbn [has] in H. apply orb_false_elim in H. destruct H as [H1 H2].
    rewrite H1. rewrite IH by exact H2. reflexivity.
Qed.

Lemma cut_none sep a : has sep a = false -> cut sep a = (a, [], false).
Proof.
  induction a as [|c a IH]; intros H; cbn [cut]; [reflexivity|].
  cbn [has] in H. apply orb_false_elim in H. destruct H as [H1 H2].
  rewrite H1. rewrite IH by exact H2. reflexivity.
Qed.

Lemma has_app c a b : has c (a ++ b) = has c a || has c b.
Proof. induction a as [|x a IH]; [reflexivity|]. cbn [app has]. rewrite IH, orb_assoc. reflexivity. Qed.

Lemma split_nonempty sep s : split sep s <> [].
Proof.
  induction s as [|c r IH]; cbn [split]; [discriminate|].
  destruct (N.eqb c sep); [discriminate|]. destruct (split sep r); [contradiction|discriminate].
Qed.

Lemma split_app sep a b : has sep a = false -> split sep (a ++ sep :: b) = a :: split sep b.
Proof.
  induction a as [|c a IH]; intros H; cbn [app split].
  - rewrite N.eqb_refl. reflexivity.
  - cbn [has] in H. apply orb_false_elim in H. destruct H as [H1 H2].
    rewrite H1. rewrite IH by exact H2. reflexivity.
Qed.

Lemma split_none sep a : has sep a = false -> split sep a = [a].
Proof.
  induction a as [|c a IH]; intros H; cbn [split]; [reflexivity|].
  cbn [has] in H. apply orb_false_elim in H. destruct H as [H1 H2].
  rewrite H1. rewrite IH by exact H2. reflexivity.
Qed.

Lemma join_split sep s : join sep (split sep s) = s.
Proof.
  induction s as [|c r IH]; [reflexivity|]. cbn [split].
  destruct (N.eqb_spec c sep) as [->|Hne].
  - pose proof (split_nonempty sep r) as Hn.
    destruct (split sep r) as [|h t] eqn:E; [contradiction|].
    change (join sep ([] :: h :: t)) with ([] ++ sep :: join sep (h :: t)).
    rewrite IH. reflexivity.
  - pose proof (split_nonempty sep r) as Hn.
    destruct (split sep r) as [|h t] eqn:E; [contradiction|].
    destruct t as [|h2 t2].
    + cbn [join] in *. subst. reflexivity.
    + change (join sep ((c :: h) :: h2 :: t2)) with ((c :: h) ++ sep :: join sep (h2 :: t2)).
      change (join sep (h :: h2 :: t2)) with (h ++ sep :: join sep (h2 :: t2)) in IH.
      cbn [app]. rewrite IH. reflexivity.
Qed.

(* ---------- nlen, last, removelast ---------- *)
Lemma nlen_length {A} (l : list A) : nlen l = N.of_nat (length l).
Proof. induction l as [|a l IH]; [reflexivity|]. cbn [nlen length]. rewrite IH. lia. Qed.

Lemma last_snoc {A} (l : list A) a d : last (l ++ [a]) d = a.
Proof. apply last_last. Qed.

Lemma removelast_snoc {A} (l : list A) a : removelast (l ++ [a]) = l.
Proof. apply removelast_last. Qed.
