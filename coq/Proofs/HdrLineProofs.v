(* Proofs about Model/HdrLine.v (property C09: header line syntax). *)
From Coq Require Import List NArith Bool Lia.
From PV Require Import Model.Headers Model.HdrLine.
Import ListNotations.
Local Open Scope N_scope.

Definition blanks (p : str) : Prop := Forall (fun c => is_space c = true) p.
(* s neither starts nor ends with white space *)
Definition edges_ok (s : str) : Prop :=
  (forall c r, s = c :: r -> is_space c = false) /\ (forall c r, rev s = c :: r -> is_space c = false).
Definition no_colon (s : str) : Prop := Forall (fun c => (c =? 58) = false) s.

Lemma trim_left_blanks : forall p s, blanks p -> trim_left (p ++ s) = trim_left s.
Proof.
  induction p as [|c p IH]; intros s H; [reflexivity|].
  inversion H; subst. cbn [app trim_left]. rewrite H2. apply IH. assumption.
Qed.

Lemma trim_left_edge : forall s, (forall c r, s = c :: r -> is_space c = false) -> trim_left s = s.
Proof. intros [|c r] H; [reflexivity|]. cbn. rewrite (H c r eq_refl). reflexivity. Qed.

Lemma blanks_rev : forall p, blanks p -> blanks (rev p).
Proof. intros p H. unfold blanks in *. rewrite Forall_forall in *. intros x Hx. apply H. apply in_rev. exact Hx. Qed.

Lemma trim_space_padded : forall p s q, blanks p -> blanks q -> edges_ok s -> trim_space (p ++ s ++ q) = s.
Proof.
  intros p s q Hp Hq [Hl Hr]. unfold trim_space.
  rewrite trim_left_blanks by assumption.
  destruct s as [|c r].
  - cbn [app]. assert (E : trim_left q = []).
    { clear -Hq. induction q as [|x q IH]; [reflexivity|]. inversion Hq; subst. cbn. rewrite H1. apply IH. assumption. }
    rewrite E. reflexivity.
  - cbn [app trim_left]. rewrite (Hl c r eq_refl).
    change (c :: r ++ q) with ((c :: r) ++ q). rewrite rev_app_distr.
    rewrite trim_left_blanks by (apply blanks_rev; assumption).
    rewrite trim_left_edge by exact Hr. apply rev_involutive.
Qed.

Lemma cut_no_sep : forall a b, no_colon a -> cut 58 (a ++ 58 :: b) = Some (a, b).
Proof.
  induction a as [|c a IH]; intros b H.
  - reflexivity.
  - inversion H; subst. cbn [app cut]. rewrite H2, IH by assumption. reflexivity.
Qed.

Lemma blanks_no_colon : forall p, blanks p -> no_colon p.
Proof.
  intros p H. unfold blanks, no_colon in *. rewrite Forall_forall in *. intros x Hx. specialize (H x Hx).
  destruct (N.eqb_spec x 58) as [->|]; [discriminate H|reflexivity].
Qed.

Lemma no_colon_app : forall a b, no_colon a -> no_colon b -> no_colon (a ++ b).
Proof. intros. apply Forall_app. split; assumption. Qed.

(* whatever blanks surround the key and the value, the line decodes to exactly (key, value) *)
Lemma decode_header_line : forall p1 k p2 p3 v p4,
  blanks p1 -> blanks p2 -> blanks p3 -> blanks p4 ->
  k <> [] -> no_colon k -> edges_ok k -> edges_ok v ->
  decode_header (header_line p1 k p2 p3 v p4) = Some (k, v).
Proof.
  intros p1 k p2 p3 v p4 H1 H2 H3 H4 Hk Hc Ek Ev.
  unfold header_line, decode_header. cbn [app].
  replace (p1 ++ k ++ p2 ++ 58 :: p3 ++ v ++ p4 ++ [93]) with ((p1 ++ k ++ p2 ++ 58 :: p3 ++ v ++ p4) ++ [93])
    by (repeat rewrite <- app_assoc; cbn [app]; repeat rewrite <- app_assoc; reflexivity).
  rewrite rev_app_distr. cbn [rev app]. rewrite rev_involutive.
  replace (p1 ++ k ++ p2 ++ 58 :: p3 ++ v ++ p4) with ((p1 ++ k ++ p2) ++ 58 :: (p3 ++ v ++ p4))
    by (repeat rewrite <- app_assoc; reflexivity).
  rewrite cut_no_sep by (repeat apply no_colon_app; auto using blanks_no_colon).
  rewrite !trim_space_padded by assumption.
  destruct k; [congruence|reflexivity].
Qed.

(* and it is the FIRST colon that separates: a value may contain colons *)
Lemma decode_header_first_colon : forall k v, k <> [] -> no_colon k -> edges_ok k -> edges_ok v ->
  decode_header ([91] ++ k ++ [58] ++ v ++ [93]) = Some (k, v).
Proof.
  intros k v Hk Hc Ek Ev.
  apply (decode_header_line [] k [] [] v []); try (apply Forall_nil); assumption.
Qed.

