(* C02, nested composites: a SOLO run of the nested sections is the sequential semantics.

   The write sections of Model/SchedNested.v (as those of Model/SchedConc.v) call the child with the
   sequential s_start / s_next of Model/SchedTree.v.  That is justified by the write lock: no other
   thread is anywhere below the composite, so the child operation runs alone.  This file proves
   that a child operation running alone - the nested steps of a single thread, others = 0, one
   clock value - returns exactly what s_next / s_left return, and leaves exactly the same tree:
   [solo_next], [solo_left].  So nothing is lost by writing s_next inside the write section
   instead of unfolding the child's own sections there. *)
From Coq Require Import List ZArith Bool Arith Lia.
From PV Require Import Model.SchedTree Model.SchedConc Model.SchedNested
  Proofs.SchedTreeProofs Proofs.SchedTreeSeq Proofs.SchedTreeRun Proofs.SchedConcSections
  Proofs.SchedConcProofs Proofs.SchedNestedSections Proofs.SchedNestedSteps.
Import ListNotations.
Local Open Scope Z_scope.

(* ---------- more fuel does not change a result ---------- *)
Lemma s_next_mono : forall f f' now s x, s_next f now s = Ok x -> (f <= f')%nat -> s_next f' now s = Ok x.
Proof.
  induction f as [|f IH]; intros f' now s x H L; [discriminate|].
  destruct f' as [|f']; [lia|]. assert (L' : (f <= f')%nat) by lia.
  destruct s as [n d a i st|d fin|l la cs]; [exact H|exact H|].
  cbn [s_next] in *. destruct l as [|h r]; [exact H|].
  apply bind_ok in H. destruct H as ([[h' tx] okh] & E1 & H).
  rewrite (IH f' now h _ E1 L'). cbn [bind]. destruct okh; [exact H|].
  destruct r as [|h2 r2]; [exact H|].
  apply bind_ok in H. destruct H as (h2s & E2 & H). rewrite E2. cbn [bind].
  apply bind_ok in H. destruct H as ([[h2' tx2] ok2] & E3 & H).
  rewrite (IH f' now h2s _ E3 L'). cbn [bind].
  destruct (negb ok2 && (1 <? length (h :: h2 :: r2))%nat); [apply (IH f' now _ _ H L')|exact H].
Qed.

Lemma s_left_mono : forall f f' now s x, s_left f now s = Ok x -> (f <= f')%nat -> s_left f' now s = Ok x.
Proof.
  induction f as [|f IH]; intros f' now s x H L; [discriminate|].
  destruct f' as [|f']; [lia|]. assert (L' : (f <= f')%nat) by lia.
  destruct s as [n d a i st|d fin|l la cs]; [exact H|exact H|].
  cbn [s_left] in *. destruct l as [|h r]; [exact H|]. destruct la as [|la0 la']; [exact H|].
  apply bind_ok in H. destruct H as ([h' lft] & E1 & H).
  rewrite (IH f' now h _ E1 L'). cbn [bind].
  destruct r as [|h2 r2]; [exact H|].
  destruct (lft =? 0); [|exact H]. destruct (0 <=? la0); [exact H|]. destruct (negb cs); [exact H|].
  apply bind_ok in H. destruct H as ([[h'' fin] ok] & E2 & H).
  rewrite (s_next_mono f f' now h' _ E2 L'). cbn [bind]. destruct ok; [exact H|].
  apply bind_ok in H. destruct H as (h2s & E3 & H). rewrite E3. cbn [bind].
  apply (IH f' now _ _ H L').
Qed.

Lemma wf_cs h r la cs : wf (Comp (h :: r) la cs) -> cs = sflag h.
Proof.
  intros W; inversion W as [| |? ? ? Wh Fr Hf Hs]; subst. destruct cs.
  - symmetry. apply started_sflag. auto.
  - symmetry. apply fresh_sflag. auto.
Qed.

Section Solo.
  Variable fuel : nat.
  Variable now : Z.

  (* steps of a lone thread that do not return *)
  Inductive gsteps (o : op) : npc -> sched -> npc -> sched -> Prop :=
  | gs_refl q c : gsteps o q c q c
  | gs_step q c q1 c1 q' c' :
      nsec fuel now o 0 q c = Some (Ok (c1, NGoto q1)) -> gsteps o q1 c1 q' c' -> gsteps o q c q' c'.

  Definition is_ret (out : nout) : Prop := match out with NGoto _ => False | _ => True end.

  (* the lone thread runs from pc q on tree c until its operation returns [out], leaving c' *)
  Definition solo (o : op) (q : npc) (c c' : sched) (out : nout) : Prop :=
    exists q1 c1, gsteps o q c q1 c1 /\ nsec fuel now o 0 q1 c1 = Some (Ok (c', out)) /\ is_ret out.

  Lemma gsteps_trans o q c q1 c1 q2 c2 : gsteps o q c q1 c1 -> gsteps o q1 c1 q2 c2 -> gsteps o q c q2 c2.
  Proof. induction 1; intros G; [exact G|]. eapply gs_step; eauto. Qed.

  Lemma gsteps_snoc o q c q1 c1 q2 c2 :
    gsteps o q c q1 c1 -> nsec fuel now o 0 q1 c1 = Some (Ok (c2, NGoto q2)) -> gsteps o q c q2 c2.
  Proof. intros G E. eapply gsteps_trans; [exact G|]. eapply gs_step; [exact E|constructor]. Qed.

  (* solo runs are deterministic: nsec is a function *)
  Lemma solo_det o q c c1 out1 c2 out2 : solo o q c c1 out1 -> solo o q c c2 out2 -> c1 = c2 /\ out1 = out2.
  Proof.
    intros (qa & ca & Ga & Ea & Ra) (qb & cb & Gb & Eb & Rb).
    revert qb cb Gb Eb. induction Ga as [q c|q c q1' c1' q' c' E G IH]; intros qb cb Gb Eb.
    - inversion Gb as [|? ? ? ? ? ? E' G']; subst.
      + rewrite Ea in Eb. inversion Eb; auto.
      + rewrite Ea in E'. inversion E'; subst. destruct Ra.
    - inversion Gb as [|? ? ? ? ? ? E' G']; subst.
      + rewrite E in Eb. inversion Eb; subst. destruct Rb.
      + rewrite E in E'. inversion E'; subst. eapply IH; eauto.
  Qed.

  (* ---------- well-formedness along a solo run ---------- *)
  Definition good (c : sched) (q : npc) : Prop :=
    wf c /\ comp_len c <> 0%nat /\ (size c <= S fuel)%nat /\ Jq now c q.

  Lemma good_step o q c c1 out : good c q -> nsec fuel now o 0 q c = Some (Ok (c1, out)) ->
    wf c1 /\ comp_len c1 <> 0%nat /\ (size c1 <= S fuel)%nat /\
    (forall q1, out = NGoto q1 -> Jq now c1 q1) /\ (fresh c -> o = OLeft -> c1 = c).
  Proof.
    intros (W & NZ & Sz & J) E.
    destruct (comp_len_inv c NZ) as (h & r & la & cs & ->).
    destruct (wf_comp_sf _ _ _ W) as [St|F].
    - destruct (nsec_S fuel q _ now now o 0%nat _ W St NZ Sz (Z.le_refl _) J E)
        as (c' & out' & Eq & W' & S' & NZ' & Sz' & _ & _ & M).
      inversion Eq; subst c' out'. split; [exact W'|]. split; [exact NZ'|]. split; [lia|]. split.
      + intros q1 ->. exact (proj2 M).
      + intros F. destruct (fresh_not_started _ F St).
    - destruct (nsec_F fuel q _ now now o 0%nat _ F NZ Sz J E)
        as (c' & out' & Eq & W' & NZ' & Sz' & _ & M).
      inversion Eq; subst c' out'. split; [exact W'|]. split; [exact NZ'|]. split; [lia|]. split.
      + intros q1 ->. exact (proj1 M).
      + intros _ ->. destruct out as [q1|t ok|v].
        * destruct M as [_ [E1|(Eo & _)]]; [exact E1|discriminate].
        * destruct M as (Eo & _). discriminate.
        * destruct M as (_ & E1 & _). exact E1.
  Qed.

  Lemma good_gsteps o q c q' c' : gsteps o q c q' c' -> good c q -> good c' q'.
  Proof.
    induction 1 as [|q c q1 c1 q' c' E G IH]; intros Gd; [exact Gd|].
    apply IH. destruct (good_step o q c c1 _ Gd E) as (W & NZ & Sz & J & _).
    repeat split; auto.
  Qed.

  Lemma gsteps_left_fresh q c q' c' : gsteps OLeft q c q' c' -> good c q -> fresh c -> c' = c.
  Proof.
    induction 1 as [|q c q1 c1 q' c' E G IH]; intros Gd F; [reflexivity|].
    destruct (good_step OLeft q c c1 _ Gd E) as (W & NZ & Sz & J & Same).
    pose proof (Same F eq_refl) as ->. apply IH; [repeat split; auto|exact F].
  Qed.

  (* the run of the child, seen from the parent that holds its read lock *)
  Lemma gsteps_in o q h q' h' : gsteps o q h q' h' -> forall r la cs,
    exists cs', gsteps o (QIn q) (Comp (h :: r) la cs) (QIn q') (Comp (h' :: r) la cs') /\ (cs = true -> cs' = true).
  Proof.
    induction 1 as [q h|q h q1 h1 q' h' E G IH]; intros r la cs.
    - exists cs. split; [constructor|auto].
    - destruct (IH r la (cs || sflag h1)) as (cs' & G' & Hc).
      exists cs'. split.
      + eapply gs_step; [|exact G']. cbn [nsec pred]. rewrite E. reflexivity.
      + intros ->. apply Hc. reflexivity.
  Qed.

  Lemma good_head h r la cs q : good (Comp (h :: r) la cs) q -> is_comp h = true -> good h QIdle.
  Proof.
    intros (W & NZ & Sz & J) IC. assert (Wh : wf h) by (inversion W; auto).
    split; [exact Wh|]. split; [apply is_comp_len; assumption|]. split; [|exact I].
    rewrite size_comp, sizel_cons in Sz. lia.
  Qed.

  (* ---------- Next ---------- *)
  Theorem solo_next : forall f c c' t ok,
    (f <= S fuel)%nat -> good c QIdle -> s_next f now c = Ok (c', t, ok) ->
    solo ONext QIdle c c' (NRetN t ok).
  Proof.
    induction f as [|f IH]; intros c c' t ok Lf Gd H; [discriminate|].
    pose proof Gd as (W & NZ & Sz & _).
    destruct (comp_len_inv c NZ) as (h & r & la & cs & ->).
    cbn [s_next] in H. apply bind_ok in H. destruct H as ([[h' tx] okh] & E1 & H).
    assert (Lf' : (f <= fuel)%nat) by lia.
    (* the read section, up to the step in which the child's Next returns *)
    assert (RP : exists q1 c1, gsteps ONext QIdle (Comp (h :: r) la cs) q1 c1 /\
                   nsec fuel now ONext 0 q1 c1 = Some (Ok (next0_exit h' r la tx okh))).
    { destruct (is_comp h) eqn:IC.
      - destruct (IH h h' tx okh ltac:(lia) (good_head _ _ _ _ _ Gd IC) E1) as (q2 & h2 & G2 & E2 & _).
        destruct (gsteps_in ONext _ _ _ _ G2 r la cs) as (cs' & G2' & _).
        exists (QIn q2), (Comp (h2 :: r) la cs'). split.
        + eapply gs_step; [|exact G2']. cbn [nsec]. rewrite IC. reflexivity.
        + cbn [nsec pred]. rewrite E2. reflexivity.
      - exists QIdle, (Comp (h :: r) la cs). split; [constructor|].
        cbn [nsec]. rewrite IC, sec_next0_exit, (s_next_mono f fuel now h _ E1 Lf'). reflexivity. }
    destruct RP as (q1 & c1 & G1 & Ex).
    pose proof (good_gsteps _ _ _ _ _ G1 Gd) as Gd1.
    unfold next0_exit in Ex. destruct okh.
    - inversion H; subst. exists q1, c1. split; [exact G1|]. split; [exact Ex|exact I].
    - destruct r as [|h2 r2]; cbn [length Nat.eqb] in Ex.
      + inversion H; subst. exists q1, c1. split; [exact G1|]. split; [exact Ex|exact I].
      + set (k := S (S (length r2))) in *. set (c2 := Comp (h' :: h2 :: r2) la true) in *.
        pose proof (gsteps_snoc _ _ _ _ _ _ _ G1 Ex) as G2.
        pose proof (good_gsteps _ _ _ _ _ G2 Gd) as Gd2.
        apply bind_ok in H. destruct H as (h2s & E2 & H).
        apply bind_ok in H. destruct H as ([[h2' tx2] ok2] & E3 & H).
        assert (Ew : nsec fuel now ONext 0 (QN1 tx k) c2 =
                     Some (if negb ok2 && (1 <? k)%nat
                           then Ok (Comp (h2' :: r2) (tl la) true, NGoto QIdle)
                           else Ok (Comp (h2' :: r2) (tl la) true, NRetN tx2 ok2))).
        { unfold c2. cbn [nsec Nat.eqb]. unfold sec_next1. cbn [comp_len length]. fold k.
          rewrite Nat.ltb_irrefl. cbn [shift]. rewrite E2. cbn [bind].
          rewrite (s_next_mono f fuel now h2s _ E3 Lf'). cbn [bind].
          destruct (negb ok2 && (1 <? k)%nat); reflexivity. }
        change (length (h :: h2 :: r2)) with k in H.
        destruct (negb ok2 && (1 <? k)%nat).
        * (* "Okay, just retry." *)
          pose proof (gsteps_snoc _ _ _ _ _ _ _ G2 Ew) as G3.
          pose proof (good_gsteps _ _ _ _ _ G3 Gd) as Gd3.
          destruct (IH _ c' t ok ltac:(lia) Gd3 H) as (q4 & c4 & G4 & E4 & R4).
          exists q4, c4. split; [eapply gsteps_trans; eauto|]. split; [exact E4|exact R4].
        * inversion H; subst. exists (QN1 tx k), c2. split; [exact G2|]. split; [exact Ew|exact I].
  Qed.

  (* ---------- Left ---------- *)
  Theorem solo_left : forall f c c' v,
    (f <= S fuel)%nat -> good c QIdle -> s_left f now c = Ok (c', v) ->
    solo OLeft QIdle c c' (NRetL v).
  Proof.
    induction f as [|f IH]; intros c c' v Lf Gd H; [discriminate|].
    pose proof Gd as (W & NZ & Sz & _).
    destruct (comp_len_inv c NZ) as (h & r & la & cs & ->).
    cbn [s_left] in H. destruct la as [|la0 la']; [discriminate|].
    apply bind_ok in H. destruct H as ([h' lft] & E1 & H).
    assert (Lf' : (f <= fuel)%nat) by lia.
    assert (RP : exists q1 c1, gsteps OLeft QIdle (Comp (h :: r) (la0 :: la') cs) q1 c1 /\
                   nsec fuel now OLeft 0 q1 c1 = Some (left0_exit h' r (la0 :: la') cs lft)).
    { destruct (is_comp h) eqn:IC.
      - pose proof (good_head _ _ _ _ _ Gd IC) as Gh.
        destruct (IH h h' lft ltac:(lia) Gh E1) as (q2 & h2 & G2 & E2 & _).
        destruct (gsteps_in OLeft _ _ _ _ G2 r (la0 :: la') cs) as (cs' & G2' & Hc).
        assert (G0 : gsteps OLeft QIdle (Comp (h :: r) (la0 :: la') cs) (QIn q2) (Comp (h2 :: r) (la0 :: la') cs')).
        { eapply gs_step; [|exact G2']. cbn [nsec]. rewrite IC. reflexivity. }
        (* the started flag seen at the end of the read section is the one seen at its beginning *)
        assert (Ecs : cs' = cs).
        { destruct cs; [apply Hc; reflexivity|].
          pose proof (good_gsteps _ _ _ _ _ G0 Gd) as (W2 & _).
          rewrite (wf_cs _ _ _ _ W2).
          assert (Fh : fresh h) by (inversion W; auto).
          rewrite (gsteps_left_fresh _ _ _ _ G2 Gh Fh). apply fresh_sflag. exact Fh. }
        subst cs'.
        exists (QIn q2), (Comp (h2 :: r) (la0 :: la') cs). split; [exact G0|].
        cbn [nsec pred]. rewrite E2. reflexivity.
      - exists QIdle, (Comp (h :: r) (la0 :: la') cs). split; [constructor|].
        cbn [nsec]. rewrite IC, sec_left0_exit, (s_left_mono f fuel now h _ E1 Lf'). reflexivity. }
    destruct RP as (q1 & c1 & G1 & Ex).
    unfold left0_exit in Ex.
    destruct r as [|h2 r2]; cbn [length Nat.eqb] in Ex.
    - inversion H; subst. exists q1, c1. split; [exact G1|]. split; [exact Ex|exact I].
    - destruct (lft =? 0).
      + destruct (0 <=? la0).
        * inversion H; subst. exists q1, c1. split; [exact G1|]. split; [exact Ex|exact I].
        * destruct cs; cbn [negb] in *.
          -- set (k := S (S (length r2))) in *. set (c2 := Comp (h' :: h2 :: r2) (la0 :: la') true) in *.
             pose proof (gsteps_snoc _ _ _ _ _ _ _ G1 Ex) as G2.
             apply bind_ok in H. destruct H as ([[h'' fin] ok] & E2 & H).
             destruct ok; [discriminate|].
             apply bind_ok in H. destruct H as (h2s & E3 & H).
             assert (Ew : nsec fuel now OLeft 0 (QL1 k) c2 =
                          Some (Ok (Comp (h2s :: r2) la' true, NGoto QIdle))).
             { unfold c2. cbn [nsec Nat.eqb]. unfold sec_left1. cbn [comp_len length]. fold k.
               rewrite Nat.eqb_refl. rewrite (s_next_mono f fuel now h' _ E2 Lf'). cbn [bind shift].
               rewrite E3. reflexivity. }
             pose proof (gsteps_snoc _ _ _ _ _ _ _ G2 Ew) as G3.
             pose proof (good_gsteps _ _ _ _ _ G3 Gd) as Gd3.
             destruct (IH _ c' v ltac:(lia) Gd3 H) as (q4 & c4 & G4 & E4 & R4).
             exists q4, c4. split; [eapply gsteps_trans; eauto|]. split; [exact E4|exact R4].
          -- inversion H; subst. exists q1, c1. split; [exact G1|]. split; [exact Ex|exact I].
      + destruct ((lft <? 0) || (la0 <? 0));
          inversion H; subst; exists q1, c1; (split; [exact G1|]); (split; [exact Ex|exact I]).
  Qed.
End Solo.
