(* Lemmas about the request-list grammar (ParseStringFunc / ParseShootName), property C15. *)
From Coq Require Import List NArith ZArith Bool Lia.
From PV Require Import Model.Iterator Model.Scenario.
Import ListNotations.

Definition blanks (l : bytes) : Prop := Forall (fun c => is_space c = true) l.

Definition nb_head (s : bytes) : Prop :=
  match s with [] => True | c :: _ => is_space c = false end.

(* no blank at either end *)
Definition tight (s : bytes) : Prop := nb_head s /\ nb_head (rev s).

Lemma seg_eqb_refl a : seg_eqb a a = true.
Proof. induction a as [|x a IH]; cbn [seg_eqb]; [reflexivity|]. rewrite N.eqb_refl, IH. reflexivity. Qed.

Lemma seg_eqb_eq a b : seg_eqb a b = true <-> a = b.
Proof.
  split.
  - revert b; induction a as [|x a IH]; intros [|y b]; cbn [seg_eqb]; try discriminate; [reflexivity|].
    intros H. apply andb_prop in H. destruct H as [H1 H2]. apply N.eqb_eq in H1. apply IH in H2. congruence.
  - intros ->. apply seg_eqb_refl.
Qed.

Lemma beq_eq a b : beq a b = true <-> a = b.
Proof. apply seg_eqb_eq. Qed.

Lemma beq_refl a : beq a a = true.
Proof. apply seg_eqb_refl. Qed.

Lemma beq_neq a b : a <> b -> beq a b = false.
Proof. intros H. destruct (beq a b) eqn:E; [|reflexivity]. apply beq_eq in E. contradiction. Qed.

(* ---------- break_at ---------- *)

Lemma break_at_app c a b : ~ In c a -> break_at c (a ++ c :: b) = Some (a, b).
Proof.
  induction a as [|x a IH]; intros H; cbn [app break_at].
  - rewrite N.eqb_refl. reflexivity.
  - destruct (N.eqb_spec x c) as [->|Hne]; [exfalso; apply H; left; reflexivity|].
    rewrite IH; [reflexivity|]. intros Hin; apply H; right; exact Hin.
Qed.

Lemma break_at_none c s : ~ In c s -> break_at c s = None.
Proof.
  induction s as [|x s IH]; intros H; cbn [break_at]; [reflexivity|].
  destruct (N.eqb_spec x c) as [->|Hne]; [exfalso; apply H; left; reflexivity|].
  rewrite IH; [reflexivity|]. intros Hin; apply H; right; exact Hin.
Qed.

(* ---------- split ---------- *)

Lemma split_none sep s : ~ In sep s -> split sep s = [s].
Proof.
  induction s as [|x s IH]; intros H; cbn [split]; [reflexivity|].
  destruct (N.eqb_spec x sep) as [->|Hne]; [exfalso; apply H; left; reflexivity|].
  rewrite IH; [reflexivity|]. intros Hin; apply H; right; exact Hin.
Qed.

Lemma split_app sep a b : ~ In sep a -> split sep (a ++ sep :: b) = a :: split sep b.
Proof.
  induction a as [|x a IH]; intros H; cbn [app split].
  - rewrite N.eqb_refl. reflexivity.
  - destruct (N.eqb_spec x sep) as [->|Hne]; [exfalso; apply H; left; reflexivity|].
    rewrite IH; [reflexivity|]. intros Hin; apply H; right; exact Hin.
Qed.

(* ---------- trim ---------- *)

Lemma trim_left_blanks a : blanks a -> trim_left a = [].
Proof. induction 1 as [|c a Hc _ IH]; cbn [trim_left]; [reflexivity|]. rewrite Hc. exact IH. Qed.

Lemma trim_left_blanks_app a r : blanks a -> trim_left (a ++ r) = trim_left r.
Proof. induction 1 as [|c a Hc _ IH]; cbn [app trim_left]; [reflexivity|]. rewrite Hc. exact IH. Qed.

Lemma trim_left_nb s : nb_head s -> trim_left s = s.
Proof. destruct s as [|c s]; cbn [nb_head trim_left]; [reflexivity|]. intros ->. reflexivity. Qed.

Lemma trim_left_mid a c r : is_space c = false -> trim_left (a ++ c :: r) = trim_left a ++ c :: r.
Proof.
  intros Hc. induction a as [|x a IH]; cbn [app trim_left].
  - rewrite Hc. reflexivity.
  - destruct (is_space x); [exact IH|reflexivity].
Qed.

Lemma trim_left_nb_head s : nb_head (trim_left s).
Proof.
  induction s as [|c s IH]; cbn [trim_left]; [exact I|].
  destruct (is_space c) eqn:E; [exact IH|]. cbn [nb_head]. exact E.
Qed.

Lemma trim_left_idem s : trim_left (trim_left s) = trim_left s.
Proof. apply trim_left_nb, trim_left_nb_head. Qed.

Lemma trim_left_incl c s : In c (trim_left s) -> In c s.
Proof.
  induction s as [|x s IH]; cbn [trim_left]; [tauto|].
  destruct (is_space x); [intros H; right; apply IH, H|tauto].
Qed.

Lemma blanks_rev a : blanks a -> blanks (rev a).
Proof. intros H. apply Forall_rev. exact H. Qed.

Lemma trim_right_blanks a : blanks a -> trim_right a = [].
Proof. intros H. unfold trim_right. rewrite trim_left_blanks; [reflexivity|apply blanks_rev, H]. Qed.

Lemma trim_right_mid a c r : is_space c = false -> trim_right (a ++ c :: r) = a ++ c :: trim_right r.
Proof.
  intros Hc. unfold trim_right. rewrite rev_app_distr. cbn [rev]. rewrite <- app_assoc. cbn [app].
  rewrite trim_left_mid by exact Hc. rewrite rev_app_distr. cbn [rev]. rewrite rev_involutive.
  rewrite <- app_assoc. reflexivity.
Qed.

Lemma trim_right_incl c s : In c (trim_right s) -> In c s.
Proof.
  unfold trim_right. intros H. apply in_rev in H. apply trim_left_incl in H. apply in_rev in H. exact H.
Qed.

Lemma trim_mid a c r : is_space c = false -> trim (a ++ c :: r) = trim_left a ++ c :: trim_right r.
Proof. intros Hc. unfold trim. rewrite trim_left_mid by exact Hc. apply trim_right_mid, Hc. Qed.

Lemma trim_nil : trim [] = [].
Proof. reflexivity. Qed.

Lemma tight_cases m : tight m -> m = [] \/ exists c m', m = c :: m' /\ is_space c = false /\ nb_head (rev (c :: m')).
Proof.
  intros [H1 H2]. destruct m as [|c m']; [left; reflexivity|right].
  exists c, m'. repeat split; assumption.
Qed.

(* the core of a blank-padded string *)
Lemma trim_core x m y : blanks x -> blanks y -> tight m -> trim (x ++ m ++ y) = m.
Proof.
  intros Hx Hy Hm. destruct (tight_cases m Hm) as [->|(c & m' & -> & Hc & Hr)].
  - cbn [app]. unfold trim. rewrite trim_left_blanks; [reflexivity|]. apply Forall_app; split; assumption.
  - unfold trim. rewrite trim_left_blanks_app by exact Hx.
    rewrite trim_left_nb by (cbn [app nb_head]; exact Hc).
    unfold trim_right. rewrite rev_app_distr. rewrite trim_left_blanks_app by (apply blanks_rev, Hy).
    rewrite trim_left_nb by exact Hr. apply rev_involutive.
Qed.

Lemma trim_tight m : tight m -> trim m = m.
Proof. intros H. pose proof (trim_core [] m [] (Forall_nil _) (Forall_nil _) H) as E. cbn [app] in E. rewrite app_nil_r in E. exact E. Qed.

Lemma trim_left_then_trim s : trim (trim_left s) = trim s.
Proof. unfold trim. rewrite trim_left_idem. reflexivity. Qed.

(* trim_right of a padded core *)
Lemma trim_right_core x m y : blanks x -> blanks y -> tight m -> trim (trim_right (x ++ m ++ y)) = m.
Proof.
  intros Hx Hy Hm. destruct (tight_cases m Hm) as [->|(c & m' & -> & Hc & Hr)].
  - cbn [app]. rewrite trim_right_blanks; [reflexivity|]. apply Forall_app; split; assumption.
  - (* last character of the core is not a blank *)
    destruct (exists_last (l := c :: m') ltac:(discriminate)) as (m0 & d & E).
    assert (Hd : is_space d = false).
    { rewrite E in Hr. rewrite rev_app_distr in Hr. cbn [rev app nb_head] in Hr. exact Hr. }
    rewrite E. rewrite <- !app_assoc. cbn [app].
    replace (x ++ m0 ++ d :: y) with ((x ++ m0) ++ d :: y) by (rewrite <- app_assoc; reflexivity).
    rewrite trim_right_mid by exact Hd. rewrite trim_right_blanks by exact Hy.
    rewrite <- app_assoc. rewrite <- E.
    pose proof (trim_core x (c :: m') [] Hx (Forall_nil _) Hm) as T. rewrite app_nil_r in T. exact T.
Qed.

(* ---------- integer literals ---------- *)

Definition digits (ds : bytes) : Prop := Forall (fun c => is_digit c = true) ds.

Definition dval (ds : bytes) : Z := fold_left (fun a c => (a * 10 + Z.of_N (c - 48))%Z) ds 0%Z.

Lemma digits_val_fold ds acc : digits ds ->
  digits_val acc ds = Some (fold_left (fun a c => (a * 10 + Z.of_N (c - 48))%Z) ds acc).
Proof.
  intros H. revert acc. induction H as [|c ds Hc _ IH]; intros acc; cbn [digits_val fold_left]; [reflexivity|].
  rewrite Hc. apply IH.
Qed.

(* a literal: optional sign, at least one digit, value within int64; or empty = default *)
Inductive is_lit (dflt : Z) : bytes -> Z -> Prop :=
| lit_empty : is_lit dflt [] dflt
| lit_plain ds : ds <> [] -> digits ds -> (dval ds <= int64_max)%Z -> is_lit dflt ds (dval ds)
| lit_plus ds : ds <> [] -> digits ds -> (dval ds <= int64_max)%Z -> is_lit dflt (43%N :: ds) (dval ds)
| lit_minus ds : ds <> [] -> digits ds -> (int64_min <= - dval ds)%Z -> is_lit dflt (45%N :: ds) (- dval ds)%Z.

Lemma digit_facts c : is_digit c = true ->
  is_space c = false /\ c <> 40%N /\ c <> 41%N /\ c <> 44%N /\ c <> 43%N /\ c <> 45%N.
Proof.
  unfold is_digit, is_space. intros H. apply andb_prop in H. destruct H as [H1 H2].
  apply N.leb_le in H1. apply N.leb_le in H2.
  repeat split; try lia.
  destruct (N.eqb_spec c 32); [lia|]. cbn [orb].
  destruct (N.leb_spec 9 c); destruct (N.leb_spec c 13); cbn [andb]; try reflexivity; lia.
Qed.

Lemma dval_nonneg_acc ds acc : (0 <= acc)%Z -> (0 <= fold_left (fun a c => (a * 10 + Z.of_N (c - 48))%Z) ds acc)%Z.
Proof. revert acc; induction ds as [|c ds IH]; intros acc H; cbn [fold_left]; [exact H|]. apply IH. lia. Qed.

Lemma dval_nonneg ds : (0 <= dval ds)%Z.
Proof. apply dval_nonneg_acc. lia. Qed.

Lemma atoi_digits ds : ds <> [] -> digits ds -> (dval ds <= int64_max)%Z -> atoi ds = Some (dval ds).
Proof.
  intros Hne Hd Hr. unfold atoi.
  destruct ds as [|c r]; [contradiction|].
  pose proof (Forall_inv Hd) as Hc. destruct (digit_facts c Hc) as (_ & _ & _ & _ & Hp & Hm).
  assert (E : sign_split (c :: r) = (false, c :: r)).
  { unfold sign_split. destruct (N.eqb_spec c 43); [contradiction|]. destruct (N.eqb_spec c 45); [contradiction|]. reflexivity. }
  rewrite E. rewrite digits_val_fold by exact Hd. fold (dval (c :: r)).
  pose proof (dval_nonneg (c :: r)).
  replace (Z.leb int64_min (dval (c :: r))) with true by (symmetry; apply Z.leb_le; unfold int64_min; lia).
  replace (Z.leb (dval (c :: r)) int64_max) with true by (symmetry; apply Z.leb_le; exact Hr).
  reflexivity.
Qed.

Lemma atoi_plus ds : ds <> [] -> digits ds -> (dval ds <= int64_max)%Z -> atoi (43%N :: ds) = Some (dval ds).
Proof.
  intros Hne Hd Hr. unfold atoi. destruct ds as [|c r]; [contradiction|].
  change (sign_split (43%N :: c :: r)) with (false, c :: r). cbv beta iota.
  rewrite digits_val_fold by exact Hd. fold (dval (c :: r)).
  pose proof (dval_nonneg (c :: r)).
  replace (Z.leb int64_min (dval (c :: r))) with true by (symmetry; apply Z.leb_le; unfold int64_min; lia).
  replace (Z.leb (dval (c :: r)) int64_max) with true by (symmetry; apply Z.leb_le; exact Hr).
  reflexivity.
Qed.

Lemma atoi_minus ds : ds <> [] -> digits ds -> (int64_min <= - dval ds)%Z -> atoi (45%N :: ds) = Some (- dval ds)%Z.
Proof.
  intros Hne Hd Hr. unfold atoi. destruct ds as [|c r]; [contradiction|].
  change (sign_split (45%N :: c :: r)) with (true, c :: r). cbv beta iota.
  rewrite digits_val_fold by exact Hd. fold (dval (c :: r)).
  pose proof (dval_nonneg (c :: r)).
  replace (Z.leb int64_min (- dval (c :: r))) with true by (symmetry; apply Z.leb_le; exact Hr).
  replace (Z.leb (- dval (c :: r)) int64_max) with true by (symmetry; apply Z.leb_le; unfold int64_max; lia).
  reflexivity.
Qed.

Lemma is_lit_arg d l v : is_lit d l v -> arg_int d (Some l) = Some v.
Proof.
  intros H. destruct H as [|ds Hne Hd Hr|ds Hne Hd Hr|ds Hne Hd Hr]; cbn [arg_int].
  - reflexivity.
  - destruct ds; [contradiction|]. apply atoi_digits; assumption.
  - apply atoi_plus; assumption.
  - apply atoi_minus; assumption.
Qed.

(* a literal contains no blank, bracket or comma *)
Definition plain_char (c : N) : Prop :=
  is_space c = false /\ c <> 40%N /\ c <> 41%N /\ c <> 44%N.

Lemma digits_plain ds : digits ds -> Forall plain_char ds.
Proof.
  intros H. eapply Forall_impl; [|exact H]. intros c Hc. destruct (digit_facts c Hc) as (a & b & c0 & d & _).
  repeat split; assumption.
Qed.

Lemma is_lit_plain d l v : is_lit d l v -> Forall plain_char l.
Proof.
  intros H. destruct H as [|ds _ Hd _|ds _ Hd _|ds _ Hd _].
  - constructor.
  - apply digits_plain, Hd.
  - constructor; [repeat split; try discriminate; reflexivity|apply digits_plain, Hd].
  - constructor; [repeat split; try discriminate; reflexivity|apply digits_plain, Hd].
Qed.

Lemma plain_tight l : Forall plain_char l -> tight l.
Proof.
  intros H. split.
  - destruct l as [|c l]; [exact I|]. cbn [nb_head]. apply (Forall_inv H).
  - apply Forall_rev in H. destruct (rev l) as [|c r]; [exact I|]. cbn [nb_head]. apply (Forall_inv H).
Qed.

Lemma plain_notin c l : Forall plain_char l -> (c = 40 \/ c = 41 \/ c = 44)%N -> ~ In c l.
Proof.
  intros H Hc Hin. rewrite Forall_forall in H. destruct (H c Hin) as (_ & a & b & d).
  destruct Hc as [->|[->| ->]]; contradiction.
Qed.

Lemma blanks_notin c l : blanks l -> is_space c = false -> ~ In c l.
Proof. intros H Hc Hin. unfold blanks in H. rewrite Forall_forall in H. rewrite (H c Hin) in Hc. discriminate. Qed.

Lemma notin_app (c : N) a b : ~ In c a -> ~ In c b -> ~ In c (a ++ b).
Proof. intros Ha Hb H. apply in_app_or in H. tauto. Qed.

(* ---------- the three documented forms ---------- *)

Definition name_ok (name : bytes) : Prop :=
  tight name /\ ~ In c_open name /\ ~ In c_close name.

Lemma sp40 : is_space 40 = false. Proof. reflexivity. Qed.
Lemma sp41 : is_space 41 = false. Proof. reflexivity. Qed.
Lemma sp44 : is_space 44 = false. Proof. reflexivity. Qed.

Lemma parse_bare name : ~ In c_open name -> ~ In c_close name -> parse_shoot (print_bare name) = ShOk name 1 0.
Proof.
  intros H1 H2. unfold parse_shoot, parse_string_func, print_bare.
  rewrite (break_at_none c_open) by exact H1. rewrite (break_at_none c_close) by exact H2. reflexivity.
Qed.

(* what ParseStringFunc makes of  b0 name b1 ( X ) b6  when X has no closing bracket *)
Lemma psf_brackets b0 name b1 X b6 :
  blanks b0 -> blanks b1 -> blanks b6 -> name_ok name -> ~ In c_close X ->
  parse_string_func (b0 ++ name ++ b1 ++ c_open :: X ++ c_close :: b6)
  = PsfOk name (Some (map trim (split c_comma (trim X)))).
Proof.
  intros H0 H1 H6 (Ht & Hno & Hnc) HX. unfold parse_string_func.
  replace (b0 ++ name ++ b1 ++ c_open :: X ++ c_close :: b6)
    with ((b0 ++ name ++ b1) ++ c_open :: X ++ c_close :: b6) by (rewrite <- !app_assoc; reflexivity).
  rewrite break_at_app.
  2:{ apply notin_app; [apply blanks_notin; [exact H0|exact sp40]|].
      apply notin_app; [exact Hno|apply blanks_notin; [exact H1|exact sp40]]. }
  rewrite (trim_core b0 name b1 H0 H1 Ht).
  rewrite (trim_mid X c_close b6 sp41). rewrite (trim_right_blanks b6 H6).
  rewrite break_at_app by (intros Hin; apply HX; apply trim_left_incl in Hin; exact Hin).
  rewrite trim_left_then_trim. reflexivity.
Qed.

Lemma parse_n b0 name b1 b2 n b3 b6 vn :
  blanks b0 -> blanks b1 -> blanks b2 -> blanks b3 -> blanks b6 ->
  name_ok name -> is_lit 1 n vn ->
  parse_shoot (print_n b0 name b1 b2 n b3 b6) = ShOk name vn 0.
Proof.
  intros H0 H1 H2 H3 H6 Hn Hl. unfold parse_shoot, print_n.
  pose proof (is_lit_plain _ _ _ Hl) as Hp.
  replace (b0 ++ name ++ b1 ++ c_open :: b2 ++ n ++ b3 ++ c_close :: b6)
    with (b0 ++ name ++ b1 ++ c_open :: (b2 ++ n ++ b3) ++ c_close :: b6)
    by (rewrite <- !app_assoc; reflexivity).
  rewrite psf_brackets; try assumption.
  2:{ apply notin_app; [apply blanks_notin; [exact H2|exact sp41]|].
      apply notin_app; [apply plain_notin; [exact Hp|right; left; reflexivity]|apply blanks_notin; [exact H3|exact sp41]]. }
  rewrite (trim_core b2 n b3 H2 H3 (plain_tight _ Hp)).
  rewrite split_none by (apply plain_notin; [exact Hp|right; right; reflexivity]).
  cbn [map nth_error]. rewrite (trim_tight n (plain_tight _ Hp)).
  rewrite (is_lit_arg _ _ _ Hl). reflexivity.
Qed.

Lemma parse_ns b0 name b1 b2 n b3 b4 s b5 b6 vn vs :
  blanks b0 -> blanks b1 -> blanks b2 -> blanks b3 -> blanks b4 -> blanks b5 -> blanks b6 ->
  name_ok name -> is_lit 1 n vn -> is_lit 0 s vs ->
  parse_shoot (print_ns b0 name b1 b2 n b3 b4 s b5 b6) = ShOk name vn vs.
Proof.
  intros H0 H1 H2 H3 H4 H5 H6 Hn Hln Hls. unfold parse_shoot, print_ns.
  pose proof (is_lit_plain _ _ _ Hln) as Hpn. pose proof (is_lit_plain _ _ _ Hls) as Hps.
  replace (b0 ++ name ++ b1 ++ c_open :: b2 ++ n ++ b3 ++ c_comma :: b4 ++ s ++ b5 ++ c_close :: b6)
    with (b0 ++ name ++ b1 ++ c_open :: ((b2 ++ n ++ b3) ++ c_comma :: b4 ++ s ++ b5) ++ c_close :: b6)
    by (rewrite <- !app_assoc; cbn [app]; rewrite <- !app_assoc; reflexivity).
  assert (NA : forall c, (c = 40 \/ c = 41 \/ c = 44)%N -> is_space c = false -> ~ In c (b2 ++ n ++ b3)).
  { intros c Hc Hs. apply notin_app; [apply blanks_notin; assumption|].
    apply notin_app; [apply plain_notin; assumption|apply blanks_notin; assumption]. }
  assert (NB : forall c, (c = 40 \/ c = 41 \/ c = 44)%N -> is_space c = false -> ~ In c (b4 ++ s ++ b5)).
  { intros c Hc Hs. apply notin_app; [apply blanks_notin; assumption|].
    apply notin_app; [apply plain_notin; assumption|apply blanks_notin; assumption]. }
  rewrite psf_brackets; try assumption.
  2:{ apply notin_app; [apply NA; [right; left; reflexivity|exact sp41]|].
      intros [E|Hin]; [discriminate E|]. revert Hin. apply NB; [right; left; reflexivity|exact sp41]. }
  rewrite (trim_mid (b2 ++ n ++ b3) c_comma (b4 ++ s ++ b5) sp44).
  rewrite split_app.
  2:{ intros Hin. apply trim_left_incl in Hin. revert Hin. apply NA; [right; right; reflexivity|exact sp44]. }
  rewrite split_none.
  2:{ intros Hin. apply trim_right_incl in Hin. revert Hin. apply NB; [right; right; reflexivity|exact sp44]. }
  cbn [map nth_error].
  rewrite trim_left_then_trim. rewrite (trim_core b2 n b3 H2 H3 (plain_tight _ Hpn)).
  rewrite (trim_right_core b4 s b5 H4 H5 (plain_tight _ Hps)).
  rewrite (is_lit_arg _ _ _ Hln). rewrite (is_lit_arg _ _ _ Hls). reflexivity.
Qed.
