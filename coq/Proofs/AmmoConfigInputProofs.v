(* C13 for the configuration-side input of Model/AmmoConfigInput.v: the `headers` list of the http
   provider config and the scenario description file (extension dispatch + weight validation). *)
From Coq Require Import List NArith ZArith Bool Lia.
From PV Require Import Lib.AmmoBytes Lib.AmmoDecimal Lib.AmmoLines Model.AmmoCommon Model.AmmoRobust
  Model.AmmoConfigInput Proofs.AmmoBytesProofs Proofs.AmmoCommonProofs Proofs.AmmoRobustProofs.
Import ListNotations.

(* ---------- strings.Cut ---------- *)
Lemma cut_true sep s : forall a b, cut sep s = (a, b, true) -> s = a ++ sep :: b /\ has sep a = false.
Proof.
  induction s as [|c r IH]; intros a b H; cbn [cut] in H; [discriminate|].
  destruct (N.eqb c sep) eqn:E.
  - injection H as <- <-. apply N.eqb_eq in E. subst c. split; reflexivity.
  - destruct (cut sep r) as [[a' b'] f']. injection H as <- <- ->.
    destruct (IH a' b' eq_refl) as [-> Hh]. split; [reflexivity|].
    cbn [has]. rewrite E. exact Hh.
Qed.

Lemma cut_found sep s : snd (cut sep s) = has sep s.
Proof.
  induction s as [|c r IH]; [reflexivity|]. cbn [cut has].
  destruct (N.eqb c sep); [reflexivity|]. destruct (cut sep r) as [[a b] f]. exact IH.
Qed.

(* ---------- one entry: the documented form ---------- *)
(* "[" name ":" value "]": the name is what stands before the first colon and is not blank *)
Definition wf_header_entry (h : bytes) : Prop :=
  exists k v, h = LBR :: k ++ COLON :: v ++ [RBR] /\ has COLON k = false /\ trim k <> [].

Lemma entry_shape k v : LBR :: k ++ COLON :: v ++ [RBR] = LBR :: (k ++ COLON :: v) ++ [RBR].
Proof. rewrite <- app_assoc. reflexivity. Qed.

Lemma decode_header_accepts k v :
  has COLON k = false -> trim k <> [] ->
  decode_header (LBR :: k ++ COLON :: v ++ [RBR]) = inl (trim k, trim v).
Proof.
  intros Hk Ht. rewrite entry_shape. rewrite decode_header_br by (destruct k; discriminate).
  rewrite cut_app by exact Hk. destruct (trim k); [contradiction|reflexivity].
Qed.

Lemma decode_header_inl h k' v' :
  decode_header h = inl (k', v') ->
  exists k v, h = LBR :: k ++ COLON :: v ++ [RBR] /\ has COLON k = false /\ trim k = k' /\ k' <> [] /\ trim v = v'.
Proof.
  unfold decode_header. destruct h as [|a r]; [discriminate|].
  destruct (negb (N.ltb (nlen (a :: r)) 3) && N.eqb a LBR && N.eqb (last_byte (a :: r)) RBR) eqn:C; [|discriminate].
  apply andb_prop in C. destruct C as [C C3]. apply andb_prop in C. destruct C as [C1 C2].
  apply N.eqb_eq in C2. subst a.
  destruct (exists_last (l := r)) as [inner [z Er]].
  { intros ->. cbn in C1. discriminate. }
  subst r. unfold last_byte in C3. change (LBR :: inner ++ [z]) with ((LBR :: inner) ++ [z]) in C3.
  rewrite last_snoc in C3. apply N.eqb_eq in C3. subst z.
  rewrite removelast_snoc.
  destruct (cut COLON inner) as [[k v] f] eqn:Ec. destruct f; [|discriminate].
  destruct (is_nil (trim k)) eqn:En; [discriminate|].
  intros H. injection H as <- <-.
  destruct (cut_true _ _ _ _ Ec) as [-> Hh].
  exists k, v. repeat split; auto.
  - rewrite <- app_assoc. reflexivity.
  - intros E0. rewrite E0 in En. discriminate.
Qed.

(* DecodeHeader accepts exactly the entries of the documented form *)
Lemma decode_header_accepts_iff h : (exists kv, decode_header h = inl kv) <-> wf_header_entry h.
Proof.
  split.
  - intros [[k' v'] H]. destruct (decode_header_inl _ _ _ H) as [k [v [E [Hh [Hk [Hne _]]]]]].
    exists k, v. repeat split; auto. congruence.
  - intros [k [v [-> [Hh Ht]]]]. eexists. apply decode_header_accepts; assumption.
Qed.

Lemma decode_header_rejects h : ~ wf_header_entry h -> exists e, decode_header h = inr e.
Proof.
  intros Hn. destruct (decode_header h) as [kv|e] eqn:E; [|eauto].
  exfalso. apply Hn. apply decode_header_accepts_iff. eauto.
Qed.

(* the executable specification says the same *)
Lemma header_entry_okb_iff h : header_entry_okb h = true <-> wf_header_entry h.
Proof.
  split.
  - unfold header_entry_okb. destruct h as [|a r]; [discriminate|].
    intros H. apply andb_prop in H. destruct H as [Ha H]. apply N.eqb_eq in Ha. subst a.
    rewrite frev_rev in H. destruct (rev r) as [|z ri] eqn:Er; [discriminate|].
    apply andb_prop in H. destruct H as [H Ht]. apply andb_prop in H. destruct H as [Hz Hc].
    apply N.eqb_eq in Hz. subst z. rewrite frev_rev in Hc, Ht.
    assert (Hr : r = rev ri ++ [RBR]).
    { rewrite <- (rev_involutive r), Er. reflexivity. }
    destruct (cut COLON (rev ri)) as [[k v] f] eqn:Ec.
    pose proof (cut_found COLON (rev ri)) as Hf. rewrite Ec in Hf. cbn [snd] in Hf.
    rewrite Hc in Hf. subst f.
    destruct (cut_true _ _ _ _ Ec) as [Ei Hh].
    exists k, v. split; [|split; [exact Hh|]].
    + rewrite Hr, Ei. rewrite <- app_assoc. reflexivity.
    + cbn [fst] in Ht. intros E0. rewrite E0 in Ht. discriminate.
  - intros [k [v [-> [Hh Ht]]]]. rewrite entry_shape. unfold header_entry_okb.
    rewrite N.eqb_refl. cbn [andb]. rewrite frev_rev, rev_unit, frev_rev, rev_involutive.
    rewrite N.eqb_refl. cbn [andb]. rewrite has_app. cbn [has]. rewrite N.eqb_refl.
    rewrite orb_true_r. cbn [andb]. rewrite cut_app by exact Hh. cbn [fst].
    destruct (trim k); [contradiction|reflexivity].
Qed.

Lemma header_list_okb_iff hs : header_list_okb hs = true <-> Forall wf_header_entry hs.
Proof.
  unfold header_list_okb. rewrite forallb_forall, Forall_forall.
  split; intros H x Hx; apply header_entry_okb_iff; auto.
Qed.

(* ---------- the list ---------- *)
Lemma config_headers_ok_iff hs : forall acc,
  (exists m, config_headers hs acc = inl m) <-> Forall wf_header_entry hs.
Proof.
  induction hs as [|h r IH]; intros acc; cbn [config_headers].
  - split; [constructor|eauto].
  - destruct (decode_header h) as [[k v]|e] eqn:E.
    + rewrite IH. split.
      * intros Hr. constructor; [apply decode_header_accepts_iff; eauto|exact Hr].
      * intros Hf. inversion Hf; assumption.
    + split; [intros [m Hm]; discriminate|].
      intros Hf. inversion Hf as [|? ? Hw _]. apply decode_header_accepts_iff in Hw.
      destruct Hw as [kv Hkv]. congruence.
Qed.

(* a malformed entry is an error wherever it stands: well-formed entries before it do not
   hide it, entries after it cannot overwrite the error; the error reported is that entry's *)
Lemma config_headers_rejects_at a bad b : forall acc,
  Forall wf_header_entry a -> ~ wf_header_entry bad ->
  exists e, decode_header bad = inr e /\ config_headers (a ++ bad :: b) acc = inr e.
Proof.
  induction a as [|h r IH]; intros acc Ha Hb; cbn [app config_headers].
  - destruct (decode_header_rejects _ Hb) as [e He]. rewrite He. eauto.
  - inversion Ha as [|? ? Hw Hr]. subst. apply decode_header_accepts_iff in Hw.
    destruct Hw as [[k v] Hkv]. rewrite Hkv. apply IH; assumption.
Qed.

Lemma config_headers_rejects_any hs acc bad :
  In bad hs -> ~ wf_header_entry bad -> exists e, config_headers hs acc = inr e.
Proof.
  intros Hin Hb. destruct (config_headers hs acc) as [m|e] eqn:E; [|eauto].
  exfalso. apply Hb. assert (Hf : Forall wf_header_entry hs) by (apply (config_headers_ok_iff hs acc); eauto).
  rewrite Forall_forall in Hf. auto.
Qed.

(* http.Header.Add *)
Lemma madd_keeps k v h : forall k0 vs, In (k0, vs) h -> exists vs', In (k0, vs') (madd k v h) /\ incl vs vs'.
Proof.
  induction h as [|[k' vs'] r IH]; intros k0 vs Hin; [contradiction|]. cbn [madd].
  destruct (beq k k') eqn:E.
  - destruct Hin as [H|H].
    + injection H as -> ->. exists (vs ++ [v]). split; [left; reflexivity|apply incl_appl, incl_refl].
    + exists vs. split; [right; exact H|apply incl_refl].
  - destruct Hin as [H|H].
    + injection H as -> ->. exists vs. split; [left; reflexivity|apply incl_refl].
    + destruct (IH _ _ H) as [vs2 [H1 H2]]. exists vs2. split; [right; exact H1|exact H2].
Qed.

Lemma madd_adds k v h : exists vs, In (k, vs) (madd k v h) /\ In v vs.
Proof.
  induction h as [|[k' vs'] r IH]; cbn [madd].
  - exists [v]. split; left; reflexivity.
  - destruct (beq k k') eqn:E.
    + apply beq_eq in E. subst k'. exists (vs' ++ [v]). split; [left; reflexivity|].
      apply in_or_app. right. left. reflexivity.
    + destruct IH as [vs [H1 H2]]. exists vs. split; [right; exact H1|exact H2].
Qed.

(* an accepted list loses nothing: every entry's value is among the values of its key *)
Lemma config_headers_keeps hs : forall acc m,
  config_headers hs acc = inl m ->
  (forall k vs, In (k, vs) acc -> exists vs', In (k, vs') m /\ incl vs vs') /\
  (forall h k v, In h hs -> decode_header h = inl (k, v) -> exists vs, In (canon_key k, vs) m /\ In v vs).
Proof.
  induction hs as [|h r IH]; intros acc m H; cbn [config_headers] in H.
  - injection H as <-. split; [|intros ? ? ? []].
    intros k vs Hin. exists vs. split; [exact Hin|apply incl_refl].
  - destruct (decode_header h) as [[k v]|e] eqn:E; [|discriminate].
    destruct (IH _ _ H) as [Hacc Hnew]. split.
    + intros k0 vs Hin. destruct (madd_keeps (canon_key k) v acc _ _ Hin) as [vs1 [H1 I1]].
      destruct (Hacc _ _ H1) as [vs2 [H2 I2]]. exists vs2. split; [exact H2|].
      intros x Hx. apply I2, I1, Hx.
    + intros h0 k0 v0 [->|Hin] Hd.
      * rewrite E in Hd. injection Hd as <- <-.
        destruct (madd_adds (canon_key k) v acc) as [vs1 [H1 I1]].
        destruct (Hacc _ _ H1) as [vs2 [H2 I2]]. exists vs2. split; [exact H2|apply I2, I1].
      * eapply Hnew; eauto.
Qed.

Lemma config_headers_none_lost hs m :
  config_headers hs [] = inl m ->
  forall h k v, In h hs -> decode_header h = inl (k, v) -> exists vs, In (canon_key k, vs) m /\ In v vs.
Proof. intros H. exact (proj2 (config_headers_keeps hs [] m H)). Qed.

(* provider construction fails exactly when the specification rejects the list *)
Lemma provider_new_headers_spec url_host hs :
  provider_new_headers url_host hs = NewErr <-> header_list_okb hs = false.
Proof.
  unfold provider_new_headers. split.
  - destruct (config_headers hs []) as [m|e] eqn:E.
    + destruct (apply_config_headers url_host m). discriminate.
    + intros _. destruct (header_list_okb hs) eqn:Eo; [|reflexivity].
      apply header_list_okb_iff in Eo. apply (config_headers_ok_iff hs []) in Eo.
      destruct Eo as [m Hm]. congruence.
  - intros Hb. destruct (config_headers hs []) as [m|e] eqn:E; [|reflexivity].
    assert (Hf : Forall wf_header_entry hs) by (apply (config_headers_ok_iff hs []); eauto).
    apply header_list_okb_iff in Hf. congruence.
Qed.

(* ---------- scenario description file ---------- *)
Local Open Scope Z_scope.

Lemma spread_counts_split ws :
  spread_counts ws = if weights_valid ws then spread_raw ws else VErr.
Proof.
  unfold spread_counts, weights_valid. destruct (existsb (fun w => w <? 0) ws); reflexivity.
Qed.

(* both parsers feed the same validation *)
Lemma scenario_weights_known f ws : f <> FOther -> scenario_weights f ws = spread_counts ws.
Proof.
  intros Hf. rewrite spread_counts_split. destruct f; try reflexivity. contradiction.
Qed.

Lemma sfmt_other_dec f : f = FOther \/ f <> FOther.
Proof. destruct f; [right; discriminate|right; discriminate|right; discriminate|left; reflexivity]. Qed.

Lemma weights_valid_false ws : (exists w, In w ws /\ w < 0) -> weights_valid ws = false.
Proof.
  intros [w [Hin Hw]]. unfold weights_valid. apply negb_false_iff. apply existsb_exists.
  exists w. split; [exact Hin|apply Z.ltb_lt; exact Hw].
Qed.

(* a negative weight is rejected with an error whatever the format of the description *)
Lemma scenario_weights_negative f ws : (exists w, In w ws /\ w < 0) -> scenario_weights f ws = VErr.
Proof.
  intros H. apply weights_valid_false in H. destruct f; cbn [scenario_weights]; rewrite ?H; reflexivity.
Qed.

Lemma scenario_weights_panic f ws :
  scenario_weights f ws = VPanic ->
  exists g cs, 0 < g /\ Forall (fun c => 0 <= c) cs /\ max_alloc < 8 * fold_left Z.add cs 0.
Proof.
  intros H. destruct (sfmt_other_dec f) as [->|Hf].
  - cbn [scenario_weights] in H. discriminate H.
  - rewrite scenario_weights_known in H by exact Hf. exact (spread_counts_panic ws H).
Qed.

Lemma scenario_formats_agree f g ws :
  f <> FOther -> g <> FOther -> scenario_weights f ws = scenario_weights g ws.
Proof. intros Hf Hg. rewrite !scenario_weights_known by assumption. reflexivity. Qed.

Lemma scenario_requests_no_panic f known reqs : scenario_requests f known reqs <> VPanic.
Proof. destruct f; cbn [scenario_requests]; try apply convert_no_panic. discriminate. Qed.
