(* Lemmas for Model/ShootEngine.v (property C10, round 7): with the await loop of engine.go (an instance
   coming back "out of ammo" cancels only the instance START; the run is cancelled when every started
   instance has been awaited) the aggregator never stops while a shot is in flight, so after the run the
   results hold exactly the samples of the fired requests; cancelling the run at "out of ammo" loses them. *)
From Coq Require Import List Arith Bool Lia Permutation NArith.
From PV Require Import Lib.Table Model.Sample Model.Shoot Model.ShootRun Model.ShootEngine Proofs.ShootRunProofs.
Import ListNotations.

(* ---- lists of instance states ---- *)

Lemma upd_length {A : Type} (v : A) (l : list A) : forall i, length (upd i v l) = length l.
Proof. induction l as [|x r IH]; intros [|j]; cbn; auto. Qed.

Lemma count_upd l : forall i old v, nth_error l i = Some old ->
  aw1 old + count_awaited (upd i v l) = aw1 v + count_awaited l.
Proof.
  induction l as [|x r IH]; intros [|j] old v H; cbn in *; try discriminate.
  - inversion H; subst. lia.
  - specialize (IH j old v H). lia.
Qed.

Lemma inflight_upd l : forall i old v, nth_error l i = Some old ->
  Permutation (flight1 old ++ inflight (upd i v l)) (flight1 v ++ inflight l).
Proof.
  induction l as [|x r IH]; intros [|j] old v H; cbn in *; try discriminate.
  - inversion H; subst. apply Permutation_app_swap_app.
  - specialize (IH j old v H). unfold inflight in *. cbn.
    eapply Permutation_trans; [apply Permutation_app_swap_app|].
    eapply Permutation_trans; [|apply Permutation_app_swap_app].
    apply Permutation_app_head. exact IH.
Qed.

Lemma count_le l : count_awaited l <= length l.
Proof. induction l as [|x r IH]; cbn; [lia|]. destruct x; cbn; lia. Qed.

Lemma count_all l : length l <= count_awaited l -> Forall (fun s => s = IAwaited) l.
Proof.
  induction l as [|x r IH]; cbn; intro H; [constructor|].
  pose proof (count_le r). destruct x; cbn in H; try lia.
  constructor; [reflexivity|]. apply IH. lia.
Qed.

Lemma all_awaited_nth l i x : Forall (fun s => s = IAwaited) l -> nth_error l i = Some x -> x = IAwaited.
Proof. intros F H. apply nth_error_In in H. rewrite Forall_forall in F. exact (F _ H). Qed.

Lemma all_awaited_inflight l : Forall (fun s => s = IAwaited) l -> inflight l = [].
Proof. induction 1 as [|x r Hx _ IH]; [reflexivity|]. subst. unfold inflight in *. cbn. exact IH. Qed.

Lemma count_app l1 l2 : count_awaited (l1 ++ l2) = count_awaited l1 + count_awaited l2.
Proof. induction l1 as [|x r IH]; cbn; [reflexivity|]. rewrite IH. lia. Qed.

Lemma inflight_app l1 l2 : inflight (l1 ++ l2) = inflight l1 ++ inflight l2.
Proof. unfold inflight. apply flat_map_app. Qed.

(* ---- the invariant of a run with engine.go's await loop ---- *)

Record einv (st : estate) : Prop := {
  (* the run context is cancelled only when the start loop and every instance have been awaited *)
  inv_cancel : c_run_cancelled (e_c st) = true ->
               c_start_awaited (e_c st) = true /\ Forall (fun s => s = IAwaited) (w_insts (e_w st));
  inv_count : c_awaited (e_c st) = count_awaited (w_insts (e_w st));
  inv_started : c_start_awaited (e_c st) = true -> c_started (e_c st) = length (w_insts (e_w st));
  (* the aggregator returns only after that, with an empty queue *)
  inv_stop : a_running (e_a st) = false -> c_run_cancelled (e_c st) = true /\ a_sink (e_a st) = [];
  (* what is written or queued is what was reported; what was fired is reported or in flight *)
  inv_lines : a_lines (e_a st) ++ a_sink (e_a st) = flat_map shot_reports (w_reported (e_w st));
  inv_fired : Permutation (w_fired (e_w st)) (w_reported (e_w st) ++ inflight (w_insts (e_w st)))
}.

Lemma einv_init ammo n : einv (einit ammo n).
Proof. constructor; cbn; try discriminate; auto. Qed.

Lemma check_all_fields c :
  c_start_awaited (check_all c) = c_start_awaited c /\ c_started (check_all c) = c_started c /\
  c_awaited (check_all c) = c_awaited c /\
  (c_run_cancelled (check_all c) = true ->
   c_run_cancelled c = true \/ (c_start_awaited c = true /\ c_started c <= c_awaited c)).
Proof.
  unfold check_all. destruct (c_start_awaited c) eqn:E1; destruct (c_started c <=? c_awaited c) eqn:E2;
    cbn; rewrite ?E1; repeat split; auto.
  intros _. right. split; [reflexivity|]. apply Nat.leb_le. exact E2.
Qed.

Lemma fold_cancel_fields ooa : forall c, no_run_cancel ooa = true ->
  c_run_cancelled (fold_left apply_cancel ooa c) = c_run_cancelled c /\
  c_start_awaited (fold_left apply_cancel ooa c) = c_start_awaited c /\
  c_started (fold_left apply_cancel ooa c) = c_started c /\
  c_awaited (fold_left apply_cancel ooa c) = c_awaited c.
Proof.
  induction ooa as [|k r IH]; cbn; intros c H; [auto|].
  destruct k; [|discriminate]. destruct (IH (apply_cancel c CcStart) H) as (A & B & C & D).
  rewrite A, B, C, D. cbn. auto.
Qed.

Ltac inst_case H :=
  match type of H with
  | context [nth_error ?l ?i] =>
      let E := fresh "En" in destruct (nth_error l i) as [[| | |]|] eqn:E; try discriminate H
  end.

Lemma estep_inv ooa st e st' : no_run_cancel ooa = true -> einv st -> estep ooa st e = Some st' -> einv st'.
Proof.
  intros NR [Ic In Is Ip Il If] H. destruct st as [w c a]. cbn in *.
  destruct e; unfold estep in H; cbn [e_w e_c e_a] in H.
  - (* EStart *)
    destruct (negb (c_start_awaited c) && (0 <? w_tostart w)) eqn:G; [|discriminate]. inversion H; subst; clear H.
    apply andb_true_iff in G. destruct G as [G _]. apply negb_true_iff in G.
    constructor; cbn.
    + intro R. destruct (Ic R) as [A _]. congruence.
    + rewrite count_app. cbn. lia.
    + congruence.
    + exact Ip.
    + exact Il.
    + rewrite inflight_app. cbn. rewrite app_nil_r. exact If.
  - (* ESchedFin *)
    inversion H; subst; clear H. constructor; cbn; auto.
  - (* EProvStop *)
    destruct (c_run_cancelled c) eqn:R; [|discriminate]. inversion H; subst; clear H. constructor; cbn; auto; intuition.
  - (* EAcquire *)
    inst_case H.
    assert (NC : c_run_cancelled c = false).
    { destruct (c_run_cancelled c) eqn:R; [|reflexivity]. destruct (Ic eq_refl) as [_ F].
      pose proof (all_awaited_nth _ _ _ F En). discriminate. }
    destruct (w_ammo w) as [|s r] eqn:Ea; inversion H; subst; clear H.
    + constructor; cbn.
      * congruence.
      * pose proof (count_upd _ _ _ (IReturned IrOutOfAmmo) En). cbn in *. lia.
      * rewrite upd_length. exact Is.
      * exact Ip.
      * exact Il.
      * pose proof (inflight_upd _ _ _ (IReturned IrOutOfAmmo) En) as P. cbn in P.
        eapply Permutation_trans; [exact If|]. apply Permutation_app_head. symmetry. exact P.
    + constructor; cbn.
      * congruence.
      * pose proof (count_upd _ _ _ (IFlight s) En). cbn in *. lia.
      * rewrite upd_length. exact Is.
      * exact Ip.
      * exact Il.
      * pose proof (inflight_upd _ _ _ (IFlight s) En) as P. cbn in P.
        eapply Permutation_trans; [apply Permutation_app_tail; exact If|].
        rewrite <- app_assoc. apply Permutation_app_head.
        eapply Permutation_trans; [apply Permutation_app_comm|]. cbn. symmetry. exact P.
  - (* ESchedEnd *)
    inst_case H. inversion H; subst; clear H.
    constructor; cbn.
    + intro R. destruct (Ic R) as [_ F]. pose proof (all_awaited_nth _ _ _ F En). discriminate.
    + pose proof (count_upd _ _ _ (IReturned IrNil) En). cbn in *. lia.
    + rewrite upd_length. exact Is.
    + exact Ip.
    + exact Il.
    + pose proof (inflight_upd _ _ _ (IReturned IrNil) En) as P. cbn in P.
      eapply Permutation_trans; [exact If|]. apply Permutation_app_head. symmetry. exact P.
  - (* ECtxDone *)
    inst_case H. destruct (c_run_cancelled c) eqn:R; [|discriminate].
    destruct (Ic eq_refl) as [_ F]. pose proof (all_awaited_nth _ _ _ F En). discriminate.
  - (* EReport *)
    inst_case H. inversion H; subst; clear H.
    assert (NC : c_run_cancelled c = false).
    { destruct (c_run_cancelled c) eqn:R; [|reflexivity]. destruct (Ic eq_refl) as [_ F].
      pose proof (all_awaited_nth _ _ _ F En). discriminate. }
    constructor; cbn.
    + congruence.
    + pose proof (count_upd _ _ _ IIdle En). cbn in *. lia.
    + rewrite upd_length. exact Is.
    + intro R. destruct (Ip R) as [R' _]. congruence.
    + rewrite flat_map_app. cbn. rewrite app_nil_r, app_assoc, Il. reflexivity.
    + pose proof (inflight_upd _ _ _ IIdle En) as P. cbn in P.
      eapply Permutation_trans; [exact If|]. rewrite <- app_assoc. apply Permutation_app_head.
      cbn. symmetry. exact P.
  - (* EWrite *)
    destruct (a_running a) eqn:R; [|discriminate]. destruct (a_sink a) as [|x r] eqn:Es; [discriminate|].
    inversion H; subst; clear H. constructor; cbn; auto; try discriminate.
    rewrite <- app_assoc. cbn. rewrite <- Il. reflexivity.
  - (* EAggrStop *)
    destruct (a_running a && c_run_cancelled c) eqn:G; [|discriminate]. inversion H; subst; clear H.
    apply andb_true_iff in G. destruct G as [_ G].
    constructor; cbn; auto. rewrite app_nil_r. exact Il.
  - (* EStartRes *)
    match type of H with (if ?g then _ else _) = _ => destruct g eqn:G; [|discriminate] end.
    inversion H; subst; clear H.
    apply andb_true_iff in G. destruct G as [G _]. apply negb_true_iff in G.
    match goal with |- einv {| e_w := _; e_c := check_all ?c0; e_a := _ |} => pose proof (check_all_fields c0) as CF end.
    cbn in CF. destruct CF as (F1 & F2 & F3 & F4).
    constructor; cbn.
    + intro R. rewrite F1. split; [reflexivity|]. destruct (F4 R) as [R'|[_ L]].
      * destruct (Ic R') as [A _]. congruence.
      * apply count_all. lia.
    + rewrite F3. exact In.
    + intros _. exact F2.
    + intro R. destruct (Ip R) as [R' _]. destruct (Ic R') as [A _]. congruence.
    + exact Il.
    + exact If.
  - (* EAwait *)
    inst_case H. inversion H; subst; clear H.
    assert (NC : c_run_cancelled c = false).
    { destruct (c_run_cancelled c) eqn:R; [|reflexivity]. destruct (Ic eq_refl) as [_ F].
      pose proof (all_awaited_nth _ _ _ F En). discriminate. }
    pose proof (count_upd _ _ _ IAwaited En) as CU. cbn in CU.
    match goal with |- einv {| e_w := _; e_c := check_all ?c0; e_a := _ |} =>
      pose proof (check_all_fields c0) as CF;
      assert (C2 : c_run_cancelled c0 = false /\ c_start_awaited c0 = c_start_awaited c /\
                   c_started c0 = c_started c /\ c_awaited c0 = S (c_awaited c))
    end.
    { destruct r; cbn; auto. unfold on_out_of_ammo. cbn. destruct (c_start_awaited c) eqn:SA; cbn; auto.
      match goal with |- context [fold_left apply_cancel ooa ?c0] => destruct (fold_cancel_fields ooa c0 NR) as (A & B & C & D) end.
      cbn in *. rewrite A, B, C, D. auto. }
    destruct C2 as (D1 & D2 & D3 & D4). destruct CF as (F1 & F2 & F3 & F4).
    constructor; cbn.
    + intro R. rewrite F1, D2. destruct (F4 R) as [R'|[A L]]; [congruence|].
      rewrite D2 in A. split; [exact A|]. apply count_all. rewrite upd_length.
      rewrite D3, D4, (Is A) in L. lia.
    + rewrite F3, D4. lia.
    + rewrite F1, F2, D2, D3, upd_length. exact Is.
    + intro R. destruct (Ip R) as [R' _]. congruence.
    + exact Il.
    + pose proof (inflight_upd _ _ _ IAwaited En) as P. cbn in P.
      eapply Permutation_trans; [exact If|]. apply Permutation_app_head. symmetry. exact P.
Qed.

Lemma erun_inv ooa evs : no_run_cancel ooa = true -> forall st st', einv st -> erun ooa st evs = Some st' -> einv st'.
Proof.
  intro NR. induction evs as [|e r IH]; cbn; intros st st' I H.
  - inversion H; subst. exact I.
  - destruct (estep ooa st e) as [st1|] eqn:E; [|discriminate].
    exact (IH _ _ (estep_inv _ _ _ _ NR I E) H).
Qed.

Lemma flat_map_spec l : flat_map shot_reports l = flat_map shot_spec l.
Proof. induction l as [|s r IH]; cbn; [reflexivity|]. rewrite IH, shot_reports_spec. reflexivity. Qed.

Lemma requests_perm l1 l2 : Permutation l1 l2 ->
  fold_right (fun s n => shot_requests s + n) 0 l1 = fold_right (fun s n => shot_requests s + n) 0 l2.
Proof. induction 1; cbn; lia. Qed.

Lemma requests_lines l : length (flat_map shot_spec l) = fold_right (fun s n => shot_requests s + n) 0 l.
Proof. induction l as [|s r IH]; cbn; [reflexivity|]. rewrite app_length, IH, shot_spec_count. reflexivity. Qed.

(* the theorem *)
Lemma engine_one_sample_per_fired_request ooa ammo tostart evs st :
  no_run_cancel ooa = true ->
  erun ooa (einit ammo tostart) evs = Some st ->
  (* at every moment: written or queued = the samples of the shots that have ended; nothing else is in flight *)
  a_lines (e_a st) ++ a_sink (e_a st) = flat_map shot_spec (w_reported (e_w st)) /\
  Permutation (w_fired (e_w st)) (w_reported (e_w st) ++ inflight (w_insts (e_w st))) /\
  (* the aggregator stops only when nothing is in flight and nothing will be fired any more *)
  (a_running (e_a st) = false ->
   inflight (w_insts (e_w st)) = [] /\
   Forall (fun s => s = IAwaited) (w_insts (e_w st)) /\ c_start_awaited (e_c st) = true /\
   (* ... so the results are exactly one sample per fired request *)
   a_lines (e_a st) = flat_map shot_spec (w_reported (e_w st)) /\
   Permutation (w_reported (e_w st)) (w_fired (e_w st)) /\
   length (a_lines (e_a st)) = fired_requests st).
Proof.
  intros NR H. pose proof (erun_inv _ _ NR _ _ (einv_init ammo tostart) H) as [Ic In Is Ip Il If].
  split; [rewrite Il; apply flat_map_spec|]. split; [exact If|].
  intro R. destruct (Ip R) as [RC S0]. destruct (Ic RC) as [A F].
  pose proof (all_awaited_inflight _ F) as NF. rewrite NF, app_nil_r in If. rewrite S0, app_nil_r in Il.
  repeat split; auto.
  - rewrite Il. apply flat_map_spec.
  - symmetry. exact If.
  - unfold fired_requests. rewrite (requests_perm _ _ If), Il, flat_map_spec. apply requests_lines.
Qed.

(* every later event leaves a stopped run as it is, as far as the results go *)
Lemma engine_results_final ooa st evs2 st2 :
  a_running (e_a st) = false ->
  erun ooa st evs2 = Some st2 ->
  a_running (e_a st2) = false.
Proof.
  intros R. revert st R st2. induction evs2 as [|e r IH]; cbn; intros st R st2 H.
  - inversion H; subst. exact R.
  - destruct (estep ooa st e) as [st1|] eqn:E; [|discriminate]. apply (IH st1); [|exact H].
    destruct st as [w c a]. cbn in *.
    destruct e; cbn in E;
      repeat match type of E with
             | context [nth_error ?l ?i] => destruct (nth_error l i) as [[| | |]|]; try discriminate E
             | (if ?g then _ else _) = _ => destruct g eqn:?; try discriminate E
             | match ?x with _ => _ end = _ => destruct x eqn:?; try discriminate E
             end; inversion E; subst; cbn; auto; try congruence.
    all: rewrite R in *; cbn in *; try discriminate.
Qed.

(* the variant that cancels the RUN when an instance comes back out of ammo during the start-up:
   two instances, one ammo, a target slower than the start-up: the request is fired and answered, its
   sample reported - and the results stay empty although the pool ends "successfully" *)
Definition lost_witness_shot : shot := ShHttp {| at_enabled := false; at_depth := 2; at_notagonly := true |} false 1%N [116%N] [47%N; 97%N] (XResp 200%N BodyOk).
Definition lost_witness_trace : list eev :=
  [EStart; EAcquire 0; EStart; EAcquire 1; EAwait 1; EAggrStop; EReport 0; ECtxDone 0; EAwait 0; EStartRes].

Lemma engine_cancel_run_loses_requests :
  exists st, erun [CcRun] (einit [lost_witness_shot] 5) lost_witness_trace = Some st /\
             eover st = true /\ Forall (fun s => s = IAwaited) (w_insts (e_w st)) /\
             fired_requests st = 1 /\ a_lines (e_a st) = [] /\
             (* the same trace is one of engine.go's await loop as far as the out-of-ammo result; there the aggregator may not stop *)
             erun engine_ooa (einit [lost_witness_shot] 5) lost_witness_trace = None.
Proof.
  eexists. split; [vm_compute; reflexivity|]. repeat split; try (vm_compute; reflexivity).
  repeat constructor.
Qed.

(* the harness' slow-target trace: all lines with engine.go's loop, for any list of shots of one request each *)
Lemma engine_example_slow :
  let shots := [lost_witness_shot; ShGrpc [103%N] (GCalled 14%N); lost_witness_shot] in
  slow_run_lines engine_ooa shots = flat_map shot_spec shots /\ slow_run_over engine_ooa shots = true /\
  slow_run_lines [CcRun] shots = [] /\ slow_run_over [CcRun] shots = true.
Proof. vm_compute. repeat split; reflexivity. Qed.
