(* The buffered reader of Model/AmmoBufio.v computes ReadString('\n') of the logical byte stream
   (Lib/AmmoLines.read_string), for every buffer size >= 1 and every chunking of the source. *)
From Coq Require Import List NArith Bool Arith Lia.
From PV Require Import Lib.AmmoBytes Lib.AmmoLines Model.AmmoBufio Proofs.AmmoBytesProofs Proofs.AmmoLinesProofs.
Import ListNotations.

Definition chunks_ok (src : source) : bool := forallb (fun c => negb (is_nil c)) src.

Lemma read_string_nf bs c r : read_string bs = (c, r, false) -> c = bs /\ r = [] /\ nolf bs = true.
Proof.
  revert c r; induction bs as [|b bs IH]; intros c r H; cbn [read_string] in H.
  - inversion H; subst. repeat split; reflexivity.
  - destruct (N.eqb b LF) eqn:Eb; [discriminate|].
    destruct (read_string bs) as [[c' r'] ok'] eqn:E. inversion H; subst.
    destruct (IH _ _ eq_refl) as (-> & -> & Hn). repeat split; try reflexivity.
    rewrite nolf_cons, Eb, Hn. reflexivity.
Qed.

Lemma read_string_app_found a t c r : read_string a = (c, r, true) -> read_string (a ++ t) = (c, r ++ t, true).
Proof.
  revert c r; induction a as [|b a IH]; intros c r H; cbn [read_string app] in *; [discriminate|].
  destruct (N.eqb b LF); [inversion H; subst; reflexivity|].
  destruct (read_string a) as [[c' r'] ok'] eqn:E. inversion H; subst.
  rewrite (IH _ _ eq_refl). reflexivity.
Qed.

Lemma read_string_app_nolf d s : nolf d = true ->
  read_string (d ++ s) = let '(c, r, ok) := read_string s in (d ++ c, r, ok).
Proof.
  induction d as [|b d IH]; intros H; cbn [app].
  - destruct (read_string s) as [[c r] ok]. reflexivity.
  - rewrite nolf_cons in H. apply andb_prop in H. destruct H as [Hb Hd]. apply negb_true_iff in Hb.
    cbn [read_string]. rewrite Hb, (IH Hd). destruct (read_string s) as [[c r] ok]. reflexivity.
Qed.

Lemma firstn_skipn_nil {A} n (l : list A) : skipn n l = [] -> firstn n l = l.
Proof. intros H. rewrite <- (firstn_skipn n l) at 2. rewrite H, app_nil_r. reflexivity. Qed.

Lemma src_read_spec space src a src' :
  1 <= space -> chunks_ok src = true -> src_read space src = Some (a, src') ->
  a <> [] /\ concat src = a ++ concat src' /\ chunks_ok src' = true /\ length a <= space.
Proof.
  intros Hs Hc H. destruct src as [|c r]; [discriminate|]. cbn [src_read] in H.
  cbn [chunks_ok forallb] in Hc. apply andb_prop in Hc. destruct Hc as [Hc Hr].
  inversion H; subst; clear H. split; [|split; [|split]].
  - destruct c; [discriminate|]. destruct space; [lia|]. discriminate.
  - cbn [concat]. destruct (skipn space c) eqn:E; cbn [is_nil].
    + rewrite (firstn_skipn_nil _ _ E). reflexivity.
    + cbn [concat]. rewrite <- E, app_assoc, firstn_skipn. reflexivity.
  - destruct (skipn space c) eqn:E; cbn [is_nil]; [exact Hr|]. cbn [chunks_ok forallb]. rewrite Hr. reflexivity.
  - apply firstn_le_length.
Qed.

Section BufioProofs.
  Variable cap : nat.
  Hypothesis Hcap : 1 <= cap.

  Lemma wf_split st : brd_wf st = true ->
    chunks_ok (b_src st) = true /\
    (b_err st = None \/ (b_err st = Some IoEof /\ b_src st = [])).
  Proof.
    unfold brd_wf. intros H. apply andb_prop in H. destruct H as [H1 H2]. split; [exact H1|].
    destruct (b_err st) as [[|]|]; [right|discriminate|left; reflexivity].
    split; [reflexivity|]. destruct (b_src st); [reflexivity|discriminate].
  Qed.

  (* one fill: the stream is unchanged; either bytes moved from the source into the buffer, or the
     source was at its end and EOF is now pending *)
  Lemma fill_spec st :
    brd_wf st = true -> b_err st = None -> length (b_buf st) < cap ->
    let st' := fill cap st in
    brd_wf st' = true /\ stream st' = stream st /\
    ((b_err st' = Some IoEof /\ b_src st' = [] /\ b_buf st' = b_buf st) \/
     (b_err st' = None /\ length (concat (b_src st')) < length (concat (b_src st)))).
  Proof.
    intros Hwf He Hlen. destruct (wf_split _ Hwf) as [Hc _].
    unfold fill. change 100 with (S 99). cbn [fill_loop].
    destruct (src_read (cap - length (b_buf st)) (b_src st)) as [[a src']|] eqn:E.
    - assert (Hsp : 1 <= cap - length (b_buf st)) by lia.
      destruct (src_read_spec _ _ _ _ Hsp Hc E) as (Ha & Hcat & Hc' & _).
      destruct a as [|x a]; [contradiction|]. cbn [is_nil].
      split; [|split].
      + unfold brd_wf. cbn. fold (chunks_ok src'). rewrite Hc'. reflexivity.
      + unfold stream. cbn [b_buf b_src]. rewrite Hcat, app_assoc. reflexivity.
      + right. split; [reflexivity|]. cbn [b_src]. rewrite Hcat, app_length. cbn [length]. lia.
    - destruct (b_src st) eqn:Es; [|discriminate]. split; [|split].
      + reflexivity.
      + unfold stream. cbn [b_buf b_src]. rewrite Es. reflexivity.
      + left. repeat split; reflexivity.
  Qed.

  Definition slice_measure (st : brd) : nat :=
    length (concat (b_src st)) + match b_err st with None => 2 | Some _ => 1 end.

  Lemma read_slice_spec : forall fuel st,
    brd_wf st = true -> slice_measure st <= fuel ->
    match read_slice cap fuel st with
    | SLine l st' => brd_wf st' = true /\ read_string (stream st) = (l, stream st', true)
    | SErr d e st' => e = IoEof /\ brd_wf st' = true /\ stream st = d /\ nolf d = true /\ stream st' = []
    | SFull d st' => brd_wf st' = true /\ stream st = d ++ stream st' /\ nolf d = true /\ cap <= length d
    | SFuel => False
    end.
  Proof.
    induction fuel as [|f IH]; intros st Hwf Hm.
    - unfold slice_measure in Hm. destruct (b_err st); lia.
    - cbn [read_slice]. destruct (wf_split _ Hwf) as [Hc He].
      destruct (read_string (b_buf st)) as [[c rest] found] eqn:E. destruct found.
      + split.
        * unfold brd_wf in *. exact Hwf.
        * unfold stream. cbn [b_buf b_src]. apply read_string_app_found. exact E.
      + destruct (read_string_nf _ _ _ E) as (_ & _ & Hn).
        destruct He as [He|[He Hs]]; rewrite He.
        * destruct (cap <=? length (b_buf st)) eqn:Ec.
          -- apply Nat.leb_le in Ec. repeat split; try assumption.
             unfold brd_wf. cbn. fold (chunks_ok (b_src st)). rewrite Hc. reflexivity.
          -- apply Nat.leb_gt in Ec.
             destruct (fill_spec st Hwf He Ec) as (Hwf' & Hst & Hcase). cbv zeta in *.
             specialize (IH (fill cap st) Hwf').
             assert (Hm' : slice_measure (fill cap st) <= f).
             { unfold slice_measure in *. rewrite He in Hm.
               destruct Hcase as [(He' & Hs' & _)|(He' & Hl)]; rewrite He'.
               - rewrite Hs'. cbn. lia.
               - lia. }
             specialize (IH Hm'). rewrite <- Hst. exact IH.
        * repeat split.
          -- unfold brd_wf. cbn. rewrite Hs. reflexivity.
          -- unfold stream. rewrite Hs. cbn. apply app_nil_r.
          -- exact Hn.
          -- unfold stream. cbn. rewrite Hs. reflexivity.
  Qed.

  (* ReadString of the buffered reader = ReadString of the logical stream *)
  Lemma buf_read_string_spec : forall fuel acc st,
    brd_wf st = true -> S (length (stream st)) <= fuel ->
    match buf_read_string cap fuel acc st with
    | RSData data err st' =>
        brd_wf st' = true /\
        read_string (stream st) =
          (skipn (length acc) data, stream st', match err with None => true | Some _ => false end) /\
        firstn (length acc) data = acc /\ (err = None \/ err = Some IoEof)
    | RSFuel => False
    end.
  Proof.
    induction fuel as [|f IH]; intros acc st Hwf Hf; [lia|].
    cbn [buf_read_string].
    pose proof (read_slice_spec (S (S (length (concat (b_src st))))) st Hwf) as Hs.
    assert (Hm : slice_measure st <= S (S (length (concat (b_src st))))).
    { unfold slice_measure. destruct (b_err st); lia. }
    specialize (Hs Hm).
    destruct (read_slice cap (S (S (length (concat (b_src st))))) st) as [l st'|d e st'|d st'|]; [| | |contradiction].
    - destruct Hs as [Hwf' Hr]. split; [exact Hwf'|]. split; [|split; [|left; reflexivity]].
      + rewrite skipn_app, skipn_all, Nat.sub_diag. cbn. exact Hr.
      + rewrite firstn_app, firstn_all, Nat.sub_diag. cbn. apply app_nil_r.
    - destruct Hs as (-> & Hwf' & Hst & Hn & Hst'). split; [exact Hwf'|]. split; [|split; [|right; reflexivity]].
      + rewrite skipn_app, skipn_all, Nat.sub_diag. cbn. rewrite Hst, Hst'. apply read_string_eof. exact Hn.
      + rewrite firstn_app, firstn_all, Nat.sub_diag. cbn. apply app_nil_r.
    - destruct Hs as (Hwf' & Hst & Hn & Hlen).
      assert (Hf' : S (length (stream st')) <= f).
      { rewrite Hst, app_length in Hf. lia. }
      specialize (IH (acc ++ d) st' Hwf' Hf').
      destruct (buf_read_string cap f (acc ++ d) st') as [data err st''|]; [|contradiction].
      destruct IH as (Hwf'' & Hr & Hfn & He). split; [exact Hwf''|]. split; [|split; [|exact He]].
      + rewrite Hst, (read_string_app_nolf _ _ Hn), Hr. f_equal. f_equal.
        rewrite app_length in Hr, Hfn.
        assert (Hd : data = (acc ++ d) ++ skipn (length acc + length d) data)
          by (rewrite <- Hfn at 1; symmetry; apply firstn_skipn).
        remember (skipn (length acc + length d) data) as tl eqn:Etl. clear Etl.
        rewrite Hd. rewrite (skipn_app (length (acc ++ d))), skipn_all, Nat.sub_diag. cbn [app skipn].
        rewrite <- app_assoc, skipn_app, skipn_all, Nat.sub_diag. reflexivity.
      + rewrite app_length in Hfn.
        assert (H2 : firstn (length acc) (firstn (length acc + length d) data) = firstn (length acc) (acc ++ d)) by (rewrite Hfn; reflexivity).
        rewrite firstn_firstn, Nat.min_l in H2 by lia. rewrite H2, firstn_app, firstn_all, Nat.sub_diag. cbn. apply app_nil_r.
  Qed.

  Theorem read_string_b_exact st :
    brd_wf st = true ->
    exists data err st',
      read_string_b cap st = RSData data err st' /\ brd_wf st' = true /\
      (err = None \/ err = Some IoEof) /\
      read_string (stream st) = (data, stream st', match err with None => true | Some _ => false end).
  Proof.
    intros Hwf. unfold read_string_b.
    pose proof (buf_read_string_spec (rs_fuel st) [] st Hwf ltac:(unfold rs_fuel; lia)) as H.
    destruct (buf_read_string cap (rs_fuel st) [] st) as [data err st'|]; [|contradiction].
    destruct H as (Hwf' & Hr & _ & He). exists data, err, st'. repeat split; assumption.
  Qed.
  (* ---------- Read and bodies ---------- *)
  Lemma firstn_nonempty {A} m (l : list A) : 1 <= m -> l <> [] -> firstn m l <> [].
  Proof. intros Hm Hl. destruct l; [contradiction|]. destruct m; [lia|]. discriminate. Qed.

  Lemma buf_read_spec m st :
    1 <= m -> brd_wf st = true ->
    match buf_read cap m st with
    | RdData a st' => brd_wf st' = true /\ stream st = a ++ stream st' /\ a <> [] /\ length a <= m
    | RdErr e st' => e = IoEof /\ brd_wf st' = true /\ stream st = [] /\ stream st' = []
    end.
  Proof.
    intros Hm Hwf. destruct (wf_split _ Hwf) as [Hc He]. unfold buf_read.
    destruct (b_buf st) as [|x buf] eqn:Eb.
    - destruct He as [He|[He Hs]]; rewrite He.
      + destruct (cap <=? m) eqn:Ec.
        * destruct (src_read m (b_src st)) as [[a src']|] eqn:E.
          -- destruct (src_read_spec _ _ _ _ Hm Hc E) as (Ha & Hcat & Hc' & Hl).
             repeat split; try assumption.
             ++ unfold brd_wf. cbn. fold (chunks_ok src'). rewrite Hc'. reflexivity.
             ++ unfold stream. rewrite Eb. cbn. exact Hcat.
          -- destruct (b_src st) eqn:Es; [|discriminate]. unfold stream. rewrite Eb, Es. repeat split; reflexivity.
        * destruct (src_read cap (b_src st)) as [[a src']|] eqn:E.
          -- destruct (src_read_spec _ _ _ _ Hcap Hc E) as (Ha & Hcat & Hc' & Hl).
             split; [|split; [|split]].
             ++ unfold brd_wf. cbn. fold (chunks_ok src'). rewrite Hc'. reflexivity.
             ++ unfold stream. rewrite Eb. cbn. rewrite Hcat, app_assoc, firstn_skipn. reflexivity.
             ++ apply firstn_nonempty; assumption.
             ++ apply firstn_le_length.
          -- destruct (b_src st) eqn:Es; [|discriminate]. unfold stream. rewrite Eb, Es. repeat split; reflexivity.
      + unfold stream. rewrite Eb, Hs. repeat split; try reflexivity.
    - split; [|split; [|split]].
      + unfold brd_wf in *. cbn. exact Hwf.
      + unfold stream. rewrite Eb. cbn [b_buf b_src]. rewrite app_assoc, firstn_skipn. reflexivity.
      + apply firstn_nonempty; [exact Hm|discriminate].
      + apply firstn_le_length.
  Qed.

  Section ReadNProofs.
    Variable ask : nat -> nat.
    Hypothesis Hask : forall left, 1 <= left -> 1 <= ask left <= left.

    Lemma buf_read_n_spec : forall fuel left acc st,
      brd_wf st = true -> left <= fuel ->
      match buf_read_n cap ask fuel left acc st with
      | Some (Some body, st') =>
          brd_wf st' = true /\ exists b, body = acc ++ b /\ length b = left /\ stream st = b ++ stream st'
      | Some (None, st') => length (stream st) < left /\ brd_wf st' = true /\ stream st' = []
      | None => False
      end.
    Proof.
      induction fuel as [|f IH]; intros left acc st Hwf Hf.
      - assert (left = 0) by lia. subst. cbn. split; [exact Hwf|]. exists []. rewrite app_nil_r. repeat split; reflexivity.
      - destruct left as [|l]; cbn [buf_read_n].
        + split; [exact Hwf|]. exists []. rewrite app_nil_r. repeat split; reflexivity.
        + destruct (Hask (S l) ltac:(lia)) as [Ha1 Ha2].
          pose proof (buf_read_spec (ask (S l)) st Ha1 Hwf) as Hr.
          destruct (buf_read cap (ask (S l)) st) as [a st'|e st'].
          * destruct Hr as (Hwf' & Hst & Hne & Hl).
            assert (Hla : 1 <= length a) by (destruct a; [contradiction|cbn; lia]).
            specialize (IH (S l - length a) (acc ++ a) st' Hwf' ltac:(lia)).
            destruct (buf_read_n cap ask f (S l - length a) (acc ++ a) st') as [[[body|] st'']|]; [| |contradiction].
            -- destruct IH as (Hwf'' & b & Hb & Hlb & Hsb). split; [exact Hwf''|].
               exists (a ++ b). rewrite app_assoc. split; [exact Hb|]. split.
               ++ rewrite app_length. lia.
               ++ rewrite Hst, Hsb, app_assoc. reflexivity.
            -- destruct IH as (Hlt & Hwf'' & Hs''). split; [rewrite Hst, app_length; lia|]. split; assumption.
          * destruct Hr as (_ & Hwf' & Hst & Hst'). split; [rewrite Hst; cbn; lia|]. split; assumption.
    Qed.
  End ReadNProofs.

  Lemma nlen_length {A} (l : list A) : nlen l = N.of_nat (length l).
  Proof. induction l as [|x l IH]; [reflexivity|]. cbn [nlen length]. rewrite IH. lia. Qed.

  Lemma read_full_short : forall bs n, (N.of_nat (length bs) < n)%N -> read_full n bs = None.
  Proof.
    induction bs as [|b bs IH]; intros n H; cbn [read_full].
    - destruct (N.eqb_spec n 0); [cbn in H; lia|reflexivity].
    - destruct (N.eqb_spec n 0) as [->|Hn]; [lia|].
      rewrite IH; [reflexivity|]. cbn [length] in H. lia.
  Qed.

  (* a body of n bytes read through Read calls of any sizes = ReadFull of the logical stream *)
  Theorem buf_read_n_exact ask n st :
    (forall left, 1 <= left -> 1 <= ask left <= left) -> brd_wf st = true ->
    match buf_read_n cap ask n n [] st with
    | Some (Some body, st') => brd_wf st' = true /\ read_full (N.of_nat n) (stream st) = Some (body, stream st')
    | Some (None, st') => read_full (N.of_nat n) (stream st) = None /\ brd_wf st' = true /\ stream st' = []
    | None => False
    end.
  Proof.
    intros Hask Hwf. pose proof (buf_read_n_spec ask Hask n n [] st Hwf (le_n _)) as H.
    destruct (buf_read_n cap ask n n [] st) as [[[body|] st']|]; [| |contradiction].
    - destruct H as (Hwf' & b & -> & Hl & Hs). split; [exact Hwf'|]. cbn [app].
      rewrite Hs, <- Hl, <- nlen_length. apply read_full_exact.
    - destruct H as (Hlt & Hwf' & Hs). split; [apply read_full_short; lia|]. split; assumption.
  Qed.

  (* every client of the reader gets from the buffered reader what it gets from the logical stream *)
  Theorem run_buf_exact {R} ask (p : rprog R) :
    (forall left, 1 <= left -> 1 <= ask left <= left) ->
    forall st, brd_wf st = true ->
    exists st', run_buf cap ask p st = Some (fst (run_exact p (stream st)), st') /\
                brd_wf st' = true /\ stream st' = snd (run_exact p (stream st)).
  Proof.
    intros Hask. induction p as [r|k IH|n k IH]; intros st Hwf; cbn [run_buf run_exact].
    - exists st. repeat split; assumption.
    - destruct (read_string_b_exact st Hwf) as (d & err & st' & Hr & Hwf' & He & Hx).
      rewrite Hr, Hx. destruct He as [->| ->]; apply IH; exact Hwf'.
    - pose proof (buf_read_n_exact ask n st Hask Hwf) as H.
      destruct (buf_read_n cap ask n n [] st) as [[[body|] st']|]; [| |contradiction].
      + destruct H as (Hwf' & Hx). rewrite Hx. apply IH. exact Hwf'.
      + destruct H as (Hx & Hwf' & Hs). rewrite Hx, <- Hs. apply IH. exact Hwf'.
  Qed.
End BufioProofs.
