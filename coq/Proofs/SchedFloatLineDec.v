(* Property C01, floating-point side: lineDoAt in IEEE-754 binary64 for DECREASING lines
   (slope a = -alpha < 0).  Here the radicand b^2 - 2 alpha i itself is a difference of nearly
   equal numbers towards the end of the profile: with R = b^2 - 2 alpha i, S = sqrt R (the rate
   at the instant of operation i), Y = (b - S) 1e9/alpha the exact instant, the float64 value is
   within  4u Y + 5u V + eta  of Y, where  V = (b^2/S) 1e9/alpha = (b/S) * b 1e9/alpha  carries
   both cancellations (b/S grows as the rate falls).  Guard: 64 u b^2 <= R (the radicand is not
   within relative 64u of zero: otherwise its float64 value may even be negative -> NaN). *)
From Coq Require Import ZArith Reals Lra Lia Psatz.
From Flocq Require Import Core.
From PV Require Import Proofs.SchedFloatCore Proofs.SchedFloatRel Proofs.SchedFloatConst Proofs.SchedFloatLine.
Local Open Scope R_scope.

Ltac usmall := pose proof u_pos as Hu_pos; pose proof u_val as Hu_val;
  assert (Hu_small : u <= / 1000000) by (rewrite u_val; lra).

(* the expression of lineDoAt for a = -alpha with the signs pushed through the roundings *)
Definition go_line_sqrt_dec (alpha b : R) (i : Z) : R :=
  fsqrt (fsub (fmul b b) (fmul (fmul 2 alpha) (of_int i))).
Definition go_line_at_dec_f (alpha b : R) (i : Z) : R :=
  fmul (fsub b (go_line_sqrt_dec alpha b i)) (fdiv billion alpha).

Lemma go_line_at_f_neg alpha b i : alpha <> 0 ->
  go_line_at_f (- alpha) b i = go_line_at_dec_f alpha b i.
Proof.
  intros Hne. unfold go_line_at_f, go_line_at_dec_f, go_line_sqrt, go_line_sqrt_dec, fmul, fsub, fadd, fdiv, fsqrt.
  replace (2 * - alpha) with (- (2 * alpha)) by ring. rewrite rnd_opp.
  replace (- rnd (2 * alpha) * of_int i) with (- (rnd (2 * alpha) * of_int i)) by ring. rewrite rnd_opp.
  replace (- rnd (rnd (2 * alpha) * of_int i) + rnd (b * b)) with (rnd (b * b) - rnd (rnd (2 * alpha) * of_int i)) by ring.
  set (sh := rnd (sqrt (rnd (rnd (b * b) - rnd (rnd (2 * alpha) * of_int i))))).
  replace (billion / - alpha) with (- (billion / alpha)) by (field; exact Hne). rewrite rnd_opp.
  replace (rnd (sh - b) * - rnd (billion / alpha)) with (- rnd (sh - b) * rnd (billion / alpha)) by ring.
  rewrite <- rnd_opp. replace (- (sh - b)) with (b - sh) by ring. reflexivity.
Qed.

Lemma sqrt_abs_err x y : 0 <= x -> 0 < y -> Rabs (sqrt x - sqrt y) <= Rabs (x - y) / sqrt y.
Proof.
  intros Hx Hy. assert (Hsy : 0 < sqrt y) by (apply sqrt_lt_R0; exact Hy).
  pose proof (sqrt_pos x) as Hsx.
  apply (Rmult_le_reg_r (sqrt y)); [exact Hsy|].
  unfold Rdiv. rewrite Rmult_assoc, Rinv_l by lra. rewrite Rmult_1_r.
  replace (x - y) with ((sqrt x - sqrt y) * (sqrt x + sqrt y)).
  - rewrite Rabs_mult. apply Rmult_le_compat_l; [apply Rabs_pos|].
    rewrite Rabs_pos_eq by lra. lra.
  - replace ((sqrt x - sqrt y) * (sqrt x + sqrt y)) with (sqrt x * sqrt x - sqrt y * sqrt y) by ring.
    rewrite !sqrt_sqrt by lra. reflexivity.
Qed.

(* the square root of the cancelling radicand *)
Lemma dec_sqrt_err alpha b i :
  is_b64 alpha -> slope_guard alpha -> rate_guard b -> (0 <= i < 2 ^ 53)%Z ->
  let R := b * b - 2 * alpha * IZR i in
  64 * u * (b * b) <= R ->
  let S := sqrt R in
  0 < S <= b /\
  Rabs (go_line_sqrt_dec alpha b i - S) <= (u * S + 2 * u * (1 + u) * (b * b / S)) * (1 + u) + u * S.
Proof.
  intros Fa [Ha1 Ha2] [Hb1 Hb2] Hi R HG S. usmall. unfold p2_20, p2_40, p2_50 in *.
  pose proof tiny_le_2m100 as Ht. pose proof tiny_pos as Ht0.
  assert (Hb0 : 0 < b) by lra.
  assert (Hi0 : 0 <= IZR i) by (apply IZR_le; lia).
  assert (Hbb : / 1048576 * / 1048576 <= b * b) by (apply Rmult_le_compat; lra).
  assert (H2a : 0 <= 2 * alpha * IZR i) by (apply Rmult_le_pos; lra).
  assert (HR0 : 0 < R) by (rewrite Hu_val in HG; lra).
  assert (HRb : R <= b * b) by (unfold R; lra).
  assert (HS : 0 < S) by (apply sqrt_lt_R0; exact HR0).
  assert (HSS : S * S = R) by (apply sqrt_sqrt; lra).
  assert (HSb : S <= b).
  { unfold S. rewrite <- (sqrt_square b) by lra. apply sqrt_le_1_alt. exact HRb. }
  split; [split; assumption|].
  unfold go_line_sqrt_dec, fsqrt, fmul.
  rewrite (rnd_id (2 * alpha)) by (apply is_b64_double; exact Fa).
  rewrite of_int_exact by lia.
  (* t1, t2 *)
  set (t1 := rnd (2 * alpha * IZR i)). set (t2 := rnd (b * b)).
  assert (E1 : Rabs (t1 - 2 * alpha * IZR i) <= u * (2 * alpha * IZR i)).
  { destruct (Z.eq_dec i 0) as [->|Hne].
    - unfold t1. replace (2 * alpha * 0) with 0 by ring. rewrite rnd_0. rewrite Rminus_0_r, Rabs_R0. lra.
    - assert (1 <= IZR i) by (apply IZR_le; lia).
      assert (tiny <= 2 * alpha * IZR i).
      { apply Rle_trans with (2 * / 1099511627776 * 1); [lra|]. apply Rmult_le_compat; lra. }
      pose proof (rnd_pos_bounds _ H0) as [L U]. apply Rabs_le. fold t1 in L, U. lra. }
  assert (E2 : Rabs (t2 - b * b) <= u * (b * b)).
  { assert (tiny <= b * b) by lra. pose proof (rnd_pos_bounds _ H) as [L U]. apply Rabs_le. fold t2 in L, U. lra. }
  assert (E3 : Rabs ((t2 - t1) - R) <= 2 * u * (b * b)).
  { replace (t2 - t1 - R) with ((t2 - b * b) - (t1 - 2 * alpha * IZR i)) by (unfold R; ring).
    apply Rle_trans with (Rabs (t2 - b * b) + Rabs (t1 - 2 * alpha * IZR i)).
    - unfold Rminus at 1. rewrite <- (Rabs_Ropp (t1 - 2 * alpha * IZR i)). apply Rabs_triang.
    - assert (u * (2 * alpha * IZR i) <= u * (b * b)) by (apply Rmult_le_compat_l; unfold R in HR0; lra). lra. }
  assert (F1 : is_b64 t1) by apply is_b64_rnd. assert (F2 : is_b64 t2) by apply is_b64_rnd.
  pose proof (fsub_err t2 t1 F2 F1) as E4. unfold fsub in *.
  set (rh := rnd (t2 - t1)) in *.
  (* |rh - R| <= u R + 2u(1+u) b^2 *)
  assert (E5 : Rabs (rh - R) <= u * R + 2 * u * (1 + u) * (b * b)).
  { replace (rh - R) with ((rh - (t2 - t1)) + ((t2 - t1) - R)) by ring.
    apply Rle_trans with (1 := Rabs_triang _ _).
    assert (Rabs (t2 - t1) <= R + 2 * u * (b * b)).
    { apply Rabs_le_inv in E3. apply Rabs_le. assert (0 <= u * (b * b)) by (apply Rmult_le_pos; lra). lra. }
    assert (u * Rabs (t2 - t1) <= u * (R + 2 * u * (b * b))) by (apply Rmult_le_compat_l; lra). lra. }
  (* rh is positive and normal *)
  assert (E5' : u * R + 2 * u * (1 + u) * (b * b) <= R / 16).
  { assert (2 * u * (1 + u) * (b * b) <= (1 + u) / 32 * R).
    { replace (2 * u * (1 + u) * (b * b)) with ((1 + u) / 32 * (64 * u * (b * b))) by field.
      apply Rmult_le_compat_l; lra. }
    nra. }
  assert (Hrh : 15 / 16 * R <= rh) by (apply Rabs_le_inv in E5; lra).
  assert (Hrh0 : tiny <= rh).
  { apply Rle_trans with (15 / 16 * (64 * u * (/ 1048576 * / 1048576))); [rewrite Hu_val; lra|].
    apply Rle_trans with (15 / 16 * R); [|exact Hrh].
    apply Rmult_le_compat_l; [lra|]. apply Rle_trans with (64 * u * (b * b)); [|exact HG].
    apply Rmult_le_compat_l; lra. }
  (* sqrt *)
  assert (E6 : Rabs (sqrt rh - S) <= u * S + 2 * u * (1 + u) * (b * b / S)).
  { apply Rle_trans with (1 := sqrt_abs_err rh R (Rle_trans _ _ _ (Rlt_le _ _ Ht0) Hrh0) HR0). fold S.
    apply Rle_trans with ((u * R + 2 * u * (1 + u) * (b * b)) / S).
    - unfold Rdiv. apply Rmult_le_compat_r; [apply Rlt_le, Rinv_0_lt_compat; exact HS|exact E5].
    - right. rewrite <- HSS. field. lra. }
  assert (Hsq : tiny <= sqrt rh) by (apply tiny_le_sqrt; exact Hrh0).
  pose proof (rnd_pos_bounds _ Hsq) as [L U].
  set (d4 := u * S + 2 * u * (1 + u) * (b * b / S)) in *.
  assert (Hd4 : 0 <= d4).
  { unfold d4. assert (0 <= b * b / S) by (apply Rmult_le_pos; [lra|apply Rlt_le, Rinv_0_lt_compat; exact HS]).
    assert (0 <= 2 * u * (1 + u) * (b * b / S)) by (apply Rmult_le_pos; [nra|exact H]). nra. }
  apply Rabs_le_inv in E6. apply Rabs_le.
  assert (0 <= sqrt rh) by apply sqrt_pos.
  split; nra.
Qed.

(* product with the rounded quotient and final rounding, from an absolute error on the factor *)
Lemma mul_rnd_err (d W dl q Q p : R) :
  0 <= W -> 0 <= Q -> 0 <= dl ->
  Rabs (d - W) <= dl -> Rabs (q - Q) <= Q * u ->
  Rabs (p - d * q) <= u * Rabs (d * q) + eta ->
  Rabs (p - W * Q) <= ((dl * Q) * (1 + u) + (W * Q) * u) * (1 + u) + u * (W * Q) + eta.
Proof.
  intros HW HQ Hdl A2 Hq Hp. usmall.
  assert (A3 : Rabs q <= Q * (1 + u)).
  { apply Rabs_le_inv in Hq. apply Rabs_le. assert (0 <= Q * u) by (apply Rmult_le_pos; lra). lra. }
  set (errP := dl * (Q * (1 + u)) + W * (Q * u)).
  assert (A4 : Rabs (d * q - W * Q) <= errP).
  { replace (d * q - W * Q) with ((d - W) * q + W * (q - Q)) by ring.
    apply Rle_trans with (1 := Rabs_triang _ _). rewrite !Rabs_mult. unfold errP.
    apply Rplus_le_compat.
    - apply Rmult_le_compat; [apply Rabs_pos|apply Rabs_pos|exact A2|exact A3].
    - rewrite (Rabs_pos_eq W) by exact HW. apply Rmult_le_compat_l; [exact HW|exact Hq]. }
  assert (HWQ : 0 <= W * Q) by (apply Rmult_le_pos; assumption).
  assert (HerrP : 0 <= errP).
  { unfold errP. assert (0 <= dl * (Q * (1 + u))) by (apply Rmult_le_pos; [exact Hdl|apply Rmult_le_pos; lra]).
    assert (0 <= W * (Q * u)) by (apply Rmult_le_pos; [exact HW|apply Rmult_le_pos; lra]). lra. }
  assert (A5 : Rabs (d * q) <= W * Q + errP).
  { apply Rabs_le_inv in A4. apply Rabs_le. lra. }
  replace (p - W * Q) with ((p - d * q) + (d * q - W * Q)) by ring.
  apply Rle_trans with (1 := Rabs_triang _ _).
  assert (u * Rabs (d * q) <= u * (W * Q + errP)) by (apply Rmult_le_compat_l; lra).
  apply Rle_trans with (errP * (1 + u) + u * (W * Q) + eta); [lra|]. right. unfold errP. ring.
Qed.

Definition line_V (alpha b : R) (i : Z) : R :=
  b * b / sqrt (b * b - 2 * alpha * IZR i) * (billion / alpha).

(* lineDoAt for a decreasing line, before the conversion to time.Duration *)
Theorem line_at_dec_f_err alpha b i :
  is_b64 alpha -> is_b64 b -> slope_guard alpha -> rate_guard b -> (0 <= i < 2 ^ 53)%Z ->
  64 * u * (b * b) <= b * b - 2 * alpha * IZR i ->
  let Y := line_Y (- alpha) b i in
  Rabs (go_line_at_f (- alpha) b i - Y) <= 4 * u * Y + 5 * u * line_V alpha b i + eta /\
  0 <= Y <= line_V alpha b i.
Proof.
  intros Fa Fb Hga Hgb Hi HG Y. usmall.
  destruct (dec_sqrt_err alpha b i Fa Hga Hgb Hi HG) as ([HS HSb] & Es).
  destruct Hga as [Ha1 Ha2]. destruct Hgb as [Hb1 Hb2]. unfold p2_20, p2_40, p2_50 in *.
  pose proof tiny_le_2m100 as Ht. pose proof tiny_pos as Ht0.
  assert (Ha0 : 0 < alpha) by lra. assert (Hb0 : 0 < b) by lra.
  rewrite go_line_at_f_neg by lra.
  set (R := b * b - 2 * alpha * IZR i) in *. set (S := sqrt R) in *.
  set (Q := billion / alpha).
  assert (HQ : 0 < Q) by (unfold Q, billion; apply Rmult_lt_0_compat; [lra|apply Rinv_0_lt_compat; exact Ha0]).
  (* the exact instant *)
  assert (EY : Y = (b - S) * Q).
  { unfold Y, line_Y, line_S, Q. replace (2 * - alpha * IZR i + b * b) with R by (unfold R; ring). fold S.
    field. lra. }
  set (K := b * b / S) in *.
  assert (HK : b <= K).
  { unfold K. apply (Rmult_le_reg_r S); [exact HS|]. unfold Rdiv. rewrite Rmult_assoc, Rinv_l by lra. nra. }
  assert (EV : line_V alpha b i = K * Q) by (unfold line_V, K, Q; fold R; fold S; reflexivity).
  set (sh := go_line_sqrt_dec alpha b i) in *.
  set (dS := (u * S + 2 * u * (1 + u) * K) * (1 + u) + u * S) in *.
  assert (HK0 : 0 <= K) by lra.
  assert (HuK : 0 <= 2 * u * (1 + u) * K) by (apply Rmult_le_pos; [nra|exact HK0]).
  assert (HdS : 0 <= dS).
  { unfold dS. assert (0 <= u * S) by (apply Rmult_le_pos; lra).
    assert (0 <= (u * S + 2 * u * (1 + u) * K) * (1 + u)) by (apply Rmult_le_pos; lra). lra. }
  (* b - sh *)
  assert (Hsh : is_b64 sh) by (unfold sh, go_line_sqrt_dec, fsqrt; apply is_b64_rnd).
  pose proof (fsub_err b sh Fb Hsh) as Hd.
  set (W := b - S). assert (HW : 0 <= W) by (unfold W; lra).
  set (dd := dS * (1 + u) + u * W).
  assert (A2 : Rabs (fsub b sh - W) <= dd).
  { assert (A1 : Rabs (b - sh) <= W + dS).
    { apply Rabs_le_inv in Es. apply Rabs_le. unfold W. lra. }
    replace (fsub b sh - W) with ((fsub b sh - (b - sh)) + (S - sh)) by (unfold W; ring).
    apply Rle_trans with (1 := Rabs_triang _ _).
    assert (u * Rabs (b - sh) <= u * (W + dS)) by (apply Rmult_le_compat_l; lra).
    rewrite <- (Rabs_Ropp (S - sh)). replace (- (S - sh)) with (sh - S) by ring. unfold dd. lra. }
  assert (Hdd : 0 <= dd).
  { unfold dd. assert (0 <= dS * (1 + u)) by (apply Rmult_le_pos; lra).
    assert (0 <= u * W) by (apply Rmult_le_pos; lra). lra. }
  (* 1e9 / alpha *)
  assert (Hq : Rabs (fdiv billion alpha - Q) <= Q * u).
  { unfold fdiv. fold Q. assert (tiny <= Q).
    { unfold Q, billion. apply Rle_trans with (1000000000 * / 1125899906842624); [lra|].
      apply Rmult_le_compat_l; [lra|]. apply Rinv_le_contravar; lra. }
    pose proof (rnd_pos_bounds _ H) as [L U]. apply Rabs_le. lra. }
  pose proof (rnd_abs_err (fsub b sh * fdiv billion alpha)) as Hp.
  pose proof (mul_rnd_err (fsub b sh) W dd (fdiv billion alpha) Q (go_line_at_dec_f alpha b i)
                HW (Rlt_le _ _ HQ) Hdd A2 Hq Hp) as H.
  rewrite EY, EV. fold W.
  set (YQ := W * Q) in *. set (KQ := K * Q).
  assert (HYQ : 0 <= YQ) by (unfold YQ; apply Rmult_le_pos; lra).
  assert (HKQ : YQ <= KQ).
  { unfold YQ, KQ. apply Rmult_le_compat_r; [lra|]. unfold W. lra. }
  split; [|split; assumption].
  apply Rle_trans with (1 := H).
  (* dd * Q <= c KQ + u YQ *)
  assert (HSK : S * Q <= KQ) by (unfold KQ; apply Rmult_le_compat_r; lra).
  assert (EdQ : dd * Q = (((u * (S * Q) + 2 * u * (1 + u) * KQ) * (1 + u) + u * (S * Q)) * (1 + u)) + u * YQ).
  { unfold dd, dS, KQ, YQ. ring. }
  rewrite EdQ.
  assert (HSQ0 : 0 <= S * Q) by (apply Rmult_le_pos; lra).
  rewrite Hu_val in *. nra.
Qed.

(* ------------------------------------------------------------------------------------ *)
(* sensitivity of the exact instant of a decreasing line to the slope (alpha' = alpha(1 +- 5u)) *)
Lemma line_perturb_dec alpha alpha' b i :
  0 < alpha -> rel alpha' alpha (5 * u) -> 0 < b -> (0 <= i)%Z ->
  128 * u * (b * b) <= b * b - 2 * alpha * IZR i ->
  let Y := line_Y (- alpha) b i in let Y' := line_Y (- alpha') b i in
  64 * u * (b * b) <= b * b - 2 * alpha' * IZR i /\
  Rabs (Y' - Y) <= 6 * u * line_V alpha b i + 6 * u * Y /\
  line_V alpha' b i <= 21 / 20 * line_V alpha b i /\
  0 <= Y <= line_V alpha b i.
Proof.
  intros Ha [Hr1 Hr2] Hb Hi HG Y Y'. usmall.
  assert (Hi0 : 0 <= IZR i) by (apply IZR_le; lia).
  assert (Ha' : 0 < alpha') by nra.
  set (R := b * b - 2 * alpha * IZR i) in *. set (R' := b * b - 2 * alpha' * IZR i).
  assert (Hbb : 0 < b * b) by nra.
  assert (HR0 : 0 < R) by nra.
  assert (H2a : 0 <= 2 * alpha * IZR i) by (apply Rmult_le_pos; lra).
  assert (H2ab : 2 * alpha * IZR i <= b * b) by (unfold R in HR0; lra).
  assert (HdR : Rabs (R' - R) <= 5 * u * (b * b)).
  { replace (R' - R) with (2 * IZR i * (alpha - alpha')) by (unfold R, R'; ring).
    apply Rabs_le. split; nra. }
  assert (HubR : u * (b * b) <= R / 128) by lra.
  assert (HR' : 15 / 16 * R <= R') by (apply Rabs_le_inv in HdR; lra).
  assert (HG' : 64 * u * (b * b) <= R') by (apply Rabs_le_inv in HdR; lra).
  split; [exact HG'|].
  set (S := sqrt R). set (S' := sqrt R').
  assert (HS : 0 < S) by (apply sqrt_lt_R0; exact HR0).
  assert (HSS : S * S = R) by (apply sqrt_sqrt; lra).
  assert (HSb : S <= b).
  { unfold S. rewrite <- (sqrt_square b) by lra. apply sqrt_le_1_alt. unfold R. lra. }
  assert (HS' : 24 / 25 * S <= S').
  { unfold S'. rewrite <- (sqrt_square (24 / 25 * S)) by lra. apply sqrt_le_1_alt. nra. }
  set (K := b * b / S).
  assert (HKS : K * S = b * b) by (unfold K; field; lra).
  assert (HK : b <= K) by (apply (Rmult_le_reg_r S); [exact HS|]; nra).
  assert (HdS : Rabs (S' - S) <= 5 * u * K).
  { assert (HR'0 : 0 <= R') by lra.
    apply Rle_trans with (1 := sqrt_abs_err R' R HR'0 HR0).
    fold S. apply (Rmult_le_reg_r S); [exact HS|]. unfold Rdiv. rewrite Rmult_assoc, Rinv_l by lra.
    rewrite Rmult_1_r. replace (5 * u * K * S) with (5 * u * (K * S)) by ring. rewrite HKS. exact HdR. }
  (* 1e9/alpha *)
  set (Q := billion / alpha). set (Q' := billion / alpha').
  assert (HB : 0 < billion) by (unfold billion; lra).
  assert (HQ : 0 < Q) by (unfold Q; apply Rmult_lt_0_compat; [exact HB|apply Rinv_0_lt_compat; exact Ha]).
  assert (HQ' : rel Q' Q ((0 + 5 * u) / (1 - 5 * u))).
  { unfold Q, Q'. apply rel_div; [lra|exact Ha|lra|lra|apply rel_exact|split; assumption]. }
  set (eq := (0 + 5 * u) / (1 - 5 * u)) in *.
  assert (Heq : 0 <= eq <= 501 / 100 * u) by (unfold eq; rewrite Hu_val; split; lra).
  pose proof (rel_abs _ _ _ HQ') as HdQ. destruct HQ' as [HQ1 HQ2].
  (* the instants *)
  assert (EY : Y = (b - S) * Q).
  { unfold Y, line_Y, line_S, Q. replace (2 * - alpha * IZR i + b * b) with R by (unfold R; ring). fold S. field. lra. }
  assert (EY' : Y' = (b - S') * Q').
  { unfold Y', line_Y, line_S, Q'. replace (2 * - alpha' * IZR i + b * b) with R' by (unfold R'; ring). fold S'. field. lra. }
  assert (EV : line_V alpha b i = K * Q) by (unfold line_V, K, Q; fold R; fold S; reflexivity).
  assert (EV' : line_V alpha' b i = b * b / S' * Q') by (unfold line_V, Q'; fold R'; fold S'; reflexivity).
  rewrite EV, EV', EY, EY'.
  assert (HW : 0 <= b - S) by lra.
  assert (HYQ : 0 <= (b - S) * Q) by (apply Rmult_le_pos; lra).
  assert (HKQ : (b - S) * Q <= K * Q) by (apply Rmult_le_compat_r; lra).
  assert (HKQ0 : 0 <= K * Q) by lra.
  split; [|split; [|split; assumption]].
  - replace ((b - S') * Q' - (b - S) * Q) with ((S - S') * Q' + (b - S) * (Q' - Q)) by ring.
    apply Rle_trans with (1 := Rabs_triang _ _). rewrite !Rabs_mult.
    rewrite (Rabs_pos_eq (b - S)) by exact HW. rewrite (Rabs_pos_eq Q') by nra.
    rewrite <- (Rabs_Ropp (S - S')). replace (- (S - S')) with (S' - S) by ring.
    assert (T1 : Rabs (S' - S) * Q' <= (5 * u * K) * (Q * (1 + eq))).
    { apply Rmult_le_compat; [apply Rabs_pos|nra|exact HdS|exact HQ2]. }
    assert (T2 : (b - S) * Rabs (Q' - Q) <= (b - S) * (Q * eq)) by (apply Rmult_le_compat_l; [exact HW|exact HdQ]).
    apply Rle_trans with (5 * u * (1 + eq) * (K * Q) + eq * ((b - S) * Q)); [lra|].
    assert (5 * u * (1 + eq) * (K * Q) <= 6 * u * (K * Q)) by (apply Rmult_le_compat_r; [exact HKQ0|nra]).
    assert (eq * ((b - S) * Q) <= 6 * u * ((b - S) * Q)) by (apply Rmult_le_compat_r; [exact HYQ|lra]).
    lra.
  - (* V' <= 21/20 V *)
    assert (HS'0 : 0 < S') by lra.
    assert (Hinv : b * b / S' <= 25 / 24 * K).
    { apply (Rmult_le_reg_r S'); [exact HS'0|]. unfold Rdiv. rewrite Rmult_assoc, Rinv_l by lra. rewrite Rmult_1_r.
      rewrite <- HKS. assert (0 <= K) by lra. nra. }
    apply Rle_trans with ((25 / 24 * K) * (Q * (1 + eq))).
    + apply Rmult_le_compat; [apply Rmult_le_pos; [lra|apply Rlt_le, Rinv_0_lt_compat; exact HS'0]|nra|exact Hinv|exact HQ2].
    + replace (25 / 24 * K * (Q * (1 + eq))) with ((25 / 24 * (1 + eq)) * (K * Q)) by ring.
      apply Rmult_le_compat_r; [exact HKQ0|]. rewrite Hu_val in *. lra.
Qed.

(* NewLine's float64 slope of a decreasing line is minus the slope of the mirrored line *)
Lemma go_line_a_neg from to D : go_line_a from to D = - go_line_a to from D.
Proof.
  unfold go_line_a, fdiv, fsub. replace (to - from) with (- (from - to)) by ring.
  rewrite rnd_opp. replace (- rnd (from - to) / go_secs D) with (- (rnd (from - to) / go_secs D)) by (unfold Rdiv; ring).
  apply rnd_opp.
Qed.

(* lineDoAt with the float64 slope against the exact instant of the exact slope *)
Theorem line_at_dec_f_err_slope alpha alpha' b i :
  0 < alpha -> rel alpha' alpha (5 * u) ->
  is_b64 alpha' -> is_b64 b -> slope_guard alpha' -> rate_guard b -> (0 <= i < 2 ^ 53)%Z ->
  128 * u * (b * b) <= b * b - 2 * alpha * IZR i ->
  let Y := line_Y (- alpha) b i in
  Rabs (go_line_at_f (- alpha') b i - Y) <= 11 * u * Y + 12 * u * line_V alpha b i + eta /\
  0 <= Y <= line_V alpha b i.
Proof.
  intros Ha Hr Fa Fb Hga Hgb Hi HG Y. usmall.
  assert (Hb0 : 0 < b) by (destruct Hgb as [H _]; unfold p2_20 in H; lra).
  destruct (line_perturb_dec alpha alpha' b i Ha Hr Hb0 (proj1 Hi) HG) as (HG' & HdY & HV & HY0 & HYV).
  destruct (line_at_dec_f_err alpha' b i Fa Fb Hga Hgb Hi HG') as (He & HY'0 & _).
  fold Y in HdY, HY0, HYV.
  set (Y' := line_Y (- alpha') b i) in *. set (V := line_V alpha b i) in *. set (V' := line_V alpha' b i) in *.
  split; [|split; assumption].
  replace (go_line_at_f (- alpha') b i - Y) with ((go_line_at_f (- alpha') b i - Y') + (Y' - Y)) by ring.
  apply Rle_trans with (1 := Rabs_triang _ _).
  assert (HY' : Y' <= Y + (6 * u * V + 6 * u * Y)) by (apply Rabs_le_inv in HdY; lra).
  assert (4 * u * Y' <= 4 * u * (Y + (6 * u * V + 6 * u * Y))) by (apply Rmult_le_compat_l; lra).
  assert (5 * u * V' <= 5 * u * (21 / 20 * V)) by (apply Rmult_le_compat_l; lra).
  assert (HV0 : 0 <= V) by lra.
  rewrite Hu_val in *. nra.
Qed.

(* ------------------------------------------------------------------------------------ *)
(* NewLine's count for a decreasing line: n := int64(a*xn*xn/2 + b*xn) with a = -alpha'.  The two
   terms (each a chain of non-negative products) and their difference. *)
Lemma line_terms_rel a a' b D :
  0 < a -> rel a' a (5 * u) -> slope_guard a' -> b = 0 \/ rate_guard b -> (1000000 <= D < 2 ^ 63)%Z ->
  rel (rnd (rnd (rnd (a' * go_secs D) * go_secs D) / 2)) (a * (IZR D / billion) * (IZR D / billion) / 2) (12 * u + 80 * u * u) /\
  rel (rnd (b * go_secs D)) (b * (IZR D / billion)) (4 * u) /\
  0 <= a * (IZR D / billion) * (IZR D / billion) / 2 /\ 0 <= b * (IZR D / billion).
Proof.
  intros Ha Hr [Hg1 Hg2] Hb HD. usmall. unfold p2_40, p2_50 in *.
  pose proof tiny_le_2m100 as Ht. pose proof tiny_pos as Ht0.
  destruct (go_secs_rel D) as [Hs Hst]; [lia|].
  assert (HD1 : 1000000 <= IZR D) by (apply IZR_le; lia).
  assert (HT : / 1000 <= IZR D / billion).
  { unfold Rdiv, billion. apply Rle_trans with (1000000 * / 1000000000); [lra|]. apply Rmult_le_compat_r; lra. }
  set (T := IZR D / billion) in *. set (xn := go_secs D) in *.
  assert (Hxn : / 2000 <= xn).
  { destruct Hs as [Hs1 _]. apply Rle_trans with (T * (1 - (2 * u + u * u))); [|exact Hs1]. nra. }
  assert (Hb0 : 0 <= b) by (destruct Hb as [->|[Hb _]]; [lra|unfold p2_20 in Hb; lra]).
  assert (Ha' : / 1099511627776 <= a') by exact Hg1.
  (* a*xn *)
  assert (H1 : rel (a' * xn) (a * T) (5 * u + (2 * u + u * u) + 5 * u * (2 * u + u * u))).
  { apply rel_mul; [lra|lra|lra|nra|exact Hr|exact Hs]. }
  set (e1 := 5 * u + (2 * u + u * u) + 5 * u * (2 * u + u * u)) in *.
  assert (He1 : 0 <= e1 <= 7 * u + 12 * u * u) by (unfold e1; nra).
  assert (HaT : 0 <= a * T) by (apply Rmult_le_pos; lra).
  assert (L1 : / 1099511627776 * / 2000 <= a' * xn) by (apply Rmult_le_compat; lra).
  assert (H2 : rel (rnd (a' * xn)) (a * T) (e1 + u + e1 * u)).
  { apply rel_rnd; [exact HaT|nra|right; lra|exact H1]. }
  set (e2 := e1 + u + e1 * u) in *.
  assert (He2 : 0 <= e2 <= 8 * u + 20 * u * u) by (unfold e2; nra).
  assert (L2 : / 1099511627776 * / 2000 / 2 <= rnd (a' * xn)).
  { apply rnd_ge_half; lra. }
  (* (a*xn)*xn *)
  assert (H3 : rel (rnd (a' * xn) * xn) (a * T * T) (e2 + (2 * u + u * u) + e2 * (2 * u + u * u))).
  { apply rel_mul; [exact HaT|lra|nra|nra|exact H2|exact Hs]. }
  set (e3 := e2 + (2 * u + u * u) + e2 * (2 * u + u * u)) in *.
  assert (He3 : 0 <= e3 <= 10 * u + 40 * u * u) by (unfold e3; nra).
  assert (HaTT : 0 <= a * T * T) by (apply Rmult_le_pos; lra).
  assert (L3 : / 1099511627776 * / 2000 / 2 * / 2000 <= rnd (a' * xn) * xn) by (apply Rmult_le_compat; lra).
  assert (H4 : rel (rnd (rnd (a' * xn) * xn)) (a * T * T) (e3 + u + e3 * u)).
  { apply rel_rnd; [exact HaTT|nra|right; lra|exact H3]. }
  set (e4 := e3 + u + e3 * u) in *.
  assert (He4 : 0 <= e4 <= 11 * u + 60 * u * u) by (unfold e4; nra).
  assert (L4 : / 1099511627776 * / 2000 / 2 * / 2000 / 2 <= rnd (rnd (a' * xn) * xn)).
  { apply rnd_ge_half; lra. }
  (* /2 *)
  assert (H5 : rel (rnd (rnd (a' * xn) * xn) / 2) (a * T * T / 2) ((e4 + 0) / (1 - 0))).
  { apply rel_div; [exact HaTT|lra|nra|lra|exact H4|apply rel_exact]. }
  set (e5 := (e4 + 0) / (1 - 0)) in *.
  assert (He5 : e5 = e4) by (unfold e5; field).
  assert (HaTT2 : 0 <= a * T * T / 2) by lra.
  assert (H6 : rel (rnd (rnd (rnd (a' * xn) * xn) / 2)) (a * T * T / 2) (e5 + u + e5 * u)).
  { apply rel_rnd; [exact HaTT2|rewrite He5; nra|right; lra|exact H5]. }
  set (e6 := e5 + u + e5 * u) in *.
  assert (He6 : 0 <= e6 <= 12 * u + 80 * u * u) by (unfold e6; rewrite He5; nra).
  (* b*xn *)
  assert (HbT : 0 <= b * T) by (apply Rmult_le_pos; lra).
  assert (H7 : rel (b * xn) (b * T) (0 + (2 * u + u * u) + 0 * (2 * u + u * u))).
  { apply rel_mul; [exact Hb0|lra|lra|nra|apply rel_exact|exact Hs]. }
  assert (C7 : b * xn = 0 \/ tiny <= b * xn).
  { destruct Hb as [->|[Hb _]]; [left; ring|right]. unfold p2_20 in Hb.
    apply Rle_trans with (/ 1048576 * / 2000); [lra|]. apply Rmult_le_compat; lra. }
  assert (H8 : rel (rnd (b * xn)) (b * T)
                 ((0 + (2 * u + u * u) + 0 * (2 * u + u * u)) + u + (0 + (2 * u + u * u) + 0 * (2 * u + u * u)) * u)).
  { apply rel_rnd; [exact HbT|nra|exact C7|exact H7]. }
  split; [apply (rel_weaken _ _ e6); [exact HaTT2|lra|exact H6]|].
  split; [|split; assumption].
  apply (rel_weaken _ _ ((0 + (2 * u + u * u) + 0 * (2 * u + u * u)) + u + (0 + (2 * u + u * u) + 0 * (2 * u + u * u)) * u));
    [exact HbT|nra|exact H8].
Qed.

Lemma go_line_n_f_neg alpha b D :
  go_line_n_f (- alpha) b D =
  fsub (rnd (b * go_secs D)) (rnd (rnd (rnd (alpha * go_secs D) * go_secs D) / 2)).
Proof.
  unfold go_line_n_f, fadd, fdiv, fmul, fsub. cbv zeta.
  replace (- alpha * go_secs D) with (- (alpha * go_secs D)) by ring. rewrite rnd_opp.
  replace (- rnd (alpha * go_secs D) * go_secs D) with (- (rnd (alpha * go_secs D) * go_secs D)) by ring. rewrite rnd_opp.
  replace (- rnd (rnd (alpha * go_secs D) * go_secs D) / 2) with (- (rnd (rnd (alpha * go_secs D) * go_secs D) / 2)) by (unfold Rdiv; ring).
  rewrite rnd_opp. f_equal. ring.
Qed.

(* consequences of a relative error eps on the value handed to int64() *)
Lemma count_from_err P I eps :
  0 <= I -> 0 <= P -> 0 <= eps <= / 1000 -> Rabs (P - I) <= I * eps ->
  (Zfloor (I * (1 - eps)) <= Zfloor P <= Zfloor (I * (1 + eps)))%Z /\
  (Zfloor P <> Zfloor I -> exists m : Z, Rabs (IZR m - I) <= I * eps) /\
  (I <= bpow radix2 62 -> (0 <= Zfloor P < 2 ^ 63)%Z).
Proof.
  intros HI HP Heps He. apply Rabs_le_inv in He. split; [|split].
  - split; apply Zfloor_le; lra.
  - intros Hne. destruct (Z_lt_le_dec (Zfloor P) (Zfloor I)) as [Hlt|Hge].
    + exists (Zfloor I). pose proof (Zfloor_lb I). pose proof (Zfloor_ub P).
      assert (IZR (Zfloor P) + 1 <= IZR (Zfloor I)) by (rewrite <- plus_IZR; apply IZR_le; lia).
      apply Rabs_le. lra.
    + exists (Zfloor P). pose proof (Zfloor_lb P). pose proof (Zfloor_ub I).
      assert (IZR (Zfloor I) + 1 <= IZR (Zfloor P)) by (rewrite <- plus_IZR; apply IZR_le; lia).
      apply Rabs_le. lra.
  - intros Hb62. split; [apply Zfloor_lub; exact HP|].
    apply lt_IZR. apply Rle_lt_trans with P; [apply Zfloor_lb|].
    replace (IZR (2 ^ 63)) with 9223372036854775808 by (simpl; reflexivity).
    assert (Hb' : I <= 4611686018427387904) by (simpl bpow in Hb62; exact Hb62). nra.
Qed.

(* the float64 sum of a decreasing line: relative error 2^-48 against the exact integral *)
Theorem line_n_dec_f_err alpha alpha' b D :
  0 < alpha -> rel alpha' alpha (5 * u) -> slope_guard alpha' -> rate_guard b -> (1000000 <= D < 2 ^ 63)%Z ->
  alpha * (IZR D / billion) <= b ->
  let I := line_I (- alpha) b D in
  Rabs (go_line_n_f (- alpha') b D - I) <= I * bpow radix2 (-48) /\ 0 <= go_line_n_f (- alpha') b D /\ 0 <= I.
Proof.
  intros Ha Hr Hga Hgb HD Hab I. usmall.
  destruct (line_terms_rel alpha alpha' b D Ha Hr Hga (or_intror Hgb) HD) as (Hh & Hm & HH0 & HM0).
  rewrite go_line_n_f_neg.
  set (T := IZR D / billion) in *. set (xn := go_secs D) in *.
  set (h := rnd (rnd (rnd (alpha' * xn) * xn) / 2)) in *. set (m := rnd (b * xn)) in *.
  set (H := alpha * T * T / 2) in *. set (M := b * T) in *.
  assert (HT : 0 < T).
  { unfold T, billion. apply Rmult_lt_0_compat; [apply IZR_lt; lia|apply Rinv_0_lt_compat; lra]. }
  assert (EI : I = M - H) by (unfold I, line_I, M, H, T; cbv zeta; unfold Rdiv; ring).
  assert (HHM : H <= M / 2).
  { unfold H, M. replace (alpha * T * T / 2) with ((alpha * T) * T / 2) by ring.
    assert (alpha * T * T <= b * T) by (apply Rmult_le_compat_r; lra). lra. }
  assert (HI : H <= I /\ M <= 2 * I) by (rewrite EI; lra).
  assert (HI0 : 0 <= I) by lra.
  pose proof (rel_abs _ _ _ Hh) as Eh. pose proof (rel_abs _ _ _ Hm) as Em.
  assert (Fm : is_b64 m) by apply is_b64_rnd. assert (Fh : is_b64 h) by apply is_b64_rnd.
  pose proof (fsub_err m h Fm Fh) as Es.
  assert (E1 : Rabs ((m - h) - I) <= 21 * u * I).
  { rewrite EI. replace (m - h - (M - H)) with ((m - M) - (h - H)) by ring.
    apply Rle_trans with (Rabs (m - M) + Rabs (h - H)).
    - unfold Rminus at 1. rewrite <- (Rabs_Ropp (h - H)). apply Rabs_triang.
    - rewrite <- EI. rewrite Hu_val in *. nra. }
  assert (E2 : Rabs (m - h) <= I + 21 * u * I) by (apply Rabs_le_inv in E1; apply Rabs_le; nra).
  assert (E3 : Rabs (fsub m h - I) <= 23 * u * I).
  { replace (fsub m h - I) with ((fsub m h - (m - h)) + ((m - h) - I)) by ring.
    apply Rle_trans with (1 := Rabs_triang _ _).
    assert (u * Rabs (m - h) <= u * (I + 21 * u * I)) by (apply Rmult_le_compat_l; lra).
    rewrite Hu_val in *. nra. }
  assert (Hb : bpow radix2 (-48) = 32 * u) by (unfold u; simpl bpow; lra).
  rewrite Hb. split; [|split; [|exact HI0]].
  - nra.
  - apply Rabs_le_inv in E3. rewrite Hu_val in *. nra.
Qed.
